#!/usr/bin/env python3
"""(re)generate /verif/MANIFEST.json from tools/manifest_src.json + the property list"""
import json, os
V = os.path.dirname(os.path.dirname(os.path.abspath(__file__)))
src = json.load(open(os.path.join(V, "tools", "manifest_src.json")))
props = [json.loads(l) for l in open(os.path.join(V, "properties.jsonl"))]
checks, na = [], []
for p in props:
    pid = p["id"]
    c = src["checks"].get(pid)
    if c and os.path.exists(os.path.join(V, "vlib", "props", pid.lower() + ".py")):
        checks.append({
            "property_id": pid,
            "quick_cmd": "./check %s --tier quick" % pid,
            "thorough_cmd": "./check %s --tier thorough" % pid,
            "evidence_file": "evidence/%s.json" % pid,
            "replay_cmd_template": "./check %s --replay {path}" % pid,
            "engine": "lean4-model+correspondence",
            "level_claimed": {"category": "proof", "text": c["text"], "design_ref": c.get("design_ref", "DESIGN.md §5 " + pid)},
            "level_note": c["note"],
            "technique": c.get("technique", "Lean 4 theorems (refinement of a hand-written implementation model to an abstract spec) + differential correspondence of the model's executable definitions with the real code"),
        })
    else:
        na.append({"property_id": pid, "reason": src["not_yet"].get(pid, "check not built yet (work in progress; see DESIGN.md §11 build order) — nothing is claimed for this property")})
m = {
    "version": 1,
    "setup_cmd": "./check --setup",
    "hooks": {"guard": "MPT_BASE_VERIF", "enable": "every harness compile passes -DMPT_BASE_VERIF (vlib/build.py); no source hook exists in /repo",
              "baseline_off_cmd": "tools/baseline.sh", "source_commits": [], "add_only": True},
    "engines": [{"name": "lean4-model+correspondence", "path": "check", "serves_properties": [c["property_id"] for c in checks],
                 "kind_free_text": "Lean 4 models/specs/theorems in lean/MptModel (lake build + #print axioms audit + statement lock), line-protocol drivers in harness/ linked against /repo's sources compiled in place with ASan/UBSan, orchestrated by vlib/"}],
    "checks": checks,
    "notes": src.get("notes", ""),
    "not_applicable": na,
}
json.dump(m, open(os.path.join(V, "MANIFEST.json"), "w"), indent=1)
print("checks:", [c["property_id"] for c in checks], "not claimed:", len(na))
