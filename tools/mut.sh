#!/bin/sh
# usage: tools/mut.sh <Cxx> <file-relative-to-repo> <sed-expression> [tier]
# applies the edit in a scratch worktree of /repo's HEAD, runs the check against it, removes the worktree
P=$1; F=$2; E=$3; T=${4:-quick}
W=/var/tmp/mut-$P-$$
git -C /repo worktree add -q $W HEAD || exit 2
sed -i "$E" $W/$F
if git -C $W diff --quiet; then echo "mutation did not change anything"; git -C /repo worktree remove --force $W; exit 2; fi
git -C $W diff | grep '^[-+][^-+]' | head -6
VERIF_REPO=$W /verif/check $P --tier $T 2>&1 | grep -v "^KNOWN" | tail -3 | cut -c1-400
git -C /repo worktree remove --force $W
