#!/bin/bash
# usage: tools/sweep.sh <tier> <seed>...   runs every claimed check at the given seeds, one summary line each
T=$1; shift
for s in "$@"; do
  for p in $(python3 -c "import json;print(' '.join(c['property_id'] for c in json.load(open('/verif/MANIFEST.json'))['checks']))"); do
    out=$(cd /verif && VERIF_SEED=$s timeout 3000 ./check $p --tier $T 2>&1)
    rc=$?
    echo "seed=$s rc=$rc $(echo "$out" | grep -v '^KNOWN' | tail -1 | cut -c1-220)"
    echo "$out" | grep '^VIOLATION' | head -3
  done
done
