#!/usr/bin/env python3
"""usage: tools/mutsweep.py Cxx [--n 30] [--seed 1] [--files a.c,b.c] [--tier quick]
Self-validation, not a registered command: generates small syntactic mutants of the property's anchor files
(relational/logical operator flips, off-by-one constants, dropped statements, negated conditions) in a scratch
worktree, keeps those that COMPILE and PASS the repository's own test suite, and runs the property's check against
each through VERIF_REPO.  Result: /verif/mutation/Cxx.json (killed with a failing input / only
no-failing-input-found / survived) and the diffs of the survivors for inspection (equivalent mutant or gap)."""
import argparse, json, os, random, re, subprocess, sys, time

VERIF = os.path.dirname(os.path.dirname(os.path.abspath(__file__)))
ap = argparse.ArgumentParser()
ap.add_argument("pid")
ap.add_argument("--n", type=int, default=30)
ap.add_argument("--seed", type=int, default=1)
ap.add_argument("--files", default="")
ap.add_argument("--tier", default="quick")
a = ap.parse_args()

anchors = []
for line in open(os.path.join(VERIF, "properties.jsonl")):
    p = json.loads(line)
    if p["id"] == a.pid:
        anchors = [f for f in p["anchors"]["files"] if f.endswith((".c", ".cpp", ".h"))]
if a.files:
    anchors = a.files.split(",")

_done = os.path.join(VERIF, "mutation", a.pid + ".json")
_run = "/tmp/mutsweep/%s.running" % a.pid
if (os.path.exists(_done) and time.time() - os.path.getmtime(_done) < 6 * 3600 and not os.environ.get("MSW_FORCE")) or os.path.exists(_run):
    sys.exit("already done or running: " + a.pid)
os.makedirs("/tmp/mutsweep", exist_ok=True)
open(_run, "w").close()
import atexit
atexit.register(lambda: os.path.exists(_run) and os.unlink(_run))
W = "/var/tmp/msw-%s-%d" % (a.pid, os.getpid())
subprocess.check_call(["git", "-C", "/repo", "worktree", "add", "-q", W, "HEAD"])


def sh(cmd, **kw):
    return subprocess.run(cmd, shell=True, cwd=W, stdout=subprocess.PIPE, stderr=subprocess.STDOUT, **kw)


OPS = [
    (r"(?<![<>=!-])<(?![<=])", "<="), (r"<=", "<"), (r"(?<![<>=!-])>(?![>=])", ">="), (r">=", ">"),
    (r"==", "!="), (r"!=", "=="), (r"&&", "||"), (r"\|\|", "&&"),
    (r"\+ 1\b", "+ 0"), (r"- 1\b", "- 0"), (r"\+\+", "--"), (r"--(?!>)", "++"), (r"\+=", "-="), (r"-=", "+="),
    (r"\bif \(!", "if ("), (r"\bif \((?!!)", "if (!"), (r"\b0x7f\b", "0xff"), (r"\bsizeof\(\*", "sizeof("),
]


def candidates(path):
    out = []
    try:
        lines = open(os.path.join(W, path), errors="replace").read().split("\n")
    except OSError:
        return out
    incomment = False
    for i, ln in enumerate(lines):
        st = ln.strip()
        if incomment:
            if "*/" in st:
                incomment = False
            continue
        if st.startswith("/*"):
            if "*/" not in st:
                incomment = True
            continue
        if not st or st.startswith(("#", "*", "//", "extern ", "static const char")) or "MPT_tr(" in st or "mpt_log(" in st:
            continue
        code = ln.split("//")[0]
        for pat, rep in OPS:
            for mm in re.finditer(pat, code):
                # not inside a string literal
                if code[:mm.start()].count('"') % 2:
                    continue
                out.append((path, i, "%s->%s" % (mm.group(0), rep), code[:mm.start()] + rep + code[mm.end():]))
        # dropped statement: an assignment or call on a line of its own
        if re.match(r"^\s+[A-Za-z_(*][^;{}]*[=(][^;{}]*;\s*$", code) and not re.match(r"^\s+(return|break|continue|goto|int|size_t|char|const|unsigned|struct|MPT_STRUCT|MPT_INTERFACE|uint|ssize_t|long|void|static)\b", code):
            out.append((path, i, "drop-stmt", re.match(r"^\s*", code).group(0) + ";"))
    return out


try:
    r = sh("cmake -G Ninja -B _build -DCMAKE_C_FLAGS=-Wno-error -DCMAKE_CXX_FLAGS=-Wno-error >/dev/null 2>&1 && cmake --build _build >/dev/null 2>&1")
    if r.returncode:
        sys.exit("baseline build failed")
    cands = []
    for f in anchors:
        cands += candidates(f)
    rng = random.Random("%s/%d" % (a.pid, a.seed))
    rng.shuffle(cands)
    res = []
    outdir = os.path.join("/tmp/mutsweep", a.pid)
    os.makedirs(outdir, exist_ok=True)
    tried = 0
    for (path, i, op, newline) in cands:
        if len([x for x in res if x["class"] not in ("uncompilable", "suite")]) >= a.n or tried >= 4 * a.n:
            break
        tried += 1
        full = os.path.join(W, path)
        orig = open(full, errors="replace").read()
        lines = orig.split("\n")
        old = lines[i]
        lines[i] = newline
        open(full, "w").write("\n".join(lines))
        entry = {"file": path, "line": i + 1, "op": op, "old": old.strip()[:160], "new": newline.strip()[:160]}
        t0 = time.time()
        b = sh("cmake --build _build 2>&1 | tail -3")
        if sh("cmake --build _build >/dev/null 2>&1").returncode:
            entry["class"] = "uncompilable"
        else:
            t = sh("ctest --test-dir _build -j8 --timeout 120 2>&1 | grep 'tests passed'")
            if b"100% tests passed" not in t.stdout:
                entry["class"] = "suite"
            else:
                c = subprocess.run([os.path.join(VERIF, "check"), a.pid, "--tier", a.tier], cwd=VERIF,
                                   env=dict(os.environ, VERIF_REPO=W), stdout=subprocess.PIPE, stderr=subprocess.STDOUT)
                out = c.stdout.decode(errors="replace")
                viol = [l for l in out.splitlines() if l.startswith("VIOLATION")]
                strong = [l for l in viol if "no-failing-input-found" not in l]
                entry["summary"] = out.strip().splitlines()[-1][:300] if out.strip() else ""
                if strong:
                    entry["class"] = "killed"
                elif viol or c.returncode:
                    entry["class"] = "weak"
                else:
                    entry["class"] = "survived"
                    d = sh("git diff").stdout.decode(errors="replace")
                    open(os.path.join(outdir, "survivor-%d.diff" % len(res)), "w").write(d)
                    entry["diff"] = d[:1500]
        entry["s"] = round(time.time() - t0, 1)
        res.append(entry)
        open(full, "w").write(orig)
        print("%-9s %s:%d %s" % (entry["class"], path, i + 1, op), flush=True)
    eff = [x for x in res if x["class"] in ("killed", "weak", "survived")]
    summ = {"property": a.pid, "seed": a.seed, "tier": a.tier, "candidates": len(cands), "tried": len(res),
            "compile_and_pass_suite": len(eff), "killed_with_failing_input": len([x for x in eff if x["class"] == "killed"]),
            "weak_no_failing_input": len([x for x in eff if x["class"] == "weak"]),
            "survived": len([x for x in eff if x["class"] == "survived"]), "mutants": res}
    os.makedirs(os.path.join(VERIF, "mutation"), exist_ok=True)
    json.dump(summ, open(os.path.join(VERIF, "mutation", a.pid + ".json"), "w"), indent=1)
    print({k: v for k, v in summ.items() if k != "mutants"})
finally:
    subprocess.call(["git", "-C", "/repo", "worktree", "remove", "--force", W])
