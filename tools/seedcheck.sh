#!/bin/bash
# usage: tools/seedcheck.sh <Cxx> <dir with patch.diff and demo.sh> [tier]
# Confirms a seeded change: applies to a scratch worktree of /repo HEAD, builds, runs the repo's test suite,
# runs the demonstration with and without the change, then runs our check against the changed tree.
P=$1; D=$(readlink -f $2); T=${3:-quick}
W=/var/tmp/seed-$P-$$
B=/var/tmp/seed-$P-$$-base
out() { echo "[seedcheck $P $(basename $D)] $*"; }
git -C /repo worktree add -q $W HEAD || exit 2
git -C /repo worktree add -q $B HEAD || exit 2
cleanup() { git -C /repo worktree remove --force $W; git -C /repo worktree remove --force $B; }
if ! git -C $W apply $D/patch.diff; then out "patch does not apply"; cleanup; exit 3; fi
for X in $W $B; do
  (cd $X && cmake -G Ninja -B _build -DCMAKE_BUILD_TYPE=RelWithDebInfo -DCMAKE_C_FLAGS=-Wno-error -DCMAKE_CXX_FLAGS=-Wno-error >/dev/null 2>&1 && cmake --build _build >/dev/null 2>&1) || { out "build failed in $X"; cleanup; exit 4; }
done
TESTS=$(cd $W && ctest --test-dir _build -j8 --timeout 900 2>&1 | grep "tests passed" )
out "suite with change: $TESTS"
(cd $D && timeout 600 bash ./demo.sh $B >/dev/null 2>&1); RB=$?
(cd $D && timeout 600 bash ./demo.sh $W >/dev/null 2>&1); RW=$?
out "demo: unchanged tree exit=$RB (want 0), changed tree exit=$RW (want non-zero)"
VERIF_REPO=$W /verif/check $P --tier $T 2>&1 | grep -v "^KNOWN" | tail -4 | cut -c1-500
cleanup
