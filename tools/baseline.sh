#!/bin/sh
# the repository's own test suite, hook guard OFF (plain cmake build); serialised with flock
exec flock /tmp/mpt-base-baseline.lock sh -c 'cmake --build /repo/_build >/dev/null 2>&1 || cmake --build /repo/_build; ctest --test-dir /repo/_build -j8 --timeout 900'
