#!/usr/bin/env python3
"""rewrite the generated regions of DESIGN.md: seeded-change table (§13) and the defect/finding summary (§6a)"""
import glob, json, os, re, collections
V = os.path.dirname(os.path.dirname(os.path.abspath(__file__)))
rows = []
for d in sorted(glob.glob(os.path.join(V, "seeded", "*"))):
    mp = os.path.join(d, "meta.json")
    if not os.path.exists(mp):
        continue
    m = json.load(open(mp))
    patch = open(os.path.join(d, "patch.diff")).read() if os.path.exists(os.path.join(d, "patch.diff")) else ""
    files = sorted(set(re.findall(r"^\+\+\+ b/(\S+)", patch, re.M)))
    oc = m.get("our_check", {})
    cls = oc.get("class", "?")
    summ = oc.get("summary") or ""
    mm = re.search(r"outcomes (\{[^}]*\})", summ)
    counts = ""
    if mm:
        try:
            o = eval(mm.group(1))
            counts = ", ".join("%s=%d" % (k, v) for k, v in o.items() if v and k not in ("ok", "skipped"))
        except Exception:
            pass
    th = re.search(r"theorems (\d+)/(\d+)", summ)
    proof = ""
    if th and th.group(1) != th.group(2):
        proof = "; proof obligation broken (%s/%s)" % (th.group(1), th.group(2))
    what = (m.get("breaks") or "").replace("\n", " ")
    what = re.sub(r"\s+", " ", what)[:230]
    rows.append("| %s | %s | %s | %s%s%s |" % (os.path.basename(d), ", ".join(files), what.replace("|", "/"),
                cls, (" (" + counts + ")") if counts else "", proof))
seed_tbl = "| id | file(s) | what the change does / needs | `./check %s` on the changed tree |\n|---|---|---|---|\n" % "Cxx" + "\n".join(rows)
n_det = len([r for r in rows if "violation with failing input" in r])
n_weak = len([r for r in rows if "no-failing-input-found" in r])
n_miss = len(rows) - n_det - n_weak
seed_txt = ("%d seeded changes stored; detected with a failing input: %d; detected as broken proof/correspondence only "
            "(`no-failing-input-found`): %d; missed: %d.\n\n" % (len(rows), n_det, n_weak, n_miss)) + seed_tbl

fixed = collections.defaultdict(list)
finds = collections.defaultdict(list)
for ln in open(os.path.join(V, "known-findings.txt")):
    m = re.match(r"fixed: property=(\S+) (\S+) (.*)", ln.strip())
    if m:
        fixed[m.group(1)].append((m.group(2), m.group(3)))
    m = re.match(r"finding: property=(\S+) key=(\S+) (.*)", ln.strip())
    if m:
        finds[m.group(1)].append((m.group(2), m.group(3)))
out = ["%d defects repaired by `fix:` commits, %d known findings (authoritative list: `known-findings.txt`).\n" % (
    sum(len(v) for v in fixed.values()), sum(len(v) for v in finds.values()))]
out.append("| property | fixed | commits |\n|---|---|---|")
for p in sorted(fixed):
    out.append("| %s | %d | %s |" % (p, len(fixed[p]), " ".join(c for c, _ in fixed[p])))
out.append("\nKnown findings (genuine defects not repaired; the check prints `KNOWN-FINDING` for exactly these keys):\n")
for p in sorted(finds):
    for k, t in finds[p]:
        out.append("* **%s** `%s` — %s" % (p, k, t[:600]))
defect_txt = "\n".join(out)

# --- per-property proof inventory (theorem names from the statement lock, statement-only defs from the Props files)
lock = json.load(open(os.path.join(V, "lean", "MptModel", "Props", "STATEMENTS.lock")))
src = json.load(open(os.path.join(V, "tools", "manifest_src.json")))
prows = ["| id | theorems (locked statements) | stated only (`def …_statement`) | driver parts |", "|---|---|---|---|"]
import importlib, sys
sys.path.insert(0, V)
for pid in sorted(lock):
    names = [n.split(".")[-1] for n in lock[pid]]
    pf = os.path.join(V, "lean", "MptModel", "Props", pid + ".lean")
    stm = re.findall(r"^def (\w+_statement)", open(pf).read(), re.M) if os.path.exists(pf) else []
    try:
        mod = importlib.import_module("vlib.props." + pid.lower())
        parts = [mod.driver] + [q.driver for q in getattr(mod, "extra_parts", [])]
    except Exception as e:
        parts = ["?"]
    prows.append("| %s | %d: %s | %s | %s |" % (pid, len(names), ", ".join("`%s`" % n for n in names),
                                             ", ".join("`%s`" % n for n in stm) or "—", ", ".join(parts)))
proof_txt = ("Generated from `lean/MptModel/Props/STATEMENTS.lock` (every listed theorem is built, audited with `#print axioms` and "
             "compared with its locked statement hash on every run) and from the `def …_statement` declarations of the Props files. "
             "What each theorem says is in the `level_claimed.text` of MANIFEST.json and in the doc comments of `Props/Cxx.lean`.\n\n"
             + "\n".join(prows))

p = os.path.join(V, "DESIGN.md")
s = open(p).read()
for tag, txt in (("SEEDED", seed_txt), ("DEFECTS", defect_txt), ("PROOFS", proof_txt)):
    a, b = "<!-- BEGIN GENERATED %s -->" % tag, "<!-- END GENERATED %s -->" % tag
    if a in s:
        s = s[:s.index(a) + len(a)] + "\n" + txt + "\n" + s[s.index(b):]
open(p, "w").write(s)
print("seeded:", len(rows), "det", n_det, "weak", n_weak, "missed", n_miss)
