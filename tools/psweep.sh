#!/bin/bash
# usage: tools/psweep.sh <tier> <jobs> <seed>... [-- Cxx ...]   like sweep.sh, but <jobs> properties at a time
T=$1; J=$2; shift 2
SEEDS=(); PROPS=()
while [ $# -gt 0 ] && [ "$1" != "--" ]; do SEEDS+=("$1"); shift; done
[ "$1" = "--" ] && shift
PROPS=("$@")
[ ${#PROPS[@]} -eq 0 ] && PROPS=($(python3 -c "import json;print(' '.join(c['property_id'] for c in json.load(open('/verif/MANIFEST.json'))['checks']))"))
for s in "${SEEDS[@]}"; do
  printf "%s\n" "${PROPS[@]}" | xargs -P $J -I{} sh -c 'out=$(cd /verif && VERIF_SEED='$s' timeout 6000 ./check {} --tier '$T' 2>&1); rc=$?; echo "seed='$s' rc=$rc $(echo "$out" | grep -v "^KNOWN" | tail -1 | cut -c1-200)"; echo "$out" | grep "^VIOLATION" | head -3'
done
