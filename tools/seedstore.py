#!/usr/bin/env python3
"""store a confirmed seeded change: tools/seedstore.py <Cxx> <k> [<srcdir>]  -> /verif/seeded/<Cxx>-<k>/"""
import json, os, re, shutil, sys
P, K = sys.argv[1], sys.argv[2]
src = sys.argv[3] if len(sys.argv) > 3 else "/tmp/seedout-%s/%s" % (P, K)
log = open("/tmp/seedlogs/%s-%s.log" % (P, K)).read()
dst = "/verif/seeded/%s-%s" % (P, K)
if os.path.exists(dst):
    shutil.rmtree(dst)
os.makedirs(dst)
for f in os.listdir(src):
    fp = os.path.join(src, f)
    if os.path.isfile(fp) and os.path.getsize(fp) < 200000:
        shutil.copy(fp, dst)
notes = open(os.path.join(src, "notes.txt")).read() if os.path.exists(os.path.join(src, "notes.txt")) else ""
suite = re.search(r"suite with change: (.*)", log)
demo = re.search(r"demo: (.*)", log)
viol = re.findall(r"^VIOLATION .*$", log, re.M)
summ = re.findall(r"^C\d+ (?:ok|FAIL) .*$", log, re.M)
kinds = "none"
if viol:
    kinds = "no-failing-input-found" if all("no-failing-input-found" in v for v in viol) else "violation with failing input"
meta = {
    "property": P,
    "breaks": notes.strip().split("\n\n")[0][:1500],
    "needs_to_manifest": notes.strip()[:4000],
    "source": "fresh sub-agent given only the property text and a scratch worktree (no access to /verif)",
    "confirmed": {
        "ran": ["tools/seedcheck.sh %s <dir> : apply patch.diff to a scratch worktree of /repo HEAD, cmake+ninja build, ctest, "
                "bash demo.sh <pristine tree>, bash demo.sh <changed tree>, VERIF_REPO=<changed tree> ./check %s --tier quick" % (P, P)],
        "suite_with_change": suite.group(1) if suite else None,
        "demo": demo.group(1) if demo else None,
    },
    "our_check": {"detected": bool(viol), "class": kinds, "violation_lines": [re.sub(r"/verif/replays/", "replays/", v) for v in viol[:3]],
                  "summary": summ[-1][:400] if summ else None},
}
json.dump(meta, open(os.path.join(dst, "meta.json"), "w"), indent=1)
print(dst, meta["our_check"]["class"])
