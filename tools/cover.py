#!/usr/bin/env python3
"""usage: tools/cover.py Cxx [tier]   (measurement, not a registered command)
Line coverage of the property's anchor files (and of every other library file the drivers reach) under the
scripts the check generates: builds the library with --coverage next to the sanitizers, runs ./check, then gcov.
Prints one line per anchor file and the list of anchor-file lines never executed."""
import glob, json, os, re, subprocess, sys
VERIF = os.path.dirname(os.path.dirname(os.path.abspath(__file__)))
pid = sys.argv[1]
tier = sys.argv[2] if len(sys.argv) > 2 else "quick"
env = dict(os.environ, VERIF_COVER="1")
sys.path.insert(0, VERIF)
os.environ["VERIF_COVER"] = "1"
from vlib import build
c, cxx, hdr = build.source_files()
objdir = os.path.join(build.BUILD, "obj-" + build.tree_hash(c + cxx + hdr))
import fcntl
_lock = open(os.path.join(build.BUILD, "cover.lock"), "w")
fcntl.flock(_lock, fcntl.LOCK_EX)      # one measurement at a time: the .gcda files are shared
for f in glob.glob(os.path.join(objdir, "*.gcda")):
    os.unlink(f)
r = subprocess.run([os.path.join(VERIF, "check"), pid, "--tier", tier], env=env, stdout=subprocess.PIPE, stderr=subprocess.STDOUT)
print(r.stdout.decode().strip().splitlines()[-1])
anchors = []
for line in open(os.path.join(VERIF, "properties.jsonl")):
    p = json.loads(line)
    if p["id"] == pid:
        anchors = p["anchors"]["files"]
out = os.path.join(build.BUILD, "cover-" + pid)
os.makedirs(out, exist_ok=True)
for f in glob.glob(os.path.join(out, "*.gcov")):
    os.unlink(f)
gcda = sorted(glob.glob(os.path.join(objdir, "*.gcda")))
if gcda:
    subprocess.run(["gcov", "-p"] + gcda, cwd=out, stdout=subprocess.DEVNULL, stderr=subprocess.DEVNULL)
res = {}
for g in glob.glob(os.path.join(out, "*.gcov")):
    src = None; tot = hit = 0; miss = []
    for l in open(g, errors="replace"):
        m = re.match(r"\s*([^:]+):\s*(\d+):(.*)", l)
        if not m: continue
        cnt, no, text = m.group(1).strip(), int(m.group(2)), m.group(3)
        if no == 0:
            if text.startswith("Source:"): src = text[7:]
            continue
        if cnt == "-": continue
        tot += 1
        if cnt.startswith("#") or cnt.startswith("="): miss.append(no)
        else: hit += 1
    if src and "/repo/" in src + "/":
        rel = os.path.relpath(src, build.REPO) if src.startswith(build.REPO) else src
        old = res.get(rel)
        if old is None or hit > old[0]:
            res[rel] = (hit, tot, miss)
print("%-48s %8s" % ("anchor file", "lines"))
for a in anchors:
    if a in res:
        h, t, miss = res[a]
        print("%-48s %4d/%-4d %s" % (a, h, t, ("not run: " + ",".join(map(str, miss[:40]))) if miss else ""))
    else:
        print("%-48s   (not compiled into a driver object / header / non-C)" % a)
others = sorted((k for k in res if k not in anchors and res[k][0] > 0), key=lambda k: -res[k][0])
print("other library files reached: %d (%s ...)" % (len(others), ", ".join(others[:12])))
