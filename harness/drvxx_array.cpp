/* line-protocol driver: the C++ array layer (mpt++/array.cpp, templates of mptcore/array.h) for C04 and C05.
 * Same output format as drv_array.c; ops are prefixed `x`.  One kind of handle per script:
 *   arr            mpt::array (raw bytes)
 *   t1 t12 te      mpt::typed_array<uint8_t | Pod (12 bytes) | Elem>   (copyable buffers)
 *   u1 u12 ue      mpt::unique_array<...>                              (BufferNoCopy buffers)
 *   mp             mpt::map<uint8_t, uint8_t>                          (typed_array of 2-byte entries)
 *   pa             mpt::pointer_array<uint8_t>                         (typed_array of pointers: swap, compact)
 * Elem is an element type whose constructors/destructor log creation-order tokens (C05); for the kinds
 * te/ue the result lines have the C05 form (R = legality of the callback log). */
extern "C" {
#include "drv_util.h"
extern size_t __sanitizer_get_current_allocated_bytes(void);
}
#include <errno.h>
#include <limits.h>
#include <new>
/* The buffers are C objects with a hand-made vtable (buffer_alloc.c), which UBSan's C++ vptr check cannot
 * accept.  The code under test mpt++/array.cpp is therefore compiled as part of this translation unit
 * (found through the include path of the tree under test) with that one check switched off
 * (`link_extra = -fno-sanitize=vptr` in the property module); everything else stays sanitised. */
#include "array.cpp"
#include "io_buffer.cpp"   /* same reason: io::buffer reads the C buffer through a C++ member call */
#include "types.h"
#include "array.h"

using namespace mpt;

/* ------------------------------------------------------------------ element types */
struct Pod { uint8_t b[12]; };

#define MAXTOK 4096
static unsigned tok_next = 1;
static unsigned char live[MAXTOK];
static char evlog[1 << 16];
static size_t evlen;
static char illegal[256];

static void ev(const char *fmt, unsigned a, unsigned b)
{
	if (evlen + 40 > sizeof(evlog)) return;
	if (evlen) evlog[evlen++] = ',';
	evlen += snprintf(evlog + evlen, 32, fmt, a, b);
}
static void mark_illegal(const char *what, unsigned tok)
{
	if (!illegal[0]) snprintf(illegal, sizeof(illegal), "%s:%u", what, tok);
}
struct Elem
{
	uint32_t tok;
	Elem() : tok(tok_next++)
	{
		ev("i%u", tok, 0);
		if (tok < MAXTOK) live[tok] = 1;
	}
	Elem(const Elem &from) : tok(tok_next++)
	{
		ev("c%u<%u", tok, from.tok);
		if (from.tok >= MAXTOK || !live[from.tok]) mark_illegal("copy-from-dead", from.tok);
		if (tok < MAXTOK) live[tok] = 1;
	}
	~Elem()
	{
		ev("f%u", tok, 0);
		if (tok >= MAXTOK || !live[tok]) mark_illegal("fini-dead", tok);
		else live[tok] = 0;
		tok = 0xddddddddu;
	}
private:
	Elem &operator=(const Elem &);
};

/* ------------------------------------------------------------------ handles */
static const char *traits_name(const struct type_traits *t)
{
	if (!t) return "-";
	if (t == type_properties<uint8_t>::traits()) return "x1";
	if (t == type_properties<Pod>::traits()) return "x12";
	if (t == type_properties<Elem>::traits()) return "xe";
	if (t == type_properties<map<uint8_t, uint8_t>::entry>::traits()) return "xm";
	if (t == type_properties<uint8_t *>::traits()) return "xp";
	if (t == type_traits::get('c')) return "c";
	if (t == type_traits::get('i')) return "i";
	if (t == type_traits::get('d')) return "d";
	return "?";
}
struct H
{
	virtual ~H() { }
	virtual const buffer *buf() const = 0;
	virtual H *copy() const = 0;               /* copy construction */
	virtual void assign(const H &) = 0;        /* operator= */
	/* array */
	virtual void *set(size_t, const void *) { return 0; }
	virtual void *insert(size_t, size_t, const void *) { return 0; }
	virtual void *append(size_t, const void *) { return 0; }
	virtual bool from_slice(const H &, size_t, size_t) { return false; }
	virtual int setv(const value &) { return -1; }
	virtual int setc(convertable &) { return -1; }
	virtual int print(const char *) { return -1; }
	virtual int ebuf(size_t, char *, size_t) { return -2; }
	/* typed */
	virtual int tinsert(long, const uint8_t *) { return -1; }
	virtual int tset(long, const uint8_t *) { return -1; }
	virtual int resize(long) { return -1; }
	virtual int reserve(long) { return -1; }
	virtual int detach() { return -1; }
	virtual int trim(size_t) { return -1; }
	virtual int skip(size_t) { return -1; }
	/* map */
	virtual int mset(uint8_t, uint8_t) { return -2; }
	virtual int mget(uint8_t) { return -2; }
	/* pointer_array */
	virtual int pswap(long, long) { return -2; }
	virtual int pcompact() { return -2; }
	virtual bool is_array() const { return false; }
	virtual bool is_map() const { return false; }
};
class XA : public array
{
public:
	XA() { }
	XA(const XA &a) : array(a) { }
	const buffer *b() const { return _buf.instance(); }
};
/* a convertable that offers exactly one representation: v = generic vector, c = character vector, s = string,
 * z = "no string" (conversion to 's' answers 0), e = nothing */
struct Conv : public convertable
{
	int mode;
	struct iovec vec;
	const char *txt;
	int convert(type_t type, void *ptr) __MPT_OVERRIDE
	{
		if (!type) { if (ptr) *static_cast<const uint8_t **>(ptr) = 0; return 0; }
		if ((mode == 'v' && type == TypeVector) || (mode == 'c' && type == MPT_type_toVector('c'))) {
			if (ptr) *static_cast<struct iovec *>(ptr) = vec;
			return type;
		}
		if (mode == 's' && type == 's') { if (ptr) *static_cast<const char **>(ptr) = txt; return 's'; }
		if (mode == 'z' && type == 's') { if (ptr) *static_cast<const char **>(ptr) = 0; return 0; }
		return BadType;
	}
};
struct HA : H
{
	XA a;
	HA() { }
	HA(const HA &o) : a(o.a) { }
	const buffer *buf() const { return a.b(); }
	H *copy() const { return new HA(*this); }
	void assign(const H &o) { a = static_cast<const HA &>(o).a; }
	void *set(size_t n, const void *d) { return a.set(n, d); }
	void *insert(size_t o, size_t n, const void *d) { return a.insert(o, n, d); }
	void *append(size_t n, const void *d) { return a.append(n, d); }
	int setv(const value &v) { return a.set(v); }
	int setc(convertable &c) { return a.set(c); }
	int print(const char *txt) { return a.printf("%s", txt); }
	/* an io::buffer over the array (a further handle on the same data) consumes n bytes and compacts itself */
	int ebuf(size_t n, char *hex, size_t max)
	{
		static const char dg[] = "0123456789abcdef";
		io::buffer b(a);
		int r = b.shift(n) ? 1 : 0;
		r |= (b.shift(0) ? 2 : 0);
		/* what the buffer still offers to its reader */
		span<const uint8_t> d = b.data();
		size_t k = 0;
		for (size_t i = 0; i < d.size() && k + 3 < max; i++) { hex[k++] = dg[d.begin()[i] >> 4]; hex[k++] = dg[d.begin()[i] & 15]; }
		if (!k) hex[k++] = '-';
		hex[k] = 0;
		return r;
	}
	bool from_slice(const H &o, size_t off, size_t len)
	{
		slice sl(static_cast<const HA &>(o).a);
		size_t l = sl.data().size();
		if (off + len > l || !sl.shift((ssize_t) off) || !sl.trim((ssize_t) (l - off - len))) return false;
		static_cast<array &>(a) = sl;
		return true;
	}
	bool is_array() const { return true; }
};
template <typename T> static void make_val(T *, const uint8_t *) { }
static inline void fill_val(uint8_t *v, const uint8_t *b) { *v = b[0]; }
static inline void fill_val(Pod *v, const uint8_t *b) { for (int i = 0; i < 12; i++) v->b[i] = (uint8_t) (b[0] + i); }
typedef uint8_t *Ptr;
static inline void fill_val(Ptr *v, const uint8_t *b) { *v = (Ptr) (uintptr_t) b[0]; }

/* typed_array<T> with a by-value insert; for unique_array<T> the default-constructing insert */
template <typename T>
class XT : public typed_array<T>
{
public:
	XT() { }
	XT(const XT &a) : typed_array<T>(a) { }
	buffer *b() const { return this->_ref.instance(); }
	int ins(long pos, const uint8_t *v) { T val; fill_val(&val, v); return this->insert(pos, val) ? 0 : -1; }
	int put(long pos, const uint8_t *v) { T val; fill_val(&val, v); return this->set(pos, val) ? 0 : -1; }
};
template <>
class XT<Elem> : public typed_array<Elem>
{
public:
	XT() { }
	XT(const XT &a) : typed_array<Elem>(a) { }
	buffer *b() const { return this->_ref.instance(); }
	int ins(long pos, const uint8_t *) { Elem val; return this->insert(pos, val) ? 0 : -1; }
	int put(long, const uint8_t *) { return -2; }
};
template <typename T>
class XU : public unique_array<T>
{
public:
	XU() { }
	XU(const XU &a) : unique_array<T>(a) { }
	buffer *b() const { return this->_ref.instance(); }
	/* insert(pos) hands out the new (default-initialised, for scalars indeterminate) element: the caller assigns it */
	int ins(long pos, const uint8_t *v) { T *p = this->insert(pos); if (!p) return -1; fill_val(p, v); return 0; }
	int put(long pos, const uint8_t *v) { T val; fill_val(&val, v); return this->set(pos, val) ? 0 : -1; }
};
template <>
class XU<Elem> : public unique_array<Elem>
{
public:
	XU() { }
	XU(const XU &a) : unique_array<Elem>(a) { }
	buffer *b() const { return this->_ref.instance(); }
	int ins(long pos, const uint8_t *) { return this->insert(pos) ? 0 : -1; }
	int put(long, const uint8_t *) { return -2; }
};
template <class ARR, typename T>
struct HT : H
{
	ARR a;
	HT() { }
	HT(const HT &o) : a(o.a) { }
	const buffer *buf() const
	{
		const buffer *p = a.b();
		/* the static default instance (no storage) counts as no buffer */
		return (p && p->get_flags() == (BufferImmutable | BufferShared | BufferNoCopy)) ? 0 : p;
	}
	H *copy() const { return new HT(*this); }
	void assign(const H &o) { a = static_cast<const HT &>(o).a; }
	int tinsert(long pos, const uint8_t *v) { return a.ins(pos, v); }
	int tset(long pos, const uint8_t *v) { return a.put(pos, v); }
	int resize(long n) { return a.resize(n) ? 0 : -1; }
	int reserve(long n) { return a.reserve(n) ? 0 : -1; }
	int detach() { return a.detach() ? 0 : -1; }
	/* buffer::trim / buffer::skip on the private buffer */
	int trim(size_t n) { if (!a.detach()) return -1; buffer *p = a.b(); return (p && p->trim(n * sizeof(T))) ? 0 : -1; }
	int skip(size_t n) { if (!a.detach()) return -1; buffer *p = a.b(); return (p && p->skip(n * sizeof(T))) ? 0 : -1; }
};

/* pointer_array<uint8_t>: pointers are plain numbers here (00 = null) */
class XP : public pointer_array<uint8_t>
{
public:
	XP() : pointer_array<uint8_t>(-1) { }     /* no buffer to start with (the default length 0 creates one) */
	XP(const XP &a) : pointer_array<uint8_t>(a) { }
	buffer *b() const { return this->_ref.instance(); }
	int ins(long pos, const uint8_t *v) { Ptr val; fill_val(&val, v); return this->insert(pos, val) ? 0 : -1; }
	int put(long pos, const uint8_t *v) { Ptr val; fill_val(&val, v); return this->set(pos, val) ? 0 : -1; }
};
struct HPA : HT<XP, Ptr>
{
	HPA() { }
	HPA(const HPA &o) : HT<XP, Ptr>(o) { }
	H *copy() const { return new HPA(*this); }
	int pswap(long p1, long p2) { return this->a.swap(p1, p2) ? 0 : -1; }
	int pcompact() { this->a.compact(); return 0; }
};

/* map<uint8_t, uint8_t>: the entries live in a typed_array */
typedef map<uint8_t, uint8_t> Map;
class XM : public Map
{
	struct peek : typed_array<Map::entry> { buffer *b() const { return this->_ref.instance(); } };
public:
	XM() { }
	XM(const XM &a) : Map(a) { }
	buffer *b() const { return static_cast<const peek &>(this->_d).b(); }
};
struct HM : H
{
	XM a;
	HM() { }
	HM(const HM &o) : a(o.a) { }
	const buffer *buf() const
	{
		const buffer *p = a.b();
		return (p && p->get_flags() == (BufferImmutable | BufferShared | BufferNoCopy)) ? 0 : p;
	}
	H *copy() const { return new HM(*this); }
	void assign(const H &o) { a = static_cast<const HM &>(o).a; }
	int mset(uint8_t k, uint8_t v) { return a.set(k, v) ? 0 : -1; }
	int mget(uint8_t k) { uint8_t *v = a.get(k); return v ? *v : -1; }
	bool is_map() const { return true; }
};

#define NH 8
static H *hs[NH];
static int nh;
static char kind[8];
static int elem_mode;
static size_t heap0;

static H *make(void)
{
	if (!strcmp(kind, "arr")) return new HA;
	if (!strcmp(kind, "t1")) return new HT<XT<uint8_t>, uint8_t>;
	if (!strcmp(kind, "t12")) return new HT<XT<Pod>, Pod>;
	if (!strcmp(kind, "te")) return new HT<XT<Elem>, Elem>;
	if (!strcmp(kind, "u1")) return new HT<XU<uint8_t>, uint8_t>;
	if (!strcmp(kind, "u12")) return new HT<XU<Pod>, Pod>;
	if (!strcmp(kind, "ue")) return new HT<XU<Elem>, Elem>;
	if (!strcmp(kind, "mp")) return new HM;
	if (!strcmp(kind, "pa")) return new HPA;
	return 0;
}

/* ------------------------------------------------------------------ output (as in drv_array.c) */
struct bufname { const buffer *p; unsigned id; };
static struct bufname names[NH];
static int nnames;
static unsigned next_name;

static unsigned name_of(const buffer *b)
{
	for (int i = 0; i < nnames; i++) if (names[i].p == b) return names[i].id;
	return UINT_MAX;
}
static void renumber(void)
{
	int k = 0;
	for (int i = 0; i < nnames; i++) {
		int used = 0;
		for (int h = 0; h < nh; h++) if (hs[h] && hs[h]->buf() == names[i].p) used = 1;
		if (used) names[k++] = names[i];
	}
	nnames = k;
	for (int h = 0; h < nh; h++) {
		const buffer *b = hs[h] ? hs[h]->buf() : 0;
		if (b && name_of(b) == UINT_MAX) { names[nnames].p = b; names[nnames].id = next_name++; nnames++; }
	}
}
static uintptr_t ref_of(const buffer *b) { return *(const uintptr_t *) ((const uint8_t *) b - 32); }
static size_t used_of(const buffer *b) { return ((const size_t *) b)[3]; }
static size_t size_of(const buffer *b) { return ((const size_t *) b)[2]; }

static void check_stored(int final)
{
	static unsigned char seen[MAXTOK];
	memset(seen, 0, sizeof(seen));
	for (int i = 0; i < nnames; i++) {
		const buffer *b = names[i].p;
		const struct type_traits *t = b->content_traits();
		if (!t || t != type_properties<Elem>::traits()) continue;
		const uint8_t *d = (const uint8_t *) (b + 1);
		for (size_t p = 0; p + t->size <= used_of(b); p += t->size) {
			unsigned tok = d[p] | (d[p + 1] << 8) | (d[p + 2] << 16) | ((unsigned) d[p + 3] << 24);
			if (tok >= MAXTOK || !live[tok]) { mark_illegal("stored-dead", tok); continue; }
			if (seen[tok]) mark_illegal("stored-twice", tok);
			seen[tok] = 1;
		}
	}
	for (unsigned t = 1; t < tok_next && t < MAXTOK; t++) {
		if (live[t] && !seen[t]) mark_illegal(final ? "alive-at-end" : "live-not-stored", t);
	}
}
static void put_state(const char *verdict, const char *detail, const char *ret, int final)
{
	renumber();
	if (elem_mode) {
		check_stored(final);
		printf("R %s | C %s ev=%s", illegal[0] ? illegal : "legal", verdict, evlen ? evlog : "-");
		evlen = 0; evlog[0] = 0;
	} else {
		printf("R %s %s | C", verdict, detail);
	}
	for (int h = 0; h < nh; h++) {
		const buffer *b = hs[h] ? hs[h]->buf() : 0;
		printf(" h%d=%zu:", h, b ? used_of(b) : (size_t) 0);
		drv_puthex(stdout, b ? (const uint8_t *) (b + 1) : 0, b ? used_of(b) : 0);
	}
	printf(" | I ret=%s hs=", ret);
	for (int h = 0; h < nh; h++) {
		const buffer *b = hs[h] ? hs[h]->buf() : 0;
		if (h) fputc(',', stdout);
		if (!b) printf("h%d:-", h);
		else printf("h%d:b%u", h, name_of(b));
	}
	printf(" bufs=");
	if (!nnames) fputc('-', stdout);
	for (unsigned id = 0, first = 1; id < next_name; id++) {
		for (int i = 0; i < nnames; i++) {
			if (names[i].id != id) continue;
			const buffer *b = names[i].p;
			printf("%sb%u:r%zu:f%u:t%s:z%zu:u%zu", first ? "" : ",", id, (size_t) ref_of(b),
			       (unsigned) (b->get_flags() & 0xff), traits_name(b->content_traits()), size_of(b), used_of(b));
			first = 0;
		}
	}
	printf(" heap=%zu\n", __sanitizer_get_current_allocated_bytes() - heap0);
}
static char r_verdict[16], r_ret[48], r_detail[1 << 18] = "-";
static int r_have, r_final;
static void result(const char *verdict, const char *ret, int final = 0)
{
	snprintf(r_verdict, sizeof(r_verdict), "%s", verdict);
	snprintf(r_ret, sizeof(r_ret), "%s", ret);
	snprintf(r_detail, sizeof(r_detail), "-");
	r_have = 1; r_final = final;
}
static void result_ptr(const void *p, int h)
{
	char ret[32];
	const buffer *b = hs[h]->buf();
	if (!p || !b) { result("refused", "null"); return; }
	snprintf(ret, sizeof(ret), "+%zu", (size_t) ((const uint8_t *) p - (const uint8_t *) (b + 1)));
	result("ok", ret);
}
static void result_bool(int r) { if (r < 0) result("refused", "false"); else result("ok", "true"); }

static void drop_all(void)
{
	for (int h = 0; h < NH; h++) { delete hs[h]; hs[h] = 0; }
}
static void reset_all(void)
{
	drop_all();
	nnames = 0; next_name = 0;
	tok_next = 1; memset(live, 0, sizeof(live)); evlen = 0; evlog[0] = 0; illegal[0] = 0;
}
/* hex | - | zero:<n> | fill:<n>:<hh> with plain numbers */
static int data_arg(const char *s, uint8_t **out, size_t *len, int *isnull)
{
	*isnull = 0;
	if (!strncmp(s, "fill:", 5)) {
		char tmp[64]; char *c; size_t n; int a, b;
		if (strlen(s + 5) >= sizeof(tmp)) return -1;
		strcpy(tmp, s + 5);
		if (!(c = strchr(tmp, ':'))) return -1;
		*c++ = 0;
		if (drv_parse_nat(tmp, &n) || n > 100000 || strlen(c) != 2 || (a = drv_hexval(c[0])) < 0 || (b = drv_hexval(c[1])) < 0) return -1;
		if (a * 16 + b == 0) return -1;
		*out = (uint8_t *) malloc(n ? n : 1);
		for (size_t i = 0; i < n; i++) (*out)[i] = (uint8_t) ((a * 16 + b - 1 + i) % 255 + 1);
		*len = n; return 0;
	}
	return drv_parse_data(s, out, len, isnull);
}
static int handle_arg(const char *s)
{
	size_t v;
	if (s[0] != 'h' || drv_parse_nat(s + 1, &v) || v >= (size_t) nh) return -1;
	return (int) v;
}
static int long_arg(const char *s, long *v)
{
	size_t a;
	if (s[0] == '-' && s[1]) { if (drv_parse_nat(s + 1, &a) || a > 100000) return -1; *v = -(long) a; return 0; }
	if (drv_parse_nat(s, &a) || a > 100000) return -1;
	*v = (long) a; return 0;
}

#define BAD do { puts("bad-op"); free(dat); dat = 0; r_have = 0; goto next; } while (0)

int main(void)
{
	static char line[1 << 20];
	static char outbuf[1 << 16];
	drv_init();
	setvbuf(stdout, outbuf, _IOLBF, sizeof(outbuf));
	{ buffer *b = _mpt_buffer_alloc(1, 0); b->unref(); }
	/* function-local statics of the library templates: create them before the heap accounting starts */
	{ typed_array<uint8_t> a; typed_array<Pod> b; typed_array<Elem> c; unique_array<uint8_t> d; unique_array<Pod> e; unique_array<Elem> f;
	  (void) type_properties<uint8_t>::traits(); (void) type_properties<Pod>::traits(); (void) type_properties<Elem>::traits();
	  Map m; (void) type_properties<Map::entry>::traits(); pointer_array<uint8_t> pa; (void) type_properties<Ptr>::traits(); }
	while (fgets(line, sizeof(line), stdin)) {
		uint8_t *dat = 0; size_t dlen = 0; int isnull = 0;
		size_t a, b;
		long pos;
		int h, h2;
		const char *op;
		if (line[0] == '#' || line[0] == '\n') {
			if (line[0] == '#') reset_all();
			fputs(line, stdout);
			continue;
		}
		drv_split(line);
		if (drv_nw < 2 || strcmp(drv_w[0], "x")) { puts("bad-op"); continue; }
		op = drv_w[1];
		if (!strcmp(op, "handles") && drv_nw == 4) {
			if (drv_parse_nat(drv_w[2], &a) || a < 1 || a > NH || strlen(drv_w[3]) >= sizeof(kind)) BAD;
			reset_all();
			strcpy(kind, drv_w[3]);
			H *probe = make();
			if (!probe) { kind[0] = 0; nh = 0; BAD; }
			delete probe;
			nh = (int) a;
			elem_mode = !strcmp(kind, "te") || !strcmp(kind, "ue");
			for (int i = 0; i < nh; i++) hs[i] = make();
			evlen = 0; evlog[0] = 0;
			heap0 = __sanitizer_get_current_allocated_bytes();
			/* the handle objects themselves are driver memory */
			result("ok", "-");
			goto next;
		}
		if (!nh) BAD;
		if (!strcmp(op, "end") && drv_nw == 2) {
			for (int i = 0; i < nh; i++) { delete hs[i]; hs[i] = make(); }
			result("ok", "-", 1);
			goto next;
		}
		if (drv_nw < 3 || (h = handle_arg(drv_w[2])) < 0) BAD;
		if (!strcmp(op, "drop") && drv_nw == 3) {
			delete hs[h]; hs[h] = make();
			result("ok", "-");
		}
		else if (!strcmp(op, "clone") && drv_nw == 4) {           /* h = h2 */
			if ((h2 = handle_arg(drv_w[3])) < 0) BAD;
			hs[h]->assign(*hs[h2]);
			result("ok", "-");
		}
		else if (!strcmp(op, "copy") && drv_nw == 4) {            /* destroy h, copy-construct it from h2 */
			if ((h2 = handle_arg(drv_w[3])) < 0 || h2 == h) BAD;
			delete hs[h];
			hs[h] = hs[h2]->copy();
			result("ok", "-");
		}
		else if (hs[h]->is_array()) {
			if (!strcmp(op, "set") && drv_nw == 4) {
				if (data_arg(drv_w[3], &dat, &dlen, &isnull)) BAD;
				result_ptr(hs[h]->set(dlen, isnull ? 0 : dat), h);
			}
			else if (!strcmp(op, "insert") && drv_nw == 5) {
				if (drv_parse_nat(drv_w[3], &a) || a > 100000 || data_arg(drv_w[4], &dat, &dlen, &isnull)) BAD;
				result_ptr(hs[h]->insert(a, dlen, isnull ? 0 : dat), h);
			}
			else if (!strcmp(op, "append") && drv_nw == 4) {
				if (data_arg(drv_w[3], &dat, &dlen, &isnull)) BAD;
				result_ptr(hs[h]->append(dlen, isnull ? 0 : dat), h);
			}
			else if (!strcmp(op, "setv") && drv_nw == 5) {         /* array::set(const value &): s string, i int32, d double */
				if (data_arg(drv_w[4], &dat, &dlen, &isnull) || isnull) BAD;
				value v;
				char *txt = 0; const char *tp; int32_t iv; double dv;
				int r;
				if (!strcmp(drv_w[3], "s")) {
					if (memchr(dat, 0, dlen)) BAD;
					txt = (char *) malloc(dlen + 1); memcpy(txt, dat, dlen); txt[dlen] = 0; tp = txt;
					v.set('s', &tp);
				}
				else if (!strcmp(drv_w[3], "a")) {
					/* a character array as value: the text is taken over, terminated if it is not */
					static array src;
					src = array();
					if (!mpt_array_reserve(&src, dlen, type_traits::get('c')) || (dlen && !mpt_array_set(&src, type_traits::get('c'), dlen, dat, 0))) BAD;
					v.set(TypeArray, &src);
					r = hs[h]->setv(v);
					src = array();
					if (r < 0) result("refused", drv_errname(r));
					else { char ret[16]; snprintf(ret, sizeof(ret), "%d", r); result("ok", ret); }
					goto done_setv;
				}
				else if (!strcmp(drv_w[3], "i") && dlen == 4) { memcpy(&iv, dat, 4); v.set('i', &iv); }
				else if (!strcmp(drv_w[3], "d") && dlen == 8) { memcpy(&dv, dat, 8); v.set('d', &dv); }
				else BAD;
				r = hs[h]->setv(v);
				free(txt);
				if (r < 0) result("refused", drv_errname(r));
				else { char ret[16]; snprintf(ret, sizeof(ret), "%d", r); result("ok", ret); }
done_setv:		;
			}
			else if (!strcmp(op, "printf") && drv_nw == 4) {       /* array::printf("%s", text) */
				if (data_arg(drv_w[3], &dat, &dlen, &isnull) || isnull || memchr(dat, 0, dlen)) BAD;
				char *txt = (char *) malloc(dlen + 1); memcpy(txt, dat, dlen); txt[dlen] = 0;
				int r = hs[h]->print(txt);
				free(txt);
				if (r < 0) result("refused", drv_errname(r));
				else { char ret[16]; snprintf(ret, sizeof(ret), "%d", r); result("ok", ret); }
			}
			else if (!strcmp(op, "setc") && drv_nw == 5) {         /* array::set(convertable &) */
				Conv c;
				char *txt = 0;
				int r;
				if (data_arg(drv_w[4], &dat, &dlen, &isnull) || isnull || strlen(drv_w[3]) != 1 || !strchr("vcsze", drv_w[3][0])) BAD;
				if (drv_w[3][0] == 's' && memchr(dat, 0, dlen)) BAD;
				txt = (char *) malloc(dlen + 1); memcpy(txt, dat, dlen); txt[dlen] = 0;
				c.mode = drv_w[3][0]; c.vec.iov_base = dat; c.vec.iov_len = dlen; c.txt = txt;
				r = hs[h]->setc(c);
				free(txt);
				if (r < 0) result("refused", drv_errname(r));
				else { char ret[16]; snprintf(ret, sizeof(ret), "%d", r); result("ok", ret); }
			}
			else if (!strcmp(op, "ebuf") && drv_nw == 4) {
				if (drv_parse_nat(drv_w[3], &a) || a > 100000) BAD;
				static char hex[1 << 18];
				char ret[16]; snprintf(ret, sizeof(ret), "%d", hs[h]->ebuf(a, hex, sizeof(hex)));
				result("ok", ret);
				snprintf(r_detail, sizeof(r_detail), "%s", hex);
			}
			else if (!strcmp(op, "setslice") && drv_nw == 6) {     /* h = slice(h2) restricted to [off, off+len) */
				if ((h2 = handle_arg(drv_w[3])) < 0 || drv_parse_nat(drv_w[4], &a) || drv_parse_nat(drv_w[5], &b)) BAD;
				result_bool(hs[h]->from_slice(*hs[h2], a, b) ? 0 : -1);
			}
			else BAD;
		}
		else if (hs[h]->is_map()) {
			uint8_t *kd = 0; size_t kl = 0; int kn = 0;
			if (!strcmp(op, "mset") && drv_nw == 5) {
				if (data_arg(drv_w[3], &kd, &kl, &kn) || kn || kl != 1 || data_arg(drv_w[4], &dat, &dlen, &isnull) || isnull || dlen != 1) { free(kd); BAD; }
				result_bool(hs[h]->mset(kd[0], dat[0]));
			}
			else if (!strcmp(op, "mget") && drv_nw == 4) {
				if (data_arg(drv_w[3], &kd, &kl, &kn) || kn || kl != 1) { free(kd); BAD; }
				int r = hs[h]->mget(kd[0]);
				if (r < 0) result("refused", "null");
				else { char ret[16]; snprintf(ret, sizeof(ret), "%02x", r); result("ok", ret); snprintf(r_detail, sizeof(r_detail), "%s", ret); }
			}
			else { free(kd); BAD; }
			free(kd);
		}
		else {
			if ((!strcmp(op, "insert") || !strcmp(op, "set")) && drv_nw == 5) {
				if (long_arg(drv_w[3], &pos) || data_arg(drv_w[4], &dat, &dlen, &isnull) || isnull || dlen != 1) BAD;
				int r = (*op == 'i') ? hs[h]->tinsert(pos, dat) : hs[h]->tset(pos, dat);
				if (r == -2) BAD;
				result_bool(r);
			}
			else if (!strcmp(op, "resize") && drv_nw == 4) {
				if (long_arg(drv_w[3], &pos) || pos < 0) BAD;
				result_bool(hs[h]->resize(pos));
			}
			else if (!strcmp(op, "reserve") && drv_nw == 4) {
				if (long_arg(drv_w[3], &pos) || pos < 0) BAD;
				result_bool(hs[h]->reserve(pos));
			}
			else if (!strcmp(op, "detach") && drv_nw == 3) result_bool(hs[h]->detach());
			else if (!strcmp(op, "swap") && drv_nw == 5) {
				long p2;
				if (long_arg(drv_w[3], &pos) || long_arg(drv_w[4], &p2)) BAD;
				int r = hs[h]->pswap(pos, p2);
				if (r == -2) BAD;
				result_bool(r);
			}
			else if (!strcmp(op, "compact") && drv_nw == 3) {
				int r = hs[h]->pcompact();
				if (r == -2) BAD;
				result("ok", "-");
			}
			else if (!strcmp(op, "trim") && drv_nw == 4) {
				if (drv_parse_nat(drv_w[3], &a) || a > 100000) BAD;
				result_bool(hs[h]->trim(a));
			}
			else if (!strcmp(op, "skip") && drv_nw == 4) {
				if (drv_parse_nat(drv_w[3], &a) || a > 100000) BAD;
				result_bool(hs[h]->skip(a));
			}
			else BAD;
		}
		free(dat); dat = 0;
next:
		if (r_have) { r_have = 0; put_state(r_verdict, r_detail, r_ret, r_final); }
	}
	reset_all();
	return 0;
}
