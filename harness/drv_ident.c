/* line-protocol driver: mptcore/misc/identifier.c, node_new.c sizing (C16).
 * Identifiers live in exact-size malloc blocks (ASan sees every overrun).  malloc/free of the library are
 * observed through -Wl,--wrap so that leaks are attributed to the identifier that was operated on. */
#include "drv_util.h"
#include <errno.h>
#include <limits.h>
#include "core.h"
#include "types.h"
#include "node.h"

void *__real_malloc(size_t);
void __real_free(void *);

#define MAXID 16
#define MAXBLK 256

static struct slot {
	MPT_STRUCT(identifier) *id;   /* NULL = unused/dead */
	void *storage;                /* what to free (the node for node identifiers) */
	size_t size;
} slots[MAXID];
static size_t nslot;

/* blocks allocated by library code */
static struct { void *ptr; int owner; } blk[MAXBLK];
static size_t nblk;
static int in_lib = -1;  /* owner of the running library call, -1 = harness code */

void *__wrap_malloc(size_t n)
{
	void *p = __real_malloc(n);
	if (in_lib >= 0 && p && nblk < MAXBLK) { blk[nblk].ptr = p; blk[nblk].owner = in_lib; ++nblk; }
	return p;
}
void __wrap_free(void *p)
{
	if (in_lib >= 0 && p) {
		size_t i;
		for (i = 0; i < nblk; i++) if (blk[i].ptr == p) { blk[i] = blk[--nblk]; break; }
	}
	__real_free(p);
}
static size_t owned(int k)
{
	size_t i, n = 0;
	for (i = 0; i < nblk; i++) if (blk[i].owner == k) ++n;
	return n;
}
/* release what the library left behind for owner k; returns the number of blocks */
static size_t reap(int k)
{
	size_t i = 0, n = 0;
	while (i < nblk) {
		if (blk[i].owner == k) { __real_free(blk[i].ptr); blk[i] = blk[--nblk]; ++n; }
		else ++i;
	}
	return n;
}

/* byte-string operand: "-" empty, hex, "rep:<hh>:<n>", "null"; result has a terminating 0 appended */
static int parse_bytes(const char *s, uint8_t **out, size_t *len, int *isnull)
{
	*isnull = 0; *out = 0; *len = 0;
	if (!strcmp(s, "null")) { *isnull = 1; return 0; }
	if (!strncmp(s, "rep:", 4)) {
		int a = drv_hexval(s[4]), b = a < 0 ? -1 : drv_hexval(s[5]);
		size_t n;
		if (a < 0 || b < 0 || s[6] != ':' || drv_parse_nat(s + 7, &n) || n > 200000 || (s[7] == '0' && s[8])) return -1;
		*out = __real_malloc(n + 1);
		memset(*out, a * 16 + b, n);
		(*out)[n] = 0;
		*len = n;
		return 0;
	}
	{
		uint8_t *d; int nul;
		if (drv_parse_data(s, &d, len, &nul)) return -1;
		if (nul) { free(d); return -1; }
		*out = __real_malloc(*len + 1);
		memcpy(*out, d, *len);
		(*out)[*len] = 0;
		free(d);
	}
	return 0;
}
/* explicit length operand: decimal, or "-1" */
static int parse_len(const char *s, long *v)
{
	size_t n;
	if (!strcmp(s, "-1")) { *v = -1; return 0; }
	if ((s[0] == '0' && s[1]) || drv_parse_nat(s, &n) || n > 1000000) return -1;
	*v = (long) n;
	return 0;
}
static uint32_t fnv(const uint8_t *b, size_t n)
{
	uint32_t h = 2166136261u;
	size_t i;
	for (i = 0; i < n; i++) { h ^= b[i]; h *= 16777619u; }
	return h;
}
/* content: short = hex, long = length, hash, first and last 8 bytes */
static void put_content(const uint8_t *b, size_t n)
{
	if (n <= 40) { drv_puthex(stdout, b, n); return; }
	printf("#%zu:%08x:", n, fnv(b, n));
	drv_puthex(stdout, b, 8);
	fputs("..", stdout);
	drv_puthex(stdout, b + n - 8, 8);
}
/* what an identifier reads back as: through mpt_identifier_data and the length field */
static void put_ident(const MPT_STRUCT(identifier) *id)
{
	const uint8_t *d = mpt_identifier_data(id);
	size_t len = id->_len;
	printf("%u:", (unsigned) id->_charset);
	if (!len) { fputs("unset", stdout); return; }
	if (!d) { fputs("!nulldata", stdout); return; }
	if (id->_charset == MPT_CHARSET(UTF8)) {
		/* text: the stored length counts a terminating zero */
		if (d[len - 1]) fputs("!unterminated:", stdout);
		put_content(d, len - 1);
	} else {
		fputs("raw:", stdout);
		put_content(d, len);
	}
}
static const char *extra_i = "";
static void put_state(void)
{
	size_t k, any = 0;
	fputs(" | C", stdout);
	for (k = 0; k < nslot; k++) {
		if (!slots[k].id) continue;
		printf(" k%zu=", k);
		put_ident(slots[k].id);
		++any;
	}
	if (!any) fputs(" -", stdout);
	fputs(" | I", stdout);
	for (k = 0; k < nslot; k++) {
		if (!slots[k].id) continue;
		printf(" k%zu=%u/%u/%s/%zu", k, (unsigned) slots[k].id->_len, (unsigned) slots[k].id->_max,
		       slots[k].id->_len > slots[k].id->_max ? "ext" : "inl", owned((int) k));
	}
	printf(" heap=%zu%s\n", nblk, extra_i);
}
static void result(const char *r)
{
	printf("R %s", r);
	put_state();
}
static int new_slot(MPT_STRUCT(identifier) *id, void *storage, size_t size)
{
	slots[nslot].id = id; slots[nslot].storage = storage; slots[nslot].size = size;
	return (int) nslot++;
}
static int parse_slot(const char *s, size_t *k)
{
	if ((s[0] == '0' && s[1]) || drv_parse_nat(s, k) || *k >= nslot || !slots[*k].id) return -1;
	return 0;
}
static void drop_all(void)
{
	size_t k;
	for (k = 0; k < nslot; k++) {
		if (!slots[k].id) continue;
		in_lib = (int) k; mpt_identifier_set(slots[k].id, 0, 0); in_lib = -1;
		reap((int) k);
		__real_free(slots[k].storage);
		slots[k].id = 0;
	}
	nslot = 0;
}

int main(void)
{
	static char line[1 << 20];
	drv_init();
	while (fgets(line, sizeof(line), stdin)) {
		if (line[0] == '#' || line[0] == '\n') { fputs(line, stdout); continue; }
		drv_split(line);
		if (drv_nw < 2 || strcmp(drv_w[0], "i")) { puts("bad-op"); continue; }
		const char *op = drv_w[1];
		size_t k, j, n;
		if (!strcmp(op, "reset") && drv_nw == 2) {
			drop_all();
			result("ok");
		}
		else if (!strcmp(op, "new") && drv_nw == 3) {
			/* storage of exactly <size> bytes, initialised by mpt_identifier_init */
			if ((drv_w[2][0] == '0' && drv_w[2][1]) || drv_parse_nat(drv_w[2], &n) || n < sizeof(MPT_STRUCT(identifier)) || n > 300 || nslot >= MAXID) { puts("bad-op"); continue; }
			MPT_STRUCT(identifier) *id = __real_malloc(n);
			memset(id, 0xa5, n);
			mpt_identifier_init(id, n);
			new_slot(id, id, n);
			result("ok");
		}
		else if (!strcmp(op, "alloc") && drv_nw == 3) {
			/* mpt_identifier_new(len) */
			if ((drv_w[2][0] == '0' && drv_w[2][1]) || drv_parse_nat(drv_w[2], &n) || n > 100000 || nslot >= MAXID) { puts("bad-op"); continue; }
			MPT_STRUCT(identifier) *id = mpt_identifier_new(n);
			if (!id) { result("refused"); continue; }
			new_slot(id, id, 0);
			result("ok");
		}
		else if (!strcmp(op, "node") && drv_nw == 3) {
			/* identifier of mpt_node_new(len) */
			if ((drv_w[2][0] == '0' && drv_w[2][1]) || drv_parse_nat(drv_w[2], &n) || n > 100000 || nslot >= MAXID) { puts("bad-op"); continue; }
			MPT_STRUCT(node) *nd = mpt_node_new(n);
			if (!nd) { result("refused"); continue; }
			new_slot(&nd->ident, nd, 0);
			result("ok");
		}
		else if (!strcmp(op, "set") && (drv_nw == 4 || drv_nw == 5)) {
			uint8_t *dat; size_t dlen; int isnull; long len;
			if (parse_slot(drv_w[2], &k) || parse_bytes(drv_w[3], &dat, &dlen, &isnull)) { puts("bad-op"); continue; }
			len = (long) dlen;
			if (drv_nw == 5 && parse_len(drv_w[4], &len)) { __real_free(dat); puts("bad-op"); continue; }
			/* a null name needs an explicit length; an explicit length may not exceed the data */
			if ((isnull && (drv_nw != 5 || len < 0)) || (!isnull && len > (long) dlen)) { __real_free(dat); puts("bad-op"); continue; }
			in_lib = (int) k;
			void *r = mpt_identifier_set(slots[k].id, isnull ? 0 : (char *) dat, (int) len);
			in_lib = -1;
			__real_free(dat);
			result(r ? "ok" : "refused");
		}
		else if (!strcmp(op, "copy") && drv_nw == 4) {
			if (parse_slot(drv_w[2], &k)) { puts("bad-op"); continue; }
			const MPT_STRUCT(identifier) *from = 0;
			if (strcmp(drv_w[3], "null")) {
				if (parse_slot(drv_w[3], &j)) { puts("bad-op"); continue; }
				from = slots[j].id;
			}
			in_lib = (int) k;
			void *r = mpt_identifier_copy(slots[k].id, from);
			in_lib = -1;
			result(r ? "ok" : "refused");
		}
		else if (!strcmp(op, "cmp") && (drv_nw == 4 || drv_nw == 5)) {
			uint8_t *dat; size_t dlen; int isnull; long len;
			if (parse_slot(drv_w[2], &k) || parse_bytes(drv_w[3], &dat, &dlen, &isnull)) { puts("bad-op"); continue; }
			len = (long) dlen;
			if (drv_nw == 5 && parse_len(drv_w[4], &len)) { __real_free(dat); puts("bad-op"); continue; }
			if ((isnull && drv_nw != 5) || (!isnull && len > (long) dlen)) { __real_free(dat); puts("bad-op"); continue; }
			int r = mpt_identifier_compare(slots[k].id, isnull ? 0 : (char *) dat, (int) len);
			__real_free(dat);
			char buf[48];
			snprintf(buf, sizeof(buf), " ret=%d", r < 0 ? r : (r > 0 ? 1 : 0));
			extra_i = buf;
			result(r ? "ne" : "eq");
			extra_i = "";
		}
		else if (!strcmp(op, "ineq") && drv_nw == 4) {
			if (parse_slot(drv_w[2], &k) || parse_slot(drv_w[3], &j)) { puts("bad-op"); continue; }
			int r = mpt_identifier_inequal(slots[k].id, slots[j].id);
			result(r ? "ne" : "eq");
		}
		else if (!strcmp(op, "free") && drv_nw == 3) {
			/* end of life as the C++ destructor and mpt_node_destroy do it: set(0,0), then release the storage */
			if (parse_slot(drv_w[2], &k)) { puts("bad-op"); continue; }
			in_lib = (int) k; mpt_identifier_set(slots[k].id, 0, 0); in_lib = -1;
			char buf[48];
			snprintf(buf, sizeof(buf), "ok leaked=%zu", reap((int) k));
			__real_free(slots[k].storage);
			slots[k].id = 0;
			result(buf);
		}
		else if (!strcmp(op, "tinit") && drv_nw == 3) {
			/* traits init into fresh (uninitialised) storage of sizeof(identifier): default or copy construction */
			const MPT_STRUCT(identifier) *from = 0;
			if (strcmp(drv_w[2], "null")) {
				if (parse_slot(drv_w[2], &j)) { puts("bad-op"); continue; }
				from = slots[j].id;
			}
			if (nslot >= MAXID) { puts("bad-op"); continue; }
			MPT_STRUCT(identifier) *id = __real_malloc(sizeof(*id));
			memset(id, 0xa5, sizeof(*id));
			int kk = new_slot(id, id, sizeof(*id));
			in_lib = kk;
			int r = mpt_identifier_traits()->init(id, from);
			in_lib = -1;
			result(r < 0 ? "refused" : "ok");
		}
		else if (!strcmp(op, "tfini") && drv_nw == 3) {
			/* traits fini, then release the storage */
			if (parse_slot(drv_w[2], &k)) { puts("bad-op"); continue; }
			in_lib = (int) k; mpt_identifier_traits()->fini(slots[k].id); in_lib = -1;
			char buf[48];
			snprintf(buf, sizeof(buf), "ok leaked=%zu", reap((int) k));
			__real_free(slots[k].storage);
			slots[k].id = 0;
			result(buf);
		}
		else puts("bad-op");
	}
	drop_all();
	return 0;
}
