/* line-protocol driver: mptcore/misc/identifier.c, node_new.c sizing (C16).
 * Identifiers live in exact-size malloc blocks (ASan sees every overrun).  malloc/free of the library are
 * observed through -Wl,--wrap so that leaks are attributed to the identifier that was operated on. */
#include "drv_util.h"
#include <errno.h>
#include <limits.h>
#include "core.h"
#include "types.h"
#include "node.h"

#include "drv_ident_common.h"

/* nodes created by `i node`, linked as one list in creation order (for mpt_node_locate / mpt_node_next) */
static MPT_STRUCT(node) *node_of[MAXID];
static MPT_STRUCT(node) *node_last;

static void node_link(size_t k, MPT_STRUCT(node) *nd)
{
	node_of[k] = nd;
	nd->prev = node_last;
	nd->next = 0;
	if (node_last) node_last->next = nd;
	node_last = nd;
}
static void node_unlink(size_t k)
{
	MPT_STRUCT(node) *nd = node_of[k];
	if (!nd) return;
	if (nd->prev) nd->prev->next = nd->next;
	if (nd->next) nd->next->prev = nd->prev;
	if (node_last == nd) node_last = nd->prev;
	node_of[k] = 0;
}
static void put_found(const MPT_STRUCT(node) *nd)
{
	size_t k;
	char buf[32];
	if (!nd) { result("none"); return; }
	for (k = 0; k < nslot; k++) if (node_of[k] == nd) { snprintf(buf, sizeof(buf), "found=k%zu", k); result(buf); return; }
	result("found=?");
}

/* the name operand as the callee gets it: with an explicit length it is a slice of the longer operand buffer
 * (followed by the operand's remaining bytes); without, a block of exactly its size (no terminator behind it, so
 * ASan sees any read past the announced length); for len = -1 the terminated buffer */
static uint8_t *name_block(uint8_t *dat, size_t dlen, int explicit_len, long len, uint8_t **tofree)
{
	*tofree = 0;
	if (explicit_len || len < 0) return dat;
	*tofree = (uint8_t *) __real_malloc(dlen ? dlen : 1);
	memcpy(*tofree, dat, dlen);
	return *tofree;
}

int main(void)
{
	static char line[1 << 20];
	drv_init();
	while (fgets(line, sizeof(line), stdin)) {
		if (line[0] == '#' || line[0] == '\n') { fputs(line, stdout); continue; }
		drv_split(line);
		if (drv_nw < 2 || strcmp(drv_w[0], "i")) { puts("bad-op"); continue; }
		const char *op = drv_w[1];
		size_t k, j, n;
		if (!strcmp(op, "reset") && drv_nw == 2) {
			drop_all();
			memset(node_of, 0, sizeof(node_of)); node_last = 0;
			result("ok");
		}
		else if (!strcmp(op, "new") && drv_nw == 3) {
			/* storage of exactly <size> bytes, initialised by mpt_identifier_init */
			if ((drv_w[2][0] == '0' && drv_w[2][1]) || drv_parse_nat(drv_w[2], &n) || n < sizeof(MPT_STRUCT(identifier)) || n > 300 || nslot >= MAXID) { puts("bad-op"); continue; }
			MPT_STRUCT(identifier) *id = __real_malloc(n);
			memset(id, 0xa5, n);
			mpt_identifier_init(id, n);
			new_slot(id, id, n);
			result("ok");
		}
		else if (!strcmp(op, "sinit") && drv_nw == 2) {
			/* an identifier made with the static initialiser MPT_IDENTIFIER_INIT, in a block of exactly its size */
			static const MPT_STRUCT(identifier) tmpl = MPT_IDENTIFIER_INIT;
			if (nslot >= MAXID) { puts("bad-op"); continue; }
			MPT_STRUCT(identifier) *id = __real_malloc(sizeof(*id));
			memcpy(id, &tmpl, sizeof(*id));
			new_slot(id, id, sizeof(*id));
			result("ok");
		}
		else if (!strcmp(op, "ninit") && drv_nw == 2) {
			/* the identifier of a node made with the static initialiser MPT_NODE_INIT, in a block of exactly the node's size */
			static const MPT_STRUCT(node) tmpl = MPT_NODE_INIT;
			if (nslot >= MAXID) { puts("bad-op"); continue; }
			MPT_STRUCT(node) *nd = __real_malloc(sizeof(*nd));
			memcpy(nd, &tmpl, sizeof(*nd));
			new_slot(&nd->ident, nd, sizeof(nd->ident));
			result("ok");
		}
		else if (!strcmp(op, "setfail") && (drv_nw == 4 || drv_nw == 5)) {
			/* mpt_identifier_set while malloc fails: a request that needs an allocation must be refused and change nothing */
			uint8_t *dat; size_t dlen; int isnull; long len;
			if (parse_slot(drv_w[2], &k) || parse_bytes(drv_w[3], &dat, &dlen, &isnull)) { puts("bad-op"); continue; }
			len = (long) dlen;
			if (drv_nw == 5 && parse_len(drv_w[4], &len)) { __real_free(dat); puts("bad-op"); continue; }
			if ((isnull && (drv_nw != 5 || len < 0)) || (!isnull && len > (long) dlen)) { __real_free(dat); puts("bad-op"); continue; }
			uint8_t *blk = 0, *nm = isnull ? 0 : name_block(dat, dlen, drv_nw == 5, len, &blk);
			in_lib = (int) k;
			fail_armed = 1; fail_hit = 0;
			void *r = mpt_identifier_set(slots[k].id, (char *) nm, (int) len);
			fail_armed = 0;
			in_lib = -1;
			__real_free(blk);
			__real_free(dat);
			result(r ? "ok" : "refused");
		}
		else if (!strcmp(op, "alloc") && drv_nw == 3) {
			/* mpt_identifier_new(len) */
			if ((drv_w[2][0] == '0' && drv_w[2][1]) || drv_parse_nat(drv_w[2], &n) || n > 100000 || nslot >= MAXID) { puts("bad-op"); continue; }
			MPT_STRUCT(identifier) *id = mpt_identifier_new(n);
			if (!id) { result("refused"); continue; }
			new_slot(id, id, 0);
			result("ok");
		}
		else if (!strcmp(op, "node") && drv_nw == 3) {
			/* identifier of mpt_node_new(len) */
			if ((drv_w[2][0] == '0' && drv_w[2][1]) || drv_parse_nat(drv_w[2], &n) || n > 100000 || nslot >= MAXID) { puts("bad-op"); continue; }
			MPT_STRUCT(node) *nd = mpt_node_new(n);
			if (!nd) { result("refused"); continue; }
			node_link(new_slot(&nd->ident, nd, 0), nd);
			result("ok");
		}
		else if (!strcmp(op, "set") && (drv_nw == 4 || drv_nw == 5)) {
			uint8_t *dat; size_t dlen; int isnull; long len;
			if (parse_slot(drv_w[2], &k) || parse_bytes(drv_w[3], &dat, &dlen, &isnull)) { puts("bad-op"); continue; }
			len = (long) dlen;
			if (drv_nw == 5 && parse_len(drv_w[4], &len)) { __real_free(dat); puts("bad-op"); continue; }
			/* a null name needs an explicit length; an explicit length may not exceed the data */
			if ((isnull && (drv_nw != 5 || len < 0)) || (!isnull && len > (long) dlen)) { __real_free(dat); puts("bad-op"); continue; }
			uint8_t *blk = 0, *nm = isnull ? 0 : name_block(dat, dlen, drv_nw == 5, len, &blk);
			in_lib = (int) k;
			void *r = mpt_identifier_set(slots[k].id, (char *) nm, (int) len);
			in_lib = -1;
			__real_free(blk);
			__real_free(dat);
			result(r ? "ok" : "refused");
		}
		else if (!strcmp(op, "setself") && drv_nw == 5) {
			/* the new name is a part of the identifier's own current content: data + off, len bytes */
			size_t off, ln;
			if (parse_slot(drv_w[2], &k) || (drv_w[3][0] == '0' && drv_w[3][1]) || drv_parse_nat(drv_w[3], &off)
			    || (drv_w[4][0] == '0' && drv_w[4][1]) || drv_parse_nat(drv_w[4], &ln)
			    || off + ln > RAWID(slots[k].id)->_len || off + ln < off || !mpt_identifier_data(slots[k].id)) { puts("bad-op"); continue; }
			in_lib = (int) k;
			void *r = mpt_identifier_set(slots[k].id, (const char *) mpt_identifier_data(slots[k].id) + off, (int) ln);
			in_lib = -1;
			result(r ? "ok" : "refused");
		}
		else if (!strcmp(op, "copy") && drv_nw == 4) {
			if (parse_slot(drv_w[2], &k)) { puts("bad-op"); continue; }
			const MPT_STRUCT(identifier) *from = 0;
			if (strcmp(drv_w[3], "null")) {
				if (parse_slot(drv_w[3], &j)) { puts("bad-op"); continue; }
				from = slots[j].id;
			}
			in_lib = (int) k;
			void *r = mpt_identifier_copy(slots[k].id, from);
			in_lib = -1;
			result(r ? "ok" : "refused");
		}
		else if (!strcmp(op, "cmp") && (drv_nw == 4 || drv_nw == 5)) {
			uint8_t *dat; size_t dlen; int isnull; long len;
			if (parse_slot(drv_w[2], &k) || parse_bytes(drv_w[3], &dat, &dlen, &isnull)) { puts("bad-op"); continue; }
			len = (long) dlen;
			if (drv_nw == 5 && parse_len(drv_w[4], &len)) { __real_free(dat); puts("bad-op"); continue; }
			if ((isnull && drv_nw != 5) || (!isnull && len > (long) dlen)) { __real_free(dat); puts("bad-op"); continue; }
			uint8_t *blk = 0, *nm = isnull ? 0 : name_block(dat, dlen, drv_nw == 5, len, &blk);
			int r = mpt_identifier_compare(slots[k].id, (char *) nm, (int) len);
			__real_free(blk);
			__real_free(dat);
			char buf[48];
			snprintf(buf, sizeof(buf), " ret=%d", r < 0 ? r : (r > 0 ? 1 : 0));
			extra_i = buf;
			result(r ? "ne" : "eq");
			extra_i = "";
		}
		else if (!strcmp(op, "ineq") && drv_nw == 4) {
			if (parse_slot(drv_w[2], &k) || parse_slot(drv_w[3], &j)) { puts("bad-op"); continue; }
			int r = mpt_identifier_inequal(slots[k].id, slots[j].id);
			result(r ? "ne" : "eq");
		}
		else if (!strcmp(op, "free") && drv_nw == 3) {
			/* end of life as the C++ destructor and mpt_node_destroy do it: set(0,0), then release the storage */
			if (parse_slot(drv_w[2], &k)) { puts("bad-op"); continue; }
			in_lib = (int) k; mpt_identifier_set(slots[k].id, 0, 0); in_lib = -1;
			char buf[48];
			snprintf(buf, sizeof(buf), "ok leaked=%zu", reap((int) k));
			node_unlink(k);
			__real_free(slots[k].storage);
			slots[k].id = 0;
			result(buf);
		}
		else if (!strcmp(op, "locate") && (drv_nw == 5 || drv_nw == 6)) {
			/* mpt_node_locate(node k, pos, name, len, -1): text name, default identifier type */
			uint8_t *dat; size_t dlen; int isnull; long len; long pos; char *e;
			if (parse_slot(drv_w[2], &k) || !node_of[k]) { puts("bad-op"); continue; }
			pos = strtol(drv_w[3], &e, 10);
			if (!*drv_w[3] || *e || pos < -20 || pos > 20 || drv_w[3][0] == '+' || (pos == 0 && strcmp(drv_w[3], "0"))
			    || (drv_w[3][0] == '0' && drv_w[3][1]) || (drv_w[3][0] == '-' && drv_w[3][1] == '0')) { puts("bad-op"); continue; }
			if (parse_bytes(drv_w[4], &dat, &dlen, &isnull)) { puts("bad-op"); continue; }
			len = (long) dlen;
			if (isnull || (drv_nw == 6 && (parse_len(drv_w[5], &len) || len < 0 || len > (long) dlen))) { __real_free(dat); puts("bad-op"); continue; }
			if (drv_nw == 6) {
				/* explicit length: the name is a slice of the longer buffer, followed by its remaining bytes */
				put_found(mpt_node_locate(node_of[k], (int) pos, dat, (size_t) len, -1));
			} else {
				/* the name ends exactly at the end of its block: no terminator behind it, ASan sees any read past it */
				uint8_t *exact = __real_malloc(dlen ? dlen : 1);
				memcpy(exact, dat, dlen);
				put_found(mpt_node_locate(node_of[k], (int) pos, exact, dlen, -1));
				__real_free(exact);
			}
			__real_free(dat);
		}
		else if (!strcmp(op, "next") && drv_nw == 4) {
			/* mpt_node_next(node k, name): C string name or the zero pointer */
			uint8_t *dat; size_t dlen; int isnull;
			if (parse_slot(drv_w[2], &k) || !node_of[k] || parse_bytes(drv_w[3], &dat, &dlen, &isnull)) { puts("bad-op"); continue; }
			put_found(mpt_node_next(node_of[k], isnull ? 0 : (const char *) dat));
			__real_free(dat);
		}
		else if (!strcmp(op, "tinit") && drv_nw == 3) {
			/* traits init into fresh (uninitialised) storage of sizeof(identifier): default or copy construction */
			const MPT_STRUCT(identifier) *from = 0;
			if (strcmp(drv_w[2], "null")) {
				if (parse_slot(drv_w[2], &j)) { puts("bad-op"); continue; }
				from = slots[j].id;
			}
			if (nslot >= MAXID) { puts("bad-op"); continue; }
			MPT_STRUCT(identifier) *id = __real_malloc(sizeof(*id));
			memset(id, 0xa5, sizeof(*id));
			int kk = new_slot(id, id, sizeof(*id));
			in_lib = kk;
			int r = mpt_identifier_traits()->init(id, from);
			in_lib = -1;
			result(r < 0 ? "refused" : "ok");
		}
		else if (!strcmp(op, "tfiniset") && (drv_nw == 4 || drv_nw == 5)) {
			/* the identifier is ended through the traits' fini and its storage is used again at once, without a new init:
			 * mpt_identifier_set on what fini left behind */
			uint8_t *dat; size_t dlen; int isnull; long len;
			if (parse_slot(drv_w[2], &k) || parse_bytes(drv_w[3], &dat, &dlen, &isnull)) { puts("bad-op"); continue; }
			len = (long) dlen;
			if (drv_nw == 5 && parse_len(drv_w[4], &len)) { __real_free(dat); puts("bad-op"); continue; }
			if ((isnull && (drv_nw != 5 || len < 0)) || (!isnull && len > (long) dlen) || len > 60000 || dlen > 60000) { __real_free(dat); puts("bad-op"); continue; }
			uint8_t *blk = 0, *nm = isnull ? 0 : name_block(dat, dlen, drv_nw == 5, len, &blk);
			in_lib = (int) k;
			mpt_identifier_traits()->fini(slots[k].id);
			void *r = mpt_identifier_set(slots[k].id, (char *) nm, (int) len);
			in_lib = -1;
			__real_free(blk);
			__real_free(dat);
			result(r ? "ok" : "refused");
		}
		else if (!strcmp(op, "tfini") && drv_nw == 3) {
			/* traits fini, then release the storage */
			if (parse_slot(drv_w[2], &k)) { puts("bad-op"); continue; }
			in_lib = (int) k; mpt_identifier_traits()->fini(slots[k].id); in_lib = -1;
			char buf[48];
			snprintf(buf, sizeof(buf), "ok leaked=%zu", reap((int) k));
			node_unlink(k);
			__real_free(slots[k].storage);
			slots[k].id = 0;
			result(buf);
		}
		else puts("bad-op");
	}
	drop_all();
	return 0;
}
