/* shared helpers of the line-protocol drivers (harness side, not part of /repo) */
#ifndef DRV_UTIL_H
#define DRV_UTIL_H
#include <stdio.h>
#include <stdlib.h>
#include <string.h>
#include <stdint.h>
#include <signal.h>
#include <unistd.h>

#define DRV_MAXW 64
static char *drv_w[DRV_MAXW];
static int drv_nw;

static inline int drv_split(char *line)
{
	drv_nw = 0;
	char *p = line;
	while (*p) {
		while (*p == ' ' || *p == '\n' || *p == '\r' || *p == '\t') ++p;
		if (!*p) break;
		if (drv_nw < DRV_MAXW) drv_w[drv_nw++] = p;
		while (*p && *p != ' ' && *p != '\n' && *p != '\r' && *p != '\t') ++p;
		if (*p) *p++ = 0;
	}
	return drv_nw;
}
static inline int drv_hexval(int c)
{
	if (c >= '0' && c <= '9') return c - '0';
	if (c >= 'a' && c <= 'f') return c - 'a' + 10;
	return -1;
}
/* parse "-" (empty), "zero:n" (*isnull=1), or hex; returns malloc'ed exact-size buffer (never NULL on success), len in *len; -1 on error */
static inline int drv_parse_data(const char *s, uint8_t **out, size_t *len, int *isnull)
{
	*isnull = 0;
	if (!strcmp(s, "-")) { *out = (uint8_t *) malloc(1); *len = 0; return 0; }
	if (!strncmp(s, "zero:", 5)) {
		char *e; unsigned long n = strtoul(s + 5, &e, 10);
		if (*e || e == s + 5) return -1;
		*out = (uint8_t *) calloc(n ? n : 1, 1); *len = n; *isnull = 1; return 0;
	}
	size_t n = strlen(s);
	if (n & 1) return -1;
	uint8_t *b = (uint8_t *) malloc(n / 2 ? n / 2 : 1);
	for (size_t i = 0; i < n / 2; i++) {
		int a = drv_hexval(s[2*i]), c = drv_hexval(s[2*i+1]);
		if (a < 0 || c < 0) { free(b); return -1; }
		b[i] = (uint8_t) (a * 16 + c);
	}
	*out = b; *len = n / 2; return 0;
}
static inline int drv_parse_nat(const char *s, size_t *v)
{
	char *e;
	if (!*s || *s == '-' || *s == '+') return -1;
	unsigned long long n = strtoull(s, &e, 10);
	if (*e) return -1;
	*v = (size_t) n; return 0;
}
static inline void drv_puthex(FILE *f, const uint8_t *b, size_t n)
{
	static const char d[] = "0123456789abcdef";
	if (!n) { fputc('-', f); return; }
	for (size_t i = 0; i < n; i++) { fputc(d[b[i] >> 4], f); fputc(d[b[i] & 15], f); }
}
static inline const char *drv_errname(long r)
{
	switch (r) {
	case -1: return "BadArgument"; case -2: return "BadValue"; case -3: return "BadType";
	case -4: return "BadOperation"; case -8: return "BadEncoding"; case -16: return "MissingData";
	case -17: return "MissingBuffer"; default: return "ERR?";
	}
}
static void drv_sigfault(int sig)
{
	char buf[64];
	int n = snprintf(buf, sizeof(buf), "\nFAULT signal=%d\n", sig);
	if (write(1, buf, n) < 0) { }
	_exit(99);
}
static inline void drv_init(void)
{
	setvbuf(stdout, 0, _IOLBF, 0);
	signal(SIGFPE, drv_sigfault);
}
#endif
