/* line-protocol driver: mptcore/message fragment functions (C17).  Calls the real functions in-process.
 *
 *   m frags <hex>[,<hex>...]     first fragment = msg.base/used, the others = msg.cont[0..clen)
 *                                (every fragment is its own exact-size malloc block: ASan sees overruns)
 *   m read <n> [nodst]           mpt_message_read
 *   m len                        mpt_message_length
 *   m chr|rchr <byte-hex>        mpt_memchr / mpt_memrchr on the iovec list [base,used] ++ cont
 *   m fcn|rfcn <set-hex>         mpt_memfcn / mpt_memrfcn with the callback "byte is not in the set"
 *   m str|rstr <set-hex>         mpt_memstr / mpt_memrstr
 *   m tok <tok> <com> <esc>      mpt_memtok; each operand hex (no zero byte), "-" = "", "null" = NULL
 *   m cpy <n> <size>[,<size>...] mpt_memcpy(n, current fragments, fresh target fragments of the given sizes)
 *   m argv <sep-hex>             mpt_message_argv
 *   m args <sep-hex> [nomem]     mpt_array_message (nomem: the first allocation inside the call fails)
 *   m append <prefix-hex> [nomem:<k>]   mpt_message_append to an array holding the prefix (the k-th allocation inside
 *                                the call fails)
 *   m sappend <cobs|nl>          mpt_stream_append + end of message on a stream (COBS coding / newline framing): what the peer receives
 *   m dhash                      mpt_dispatch_hash(catch-all handler) on the message: verdict and command hash
 *   m qget <max> <off> <fill-hex> <pos> <take> [novec]   mpt_message_get on a queue (novec: no iovec for a second part);
 *                                the result becomes the message
 *   m guards                     the NULL-argument guards of the search functions
 *   m big <sbuf|scobs> <seed> <kind> <sizes> <n1> <n2>   generated fragments (up to 150000 bytes) through
 *                                mpt_stream_append on a buffered stream to a file; see the op
 */
#define _GNU_SOURCE
#include "drv_util.h"
#include <errno.h>
#include <sys/mman.h>
#include "drv_biggen.h"
#include <sys/uio.h>
#include "array.h"
#include "queue.h"
#include "message.h"
#include "event.h"
#include <inttypes.h>
#include <sys/socket.h>
#include <unistd.h>
#include "convert.h"
#include "connection.h"
#include "stream.h"

#define MAXF 64
static struct iovec vec[MAXF + 1];
static void *blocks[MAXF + 1];
static size_t nvec;
static MPT_STRUCT(message) msg;
static void *qstore;

/* allocation failure injection: the library's malloc calls are routed here (-Wl,--wrap=malloc) */
static int nmalloc;
static int fail_malloc;     /* > 0: the fail_malloc-th call from now on returns NULL */
extern void *__real_malloc(size_t);
void *__wrap_malloc(size_t n)
{
	++nmalloc;
	if (fail_malloc > 0 && !--fail_malloc) return 0;
	return __real_malloc(n);
}

static int dhash_called; static uintptr_t dhash_id;
static int dhash_handler(void *arg, MPT_STRUCT(event) *ev)
{
	(void) arg;
	dhash_called = 1;
	dhash_id = ev ? ev->id : 0;
	return 0;
}
static void drop_frags(void)
{
	for (size_t i = 0; i < nvec; i++) free(blocks[i]);
	nvec = 0;
	free(qstore); qstore = 0;
	memset(&msg, 0, sizeof(msg));
}
/* content of the cursor, read independently of the library */
static void put_flat(void)
{
	size_t total = msg.used;
	for (size_t i = 0; i < msg.clen; i++) total += msg.cont[i].iov_len;
	if (!total) { fputc('-', stdout); return; }
	if (msg.used) drv_puthex(stdout, msg.base, msg.used);
	for (size_t i = 0; i < msg.clen; i++)
		if (msg.cont[i].iov_len) drv_puthex(stdout, msg.cont[i].iov_base, msg.cont[i].iov_len);
}
static size_t u0, ne0;
static void before(void)
{
	u0 = msg.used;
	ne0 = msg.used ? 1 : 0;
	for (size_t i = 0; i < msg.clen; i++) if (msg.cont[i].iov_len) ++ne0;
}
static void tail(const char *code)
{
	printf(" | C ");
	put_flat();
	printf(" | I code=%s u0=%zu ne0=%zu used=%zu clen=%zu\n", code, u0, ne0, msg.used, msg.clen);
}
/* iovec list of the cursor: [base,used] ++ cont */
static struct iovec cur[MAXF + 2];
static size_t ncur;
static void mkcur(void)
{
	cur[0].iov_base = (void *) msg.base;
	cur[0].iov_len = msg.used;
	for (size_t i = 0; i < msg.clen; i++) cur[i + 1] = msg.cont[i];
	ncur = msg.clen + 1;
}
static void pos_result(ssize_t r)
{
	char code[32];
	snprintf(code, sizeof(code), "%zd", r);
	if (r >= 0) printf("R ret=%zd", r);
	else if (r == -2) printf("R ret=none");
	else printf("R ret=err");
	tail(code);
}
static const uint8_t *set; static size_t setlen;
static int not_in_set(int c, void *par)
{
	(void) par;
	return (setlen && memchr(set, c, setlen)) ? 0 : 1;
}
/* "null" -> 0, "-" -> "", hex without zero byte -> string; -1 on error */
static int parse_cstr(const char *s, char **out)
{
	uint8_t *d; size_t n; int isnull;
	*out = 0;
	if (!strcmp(s, "null")) return 0;
	d = 0;
	if (drv_parse_data(s, &d, &n, &isnull) || isnull) { free(d); return -1; }
	if (n && memchr(d, 0, n)) { free(d); return -1; }
	char *c = malloc(n + 1);
	memcpy(c, d, n); c[n] = 0;
	free(d);
	*out = c;
	return 0;
}
static int parse_byte(const char *s, int *v)
{
	if (strlen(s) != 2) return -1;
	int a = drv_hexval(s[0]), b = drv_hexval(s[1]);
	if (a < 0 || b < 0) return -1;
	*v = a * 16 + b; return 0;
}
static void put_array(const MPT_STRUCT(array) *a)
{
	const MPT_STRUCT(buffer) *b = a->_buf;
	drv_puthex(stdout, b ? (const uint8_t *) (b + 1) : 0, b ? b->_used : 0);
}

int main(void)
{
	static char line[1 << 16];
	drv_init();
	while (fgets(line, sizeof(line), stdin)) {
		if (line[0] == '#' || line[0] == '\n') { fputs(line, stdout); continue; }
		drv_split(line);
		if (drv_nw < 2 || strcmp(drv_w[0], "m")) { puts("bad-op"); continue; }
		const char *op = drv_w[1];
		size_t a;
		int byte;
		uint8_t *dat = 0; size_t dlen = 0; int isnull = 0;
		if (!strcmp(op, "frags") && drv_nw == 3) {
			/* validate first */
			char *copy = strdup(drv_w[2]), *p, *save = 0;
			size_t n = 0; int bad = 0;
			if (copy[0] == ',' || copy[strlen(copy) - 1] == ',' || strstr(copy, ",,")) bad = 1;
			for (p = strtok_r(copy, ",", &save); p && !bad; p = strtok_r(0, ",", &save)) {
				dat = 0;
				if (n >= MAXF || drv_parse_data(p, &dat, &dlen, &isnull) || isnull) { bad = 1; free(dat); break; }
				free(dat); ++n;
			}
			free(copy);
			if (bad || !n) { puts("bad-op"); continue; }
			drop_frags();
			save = 0;
			for (p = strtok_r(drv_w[2], ",", &save); p; p = strtok_r(0, ",", &save)) {
				drv_parse_data(p, &dat, &dlen, &isnull);
				/* exact size; an empty fragment points at the end of a 1-byte block so that any access is an overrun */
				uint8_t *blk = malloc(dlen ? dlen : 1);
				if (dlen) memcpy(blk, dat, dlen);
				free(dat);
				blocks[nvec] = blk;
				vec[nvec].iov_base = dlen ? blk : blk + 1;
				vec[nvec].iov_len = dlen;
				++nvec;
			}
			msg.base = vec[0].iov_base;
			msg.used = vec[0].iov_len;
			msg.cont = vec + 1;
			msg.clen = nvec - 1;
			before();
			printf("R ok");
			tail("0");
		}
		else if (!strcmp(op, "qget") && (drv_nw == 7 || (drv_nw == 8 && !strcmp(drv_w[7], "novec")))) {
			size_t mx, off, pos, take;
			if (drv_parse_nat(drv_w[2], &mx) || drv_parse_nat(drv_w[3], &off) || drv_parse_data(drv_w[4], &dat, &dlen, &isnull) || isnull
			    || drv_parse_nat(drv_w[5], &pos) || drv_parse_nat(drv_w[6], &take) || off > mx || dlen > mx || !mx) {
				puts("bad-op"); free(dat); continue;
			}
			drop_frags();
			MPT_STRUCT(queue) q;
			memset(&q, 0, sizeof(q));
			qstore = malloc(mx);
			memset(qstore, 0, mx);
			q.base = qstore; q.max = mx; q.off = off; q.len = dlen;
			for (size_t i = 0; i < dlen; i++) ((uint8_t *) qstore)[(off + i) % mx] = dat[i];
			free(dat);
			vec[0].iov_base = 0; vec[0].iov_len = 0;
			memset(&msg, 0, sizeof(msg));
			before();
			int r = mpt_message_get(&q, pos, take, &msg, drv_nw == 8 ? 0 : vec);
			char code[32];
			snprintf(code, sizeof(code), "%d", r);
			if (r < 0) { memset(&msg, 0, sizeof(msg)); printf("R refused"); }
			else printf("R ok");
			tail(code);
		}
		else if (!nvec && !qstore) { puts("bad-op"); }
		else if (!strcmp(op, "read") && (drv_nw == 3 || (drv_nw == 4 && !strcmp(drv_w[3], "nodst")))) {
			if (drv_parse_nat(drv_w[2], &a) || a > (1u << 20)) { puts("bad-op"); continue; }
			int nodst = drv_nw == 4;
			uint8_t *buf = nodst ? 0 : malloc(a);
			before();
			size_t r = mpt_message_read(&msg, a, buf);
			printf("R ret=%zu out=", r);
			drv_puthex(stdout, buf, (nodst || r > a) ? 0 : r);
			/* what a consumer that goes on with msg.base / msg.used sees next (the read leaves the cursor on data
			 * whenever data remains) */
			if (msg.used) printf(" head=%02x", ((const uint8_t *) msg.base)[0]); else printf(" head=none");
			tail("0");
			free(buf);
		}
		else if (!strcmp(op, "len") && drv_nw == 2) {
			before();
			printf("R ret=%zu", mpt_message_length(&msg));
			tail("0");
		}
		else if (!strcmp(op, "guards") && drv_nw == 2) {
			/* NULL-argument guards of the search functions: all refuse with EFAULT, message untouched */
			ssize_t g[7];
			int ef = 0, k;
			before(); mkcur();
			set = (const uint8_t *) ""; setlen = 0;
			errno = 0; g[0] = mpt_memfcn(0, ncur, not_in_set, 0); ef += errno == EFAULT;
			errno = 0; g[1] = mpt_memfcn(cur, ncur, 0, 0); ef += errno == EFAULT;
			errno = 0; g[2] = mpt_memrfcn(0, ncur, not_in_set, 0); ef += errno == EFAULT;
			errno = 0; g[3] = mpt_memrfcn(cur, ncur, 0, 0); ef += errno == EFAULT;
			errno = 0; g[4] = mpt_memstr(cur, ncur, 0, 1); ef += errno == EFAULT;
			errno = 0; g[5] = mpt_memrstr(cur, ncur, 0, 1); ef += errno == EFAULT;
			errno = 0; g[6] = mpt_memtok(0, ncur, " ", 0, 0); ef += errno == EFAULT;
			printf("R guards=");
			for (k = 0; k < 7; k++) printf("%s%zd", k ? "," : "", g[k]);
			printf(" efault=%d", ef);
			tail("0");
		}
		else if ((!strcmp(op, "chr") || !strcmp(op, "rchr")) && drv_nw == 3) {
			if (parse_byte(drv_w[2], &byte)) { puts("bad-op"); continue; }
			before(); mkcur();
			pos_result(*op == 'c' ? mpt_memchr(cur, ncur, byte) : mpt_memrchr(cur, ncur, byte));
		}
		else if ((!strcmp(op, "fcn") || !strcmp(op, "rfcn") || !strcmp(op, "str") || !strcmp(op, "rstr")) && drv_nw == 3) {
			if (drv_parse_data(drv_w[2], &dat, &dlen, &isnull) || isnull) { puts("bad-op"); free(dat); continue; }
			before(); mkcur();
			set = dat; setlen = dlen;
			ssize_t r;
			if (!strcmp(op, "fcn")) r = mpt_memfcn(cur, ncur, not_in_set, 0);
			else if (!strcmp(op, "rfcn")) r = mpt_memrfcn(cur, ncur, not_in_set, 0);
			else if (!strcmp(op, "str")) r = mpt_memstr(cur, ncur, dat, dlen);
			else r = mpt_memrstr(cur, ncur, dat, dlen);
			pos_result(r);
			free(dat);
		}
		else if (!strcmp(op, "tok") && drv_nw == 5) {
			char *tok = 0, *com = 0, *esc = 0;
			if (parse_cstr(drv_w[2], &tok) || parse_cstr(drv_w[3], &com) || parse_cstr(drv_w[4], &esc)) {
				puts("bad-op"); free(tok); free(com); free(esc); continue;
			}
			before(); mkcur();
			pos_result(mpt_memtok(cur, ncur, tok, com, esc));
			free(tok); free(com); free(esc);
		}
		else if (!strcmp(op, "cpy") && drv_nw == 4) {
			char *e; long n = strtol(drv_w[2], &e, 10);
			struct iovec dst[MAXF]; size_t nd = 0; int bad = (*e || e == drv_w[2] || n > (1 << 20) || n < -(1 << 20));
			char *p, *save = 0;
			if (drv_w[3][0] == ',' || drv_w[3][strlen(drv_w[3]) - 1] == ',' || strstr(drv_w[3], ",,")) bad = 1;
			for (p = strtok_r(drv_w[3], ",", &save); p && !bad; p = strtok_r(0, ",", &save)) {
				if (nd >= MAXF || drv_parse_nat(p, &a) || a > (1u << 20)) { bad = 1; break; }
				dst[nd].iov_base = malloc(a);
				dst[nd].iov_len = a;
				if (a) memset(dst[nd].iov_base, 0x2e, a);
				++nd;
			}
			if (bad || !nd) { puts("bad-op"); while (nd) free(dst[--nd].iov_base); continue; }
			before(); mkcur();
			ssize_t r = mpt_memcpy(n, cur, ncur, dst, nd);
			char code[32];
			snprintf(code, sizeof(code), "%zd", r);
			if (r < 0) printf("R ret=refused out="); else printf("R ret=%zd out=", r);
			size_t total = 0;
			for (size_t i = 0; i < nd; i++) total += dst[i].iov_len;
			if (!total) fputc('-', stdout);
			for (size_t i = 0; i < nd; i++) if (dst[i].iov_len) drv_puthex(stdout, dst[i].iov_base, dst[i].iov_len);
			tail(code);
			while (nd) free(dst[--nd].iov_base);
		}
		else if (!strcmp(op, "argv") && drv_nw == 3) {
			if (parse_byte(drv_w[2], &byte)) { puts("bad-op"); continue; }
			before();
			ssize_t r = mpt_message_argv(&msg, byte);
			char code[32];
			snprintf(code, sizeof(code), "%zd", r);
			if (r >= 0) printf("R ret=%zd", r); else printf("R ret=%s", drv_errname(r));
			tail(code);
		}
		else if (!strcmp(op, "args") && (drv_nw == 3 || (drv_nw == 4 && !strcmp(drv_w[3], "nomem")))) {
			if (parse_byte(drv_w[2], &byte)) { puts("bad-op"); continue; }
			MPT_STRUCT(array) arr = MPT_ARRAY_INIT;
			before();
			fail_malloc = drv_nw == 4 ? 1 : 0;
			int r = mpt_array_message(&arr, &msg, byte);
			fail_malloc = 0;
			char code[32];
			snprintf(code, sizeof(code), "%d", r);
			if (r >= 0) printf("R ret=%d out=", r); else printf("R ret=%s out=", drv_errname(r));
			put_array(&arr);
			tail(code);
			mpt_array_clone(&arr, 0);
		}
		else if (!strcmp(op, "sappend") && drv_nw == 3 && (!strcmp(drv_w[2], "cobs") || !strcmp(drv_w[2], "nl"))) {
			/* mpt_stream_append of the fragment list to a stream on a socket (COBS encoder, or no encoder and
			 * UNIX newline framing), end of message, flush; what arrives at the other end is compared */
			int sv[2], cobs = drv_w[2][0] == 'c';
			if (socketpair(AF_UNIX, SOCK_STREAM, 0, sv) < 0) { puts("R nosocket"); continue; }
			MPT_STRUCT(socket) sock; sock._id = sv[0];
			MPT_STRUCT(stream) st = MPT_STREAM_INIT;
			if (mpt_stream_dopen(&st, &sock, MPT_STREAMFLAG(RdWr) | MPT_STREAMFLAG(Buffer)) < 0) { close(sv[0]); close(sv[1]); puts("R nostream"); continue; }
			if (cobs) st._wd._enc = mpt_message_encoder(MPT_ENUM(EncodingCobs));
			else st._info._fd |= ((uintptr_t) MPT_ENUM(NewlineUnix)) << 14;
			before();
			ssize_t r = mpt_stream_append(&st, &msg);
			ssize_t e = mpt_stream_push(&st, 0, 0);
			mpt_stream_flush(&st);
			static uint8_t rx[1 << 16]; size_t rxlen = 0; ssize_t n;
			while (rxlen < sizeof(rx) && (n = recv(sv[1], rx + rxlen, sizeof(rx) - rxlen, MSG_DONTWAIT)) > 0) rxlen += n;
			printf("R ret=%zd wire=", r);
			/* split at the delimiter (0 for COBS, newline otherwise) and decode */
			size_t start = 0; int any = 0; uint8_t delim = cobs ? 0 : 0x0a;
			for (size_t i = 0; i < rxlen; i++) {
				if (rx[i] != delim) continue;
				static uint8_t dec[1 << 16]; size_t d = 0, p = start; int bad = 0;
				if (!cobs) { memcpy(dec, rx + start, i - start); d = i - start; }
				else {
					bad = (i == start);
					while (p < i && !bad) {
						uint8_t code = rx[p++];
						if (p + code - 1 > i) { bad = 1; break; }
						for (uint8_t k = 1; k < code; k++) dec[d++] = rx[p++];
						if (code != 0xff && p < i) dec[d++] = 0;
					}
				}
				if (any++) fputc(',', stdout);
				printf(bad ? "bad[" : "msg[");
				if (bad) drv_puthex(stdout, rx + start, i - start + 1); else drv_puthex(stdout, dec, d);
				fputc(']', stdout);
				start = i + 1;
			}
			if (start < rxlen) { if (any++) fputc(',', stdout); printf("partial["); drv_puthex(stdout, rx + start, rxlen - start); fputc(']', stdout); }
			if (!any) fputc('-', stdout);
			char code[48];
			snprintf(code, sizeof(code), "%zd", e);
			tail(code);
			mpt_stream_close(&st);
			close(sv[1]);
		}
		else if (!strcmp(op, "big") && drv_nw == 8 && (!strcmp(drv_w[2], "sbuf") || !strcmp(drv_w[2], "scobs"))) {
			/* m big <sbuf|scobs> <seed> <kind> <sizes> <n1> <n2>: generated fragments through mpt_stream_append on a
			 * buffered stream writing to a file (no encoder / COBS).  With n1, n2 > 0 a first message of n1 bytes is
			 * finished, n2 bytes of the next message are pushed and the stream is flushed BEFORE the fragments are
			 * appended to that message (unfinished bytes at a queue offset > 0).  The messages found in the file
			 * are reported as length:fnv64 */
			size_t seed, kind, n1, n2, sizes[MAXF], total; int nf, cobs = drv_w[2][1] == 'c';
			if (drv_parse_nat(drv_w[3], &seed) || seed > 1000 || drv_parse_nat(drv_w[4], &kind) || kind > 2
			    || (nf = big_sizes(drv_w[5], sizes, MAXF, &total)) < 0 || total > 150000
			    || drv_parse_nat(drv_w[6], &n1) || n1 > 2000 || drv_parse_nat(drv_w[7], &n2) || n2 > 2000) { puts("bad-op"); continue; }
			int fd = memfd_create("c17big", 0), rd = fd < 0 ? -1 : dup(fd);
			if (fd < 0 || rd < 0) { puts("R nofile"); continue; }
			MPT_STRUCT(socket) sock; sock._id = fd;
			MPT_STRUCT(stream) st = MPT_STREAM_INIT;
			if (mpt_stream_dopen(&st, &sock, MPT_STREAMFLAG(Write) | MPT_STREAMFLAG(Buffer)) < 0) { close(fd); close(rd); puts("R nostream"); continue; }
			if (cobs) st._wd._enc = mpt_message_encoder(MPT_ENUM(EncodingCobs));
			else st._info._fd |= ((uintptr_t) MPT_ENUM(NewlineUnix)) << 14;   /* a message ends with one newline byte */
			uint8_t *all = malloc(total + n1 + n2 + 1);
			struct iovec bv[MAXF]; MPT_STRUCT(message) bm = MPT_MESSAGE_INIT;
			size_t at = 0; ssize_t pr = 0;
			for (int i = 0; i < nf; i++) {
				/* every fragment in a block of its own (overruns are seen by the sanitizer) */
				uint8_t *b = malloc(sizes[i] ? sizes[i] : 1);
				big_fill(b, kind, seed, at, sizes[i]);
				if (!i) { bm.base = b; bm.used = sizes[i]; }
				else { bv[i - 1].iov_base = b; bv[i - 1].iov_len = sizes[i]; }
				at += sizes[i];
			}
			bm.cont = bv; bm.clen = nf - 1;
			if (n1 || n2) {
				big_fill(all, kind, seed + 1, 0, n1);
				if (n1) pr = mpt_stream_push(&st, n1, all);
				if (pr >= 0) pr = mpt_stream_push(&st, 0, 0);
				big_fill(all, kind, seed + 2, 0, n2);
				if (pr >= 0 && n2) pr = mpt_stream_push(&st, n2, all);
				mpt_stream_flush(&st);
			}
			before();
			ssize_t r = pr < 0 ? pr : mpt_stream_append(&st, &bm);
			ssize_t e = mpt_stream_push(&st, 0, 0);
			mpt_stream_flush(&st);
			mpt_stream_close(&st);
			free((void *) bm.base);
			for (int i = 1; i < nf; i++) free(bv[i - 1].iov_base);
			/* read the file back */
			size_t cap = 2 * (total + n1 + n2) + 4096, got = 0; ssize_t n;
			uint8_t *rx = malloc(cap), *dec = malloc(cap);
			lseek(rd, 0, SEEK_SET);
			while (got < cap && (n = read(rd, rx + got, cap - got)) > 0) got += n;
			close(rd);
			printf("R ret=%zd msgs=", r);
			if (!cobs) printf("%zu:%016llx", got, (unsigned long long) big_fnv(rx, got));
			else {
				size_t start = 0; int any = 0;
				for (size_t i = 0; i < got; i++) {
					if (rx[i]) continue;
					long d = big_uncobs(rx + start, i - start, dec);
					if (any++) fputc(',', stdout);
					if (d < 0) printf("bad@%zu", start); else printf("%ld:%016llx", d, (unsigned long long) big_fnv(dec, d));
					start = i + 1;
				}
				if (start < got) { if (any++) fputc(',', stdout); printf("partial@%zu+%zu", start, got - start); }
				if (!any) fputc('-', stdout);
			}
			free(rx); free(dec); free(all);
			char code[48];
			snprintf(code, sizeof(code), "%zd", e);
			tail(code);
		}
		else if (!strcmp(op, "dhash") && drv_nw == 2) {
			/* mpt_dispatch_hash with a catch-all handler: the command word (first argument after the 2-byte type
			 * header) is hashed — straight from the fragment when it is contiguous, through a copy otherwise */
			MPT_STRUCT(dispatch) disp = MPT_DISPATCH_INIT;
			MPT_STRUCT(event) ev = MPT_EVENT_INIT;
			disp._err.cmd = dhash_handler;
			ev.msg = &msg;
			dhash_called = 0;
			before();
			int r = mpt_dispatch_hash(&disp, &ev);
			char code[32];
			snprintf(code, sizeof(code), "%d", r);
			if (dhash_called) printf("R ret=called hash=%016" PRIx64, (uint64_t) dhash_id);
			else printf("R ret=refused hash=-");
			tail(code);
			mpt_dispatch_fini(&disp);
		}
		else if (!strcmp(op, "append") && (drv_nw == 3 || (drv_nw == 4 && !strncmp(drv_w[3], "nomem:", 6)))) {
			size_t failat = 0;
			if (drv_nw == 4 && (drv_parse_nat(drv_w[3] + 6, &failat) || !failat || failat > 64)) { puts("bad-op"); continue; }
			if (drv_parse_data(drv_w[2], &dat, &dlen, &isnull) || isnull) { puts("bad-op"); free(dat); continue; }
			MPT_STRUCT(array) arr = MPT_ARRAY_INIT;
			if (dlen && !mpt_array_append(&arr, dlen, dat)) { puts("R setup-failed"); free(dat); continue; }
			free(dat);
			before();
			nmalloc = 0;
			fail_malloc = failat;
			int r = mpt_message_append(&arr, &msg);
			fail_malloc = 0;
			char code[48];
			snprintf(code, sizeof(code), "%d", r);
			if (r >= 0) printf("R ret=%d out=", r); else printf("R ret=%s out=", drv_errname(r));
			put_array(&arr);
			snprintf(code, sizeof(code), "%d allocs=%d", r, nmalloc);
			tail(code);
			mpt_array_clone(&arr, 0);
		}
		else puts("bad-op");
	}
	drop_frags();
	return 0;
}
