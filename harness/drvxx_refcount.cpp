/* line-protocol driver: the C++ handle class mpt::reference<T> (mptcore/core.h) with mpt::refcount
 * (mpt++/refcount_wrap.cpp) for C15.  Objects are harness-defined reference-counted nodes (reference<node>::type)
 * that OWN a handle `next` to another node, so that chains can be built; destruction is a real `delete`.
 *
 * Objects 0..2 (creation order), root handles 0..2.
 *   x begin
 *   x new <h> <count>        h.set_instance(new node, counter preset); the handle takes one reference, the other
 *                            count-1 are "external" ones held by the harness
 *   x copy <h> <g>           destroy handle h, copy-construct it from g            (reference(const reference &))
 *   x assign <h> <g>         h = g                                                 (operator=(const reference &))
 *   x move <h> <g>           h = std::move(g)                                      (operator=(reference &&))
 *   x next <h>               h = h.instance()->next     (source handle owned by the object h refers to)
 *   x setnext <o> <g>        object o: next = g
 *   x drop <h>               h.set_instance(0)
 *   x detach <h>             h.detach(): the reference becomes an external one
 *   x ext <o> unref          external reference given back
 *   x end                    drop the root handles, give back external references of small counters
 * Second object kind: the buffers behind mpt::unique_array<Elem> handles a0..a2 (mptcore/array.h; BufferNoCopy buffers whose
 * detach() refuses while they are shared and not empty); Elem counts its live instances.
 *   x ua copy <a> <b>        a = b
 *   x ua insert <a>          a.insert(a.length())            (reserve + construct)
 *   x ua resize <a> <n>      a.resize(n)
 *   x ua drop <a>            a = unique_array<Elem>()
 */
extern "C" {
#include "drv_util.h"
}
#include <new>
#include <utility>
/* mpt++/array.cpp is compiled into this unit (buffers are C objects with a hand-made vtable: vptr check off) */
#include "array.cpp"
#include "core.h"
#include "array.h"

using namespace mpt;

#define NOBJ 3
#define NH 3

struct node
{
	virtual void unref() = 0;
	virtual uintptr_t addref() = 0;
	virtual ~node();
	int id;
	reference<node> next;
};
static int alive[NOBJ];
static int ev_add[NOBJ], ev_unref[NOBJ], ev_destroy[NOBJ], ev_dead[NOBJ];
static uintptr_t ext[NOBJ];

node::~node()
{
	alive[id] = 0;
	ev_destroy[id]++;
}
class xnode : public reference<node>::type
{
public:
	xnode(int i, uintptr_t c) : reference<node>::type(c) { id = i; }
	void unref()
	{
		ev_unref[id]++;
		reference<node>::type::unref();
	}
	uintptr_t addref()
	{
		ev_add[id]++;
		return reference<node>::type::addref();
	}
	uintptr_t count() const { return _ref.value(); }
};
static xnode *objs[NOBJ];
static int nobj;
static reference<node> hnd[NH];

/* ---- unique_array handles */
static long elem_live;
struct Elem
{
	Elem() { ++elem_live; }
	Elem(const Elem &) { ++elem_live; }
	~Elem() { --elem_live; }
	uint64_t pad;
};
class UA : public unique_array<Elem>
{
public:
	UA() : unique_array<Elem>() { }
	content<Elem> *inst() const { return _ref.instance(); }
	UA &operator=(const UA &a) { unique_array<Elem>::operator=(a); return *this; }
};
#define NA 3
static UA *ua[NA];
static void ua_reset(void)
{
	for (int i = 0; i < NA; i++) { delete ua[i]; ua[i] = new UA; }
}
static void ua_result(const char *r)
{
	printf("R %s | C", r);
	for (int i = 0; i < NA; i++) {
		content<Elem> *c = ua[i]->inst();
		if (!c) { printf(" a%d=NULL", i); continue; }
		if (c->get_flags() & BufferImmutable) { printf(" a%d=d", i); continue; }
		int g = i;
		for (int j = 0; j < i; j++) if (ua[j]->inst() == c) { g = j; break; }
		printf(" a%d=g%d:%ld", i, g, ua[i]->length());
	}
	printf(" live=%ld | I ret=0\n", elem_live);
}

static int obj_of(const node *p)
{
	if (!p) return -1;
	for (int i = 0; i < nobj; i++) if (alive[i] && objs[i] == p) return i;
	return 9;
}
static void put_count(uintptr_t v)
{
	if (v == UINTPTR_MAX) fputs("max", stdout);
	else if (v == UINTPTR_MAX - 1) fputs("max-1", stdout);
	else printf("%lu", (unsigned long) v);
}
static void clear_events(void)
{
	for (int i = 0; i < NOBJ; i++) ev_add[i] = ev_unref[i] = ev_destroy[i] = ev_dead[i] = 0;
}
static void result(const char *r)
{
	printf("R %s | C", r);
	for (int i = 0; i < nobj; i++) {
		printf(" o%d=%s:", i, alive[i] ? "A" : "D");
		put_count(alive[i] ? objs[i]->count() : 0);
		printf(":+%d-%d%s%s", ev_add[i], ev_unref[i], ev_destroy[i] ? "D" : "", ev_dead[i] ? "!" : "");
	}
	for (int h = 0; h < NH; h++) {
		int o = obj_of(hnd[h].instance());
		if (o < 0) printf(" h%d=-", h); else if (o == 9) printf(" h%d=?", h); else printf(" h%d=%d", h, o);
	}
	for (int i = 0; i < nobj; i++) {
		int o = alive[i] ? obj_of(objs[i]->next.instance()) : -1;
		if (o < 0) printf(" n%d=-", i); else if (o == 9) printf(" n%d=?", i); else printf(" n%d=%d", i, o);
	}
	printf(" | I ret=0\n");
}
static int parse_count(const char *w, uintptr_t *v)
{
	size_t n;
	if (!strcmp(w, "max")) { *v = UINTPTR_MAX; return 0; }
	if (!strcmp(w, "max-1")) { *v = UINTPTR_MAX - 1; return 0; }
	if (drv_parse_nat(w, &n)) return -1;
	*v = n;
	return 0;
}
static int parse_idx(const char *w, int lim)
{
	size_t n;
	if (drv_parse_nat(w, &n) || n >= (size_t) lim) return -1;
	return (int) n;
}
static void finish_script(void)
{
	for (int h = 0; h < NH; h++) hnd[h].set_instance(0);
	for (int i = 0; i < nobj; i++) {
		while (alive[i] && ext[i] && ext[i] < 16) { ext[i]--; objs[i]->unref(); }
	}
}
/* objects whose counter was preset near the maximum cannot be released by counting down */
static void reap(void)
{
	/* cycles keep each other alive: forget the owned references, then delete what is left */
	for (int i = 0; i < nobj; i++) if (alive[i]) objs[i]->next.detach();
	for (int i = 0; i < nobj; i++) if (alive[i]) delete objs[i];
}

int main(void)
{
	static char line[4096];
	drv_init();
	while (fgets(line, sizeof(line), stdin)) {
		if (line[0] == '#' || line[0] == '\n') { fputs(line, stdout); continue; }
		drv_split(line);
		if (drv_nw < 2 || strcmp(drv_w[0], "x")) { puts("bad-op"); continue; }
		const char *op = drv_w[1];
		clear_events();
		if (!strcmp(op, "begin") && drv_nw == 2) {
			finish_script();
			reap();
			clear_events();
			nobj = 0;
			memset(ext, 0, sizeof(ext));
			ua_reset();
			printf("R ok | C - | I ret=0\n");
		}
		else if (!strcmp(op, "new") && drv_nw == 4) {
			int h = parse_idx(drv_w[2], NH);
			uintptr_t v;
			if (h < 0 || nobj >= NOBJ || parse_count(drv_w[3], &v) || !v) { puts("bad-op"); continue; }
			objs[nobj] = new xnode(nobj, v);
			alive[nobj] = 1;
			ext[nobj] = v - 1;
			nobj++;
			hnd[h].set_instance(objs[nobj - 1]);
			result("ok");
		}
		else if (!strcmp(op, "copy") && drv_nw == 4) {
			int h = parse_idx(drv_w[2], NH), g = parse_idx(drv_w[3], NH);
			if (h < 0 || g < 0 || h == g) { puts("bad-op"); continue; }
			hnd[h].~reference<node>();
			new (&hnd[h]) reference<node>(hnd[g]);
			result("ok");
		}
		else if (!strcmp(op, "assign") && drv_nw == 4) {
			int h = parse_idx(drv_w[2], NH), g = parse_idx(drv_w[3], NH);
			if (h < 0 || g < 0) { puts("bad-op"); continue; }
			hnd[h] = hnd[g];
			result("ok");
		}
		else if (!strcmp(op, "move") && drv_nw == 4) {
			int h = parse_idx(drv_w[2], NH), g = parse_idx(drv_w[3], NH);
			if (h < 0 || g < 0) { puts("bad-op"); continue; }
			hnd[h] = std::move(hnd[g]);
			result("ok");
		}
		else if (!strcmp(op, "next") && drv_nw == 3) {
			int h = parse_idx(drv_w[2], NH);
			if (h < 0 || !hnd[h].instance()) { puts("bad-op"); continue; }
			hnd[h] = hnd[h].instance()->next;
			result("ok");
		}
		else if (!strcmp(op, "setnext") && drv_nw == 4) {
			int o = parse_idx(drv_w[2], nobj), g = parse_idx(drv_w[3], NH);
			if (o < 0 || g < 0 || !alive[o]) { puts("bad-op"); continue; }
			objs[o]->next = hnd[g];
			result("ok");
		}
		else if (!strcmp(op, "drop") && drv_nw == 3) {
			int h = parse_idx(drv_w[2], NH);
			if (h < 0) { puts("bad-op"); continue; }
			hnd[h].set_instance(0);
			result("ok");
		}
		else if (!strcmp(op, "detach") && drv_nw == 3) {
			int h = parse_idx(drv_w[2], NH);
			if (h < 0) { puts("bad-op"); continue; }
			node *p = hnd[h].detach();
			if (p) ext[obj_of(p)]++;
			result("ok");
		}
		else if (!strcmp(op, "ext") && drv_nw == 4 && !strcmp(drv_w[3], "unref")) {
			int o = parse_idx(drv_w[2], nobj);
			if (o < 0 || !alive[o] || !ext[o]) { puts("bad-op"); continue; }
			ext[o]--;
			objs[o]->unref();
			result("ok");
		}
		else if (!strcmp(op, "end") && drv_nw == 2) {
			finish_script();
			result("ok");
		}
		else if (!strcmp(op, "ua") && drv_nw >= 4) {
			int a = parse_idx(drv_w[3], NA);
			const char *sub = drv_w[2];
			if (a < 0) { puts("bad-op"); continue; }
			if (!strcmp(sub, "copy") && drv_nw == 5) {
				int b = parse_idx(drv_w[4], NA);
				if (b < 0) { puts("bad-op"); continue; }
				*ua[a] = *ua[b];
				ua_result("ok");
			}
			else if (!strcmp(sub, "insert") && drv_nw == 4) {
				ua_result(ua[a]->insert(ua[a]->length()) ? "ok" : "refused");
			}
			else if (!strcmp(sub, "resize") && drv_nw == 5) {
				size_t n;
				if (drv_parse_nat(drv_w[4], &n) || n > 64) { puts("bad-op"); continue; }
				ua_result(ua[a]->resize((long) n) ? "ok" : "refused");
			}
			else if (!strcmp(sub, "drop") && drv_nw == 4) {
				*ua[a] = UA();
				ua_result("ok");
			}
			else puts("bad-op");
		}
		else puts("bad-op");
	}
	finish_script();
	reap();
	for (int i = 0; i < NA; i++) delete ua[i];
	return 0;
}
