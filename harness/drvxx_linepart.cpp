/* line-protocol driver: C++ layer of the line parts (C18) — mpt++/linepart.cpp (linepart::array::set/apply,
 * merge path, length_user/length_raw) and the part view of mpt++/polyline.cpp (polyline::iterator,
 * polyline::part::points/line).  Calls the real C++ methods in-process.
 * The transformation is a test double of layout::graph::transform3: part() = mpt_linepart_linear with the
 * range of the dimension. */
extern "C" {
#include "drv_util.h"
}
#include <math.h>
#include <vector>
/* the array buffers are C objects with a hand-made vtable: UBSan's C++ vptr check cannot accept them, so the
 * C++ sources under test are compiled into this driver (found through the include path of the tree under
 * test) with that one check switched off (link_extra = -fno-sanitize=vptr) */
#include "array.cpp"
#include "linepart.cpp"
#include "polyline.cpp"
#include "value_store.cpp"
#include "values.h"
#include "layout.h"

using namespace mpt;

static struct range xrange[3];
static bool have_range[3];
static std::vector<double> xdata[3];

class xtransform : public transform
{
public:
	int dimensions() const { return 3; }
	linepart part(unsigned dim, const double *from, int len) const
	{
		linepart lp;
		mpt_linepart_linear(&lp, from, len, (dim < 3 && have_range[dim]) ? &xrange[dim] : 0);
		return lp;
	}
	virtual ~xtransform() { }
};

/* a user transformation that implements only dimensions(): the default transform::part() is used */
class plaintransform : public transform
{
public:
	int dimensions() const { return 3; }
	virtual ~plaintransform() { }
};
/* which transformation the array is applied with: 0 = test double, 1 = layout::graph::transform3 with the
 * ranges as limits, 2 = plain (default part()) */
static int trkind;
static const transform &current_transform()
{
	static xtransform dbl;
	static plaintransform plain;
	static layout::graph::transform3 t3;
	if (trkind == 2) return plain;
	if (trkind == 1 || trkind == 3) {
		for (int i = 0; i < 3; i++) {
			t3._dim[i].to.x = 1;     /* all three dimensions in use */
			if (have_range[i]) { t3._dim[i]._flags |= TransformLimit; t3._dim[i].limit = xrange[i]; }
			else t3._dim[i]._flags &= ~TransformLimit;
			/* 3: logarithmic limits, the range gives the decades */
			if (trkind == 3) t3._dim[i]._flags |= TransformLg; else t3._dim[i]._flags &= ~TransformLg;
		}
		return t3;
	}
	return dbl;
}

static linepart::array *arr, *arr2;
/* one polyline object for all `xl pset` of a script: a later set() must not show data of an earlier one */
static polyline *xpl;

/* strict decimal digits, at most 18 */
static int parse_digits(const char *s, size_t n, unsigned long long *v)
{
	if (!n || n > 18) return -1;
	unsigned long long r = 0;
	for (size_t i = 0; i < n; i++) {
		if (s[i] < '0' || s[i] > '9') return -1;
		r = r * 10 + (unsigned) (s[i] - '0');
	}
	*v = r; return 0;
}
/* `[-]digits[/digits]`, denominator a power of two <= 2^60, |numerator| < 2^53 */
static int parse_val(const char *s, size_t n, double *out)
{
	int neg = 0;
	unsigned long long num, den = 1;
	if (n && *s == '-') { neg = 1; ++s; --n; }
	const char *sl = (const char *) memchr(s, '/', n);
	size_t nn = sl ? (size_t) (sl - s) : n;
	if (parse_digits(s, nn, &num) || num >= (1ULL << 53)) return -1;
	if (sl) {
		if (memchr(sl + 1, '/', n - nn - 1)) return -1;
		if (parse_digits(sl + 1, n - nn - 1, &den)) return -1;
		if (!den || (den & (den - 1)) || den > (1ULL << 60)) return -1;
	}
	*out = (double) num / (double) den;
	if (neg) *out = -*out;
	return 0;
}
static int parse_data(char *s, std::vector<double> &v)
{
	v.clear();
	while (1) {
		char *e = strchr(s, ',');
		size_t n = e ? (size_t) (e - s) : strlen(s);
		char *st = (char *) memchr(s, '*', n);
		unsigned long long rep = 1;
		double d;
		if (st) {
			if (memchr(st + 1, '*', n - (st - s) - 1)) return -1;
			if (parse_digits(s, st - s, &rep) || rep > 200000) return -1;
			if (parse_val(st + 1, n - (st - s) - 1, &d)) return -1;
		}
		else if (parse_val(s, n, &d)) return -1;
		for (unsigned long long i = 0; i < rep; i++) v.push_back(d);
		if (!e) break;
		s = e + 1;
	}
	return 0;
}
static void dump(const char *verdict, size_t xlen)
{
	long n = arr->length();
	const linepart *lp = arr->begin();
	printf("R %s n=%ld recs=", verdict, n);
	if (!n) fputc('-', stdout);
	for (long i = 0; i < n; i++) printf("%s%u:%u:%u:%u", i ? "," : "", lp[i].raw, lp[i].usr, lp[i]._cut, lp[i]._trim);
	printf(" | C raw=%ld usr=%ld | I len=%zu\n", arr->length_raw(), arr->length_user(), xlen);
}

int main(void)
{
	static char line[1 << 22];
	size_t xlen = 0;
	drv_init();
	arr = new linepart::array;
	while (fgets(line, sizeof(line), stdin)) {
		if (line[0] == '#' || line[0] == '\n') { fputs(line, stdout); continue; }
		drv_split(line);
		if (drv_nw < 2 || strcmp(drv_w[0], "xl")) { puts("bad-op"); continue; }
		const char *op = drv_w[1];
		size_t d;
		if (!strcmp(op, "new") && drv_nw == 2) {
			delete arr; delete arr2; arr2 = 0;
			delete xpl; xpl = 0;
			arr = new linepart::array;
			for (int i = 0; i < 3; i++) { have_range[i] = false; xdata[i].clear(); }
			xlen = 0; trkind = 0;
			puts("R ok | C - | I -");
		}
		else if (!strcmp(op, "range") && drv_nw == 4 && !strcmp(drv_w[3], "null")) {
			if (drv_parse_nat(drv_w[2], &d) || d >= 3) { puts("bad-op"); continue; }
			have_range[d] = false;
			puts("R ok | C - | I -");
		}
		else if (!strcmp(op, "range") && drv_nw == 5) {
			double a, b;
			if (drv_parse_nat(drv_w[2], &d) || d >= 3
			    || parse_val(drv_w[3], strlen(drv_w[3]), &a) || parse_val(drv_w[4], strlen(drv_w[4]), &b)) { puts("bad-op"); continue; }
			xrange[d].min = a; xrange[d].max = b; have_range[d] = true;
			puts("R ok | C - | I -");
		}
		else if (!strcmp(op, "data") && drv_nw == 4) {
			std::vector<double> v;
			if (drv_parse_nat(drv_w[2], &d) || d >= 3) { puts("bad-op"); continue; }
			if (strcmp(drv_w[3], "-") && parse_data(drv_w[3], v)) { puts("bad-op"); continue; }
			xdata[d] = v;
			/* exact-size storage: a read past the last value is a heap overflow for ASan */
			xdata[d].shrink_to_fit();
			printf("R ok | C - | I len=%zu\n", xdata[d].size());
		}
		else if (!strcmp(op, "set") && drv_nw == 3) {
			size_t n;
			if (drv_parse_nat(drv_w[2], &n) || n > 400000) { puts("bad-op"); continue; }
			if (!arr->set((long) n)) { puts("R set-failed | C - | I -"); continue; }
			xlen = n;
			dump("ok", xlen);
		}
		else if (!strcmp(op, "tr") && drv_nw == 3) {
			if (!strcmp(drv_w[2], "double")) trkind = 0;
			else if (!strcmp(drv_w[2], "t3")) trkind = 1;
			else if (!strcmp(drv_w[2], "plain")) trkind = 2;
			else if (!strcmp(drv_w[2], "t3lg")) trkind = 3;
			else { puts("bad-op"); continue; }
			puts("R ok | C - | I -");
		}
		else if (!strcmp(op, "walk") && drv_nw == 3) {
			/* the caller's loop on the transformation's part(): repeated calls advancing by raw */
			const transform &tr = current_transform();
			if (drv_parse_nat(drv_w[2], &d) || d >= 3) { puts("bad-op"); continue; }
			size_t pos = 0, n = 0, len = xdata[d].size();
			bool stall = false;
			fputs("R recs=", stdout);
			while (pos < len) {
				linepart pt = tr.part((unsigned) d, xdata[d].data() + pos, (int) (len - pos));
				printf("%s%u:%u:%u:%u", n ? "," : "", pt.raw, pt.usr, pt._cut, pt._trim);
				++n;
				if (!pt.raw) { stall = true; break; }
				pos += pt.raw;
			}
			if (!n) fputc('-', stdout);
			printf(" n=%zu%s | C - | I -\n", n, stall ? " stall" : "");
		}
		else if (!strcmp(op, "apply") && drv_nw == 3) {
			const transform &tr = current_transform();
			if (drv_parse_nat(drv_w[2], &d) || d >= 3) { puts("bad-op"); continue; }
			bool was_empty = !arr->length();
			if (was_empty) {
				/* apply() repeats part() until the data is consumed: do not enter it with a part() that stalls */
				size_t pos = 0, len = xdata[d].size();
				bool stall = false;
				while (pos < len) {
					linepart pt = tr.part((unsigned) d, xdata[d].data() + pos, (int) (len - pos));
					if (!pt.raw) { stall = true; break; }
					pos += pt.raw;
				}
				if (stall) { puts("R stall | C - | I -"); continue; }
			}
			bool ok = arr->apply(tr, (int) d, span<const double>(xdata[d].data(), (long) xdata[d].size()));
			if (ok && was_empty) xlen = xdata[d].size();
			dump(ok ? "ok" : "refused", xlen);
		}
		else if (!strcmp(op, "pset") && drv_nw == 3) {
			/* polyline::set(tr, stores): parts for the longest store, every store applied as its dimension, the
			 * points transformed (apply_data); stores = the first k data sets (equal lengths) */
			size_t k, n = xdata[0].size();
			if (drv_parse_nat(drv_w[2], &k) || k < 1 || k > 3 || !n) { puts("bad-op"); continue; }
			bool same = true;
			for (size_t i = 0; i < k; i++) if (xdata[i].size() != n) same = false;
			if (!same) { puts("bad-op"); continue; }
			value_store st[3];
			bool stored = true;
			for (size_t i = 0; i < k; i++) if (!st[i].set(span<const double>(xdata[i].data(), (long) n))) stored = false;
			if (!stored) { puts("R store-failed | C - | I -"); continue; }
			if (!xpl) xpl = new polyline;
			polyline &pl = *xpl;
			bool ok = pl.set(current_transform(), span<const value_store>(st, (long) k));
			span<const linepart> ps = pl.parts();
			long np = ps.size(), walked = 0, raw = 0, usr = 0;
			for (polyline::iterator it = pl.begin(), e = pl.end(); it != e && walked <= np; ++it) {
				polyline::part p = *it;
				(void) p.points(); (void) p.line();
				++walked;
			}
			{
				/* dereferencing and advancing the end position: an empty part, no movement */
				polyline::iterator e = pl.end();
				polyline::part pe = *e;
				if (pe.points().size() || pe.line().size() || ++e != pl.end()) walked = -1;
			}
			printf("R %s n=%ld recs=", ok ? "ok" : "refused", np);
			if (!np) fputc('-', stdout);
			for (long i = 0; i < np; i++) {
				const linepart *lp = ps.begin() + i;
				printf("%s%u:%u:%u:%u", i ? "," : "", lp->raw, lp->usr, lp->_cut, lp->_trim);
				raw += lp->raw; usr += lp->usr;
			}
			printf(" pts=%ld | C raw=%ld usr=%ld | I len=%zu walked=%ld\n", (long) pl.points().size(), raw, usr, n, walked);
		}
		else if (!strcmp(op, "reset") && drv_nw == 2) {
			/* linepart::array::set(-1): all points of the existing parts drawn again */
			if (!arr->set(-1)) { puts("R set-failed | C - | I -"); continue; }
			dump("ok", xlen);
		}
		else if (!strcmp(op, "applybad") && drv_nw == 2) {
			/* a dimension the transformation does not have */
			const transform &tr = current_transform();
			bool a = arr->apply(tr, tr.dimensions(), span<const double>(xdata[0].data(), (long) xdata[0].size()));
			bool b = arr->apply(tr, -1, span<const double>(xdata[0].data(), (long) xdata[0].size()));
			dump((a || b) ? "ok" : "refused", xlen);
		}
		else if (!strcmp(op, "wjoin") && drv_nw == 4) {
			/* the C++ wrappers linepart::join / cut() / trim() */
			linepart to, post;
			unsigned v[8];
			if (sscanf(drv_w[2], "%u:%u:%u:%u", &v[0], &v[1], &v[2], &v[3]) != 4 || sscanf(drv_w[3], "%u:%u:%u:%u", &v[4], &v[5], &v[6], &v[7]) != 4) { puts("bad-op"); continue; }
			bool big = false;
			for (int i = 0; i < 8; i++) if (v[i] > 65535) big = true;
			if (big) { puts("bad-op"); continue; }
			to.raw = v[0]; to.usr = v[1]; to._cut = v[2]; to._trim = v[3];
			post.raw = v[4]; post.usr = v[5]; post._cut = v[6]; post._trim = v[7];
			/* cut() / trim() decode the 16-bit codes: code / 65536, exact in a float */
			if (to.join(post)) printf("R joined %u:%u:%u:%u cut=%ld trim=%ld | C raw=%u usr=%u | I -\n", to.raw, to.usr, to._cut, to._trim,
			                          lround((double) to.cut() * 65536.0), lround((double) to.trim() * 65536.0), to.raw, to.usr);
			else printf("R refused %u:%u:%u:%u | C raw=%u usr=%u | I -\n", to.raw, to.usr, to._cut, to._trim, to.raw + post.raw, to.usr + post.usr);
		}
		else if (!strcmp(op, "wcode") && drv_nw == 3) {
			/* linepart::set_cut / set_trim with a value a float holds exactly */
			double dv;
			if (parse_val(drv_w[2], strlen(drv_w[2]), &dv) || (double) (float) dv != dv) { puts("bad-op"); continue; }
			linepart lp;
			lp.raw = lp.usr = 2; lp._cut = 7; lp._trim = 9;
			bool a = lp.set_cut((float) dv), b = lp.set_trim((float) dv);
			printf("R %s cut=%u trim=%u | C - | I -\n", (a && b) ? "ok" : (a || b) ? "mixed" : "refused", lp._cut, lp._trim);
		}
		else if (!strcmp(op, "share") && drv_nw == 2) {
			/* a second handle on the same parts (the part array of a copied polyline): the buffer is shared */
			delete arr2;
			arr2 = new linepart::array(*arr);
			puts("R ok | C - | I -");
		}
		else if ((!strcmp(op, "set2") || !strcmp(op, "apply2") || !strcmp(op, "dump2")) && arr2) {
			/* operations on the second handle: the first one keeps its parts */
			linepart::array *keep = arr;
			bool ok = true;
			size_t n = 0;
			if (op[0] == 's') {
				if (drv_nw != 3 || drv_parse_nat(drv_w[2], &n) || n > 400000) { puts("bad-op"); continue; }
				ok = arr2->set((long) n);
			}
			else if (op[0] == 'a') {
				if (drv_nw != 3 || drv_parse_nat(drv_w[2], &d) || d >= 3 || !arr2->length()) { puts("bad-op"); continue; }
				ok = arr2->apply(current_transform(), (int) d, span<const double>(xdata[d].data(), (long) xdata[d].size()));
			}
			else if (drv_nw != 2) { puts("bad-op"); continue; }
			arr = arr2;
			dump(ok ? "ok" : "refused", 0);
			arr = keep;
		}
		else if (!strcmp(op, "dump") && drv_nw == 2) dump("ok", xlen);
		else if (!strcmp(op, "poly") && drv_nw == 2) {
			/* walk the parts as polyline::iterator does, over a point array of length_user() entries */
			long total = arr->length_user();
			std::vector<polyline::point> pts(total > 0 ? total : 1);
			polyline::iterator it(arr->elements(), pts.data());
			long n = arr->length();
			fputs("R spans=", stdout);
			if (!n) fputc('-', stdout);
			for (long i = 0; i < n; i++) {
				polyline::part p = *it;
				span<const polyline::point> a = p.points(), b = p.line();
				printf("%s%ld+%ld/%ld+%ld", i ? "," : "", (long) (a.begin() - pts.data()), (long) a.size(),
				       (long) (b.begin() - pts.data()), (long) b.size());
				++it;
			}
			puts(" | C - | I -");
		}
		else puts("bad-op");
	}
	delete arr; delete arr2; delete xpl;
	return 0;
}
