/* C07, C++ part: a scalar held in the template metatype mpt::metatype::value<T> (mptcore/meta.h) and asked for another
 * scalar type through its convert(): without destination (query) and with one.  The holder delegates to the C converter,
 * so both modes have to give the verdict of mpt_value_convert().
 *   cx hold <src> <tgt> <value>     src in i u x t d f (value: decimal integer / hex value bytes), tgt any scalar code
 * answer:  R dst=<ok|refused|OOB> out=<hex|-> nodst=<ok|refused> | C - | I -
 */
#include "drv_util.h"
#include <errno.h>
#include <inttypes.h>
#include "types.h"
#include "convert.h"
#include "meta.h"

using namespace mpt;

static int tsize(char c)
{
	switch (c) {
	case 'c': case 'b': case 'y': return 1;
	case 'n': case 'q': return 2;
	case 'i': case 'u': case 'f': return 4;
	case 'x': case 't': case 'd': return 8;
	case 'e': return 10;
	default: return 0;
	}
}
#define DSTLEN 64
static unsigned char dstbuf[DSTLEN] __attribute__((aligned(16)));

template <typename T>
static void run(const T &v, char tgt)
{
	metatype::value<T> held(v);
	memset(dstbuf, 0xa5, DSTLEN);
	int size = tsize(tgt), full = tgt == 'e' ? 16 : size;
	int rq = held.convert((type_t) (unsigned char) tgt, 0);
	int rd = held.convert((type_t) (unsigned char) tgt, dstbuf);
	int spill = 0;
	for (int i = full; i < DSTLEN; i++) if (dstbuf[i] != 0xa5) spill = 1;
	printf("R dst=%s out=", rd < 0 ? "refused" : (spill ? "OOB" : "ok"));
	if (rd < 0) fputc('-', stdout);
	else if ((tgt == 'f' && *(float *) dstbuf != *(float *) dstbuf) || (tgt == 'd' && *(double *) dstbuf != *(double *) dstbuf)
	         || (tgt == 'e' && *(long double *) dstbuf != *(long double *) dstbuf)) fputs("nan", stdout);
	else drv_puthex(stdout, dstbuf, size);
	printf(" nodst=%s | C - | I -\n", rq < 0 ? "refused" : "ok");
}

int main(void)
{
	static char line[1 << 16];
	drv_init();
	while (fgets(line, sizeof(line), stdin)) {
		if (line[0] == '#' || line[0] == '\n') { fputs(line, stdout); continue; }
		drv_split(line);
		if (drv_nw != 5 || strcmp(drv_w[0], "cx") || strcmp(drv_w[1], "hold") || strlen(drv_w[2]) != 1 || strlen(drv_w[3]) != 1
		    || !tsize(drv_w[3][0])) { puts("bad-op"); continue; }
		char src = drv_w[2][0], tgt = drv_w[3][0];
		const char *val = drv_w[4];
		if (src == 'd' || src == 'f') {
			uint8_t *b; size_t n; int isnull;
			if (drv_parse_data(val, &b, &n, &isnull) || isnull || n != (size_t) tsize(src)) { puts("bad-op"); continue; }
			if (src == 'd') { double d; memcpy(&d, b, 8); free(b); if (d != d) { puts("bad-op"); continue; } run<double>(d, tgt); }
			else { float f; memcpy(&f, b, 4); free(b); if (f != f) { puts("bad-op"); continue; } run<float>(f, tgt); }
			continue;
		}
		errno = 0;
		char *end;
		if (src == 'u' || src == 't') {
			if (*val == '-') { puts("bad-op"); continue; }
			uintmax_t u = strtoumax(val, &end, 10);
			if (errno || *end || end == val || (src == 'u' && u > UINT32_MAX)) { puts("bad-op"); continue; }
			if (src == 'u') run<uint32_t>((uint32_t) u, tgt); else run<uint64_t>((uint64_t) u, tgt);
		}
		else if (src == 'i' || src == 'x') {
			intmax_t i = strtoimax(val, &end, 10);
			if (errno || *end || end == val || (src == 'i' && (i > INT32_MAX || i < INT32_MIN))) { puts("bad-op"); continue; }
			if (src == 'i') run<int32_t>((int32_t) i, tgt); else run<int64_t>((int64_t) i, tgt);
		}
		else puts("bad-op");
	}
	return 0;
}
