/* line-protocol driver: the C++ face of the type registry (C06): mpt::type_traits wrappers of
 * mpt++/type_traits_wrap.cpp and metatype::basic::pointer_traits() of mpt++/metatype_basic.cpp.
 * One process per script (the registry is process-global).
 *
 *   tx reset
 *   tx basic <size> | tx generic <size> [i][f]     type_traits::add_basic / type_traits::add
 *   tx iface <name> | tx meta <name>               type_traits::add_interface / add_metatype  (hex, `-` = "", `null` = default argument)
 *   tx traits <id> | tx named <name> <len>         type_traits::get(int) / type_traits::get(name, len)
 *   tx basicmeta                                   metatype::basic::pointer_traits(): the (cached) named traits of the basic metatype
 *   tx sweep                                       as `t sweep`
 */
extern "C" {
#include "drv_util.h"
}
#include <errno.h>
#include <sys/uio.h>
#include "types.h"
#include "meta.h"

using namespace mpt;

#define SWEEP_MAX 0x1100
static unsigned char issued[SWEEP_MAX + 1];
static long basic_id = -1;

static int my_init(void *a, const void *b) { (void) a; (void) b; return 0; }
static void my_fini(void *a) { (void) a; }

static int parse_name(const char *w, char **out)
{
	uint8_t *b; size_t n; int isnull;
	if (!strcmp(w, "null")) { *out = 0; return 0; }
	if (drv_parse_data(w, &b, &n, &isnull) || isnull) return -1;
	for (size_t i = 0; i < n; i++) if (!b[i]) { free(b); return -1; }
	char *s = (char *) malloc(n + 1);
	memcpy(s, b, n); s[n] = 0;
	free(b);
	*out = s;
	return 0;
}
static void put_name(const char *name)
{
	if (!name) { fputs("null", stdout); return; }
	drv_puthex(stdout, (const uint8_t *) name, strlen(name));
}
static int parse_int(const char *s, long *v)
{
	char *e;
	if (!*s) return -1;
	*v = strtol(s, &e, 10);
	return *e ? -1 : 0;
}
static void put_traits(const struct type_traits *t)
{
	if (!t) { fputs("none", stdout); return; }
	printf("size=%zu init=%d fini=%d", t->size, t->init != 0, t->fini != 0);
}
static void put_add(long id, long lo, long hi)
{
	if (id < 0) { printf("R refused | C - | I err=%s\n", drv_errname(id)); return; }
	int fresh = id <= SWEEP_MAX ? !issued[id] : 1;
	if (id <= SWEEP_MAX) issued[id] = 1;
	printf("R ok fresh=%s range=%s ", fresh ? "yes" : "no", (id >= lo && id <= hi) ? "yes" : "no");
	put_traits(type_traits::get((int) id));
	printf(" | C id=%ld | I -\n", id);
}
static void put_named_add(const struct named_traits *nt, long lo, long hi)
{
	if (!nt) { printf("R refused | C - | I -\n"); return; }
	long id = (long) nt->type;
	int fresh = (id >= 0 && id <= SWEEP_MAX) ? !issued[id] : 1;
	if (id >= 0 && id <= SWEEP_MAX) issued[id] = 1;
	printf("R ok fresh=%s range=%s name=", fresh ? "yes" : "no", (id >= lo && id <= hi) ? "yes" : "no");
	put_name(nt->name);
	printf(" ");
	put_traits(&nt->traits);
	printf(" | C id=%ld | I -\n", id);
}
static void put_named(const struct named_traits *nt)
{
	if (!nt) { printf("R none | C - | I -\n"); return; }
	printf("R found id=%ld name=", (long) nt->type);
	put_name(nt->name);
	printf(" ");
	put_traits(&nt->traits);
	printf(" | C - | I -\n");
}

struct attr { int have; size_t size; int init, fini; };
static int attr_eq(const struct attr *a, const struct attr *b)
{
	return a->have == b->have && a->size == b->size && a->init == b->init && a->fini == b->fini;
}
static void put_run(long a, long b, const struct attr *at, int *first)
{
	if (!at->have) return;
	if (!*first) fputc(',', stdout);
	*first = 0;
	if (a == b) printf("%ld", a); else printf("%ld-%ld", a, b);
	printf("=%zu%s%s", at->size, at->init ? "i" : "", at->fini ? "f" : "");
}
/* description objects by id as first seen (see drv_types.c) */
static const void *seen_obj[SWEEP_MAX + 2], *seen_named[SWEEP_MAX + 2];
static int note_obj(const void **tab, long id, const void *t)
{
	if (id < 0 || id > SWEEP_MAX || !t) return 0;
	if (!tab[id]) { tab[id] = t; return 0; }
	return tab[id] != t;
}
struct probe_obj { probe_obj() : a(0), b(0) { } ~probe_obj() { } long a, b; char c[24]; };

static void op_sweep(void)
{
	struct attr run = { 0, 0, 0, 0 }, cur;
	long start = 0, moved[8];
	int first = 1, nmoved = 0;
	printf("R traits=");
	for (long id = 0; id <= SWEEP_MAX + 1; id++) {
		const struct type_traits *t = id <= SWEEP_MAX ? type_traits::get((int) id) : 0;
		cur.have = t != 0; cur.size = t ? t->size : 0; cur.init = t && t->init; cur.fini = t && t->fini;
		if (note_obj(seen_obj, id, t) && nmoved < 8) moved[nmoved++] = id;
		if (id == 0 || !attr_eq(&cur, &run)) {
			if (id) put_run(start, id - 1, &run, &first);
			run = cur; start = id;
		}
	}
	if (first) fputc('-', stdout);
	printf(" names=");
	first = 1;
	for (long id = _TypeInterfaceBase; id <= _TypeMetaPtrMax; id++) {
		const struct named_traits *nt;
		if (id > _TypeInterfaceMax && id < _TypeMetaPtrBase) continue;
		nt = id <= _TypeInterfaceMax ? mpt_interface_traits((type_t) id) : mpt_metatype_traits((type_t) id);
		if (!nt) continue;
		if (!first) fputc(',', stdout);
		first = 0;
		printf("%ld:", id);
		put_name(nt->name);
		if ((long) nt->type != id) printf("!type=%ld", (long) nt->type);
		if (note_obj(seen_named, id, nt) && nmoved < 8) moved[nmoved++] = id;
	}
	if (first) fputc('-', stdout);
	printf(" moved=");
	if (!nmoved) fputc('-', stdout);
	for (int i = 0; i < nmoved; i++) printf("%s%ld", i ? "," : "", moved[i]);
	printf(" | C - | I -\n");
}

int main(void)
{
	static char line[1 << 16];
	static int nops;
	drv_init();
	for (long id = _TypeInterfaceBase; id < _TypeInterfaceAdd; id++) issued[id] = 1;
	issued[TypeMetaPtr] = 1;
	while (fgets(line, sizeof(line), stdin)) {
		if (line[0] == '#' || line[0] == '\n') { fputs(line, stdout); continue; }
		drv_split(line);
		if (drv_nw < 2 || strcmp(drv_w[0], "tx")) { puts("bad-op"); continue; }
		const char *op = drv_w[1];
		long a, b;
		char *name;
		if (!strcmp(op, "reset") && drv_nw == 2) {
			printf("R %s | C - | I -\n", nops ? "stale" : "ok");
			++nops;
			continue;
		}
		++nops;
		if (!strcmp(op, "basic") && drv_nw == 3) {
			if (parse_int(drv_w[2], &a) || a < 0) { puts("bad-op"); continue; }
			put_add(type_traits::add_basic((size_t) a), _TypeDynamicBase, _TypeDynamicMax);
		}
		else if (!strcmp(op, "generic") && (drv_nw == 3 || drv_nw == 4)) {
			int wi = 0, wf = 0, bad = 0;
			if (parse_int(drv_w[2], &a) || a < 0) { puts("bad-op"); continue; }
			if (drv_nw == 4) {
				for (const char *p = drv_w[3]; *p; ++p) { if (*p == 'i' && !wi) wi = 1; else if (*p == 'f' && !wf) wf = 1; else bad = 1; }
				if (bad || !*drv_w[3]) { puts("bad-op"); continue; }
			}
			/* the registry keeps the address: kept reachable until exit */
			static struct type_traits *pool[4096];
			static int pool_used;
			if (pool_used >= 4096) { puts("bad-op"); continue; }
			struct type_traits *t = new type_traits((size_t) a, wf ? my_fini : 0, wi ? my_init : 0);
			pool[pool_used++] = t;
			put_add(type_traits::add(*t), _TypeValueAdd, _TypeValueMax);
		}
		else if ((!strcmp(op, "iface") || !strcmp(op, "meta")) && drv_nw == 3) {
			if (parse_name(drv_w[2], &name)) { puts("bad-op"); continue; }
			const struct named_traits *nt;
			if (*op == 'i') nt = name ? type_traits::add_interface(name) : type_traits::add_interface();
			else nt = name ? type_traits::add_metatype(name) : type_traits::add_metatype();
			if (*op == 'i') put_named_add(nt, _TypeInterfaceAdd, _TypeInterfaceMax);
			else put_named_add(nt, _TypeMetaPtrBase + 1, _TypeMetaPtrMax);
			free(name);
		}
		else if (!strcmp(op, "traits") && drv_nw == 3) {
			if (parse_int(drv_w[2], &a) || a < 0) { puts("bad-op"); continue; }
			printf("R ");
			put_traits(type_traits::get((int) a));
			printf(" | C - | I -\n");
		}
		else if (!strcmp(op, "named") && drv_nw == 4) {
			if (parse_name(drv_w[2], &name)) { puts("bad-op"); continue; }
			if (!name || parse_int(drv_w[3], &b)) { free(name); puts("bad-op"); continue; }
			put_named(type_traits::get(name, (int) b));
			free(name);
		}
		else if (!strcmp(op, "basicmeta") && drv_nw == 2) {
			const struct named_traits *nt = metatype::basic::pointer_traits(true);
			if (!nt) { printf("R refused | C - | I -\n"); continue; }
			long id = (long) nt->type;
			const char *fresh = id == basic_id ? "same" : ((id >= 0 && id <= SWEEP_MAX && issued[id]) ? "no" : "yes");
			if (id >= 0 && id <= SWEEP_MAX) issued[id] = 1;
			basic_id = id;
			printf("R ok fresh=%s range=%s name=", fresh, (id > _TypeMetaPtrBase && id <= _TypeMetaPtrMax) ? "yes" : "no");
			put_name(nt->name);
			printf(" ");
			put_traits(&nt->traits);
			printf(" | C id=%ld | I -\n", id);
		}
		else if ((!strcmp(op, "propid") || !strcmp(op, "propid0")) && drv_nw == 3) {
			/* type_properties<T>::id(obtain): the C++ way to obtain a type id for a C++ type: registers the type's traits once
			 * (ptr: a pointer type, obj: a class with constructor/destructor) and answers the same id from then on;
			 * propid0 = id(false): asks without registering */
			int which = !strcmp(drv_w[2], "ptr") ? 0 : !strcmp(drv_w[2], "obj") ? 1 : -1;
			if (which < 0) { puts("bad-op"); continue; }
			static long prop_id[2];
			bool obtain = !op[6];
			int id = which ? type_properties<probe_obj>::id(obtain) : type_properties<probe_obj *>::id(obtain);
			if (id <= 0) { printf("R refused | C - | I err=%d\n", id); continue; }
			const char *fresh = id == prop_id[which] ? "same" : ((id <= SWEEP_MAX && issued[id]) ? "no" : "yes");
			if (id <= SWEEP_MAX) issued[id] = 1;
			prop_id[which] = id;
			printf("R ok fresh=%s range=%s ", fresh, (id >= _TypeValueAdd && id <= _TypeValueMax) ? "yes" : "no");
			put_traits(type_traits::get(id));
			printf(" | C id=%d | I -\n", id);
		}
		else if (!strcmp(op, "sweep") && drv_nw == 2) op_sweep();
		else puts("bad-op");
	}
	return 0;
}
