/* shared by drv_event.c and drvxx_event.cpp: registrations, handler log, result lines */
#ifndef DRV_EVENT_COMMON_H
#define DRV_EVENT_COMMON_H
#define MAXREG 4096
#define MAXLOG 8192

/* the dispatcher under test, seen through a plain mirror of `struct dispatch` (its members are protected in C++) */
struct drv_rawbuf { const void *_vptr; const void *_content_traits; size_t _size; size_t _used; };
struct drv_rawdisp {
	struct { struct drv_rawbuf *_buf; } _d;
	uintptr_t _def;
	struct { int (*cmd)(void *, MPT_STRUCT(event) *); void *arg; } _err;
	void *_ctx;
};
static struct drv_rawdisp *D;
#define DISP ((MPT_STRUCT(dispatch) *) (void *) D)
static int have;

/* registrations: the handler argument is &regs[r] */
static struct reg { int dummy; } regs[MAXREG];
static size_t nreg;

/* log of handler invocations during the current op */
static struct { size_t reg; int final; uintptr_t id; } logv[MAXLOG];
static size_t logn;
static int quiet;

/* scripted result of the handler invoked by the current op */
static int cur_res;
static int cur_zero;
/* the handler invoked by the current op (outermost invocation only) dispatches the event by hash instead of answering */
static int cur_nest;
static int in_nest;

/* reply context the events carry while `rc on` is in force: it swallows the replies (what is replied is not part of
 * C11; that the dispatcher behaves the same with and without a reply context is) */
/* id the event structure of a message event already carries when it is emitted (op stale: an event structure that
 * is used again); the first message byte decides, not this */
static uintptr_t stale_id;
static int rc_on;
static unsigned long rc_count;
#ifdef __cplusplus
class drv_reply_context : public reply_context
{
public:
	int reply(const struct message *) __MPT_OVERRIDE { ++rc_count; return 0; }
};
static drv_reply_context drv_rc;
# define EV_RC(ev) ((ev).reply = rc_on ? &drv_rc : 0)
#else
static int drv_rc_reply(MPT_INTERFACE(reply_context) *rc, const MPT_STRUCT(message) *msg)
{ (void) rc; (void) msg; ++rc_count; return 0; }
static MPT_INTERFACE(reply_context_detached) *drv_rc_defer(MPT_INTERFACE(reply_context) *rc)
{ (void) rc; return 0; }
static const MPT_INTERFACE_VPTR(reply_context) drv_rc_vptr = { drv_rc_reply, drv_rc_defer };
static MPT_INTERFACE(reply_context) drv_rc = { &drv_rc_vptr };
# define EV_RC(ev) ((ev).reply = rc_on ? &drv_rc : 0)
#endif

static int handler(void *arg, MPT_STRUCT(event) *ev)
{
	size_t r = (struct reg *) arg - regs;
	if (!quiet && logn < MAXLOG) {
		logv[logn].reg = r;
		logv[logn].final = ev ? 0 : 1;
		logv[logn].id = ev ? ev->id : 0;
		++logn;
	}
	if (!ev) return 0;
	if (cur_nest && !in_nest) {
		/* the documented wiring of text commands: the handler of the message type hands the event to mpt_dispatch_hash */
		int r;
		in_nest = 1;
		r = mpt_dispatch_hash(DISP, ev);
		in_nest = 0;
		return r;
	}
	if (cur_zero) ev->id = 0;
	return cur_res;
}
static void put_entry(size_t i)
{
	if (logv[i].final) printf("%zu:F", logv[i].reg);
	else printf("%zu:%" PRIuPTR, logv[i].reg, logv[i].id);
}
/* log entries, stable-sorted by registration number (the order among several end-of-life notifications
 * of one op is not part of the property; the raw order is printed in the I section) */
static void put_log_sorted(void)
{
	size_t idx[MAXLOG], i, j;
	if (!logn) { fputc('-', stdout); return; }
	for (i = 0; i < logn; i++) {
		size_t k = i;
		for (j = i; j > 0 && logv[idx[j-1]].reg > logv[k].reg; j--) idx[j] = idx[j-1];
		idx[j] = k;
	}
	for (i = 0; i < logn; i++) { if (i) fputc(',', stdout); put_entry(idx[i]); }
}
static void put_log_raw(void)
{
	size_t i;
	if (!logn) { fputc('-', stdout); return; }
	for (i = 0; i < logn; i++) { if (i) fputc(',', stdout); put_entry(i); }
}
/* table as stored: read from the buffer memory, independent of the library's lookup functions */
static size_t table(MPT_STRUCT(command) **base)
{
	struct drv_rawbuf *b = D->_d._buf;
	if (!b) { *base = 0; return 0; }
	*base = (MPT_STRUCT(command) *) (void *) (b + 1);
	return b->_used / sizeof(**base);
}
/* registration whose element was reserved by the running op: its id is shown as "new" (which fresh id is handed out
 * is free; the id itself is among the internals) */
static size_t new_reg = (size_t) -1;
static void put_state(void)
{
	MPT_STRUCT(command) *c;
	size_t n = table(&c), i, r, any = 0;
	printf(" | C live=");
	/* live registrations in registration order */
	for (r = 0; r < nreg; r++) {
		for (i = 0; i < n; i++) {
			if (c[i].cmd && c[i].arg == (void *) &regs[r]) {
				if (any++) fputc(',', stdout);
				if (r == new_reg) printf("new>%zu", r);
				else printf("%" PRIuPTR ">%zu", c[i].id, r);
			}
		}
	}
	/* live slots that do not belong to the harness */
	for (i = 0; i < n; i++) {
		if (c[i].cmd && (c[i].cmd != (int (*)(void *, void *)) handler
		    || (struct reg *) c[i].arg < regs || (struct reg *) c[i].arg >= regs + nreg)) {
			if (any++) fputc(',', stdout);
			printf("%" PRIuPTR ">?", c[i].id);
		}
	}
	if (!any) fputc('-', stdout);
	if (!D->_err.cmd) printf(" fb=-");
	else if (D->_err.cmd == handler) printf(" fb=%zu", (size_t) ((struct reg *) D->_err.arg - regs));
	else printf(" fb=builtin");
	printf(" def=%" PRIuPTR, D->_def);
}
static void put_internals(const char *ret, uintptr_t evid)
{
	MPT_STRUCT(command) *c;
	struct drv_rawbuf *b = D->_d._buf;
	size_t n = table(&c), i;
	printf(" | I ret=%s evid=%" PRIuPTR " used=%zu cap=%zu typed=%d slots=", ret, evid, n,
	       b ? b->_size : (size_t) 0, b && b->_content_traits ? 1 : 0);
	if (!n) fputc('-', stdout);
	for (i = 0; i < n; i++) {
		if (i) fputc(',', stdout);
		if (!c[i].cmd) printf("%" PRIuPTR ":-", c[i].id);
		else if (c[i].cmd == (int (*)(void *, void *)) handler) printf("%" PRIuPTR ":%zu", c[i].id, (size_t) ((struct reg *) c[i].arg - regs));
		else printf("%" PRIuPTR ":?", c[i].id);
	}
	printf(" raw=");
	put_log_raw();
	fputc('\n', stdout);
}
static void result(const char *verdict, const char *ret, uintptr_t evid)
{
	printf("R %s log=", verdict);
	put_log_sorted();
	put_state();
	put_internals(ret, evid);
}
static void result_verdict(long r)
{
	char buf[32];
	snprintf(buf, sizeof(buf), "%ld", r);
	result(r < 0 ? "refused" : "ok", buf, 0);
}
static void result_ret(long r, uintptr_t evid)
{
	char v[48], buf[32];
	snprintf(v, sizeof(v), "ret=%ld", r);
	snprintf(buf, sizeof(buf), "%ld", r);
	result(v, buf, evid);
}
/* strict decimal: digits only, no leading zero */
static int parse_dec(const char *s, unsigned long long *v)
{
	char *e;
	if (!*s || *s < '0' || *s > '9' || (s[0] == '0' && s[1])) return -1;
	for (e = (char *) s; *e; ++e) if (*e < '0' || *e > '9') return -1;
	if (strlen(s) > 20) return -1;
	errno = 0;
	*v = strtoull(s, &e, 10);
	if (*e || errno) return -1;
	return 0;
}
/* "<int>" or "<int>z" (handler clears the event id before returning); range of int, "-0" not accepted */
static int parse_res(const char *s)
{
	char tmp[32];
	unsigned long long v;
	size_t n = strlen(s);
	int neg = 0, zero = 0;
	if (!n || n >= sizeof(tmp)) return -1;
	memcpy(tmp, s, n + 1);
	if (tmp[n-1] == 'z') { zero = 1; tmp[--n] = 0; }
	const char *d = tmp;
	if (*d == '-') { neg = 1; ++d; }
	if (parse_dec(d, &v)) return -1;
	if (neg ? (v == 0 || v > 2147483648ULL) : (v > 2147483647ULL)) return -1;
	cur_zero = zero;
	cur_res = neg ? (int) -(long long) v : (int) v;
	return 0;
}
static int parse_id(const char *s, uintptr_t *id)
{
	unsigned long long v;
	if (parse_dec(s, &v)) return -1;
	*id = (uintptr_t) v;
	return 0;
}
static void drv_release(void);
static void teardown(void)
{
	if (!have) return;
	quiet = 1;
	drv_release();
	quiet = 0;
	have = 0;
}

#endif
