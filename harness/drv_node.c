/* line-protocol driver: mptcore/node (C14).  Calls the real functions in-process.
 *
 * The driver keeps a table token -> node pointer (tokens in creation order, clones are
 * registered in pre-order of the returned structure).  After EVERY op it walks the whole
 * structure from every list head it knows (live table entry without parent and without
 * predecessor), checks the link invariants itself and prints the forest canonically:
 *
 *   R <verdict> | C <list>/<list>/...  | I ret=<...>
 *   list  = tree,tree,...           (lists ordered by the token of their head)
 *   tree  = <token>:<name>[=<value>][(<list>)]
 *
 * A broken invariant replaces the C text by BROKEN:<what>.
 */
#include "drv_util.h"
#include <errno.h>
#include <limits.h>
extern size_t __sanitizer_get_current_allocated_bytes(void);   /* ASan runtime */
#include "meta.h"
#include "types.h"
#include "node.h"
#include "parse.h"

#define MAXN 8192
struct ent { MPT_STRUCT(node) *p; int alive; int seen; };
static struct ent tab[MAXN];
static int ntab;
static size_t base_bytes;
static int have_base;

/* a corrupted structure can make the library loop or allocate without end: bound both */
const char *__asan_default_options(void) { return "hard_rss_limit_mb=4096"; }
static void on_alarm(int sig)
{
	static const char msg[] = "\nFAULT timeout (operation did not return within 3 s)\n";
	(void) sig;
	if (write(1, msg, sizeof(msg) - 1) < 0) { }
	_exit(99);
}
/* allocation failure injection (linked with -Wl,--wrap=malloc): while armed, the `fail_at`-th malloc of the
 * library call returns NULL once; the calls are counted either way */
extern void *__real_malloc(size_t);
static long fail_at, malloc_count;
static int armed;
void *__wrap_malloc(size_t n)
{
	if (armed) {
		++malloc_count;
		if (fail_at && malloc_count == fail_at) { errno = ENOMEM; return 0; }
	}
	return __real_malloc(n);
}
static long pending_fail;   /* set by `n fail <k>`, consumed by the next clone op */
static int abandoned;   /* a script ended with a broken structure: its nodes were given up, not freed */
static int dead_script; /* the current script has shown a broken structure: no further library calls */

static char outbuf[1 << 20];
static size_t outlen;
static char broken[256];
static int sticky;   /* a defect seen while registering a clone stays reported */

static void out_s(const char *s)
{
	size_t n = strlen(s);
	if (outlen + n + 1 >= sizeof(outbuf)) return;
	memcpy(outbuf + outlen, s, n + 1);
	outlen += n;
}
static void set_broken(const char *what, int a, int b)
{
	if (broken[0]) return;
	snprintf(broken, sizeof(broken), "BROKEN:%s@%d,%d", what, a, b);
}
static int tok_of(const MPT_STRUCT(node) *p)
{
	for (int i = ntab - 1; i >= 0; i--) {
		if (tab[i].p == p) return i;
	}
	return -1;
}
static int reg(MPT_STRUCT(node) *p)
{
	if (ntab >= MAXN) { fputs("FAULT table\n", stdout); exit(3); }
	tab[ntab].p = p; tab[ntab].alive = 1; tab[ntab].seen = 0;
	return ntab++;
}
/* register a freshly cloned structure in pre-order; list != 0: follow next links of the top level */
static void reg_clone(MPT_STRUCT(node) *n, int list, int depth)
{
	while (n) {
		if (tok_of(n) >= 0) { set_broken("clone-shares-node", tok_of(n), depth); sticky = 1; return; }
		reg(n);
		if (n->children) reg_clone(n->children, 1, depth + 1);
		if (!list) break;
		n = n->next;
	}
}
static void put_name(const MPT_STRUCT(node) *n)
{
	const char *id;
	if (!n->ident._len) { out_s("-"); return; }
	id = mpt_identifier_data(&n->ident);
	if (!n->ident._charset) {
		/* binary key (mpt_identifier_set(id, 0, len) + data): printed as #<hex> */
		static const char d[] = "0123456789abcdef";
		char buf[2 * 64 + 2];
		size_t i, l = n->ident._len < 64 ? n->ident._len : 64;
		buf[0] = '#';
		for (i = 0; i < l; i++) { buf[1 + 2*i] = d[((uint8_t) id[i]) >> 4]; buf[2 + 2*i] = d[((uint8_t) id[i]) & 15]; }
		buf[1 + 2*l] = 0;
		out_s(buf);
		return;
	}
	if (n->ident._charset != MPT_CHARSET(UTF8)) { out_s("?charset"); return; }
	if (n->ident._len == 1 && !id[0]) { out_s("."); return; }
	if (id[n->ident._len - 1]) { out_s("?unterminated"); return; }
	out_s(id);
}
static void put_value(const MPT_STRUCT(node) *n)
{
	const char *d;
	if (!n->_meta) return;
	out_s("=");
	d = mpt_node_data(n, 0);
	if (!d) { out_s("?nodata"); return; }
	if (!*d) { out_s("."); return; }
	out_s(d);
}
/* walk one sibling list, checking the links */
static void walk_list(MPT_STRUCT(node) *head, MPT_STRUCT(node) *parent, int depth)
{
	MPT_STRUCT(node) *prev = 0, *n = head;
	int first = 1;
	char buf[32];
	while (n) {
		int t = tok_of(n);
		if (t < 0) { set_broken("unknown-pointer", parent ? tok_of(parent) : -1, prev ? tok_of(prev) : -1); return; }
		if (!tab[t].alive) { set_broken("dangling-pointer", t, parent ? tok_of(parent) : -1); return; }
		if (tab[t].seen++) { set_broken("reached-twice", t, parent ? tok_of(parent) : -1); return; }
		if (n->prev != prev) set_broken("prev-mismatch", t, prev ? tok_of(prev) : -1);
		if (n->parent != parent) set_broken("parent-mismatch", t, parent ? tok_of(parent) : -1);
		if (!first) out_s(",");
		first = 0;
		snprintf(buf, sizeof(buf), "%d:", t);
		out_s(buf);
		put_name(n);
		put_value(n);
		if (n->children) {
			if (depth > 1000) { set_broken("too-deep", t, depth); return; }
			out_s("(");
			walk_list(n->children, n, depth + 1);
			out_s(")");
		}
		if (broken[0]) return;
		prev = n;
		n = n->next;
	}
}
static void walk_all(void)
{
	int i, first = 1;
	outlen = 0; outbuf[0] = 0;
	if (!sticky) broken[0] = 0;
	for (i = 0; i < ntab; i++) tab[i].seen = 0;
	for (i = 0; i < ntab && !broken[0]; i++) {
		MPT_STRUCT(node) *n = tab[i].p;
		if (!tab[i].alive || n->parent || n->prev) continue;
		if (!first) out_s("/");
		first = 0;
		walk_list(n, 0, 0);
	}
	for (i = 0; i < ntab && !broken[0]; i++) {
		if (tab[i].alive && tab[i].seen != 1) set_broken("unreachable", i, tab[i].seen);
	}
	if (first) out_s("-");
}
static void result(const char *verdict, const char *ret)
{
	walk_all();
	printf("R %s | C %s | I ret=%s\n", verdict, broken[0] ? broken : outbuf, ret);
	if (broken[0]) dead_script = 1;
}
static void result_n(const char *verdict, long v)
{
	char buf[32];
	snprintf(buf, sizeof(buf), "%ld", v);
	result(verdict, buf);
}
/* mark the whole subtree (node and everything below) dead */
static void mark_dead_list(MPT_STRUCT(node) *n, int depth);
static void mark_dead(MPT_STRUCT(node) *n, int depth)
{
	int t = tok_of(n);
	if (t < 0 || !tab[t].alive || depth > 1000) return;
	tab[t].alive = 0;
	mark_dead_list(n->children, depth + 1);
}
static void mark_dead_list(MPT_STRUCT(node) *n, int depth)
{
	int guard = 0;
	while (n && guard++ < MAXN) {
		MPT_STRUCT(node) *next = n->next;
		mark_dead(n, depth);
		n = next;
	}
}
static int detached(const MPT_STRUCT(node) *n)
{
	return !n->parent && !n->prev && !n->next;
}
/* head of the top-level list the node lives in */
static MPT_STRUCT(node) *top_of(MPT_STRUCT(node) *n)
{
	int guard = 0;
	while (guard++ < 100000) {
		if (n->parent) n = n->parent;
		else if (n->prev) n = n->prev;
		else return n;
	}
	return 0;
}
/* destroy everything that is still alive; returns 0 when every byte came back */
static int cleanup(void)
{
	int i;
	if (dead_script) {
		/* never walk or free a structure that is known to be corrupt */
		if (ntab) abandoned = 1;
		ntab = 0;
		dead_script = 0;
		return 0;
	}
	for (i = 0; i < ntab; i++) {
		MPT_STRUCT(node) *n;
		if (!tab[i].alive) continue;
		n = tab[i].p;
		if (n->parent || n->prev) continue;
		while (n) {
			MPT_STRUCT(node) *next = n->next;
			mpt_node_unlink(n);
			mark_dead(n, 0);
			mpt_node_destroy(n);
			n = next;
		}
	}
	for (i = 0; i < ntab; i++) {
		if (tab[i].alive) return -1 - i;
	}
	return 0;
}
/* every parent and predecessor link below a node is made wrong (they point to `junk`) */
static void scramble(MPT_STRUCT(node) *l, MPT_STRUCT(node) *junk)
{
	for (; l; l = l->next) {
		l->parent = junk;
		l->prev = junk;
		scramble(l->children, junk);
	}
}
static int get_tok(const char *s, MPT_STRUCT(node) **n)
{
	size_t v;
	if (drv_parse_nat(s, &v) || v >= (size_t) ntab || !tab[v].alive) return -1;
	*n = tab[v].p;
	return (int) v;
}
static int get_int(const char *s, int *v)
{
	char *e;
	long l;
	if (!*s) return -1;
	l = strtol(s, &e, 10);
	if (*e || l < -1000 || l > 1000) return -1;
	*v = (int) l;
	return 0;
}
static int set_name(MPT_STRUCT(node) *n, const char *name)
{
	if (!strcmp(name, "-")) return 0;
	if (!strcmp(name, ".")) name = "";
	return mpt_identifier_set(&n->ident, name, -1) ? 0 : -1;
}
static int set_value(MPT_STRUCT(node) *n, const char *val)
{
	MPT_STRUCT(value) d = MPT_VALUE_INIT('s', &val);
	if (!strcmp(val, "-")) return 0;
	if (!(n->_meta = mpt_meta_new(&d))) return -1;
	return 0;
}

/* ------------------------------------------------------------------ n pmerge: mpt_parse_node into a node that has children */
#define PM_MAX 64
struct pm_item { const char *name; MPT_STRUCT(node) *n; int kids[PM_MAX], nkids; };
static struct pm_item pm[4 * PM_MAX];
static int npm;
static char pm_names[PM_MAX][64], pm_vals[PM_MAX][64];
static int pm_depth[PM_MAX], pm_hasval[PM_MAX], pm_n;
static int pm_new_item(const char *name, MPT_STRUCT(node) *n)
{
	if (npm >= 4 * PM_MAX) return -1;
	pm[npm].name = name; pm[npm].n = n; pm[npm].nkids = 0;
	return npm++;
}
/* shadow of an existing sibling list */
static int pm_shadow(MPT_STRUCT(node) *l, int *out)
{
	int k = 0;
	for (; l && k < PM_MAX; l = l->next) {
		const char *id = l->ident._len ? mpt_identifier_data(&l->ident) : 0;
		int it = pm_new_item(id, l);
		if (it < 0) return -1;
		if ((pm[it].nkids = pm_shadow(l->children, pm[it].kids)) < 0) return -1;
		out[k++] = it;
	}
	return k;
}
/* shadow of the described forest: entries from *pos on with depth d */
static int pm_desc(int *pos, int d, int *out)
{
	int k = 0;
	while (*pos < pm_n && pm_depth[*pos] == d && k < PM_MAX) {
		int it = pm_new_item(pm_names[*pos], 0);
		if (it < 0) return -1;
		++*pos;
		if ((pm[it].nkids = pm_desc(pos, d + 1, pm[it].kids)) < 0) return -1;
		out[k++] = it;
	}
	return k;
}
static int pm_same(const char *a, const char *b) { return (!a || !b) ? a == b : !strcmp(a, b); }
/* what mpt_node_move does with the names: source elements with a namesake stay (and are cleared afterwards) */
static void pm_merge(int *src, int nsrc, int *dst, int *ndst)
{
	for (int i = 0; i < nsrc; i++) {
		struct pm_item *s = &pm[src[i]];
		int j, hit = -1;
		for (j = 0; j < *ndst; j++) if (pm_same(pm[dst[j]].name, s->name)) { hit = dst[j]; break; }
		if (hit < 0) { if (*ndst < PM_MAX) dst[(*ndst)++] = src[i]; continue; }
		if (s->n) mark_dead(s->n, 0);
		if (s->nkids) {
			if (pm[hit].nkids) pm_merge(s->kids, s->nkids, pm[hit].kids, &pm[hit].nkids);
			else { memcpy(pm[hit].kids, s->kids, sizeof(int) * s->nkids); pm[hit].nkids = s->nkids; }
		}
	}
}
/* nodes that survive inside a dead element were marked dead with it: revive what ended up below the destination */
static void pm_revive(int *l, int n)
{
	for (int i = 0; i < n; i++) {
		struct pm_item *it = &pm[l[i]];
		if (it->n) { int t = tok_of(it->n); if (t >= 0) tab[t].alive = 1; }
		pm_revive(it->kids, it->nkids);
	}
}
static void pm_register(MPT_STRUCT(node) *l)
{
	for (; l; l = l->next) {
		if (tok_of(l) < 0) reg(l);
		pm_register(l->children);
	}
}

int main(void)
{
	static char line[1 << 16];
	static char obuf[1 << 16];
	drv_init();
	setvbuf(stdout, obuf, _IOLBF, sizeof(obuf));   /* no allocation by stdio later on (it would count as a leak) */
	signal(SIGALRM, on_alarm);
	while (fgets(line, sizeof(line), stdin)) {
		alarm(0);
		MPT_STRUCT(node) *a = 0, *b = 0, *c = 0;
		const char *op;
		int pos;
		if (line[0] == '#' || line[0] == '\n') {
			/* script boundary: drop leftovers of the previous script first (a fault here belongs to it) */
			if (!strncmp(line, "# ---- ", 7)) {
				cleanup();
				ntab = 0; broken[0] = 0; sticky = 0; have_base = 0; pending_fail = 0;
			}
			fputs(line, stdout);
			continue;
		}
		if (!have_base) { base_bytes = __sanitizer_get_current_allocated_bytes(); have_base = 1; }
		drv_split(line);
		/* a pending `n fail k` only concerns the op that follows it */
		long pf = pending_fail;
		pending_fail = 0;
		if (dead_script && !(drv_nw == 2 && !strcmp(drv_w[0], "n") && !strcmp(drv_w[1], "begin"))) {
			puts("R skipped | C BROKEN:earlier | I ret=-");
			continue;
		}
		alarm(3);
		if (drv_nw < 2 || strcmp(drv_w[0], "n")) { puts("bad-op"); continue; }
		op = drv_w[1];
		if (!strcmp(op, "new") && drv_nw == 4) {
			size_t nl = strlen(drv_w[2]);
			if (nl > 600 || strlen(drv_w[3]) > 200) { puts("bad-op"); continue; }
			if (!(a = mpt_node_new(nl + 1))) { result("refused", "null"); continue; }
			if (set_name(a, drv_w[2]) < 0 || set_value(a, drv_w[3]) < 0) {
				mpt_node_destroy(a);
				result("refused", "null");
				continue;
			}
			result_n("ok", reg(a));
		}
		else if (!strcmp(op, "newkey") && drv_nw == 4) {
			/* a node whose identifier is a binary key of 1..8 bytes (no text name) */
			uint8_t *kd = 0; size_t kl = 0; int isnull = 0;
			void *dst;
			if (drv_parse_data(drv_w[2], &kd, &kl, &isnull) || isnull || !kl || kl > 8 || strlen(drv_w[3]) > 200) { free(kd); puts("bad-op"); continue; }
			if (!(a = mpt_node_new(kl))) { free(kd); result("refused", "null"); continue; }
			if (!(dst = mpt_identifier_set(&a->ident, 0, (int) kl)) || set_value(a, drv_w[3]) < 0) {
				free(kd);
				mpt_node_destroy(a);
				result("refused", "null");
				continue;
			}
			memcpy(dst, kd, kl);
			free(kd);
			result_n("ok", reg(a));
		}
		else if (!strcmp(op, "newsmall") && drv_nw == 4) {
			/* a node of the smallest size: a longer name is stored outside the node */
			size_t nl = strlen(drv_w[2]);
			if (nl > 600 || strlen(drv_w[3]) > 200) { puts("bad-op"); continue; }
			if (!(a = mpt_node_new(0))) { result("refused", "null"); continue; }
			if (set_name(a, drv_w[2]) < 0 || set_value(a, drv_w[3]) < 0) {
				mpt_node_destroy(a);
				result("refused", "null");
				continue;
			}
			result_n("ok", reg(a));
		}
		else if (!strcmp(op, "pmerge") && drv_nw == 4) {
			/* n pmerge <x> <desc>: mpt_parse_node(x, text of <desc>) WITHOUT detaching the children of x first: what is read
			 * is merged with them (mpt_node_move of the old children into the new list, the rest of the old ones cleared).
			 * <desc> = entries "depth:name[=value]" joined by ';' in pre-order ("-" = nothing) */
			static char text[8192];
			MPT_STRUCT(parser_context) parse = MPT_PARSER_INIT;
			FILE *fd;
			char *save = 0, *tok;
			int i, open = 0, top[PM_MAX], ntop, old[PM_MAX], nold, posd = 0, bad = 0;
			size_t tl = 0;
			if (get_tok(drv_w[2], &a) < 0) { puts("bad-op"); continue; }
			pm_n = 0; npm = 0;
			if (strcmp(drv_w[3], "-")) for (tok = strtok_r(drv_w[3], ";", &save); tok; tok = strtok_r(0, ";", &save)) {
				char *c = strchr(tok, ':'), *e;
				if (!c || pm_n >= PM_MAX) { bad = 1; break; }
				pm_depth[pm_n] = atoi(tok);
				e = strchr(c + 1, '=');
				if (e) *e = 0;
				if (strlen(c + 1) > 60 || (e && strlen(e + 1) > 60)) { bad = 1; break; }
				strcpy(pm_names[pm_n], c + 1);
				pm_hasval[pm_n] = e != 0;
				strcpy(pm_vals[pm_n], e ? e + 1 : "");
				++pm_n;
			}
			if (bad) { puts("bad-op"); continue; }
			/* the text: sections for entries without value, options for the others */
			for (i = 0; i < pm_n; i++) {
				while (open > pm_depth[i]) { tl += snprintf(text + tl, sizeof(text) - tl, "}\n"); --open; }
				if (pm_hasval[i]) tl += snprintf(text + tl, sizeof(text) - tl, "%s = %s\n", pm_names[i], pm_vals[i]);
				else { tl += snprintf(text + tl, sizeof(text) - tl, "%s {\n", pm_names[i]); ++open; }
			}
			while (open > 0) { tl += snprintf(text + tl, sizeof(text) - tl, "}\n"); --open; }
			text[tl] = 0;
			if (!(fd = tmpfile())) { puts("bad-op"); continue; }
			fputs(text, fd); rewind(fd);
			/* which of the old nodes go: the merge on the names, made here independently of the library */
			nold = pm_shadow(a->children, old);
			ntop = pm_desc(&posd, 0, top);
			if (nold < 0 || ntop < 0 || posd != pm_n) { fclose(fd); puts("bad-op"); continue; }
			if (ntop) { pm_merge(old, nold, top, &ntop); pm_revive(top, ntop); }
			parse.src.getc = (int (*)()) mpt_getchar_stdio;
			parse.src.arg  = fd;
			mpt_parse_accept(&parse.name, "ns");
			pos = mpt_parse_node(a, &parse, 0);
			fclose(fd);
			if (pos < 0) { snprintf(broken, sizeof(broken), "BROKEN:parse-refused@%d,%d", pos, 0); sticky = 1; }
			else pm_register(a->children);
			result_n(pos < 0 ? "refused" : "ok", pos < 0 ? pos : 0);
		}
		else if (!strcmp(op, "nparse") && drv_nw == 5 && (!strcmp(drv_w[4], "empty") || !strcmp(drv_w[4], "broken"))) {
			/* mpt_node_parse(node, <empty or syntactically broken input>, default format, <limits>): a refused call
			 * leaves the node as it was, an accepted one replaces the children by what was read (nothing) */
			const char *lim = drv_w[3];
			int broken_in = drv_w[4][0] == 'b', want;
			FILE *fd;
			if (get_tok(drv_w[2], &a) < 0) { puts("bad-op"); continue; }
			want = !broken_in && strspn(lim, "fcnswebFCNSWEB") == strlen(lim);
			if (!(fd = tmpfile())) { puts("bad-op"); continue; }
			if (broken_in) { fputs("[sect\n a = {\n", fd); rewind(fd); }
			if (want) mark_dead_list(a->children, 0);
			pos = mpt_node_parse(a, fd, 0, lim, 0);
			fclose(fd);
			if (want && pos < 0) { snprintf(broken, sizeof(broken), "BROKEN:parse-refused"); sticky = 1; }
			result_n(pos < 0 ? "refused" : "ok", pos < 0 ? pos : 0);
		}
		else if ((!strcmp(op, "after") || !strcmp(op, "before")) && drv_nw == 4) {
			if (get_tok(drv_w[2], &a) < 0 || get_tok(drv_w[3], &b) < 0) { puts("bad-op"); continue; }
			if (a != b && (!detached(b) || top_of(a) == b)) { result("precond", "-"); continue; }
			c = (*op == 'a') ? mpt_gnode_after(a, b) : mpt_gnode_before(a, b);
			result(c == b ? "ok" : "wrong-return", "ptr");
		}
		else if ((!strcmp(op, "add") || !strcmp(op, "insert")) && (drv_nw == 5 || (drv_nw == 6 && !strcmp(drv_w[5], "byname")))) {
			int byname = drv_nw == 6;
			if (get_tok(drv_w[2], &a) < 0 || get_int(drv_w[3], &pos) || get_tok(drv_w[4], &b) < 0) { puts("bad-op"); continue; }
			if (a == b || !detached(b) || top_of(a) == b) { result("precond", "-"); continue; }
			if (*op == 'a') {
				c = byname ? mpt_node_add(a, pos, b) : mpt_gnode_add(a, pos, b);
				result(c == b ? "ok" : "wrong-return", "ptr");
			} else {
				int r = byname ? mpt_node_insert(a, pos, b) : mpt_gnode_insert(a, pos, b);
				result_n(r < 0 ? "refused" : "ok", r);
			}
		}
		else if (!strcmp(op, "unlink") && drv_nw == 3) {
			MPT_STRUCT(node) *next;
			if (get_tok(drv_w[2], &a) < 0) { puts("bad-op"); continue; }
			next = a->next;
			c = mpt_node_unlink(a);
			result(c == next ? "ok" : "wrong-return", "ptr");
		}
		else if (!strcmp(op, "move") && drv_nw == 4) {
			MPT_STRUCT(node) *from, **slot;
			size_t moved;
			if (get_tok(drv_w[2], &a) < 0 || get_tok(drv_w[3], &b) < 0) { puts("bad-op"); continue; }
			if (top_of(a) == top_of(b)) {
				/* inside one structure: the destination must not lie below an element of the source list from `a` on,
				 * the source must not lie below (or in) the destination list */
				MPT_STRUCT(node) *t, *u;
				int bad = 0;
				for (t = b; t && !bad; t = t->parent) for (u = a; u; u = u->next) if (u == t) { bad = 1; break; }
				for (u = b; u->prev; u = u->prev) { }
				for (t = a; t && !bad; t = t->parent) { MPT_STRUCT(node) *w; for (w = u; w; w = w->next) if (w == t) { bad = 1; break; } }
				if (bad) { result("precond", "-"); continue; }
			}
			/* the list reference is the parent's child link when the node is a first child, a local otherwise */
			from = a;
			slot = (a->parent && a->parent->children == a) ? &a->parent->children : &from;
			moved = mpt_node_move(slot, b);
			{
				/* the list reference afterwards: first element that stayed (or none) */
				char ret[64], verdict[64];
				if (*slot) snprintf(verdict, sizeof(verdict), "ok:from=%d", tok_of(*slot));
				else snprintf(verdict, sizeof(verdict), "ok:from=null");
				snprintf(ret, sizeof(ret), "%ld", (long) moved);
				result(verdict, ret);
			}
		}
		else if (!strcmp(op, "swap") && drv_nw == 4) {
			MPT_STRUCT(node) *t;
			int below = 0;
			if (get_tok(drv_w[2], &a) < 0 || get_tok(drv_w[3], &b) < 0) { puts("bad-op"); continue; }
			/* neither may lie below the other */
			for (t = a->parent; t; t = t->parent) if (t == b) below = 1;
			for (t = b->parent; t; t = t->parent) if (t == a) below = 1;
			if (below) { result("precond", "-"); continue; }
			mpt_gnode_swap(a, b);
			result("ok", "-");
		}
		else if (!strcmp(op, "switch") && drv_nw == 4) {
			MPT_STRUCT(node) *t;
			int below = 0;
			if (get_tok(drv_w[2], &a) < 0 || get_tok(drv_w[3], &b) < 0) { puts("bad-op"); continue; }
			/* neither may lie below the other */
			for (t = a->parent; t; t = t->parent) if (t == b) below = 1;
			for (t = b->parent; t; t = t->parent) if (t == a) below = 1;
			if (below) { result("precond", "-"); continue; }
			mpt_gnode_switch(a, b);
			result("ok", "-");
		}
		else if (!strcmp(op, "relink") && (drv_nw == 3 || (drv_nw == 4 && !strcmp(drv_w[3], "scramble")))) {
			if (get_tok(drv_w[2], &a) < 0) { puts("bad-op"); continue; }
			/* "restore node links": parent and predecessor links below the node follow from the child and successor links */
			if (drv_nw == 4) scramble(a->children, a);
			mpt_gnode_relink(a);
			result("ok", "-");
		}
		else if (!strcmp(op, "clone") && (drv_nw == 3 || (drv_nw == 4 && (!strcmp(drv_w[3], "tree") || !strcmp(drv_w[3], "list"))))) {
			int list = drv_nw == 4 && drv_w[3][0] == 'l';
			if (get_tok(drv_w[2], &a) < 0) { puts("bad-op"); continue; }
			fail_at = pf; malloc_count = 0; armed = 1;
			c = drv_nw == 3 ? mpt_node_clone(a) : list ? mpt_list_clone(a) : mpt_tree_clone(a);
			armed = 0;
			{
				char ret[64];
				if (!c) { snprintf(ret, sizeof(ret), "null mallocs=%ld", malloc_count); result("refused", ret); continue; }
				pos = ntab;
				reg_clone(c, list, 0);
				snprintf(ret, sizeof(ret), "%d mallocs=%ld", pos, malloc_count);
				result("ok", ret);
			}
		}
		else if (!strcmp(op, "fail") && drv_nw == 3) {
			/* the k-th malloc of the next clone op fails */
			size_t k;
			if (drv_parse_nat(drv_w[2], &k) || !k || k > 100000) { puts("bad-op"); continue; }
			pending_fail = (long) k;
			result("ok", "-");
		}
		else if (!strcmp(op, "clear") && drv_nw == 3) {
			if (get_tok(drv_w[2], &a) < 0) { puts("bad-op"); continue; }
			mark_dead_list(a->children, 0);
			mpt_node_clear(a);
			result("ok", "-");
		}
		else if (!strcmp(op, "destroy") && drv_nw == 3) {
			int linked;
			if (get_tok(drv_w[2], &a) < 0) { puts("bad-op"); continue; }
			linked = !detached(a);
			if (!linked) mark_dead(a, 0);
			c = mpt_node_destroy(a);
			if (linked) result(c == a ? "refused" : "destroyed-linked", "node");
			else result(c ? "wrong-return" : "ok", "null");
		}
		else if (!strcmp(op, "locate") && drv_nw == 5) {
			const char *name = drv_w[4];
			char buf[48];
			if (get_tok(drv_w[2], &a) < 0 || get_int(drv_w[3], &pos) || !strcmp(name, "-")) { puts("bad-op"); continue; }
			if (!strcmp(name, ".")) name = "";
			c = mpt_node_locate(a, pos, name, strlen(name), -1);
			if (!c) { result("none", "null"); continue; }
			snprintf(buf, sizeof(buf), "found=%d", tok_of(c));
			result(buf, "ptr");
		}
		else if (!strcmp(op, "pos") && drv_nw == 4) {
			char buf[48];
			if (get_tok(drv_w[2], &a) < 0 || get_int(drv_w[3], &pos)) { puts("bad-op"); continue; }
			c = mpt_gnode_pos(a, pos);
			if (!c) { result("none", "null"); continue; }
			snprintf(buf, sizeof(buf), "found=%d", tok_of(c));
			result(buf, "ptr");
		}
		else if (!strcmp(op, "begin") && drv_nw == 2) {
			cleanup();
			ntab = 0; broken[0] = 0; sticky = 0;
			base_bytes = __sanitizer_get_current_allocated_bytes();
			result("ok", "0");
		}
		else if (!strcmp(op, "end") && drv_nw == 2) {
			int r = cleanup();
			size_t now = __sanitizer_get_current_allocated_bytes();
			char buf[64];
			if (r) { snprintf(buf, sizeof(buf), "kept=%d", -1 - r); result("not-released", buf); }
			else if (now != base_bytes) { snprintf(buf, sizeof(buf), "bytes=%ld", (long) now - (long) base_bytes); result("leak", buf); }
			else result("ok", "0");
			ntab = 0; broken[0] = 0; sticky = 0; have_base = 0; pending_fail = 0;
		}
		else puts("bad-op");
	}
	alarm(0);
	cleanup();
	if (abandoned) { fflush(stdout); _exit(0); }   /* given-up nodes are not leaks of the code under test */
	return 0;
}
