/* line-protocol driver: value generators of mptplot/values (C19).  Calls the real functions in-process.
 * Descriptions travel as hex; numbers are printed either as at most eight significant decimal digits (`~…`,
 * "equal within floating-point rounding") or, for `xvalue`, as the hex of the IEEE-754 bit pattern. */
#include "drv_util.h"
#include <math.h>
#include <ctype.h>
#include <errno.h>
#include "meta.h"
#include "message.h"
#include "convert.h"
#include "types.h"
#include "array.h"
#include "values.h"
#include <sys/uio.h>

#define NSLOT 16
static MPT_INTERFACE(metatype) *slot_mt[NSLOT];
static MPT_INTERFACE(iterator) *slot_it[NSLOT];
static int nslot, cur = -1;
static int slot_grid[NSLOT];
static int pending_grid = -1;
static double slot_first[NSLOT];
static _MPT_ARRAY_TYPE(double) grids[NSLOT];
static int ngrid;


/* strict decimal digits, at most 18 */
static int parse_digits(const char *s, size_t n, unsigned long long *v)
{
	if (!n || n > 18) return -1;
	unsigned long long r = 0;
	for (size_t i = 0; i < n; i++) {
		if (s[i] < '0' || s[i] > '9') return -1;
		r = r * 10 + (unsigned) (s[i] - '0');
	}
	*v = r; return 0;
}
/* `[-]digits[/digits]`, denominator a power of two <= 2^60, |numerator| < 2^53 */
static int parse_val(const char *s, size_t n, double *out)
{
	int neg = 0;
	unsigned long long num, den = 1;
	if (n && *s == '-') { neg = 1; ++s; --n; }
	const char *sl = memchr(s, '/', n);
	size_t nn = sl ? (size_t) (sl - s) : n;
	if (parse_digits(s, nn, &num) || num >= (1ULL << 53)) return -1;
	if (sl) {
		if (memchr(sl + 1, '/', n - nn - 1)) return -1;
		if (parse_digits(sl + 1, n - nn - 1, &den)) return -1;
		if (!den || (den & (den - 1)) || den > (1ULL << 60)) return -1;
	}
	*out = (double) num / (double) den;
	if (neg) *out = -*out;
	return 0;
}

/* same syntactic filter as Driver/Iter.lean `unmodelled`: inf / nan / hexadecimal literals, digit runs
 * longer than 15, exponents with more than 2 digits, "file" profiles */
static int has_ci(const char *s, const char *w)
{
	size_t n = strlen(w);
	for (; *s; s++) if (!strncasecmp(s, w, n)) return 1;
	return 0;
}
static int unmodelled(const char *s)
{
	/* "nan" (refused) and "inf" (an infinite element) are modelled in plain value lists, i.e. texts that do not
	 * start with a keyword; there also subnormal literals e-300 .. e-323 are let through */
	const char *f = s;
	while (*f == ' ' || (*f >= 9 && *f <= 13)) f++;
	int keyword = (*f >= 'a' && *f <= 'z') || (*f >= 'A' && *f <= 'Z');
	if ((keyword && has_ci(s, "inf")) || (keyword && has_ci(s, "nan")) || has_ci(s, "0x") || has_ci(s, "file")) return 1;
	for (const char *p = s; *p; ) {
		if (*p >= '0' && *p <= '9') {
			size_t n = 0;
			while (p[n] >= '0' && p[n] <= '9') n++;
			if (n > 15) return 1;
			p += n;
			continue;
		}
		if (*p == 'e' || *p == 'E') {
			const char *q = p + 1;
			size_t n = 0;
			int neg = *q == '-';
			if (*q == '+' || *q == '-') q++;
			while (q[n] >= '0' && q[n] <= '9') n++;
			if (n > 2) {
				int sub = !keyword && neg && n == 3 && q[0] == '3' && (q[1] < '2' || (q[1] == '2' && q[2] <= '3'));
				if (!sub) return 1;
			}
		}
		p++;
	}
	return 0;
}
/* Tolerant text of a number.  `first` = magnitude of the first value of the iterator: the scale is
 * S = max(first, |v|) and E its decimal exponent (taken from the 8-digit rendering).  The value is rounded
 * to p = 7 - E decimals (for E > 5 the value is divided by 10^(E-5) first and `e<E-5>` appended); when it lies within 1e-12*S of that decimal it is printed as `~<decimal>`,
 * otherwise with p - 2 decimals as `~~<decimal>` (it is then far from every rounding tie).
 * Same rule in Driver/Iter.lean `fmtTol`. */
static void put_num(double v, int exact, double first)
{
	if (v == 0) v = 0;              /* -0 -> +0 */
	if (isinf(v)) { fputs(v < 0 ? "-inf" : "inf", stdout); return; }
	if (!isfinite(v) || fabs(v) > 1e300 || (v != 0 && fabs(v) < 1e-300)) { fputs("unmodelled", stdout); return; }
	if (exact) {
		uint64_t b;
		memcpy(&b, &v, sizeof(b));
		printf("%016llx", (unsigned long long) b);
		return;
	}
	double S = fabs(v) > first ? fabs(v) : first;
	if (S == 0) { fputs("~0", stdout); return; }
	char buf[400];
	snprintf(buf, sizeof(buf), "%.7e", S);
	int E = atoi(strchr(buf, 'e') + 1);
	/* large scales: work on v / 10^sh so that two decimals are the eighth significant digit of the scale */
	int sh = E > 5 ? E - 5 : 0;
	if (sh) {
		double d = 1;
		for (int i = 0; i < sh; i++) d *= 10;      /* exact up to 10^22; beyond that within 1e-15 */
		v /= d; S /= d;
	}
	int p = 7 - E + sh;
	if (p > 40) p = 40;
	snprintf(buf, sizeof(buf), "%.*f", p, v);
	double r = strtod(buf, 0);
	const char *pre = "~";
	if (!(fabs(v - r) <= 1e-12 * S)) {
		snprintf(buf, sizeof(buf), "%.*f", p - 2, v);
		r = strtod(buf, 0);
		pre = "~~";
	}
	/* no negative zero in the text */
	printf("%s%s", pre, (r == 0 && buf[0] == '-') ? buf + 1 : buf);
	if (sh) printf("e%d", sh);
}
/* current value: 0 = NULL, 1 = ok, -1 = conversion failed, 2 = conversion reported success but wrote nothing */
static int get_value(double *v)
{
	static const uint64_t sentinel = 0x7ff8dead0000beefULL;
	const MPT_STRUCT(value) *val = slot_it[cur]->_vptr->value(slot_it[cur]);
	uint64_t b;
	if (!val) return 0;
	memcpy(v, &sentinel, sizeof(*v));
	if (mpt_value_convert(val, 'd', v) < 0) return -1;
	memcpy(&b, v, sizeof(b));
	return b == sentinel ? 2 : 1;
}
/* text of a string / byte vector value */
static void put_sval_sep(const MPT_STRUCT(value) *val, int sep)
{
	if (!val) { fputs("null", stdout); return; }
	if (val->_type == 's') {
		const char *str = *((const char * const *) val->_addr);
		printf("str%c", sep);
		if (!str) fputs("NULL", stdout);
		else drv_puthex(stdout, (const uint8_t *) str, strlen(str));
	}
	else if (val->_type == MPT_type_toVector('c')) {
		const struct iovec *vec = val->_addr;
		printf("vec%c", sep);
		drv_puthex(stdout, vec->iov_base, vec->iov_len);
	}
	else printf("other%c%d", sep, (int) val->_type);
}
static void put_sval(const MPT_STRUCT(value) *val)
{
	fputs("R ", stdout);
	put_sval_sep(val, ' ');
}
static int no_probe;
static void add_slot(MPT_INTERFACE(metatype) *mt, int select, double first)
{
	MPT_INTERFACE(iterator) *it = 0;
	if (!mt) { puts("R refused | C - | I -"); return; }
	if (nslot >= NSLOT) { mt->_vptr->unref(mt); puts("R refused-slots | C - | I -"); return; }
	if (MPT_metatype_convert(mt, MPT_ENUM(TypeIteratorPtr), &it) < 0 || !it) {
		mt->_vptr->unref(mt);
		puts("R no-iterator | C - | I -");
		return;
	}
	slot_mt[nslot] = mt; slot_it[nslot] = it;
	slot_grid[nslot] = pending_grid;
	slot_first[nslot] = first;
	if (first < 0 && no_probe) slot_first[nslot] = 0;
	else if (first < 0) {
		/* a fresh iterator: its first value gives the scale of the tolerant number text */
		const MPT_STRUCT(value) *val = it->_vptr->value(it);
		double v = 0;
		slot_first[nslot] = (val && mpt_value_convert(val, 'd', &v) >= 0 && isfinite(v)
		                     && fabs(v) <= 1e300 && (v == 0 || fabs(v) >= 1e-300)) ? fabs(v) : 0;
	}
	if (select) cur = nslot;
	printf("R ok slot=%d | C - | I -\n", nslot);
	++nslot;
}
static void drop_all(void)
{
	for (int i = 0; i < nslot; i++) slot_mt[i]->_vptr->unref(slot_mt[i]);
	for (int i = 0; i < ngrid; i++) mpt_array_clone(&grids[i], 0);
	nslot = 0; ngrid = 0; cur = -1;
}

int main(void)
{
	static char line[1 << 20];
	drv_init();
	while (fgets(line, sizeof(line), stdin)) {
		if (line[0] == '#') {
			/* a new script starts: release everything */
			if (!strncmp(line, "# ----", 6)) drop_all();
			fputs(line, stdout); continue;
		}
		if (line[0] == '\n') { fputs(line, stdout); continue; }
		drv_split(line);
		if (drv_nw < 2 || strcmp(drv_w[0], "it")) { puts("bad-op"); continue; }
		const char *op = drv_w[1];
		uint8_t *dat = 0; size_t dlen = 0; int isnull = 0;
		if (!strcmp(op, "begin") && drv_nw == 2) { drop_all(); puts("R ok | C - | I -"); continue; }
		if ((!strcmp(op, "create") && drv_nw == 3) || (!strcmp(op, "profile") && drv_nw == 4)) {
			int prof = *op == 'p';
			const char *arg = drv_w[prof ? 3 : 2];
			size_t n = 0;
			char *desc = 0;
			if (prof && (drv_parse_nat(drv_w[2], &n) || n > 100000)) { puts("bad-op"); continue; }
			if (strcmp(arg, "null")) {
				if (drv_parse_data(arg, &dat, &dlen, &isnull) || isnull || memchr(dat, 0, dlen)) { puts("bad-op"); free(dat); continue; }
				desc = malloc(dlen + 1);      /* exact size: an overrun is a heap overflow for ASan */
				memcpy(desc, dat, dlen); desc[dlen] = 0;
				free(dat);
				if (unmodelled(desc)) { puts("R unmodelled | C - | I -"); free(desc); continue; }
			}
			if (!prof) {
				errno = 0;
				add_slot(mpt_iterator_create(desc), 1, -1);
			}
			else {
				if (ngrid >= NSLOT) { puts("R refused-slots | C - | I -"); free(desc); continue; }
				_MPT_ARRAY_TYPE(double) *arr = &grids[ngrid++];
				memset(arr, 0, sizeof(*arr));
				if (n) {
					double *g = mpt_values_prepare(arr, n);
					if (!g) { puts("R prepare-failed | C - | I -"); free(desc); continue; }
					for (size_t i = 0; i < n; i++) g[i] = ((double) i - 2) / 2;
				}
				pending_grid = ngrid - 1;
				add_slot(mpt_iterator_profile(arr, desc), 1, -1);
				pending_grid = -1;
			}
			free(desc);
		}
		else if (!strcmp(op, "grow") && drv_nw == 4) {
			/* it grow <slot> <n> : the owner of the grid array of a profile/poly source appends n points */
			size_t k, n;
			if (drv_parse_nat(drv_w[2], &k) || drv_parse_nat(drv_w[3], &n) || k >= (size_t) nslot || slot_grid[k] < 0 || n > 1000) { puts("bad-op"); continue; }
			_MPT_ARRAY_TYPE(double) *arr = &grids[slot_grid[k]];
			size_t have = arr->_buf ? arr->_buf->_used / sizeof(double) : 0;
			double *g = mpt_values_prepare(arr, (long) n);
			if (!g && n) { puts("R prepare-failed | C - | I -"); continue; }
			for (size_t i = 0; i < n; i++) g[i] = ((double) (have + i) - 2) / 2;
			puts("R ok | C - | I -");
		}
		else if (!strcmp(op, "xcreate") && drv_nw == 3) {
			/* it xcreate <hex> : extreme / non-finite parameters: only the verdict of mpt_iterator_create is observed */
			char *desc;
			MPT_INTERFACE(metatype) *mt;
			if (drv_parse_data(drv_w[2], &dat, &dlen, &isnull) || isnull || memchr(dat, 0, dlen)) { puts("bad-op"); free(dat); continue; }
			desc = malloc(dlen + 1);
			memcpy(desc, dat, dlen); desc[dlen] = 0;
			free(dat);
			if (has_ci(desc, "0x") || has_ci(desc, "file")) { puts("R unmodelled | C - | I -"); free(desc); continue; }
			mt = mpt_iterator_create(desc);
			free(desc);
			if (!mt) { puts("R refused | C - | I -"); continue; }
			mt->_vptr->unref(mt);
			puts("R accepted | C - | I -");
		}
		else if (!strcmp(op, "poly") && drv_nw == 4) {
			/* it poly <n|none> <hex|null> : mpt_iterator_poly(desc, array); `none`/0 = an array without data */
			size_t n = 0;
			char *desc = 0;
			if (strcmp(drv_w[2], "none") && (drv_parse_nat(drv_w[2], &n) || n > 100000)) { puts("bad-op"); continue; }
			if (strcmp(drv_w[3], "null")) {
				if (drv_parse_data(drv_w[3], &dat, &dlen, &isnull) || isnull || memchr(dat, 0, dlen)) { puts("bad-op"); free(dat); continue; }
				desc = malloc(dlen + 1);
				memcpy(desc, dat, dlen); desc[dlen] = 0;
				free(dat);
				if (unmodelled(desc)) { puts("R unmodelled | C - | I -"); free(desc); continue; }
			}
			if (ngrid >= NSLOT) { puts("R refused-slots | C - | I -"); free(desc); continue; }
			_MPT_ARRAY_TYPE(double) *arr = &grids[ngrid++];
			memset(arr, 0, sizeof(*arr));
			if (n) {
				double *g = mpt_values_prepare(arr, n);
				if (!g) { puts("R prepare-failed | C - | I -"); free(desc); continue; }
				for (size_t i = 0; i < n; i++) g[i] = ((double) i - 2) / 2;
			}
			pending_grid = ngrid - 1;
			add_slot(mpt_iterator_poly(desc, arr), 1, -1);
			pending_grid = -1;
			free(desc);
		}
		else if (!strcmp(op, "string") && drv_nw == 4) {
			/* it string <hex of text|null> <hex of separators|null> */
			char *txt = 0, *sep = 0;
			int bad = 0;
			for (int i = 0; i < 2 && !bad; i++) {
				const char *arg = drv_w[2 + i];
				if (!strcmp(arg, "null")) continue;
				if (drv_parse_data(arg, &dat, &dlen, &isnull) || isnull || memchr(dat, 0, dlen)) { bad = 1; free(dat); dat = 0; break; }
				char *c = malloc(dlen + 1);
				memcpy(c, dat, dlen); c[dlen] = 0;
				free(dat); dat = 0;
				if (i) sep = c; else txt = c;
			}
			if (bad) { puts("bad-op"); free(txt); free(sep); continue; }
			if (txt && (unmodelled(txt) || has_ci(txt, "nan"))) { puts("R unmodelled | C - | I -"); free(txt); free(sep); continue; }
			no_probe = 1;
			add_slot(mpt_iterator_string(txt, sep), 1, -1);
			no_probe = 0;
			free(txt); free(sep);
		}
		else if ((!strcmp(op, "buffer") || !strcmp(op, "args")) && drv_nw == 3) {
			/* it buffer|args <hex of the char array|null> : mpt_meta_buffer / mpt_meta_arguments */
			MPT_STRUCT(array) a = MPT_ARRAY_INIT;
			MPT_INTERFACE(metatype) *mt;
			if (strcmp(drv_w[2], "null")) {
				if (drv_parse_data(drv_w[2], &dat, &dlen, &isnull) || isnull) { puts("bad-op"); free(dat); continue; }
				if (!mpt_array_append(&a, dlen, dat) && dlen) { puts("R append-failed | C - | I -"); free(dat); continue; }
				free(dat);
				if (!a._buf) {
					/* empty data: a buffer without content */
					if (!mpt_array_reserve(&a, 1, 0)) { puts("R reserve-failed | C - | I -"); continue; }
				}
				a._buf->_content_traits = mpt_type_traits('c');
			}
			mt = *op == 'b' ? mpt_meta_buffer(&a) : mpt_meta_arguments(&a);
			mpt_array_clone(&a, 0);
			no_probe = 1;
			add_slot(mt, 1, -1);
			no_probe = 0;
		}
		else if (!strcmp(op, "msg") && (drv_nw == 3 || drv_nw == 4)) {
			/* it msg <hex of the first part> [<hex of a second part>] : mpt_message_iterator over a NUL-delimited
			 * message (argument separator 0), the message may be split in two parts */
			MPT_STRUCT(message) m = MPT_MESSAGE_INIT;
			struct iovec cont;
			uint8_t *d1 = 0, *d2 = 0;
			size_t n1 = 0, n2 = 0;
			int nul1 = 0, nul2 = 0;
			MPT_INTERFACE(metatype) *mt;
			if (drv_parse_data(drv_w[2], &d1, &n1, &nul1) || nul1
			    || (drv_nw == 4 && (drv_parse_data(drv_w[3], &d2, &n2, &nul2) || nul2))) { puts("bad-op"); free(d1); free(d2); continue; }
			m.base = d1; m.used = n1;
			if (drv_nw == 4) { cont.iov_base = d2; cont.iov_len = n2; m.cont = &cont; m.clen = 1; }
			mt = mpt_message_iterator(&m, 0);
			free(d1); free(d2);
			no_probe = 1;
			add_slot(mt, 1, -1);
			no_probe = 0;
		}
		else if (!strcmp(op, "elems") && drv_nw == 4) {
			/* it elems <size> <count> : buffer iterator over an array of <count> elements of a basic type of
			 * <size> bytes; the documented loop visits every element once */
			static int ids[65];
			size_t size, count, visited = 0;
			MPT_STRUCT(array) a = MPT_ARRAY_INIT;
			MPT_INTERFACE(metatype) *mt;
			MPT_INTERFACE(iterator) *it = 0;
			const char *stop = "cap";
			if (drv_parse_nat(drv_w[2], &size) || drv_parse_nat(drv_w[3], &count) || size < 2 || size > 64 || !count || count > 64) { puts("bad-op"); continue; }
			if (!ids[size] && (ids[size] = mpt_type_basic_add(size)) < 0) { ids[size] = 0; puts("R no-type | C - | I -"); continue; }
			if (!mpt_array_append(&a, size * count, 0)) { puts("R append-failed | C - | I -"); continue; }
			a._buf->_content_traits = mpt_type_traits(ids[size]);
			mt = mpt_meta_buffer(&a);
			mpt_array_clone(&a, 0);
			if (!mt || MPT_metatype_convert(mt, MPT_ENUM(TypeIteratorPtr), &it) < 0 || !it) { if (mt) mt->_vptr->unref(mt); puts("R refused | C - | I -"); continue; }
			while (visited <= count + 1) {
				int r;
				if (!it->_vptr->value(it)) { stop = "null"; break; }
				++visited;
				if ((r = it->_vptr->advance(it)) < 0) { stop = "err"; break; }
				if (!r) { stop = "end"; break; }
			}
			mt->_vptr->unref(mt);
			printf("R walk n=%zu stop=%s | C - | I -\n", visited, stop);
		}
		else if (!strcmp(op, "cmpclone") && drv_nw == 3) {
			/* it cmpclone <cap> : clone the current source and walk original and clone side by side; the clone
			 * replays the IDENTICAL sequence: values are compared bit by bit, the advance results too */
			size_t cap, n = 0;
			const char *stop = "cap";
			MPT_INTERFACE(metatype) *cm;
			MPT_INTERFACE(iterator) *ci = 0;
			int differ = 0;
			if (cur < 0 || drv_parse_nat(drv_w[2], &cap) || cap > 4096) { puts("bad-op"); continue; }
			if (!(cm = slot_mt[cur]->_vptr->clone(slot_mt[cur]))) { puts("R refused | C - | I -"); continue; }
			if (MPT_metatype_convert(cm, MPT_ENUM(TypeIteratorPtr), &ci) < 0 || !ci) { cm->_vptr->unref(cm); puts("R no-iterator | C - | I -"); continue; }
			while (n < cap) {
				const MPT_STRUCT(value) *va = slot_it[cur]->_vptr->value(slot_it[cur]);
				const MPT_STRUCT(value) *vb = ci->_vptr->value(ci);
				double a = 0, b = 0;
				int ra, rb;
				if (!va || !vb) { if (va || vb) differ = 1; stop = "null"; break; }
				ra = mpt_value_convert(va, 'd', &a); rb = mpt_value_convert(vb, 'd', &b);
				if ((ra < 0) != (rb < 0) || (ra >= 0 && memcmp(&a, &b, sizeof(a)))) { differ = 1; break; }
				if (ra < 0) { stop = "noconv"; break; }
				++n;
				ra = slot_it[cur]->_vptr->advance(slot_it[cur]); rb = ci->_vptr->advance(ci);
				if (ra != rb) { differ = 1; break; }
				if (ra < 0) { stop = "err"; break; }
				if (!ra) { stop = "end"; break; }
			}
			cm->_vptr->unref(cm);
			if (differ) printf("R differ at=%zu | C - | I -\n", n);
			else printf("R same n=%zu stop=%s | C - | I -\n", n, stop);
		}
		else if (!strcmp(op, "kwalk") && drv_nw == 3) {
			/* the documented loop reading keys ('k') from a text iterator */
			size_t cap, n = 0;
			const char *stop = "cap";
			if (cur < 0 || drv_parse_nat(drv_w[2], &cap) || cap > 4096) { puts("bad-op"); continue; }
			fputs("R keys=", stdout);
			while (n < cap) {
				const MPT_STRUCT(value) *val = slot_it[cur]->_vptr->value(slot_it[cur]);
				const char *key = 0;
				int r;
				if (!val) { stop = "null"; break; }
				if (mpt_value_convert(val, 'k', &key) < 0 || !key) { stop = "noconv"; break; }
				if (n) fputc(',', stdout);
				drv_puthex(stdout, (const uint8_t *) key, strnlen(key, 4096));
				++n;
				if ((r = slot_it[cur]->_vptr->advance(slot_it[cur])) < 0) { stop = "err"; break; }
				if (!r) { stop = "end"; break; }
			}
			if (!n) fputc('-', stdout);
			printf(" n=%zu stop=%s | C - | I -\n", n, stop);
		}
		else if (!strcmp(op, "word") && drv_nw == 2) {
			/* current element of a text iterator as a word (vector of char) */
			const MPT_STRUCT(value) *val;
			struct iovec vec = { 0, 0 };
			int r;
			if (cur < 0) { puts("bad-op"); continue; }
			val = slot_it[cur]->_vptr->value(slot_it[cur]);
			if (!val) { puts("R null | C - | I -"); continue; }
			if ((r = mpt_value_convert(val, MPT_type_toVector('c'), &vec)) < 0) { puts("R noconv | C - | I -"); continue; }
			fputs("R word=", stdout);
			drv_puthex(stdout, vec.iov_base, vec.iov_len);
			puts(" | C - | I -");
		}
		else if (!strcmp(op, "svalue") && drv_nw == 2) {
			const MPT_STRUCT(value) *val;
			if (cur < 0) { puts("bad-op"); continue; }
			val = slot_it[cur]->_vptr->value(slot_it[cur]);
			put_sval(val);
			puts(" | C - | I -");
		}
		else if (!strcmp(op, "swalk") && drv_nw == 3) {
			size_t cap, n = 0;
			const char *stop = "cap";
			if (cur < 0 || drv_parse_nat(drv_w[2], &cap) || cap > 4096) { puts("bad-op"); continue; }
			fputs("R vals=", stdout);
			while (n < cap) {
				const MPT_STRUCT(value) *val = slot_it[cur]->_vptr->value(slot_it[cur]);
				int r;
				if (!val) { stop = "null"; break; }
				if (n) fputc(',', stdout);
				put_sval_sep(val, ':');
				++n;
				if ((r = slot_it[cur]->_vptr->advance(slot_it[cur])) < 0) { stop = "err"; break; }
				if (!r) { stop = "end"; break; }
			}
			if (!n) fputc('-', stdout);
			printf(" n=%zu stop=%s | C - | I -\n", n, stop);
		}
		else if (!strcmp(op, "from") && drv_nw == 3) {
			/* it from lin|range|fac : the current iterator is the argument of the creator */
			MPT_STRUCT(value) v = MPT_VALUE_INIT(0, 0);
			MPT_INTERFACE(iterator) *src;
			MPT_INTERFACE(metatype) *mt;
			if (cur < 0) { puts("bad-op"); continue; }
			src = slot_it[cur];
			MPT_value_set(&v, MPT_ENUM(TypeIteratorPtr), &src);
			if (!strcmp(drv_w[2], "lin")) mt = _mpt_iterator_linear(&v);
			else if (!strcmp(drv_w[2], "range")) mt = _mpt_iterator_range(&v);
			else if (!strcmp(drv_w[2], "fac")) mt = _mpt_iterator_factor(&v);
			else { puts("bad-op"); continue; }
			add_slot(mt, 0, -1);
		}
		else if (!strcmp(op, "use") && drv_nw == 3) {
			size_t k;
			if (drv_parse_nat(drv_w[2], &k) || k >= (size_t) nslot) { puts("bad-op"); continue; }
			cur = k;
			puts("R ok | C - | I -");
		}
		else if ((!strcmp(op, "value") || !strcmp(op, "xvalue")) && drv_nw == 2) {
			double v;
			if (cur < 0) { puts("bad-op"); continue; }
			int r = get_value(&v);
			if (!r) puts("R null | C - | I -");
			else if (r < 0) puts("R noconv | C - | I -");
			else if (r == 2) puts("R none | C - | I -");
			else { fputs("R val ", stdout); put_num(v, *op == 'x', slot_first[cur]); puts(" | C - | I -"); }
		}
		else if (!strcmp(op, "advance") && drv_nw == 2) {
			if (cur < 0) { puts("bad-op"); continue; }
			int r = slot_it[cur]->_vptr->advance(slot_it[cur]);
			if (r < 0) printf("R err | C - | I ret=%s\n", drv_errname(r));
			else printf("R %s | C - | I ret=%d\n", r ? "more" : "end", r);
		}
		else if (!strcmp(op, "reset") && drv_nw == 2) {
			if (cur < 0) { puts("bad-op"); continue; }
			int r = slot_it[cur]->_vptr->reset(slot_it[cur]);
			if (r < 0) printf("R err | C - | I ret=%s\n", drv_errname(r));
			else printf("R ok | C - | I ret=%d\n", r);
		}
		else if (!strcmp(op, "clone") && drv_nw == 2) {
			if (cur < 0) { puts("bad-op"); continue; }
			add_slot(slot_mt[cur]->_vptr->clone(slot_mt[cur]), 0, slot_first[cur]);
		}
		else if (!strcmp(op, "consume") && drv_nw == 3) {
			/* it consume d|u|skip : mpt_iterator_consume on the current iterator */
			static const uint64_t sentinel = 0x7ff8dead0000beefULL;
			const char *t = drv_w[2];
			double dv; uint32_t uv = 0xdeadbeefU;
			int r;
			if (cur < 0) { puts("bad-op"); continue; }
			memcpy(&dv, &sentinel, sizeof(dv));
			if (!strcmp(t, "d")) r = mpt_iterator_consume(slot_it[cur], 'd', &dv);
			else if (!strcmp(t, "u")) r = mpt_iterator_consume(slot_it[cur], 'u', &uv);
			else if (!strcmp(t, "skip")) r = mpt_iterator_consume(slot_it[cur], 0, 0);
			else if (!strcmp(t, "Z")) r = mpt_iterator_consume(slot_it[cur], 'Z', &dv);
			else { puts("bad-op"); continue; }
			if (r < 0) printf("R err | C - | I ret=%s\n", drv_errname(r));
			else {
				uint64_t b; memcpy(&b, &dv, sizeof(b));
				fputs("R ok val=", stdout);
				if (*t == 'd') { if (b == sentinel) fputs("none", stdout); else put_num(dv, 1, 0); }
				else if (*t == 'u') { if (uv == 0xdeadbeefU) fputs("none", stdout); else printf("%u", uv); }
				else fputc('-', stdout);
				/* a delivered element is reported with the type of the consumed value (positive), never 0 */
				if (*t == 's') puts(" | C - | I ret=type");
				else printf(" got=%s | C - | I -\n", r ? "type" : "0");
			}
		}
		else if (!strcmp(op, "meta") && drv_nw == 2) {
			/* metatype plumbing of the current source: type query, format, iterator pointer, reference count */
			const uint8_t *fmt = 0;
			MPT_INTERFACE(iterator) *ip = 0;
			if (cur < 0) { puts("bad-op"); continue; }
			MPT_INTERFACE(metatype) *mt = slot_mt[cur];
			int r0 = MPT_metatype_convert(mt, 0, 0);
			int r1 = MPT_metatype_convert(mt, 0, &fmt);
			int r2 = MPT_metatype_convert(mt, MPT_ENUM(TypeIteratorPtr), &ip);
			{
				/* further conversions some sources offer (their verdict is not part of the protocol; no fault) */
				struct iovec vv = { 0, 0 };
				void *pp = 0;
				(void) MPT_metatype_convert(mt, MPT_ENUM(TypeMetaPtr), &pp);
				(void) MPT_metatype_convert(mt, MPT_ENUM(TypeBufferPtr), &pp);
				(void) MPT_metatype_convert(mt, MPT_type_toVector('c'), &vv);
				(void) MPT_metatype_convert(mt, MPT_ENUM(TypeVector), &vv);
				(void) MPT_metatype_convert(mt, MPT_type_toVector('c'), 0);
			}
			uintptr_t ref = mt->_vptr->addref(mt);
			if (ref) mt->_vptr->unref(mt);
			/* sources are not shared: no further reference is handed out */
			if (r0 >= 0 && r1 >= 0 && fmt && r2 >= 0 && ip == slot_it[cur] && !ref) puts("R ok | C - | I -");
			else printf("R bad-meta r0=%d r1=%d r2=%d ref=%d | C - | I -\n", r0, r1, r2, (int) ref);
		}
		else if (!strcmp(op, "fromval") && drv_nw == 3) {
			/* it fromval lin|range|fac : a value that is neither a text nor an iterator is no description */
			MPT_STRUCT(value) v = MPT_VALUE_INIT(0, 0);
			MPT_INTERFACE(metatype) *mt;
			static const double d = 4;
			MPT_value_set(&v, 'd', &d);
			if (!strcmp(drv_w[2], "lin")) mt = _mpt_iterator_linear(&v);
			else if (!strcmp(drv_w[2], "range")) mt = _mpt_iterator_range(&v);
			else if (!strcmp(drv_w[2], "fac")) mt = _mpt_iterator_factor(&v);
			else { puts("bad-op"); continue; }
			add_slot(mt, 0, -1);
		}
		else if (!strcmp(op, "rangeset") && drv_nw == 3) {
			/* it rangeset vec2|vec3|vecnull|type|itnull : mpt_range_set with non-iterator values */
			MPT_STRUCT(value) v = MPT_VALUE_INIT(0, 0);
			MPT_STRUCT(range) r = { 7, 9 };
			static const double d3[3] = { -1.5, 2, 5 };
			struct iovec vec;
			void *none = 0;
			const char *k = drv_w[2];
			int ret;
			if (!strcmp(k, "vec2")) { vec.iov_base = (void *) d3; vec.iov_len = 2 * sizeof(double); MPT_value_set(&v, MPT_type_toVector('d'), &vec); }
			else if (!strcmp(k, "vec3")) { vec.iov_base = (void *) d3; vec.iov_len = 3 * sizeof(double); MPT_value_set(&v, MPT_type_toVector('d'), &vec); }
			else if (!strcmp(k, "vecnull")) { vec.iov_base = 0; vec.iov_len = 2 * sizeof(double); MPT_value_set(&v, MPT_type_toVector('d'), &vec); }
			else if (!strcmp(k, "type")) { MPT_value_set(&v, 'd', d3); }
			else if (!strcmp(k, "itnull")) { MPT_value_set(&v, MPT_ENUM(TypeIteratorPtr), &none); }
			else { puts("bad-op"); continue; }
			ret = mpt_range_set(&r, &v);
			if (ret < 0) printf("R err | C - | I ret=%s\n", drv_errname(ret));
			else { fputs("R ok min=", stdout); put_num(r.min, 1, 0); fputs(" max=", stdout); put_num(r.max, 1, 0); printf(" | C - | I ret=%d\n", ret); }
		}
		else if (!strcmp(op, "uvalue") && drv_nw == 2) {
			/* the current element read as uint32 (a second, narrower reading of an element; no advance) */
			const MPT_STRUCT(value) *val;
			uint32_t uv = 0xdeadbeefU;
			int r;
			if (cur < 0) { puts("bad-op"); continue; }
			if (!(val = slot_it[cur]->_vptr->value(slot_it[cur]))) { puts("R null | C - | I -"); continue; }
			r = mpt_value_convert(val, 'u', &uv);
			if (r < 0) printf("R noconv | C - | I ret=%s\n", drv_errname(r));
			else printf("R uval=%u | C - | I -\n", uv);
		}
		else if (!strcmp(op, "rest") && drv_nw == 2) {
			/* the current element of a text argument read as a string: the remaining text */
			const MPT_STRUCT(value) *val;
			const char *txt = (const char *) 1;
			int r;
			if (cur < 0) { puts("bad-op"); continue; }
			if (!(val = slot_it[cur]->_vptr->value(slot_it[cur]))) { puts("R null | C - | I -"); continue; }
			r = mpt_value_convert(val, 's', &txt);
			if (r < 0) printf("R noconv | C - | I ret=%s\n", drv_errname(r));
			else if (!txt) puts("R rest=null | C - | I -");
			else if (txt == (const char *) 1) puts("R rest=unset | C - | I -");
			else { fputs("R rest=", stdout); drv_puthex(stdout, (const uint8_t *) txt, strnlen(txt, 4096)); puts(" | C - | I -"); }
		}
		else if (!strcmp(op, "text") && drv_nw == 2) {
			/* the description text of the metatype ('s' conversion) */
			const char *txt = 0;
			if (cur < 0) { puts("bad-op"); continue; }
			int r = MPT_metatype_convert(slot_mt[cur], 's', &txt);
			if (r < 0) printf("R refused | C - | I ret=%s\n", drv_errname(r));
			else if (!txt) printf("R null | C - | I ret=%d\n", r);
			else { fputs("R text=", stdout); drv_puthex(stdout, (const uint8_t *) txt, strnlen(txt, 4096)); puts(" | C - | I ret=iter"); }
		}
		else if (!strcmp(op, "walk") && drv_nw == 3) {
			/* the documented loop of examples/iter.c, at most <cap> rounds */
			size_t cap, n = 0;
			const char *stop = "cap";
			if (cur < 0 || drv_parse_nat(drv_w[2], &cap) || cap > 4096) { puts("bad-op"); continue; }
			fputs("R vals=", stdout);
			while (n < cap) {
				double v;
				int r = get_value(&v);
				if (r <= 0 || r == 2) { stop = r == 2 ? "none" : r ? "noconv" : "null"; break; }
				if (n) fputc(',', stdout);
				put_num(v, 0, slot_first[cur]);
				++n;
				if ((r = slot_it[cur]->_vptr->advance(slot_it[cur])) < 0) { stop = "err"; break; }
				if (!r) { stop = "end"; break; }
			}
			if (!n) fputc('-', stdout);
			printf(" n=%zu stop=%s | C - | I -\n", n, stop);
		}
		else if ((!strcmp(op, "vlinear") && drv_nw == 6) || (!strcmp(op, "vbound") && drv_nw == 7)) {
			/* it vlinear <points> <ld> <min> <max> | it vbound <points> <ld> <left> <cont> <right>; hex-bit operands */
			size_t pts, ld;
			int lin = op[1] == 'l', na = lin ? 2 : 3, bad = 0;
			double a[3];
			if (drv_parse_nat(drv_w[2], &pts) || drv_parse_nat(drv_w[3], &ld) || pts > 64 || ld > 8) { puts("bad-op"); continue; }
			for (int i = 0; i < na; i++) if (parse_val(drv_w[4 + i], strlen(drv_w[4 + i]), &a[i])) bad = 1;
			if (bad) { puts("bad-op"); continue; }
			size_t size = (pts ? (pts - 1) * ld : 0) + 2;
			double *t = calloc(size, sizeof(*t));
			if (lin) mpt_values_linear(pts, t, ld, a[0], a[1]);
			else mpt_values_bound(pts, t, ld, a[0], a[1], a[2]);
			fputs("R arr=", stdout);
			double sc = 0;
			for (int i = 0; i < na; i++) if (fabs(a[i]) > sc) sc = fabs(a[i]);
			for (size_t i = 0; i < size; i++) { if (i) fputc(',', stdout); put_num(t[i], 0, sc); }
			puts(" | C - | I -");
			free(t);
		}
		else puts("bad-op");
	}
	drop_all();
	return 0;
}
