/* line-protocol driver: the C++ identifier class (mpt++/identifier.cpp) for C16.  Same output format as drv_ident.c,
 * ops are prefixed `xi`.  The object lives in exact-size malloc storage (placement new), as an `item<T>` or a node
 * embeds it with extra inline room. */
extern "C" {
#include "drv_util.h"
}
#include <errno.h>
#include <limits.h>
#include <new>
#include "core.h"
#include "types.h"

using namespace mpt;

#include "drv_ident_common.h"

/* the name operand as the callee gets it: with an explicit length it is a slice of the longer operand buffer
 * (followed by the operand's remaining bytes); without, a block of exactly its size (no terminator behind it, so
 * ASan sees any read past the announced length); for len = -1 the terminated buffer */
static uint8_t *name_block(uint8_t *dat, size_t dlen, int explicit_len, long len, uint8_t **tofree)
{
	*tofree = 0;
	if (explicit_len || len < 0) return dat;
	*tofree = (uint8_t *) __real_malloc(dlen ? dlen : 1);
	memcpy(*tofree, dat, dlen);
	return *tofree;
}

int main(void)
{
	static char line[1 << 20];
	drv_init();
	while (fgets(line, sizeof(line), stdin)) {
		if (line[0] == '#' || line[0] == '\n') { fputs(line, stdout); continue; }
		drv_split(line);
		if (drv_nw < 2 || strcmp(drv_w[0], "xi")) { puts("bad-op"); continue; }
		const char *op = drv_w[1];
		size_t k, j, n;
		if (!strcmp(op, "reset") && drv_nw == 2) {
			drop_all();
			result("ok");
		}
		else if (!strcmp(op, "new") && drv_nw == 3) {
			/* identifier::identifier(size_t total) in storage of exactly <size> bytes */
			if ((drv_w[2][0] == '0' && drv_w[2][1]) || drv_parse_nat(drv_w[2], &n) || n < sizeof(identifier) || n > 300 || nslot >= MAXID) { puts("bad-op"); continue; }
			void *mem = __real_malloc(n);
			memset(mem, 0xa5, n);
			identifier *id = new (mem) identifier(n);
			new_slot(id, mem, n);
			result("ok");
		}
		else if (!strcmp(op, "copyctor") && drv_nw == 3) {
			/* identifier::identifier(const identifier &) in storage of sizeof(identifier) */
			if (parse_slot(drv_w[2], &j) || nslot >= MAXID) { puts("bad-op"); continue; }
			void *mem = __real_malloc(sizeof(identifier));
			memset(mem, 0xa5, sizeof(identifier));
			in_lib = (int) nslot;
			identifier *id = new (mem) identifier(*slots[j].id);
			in_lib = -1;
			new_slot(id, mem, sizeof(identifier));
			result("ok");
		}
		else if (!strcmp(op, "set") && (drv_nw == 4 || drv_nw == 5)) {
			uint8_t *dat; size_t dlen; int isnull; long len;
			if (parse_slot(drv_w[2], &k) || parse_bytes(drv_w[3], &dat, &dlen, &isnull)) { puts("bad-op"); continue; }
			len = (long) dlen;
			if (drv_nw == 5 && parse_len(drv_w[4], &len)) { __real_free(dat); puts("bad-op"); continue; }
			if ((isnull && (drv_nw != 5 || len < 0)) || (!isnull && len > (long) dlen)) { __real_free(dat); puts("bad-op"); continue; }
			uint8_t *blk = 0, *nm = isnull ? 0 : name_block(dat, dlen, drv_nw == 5, len, &blk);
			in_lib = (int) k;
			bool r = slots[k].id->set_name((char *) nm, (int) len);
			in_lib = -1;
			__real_free(blk);
			__real_free(dat);
			result(r ? "ok" : "refused");
		}
		else if (!strcmp(op, "assign") && drv_nw == 4) {
			/* identifier::operator= */
			if (parse_slot(drv_w[2], &k) || parse_slot(drv_w[3], &j)) { puts("bad-op"); continue; }
			in_lib = (int) k;
			*slots[k].id = *slots[j].id;
			in_lib = -1;
			result("ok");
		}
		else if (!strcmp(op, "equal") && (drv_nw == 4 || drv_nw == 5)) {
			uint8_t *dat; size_t dlen; int isnull; long len;
			if (parse_slot(drv_w[2], &k) || parse_bytes(drv_w[3], &dat, &dlen, &isnull)) { puts("bad-op"); continue; }
			len = (long) dlen;
			if (drv_nw == 5 && parse_len(drv_w[4], &len)) { __real_free(dat); puts("bad-op"); continue; }
			if ((isnull && drv_nw != 5) || (!isnull && len > (long) dlen)) { __real_free(dat); puts("bad-op"); continue; }
			uint8_t *blk = 0, *nm = isnull ? 0 : name_block(dat, dlen, drv_nw == 5, len, &blk);
			bool r = slots[k].id->equal((char *) nm, (int) len);
			__real_free(blk);
			__real_free(dat);
			result(r ? "eq" : "ne");
		}
		else if (!strcmp(op, "name") && drv_nw == 3) {
			/* identifier::name(): the text, or null for non-text content */
			if (parse_slot(drv_w[2], &k)) { puts("bad-op"); continue; }
			const char *nm = slots[k].id->name();
			if (!nm) result("null");
			else {
				fputs("R name=", stdout);
				size_t len = RAWID(slots[k].id)->_len;
				if (!len) fputs("!nolength", stdout);
				else put_content((const uint8_t *) nm, len - 1);
				put_state();
			}
		}
		else if (!strcmp(op, "free") && drv_nw == 3) {
			/* identifier::~identifier(), then the storage is released */
			if (parse_slot(drv_w[2], &k)) { puts("bad-op"); continue; }
			in_lib = (int) k; slots[k].id->~identifier(); in_lib = -1;
			char buf[48];
			snprintf(buf, sizeof(buf), "ok leaked=%zu", reap((int) k));
			__real_free(slots[k].storage);
			slots[k].id = 0;
			result(buf);
		}
		else puts("bad-op");
	}
	drop_all();
	return 0;
}
