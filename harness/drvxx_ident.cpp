/* line-protocol driver: the C++ identifier class (mpt++/identifier.cpp) for C16.  Same output format as drv_ident.c,
 * ops are prefixed `xi`.  The object lives in exact-size malloc storage (placement new), as an `item<T>` or a node
 * embeds it with extra inline room. */
extern "C" {
#include "drv_util.h"
}
#include <errno.h>
#include <limits.h>
#include <new>
/* The item array buffers are C objects with a hand-made vtable (buffer_alloc.c), which UBSan's C++ vptr check cannot
 * accept: mpt++/array.cpp and mpt++/item_group.cpp are compiled into this translation unit (from the include path of
 * the tree under test) with that one check switched off (`link_extra = -fno-sanitize=vptr` in the property module);
 * everything else stays sanitised. */
#include "array.cpp"
#include "item_group.cpp"
#include "core.h"
#include "types.h"
#include "layout.h"

using namespace mpt;

#include "drv_ident_common.h"

/* the name operand as the callee gets it: with an explicit length it is a slice of the longer operand buffer
 * (followed by the operand's remaining bytes); without, a block of exactly its size (no terminator behind it, so
 * ASan sees any read past the announced length); for len = -1 the terminated buffer */
static uint8_t *name_block(uint8_t *dat, size_t dlen, int explicit_len, long len, uint8_t **tofree)
{
	*tofree = 0;
	if (explicit_len || len < 0) return dat;
	*tofree = (uint8_t *) __real_malloc(dlen ? dlen : 1);
	memcpy(*tofree, dat, dlen);
	return *tofree;
}

/* identifiers stored in an item_group (mpt++/item_group.cpp): the slot's identifier lives inside the group's item
 * array, the group is released with the slot */
static item_group *groups[MAXID];
static item_array<metatype> *arrays[MAXID];

/* identifiers that are the base of a stand-alone item<metatype> (exact-size storage, placement new) */
static item<metatype> *items[MAXID];

static void drop_holder(size_t k)
{
	in_lib = (int) k;
	if (groups[k]) groups[k]->unref();
	if (arrays[k]) delete arrays[k];
	if (items[k]) { items[k]->~item<metatype>(); }
	in_lib = -1;
	if (items[k]) __real_free(items[k]);
	groups[k] = 0;
	arrays[k] = 0;
	items[k] = 0;
	slots[k].id = 0;
}
static void drop_groups(void)
{
	size_t k;
	for (k = 0; k < nslot; k++) {
		if (!groups[k] && !arrays[k] && !items[k]) continue;
		drop_holder(k);
		reap((int) k);
	}
}
/* the identifier stored in an item becomes slot k; its name block (if any) belongs to that slot */
static size_t item_slot(const item<metatype> *it)
{
	identifier *sid = const_cast<identifier *>(static_cast<const identifier *>(it));
	size_t k = (size_t) new_slot(sid, 0, RAWID(sid)->_max + 4u);
	if (RAWID(sid)->_len > RAWID(sid)->_max && nblk < MAXBLK) { blk[nblk].ptr = RAWID(sid)->_base; blk[nblk].owner = (int) k; ++nblk; }
	return k;
}

int main(void)
{
	static char line[1 << 20];
	drv_init();
	while (fgets(line, sizeof(line), stdin)) {
		if (line[0] == '#' || line[0] == '\n') { fputs(line, stdout); continue; }
		drv_split(line);
		if (drv_nw < 2 || strcmp(drv_w[0], "xi")) { puts("bad-op"); continue; }
		const char *op = drv_w[1];
		size_t k, j, n;
		if (!strcmp(op, "reset") && drv_nw == 2) {
			drop_groups();
			drop_all();
			result("ok");
		}
		else if (!strcmp(op, "new") && drv_nw == 3) {
			/* identifier::identifier(size_t total) in storage of exactly <size> bytes */
			if ((drv_w[2][0] == '0' && drv_w[2][1]) || drv_parse_nat(drv_w[2], &n) || n < sizeof(identifier) || n > 300 || nslot >= MAXID) { puts("bad-op"); continue; }
			void *mem = __real_malloc(n);
			memset(mem, 0xa5, n);
			identifier *id = new (mem) identifier(n);
			new_slot(id, mem, n);
			result("ok");
		}
		else if (!strcmp(op, "copyctor") && drv_nw == 3) {
			/* identifier::identifier(const identifier &) in storage of sizeof(identifier) */
			if (parse_slot(drv_w[2], &j) || nslot >= MAXID) { puts("bad-op"); continue; }
			void *mem = __real_malloc(sizeof(identifier));
			memset(mem, 0xa5, sizeof(identifier));
			in_lib = (int) nslot;
			identifier *id = new (mem) identifier(*slots[j].id);
			in_lib = -1;
			new_slot(id, mem, sizeof(identifier));
			result("ok");
		}
		else if (!strcmp(op, "set") && (drv_nw == 4 || drv_nw == 5)) {
			uint8_t *dat; size_t dlen; int isnull; long len;
			if (parse_slot(drv_w[2], &k) || parse_bytes(drv_w[3], &dat, &dlen, &isnull)) { puts("bad-op"); continue; }
			len = (long) dlen;
			if (drv_nw == 5 && parse_len(drv_w[4], &len)) { __real_free(dat); puts("bad-op"); continue; }
			if ((isnull && (drv_nw != 5 || len < 0)) || (!isnull && len > (long) dlen)) { __real_free(dat); puts("bad-op"); continue; }
			uint8_t *blk = 0, *nm = isnull ? 0 : name_block(dat, dlen, drv_nw == 5, len, &blk);
			in_lib = (int) k;
			bool r = slots[k].id->set_name((char *) nm, (int) len);
			in_lib = -1;
			__real_free(blk);
			__real_free(dat);
			result(r ? "ok" : "refused");
		}
		else if (!strcmp(op, "assign") && drv_nw == 4) {
			/* identifier::operator= */
			if (parse_slot(drv_w[2], &k) || parse_slot(drv_w[3], &j)) { puts("bad-op"); continue; }
			in_lib = (int) k;
			*slots[k].id = *slots[j].id;
			in_lib = -1;
			result("ok");
		}
		else if (!strcmp(op, "equal") && (drv_nw == 4 || drv_nw == 5)) {
			uint8_t *dat; size_t dlen; int isnull; long len;
			if (parse_slot(drv_w[2], &k) || parse_bytes(drv_w[3], &dat, &dlen, &isnull)) { puts("bad-op"); continue; }
			len = (long) dlen;
			if (drv_nw == 5 && parse_len(drv_w[4], &len)) { __real_free(dat); puts("bad-op"); continue; }
			if ((isnull && drv_nw != 5) || (!isnull && len > (long) dlen)) { __real_free(dat); puts("bad-op"); continue; }
			uint8_t *blk = 0, *nm = isnull ? 0 : name_block(dat, dlen, drv_nw == 5, len, &blk);
			bool r = slots[k].id->equal((char *) nm, (int) len);
			__real_free(blk);
			__real_free(dat);
			result(r ? "eq" : "ne");
		}
		else if (!strcmp(op, "name") && drv_nw == 3) {
			/* identifier::name(): the text, or null for non-text content */
			if (parse_slot(drv_w[2], &k)) { puts("bad-op"); continue; }
			const char *nm = slots[k].id->name();
			if (!nm) result("null");
			else {
				fputs("R name=", stdout);
				size_t len = RAWID(slots[k].id)->_len;
				if (!len) fputs("!nolength", stdout);
				else put_content((const uint8_t *) nm, len - 1);
				put_state();
			}
		}
		else if (!strcmp(op, "gappend") && drv_nw == 3) {
			/* item_group::append(const identifier *, metatype *): a new item (identifier with 24 bytes) in a fresh group
			 * that already holds one item; the stored copy becomes a new slot */
			if (parse_slot(drv_w[2], &j) || nslot >= MAXID) { puts("bad-op"); continue; }
			item_group *g = new item_group;
			identifier pre;
			pre.set_name("pre");
			g->append(&pre, g->create("line"));
			metatype *mt = g->create("text");
			int r = g->append(slots[j].id, mt);
			span<const item<metatype> > items = g->items();
			if (r < 0 || items.size() != 2) {
				if (mt) mt->unref();
				g->unref();
				result("refused");
				continue;
			}
			k = item_slot(items.end() - 1);
			groups[k] = g;
			result("ok");
		}
		else if (!strcmp(op, "aappend") && (drv_nw == 3 || drv_nw == 4)) {
			/* item_array<metatype>::append(T *, const char *name, int len): a new item named by set_name(name, len) in a
			 * fresh array that already holds one item */
			uint8_t *dat; size_t dlen; int isnull; long len;
			if (nslot >= MAXID || parse_bytes(drv_w[2], &dat, &dlen, &isnull)) { puts("bad-op"); continue; }
			len = (long) dlen;
			if (drv_nw == 4 && parse_len(drv_w[3], &len)) { __real_free(dat); puts("bad-op"); continue; }
			if (isnull || len > (long) dlen) { __real_free(dat); puts("bad-op"); continue; }
			uint8_t *blk2 = 0, *nm = name_block(dat, dlen, drv_nw == 4, len, &blk2);
			item_array<metatype> *arr = new item_array<metatype>;
			arr->append(0, "pre");
			item<metatype> *it = arr->append(0, (const char *) nm, (int) len);
			__real_free(blk2);
			__real_free(dat);
			if (!it) {
				long left = arr->length();
				delete arr;
				result(left == 1 ? "refused" : "refused !length");
				continue;
			}
			k = item_slot(it);
			arrays[k] = arr;
			result("ok");
		}
		else if (!strcmp(op, "inew") && drv_nw == 2) {
			/* item<metatype>() in storage of exactly sizeof(item): its identifier has 24 bytes */
			if (nslot >= MAXID) { puts("bad-op"); continue; }
			void *mem = __real_malloc(sizeof(item<metatype>));
			memset(mem, 0xa5, sizeof(item<metatype>));
			item<metatype> *it = new (mem) item<metatype>();
			k = (size_t) new_slot(static_cast<identifier *>(it), 0, RAWID(static_cast<identifier *>(it))->_max + 4u);
			items[k] = it;
			result("ok");
		}
		else if (!strcmp(op, "icopy") && drv_nw == 3) {
			/* item<metatype>(const item &): the identifier base is copy-constructed (16 bytes of it are used) */
			if (parse_slot(drv_w[2], &j) || !items[j] || nslot >= MAXID) { puts("bad-op"); continue; }
			void *mem = __real_malloc(sizeof(item<metatype>));
			memset(mem, 0xa5, sizeof(item<metatype>));
			in_lib = (int) nslot;
			item<metatype> *it = new (mem) item<metatype>(*items[j]);
			in_lib = -1;
			k = (size_t) new_slot(static_cast<identifier *>(it), 0, RAWID(static_cast<identifier *>(it))->_max + 4u);
			items[k] = it;
			result("ok");
		}
		else if (!strcmp(op, "iassign") && drv_nw == 4) {
			/* item::operator=(const item &) */
			if (parse_slot(drv_w[2], &k) || parse_slot(drv_w[3], &j) || !items[k] || !items[j]) { puts("bad-op"); continue; }
			in_lib = (int) k;
			*items[k] = *items[j];
			in_lib = -1;
			result("ok");
		}
		else if (!strcmp(op, "gclear") && drv_nw == 4) {
			/* item_group: items with names of the given lengths (item i: byte 0x61+i repeated), the listed items are removed
			 * one after the other with group::clear(ref) (which compacts the array when more than half of it is unused);
			 * the names of the items that stay, and what the group leaves allocated after its release */
			size_t lens[8], order[8], nl = 0, no = 0, i;
			metatype *mt[8];
			char *p;
			int bad = 0;
			for (p = drv_w[2]; p && !bad; ) {
				char *c = strchr(p, ',');
				if (c) *c = 0;
				if (nl >= 8 || (p[0] == '0' && p[1]) || drv_parse_nat(p, &lens[nl]) || lens[nl] > 5000) bad = 1; else ++nl;
				p = c ? c + 1 : 0;
			}
			for (p = drv_w[3]; p && !bad && strcmp(drv_w[3], "-"); ) {
				char *c = strchr(p, ',');
				if (c) *c = 0;
				if (no >= 8 || (p[0] == '0' && p[1]) || drv_parse_nat(p, &order[no]) || order[no] >= nl) bad = 1;
				else { for (i = 0; i < no; i++) if (order[i] == order[no]) bad = 1; ++no; }
				p = c ? c + 1 : 0;
			}
			if (bad || !nl) { puts("bad-op"); continue; }
			in_lib = MAXID;
			item_group *g = new item_group;
			for (i = 0; i < nl; i++) {
				identifier tmp;
				char *nm = (char *) __real_malloc(lens[i] + 1);
				memset(nm, 0x61 + (int) i, lens[i]);
				nm[lens[i]] = 0;
				tmp.set_name(nm, (int) lens[i]);
				__real_free(nm);
				mt[i] = g->create("line");
				g->append(&tmp, mt[i]);
			}
			for (i = 0; i < no; i++) g->clear(mt[order[i]]);
			fputs("R ok items=", stdout);
			span<const item<metatype> > its = g->items();
			size_t shown = 0;
			for (const item<metatype> *it = its.begin(); it != its.end(); ++it) {
				if (!it->instance()) continue;
				const char *nm = it->name();
				size_t ln = RAWID(static_cast<const identifier *>(it))->_len;
				if (shown++) fputc(',', stdout);
				if (!nm || !ln) { fputs("!noname", stdout); continue; }
				--ln;
				size_t idx = ln ? (size_t) (unsigned char) nm[0] - 0x61 : 99, b;
				if (!ln) { for (idx = 0; idx < nl; idx++) if (!lens[idx] && it->instance() == mt[idx]) break; }
				for (b = 0; b < ln; b++) if ((unsigned char) nm[b] != 0x61 + idx) idx = 98;
				if (nm[ln]) idx = 97;
				printf("%zu:%zu", idx, ln);
			}
			if (!shown) fputc('-', stdout);
			g->unref();
			in_lib = -1;
			printf(" leaked=%zu", reap(MAXID));
			put_state();
		}
		else if (!strcmp(op, "free") && drv_nw == 3 && !parse_slot(drv_w[2], &k) && (groups[k] || arrays[k] || items[k])) {
			/* the group/array is released: item destructor -> identifier::~identifier() */
			drop_holder(k);
			char buf[48];
			snprintf(buf, sizeof(buf), "ok leaked=%zu", reap((int) k));
			result(buf);
		}
		else if (!strcmp(op, "free") && drv_nw == 3) {
			/* identifier::~identifier(), then the storage is released */
			if (parse_slot(drv_w[2], &k)) { puts("bad-op"); continue; }
			in_lib = (int) k; slots[k].id->~identifier(); in_lib = -1;
			char buf[48];
			snprintf(buf, sizeof(buf), "ok leaked=%zu", reap((int) k));
			__real_free(slots[k].storage);
			slots[k].id = 0;
			result(buf);
		}
		else puts("bad-op");
	}
	drop_groups();
	drop_all();
	return 0;
}
