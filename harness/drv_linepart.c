/* line-protocol driver: mptplot/values/linepart_*.c (C18).  Calls the real functions in-process.
 * Numbers are exchanged only as exactly representable values: operands `[-]digits[/2^k]`,
 * results as the hex of the IEEE-754 bit pattern. */
#include "drv_util.h"
#include <math.h>
#include "values.h"

static int have_range;
static MPT_STRUCT(range) range;
static double *data;
static size_t dlen;

/* strict decimal digits, at most 18 */
static int parse_digits(const char *s, size_t n, unsigned long long *v)
{
	if (!n || n > 18) return -1;
	unsigned long long r = 0;
	for (size_t i = 0; i < n; i++) {
		if (s[i] < '0' || s[i] > '9') return -1;
		r = r * 10 + (unsigned) (s[i] - '0');
	}
	*v = r; return 0;
}
/* `[-]digits[/digits]`, denominator a power of two <= 2^60, |numerator| < 2^53 */
static int parse_val(const char *s, size_t n, double *out)
{
	int neg = 0;
	const char *sl = memchr(s, '/', n);
	unsigned long long num, den = 1;
	if (n && *s == '-') { neg = 1; ++s; --n; if (sl && sl < s) return -1; }
	size_t nn = sl ? (size_t) (sl - s) : n;
	if (parse_digits(s, nn, &num) || num >= (1ULL << 53)) return -1;
	if (sl) {
		if (memchr(sl + 1, '/', n - nn - 1)) return -1;
		if (parse_digits(sl + 1, n - nn - 1, &den)) return -1;
		if (!den || (den & (den - 1)) || den > (1ULL << 60)) return -1;
	}
	*out = (double) num / (double) den;
	if (neg) *out = -*out;
	return 0;
}
static void put_bits(double d)
{
	uint64_t b;
	memcpy(&b, &d, sizeof(b));
	printf("%016llx", (unsigned long long) b);
}
/* `n*v` or `v`, comma separated */
static int parse_data(char *s)
{
	size_t cap = 16, len = 0;
	double *v = malloc(cap * sizeof(*v));
	while (1) {
		char *e = strchr(s, ',');
		size_t n = e ? (size_t) (e - s) : strlen(s);
		char *st = memchr(s, '*', n);
		unsigned long long rep = 1;
		double d;
		if (st) {
			if (memchr(st + 1, '*', n - (st - s) - 1)) { free(v); return -1; }
			if (parse_digits(s, st - s, &rep) || rep > 200000) { free(v); return -1; }
			if (parse_val(st + 1, n - (st - s) - 1, &d)) { free(v); return -1; }
		}
		else if (parse_val(s, n, &d)) { free(v); return -1; }
		while (len + rep > cap) { cap *= 2; v = realloc(v, cap * sizeof(*v)); }
		for (unsigned long long i = 0; i < rep; i++) v[len++] = d;
		if (!e) break;
		s = e + 1;
	}
	free(data);
	/* exact-size copy: a read past the last value is a heap overflow for ASan */
	data = malloc(len ? len * sizeof(*v) : 1);
	memcpy(data, v, len * sizeof(*v));
	free(v);
	dlen = len;
	return 0;
}
static int parse_part(const char *s, MPT_STRUCT(linepart) *p)
{
	unsigned long long f[4];
	for (int i = 0; i < 4; i++) {
		const char *e = strchr(s, ':');
		size_t n = e ? (size_t) (e - s) : strlen(s);
		if ((i < 3) != (e != 0)) return -1;
		if (parse_digits(s, n, &f[i]) || f[i] > 65535) return -1;
		s = e + 1;
	}
	p->raw = f[0]; p->usr = f[1]; p->_cut = f[2]; p->_trim = f[3];
	return 0;
}

int main(void)
{
	static char line[1 << 22];
	drv_init();
	while (fgets(line, sizeof(line), stdin)) {
		if (line[0] == '#' || line[0] == '\n') { fputs(line, stdout); continue; }
		drv_split(line);
		if (drv_nw < 2 || strcmp(drv_w[0], "l")) { puts("bad-op"); continue; }
		const char *op = drv_w[1];
		if (!strcmp(op, "range") && drv_nw == 3 && !strcmp(drv_w[2], "null")) {
			have_range = 0;
			puts("R ok | C - | I -");
		}
		else if (!strcmp(op, "range") && drv_nw == 4) {
			double a, b;
			if (parse_val(drv_w[2], strlen(drv_w[2]), &a) || parse_val(drv_w[3], strlen(drv_w[3]), &b)) { puts("bad-op"); continue; }
			range.min = a; range.max = b; have_range = 1;
			puts("R ok | C - | I -");
		}
		else if (!strcmp(op, "data") && drv_nw == 3) {
			if (!strcmp(drv_w[2], "-")) {
				free(data); data = malloc(1); dlen = 0;
				puts("R ok | C - | I len=0");
				continue;
			}
			if (parse_data(drv_w[2])) { puts("bad-op"); continue; }
			printf("R ok | C - | I len=%zu\n", dlen);
		}
		else if (!strcmp(op, "run") && drv_nw == 2) {
			/* the caller's loop of linepart::array::apply: repeated calls advancing by raw */
			size_t pos = 0, n = 0, cap = 16, sraw = 0, susr = 0;
			int stall = 0;
			MPT_STRUCT(linepart) *ps = malloc(cap * sizeof(*ps));
			while (pos < dlen) {
				MPT_STRUCT(linepart) pt;
				memset(&pt, 0xa5, sizeof(pt));
				mpt_linepart_linear(&pt, data + pos, dlen - pos, have_range ? &range : 0);
				if (n == cap) { cap *= 2; ps = realloc(ps, cap * sizeof(*ps)); }
				ps[n++] = pt;
				sraw += pt.raw; susr += pt.usr;
				if (!pt.raw) { stall = 1; break; }
				pos += pt.raw;
			}
			printf("R n=%zu recs=", n);
			if (!n) fputc('-', stdout);
			for (size_t i = 0; i < n; i++) printf("%s%u:%u:%u:%u", i ? "," : "", ps[i].raw, ps[i].usr, ps[i]._cut, ps[i]._trim);
			printf("%s | C raw=%zu usr=%zu | I len=%zu\n", stall ? " stall" : "", sraw, susr, dlen);
			free(ps);
		}
		else if (!strcmp(op, "empty") && drv_nw == 2) {
			/* a call without values (len 0) reads nothing and returns the empty part; the value pointer points
			 * behind an exact-size allocation, so any read is a heap overflow for ASan */
			MPT_STRUCT(linepart) pt;
			char *edge = malloc(1);
			memset(&pt, 0xa5, sizeof(pt));
			mpt_linepart_linear(&pt, (const double *) (void *) (edge + 1), 0, have_range ? &range : 0);
			free(edge);
			printf("R part %u:%u:%u:%u | C - | I -\n", pt.raw, pt.usr, pt._cut, pt._trim);
		}
		else if (!strcmp(op, "code") && drv_nw == 3) {
			double v;
			if (parse_val(drv_w[2], strlen(drv_w[2]), &v)) { puts("bad-op"); continue; }
			int c = mpt_linepart_code(v);
			printf("R code=%d real=", c);
			if (c < 0) fputc('-', stdout);
			else put_bits(mpt_linepart_real(c));
			puts(" | C - | I -");
		}
		else if (!strcmp(op, "join") && drv_nw == 4) {
			MPT_STRUCT(linepart) to, post;
			if (parse_part(drv_w[2], &to) || parse_part(drv_w[3], &post)) { puts("bad-op"); continue; }
			MPT_STRUCT(linepart) keep = to;
			if (mpt_linepart_join(&to, post)) {
				printf("R joined %u:%u:%u:%u | C raw=%u usr=%u | I -\n", to.raw, to.usr, to._cut, to._trim, to.raw, to.usr);
			}
			else if (memcmp(&keep, &to, sizeof(to))) {
				puts("R refused-but-changed | C - | I -");
			}
			else printf("R refused | C raw=%u usr=%u | I -\n", to.raw + post.raw, to.usr + post.usr);
		}
		else puts("bad-op");
	}
	free(data);
	return 0;
}
