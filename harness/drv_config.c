/* line-protocol driver: mptcore/config (C10).  Calls the real functions in-process.
 * The global configuration tree is process-global: `g begin` and `g end` empty it (and the private list, and drop the
 * views), so a batch of scripts can share a process.
 *
 * trees:  '-' = global configuration through a NULL config pointer (mpt_config_set / mpt_config_getp),
 *         'r' = a private root list driven directly with mpt_node_assign / mpt_node_query,
 *         <k> = sub-tree view number k of the global configuration (mpt_config_global(path))
 *
 *   g set <tree> <path-hex> <sep-hex> <value-hex>
 *   g del <tree> <path-hex> <sep-hex>
 *   g get <tree> <path-hex> <sep-hex>
 *   g seti <tree> <path-hex> <sep-hex>             assign an int32 (no text form: refused)
 *   g setl <tree> <prefix-hex> <n> <suffix-hex> <sep-hex> <value-hex>   path = prefix, n x 'x', suffix
 *   g has <tree> <path-hex> <sep-hex>              existence (query without handler)
 *   g delp <tree> empty|null / g setp <tree> <value-hex> / g getp <tree>   remove, assign, query with an empty (NULL) path
 *   g view <path-hex> <sep-hex>
 *   g split <text-hex> <sep-hex> <assign-hex>      mpt_path_set + mpt_path_next until exhausted
 *   g last <text-hex> <sep-hex> <skip>             mpt_path_set, <skip> x mpt_path_next, mpt_path_last
 *   g build <mode> <sep-hex> <elem-hex>[,<elem-hex>...]   mode s|b: addchar/add each element, walk with next, del all
 *   g extend <sep-hex> <text-hex> <skip> <elems>       mpt_path_set from a string, <skip> x next, add elements, walk
 *   g rebuild <mode> <sep-hex> <elems> <skip> <elem-hex>   build, <skip> x next, del, add <elem>, walk the rest
 *
 * Output: R <verdict> | C G[<path>=<value>,...]P[...] | I <return code> tree=<dump>
 *   (sorted; path elements hex, joined by '/'; every element is listed, `=<value>` when it has one)
 */
#include "drv_util.h"
extern int __lsan_do_recoverable_leak_check(void);
#include <errno.h>
#include <sys/uio.h>
#include "meta.h"
#include "types.h"
#include "node.h"
#include "collection.h"
#include "config.h"

static MPT_STRUCT(node) *root;          /* private list for tree 'r' */

/* allocation failure by size ('g failsize <n>'): the first malloc of exactly <n> bytes inside the next assignment fails
 * (the name of a path element that does not fit into its node is allocated with length + 1 bytes) */
static size_t fail_size;
static int fail_armed;
extern void *__real_malloc(size_t);
extern void *__wrap_malloc(size_t);
void *__wrap_malloc(size_t n)
{
	if (fail_armed && fail_size && n == fail_size) { fail_size = 0; return 0; }
	return __real_malloc(n);
}
#define MAXV 16
static MPT_INTERFACE(metatype) *views[MAXV];
static int nviews;

/* ------------------------------------------------------------------ collecting path=value pairs */
#define MAXP 4096
static char *pairs[MAXP];
static int npairs;
static char dump[1 << 18];
static size_t dumplen;

static void dump_s(const char *s)
{
	size_t n = strlen(s);
	if (dumplen + n + 1 >= sizeof(dump)) return;
	memcpy(dump + dumplen, s, n + 1);
	dumplen += n;
}
static void hex_into(char *dst, const uint8_t *b, size_t n)
{
	static const char d[] = "0123456789abcdef";
	size_t i;
	if (!n) { strcpy(dst, "-"); return; }
	for (i = 0; i < n; i++) { dst[2*i] = d[b[i] >> 4]; dst[2*i+1] = d[b[i] & 15]; }
	dst[2*n] = 0;
}
static char *name_hex(const MPT_STRUCT(identifier) *id)
{
	static char buf[2048];
	const char *d = mpt_identifier_data(id);
	size_t len = id->_len;
	if (!len) { strcpy(buf, "~"); return buf; }     /* unnamed */
	if (len > 1000) { strcpy(buf, "?long"); return buf; }
	if (d[len - 1]) { strcpy(buf, "?unterminated"); return buf; }
	hex_into(buf, (const uint8_t *) d, len - 1);
	return buf;
}
/* text of a value the way mpt_convertable_data() reads it: character vector first, then string */
static int value_text(MPT_INTERFACE(convertable) *val, const char **txt, size_t *len)
{
	struct iovec vec;
	int r;
	if ((r = val->_vptr->convert(val, MPT_type_toVector('c'), &vec)) >= 0) {
		*txt = vec.iov_base;
		*len = vec.iov_len;
		if (*len && !(*txt)[*len - 1]) --*len;     /* stored terminator */
		return r;
	}
	if ((r = val->_vptr->convert(val, 's', txt)) >= 0) {
		*len = *txt ? strlen(*txt) : 0;
		return r;
	}
	return r;
}
static void add_pair(const char *path, MPT_INTERFACE(convertable) *val)
{
	const char *txt = 0;
	char *p;
	size_t plen = strlen(path), vlen = 0;
	if (npairs >= MAXP) return;
	if (!val) {
		/* element without value: the path alone */
		p = malloc(plen + 1);
		memcpy(p, path, plen + 1);
		pairs[npairs++] = p;
		return;
	}
	if (value_text(val, &txt, &vlen) < 0) { txt = "?noconv"; vlen = 7; }
	if (!txt) vlen = 0;
	p = malloc(plen + 2 * vlen + 8);
	memcpy(p, path, plen);
	p[plen] = '=';
	if (!txt) strcpy(p + plen + 1, "null");
	else hex_into(p + plen + 1, (const uint8_t *) txt, vlen);
	pairs[npairs++] = p;
}
static char gfirst[1024];   /* name of the first top-level element of the global tree */
static int gfirst_len;
static int gnitems;           /* elements reached through the collection interface */
struct walk_ctx { char path[8192]; size_t len; int depth; int count; };
static int walk_item(void *ptr, const MPT_STRUCT(identifier) *id, MPT_INTERFACE(convertable) *val, const MPT_INTERFACE(collection) *sub)
{
	struct walk_ctx *c = ptr;
	size_t old = c->len;
	const char *nm = name_hex(id);
	size_t n = strlen(nm);
	if (c->count) ++gnitems;
	if (c->count && !c->depth && gfirst_len < 0 && id->_len && id->_len < sizeof(gfirst)) {
		const char *d = mpt_identifier_data(id);
		if (d && !d[id->_len - 1] && strlen(d) == (size_t) id->_len - 1) {
			memcpy(gfirst, d, id->_len);
			gfirst_len = id->_len - 1;
		}
	}
	if (c->len + n + 2 >= sizeof(c->path) || c->depth > 200) return 0;
	if (c->len) c->path[c->len++] = '/';
	memcpy(c->path + c->len, nm, n + 1);
	c->len += n;
	dump_s(nm);
	if (val) dump_s("*");
	add_pair(c->path, val);
	if (sub) {
		size_t mark = dumplen;
		dump_s("(");
		c->depth++;
		sub->_vptr->each(sub, walk_item, c);
		c->depth--;
		if (dumplen == mark + 1) { dumplen = mark; dump[mark] = 0; }   /* empty collection */
		else dump_s(")");
	}
	dump_s(";");
	c->len = old;
	c->path[old] = 0;
	return 0;
}
static int walk_top(void *ptr, MPT_INTERFACE(convertable) *val, const MPT_INTERFACE(collection) *sub)
{
	(void) val;
	if (sub) sub->_vptr->each(sub, walk_item, ptr);
	return 0;
}
/* the private list: walked over the node links, with the link checks of the node driver in small */
static const char *pbroken;
static void walk_nodes(MPT_STRUCT(node) *n, MPT_STRUCT(node) *parent, struct walk_ctx *c)
{
	MPT_STRUCT(node) *prev = 0;
	int guard = 0;
	for (; n && guard++ < 100000; prev = n, n = n->next) {
		size_t old = c->len;
		const char *nm = name_hex(&n->ident);
		size_t l = strlen(nm);
		if (n->prev != prev) pbroken = "prev-mismatch";
		if (n->parent != parent) pbroken = "parent-mismatch";
		if (c->len + l + 2 >= sizeof(c->path) || c->depth > 200) return;
		if (c->len) c->path[c->len++] = '/';
		memcpy(c->path + c->len, nm, l + 1);
		c->len += l;
		dump_s(nm);
		if (n->_meta) dump_s("*");
		add_pair(c->path, (MPT_INTERFACE(convertable) *) n->_meta);
		if (n->children) {
			dump_s("(");
			c->depth++;
			walk_nodes(n->children, n, c);
			c->depth--;
			dump_s(")");
		}
		dump_s(";");
		c->len = old;
		c->path[old] = 0;
	}
}
/* link check of the global tree (C14's clauses on the tree the views work on): the first top-level element is
 * looked up through a view on its name, the walk goes over the node links from the head of its list */
static const char *gbroken;
static const char *gunchecked;
#define MAXSEEN 8192
static MPT_STRUCT(node) *gseen[MAXSEEN];
static int gnseen;            /* nodes reached over the links */
static void check_links(MPT_STRUCT(node) *n, MPT_STRUCT(node) *parent, int depth)
{
	MPT_STRUCT(node) *prev = 0;
	for (; n; prev = n, n = n->next) {
		int i;
		/* a node reached a second time: cycle, or reachable from two places */
		for (i = 0; i < gnseen; i++) if (gseen[i] == n) { gbroken = "reached-twice"; return; }
		if (gnseen >= MAXSEEN) { gunchecked = "too-many-nodes"; return; }
		gseen[gnseen++] = n;
		if (n->prev != prev) gbroken = "prev-mismatch";
		if (n->parent != parent) gbroken = "parent-mismatch";
		if (depth > 4000) { gunchecked = "too-deep"; return; }
		check_links(n->children, n, depth + 1);
		if (gbroken && !strcmp(gbroken, "reached-twice")) return;
	}
}
static void check_global(void)
{
	MPT_STRUCT(path) p = MPT_PATH_INIT;
	MPT_INTERFACE(metatype) *mt;
	MPT_STRUCT(node) *n = 0;
	int used[256], i, sepc = 0;
	gbroken = 0; gunchecked = 0; gnseen = 0;
	if (!gnitems) return;                      /* empty tree: nothing to check */
	if (gfirst_len < 0) { gunchecked = "first-name-unusable"; return; }
	memset(used, 0, sizeof(used));
	for (i = 0; i < gfirst_len; i++) used[(uint8_t) gfirst[i]] = 1;
	for (i = 1; i < 256; i++) if (!used[i]) { sepc = i; break; }
	if (!sepc) { gunchecked = "no-free-separator"; return; }
	p.sep = sepc; p.assign = 0;
	mpt_path_set(&p, gfirst, -1);
	if (!(mt = mpt_config_global(&p))) { gunchecked = "no-view"; return; }
	if (MPT_metatype_convert(mt, MPT_ENUM(TypeNodePtr), &n) < 0) n = 0;
	mt->_vptr->unref(mt);
	if (!n) { gbroken = "top-not-found"; return; }
	if (n->parent) gbroken = "top-has-parent";
	for (i = 0; n->prev && i < 100000; i++) n = n->prev;
	if (n->prev) { gbroken = "prev-cycle"; return; }
	check_links(n, 0, 0);
	/* every element the collection interface shows is reached over the links exactly once, and nothing else */
	if (!gbroken && !gunchecked && gnseen != gnitems) gbroken = "reachable-count-differs";
}
static int cmp_str(const void *a, const void *b)
{
	return strcmp(*(char * const *) a, *(char * const *) b);
}
static void put_pairs(void)
{
	int i;
	qsort(pairs, npairs, sizeof(*pairs), cmp_str);
	for (i = 0; i < npairs; i++) {
		if (i) fputc(',', stdout);
		fputs(pairs[i], stdout);
		free(pairs[i]);
	}
	npairs = 0;
}
static void result(const char *verdict, const char *ret)
{
	struct walk_ctx c;
	MPT_STRUCT(path) p = MPT_PATH_INIT;
	printf("R %s | C G[", verdict);
	c.len = 0; c.path[0] = 0; c.depth = 0;
	dumplen = 0; dump[0] = 0;
	gfirst_len = -1; gnitems = 0; c.count = 1;
	mpt_config_query(0, &p, walk_top, &c);
	check_global();
	if (gbroken) printf("BROKEN:%s ", gbroken);
	if (gunchecked) printf("UNCHECKED:%s ", gunchecked);
	put_pairs();
	fputs("]P[", stdout);
	c.len = 0; c.path[0] = 0; c.depth = 0; c.count = 0;
	dump_s("|");
	pbroken = 0;
	walk_nodes(root, 0, &c);
	if (pbroken) printf("BROKEN:%s", pbroken);
	put_pairs();
	printf("] | I ret=%s tree=%s\n", ret, dump);
}
static void result_n(const char *verdict, long r)
{
	char buf[48];
	if (r < 0) snprintf(buf, sizeof(buf), "%s", drv_errname(r));
	else snprintf(buf, sizeof(buf), "%ld", r);
	result(verdict, buf);
}
/* ------------------------------------------------------------------ operands */
static char *get_text(const char *w, size_t *len)
{
	uint8_t *d = 0; int isnull = 0; size_t i;
	char *s;
	if (drv_parse_data(w, &d, len, &isnull) || isnull) { free(d); return 0; }
	for (i = 0; i < *len; i++) if (!d[i]) { free(d); return 0; }   /* C strings */
	s = malloc(*len + 1);
	memcpy(s, d, *len);
	s[*len] = 0;
	free(d);
	return s;
}
static int get_char(const char *w, int *c)
{
	uint8_t *d = 0; size_t len; int isnull = 0;
	if (drv_parse_data(w, &d, &len, &isnull) || isnull || len > 1) { free(d); return -1; }
	*c = len ? d[0] : 0;
	free(d);
	return 0;
}
static MPT_INTERFACE(config) *get_tree(const char *w, int *kind)
{
	MPT_INTERFACE(config) *cfg = 0;
	size_t v;
	if (!strcmp(w, "-")) { *kind = 0; return 0; }
	if (!strcmp(w, "r")) { *kind = 1; return 0; }
	if (drv_parse_nat(w, &v) || v >= (size_t) nviews) { *kind = -1; return 0; }
	*kind = 2;
	if (MPT_metatype_convert(views[v], MPT_ENUM(TypeConfigPtr), &cfg) < 0 || !cfg) *kind = -1;
	return cfg;
}
struct got { const char *txt; size_t len; };
static int get_value(void *ptr, MPT_INTERFACE(convertable) *val, const MPT_INTERFACE(collection) *coll)
{
	struct got *g = ptr;
	(void) coll;
	if (!val) return MPT_ERROR(MissingData);
	return value_text(val, &g->txt, &g->len);
}
static void put_elems(char *out, size_t max, const char *base, size_t len, int first)
{
	size_t n = strlen(out);
	if (n + 2 * len + 4 >= max) return;
	if (!first) out[n++] = ',';
	hex_into(out + n, (const uint8_t *) base, len);
}

int main(void)
{
	static char line[1 << 17];
	static char out[1 << 17];
	drv_init();
	while (fgets(line, sizeof(line), stdin)) {
		const char *op;
		char *ptxt = 0, *vtxt = 0;
		size_t plen = 0, vlen = 0;
		int sep = 0, kind = 0, r;
		MPT_INTERFACE(config) *cfg;
		if (line[0] == '#' || line[0] == '\n') { fputs(line, stdout); continue; }
		drv_split(line);
		if (drv_nw < 2 || strcmp(drv_w[0], "g")) { puts("bad-op"); continue; }
		op = drv_w[1];
		if (!strcmp(op, "begin") && drv_nw == 2) {
			/* several scripts may share a process: start from nothing */
			int i;
			MPT_STRUCT(node) tmp = MPT_NODE_INIT;
			for (i = 0; i < nviews; i++) views[i]->_vptr->unref(views[i]);
			nviews = 0;
			if ((tmp.children = root)) {
				MPT_STRUCT(node) *n;
				for (n = root; n; n = n->next) n->parent = &tmp;
				mpt_node_clear(&tmp);
				root = 0;
			}
			mpt_config_set(0, 0, 0, '.', 0);
			result("ok", "0");
		}
		else if ((!strcmp(op, "set") && drv_nw == 6) || (!strcmp(op, "seti") && drv_nw == 5) || (!strcmp(op, "setl") && drv_nw == 8)) {
			/* set: text value; seti: a value without text form (int32), which mpt_meta_new refuses;
			 * setl: path text = <prefix> <n> x 'x' <suffix> (elements around the identifier limit of 65535 bytes) */
			int32_t ival = 4711;
			int isint = op[3] == 'i', islong = op[3] == 'l';
			cfg = get_tree(drv_w[2], &kind);
			if (islong) {
				char *pre = get_text(drv_w[3], &plen), *suf;
				size_t slen = 0, n = 0;
				suf = get_text(drv_w[5], &slen);
				if (!pre || !suf || drv_parse_nat(drv_w[4], &n) || n < 65535 || n > 70000) { puts("bad-op"); free(pre); free(suf); continue; }
				ptxt = malloc(plen + n + slen + 1);
				memcpy(ptxt, pre, plen);
				memset(ptxt + plen, 'x', n);
				memcpy(ptxt + plen + n, suf, slen + 1);
				free(pre); free(suf);
				vtxt = get_text(drv_w[7], &vlen);
				if (get_char(drv_w[6], &sep) || sep == 'x') { puts("bad-op"); free(ptxt); free(vtxt); continue; }
			} else {
				ptxt = get_text(drv_w[3], &plen);
				if (!isint) vtxt = get_text(drv_w[5], &vlen);
				if (get_char(drv_w[4], &sep)) { puts("bad-op"); free(ptxt); free(vtxt); continue; }
			}
			if (kind < 0 || !ptxt || (!isint && !vtxt)) { puts("bad-op"); free(ptxt); free(vtxt); continue; }
			{
				MPT_STRUCT(path) p = MPT_PATH_INIT;
				const char *v = vtxt;
				MPT_STRUCT(value) d = MPT_VALUE_INIT('s', &v);
				MPT_STRUCT(value) di = MPT_VALUE_INIT('i', &ival);
				p.sep = sep; p.assign = 0;
				mpt_path_set(&p, ptxt, -1);
				fail_armed = 1;
				if (kind == 1) {
					MPT_STRUCT(node) *an = mpt_node_assign(&root, &p, isint ? &di : &d);
					fail_armed = 0; fail_size = 0;
					result(an ? "ok" : "refused", "node");
				} else if (isint) {
					if (!cfg) {
						static MPT_INTERFACE(metatype) *gl;
						if (!gl) gl = mpt_config_global(0);
						if (!gl || MPT_metatype_convert(gl, MPT_ENUM(TypeConfigPtr), &cfg) < 0 || !cfg) { puts("bad-op"); free(ptxt); continue; }
					}
					r = cfg->_vptr->assign(cfg, &p, &di);
					fail_armed = 0; fail_size = 0;
					result(r < 0 ? "refused" : "ok", r < 0 ? drv_errname(r) : "0");
				} else {
					r = mpt_config_set(cfg, ptxt, vtxt, sep, 0);
					fail_armed = 0; fail_size = 0;
					result(r < 0 ? "refused" : "ok", r < 0 ? drv_errname(r) : "0");   /* the code is the value type */
				}
				fail_armed = 0; fail_size = 0;
			}
			free(ptxt); free(vtxt);
		}
		else if ((!strcmp(op, "delp") && drv_nw == 4) || (!strcmp(op, "setp") && drv_nw == 4) || (!strcmp(op, "getp") && drv_nw == 3)) {
			/* the empty-path forms of the config interface: g delp <tree> empty|null, g setp <tree> <value-hex>,
			 * g getp <tree> (value of the view's base / nothing on the global object) */
			MPT_STRUCT(path) p = MPT_PATH_INIT;
			cfg = get_tree(drv_w[2], &kind);
			if (kind < 0 || kind == 1) { puts("bad-op"); continue; }
			if (!cfg) {
				static MPT_INTERFACE(metatype) *gl;
				if (!gl) gl = mpt_config_global(0);
				if (!gl || MPT_metatype_convert(gl, MPT_ENUM(TypeConfigPtr), &cfg) < 0 || !cfg) { puts("bad-op"); continue; }
			}
			if (op[0] == 'd') {
				int isnull = !strcmp(drv_w[3], "null");
				if (!isnull && strcmp(drv_w[3], "empty")) { puts("bad-op"); continue; }
				r = cfg->_vptr->remove(cfg, isnull ? 0 : &p);
				result_n(r < 0 ? "refused" : "ok", r);
			}
			else if (op[0] == 's') {
				const char *v;
				MPT_STRUCT(value) d = MPT_VALUE_INIT('s', &v);
				if (!(vtxt = get_text(drv_w[3], &vlen))) { puts("bad-op"); continue; }
				v = vtxt;
				r = cfg->_vptr->assign(cfg, &p, &d);
				result(r < 0 ? "refused" : "ok", r < 0 ? drv_errname(r) : "0");
				free(vtxt);
			}
			else {
				struct got got = { 0, 0 };
				static char buf[4200];
				r = cfg->_vptr->query(cfg, &p, get_value, &got);
				if (r < 0) result("absent", drv_errname(r));
				else if (!got.txt) result("val=null", "0");
				else if (got.len > 2000) result("val=?long", "0");
				else { strcpy(buf, "val="); hex_into(buf + 4, (const uint8_t *) got.txt, got.len); result(buf, "0"); }
			}
		}
		else if (!strcmp(op, "failsize") && drv_nw == 3) {
			size_t n = 0;
			if (drv_parse_nat(drv_w[2], &n) || n < 2 || n > 70000) { puts("bad-op"); continue; }
			fail_size = n;
			result("ok", "-");
		}
		else if (!strcmp(op, "has") && drv_nw == 5) {
			/* existence only: no handler */
			MPT_STRUCT(path) p = MPT_PATH_INIT;
			cfg = get_tree(drv_w[2], &kind);
			ptxt = get_text(drv_w[3], &plen);
			if (kind < 0 || !ptxt || get_char(drv_w[4], &sep)) { puts("bad-op"); free(ptxt); continue; }
			p.sep = sep; p.assign = 0;
			mpt_path_set(&p, ptxt, -1);
			if (kind == 1) r = (mpt_node_query(root, &p) && !p.len) ? 0 : -1;
			else r = mpt_config_query(cfg, &p, 0, 0);
			result(r < 0 ? "absent" : "present", "-");
			free(ptxt);
		}
		else if (!strcmp(op, "del") && drv_nw == 5) {
			cfg = get_tree(drv_w[2], &kind);
			ptxt = get_text(drv_w[3], &plen);
			if (kind < 0 || kind == 1 || !ptxt || get_char(drv_w[4], &sep)) { puts("bad-op"); free(ptxt); continue; }
			r = mpt_config_set(cfg, ptxt, 0, sep, 0);
			result_n(r < 0 ? "refused" : "ok", r);
			free(ptxt);
		}
		else if (!strcmp(op, "get") && drv_nw == 5) {
			MPT_STRUCT(path) p = MPT_PATH_INIT;
			struct got got = { 0, 0 };
			static char buf[4200];
			cfg = get_tree(drv_w[2], &kind);
			ptxt = get_text(drv_w[3], &plen);
			if (kind < 0 || !ptxt || get_char(drv_w[4], &sep)) { puts("bad-op"); free(ptxt); continue; }
			p.sep = sep; p.assign = 0;
			mpt_path_set(&p, ptxt, -1);
			if (kind == 1) {
				MPT_STRUCT(node) *n = mpt_node_query(root, &p);
				if (!n || p.len) r = MPT_ERROR(MissingData);
				else r = n->_meta ? get_value(&got, (MPT_INTERFACE(convertable) *) n->_meta, 0) : MPT_ERROR(MissingData);
			} else {
				r = mpt_config_query(cfg, &p, get_value, &got);
				if (kind == 0 && r >= 0 && sep == '.' && got.txt) {
					/* the documented front end mpt_config_get(.., 's', ..) must return the same text whenever it returns
					 * one; it may only decline (BadType) for values of 250 bytes and more, which mpt_meta_new stores as a
					 * buffer metatype that has a character-vector form only (read like mpt_convertable_data does) */
					const char *t2 = 0;
					int r2 = mpt_config_get(0, ptxt, 's', &t2);
					if (r2 >= 0 ? (!t2 || strlen(t2) != got.len || memcmp(t2, got.txt, got.len)) : (got.len < 250 || r2 != MPT_ERROR(BadType))) {
						got.txt = "?get-differs"; got.len = 12;
					}
				}
			}
			if (r < 0) result("absent", drv_errname(r));
			else if (!got.txt) result("val=null", "0");
			else if (got.len > 2000) result("val=?long", "0");
			else { strcpy(buf, "val="); hex_into(buf + 4, (const uint8_t *) got.txt, got.len); result(buf, "0"); }
			free(ptxt);
		}
		else if ((!strcmp(op, "bset") && drv_nw == 5) || (!strcmp(op, "bget") && drv_nw == 4)) {
			/* binary length mode path (built with addchar/valid/add) on the global tree ('-') or the private list ('r') */
			MPT_STRUCT(path) p = MPT_PATH_INIT;
			char *save = 0, *tok;
			int ok = 1, isset = op[1] == 's';
			static char buf[4200];
			struct got got = { 0, 0 };
			get_tree(drv_w[2], &kind);
			if (kind != 0 && kind != 1) { puts("bad-op"); continue; }
			if (isset && !(vtxt = get_text(drv_w[4], &vlen))) { puts("bad-op"); continue; }
			p.flags = MPT_PATHFLAG(SepBinary);
			for (tok = strtok_r(drv_w[3], ",", &save); tok; tok = strtok_r(0, ",", &save)) {
				char *e = get_text(tok, &plen);
				size_t i;
				if (!e || !plen || plen > 255) { ok = 0; free(e); break; }
				for (i = 0; i < plen; i++) {
					if (mpt_path_addchar(&p, (uint8_t) e[i]) < 0 || mpt_path_valid(&p) < 0) ok = 0;
				}
				if (mpt_path_add(&p, (int) plen) < 0) ok = 0;
				free(e);
			}
			if (!ok) { mpt_path_fini(&p); free(vtxt); puts("bad-op"); continue; }
			if (isset) {
				const char *v = vtxt;
				MPT_STRUCT(value) d = MPT_VALUE_INIT('s', &v);
				if (kind == 1) {
					result(mpt_node_assign(&root, &p, &d) ? "ok" : "refused", "node");
				} else {
					MPT_INTERFACE(metatype) *gl = mpt_config_global(0);
					MPT_INTERFACE(config) *gc = 0;
					if (!gl || MPT_metatype_convert(gl, MPT_ENUM(TypeConfigPtr), &gc) < 0 || !gc) r = MPT_ERROR(BadOperation);
					else r = gc->_vptr->assign(gc, &p, &d);
					result(r < 0 ? "refused" : "ok", r < 0 ? drv_errname(r) : "0");
				}
			} else {
				if (kind == 1) {
					MPT_STRUCT(path) q = p;
					MPT_STRUCT(node) *n = mpt_node_query(root, &q);
					if (!n || q.len) r = MPT_ERROR(MissingData);
					else r = n->_meta ? get_value(&got, (MPT_INTERFACE(convertable) *) n->_meta, 0) : MPT_ERROR(MissingData);
				} else {
					r = mpt_config_query(0, &p, get_value, &got);
				}
				if (r < 0) result("absent", drv_errname(r));
				else if (!got.txt) result("val=null", "0");
				else if (got.len > 2000) result("val=?long", "0");
				else { strcpy(buf, "val="); hex_into(buf + 4, (const uint8_t *) got.txt, got.len); result(buf, "0"); }
			}
			mpt_path_fini(&p);
			free(vtxt);
		}
		else if (!strcmp(op, "view") && (drv_nw == 4 || drv_nw == 5)) {
			/* g view <path-hex> <sep-hex> [<skip>|last]: the view is made from the whole path, from what is left after
			 * <skip> calls of mpt_path_next, or from the path reduced by mpt_path_last (offset > 0 in both cases) */
			MPT_STRUCT(path) p = MPT_PATH_INIT;
			size_t skip = 0, i;
			int last = drv_nw == 5 && !strcmp(drv_w[4], "last"), bad = 0;
			ptxt = get_text(drv_w[2], &plen);
			if (!ptxt || get_char(drv_w[3], &sep) || nviews >= MAXV || (drv_nw == 5 && !last && (drv_parse_nat(drv_w[4], &skip) || skip > 8))) { puts("bad-op"); free(ptxt); continue; }
			p.sep = sep; p.assign = 0;
			mpt_path_set(&p, ptxt, -1);
			for (i = 0; i < skip; i++) if (!p.len || mpt_path_next(&p) < 0) bad = 1;
			if (last && mpt_path_last(&p) < 0) bad = 1;
			if (bad || !p.len) { result("unbuilt", "-"); free(ptxt); continue; }
			if (!(views[nviews] = mpt_config_global(&p))) result("refused", "null");
			else result_n("ok", nviews++);
			free(ptxt);
		}
		else if (!strcmp(op, "split") && drv_nw == 5) {
			MPT_STRUCT(path) p = MPT_PATH_INIT;
			int asg, n, first = 1, cnt;
			ptxt = get_text(drv_w[2], &plen);
			if (!ptxt || get_char(drv_w[3], &sep) || get_char(drv_w[4], &asg)) { puts("bad-op"); free(ptxt); continue; }
			p.sep = sep; p.assign = asg;
			cnt = mpt_path_set(&p, ptxt, -1);
			strcpy(out, "elems=");
			while (p.len && (n = mpt_path_next(&p)) >= 0) {
				/* every step consumes the element and the one separator/terminator byte behind it */
				size_t start = p.off - (size_t) n - 1;
				if (p.off < (size_t) n + 1 || p.off > plen + 1) { strcat(out, "?outside"); break; }
				put_elems(out, sizeof(out), ptxt + start, (size_t) n, first);
				first = 0;
			}
			if (first) strcat(out, "none");
			{
				char ret[64];
				snprintf(ret, sizeof(ret), "%d", cnt);
				result(out, ret);
			}
			free(ptxt);
		}
		else if (!strcmp(op, "splitn") && drv_nw == 5) {
			/* explicit length: the text behind the range is not part of the path */
			MPT_STRUCT(path) p = MPT_PATH_INIT;
			int n, first = 1, cnt;
			size_t take;
			ptxt = get_text(drv_w[2], &plen);
			if (!ptxt || get_char(drv_w[3], &sep) || drv_parse_nat(drv_w[4], &take) || take > plen) { puts("bad-op"); free(ptxt); continue; }
			p.sep = sep; p.assign = 0;
			cnt = mpt_path_set(&p, ptxt, (int) take);
			strcpy(out, "elems=");
			while (p.len && (n = mpt_path_next(&p)) >= 0) {
				size_t start = p.off - (size_t) n - 1;
				if (p.off < (size_t) n + 1 || p.off > take + 1) { strcat(out, "?outside"); break; }
				put_elems(out, sizeof(out), ptxt + start, (size_t) n, first);
				first = 0;
			}
			if (first) strcat(out, "none");
			{
				char ret[64];
				snprintf(ret, sizeof(ret), "%d", cnt);
				result(out, ret);
			}
			free(ptxt);
		}
		else if (!strcmp(op, "last") && drv_nw == 5) {
			MPT_STRUCT(path) p = MPT_PATH_INIT;
			size_t skip, i;
			ptxt = get_text(drv_w[2], &plen);
			if (!ptxt || get_char(drv_w[3], &sep) || drv_parse_nat(drv_w[4], &skip)) { puts("bad-op"); free(ptxt); continue; }
			p.sep = sep; p.assign = 0;
			mpt_path_set(&p, ptxt, -1);
			for (i = 0; i < skip && p.len; i++) mpt_path_next(&p);
			if (!p.len) { result("last=none", "empty"); free(ptxt); continue; }
			r = mpt_path_last(&p);
			if (r < 0) result("refused", "neg");
			else if (p.off + (size_t) r > plen) result("last=?outside", "range");
			else {
				char ret[96];
				MPT_STRUCT(path) q;
				int n2;
				strcpy(out, "last=");
				put_elems(out, sizeof(out), ptxt + p.off, (size_t) r, 1);
				snprintf(ret, sizeof(ret), "%d off=%zu len=%zu first=%u", r, p.off, p.len, (unsigned) p.first);
				/* the reduced path must be a path of exactly that element */
				q = p;
				n2 = mpt_path_next(&q);
				strcat(out, " next=");
				if (n2 < 0) strcat(out, "none");
				else if (q.off < (size_t) n2 + 1 || q.off > plen + 1) strcat(out, "?outside");
				else put_elems(out, sizeof(out), ptxt + q.off - (size_t) n2 - 1, (size_t) n2, 1);
				strcat(out, q.len ? " rest=more" : " rest=0");
				result(out, ret);
			}
			free(ptxt);
		}
		else if (!strcmp(op, "rebuild") && drv_nw == 7 && (!strcmp(drv_w[2], "s") || !strcmp(drv_w[2], "b"))) {
			/* g rebuild <mode> <sep-hex> <elems> <skip> <elem-hex>: build, <skip> x next on the SAME path (offset > 0),
			 * del the last element, add <elem>, walk what is left */
			MPT_STRUCT(path) p = MPT_PATH_INIT, q;
			int bin = drv_w[2][0] == 'b', ok = 1, n, first = 1, dl;
			size_t skip = 0, i;
			char *save = 0, *tok, *e2;
			char ret[64];
			if (get_char(drv_w[3], &sep) || drv_parse_nat(drv_w[5], &skip) || skip > 8) { puts("bad-op"); continue; }
			if (!(e2 = get_text(drv_w[6], &vlen))) { puts("bad-op"); continue; }
			p.sep = sep; p.assign = 0;
			if (bin) p.flags = MPT_PATHFLAG(SepBinary);
			for (tok = strtok_r(drv_w[4], ",", &save); tok; tok = strtok_r(0, ",", &save)) {
				size_t el;
				char *e = get_text(tok, &el);
				if (!e) { ok = 0; break; }
				for (i = 0; i < el; i++) {
					if (mpt_path_addchar(&p, (uint8_t) e[i]) < 0 || mpt_path_valid(&p) < 0) ok = 0;
				}
				if (mpt_path_add(&p, (int) el) < 0) ok = 0;
				free(e);
			}
			for (i = 0; ok && i < skip; i++) if (!p.len || mpt_path_next(&p) < 0) ok = 0;
			if (!ok || !p.len) { mpt_path_fini(&p); free(e2); result("unbuilt", "-"); continue; }
			dl = mpt_path_del(&p);
			for (i = 0; i < vlen; i++) {
				if (mpt_path_addchar(&p, (uint8_t) e2[i]) < 0 || mpt_path_valid(&p) < 0) ok = 0;
			}
			r = mpt_path_add(&p, (int) vlen);
			free(e2);
			snprintf(out, sizeof(out), "del=%d add=%s elems=", dl, r < 0 ? "E" : "+");
			q = p;
			while (q.len && (n = mpt_path_next(&q)) >= 0) {
				size_t start = q.off - (size_t) n - (bin ? 2 : 1);
				put_elems(out, sizeof(out), q.base + start, (size_t) n, first);
				first = 0;
			}
			if (first) strcat(out, "none");
			snprintf(ret, sizeof(ret), "off=%zu len=%zu", p.off, p.len);
			mpt_path_fini(&p);
			result(out, ret);
		}
		else if (!strcmp(op, "bview") && drv_nw == 3) {
			/* g bview <elems>: a view whose base is a BINARY length mode path (built with addchar/valid/add) */
			MPT_STRUCT(path) p = MPT_PATH_INIT;
			char *save = 0, *tok;
			int ok = 1;
			size_t i;
			if (nviews >= MAXV) { puts("bad-op"); continue; }
			p.flags = MPT_PATHFLAG(SepBinary);
			for (tok = strtok_r(drv_w[2], ",", &save); tok; tok = strtok_r(0, ",", &save)) {
				size_t el;
				char *e = get_text(tok, &el);
				if (!e || !el || el > 255) { ok = 0; free(e); break; }
				for (i = 0; i < el; i++) if (mpt_path_addchar(&p, (uint8_t) e[i]) < 0 || mpt_path_valid(&p) < 0) ok = 0;
				if (mpt_path_add(&p, (int) el) < 0) ok = 0;
				free(e);
			}
			if (!ok || !p.len) { mpt_path_fini(&p); puts("bad-op"); continue; }
			if (!(views[nviews] = mpt_config_global(&p))) result("refused", "null");
			else result_n("ok", nviews++);
			mpt_path_fini(&p);
		}
		else if (!strcmp(op, "reuse") && (drv_nw == 5 || (drv_nw == 6 && !strcmp(drv_w[5], "b")))) {
			/* g reuse <sep-hex> <elems> <text-hex>: a path built element by element (own buffer) is set anew from a plain
			 * string with mpt_path_set: the old buffer must be released, the walk gives the components of the text */
			MPT_STRUCT(path) p = MPT_PATH_INIT, q;
			int ok = 1, n, first = 1;
			size_t i;
			char *save = 0, *tok;
			if (get_char(drv_w[2], &sep)) { puts("bad-op"); continue; }
			if (!(ptxt = get_text(drv_w[4], &plen))) { puts("bad-op"); continue; }
			p.sep = sep; p.assign = 0;
			if (drv_nw == 6) p.flags = MPT_PATHFLAG(SepBinary);   /* first use of the object: binary length mode */
			for (tok = strtok_r(drv_w[3], ",", &save); tok; tok = strtok_r(0, ",", &save)) {
				size_t el;
				char *e = get_text(tok, &el);
				if (!e) { ok = 0; break; }
				for (i = 0; i < el; i++) if (mpt_path_addchar(&p, (uint8_t) e[i]) < 0 || mpt_path_valid(&p) < 0) ok = 0;
				if (mpt_path_add(&p, (int) el) < 0) ok = 0;
				free(e);
			}
			if (!ok) { mpt_path_fini(&p); free(ptxt); puts("bad-op"); continue; }
			mpt_path_set(&p, ptxt, -1);
			strcpy(out, "elems=");
			q = p;
			while (q.len && (n = mpt_path_next(&q)) >= 0) {
				size_t start = q.off - (size_t) n - 1;
				put_elems(out, sizeof(out), q.base + start, (size_t) n, first);
				first = 0;
			}
			if (first) strcat(out, "none");
			mpt_path_fini(&p);
			free(ptxt);
			result(out, "-");
		}
		else if (!strcmp(op, "extend") && drv_nw == 6) {
			/* g extend <sep-hex> <text-hex> <skip> <elems>: path from a plain string (no own buffer), <skip> x next,
			 * then further elements added character by character (first character moves the data to an own buffer), walk */
			MPT_STRUCT(path) p = MPT_PATH_INIT, q;
			int ok = 1, n, first = 1;
			size_t skip = 0, i;
			char *save = 0, *tok;
			char ret[64];
			if (get_char(drv_w[2], &sep) || drv_parse_nat(drv_w[4], &skip) || skip > 8) { puts("bad-op"); continue; }
			if (!(ptxt = get_text(drv_w[3], &plen))) { puts("bad-op"); continue; }
			p.sep = sep; p.assign = 0;
			mpt_path_set(&p, ptxt, -1);
			for (i = 0; ok && i < skip; i++) if (!p.len || mpt_path_next(&p) < 0) ok = 0;
			if (!ok) { free(ptxt); result("unbuilt", "-"); continue; }
			strcpy(out, "add=");
			for (tok = strtok_r(drv_w[5], ",", &save); tok; tok = strtok_r(0, ",", &save)) {
				size_t el;
				char *e = get_text(tok, &el);
				if (!e) { ok = 0; break; }
				for (i = 0; i < el; i++) {
					if (mpt_path_addchar(&p, (uint8_t) e[i]) < 0 || mpt_path_valid(&p) < 0) ok = 0;
				}
				r = mpt_path_add(&p, (int) el);
				strcat(out, r < 0 ? "E" : "+");
				free(e);
			}
			if (!ok) { mpt_path_fini(&p); free(ptxt); puts("bad-op"); continue; }
			strcat(out, " elems=");
			q = p;
			while (q.len && (n = mpt_path_next(&q)) >= 0) {
				size_t start = q.off - (size_t) n - 1;
				put_elems(out, sizeof(out), q.base + start, (size_t) n, first);
				first = 0;
			}
			if (first) strcat(out, "none");
			snprintf(ret, sizeof(ret), "off=%zu len=%zu", p.off, p.len);
			mpt_path_fini(&p);
			free(ptxt);
			result(out, ret);
		}
		else if (!strcmp(op, "build") && drv_nw == 5 && (!strcmp(drv_w[2], "s") || !strcmp(drv_w[2], "b"))) {
			MPT_STRUCT(path) p = MPT_PATH_INIT, q;
			int bin = drv_w[2][0] == 'b', ok = 1, n, first = 1;
			char *save = 0, *tok;
			char ret[64];
			if (get_char(drv_w[3], &sep)) { puts("bad-op"); continue; }
			p.sep = sep; p.assign = 0;
			if (bin) p.flags = MPT_PATHFLAG(SepBinary);
			strcpy(out, "added=");
			for (tok = strtok_r(drv_w[4], ",", &save); tok; tok = strtok_r(0, ",", &save)) {
				char *e = get_text(tok, &vlen);
				size_t i;
				if (!e) { ok = 0; break; }
				for (i = 0; i < vlen; i++) {
					/* the parser's protocol: a character is kept by declaring it valid */
					if (mpt_path_addchar(&p, (uint8_t) e[i]) < 0 || mpt_path_valid(&p) < 0) ok = 0;
				}
				r = mpt_path_add(&p, (int) vlen);
				strcat(out, r < 0 ? "E" : "+");
				free(e);
			}
			if (!ok) { mpt_path_fini(&p); puts("bad-op"); continue; }
			/* walk the built path */
			q = p;
			strcat(out, " elems=");
			while (q.len && (n = mpt_path_next(&q)) >= 0) {
				size_t start = q.off - (size_t) n - (bin ? 2 : 1);
				put_elems(out, sizeof(out), q.base + start, (size_t) n, first);
				first = 0;
			}
			if (first) strcat(out, "none");
			/* last element of the whole path, and of the path after one consumed element */
			strcat(out, " last=");
			for (n = 0; n < 2; n++) {
				int l;
				q = p;
				if (n && (!q.len || mpt_path_next(&q) < 0)) { strcat(out, ",none"); continue; }
				if (!q.len) { strcat(out, n ? ",none" : "none"); continue; }
				l = mpt_path_last(&q);
				if (n) strcat(out, ",");
				if (l < 0) strcat(out, "E");
				else if (q.off + (size_t) l > p.off + p.len) strcat(out, "?outside");
				else put_elems(out, sizeof(out), q.base + q.off, (size_t) l, 1);
			}
			/* undo */
			strcat(out, " del=");
			first = 1;
			while (p.len && (n = mpt_path_del(&p)) >= 0) {
				char num[16];
				snprintf(num, sizeof(num), "%s%d", first ? "" : ",", n);
				strcat(out, num);
				first = 0;
			}
			snprintf(ret, sizeof(ret), "len=%zu first=%u", p.len, (unsigned) p.first);
			mpt_path_fini(&p);
			result(out, ret);
		}
		else if (!strcmp(op, "end") && drv_nw == 2) {
			int i;
			MPT_STRUCT(node) tmp = MPT_NODE_INIT;
			for (i = 0; i < nviews; i++) views[i]->_vptr->unref(views[i]);
			nviews = 0;
			if ((tmp.children = root)) {
				MPT_STRUCT(node) *n;
				for (n = root; n; n = n->next) n->parent = &tmp;
				mpt_node_clear(&tmp);
				root = 0;
			}
			mpt_config_set(0, 0, 0, '.', 0);   /* empty path: clear the global configuration */
			/* several scripts share a process: a leak is reported with the script that made it */
			result(__lsan_do_recoverable_leak_check() ? "leak" : "ok", "0");
		}
		else puts("bad-op");
	}
	return 0;
}
