/* line-protocol driver: the library's own metatype implementations as a reference-counted object kind of C15:
 * mpt_meta_geninfo (mptcore/meta/meta_geninfo.c) and mpt_meta_buffer (mptcore/array/meta_buffer.c).  Both are
 * UNSHAREABLE: addref reports failure (0), the one owner destroys the object with unref, clone makes a new one.
 * A buffer metatype holds a reference to the buffer of the array it was made from; here that is a harness buffer
 * with a logging vtable, so the reference it takes (creation, clone) and gives back (unref) is visible.
 *
 *   g begin
 *   g buf <count>             harness buffer, counter preset (the preset references are held by the harness)
 *   g new info | g new mbuf   mpt_meta_geninfo(8) / mpt_meta_buffer(&array naming the harness buffer)
 *   g addref <m>              the object's addref (must report 0)
 *   g take <m>                empty metatype handle: mpt_meta_reference_traits()->init(&h, &m)
 *   g wrap <m>                handle := m through mpt_data_converter(TypeMetaRef)
 *   g clone <m>               the object's clone
 *   g unref <m>               the owner gives the object up
 *   g drop                    traits->fini(&h)
 *   g end                     unref every living object
 * value words: decimal, "max", "max-1"
 */
#include "drv_util.h"
#include <errno.h>
#include "types.h"
#include "meta.h"
#include "array.h"
#include "convert.h"

#define NM 6
static struct { MPT_STRUCT(buffer) b; uint64_t room[4]; } hb;
static MPT_STRUCT(refcount) bref;
static int balive, bmade;
static int ev_add, ev_unref, ev_destroy, ev_dead;

static MPT_INTERFACE(metatype) *lm[NM];
static int lm_kind[NM], lm_alive[NM], nm;       /* kind 0 info, 1 mbuf */
static MPT_INTERFACE(metatype) *hnd;

static uint32_t hb_flags(const MPT_STRUCT(buffer) *b) { (void) b; return bref._val > 1 ? MPT_ENUM(BufferShared) : 0; }
static void hb_unref(MPT_STRUCT(buffer) *b)
{
	(void) b;
	ev_unref++;
	if (!balive) { ev_dead++; return; }
	if (mpt_refcount_lower(&bref)) return;
	balive = 0;
	ev_destroy++;
}
static uintptr_t hb_addref(MPT_STRUCT(buffer) *b)
{
	(void) b;
	ev_add++;
	if (!balive) { ev_dead++; return 0; }
	return mpt_refcount_raise(&bref);
}
static MPT_STRUCT(buffer) *hb_detach(MPT_STRUCT(buffer) *b, size_t len) { (void) len; return b; }
static const MPT_INTERFACE_VPTR(buffer) hb_ctl = { hb_flags, hb_unref, hb_addref, hb_detach };

static void put_count(uintptr_t v)
{
	if (v == UINTPTR_MAX) fputs("max", stdout);
	else if (v == UINTPTR_MAX - 1) fputs("max-1", stdout);
	else printf("%lu", (unsigned long) v);
}
static int parse_count(const char *w, uintptr_t *v)
{
	size_t n;
	if (!strcmp(w, "max")) { *v = UINTPTR_MAX; return 0; }
	if (!strcmp(w, "max-1")) { *v = UINTPTR_MAX - 1; return 0; }
	if (drv_parse_nat(w, &n)) return -1;
	*v = n;
	return 0;
}
static int idx_of(MPT_INTERFACE(metatype) *mt)
{
	for (int i = 0; i < nm; i++) if (lm[i] == mt && lm_alive[i]) return i;
	return 9;
}
static void result(const char *r, const char *iret)
{
	printf("R %s | C", r);
	if (bmade) {
		printf(" b=%s:", balive ? "A" : "D");
		put_count(bref._val);
		printf(":+%d-%d%s%s", ev_add, ev_unref, ev_destroy ? "D" : "", ev_dead ? "!" : "");
	}
	for (int i = 0; i < nm; i++) printf(" m%d=%s%s", i, lm_alive[i] ? "A" : "D", lm_kind[i] ? "mbuf" : "info");
	if (hnd) printf(" h=%d", idx_of(hnd)); else printf(" h=-");
	printf(" | I ret=%s\n", iret);
}
static void finish_script(void)
{
	hnd = 0;
	for (int i = 0; i < nm; i++) if (lm_alive[i]) { lm_alive[i] = 0; lm[i]->_vptr->unref(lm[i]); }
	nm = 0;
}
static int parse_m(const char *w)
{
	size_t n;
	if (drv_parse_nat(w, &n) || n >= (size_t) nm || !lm_alive[n]) return -1;
	return (int) n;
}
static int add_obj(MPT_INTERFACE(metatype) *mt, int kind)
{
	lm[nm] = mt; lm_kind[nm] = kind; lm_alive[nm] = 1;
	return nm++;
}

int main(void)
{
	static char line[4096];
	char buf[64];
	drv_init();
	while (fgets(line, sizeof(line), stdin)) {
		if (line[0] == '#' || line[0] == '\n') { fputs(line, stdout); continue; }
		drv_split(line);
		if (drv_nw < 2 || strcmp(drv_w[0], "g")) { puts("bad-op"); continue; }
		const char *op = drv_w[1];
		ev_add = ev_unref = ev_destroy = ev_dead = 0;
		if (!strcmp(op, "begin") && drv_nw == 2) {
			finish_script();
			bmade = 0; balive = 0;
			ev_add = ev_unref = ev_destroy = ev_dead = 0;
			printf("R ok | C - | I ret=0\n");
		}
		else if (!strcmp(op, "buf") && drv_nw == 3) {
			uintptr_t v;
			if (bmade || parse_count(drv_w[2], &v)) { puts("bad-op"); continue; }
			memset(&hb, 0, sizeof(hb));
			hb.b._vptr = &hb_ctl;
			*((size_t *) &hb.b._size) = sizeof(hb.room);
			hb.b._used = 0;
			bref._val = v;
			balive = 1; bmade = 1;
			result("ok", "0");
		}
		else if (!strcmp(op, "new") && drv_nw == 3) {
			MPT_INTERFACE(metatype) *mt;
			if (nm >= NM) { puts("bad-op"); continue; }
			if (!strcmp(drv_w[2], "info")) {
				if (!(mt = mpt_meta_geninfo(8))) { result("refused", "0"); continue; }
				snprintf(buf, sizeof(buf), "ok m=%d", add_obj(mt, 0));
				result(buf, "0");
			}
			else if (!strcmp(drv_w[2], "mbuf")) {
				MPT_STRUCT(array) a = MPT_ARRAY_INIT;
				if (!bmade) { puts("bad-op"); continue; }
				a._buf = &hb.b;   /* borrowed view: mpt_meta_buffer() takes its own reference */
				if (!(mt = mpt_meta_buffer(&a))) { result("refused", "0"); continue; }
				snprintf(buf, sizeof(buf), "ok m=%d", add_obj(mt, 1));
				result(buf, "0");
			}
			else puts("bad-op");
		}
		else if (!strcmp(op, "addref") && drv_nw == 3) {
			int m = parse_m(drv_w[2]);
			uintptr_t r;
			if (m < 0) { puts("bad-op"); continue; }
			r = lm[m]->_vptr->addref(lm[m]);
			snprintf(buf, sizeof(buf), "ret=%lu", (unsigned long) r);
			result(buf, "0");
		}
		else if (!strcmp(op, "take") && drv_nw == 3) {
			int m = parse_m(drv_w[2]), ret;
			if (m < 0 || hnd) { puts("bad-op"); continue; }
			ret = mpt_meta_reference_traits()->init(&hnd, &lm[m]);
			result(ret < 0 ? "refused" : "ok", ret < 0 ? drv_errname(ret) : "1");
		}
		else if (!strcmp(op, "wrap") && drv_nw == 3) {
			int m = parse_m(drv_w[2]), ret;
			MPT_TYPE(data_converter) conv = mpt_data_converter(MPT_ENUM(TypeMetaRef));
			if (m < 0 || !conv) { puts("bad-op"); continue; }
			ret = conv(&lm[m], MPT_ENUM(TypeMetaRef), &hnd);
			result(ret < 0 ? "refused" : "ok", ret < 0 ? drv_errname(ret) : "8");
		}
		else if (!strcmp(op, "clone") && drv_nw == 3) {
			int m = parse_m(drv_w[2]);
			MPT_INTERFACE(metatype) *mt;
			if (m < 0 || nm >= NM) { puts("bad-op"); continue; }
			if (!(mt = lm[m]->_vptr->clone(lm[m]))) { result("refused", "0"); continue; }
			snprintf(buf, sizeof(buf), "ok m=%d", add_obj(mt, lm_kind[m]));
			result(buf, "0");
		}
		else if (!strcmp(op, "unref") && drv_nw == 3) {
			int m = parse_m(drv_w[2]);
			if (m < 0) { puts("bad-op"); continue; }
			if (hnd == lm[m]) { puts("bad-op"); continue; }
			lm_alive[m] = 0;
			lm[m]->_vptr->unref(lm[m]);
			result("ok", "0");
		}
		else if (!strcmp(op, "drop") && drv_nw == 2) {
			mpt_meta_reference_traits()->fini(&hnd);
			hnd = 0;
			result("ok", "0");
		}
		else if (!strcmp(op, "end") && drv_nw == 2) {
			finish_script();
			result("ok", "0");
		}
		else puts("bad-op");
		fflush(stdout);
	}
	finish_script();
	return 0;
}
