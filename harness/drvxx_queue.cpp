/* line-protocol driver: mpt++ io::queue wrappers (C13).  Calls the real C++ methods in-process. */
extern "C" {
#include "drv_util.h"
}
#include <errno.h>
#include "queue.h"
#include "io.h"

using namespace mpt;

/* the queue under test is a pipe<uint16_t> instance (an io::queue with a reference count), so that both the
 * io::queue methods and pipe<T>::elements() of mpt++/io.h can be driven on the same ring state */
class xqueue : public mpt::pipe<uint16_t>::instance
{
public:
	xqueue() { }
	::mpt::queue &raw() { return _d; }
};
static xqueue *xq;

/* `xe` ops: an mpt::encode_queue (mpt++/queue.cpp) without encoder whose content is all finished data; trim(n)
 * removes n finished bytes at the front */
class xencq : public mpt::encode_queue
{
public:
	xencq() : mpt::encode_queue(0) { }
	void fill(size_t a, size_t b, const uint8_t *dat, size_t dlen)
	{
		free(base);
		base = a ? calloc(a, 1) : 0;
		max = a; off = b; len = dlen;
		for (size_t i = 0; i < dlen; i++) ((uint8_t *) base)[(b + i) % a] = dat[i];
		_state.done = dlen;
		_state.scratch = 0;
	}
	size_t finished() const { return _state.done; }
	~xencq() { free(base); base = 0; max = len = off = 0; }
};
static xencq *xe;
static void xe_result(const char *verdict, const char *ret)
{
	printf("R %s out=- | C ", verdict);
	if (!xe->len) fputc('-', stdout);
	for (size_t i = 0; i < xe->len; i++) {
		uint8_t b = ((uint8_t *) xe->base)[xe->max ? (xe->off + i) % xe->max : 0];
		drv_puthex(stdout, &b, 1);
	}
	printf(" | I ret=%s len=%zu max=%zu off=%zu\n", ret, xe->len, xe->max, xe->off);
}
static mpt::pipe<uint16_t> *xp;   /* holds the reference; its destructor pops everything and releases the instance */

static void put_content(void)
{
	::mpt::queue &q = xq->raw();
	if (!q.len) { fputc('-', stdout); return; }
	for (size_t i = 0; i < q.len; i++) {
		size_t p = q.max ? (q.off + i) % q.max : 0;
		uint8_t b = ((uint8_t *) q.base)[p];
		drv_puthex(stdout, &b, 1);
	}
}
static void result(const char *verdict, const uint8_t *out, size_t outlen, const char *ret)
{
	::mpt::queue &q = xq->raw();
	printf("R %s out=", verdict);
	drv_puthex(stdout, out, outlen);
	printf(" | C ");
	put_content();
	printf(" | I ret=%s len=%zu max=%zu off=%zu\n", ret, q.len, q.max, q.off);
}

int main(void)
{
	static char line[1 << 20];
	drv_init();
	while (fgets(line, sizeof(line), stdin)) {
		if (line[0] == '#' || line[0] == '\n') { fputs(line, stdout); continue; }
		drv_split(line);
		if (drv_nw < 2 || (strcmp(drv_w[0], "xq") && strcmp(drv_w[0], "xe"))) { puts("bad-op"); continue; }
		const char *op = drv_w[1];
		size_t a, b;
		uint8_t *dat = 0; size_t dlen = 0; int isnull = 0;
		if (!strcmp(drv_w[0], "xe")) {
			if (!strcmp(op, "new") && drv_nw == 5) {
				if (drv_parse_nat(drv_w[2], &a) || drv_parse_nat(drv_w[3], &b) || drv_parse_data(drv_w[4], &dat, &dlen, &isnull) || isnull
				    || b > a || dlen > a) { puts("bad-op"); free(dat); continue; }
				delete xe;
				xe = new xencq();
				xe->fill(a, b, dat, dlen);
				free(dat);
				xe_result("ok", "0");
			}
			else if (!strcmp(op, "trim") && drv_nw == 3 && xe) {
				if (drv_parse_nat(drv_w[2], &a)) { puts("bad-op"); continue; }
				bool r = xe->trim(a);
				xe_result(r ? "ok" : "refused", r ? "true" : "false");
			}
			else puts("bad-op");
			continue;
		}
		if (!strcmp(op, "new") && drv_nw == 5) {
			/* xq new <max> <off> <fill>: capacity max (multiple of 8 or 0), start offset, content */
			if (drv_parse_nat(drv_w[2], &a) || drv_parse_nat(drv_w[3], &b) || drv_parse_data(drv_w[4], &dat, &dlen, &isnull) || isnull
			    || b > a || dlen > a) { puts("bad-op"); free(dat); continue; }
			delete xp;
			xq = new xqueue();
			xp = new mpt::pipe<uint16_t>(xq);
			::mpt::queue &q = xq->raw();
			q.base = a ? calloc(a, 1) : 0;
			q.max = a; q.off = b; q.len = dlen;
			for (size_t i = 0; i < dlen; i++) ((uint8_t *) q.base)[(b + i) % a] = dat[i];
			free(dat);
			result("ok", 0, 0, "0");
			continue;
		}
		if (!xq) { puts("bad-op"); continue; }
		::mpt::queue &q = xq->raw();
		if ((!strcmp(op, "push") || !strcmp(op, "unshift")) && drv_nw == 3) {
			if (drv_parse_data(drv_w[2], &dat, &dlen, &isnull) || isnull) { puts("bad-op"); free(dat); continue; }
			/* the wrapper grows the storage itself (prepare, then push) */
			bool r = (*op == 'p') ? xq->push(dat, dlen) : xq->unshift(dat, dlen);
			free(dat);
			result(r ? "ok" : "refused", 0, 0, r ? "true" : "false");
		}
		else if ((!strcmp(op, "pop") || !strcmp(op, "shift")) && (drv_nw == 3 || (drv_nw == 4 && !strcmp(drv_w[3], "nodst")))) {
			if (drv_parse_nat(drv_w[2], &a)) { puts("bad-op"); continue; }
			int nodst = drv_nw == 4;
			uint8_t *buf = nodst ? 0 : (uint8_t *) malloc(a ? a : 1);
			bool r = (*op == 'p') ? xq->pop(buf, a) : xq->shift(buf, a);
			result(r ? "ok" : "refused", buf, (r && buf) ? a : 0, r ? "true" : "false");
			free(buf);
		}
		else if (!strcmp(op, "write") && drv_nw == 4) {
			/* xq write <part> <hex>: len = bytes/part elements */
			/* data `zero:N` = null data pointer: N zero bytes in elements of <part> */
			if (drv_parse_nat(drv_w[2], &a) || !a || drv_parse_data(drv_w[3], &dat, &dlen, &isnull) || dlen % a) { puts("bad-op"); free(dat); continue; }
			ssize_t r = xq->write(dlen / a, isnull ? 0 : dat, a);
			char buf[32];
			snprintf(buf, sizeof(buf), "%zd", r);
			free(dat);
			/* the number of elements accepted is what the caller learns */
			char v[48];
			snprintf(v, sizeof(v), "ok n=%zd", r);
			result(v, 0, 0, buf);
		}
		else if (!strcmp(op, "read") && (drv_nw == 4 || (drv_nw == 5 && !strcmp(drv_w[4], "nodst")))) {
			/* xq read <len> <part> [nodst] */
			if (drv_parse_nat(drv_w[2], &a) || drv_parse_nat(drv_w[3], &b) || !b || a > 4096 || b > 4096) { puts("bad-op"); continue; }
			int nodst = drv_nw == 5;
			uint8_t *buf = nodst ? 0 : (uint8_t *) malloc(a * b ? a * b : 1);
			ssize_t r = xq->read(a, buf, b);
			char v[48], i[32];
			snprintf(v, sizeof(v), "ok n=%zd", r);
			snprintf(i, sizeof(i), "%zd", r);
			result(v, buf, (r > 0 && buf) ? (size_t) r * b : 0, i);
			free(buf);
		}
		else if (!strcmp(op, "peek") && drv_nw == 3) {
			if (drv_parse_nat(drv_w[2], &a)) { puts("bad-op"); continue; }
			span<const uint8_t> s = xq->peek(a);
			char i[32];
			snprintf(i, sizeof(i), "%zu", (size_t) s.size());
			/* observable: the bytes asked for (or all that is there) */
			size_t want = a ? a : q.len;
			if (want > q.len) want = q.len;
			if (s.size() < want) result("short", s.begin(), s.size(), i);
			else result("ok", s.begin(), want, i);
		}
		else if (!strcmp(op, "elements") && drv_nw == 2) {
			/* pipe<uint16_t>::elements(): a view of all stored elements */
			span<uint16_t> e = xp->elements();
			char i[32];
			snprintf(i, sizeof(i), "%zu", (size_t) e.size());
			result("ok", (const uint8_t *) e.begin(), e.size() * sizeof(uint16_t), i);
		}
		else puts("bad-op");
	}
	delete xp;
	delete xe;
	return 0;
}
