/* line-protocol driver: mpt::reference_array<T> (mptcore/array.h) — an array of references to counted objects whose
 * element type has a destructor but no copy constructor (C05, fourth part).  Same `r` line format as drv_refs.c;
 * the handles are reference_array<Obj> objects, Obj is a harness class with an intrusive reference count that is
 * larger than a pointer (the element of the array is the reference, not the object).
 * After every op: reference counts of the objects equal the references stored in reachable buffers, nothing is
 * released twice, nothing is left alive at the end. */
extern "C" {
#include "drv_util.h"
extern size_t __sanitizer_get_current_allocated_bytes(void);
}
#include <errno.h>
#include <limits.h>
#include <new>
#include "array.cpp"
#include "identifier.cpp"
#include "types.h"
#include "array.h"

using namespace mpt;

static char evlog[1 << 14];
static size_t evlen;
static char illegal[128];
static void ev(const char *fmt, unsigned a)
{
	if (evlen + 40 > sizeof(evlog)) return;
	if (evlen) evlog[evlen++] = ',';
	evlen += snprintf(evlog + evlen, 32, fmt, a);
}
static void mark_illegal(const char *what, unsigned id)
{
	if (!illegal[0]) snprintf(illegal, sizeof(illegal), "%s:%u", what, id);
}

struct Obj
{
	unsigned id;
	int sharable;
	uintptr_t refs;
	int dead;
	uint64_t pad[2];       /* sizeof(Obj) differs from sizeof(reference<Obj>) */
	uintptr_t addref()
	{
		if (dead) { mark_illegal("addref-dead", id); return 0; }
		if (!sharable) { ev("n%u", id); return 0; }
		ev("a%u", id);
		return ++refs;
	}
	void unref()
	{
		if (dead || !refs) { ev("u%u!", id); mark_illegal("unref-dead", id); return; }
		if (--refs) { ev("u%u", id); return; }
		ev("d%u", id);
		dead = 1;
	}
};
#define MAXOBJ 256
static Obj *objs[MAXOBJ];
static unsigned nobj;
static Obj *obj_new(int sharable)
{
	if (nobj >= MAXOBJ) return 0;
	Obj *o = (Obj *) calloc(1, sizeof(*o));
	o->id = nobj + 1; o->sharable = sharable; o->refs = 1;
	objs[nobj++] = o;
	ev("m%u", o->id);
	return o;
}
static Obj *obj_of(const void *p)
{
	for (unsigned i = 0; i < nobj; i++) if ((const void *) objs[i] == p) return objs[i];
	return 0;
}

class XR : public reference_array<Obj>
{
public:
	XR() { }
	XR(const XR &a) : reference_array<Obj>(a) { }
	buffer *wb() { return this->_ref.instance(); }
	const buffer *b() const
	{
		const buffer *p = this->_ref.instance();
		return (p && p->get_flags() == (BufferImmutable | BufferShared | BufferNoCopy)) ? 0 : p;
	}
};
/* item_array<Obj>: unique array of named references (item<T> = reference<T> + identifier) */
class XI : public item_array<Obj>
{
public:
	XI() { }
	const buffer *b() const
	{
		const buffer *p = this->_ref.instance();
		return (p && p->get_flags() == (BufferImmutable | BufferShared | BufferNoCopy)) ? 0 : p;
	}
};
#define NH 6
static XR *hs[NH];
static XI *is[NH];
static int nh;
static int mode;   /* 0 = undecided, 1 = reference_array handles, 2 = item_array handles (per script) */
static const buffer *buf_of(int h)
{
	if (mode == 2) return is[h] ? is[h]->b() : 0;
	return hs[h] ? hs[h]->b() : 0;
}
static size_t stride(void) { return mode == 2 ? sizeof(item<Obj>) : sizeof(void *); }
static const void *elem_ptr(const uint8_t *e)
{
	if (mode == 2) return reinterpret_cast<const item<Obj> *>(e)->instance();
	return *(void * const *) e;
}
static size_t heap0;

static uintptr_t ref_of(const buffer *b) { return *(const uintptr_t *) ((const uint8_t *) b - 32); }
static size_t used_of(const buffer *b) { return ((const size_t *) b)[3]; }

#define MAXB 16
static const buffer *seen[MAXB];
static unsigned refs_found[MAXB];
static int nseen;
static unsigned obj_found[MAXOBJ];

static void check_all(int final)
{
	nseen = 0;
	memset(obj_found, 0, sizeof(obj_found));
	for (int h = 0; h < nh; h++) {
		const buffer *b = buf_of(h);
		int i;
		if (!b) continue;
		for (i = 0; i < nseen; i++) if (seen[i] == b) break;
		if (i < nseen) { refs_found[i]++; continue; }
		seen[nseen] = b; refs_found[nseen] = 1; nseen++;
		const uint8_t *d = (const uint8_t *) (b + 1);
		for (size_t p = 0; p + stride() <= used_of(b); p += stride()) {
			const void *ptr = elem_ptr(d + p);
			Obj *o = ptr ? obj_of(ptr) : 0;
			if (ptr && !o) mark_illegal("stored-unknown", 0);
			else if (o) { if (o->dead) mark_illegal("stored-dead-obj", o->id); obj_found[o->id - 1]++; }
		}
	}
	for (int i = 0; i < nseen; i++) if (ref_of(seen[i]) != refs_found[i]) mark_illegal("buf-refcount", (unsigned) i);
	for (unsigned i = 0; i < nobj; i++) {
		if (objs[i]->dead) continue;
		if (objs[i]->refs != obj_found[i]) mark_illegal(final ? "obj-alive-at-end" : "obj-refcount", i + 1);
	}
}
static void put_state(const char *verdict, const char *ret, int final)
{
	check_all(final);
	if (final && __sanitizer_get_current_allocated_bytes() - heap0 != nobj * sizeof(Obj)) mark_illegal("heap-at-end", 0);
	printf("R %s | C %s ev=%s", illegal[0] ? illegal : "legal", verdict, evlen ? evlog : "-");
	evlen = 0; evlog[0] = 0;
	for (int h = 0; h < nh; h++) {
		const buffer *b = buf_of(h);
		printf(" h%d=", h);
		if (!b) { fputc('-', stdout); continue; }
		fputs("U[", stdout);
		const uint8_t *d = (const uint8_t *) (b + 1);
		int first = 1;
		for (size_t p = 0; p + stride() <= used_of(b); p += stride()) {
			const void *ptr = elem_ptr(d + p);
			Obj *o = ptr ? obj_of(ptr) : 0;
			if (!first) fputc(' ', stdout);
			first = 0;
			if (!ptr) fputc('-', stdout); else if (!o) fputc('?', stdout); else printf("o%u", o->id);
		}
		fputc(']', stdout);
	}
	printf(" | I ret=%s bufs=", ret);
	if (!nseen) fputc('-', stdout);
	for (int i = 0; i < nseen; i++) printf("%sr%zu", i ? "," : "", (size_t) ref_of(seen[i]));
	printf(" objs=");
	if (!nobj) fputc('-', stdout);
	for (unsigned i = 0; i < nobj; i++) {
		if (i) fputc(',', stdout);
		if (objs[i]->dead) printf("o%u:x", i + 1); else printf("o%u:r%zu", i + 1, (size_t) objs[i]->refs);
	}
	fputc('\n', stdout);
}
static void drop_all(void)
{
	for (int h = 0; h < NH; h++) { delete hs[h]; hs[h] = 0; delete is[h]; is[h] = 0; }
}
static void reset_all(void)
{
	drop_all();
	for (unsigned i = 0; i < nobj; i++) free(objs[i]);
	nobj = 0; evlen = 0; evlog[0] = 0; illegal[0] = 0;
}
static int handle_arg(const char *s)
{
	size_t v;
	if (s[0] != 'h' || drv_parse_nat(s + 1, &v) || v >= (size_t) nh) return -1;
	return (int) v;
}
static int long_arg(const char *s, long *v)
{
	size_t a;
	if (s[0] == '-' && s[1]) { if (drv_parse_nat(s + 1, &a) || a > 1000) return -1; *v = -(long) a; return 0; }
	if (drv_parse_nat(s, &a) || a > 1000) return -1;
	*v = (long) a; return 0;
}

#define BAD do { puts("bad-op"); goto next; } while (0)
#define RES(v, r) do { snprintf(r_verdict, sizeof(r_verdict), "%s", (v)); snprintf(r_ret, sizeof(r_ret), "%s", (r)); r_have = 1; } while (0)

int main(void)
{
	static char line[1 << 16];
	static char outbuf[1 << 16];
	char r_verdict[16], r_ret[32];
	int r_have = 0, r_final = 0;
	drv_init();
	setvbuf(stdout, outbuf, _IOLBF, sizeof(outbuf));
	{ buffer *b = _mpt_buffer_alloc(1, 0); b->unref(); }
	{ XR probe; XI probe2; }   /* function-local statics of the templates */
	while (fgets(line, sizeof(line), stdin)) {
		size_t a, b;
		long pos;
		int h, h2;
		if (line[0] == '#' || line[0] == '\n') {
			if (line[0] == '#') reset_all();
			fputs(line, stdout);
			continue;
		}
		drv_split(line);
		if (drv_nw < 2 || strcmp(drv_w[0], "r")) { puts("bad-op"); continue; }
		const char *op = drv_w[1];
		r_have = 0; r_final = 0;
		if (!strcmp(op, "handles") && drv_nw == 3) {
			if (drv_parse_nat(drv_w[2], &a) || a < 1 || a > NH) BAD;
			reset_all();
			nh = (int) a;
			for (int i = 0; i < nh; i++) { hs[i] = new XR; is[i] = new XI; }
			mode = 0;
			heap0 = __sanitizer_get_current_allocated_bytes();
			RES("ok", "-");
			goto next;
		}
		if (!nh) BAD;
		if (!strcmp(op, "end") && drv_nw == 2) {
			for (int i = 0; i < nh; i++) { delete hs[i]; hs[i] = new XR; delete is[i]; is[i] = new XI; }
			RES("ok", "-");
			r_final = 1;
			goto next;
		}
		if (drv_nw < 3 || (h = handle_arg(drv_w[2])) < 0) BAD;
		if (!strcmp(op, "rdrop") && drv_nw == 3) {
			delete hs[h]; hs[h] = new XR;
			delete is[h]; is[h] = new XI;
			RES("ok", "-");
		}
		else if (!strcmp(op, "rclone") && drv_nw == 4) {         /* h = h2 */
			if ((h2 = handle_arg(drv_w[3])) < 0) BAD;
			*static_cast<reference_array<Obj> *>(hs[h]) = *hs[h2];
			*static_cast<item_array<Obj> *>(is[h]) = *is[h2];
			RES("ok", "-");
		}
		else if (!strcmp(op, "iappend") && drv_nw == 5) {        /* item_array::append(new object, name of the given length | no name) */
			char *name = 0;
			if (mode == 1 || drv_parse_nat(drv_w[3], &b) || b > 1) BAD;
			if (strcmp(drv_w[4], "-")) {
				if (drv_parse_nat(drv_w[4], &a) || a > 100000) BAD;
				name = (char *) malloc(a + 1);
				memset(name, 'n', a); name[a] = 0;
			}
			mode = 2;
			Obj *o = obj_new((int) b);
			item<Obj> *it = is[h]->append(o, name, name ? (int) a : -1);
			free(name);
			if (it) RES("ok", "true");
			else { o->unref(); RES("refused", "false"); }
		}
		else if (!strcmp(op, "iclear") && drv_nw == 4) {         /* the item at pos gives up its instance (in place) */
			if (mode != 2 || long_arg(drv_w[3], &pos)) BAD;
			item<Obj> *it = is[h]->get(pos);
			if (!it) RES("refused", "null");
			else { it->set_instance(0); RES("ok", "-"); }
		}
		else if (!strcmp(op, "icount") && drv_nw == 3) {         /* count(): items that hold an instance */
			char ret[24];
			long n = 0, c;
			if (mode != 2) BAD;
			c = is[h]->count();
			if (const buffer *ib = is[h]->b()) {
				const uint8_t *d = (const uint8_t *) (ib + 1);
				for (size_t p = 0; p + stride() <= used_of(ib); p += stride()) if (elem_ptr(d + p)) n++;
			}
			if (c != n) mark_illegal("item-count", (unsigned) c);
			snprintf(ret, sizeof(ret), "%ld", c);
			RES("ok", ret);
		}
		else if (!strcmp(op, "icompact") && drv_nw == 3) {       /* compact(): empty items are removed (in place) */
			long holes = 0;
			if (mode != 2) BAD;
			if (const buffer *ib = is[h]->b()) {
				const uint8_t *d = (const uint8_t *) (ib + 1);
				for (size_t p = 0; p + stride() <= used_of(ib); p += stride()) if (!elem_ptr(d + p)) holes++;
			}
			if (!is[h]->compact()) {
				/* "nothing to do" is the only reason to answer false */
				if (holes) mark_illegal("compact-refused", (unsigned) holes);
				RES("refused", "false");
			}
			else {
				if (!holes) mark_illegal("compact-nothing", 0);
				if (const buffer *ib = is[h]->b()) {
					const uint8_t *d = (const uint8_t *) (ib + 1);
					for (size_t p = 0; p + stride() <= used_of(ib); p += stride()) if (!elem_ptr(d + p)) mark_illegal("compact-hole", (unsigned) (p / stride()));
				}
				RES("ok", "true");
			}
		}
		else if (mode == 2) BAD;
		else if (!strcmp(op, "rins") && drv_nw == 5) {           /* insert(pos, new object) */
			if (long_arg(drv_w[3], &pos) || drv_parse_nat(drv_w[4], &b) || b > 1) BAD;
			mode = 1;
			Obj *o = obj_new((int) b);
			/* an array nobody shares accepts every position that is not in front of its start */
			const buffer *pb = hs[h]->b();
			int must = (!pb || ref_of(pb) < 2) && (pos >= 0 || (pb && (size_t) -pos <= used_of(pb) / sizeof(void *)));
			if (hs[h]->insert(pos, o)) RES("ok", "true");
			else { if (must) mark_illegal("insert-refused", o->id); o->unref(); RES("refused", "false"); }
		}
		else if (!strcmp(op, "rset") && drv_nw == 5) {           /* set(pos, new object) */
			if (long_arg(drv_w[3], &pos) || drv_parse_nat(drv_w[4], &b) || b > 1) BAD;
			mode = 1;
			Obj *o = obj_new((int) b);
			if (hs[h]->set(pos, o)) RES("ok", "true");
			else { o->unref(); RES("refused", "false"); }
		}
		else if (!strcmp(op, "bcopy") && drv_nw == 4) {          /* buffer::copy(): content of h2's buffer into the buffer of h, in place */
			if ((h2 = handle_arg(drv_w[3])) < 0 || !hs[h]->b() || !hs[h2]->b()) BAD;
			mode = 1;
			if (hs[h]->wb()->copy(*hs[h2]->b())) RES("ok", "true");
			else RES("refused", "false");
		}
		else if (!strcmp(op, "rclear") && drv_nw == 3) {
			char ret[24];
			mode = 1;
			snprintf(ret, sizeof(ret), "%ld", hs[h]->clear());
			RES("ok", ret);
		}
		else BAD;
next:
		if (r_have) { r_have = 0; put_state(r_verdict, r_ret, r_final); }
	}
	reset_all();
	return 0;
}
