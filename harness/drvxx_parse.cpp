/* line-protocol driver: mpt++/parse.cpp — mpt::config_parser (open / set_format / read / reset) for C08, C09.
 * Calls the real C++ methods in-process on ONE parser object per script.
 *
 *   x new <sect> <opt>                new config_parser, name flag words (the class has no setter: a derived
 *                                     class of the driver stores them into the protected context)
 *   x fmt <hex|null>                  set_format(description)
 *   x file <hex>                      (re)write the input file of this process
 *   x render <style> <decor> <forest> <hex>   the same, <hex> = text of <forest> by the reference writer
 *   x open                            open(file)
 *   x read [log]                      read(target[, logger of the driver])
 *   x expect <forest>                 what the next read from the start of the file has to deliver (model driver only)
 *   x unlink                          remove the file (reset of a parser that has read from it fails then)
 *   x stat                            return code of the last read (compared with the model)
 *   x reset                           reset()
 *   x root <forest>                   replace the children of the target
 *   x end                             delete the parser, drop the target and the file, allocation balance
 *
 *   forest text as in drv_parse.c
 */
extern "C" {
#include "drv_util.h"
extern size_t __sanitizer_get_current_allocated_bytes(void);
extern int __lsan_do_recoverable_leak_check(void);
}
#include <errno.h>
#include <sys/uio.h>
#include <stdarg.h>
/* the code under test is compiled as part of this translation unit (found through the include path of the
 * tree under test): nodes and values are C objects with hand-made vtables, which UBSan's C++ vptr check
 * cannot accept (`link_extra = -fno-sanitize=vptr` in the property module); everything else stays sanitised */
#include "parse.cpp"
#include "meta.h"
#include "types.h"
#include "convert.h"
#include "node.h"
#include "config.h"
#include "parse.h"

using namespace mpt;

/* ------------------------------------------------------------------ output buffer */
static char *ob;
static size_t oblen, obcap;
static void ob_reset(void) { oblen = 0; if (ob) ob[0] = 0; }
static void ob_put(const char *s, size_t n)
{
	if (oblen + n + 1 > obcap) {
		obcap = (oblen + n + 1) * 2 + 256;
		ob = (char *) realloc(ob, obcap);
	}
	memcpy(ob + oblen, s, n);
	oblen += n;
	ob[oblen] = 0;
}
static void ob_s(const char *s) { ob_put(s, strlen(s)); }
static void ob_hex(const uint8_t *b, size_t n)
{
	static const char d[] = "0123456789abcdef";
	if (!n) { ob_s("-"); return; }
	for (size_t i = 0; i < n; i++) { char c[2] = { d[b[i] >> 4], d[b[i] & 15] }; ob_put(c, 2); }
}

/* ------------------------------------------------------------------ trees */
static const char *unsound;
static void put_forest(const ::mpt::node *first, const ::mpt::node *parent, int depth)
{
	const ::mpt::node *prev = 0;
	if (!first) { if (!depth) ob_s("."); return; }
	if (depth > 4000) { ob_s("?deep"); return; }
	for (const ::mpt::node *n = first; n; prev = n, n = n->next) {
		if (prev) ob_s(",");
		if (n->prev != prev) unsound = "prev";
		if (n->parent != parent) unsound = "parent";
		{
			/* the identifier fields are protected in C++: name through the C accessor */
			const char *id = mpt_node_ident(n);
			if (!id) ob_s("-");
			else ob_hex((const uint8_t *) id, strlen(id));
		}
		if (n->_meta) {
			struct iovec vec = { 0, 0 };
			ob_s("=");
			const char *base = mpt_convertable_data((convertable *) n->_meta, &vec.iov_len);
			if (!base) ob_s("?noconv");
			else {
				size_t len = vec.iov_len;
				if (len && !base[len - 1]) --len; else ob_s("?unterminated");
				ob_hex((const uint8_t *) base, len);
			}
		}
		if (n->children) {
			ob_s("(");
			put_forest(n->children, n, depth + 1);
			ob_s(")");
		}
	}
}
static const char *build_forest(const char *s, ::mpt::node *parent);
static const char *hex_token(const char *s, uint8_t **out, size_t *len)
{
	size_t n = 0;
	if (*s == '-') { *out = (uint8_t *) malloc(1); *len = 0; return s + 1; }
	while (drv_hexval(s[n]) >= 0) ++n;
	if (!n || (n & 1)) return 0;
	*out = (uint8_t *) malloc(n / 2);
	for (size_t i = 0; i < n / 2; i++) (*out)[i] = (uint8_t) (drv_hexval(s[2*i]) * 16 + drv_hexval(s[2*i+1]));
	*len = n / 2;
	return s + n;
}
static const char *build_tree(const char *s, ::mpt::node *parent)
{
	uint8_t *name = 0, *val = 0; size_t nlen = 0, vlen = 0; int hasval = 0;
	::mpt::node *n, *last;
	if (!(s = hex_token(s, &name, &nlen))) return 0;
	if (*s == '=') {
		hasval = 1;
		if (!(s = hex_token(s + 1, &val, &vlen))) { free(name); return 0; }
	}
	n = mpt_node_new(nlen + 1);
	if (nlen) mpt_identifier_set(&n->ident, (const char *) name, (int) nlen);
	if (hasval) {
		struct iovec vec = { val, vlen };
		value v;
		v.set(MPT_type_toVector('c'), &vec);
		n->_meta = mpt_meta_new(&v);
	}
	free(name); free(val);
	n->parent = parent;
	if (!(last = parent->children)) parent->children = n;
	else { while (last->next) last = last->next; last->next = n; n->prev = last; }
	if (*s == '(') {
		if (!(s = build_forest(s + 1, n)) || *s != ')') return 0;
		++s;
	}
	return s;
}
static const char *build_forest(const char *s, ::mpt::node *parent)
{
	if (*s == '.') return s + 1;
	while (1) {
		if (!(s = build_tree(s, parent))) return 0;
		if (*s != ',') return s;
		++s;
	}
}

/* ------------------------------------------------------------------ parser under test */
class xparser : public config_parser
{
public:
	xparser(unsigned sect, unsigned opt) { _d.name.sect = sect; _d.name.opt = opt; }
	unsigned curr() const { return _d.curr; }
};
class xlogger : public logger
{
public:
	int calls;
	xlogger() : calls(0) { }
	int log(const char *, int , const char *, va_list) __MPT_OVERRIDE { ++calls; return 0; }
};

static xparser *xp;
static ::mpt::node *target;
static char fname[64];
static size_t base_bytes;
static int have_base;

static void write_file(const uint8_t *d, size_t n)
{
	FILE *f = fopen(fname, "w");
	if (!f) { puts("FAULT file"); exit(3); }
	if (n) fwrite(d, 1, n, f);
	fclose(f);
}

static char last_stat[64] = "-";

int main(void)
{
	static char line[1 << 22];
	drv_init();
	snprintf(fname, sizeof(fname), "/tmp/drvxxparse-%d.conf", (int) getpid());
	/* warm-up of lazily created library state (short text only: with mpt++ linked, long text is held by the
	 * C++ io::buffer metatype, whose array code in the library archive is compiled with UBSan's vptr check
	 * and trips over the C buffer objects; the scripts of this driver keep values below 250 bytes) */
	{
		static uint8_t shortv[3] = { 'x', 'y', 'z' };
		struct iovec vec = { shortv, sizeof(shortv) };
		value v; v.set(MPT_type_toVector('c'), &vec);
		metatype *mt;
		if ((mt = mpt_meta_new(&v))) mt->unref();
	}
	target = new ::mpt::node();
	ob_reset();
	while (fgets(line, sizeof(line), stdin)) {
		if (line[0] == '#' || line[0] == '\n') { fputs(line, stdout); continue; }
		drv_split(line);
		if (drv_nw < 2 || strcmp(drv_w[0], "x")) { puts("bad-op"); continue; }
		const char *op = drv_w[1];
		if (!have_base) { base_bytes = __sanitizer_get_current_allocated_bytes(); have_base = 1; }
		if (!strcmp(op, "new") && drv_nw == 4) {
			size_t a, b;
			if (drv_parse_nat(drv_w[2], &a) || drv_parse_nat(drv_w[3], &b) || a > 0xffff || b > 0xffff) { puts("bad-op"); continue; }
			delete xp;
			xp = new xparser(a, b);
			puts("R ok");
		}
		else if (!strcmp(op, "fmt") && drv_nw == 3) {
			uint8_t *f = 0; size_t fl = 0; int z = 0; bool ok;
			char *str = 0;
			if (!xp) { puts("bad-op"); continue; }
			if (strcmp(drv_w[2], "null")) {
				if (drv_parse_data(drv_w[2], &f, &fl, &z) || z || memchr(f, 0, fl)) { puts("bad-op"); free(f); continue; }
				str = (char *) malloc(fl + 1); memcpy(str, f, fl); str[fl] = 0;
				free(f);
			}
			ok = xp->set_format(str);
			free(str);
			printf("R %s\n", ok ? "ok" : "refused");
		}
		else if (!strcmp(op, "file") && drv_nw == 3) {
			uint8_t *d = 0; size_t dl = 0; int z = 0;
			if (drv_parse_data(drv_w[2], &d, &dl, &z) || z) { puts("bad-op"); free(d); continue; }
			write_file(d, dl);
			free(d);
			printf("R ok len=%zu\n", dl);
		}
		else if (!strcmp(op, "render") && drv_nw == 6) {
			uint8_t *d = 0; size_t dl = 0; int z = 0;
			if (drv_parse_data(drv_w[5], &d, &dl, &z) || z) { puts("bad-op"); free(d); continue; }
			write_file(d, dl);
			free(d);
			printf("R ok len=%zu\n", dl);
		}
		else if (!strcmp(op, "expect") && drv_nw == 3) {
			/* the forest the next read has to deliver (spec side only) */
			printf("R ok\n");
		}
		else if (!strcmp(op, "unlink") && drv_nw == 2) {
			/* the file disappears behind the back of the parser object (an open stream keeps its content) */
			unlink(fname);
			printf("R ok\n");
		}
		else if (!strcmp(op, "open") && drv_nw == 2) {
			if (!xp) { puts("bad-op"); continue; }
			printf("R %s\n", xp->open(fname) ? "ok" : "refused");
		}
		else if (!strcmp(op, "reset") && drv_nw == 2) {
			if (!xp) { puts("bad-op"); continue; }
			printf("R %s\n", xp->reset() ? "ok" : "refused");
		}
		else if (!strcmp(op, "root") && drv_nw == 3) {
			const char *e;
			mpt_node_clear(target);
			e = build_forest(drv_w[2], target);
			if (!e || *e) { mpt_node_clear(target); puts("bad-op"); continue; }
			ob_reset(); unsound = 0; put_forest(target->children, target, 0);
			printf("R ok | C %s\n", ob);
		}
		else if (!strcmp(op, "read") && (drv_nw == 2 || (drv_nw == 3 && !strcmp(drv_w[2], "log")))) {
			xlogger lg;
			int ret;
			if (!xp) { puts("bad-op"); continue; }
			ret = xp->read(*target, drv_nw == 3 ? &lg : 0);
			ob_reset(); unsound = 0; put_forest(target->children, target, 0);
			printf("R %s sound=%s | C %s | I code=%d curr=%u\n", ret < 0 ? "err" : "ok", unsound ? unsound : "ok", ob, ret, xp->curr());
			snprintf(last_stat, sizeof(last_stat), "code=%d", ret);
		}
		else if (!strcmp(op, "stat") && drv_nw == 2) {
			/* the return code of the last read: compared with the model */
			printf("R ok | C %s\n", last_stat);
		}
		else if (!strcmp(op, "end") && drv_nw == 2) {
			size_t now;
			delete xp; xp = 0;
			mpt_node_clear(target);
			unlink(fname);
			strcpy(last_stat, "-");
			now = __sanitizer_get_current_allocated_bytes();
			if (now != base_bytes && __lsan_do_recoverable_leak_check()) {
				printf("FAULT leak bytes=%ld\n", (long) now - (long) base_bytes);
				fflush(stdout);
				_exit(96);
			}
			base_bytes = now;
			printf("R ok leaks=0\n");
		}
		else puts("bad-op");
	}
	delete xp;
	mpt_node_clear(target);
	delete target;
	unlink(fname);
	free(ob);
	return 0;
}
