/* line-protocol driver: the C++ requester side of the reply scheme (C12), mpt++/io_stream.cpp
 * (io::stream::await / push / dispatch / sync) over a socketpair; the driver is the peer that answers.
 *
 *   xr open <idlen>            io::stream on a socket, COBS coding, message ids of idlen bytes
 *   xr idlen <n>               set_property("idlen", n)
 *   xr await <tag>             await(handler, tag): the next message sent is a request whose reply goes to handler <tag>
 *   xr send <hex>              push(data) + push(0,0) + flush; the peer decodes the frame it receives
 *   xr abort                   push(1, NULL) while a request is being composed (the waiting handler gets a NULL message)
 *   xr answer <hex>[,<hex>…]   the peer sends these frames (id header + payload each), then the stream is polled and
 *                              dispatched until the input is drained; default handler = `ev`
 *   xr sync <hex>[,<hex>…]     the peer sends these frames, then sync(0) is called until it makes no progress
 *   xr close
 * R = verdict (+ id assigned by await), C = what happened: frames the peer saw / handler calls `h<tag>(<payload>)`,
 * I = return codes.
 *
 * The command buffers are C objects with a hand-made vtable, which UBSan's C++ vptr check cannot accept: the code under
 * test is compiled into this translation unit with -fno-sanitize=vptr (see drvxx_event.cpp). */
extern "C" {
#include "drv_util.h"
}
#include <errno.h>
#include <poll.h>
#include <fcntl.h>
#include <sys/socket.h>
#include <sys/ioctl.h>
#include <inttypes.h>
#include <limits>
#include <cstdio>
#include <cstring>
#include <new>

/* test access to the stream internals (codec setup, pending ids): layout is not affected */
#define protected public
#define private public
#include "connection.h"
#include "array.cpp"
#include "logger.cpp"
#include "event.cpp"
#include "io_stream.cpp"

#include "convert.h"
#include "message.h"
#include "event.h"
#include "types.h"

using namespace mpt;

static char logbuf[1 << 16];
static size_t loglen;
static void lg(const char *s) { size_t n = strlen(s); if (loglen + n + 1 < sizeof(logbuf)) { memcpy(logbuf + loglen, s, n); loglen += n; } }
static void lghex(const uint8_t *b, size_t n)
{
	static const char d[] = "0123456789abcdef";
	if (!n) { lg("-"); return; }
	for (size_t i = 0; i < n && loglen + 3 < sizeof(logbuf); i++) { logbuf[loglen++] = d[b[i] >> 4]; logbuf[loglen++] = d[b[i] & 15]; }
}
static void sep(void) { if (loglen) lg(","); }

static void lgmsg(const struct message *msg)
{
	if (!msg) { lg("none"); return; }
	struct message tmp = *msg;
	uint8_t buf[4096];
	size_t n = tmp.read(sizeof(buf), buf);
	lghex(buf, n);
}
static void follow_up(long tag);
/* reply handler registered by await: arg = tag number */
static int reply_handler(void *arg, const struct message *msg)
{
	char t[32];
	sep();
	snprintf(t, sizeof(t), "h%ld(", (long) (intptr_t) arg);
	lg(t); lgmsg(msg); lg(")");
	/* tags 800000..899999: the command registers a follow-up request (tag + 1) while it handles its reply */
	if (msg && (intptr_t) arg >= 800000 && (intptr_t) arg < 900000) follow_up((intptr_t) arg + 1);
	/* tags from 900000 on: a command that reports failure */
	return (intptr_t) arg >= 900000 ? -1 : 0;
}
/* handler for everything that is not a reply */
static int event_handler(void *arg, event *ev)
{
	(void) arg;
	sep();
	lg("ev(");
	if (ev && ev->msg) lgmsg(ev->msg); else lg("none");
	lg(")");
	return 0;
}

class xstream : public io::stream
{
public:
	xstream() : io::stream(0) { }
	bool setup(int fd, uint8_t idlen)
	{
		::mpt::socket sock; sock._id = fd;
		if (!_srm) _srm = new ::mpt::stream;
		int r = mpt_stream_dopen(_srm, &sock, ::mpt::stream::RdWr | ::mpt::stream::Buffer);
		sock._id = -1;   /* the descriptor belongs to the stream now (the C++ socket would close it) */
		if (r < 0) return false;
		_srm->_wd._enc = mpt_message_encoder(EncodingCobs);
		_srm->_rd._dec = mpt_message_decoder(EncodingCobs);
		_idlen = idlen;
		return true;
	}
	::mpt::stream *raw() { return _srm; }
	uintptr_t cid() const { return _cid; }
	int run(event_handler_t c, void *a)
	{
		class dispatch sd(*this, c, a);
		return io::stream::dispatch(sd);
	}
	size_t waiting() const
	{
		size_t n = 0;
		for (auto &c : _wait.elements()) if (c.cmd) ++n;
		return n;
	}
};
static xstream *xs;
static void follow_up(long tag)
{
	char t[48];
	/* the id shows in the frame of the next `xr send` */
	if (xs) xs->await(reply_handler, (void *) (intptr_t) tag);
	(void) t;
}
static int peer = -1, fd0 = -1;
static uint8_t rx[1 << 16];
static size_t rxlen;

static void drop(void)
{
	delete xs; xs = 0;
	if (peer >= 0) { close(peer); peer = -1; }
	rxlen = 0;
}
static size_t cobs_encode(const uint8_t *in, size_t n, uint8_t *out)
{
	size_t o = 1, code_at = 0; uint8_t code = 1;
	for (size_t i = 0; i < n; i++) {
		if (in[i]) { out[o++] = in[i]; if (++code == 0xff) { out[code_at] = code; code_at = o++; code = 1; } }
		else { out[code_at] = code; code_at = o++; code = 1; }
	}
	out[code_at] = code;
	out[o++] = 0;
	return o;
}
/* frames the peer received -> log */
static void peer_frames(void)
{
	ssize_t n;
	if (peer >= 0) while (rxlen < sizeof(rx) && (n = recv(peer, rx + rxlen, sizeof(rx) - rxlen, MSG_DONTWAIT)) > 0) rxlen += n;
	size_t start = 0;
	for (size_t i = 0; i < rxlen; i++) {
		if (rx[i]) continue;
		uint8_t dec[1 << 12]; size_t d = 0, p = start; int bad = (i == start);
		while (p < i && !bad) {
			uint8_t code = rx[p++];
			if (p + code - 1 > i) { bad = 1; break; }
			for (uint8_t k = 1; k < code; k++) dec[d++] = rx[p++];
			if (code != 0xff && p < i) dec[d++] = 0;
		}
		sep();
		if (bad) { lg("badframe["); lghex(rx + start, i - start + 1); lg("]"); }
		else { lg("frame["); lghex(dec, d); lg("]"); }
		start = i + 1;
	}
	if (start < rxlen) { sep(); lg("partial["); lghex(rx + start, rxlen - start); lg("]"); }
	rxlen = 0;
}
static void result(const char *r, const char *i)
{
	logbuf[loglen] = 0;
	printf("R %s | C %s | I %s\n", r, loglen ? logbuf : "-", i);
	loglen = 0;
}
/* send the comma separated frames from the peer; -1 on parse error */
static int peer_send(char *list, size_t minlen)
{
	char *copy = strdup(list), *save = 0, *p;
	int bad = (list[0] == ',' || list[strlen(list) - 1] == ',' || strstr(list, ",,")) ? 1 : 0, n = 0;
	for (p = strtok_r(copy, ",", &save); p && !bad; p = strtok_r(0, ",", &save), ++n) {
		uint8_t *d = 0; size_t l; int isn;
		if (n >= 16 || drv_parse_data(p, &d, &l, &isn) || isn || l > 1000 || l < minlen) bad = 1;
		free(d);
	}
	free(copy);
	if (bad || !n) return -1;
	save = 0;
	for (p = strtok_r(list, ",", &save); p; p = strtok_r(0, ",", &save)) {
		uint8_t *d = 0; size_t l; int isn; uint8_t wire[2100];
		drv_parse_data(p, &d, &l, &isn);
		size_t wl = cobs_encode(d, l, wire);
		free(d);
		if (write(peer, wire, wl) != (ssize_t) wl) return -2;
	}
	return 0;
}
static int unread(void)
{
	int left = 0;
	if (ioctl(fd0, FIONREAD, &left)) return 0;
	return left;
}

/* ---- `xc`: a deferrable reply context armed through the C++ wrapper reply_data::set (mpt++/event.cpp) ---- */
static metatype *xctx;
static int xtransport;
static int xsend(void *ptr, const reply_data *rd, const struct message *msg)
{
	sep();
	lg(ptr == &xtransport ? "send[id=" : "send[WRONG-TRANSPORT id=");
	if (rd->len) lghex(rd->val, rd->len); else lg("-");
	lg(" msg=");
	lgmsg(msg);
	lg("]->ok");
	return 0;
}
static void xc_release(void)
{
	if (xctx) { xctx->unref(); xctx = 0; }
	loglen = 0;
}
/* returns 1 if the line was an `xc` op */
static int xc_op(void)
{
	if (drv_nw < 2 || strcmp(drv_w[0], "xc")) return 0;
	const char *op = drv_w[1];
	size_t a;
	loglen = 0;
	if (!strcmp(op, "ctx") && drv_nw == 3) {
		if (drv_parse_nat(drv_w[2], &a) || a > 100000) { puts("bad-op"); return 1; }
		xc_release();
		xctx = mpt_reply_deferrable(a, xsend, &xtransport);
		result(xctx ? "ok" : "refused", "ret=-");
		return 1;
	}
	if (!xctx) { puts("bad-op"); return 1; }
	reply_data *rd = 0; reply_context *rc = 0;
	if (!strcmp(op, "arm") && drv_nw == 3) {
		uint8_t *dat = 0; size_t dlen = 0; int isnull = 0;
		if (drv_parse_data(drv_w[2], &dat, &dlen, &isnull) || isnull || dlen > 70000) { puts("bad-op"); free(dat); return 1; }
		if (xctx->convert(type_properties<reply_data *>::id(true), &rd) < 0 || !rd) { result("noconv", "ret=-"); free(dat); return 1; }
		bool ok = rd->set(dlen, dat);
		free(dat);
		result(ok ? "ok ctx=intact" : "refused ctx=intact", "ret=-");
		return 1;
	}
	if (!strcmp(op, "reply") && drv_nw == 3) {
		uint8_t *dat = 0; size_t dlen = 0; int isnull = 0, none = !strcmp(drv_w[2], "none");
		if (!none && (drv_parse_data(drv_w[2], &dat, &dlen, &isnull) || isnull)) { puts("bad-op"); free(dat); return 1; }
		if (xctx->convert(type_properties<reply_context *>::id(true), &rc) < 0 || !rc) { result("noconv", "ret=-"); free(dat); return 1; }
		struct message m;
		m.base = dat; m.used = dlen;
		int r = rc->reply(none ? 0 : &m);
		free(dat);
		result(r < 0 ? "refused" : "ok", "ret=-");
		return 1;
	}
	if (!strcmp(op, "drop") && drv_nw == 3 && !strcmp(drv_w[2], "ctx")) {
		xctx->unref(); xctx = 0;
		result("ok", "ret=-");
		return 1;
	}
	puts("bad-op");
	return 1;
}

int main(void)
{
	static char line[1 << 16];
	drv_init();
	while (fgets(line, sizeof(line), stdin)) {
		if (line[0] == '#' || line[0] == '\n') { fputs(line, stdout); continue; }
		drv_split(line);
		loglen = 0;
		if (xc_op()) continue;
		if (drv_nw < 2 || strcmp(drv_w[0], "xr")) { puts("bad-op"); continue; }
		const char *op = drv_w[1];
		size_t a;
		char ibuf[128];
		if (!strcmp(op, "open") && drv_nw == 3) {
			if (drv_parse_nat(drv_w[2], &a) || a > 255) { puts("bad-op"); continue; }
			drop();
			loglen = 0;
			int sv[2];
			if (socketpair(AF_UNIX, SOCK_STREAM, 0, sv) < 0) { result("nosocket", "ret=0"); continue; }
			xs = new xstream;
			if (!xs->setup(sv[0], a)) { close(sv[0]); close(sv[1]); delete xs; xs = 0; result("refused", "ret=0"); continue; }
			peer = sv[1]; fd0 = sv[0];
			result("ok", "ret=0");
		}
		else if (!xs) puts("bad-op");
		else if (!strcmp(op, "idlen") && drv_nw == 3) {
			/* public way to choose the id width: set_property("idlen", <uint8 value>) */
			if (drv_parse_nat(drv_w[2], &a) || a > 255) { puts("bad-op"); continue; }
			struct u8src : public convertable {
				uint8_t v;
				int convert(type_t t, void *ptr) __MPT_OVERRIDE
				{
					if (t != (type_t) type_properties<uint8_t>::id(true)) return BadType;
					if (ptr) *static_cast<uint8_t *>(ptr) = v;
					return t;
				}
			} src;
			src.v = a;
			int r = xs->set_property("idlen", &src);
			snprintf(ibuf, sizeof(ibuf), "ret=%d", r);
			char v[32]; snprintf(v, sizeof(v), "%s idlen=%u", r < 0 ? "refused" : "ok", (unsigned) xs->_idlen);
			result(v, ibuf);
		}
		else if (!strcmp(op, "await") && drv_nw == 3) {
			if (drv_parse_nat(drv_w[2], &a) || a > 1000000) { puts("bad-op"); continue; }
			int r = xs->await(reply_handler, (void *) (intptr_t) a);
			snprintf(ibuf, sizeof(ibuf), "ret=%d waiting=%zu", r, xs->waiting());
			if (r <= 0) result("refused", ibuf);
			else { char v[64]; snprintf(v, sizeof(v), "ok id=%" PRIuPTR, xs->cid()); result(v, ibuf); }
		}
		else if (!strcmp(op, "send") && drv_nw == 3) {
			uint8_t *dat = 0; size_t dlen = 0; int isnull = 0;
			if (drv_parse_data(drv_w[2], &dat, &dlen, &isnull) || isnull || dlen > 1000) { puts("bad-op"); free(dat); continue; }
			ssize_t r1 = dlen ? xs->push(dlen, dat) : 0;
			ssize_t r2 = xs->push(0, 0);
			free(dat);
			mpt_stream_flush(xs->raw());
			peer_frames();
			snprintf(ibuf, sizeof(ibuf), "ret=%zd,%zd waiting=%zu", r1, r2, xs->waiting());
			result((r1 < 0 || r2 < 0) ? "refused" : "ok", ibuf);
		}
		else if (!strcmp(op, "abort") && drv_nw == 2) {
			ssize_t r = xs->push(1, 0);
			snprintf(ibuf, sizeof(ibuf), "ret=%zd waiting=%zu", r, xs->waiting());
			result(r < 0 ? "refused" : "ok", ibuf);
		}
		else if (!strcmp(op, "sync1") && drv_nw == 3) {
			/* exactly one sync() call after the peer's frames have been written */
			int e = peer_send(drv_w[2], xs->_idlen);
			if (e == -1) { puts("bad-op"); continue; }
			if (e < 0) { result("nowrite", "ret=0"); continue; }
			xs->sync(0);
			snprintf(ibuf, sizeof(ibuf), "ret=0 rounds=0 waiting=%zu", xs->waiting());
			result("ok", ibuf);
		}
		else if ((!strcmp(op, "answer") || !strcmp(op, "sync")) && drv_nw == 3) {
			int e = peer_send(drv_w[2], xs->_idlen);
			if (e == -1) { puts("bad-op"); continue; }
			if (e < 0) { result("nowrite", "ret=0"); continue; }
			int last = 0, rounds = 0;
			if (*op == 'a') {
				/* poll + dispatch until the socket and the decode queue are drained */
				for (rounds = 0; rounds < 200; rounds++) {
					int left = unread();
					if (left > 0) mpt_stream_poll(xs->raw(), POLLIN, 0);
					last = xs->run(event_handler, 0);
					if (left <= 0 && !(last & event::Retry)) break;
				}
			} else {
				for (rounds = 0; rounds < 200; rounds++) {
					int left = unread();
					last = xs->sync(0);
					if (left <= 0 && unread() <= 0 && last <= 0) break;
					if (left <= 0 && rounds > 40) break;
				}
			}
			(void) last;
			snprintf(ibuf, sizeof(ibuf), "ret=0 rounds=0 waiting=%zu", xs->waiting());
			result("ok", ibuf);
		}
		else if (!strcmp(op, "close") && drv_nw == 2) {
			drop();
			result("ok", "ret=0");
		}
		else puts("bad-op");
	}
	drop();
	xc_release();
	return 0;
}
