/* line-protocol driver: mptcore/queue (C13).  Calls the real functions in-process. */
#include "drv_util.h"
#include <errno.h>
#include <sys/uio.h>
#include "queue.h"
#include "message.h"

static MPT_STRUCT(queue) q;

/* `q save <k>`: the descriptor takes at most k bytes in one writev (linked with -Wl,--wrap=writev) */
static size_t writev_limit = (size_t) -1;
ssize_t __real_writev(int fd, const struct iovec *iov, int cnt);
ssize_t __wrap_writev(int fd, const struct iovec *iov, int cnt)
{
	struct iovec tmp[8];
	size_t left = writev_limit;
	int i, n = 0;
	if (left == (size_t) -1 || cnt > 8) return __real_writev(fd, iov, cnt);
	for (i = 0; i < cnt && left; i++) {
		tmp[n] = iov[i];
		if (tmp[n].iov_len > left) tmp[n].iov_len = left;
		left -= tmp[n].iov_len;
		n++;
	}
	if (!n) return 0;
	return __real_writev(fd, tmp, n);
}

/* logical content read independently of the library: base[(off+i) % max] */
static void put_content(void)
{
	if (!q.len) { fputc('-', stdout); return; }
	for (size_t i = 0; i < q.len; i++) {
		size_t p = q.max ? (q.off + i) % q.max : 0;
		uint8_t b = ((uint8_t *) q.base)[p];
		drv_puthex(stdout, &b, 1);
	}
}
static void result(const char *verdict, const uint8_t *out, size_t outlen, const char *ret)
{
	printf("R %s out=", verdict);
	drv_puthex(stdout, out, outlen);
	printf(" | C ");
	put_content();
	printf(" | I ret=%s len=%zu max=%zu off=%zu\n", ret, q.len, q.max, q.off);
}
static void result_int(long r, const uint8_t *out, size_t outlen)
{
	char buf[32];
	if (r < 0) { result("refused", 0, 0, drv_errname(r)); return; }
	snprintf(buf, sizeof(buf), "%ld", r);
	result("ok", out, outlen, buf);
}
static const uint8_t *needle;
static size_t needle_len;
static int cmp_needle(const void *elem, void *arg)
{
	(void) arg;
	return memcmp(elem, needle, needle_len);
}

int main(void)
{
	char line[1 << 20];
	drv_init();
	while (fgets(line, sizeof(line), stdin)) {
		if (line[0] == '#' || line[0] == '\n') { fputs(line, stdout); continue; }
		drv_split(line);
		if (drv_nw < 2 || strcmp(drv_w[0], "q")) { puts("bad-op"); continue; }
		const char *op = drv_w[1];
		size_t a, b;
		uint8_t *dat = 0; size_t dlen = 0; int isnull = 0;
		if (!strcmp(op, "new") && drv_nw == 5) {
			if (drv_parse_nat(drv_w[2], &a) || drv_parse_nat(drv_w[3], &b) || drv_parse_data(drv_w[4], &dat, &dlen, &isnull) || isnull
			    || b > a || dlen > a) { puts("bad-op"); free(dat); continue; }
			free(q.base);
			q.base = a ? calloc(a, 1) : 0;
			q.max = a; q.off = b; q.len = dlen;
			for (size_t i = 0; i < dlen; i++) ((uint8_t *) q.base)[(b + i) % a] = dat[i];
			free(dat);
			result("ok", 0, 0, "0");
		}
		else if ((!strcmp(op, "push") || !strcmp(op, "unshift")) && drv_nw == 3) {
			if (drv_parse_data(drv_w[2], &dat, &dlen, &isnull)) { puts("bad-op"); continue; }
			int r = (*op == 'p') ? mpt_qpush(&q, dlen, isnull ? 0 : dat) : mpt_qunshift(&q, dlen, isnull ? 0 : dat);
			free(dat);
			result_int(r, 0, 0);
		}
		else if ((!strcmp(op, "pop") || !strcmp(op, "shift")) && (drv_nw == 3 || (drv_nw == 4 && !strcmp(drv_w[3], "nodst")))) {
			if (drv_parse_nat(drv_w[2], &a)) { puts("bad-op"); continue; }
			int nodst = drv_nw == 4;
			uint8_t *buf = nodst ? 0 : malloc(a ? a : 1);
			errno = 0;
			void *p = (*op == 'p') ? mpt_qpop(&q, a, buf) : mpt_qshift(&q, a, buf);
			if (!p) result("refused", 0, 0, "null");
			else result("ok", p, a, "ptr");
			free(buf);
		}
		else if (!strcmp(op, "crop") && drv_nw == 4) {
			if (drv_parse_nat(drv_w[2], &a) || drv_parse_nat(drv_w[3], &b)) { puts("bad-op"); continue; }
			result_int(mpt_queue_crop(&q, a, b), 0, 0);
		}
		else if (!strcmp(op, "get") && (drv_nw == 4 || (drv_nw == 5 && !strcmp(drv_w[4], "nodst")))) {
			if (drv_parse_nat(drv_w[2], &a) || drv_parse_nat(drv_w[3], &b)) { puts("bad-op"); continue; }
			int nodst = drv_nw == 5;
			uint8_t *buf = nodst ? 0 : malloc(b ? b : 1);
			int r = mpt_queue_get(&q, a, b, buf);
			result_int(r, buf, (r < 0 || nodst) ? 0 : b);
			free(buf);
		}
		else if (!strcmp(op, "set") && drv_nw == 4) {
			if (drv_parse_nat(drv_w[2], &a) || drv_parse_data(drv_w[3], &dat, &dlen, &isnull)) { puts("bad-op"); continue; }
			int r = mpt_queue_set(&q, a, dlen, isnull ? 0 : dat);
			free(dat);
			result_int(r, 0, 0);
		}
		else if (!strcmp(op, "align") && drv_nw == 3) {
			if (drv_parse_nat(drv_w[2], &a)) { puts("bad-op"); continue; }
			mpt_queue_align(&q, a);
			result("ok", 0, 0, "0");
		}
		else if (!strcmp(op, "resize") && drv_nw == 3) {
			if (drv_parse_nat(drv_w[2], &a)) { puts("bad-op"); continue; }
			size_t old = q.max;
			void *p = mpt_queue_resize(&q, a);
			if (q.max > old) memset(((uint8_t *) q.base) + old, 0, q.max - old);
			if (!p && a) result("refused", 0, 0, "null");
			else result("ok", 0, 0, "ptr");
		}
		else if (!strcmp(op, "prepare") && drv_nw == 3) {
			if (drv_parse_nat(drv_w[2], &a)) { puts("bad-op"); continue; }
			size_t old = q.max;
			char buf[32];
			size_t left = mpt_queue_prepare(&q, a);
			if (q.max > old) memset(((uint8_t *) q.base) + old, 0, q.max - old);
			snprintf(buf, sizeof(buf), "%zu", left);
			/* the caller learns whether the space asked for is there */
			result(left >= a ? "ok" : "refused", 0, 0, buf);
		}
		else if (!strcmp(op, "find") && drv_nw == 3) {
			if (drv_parse_data(drv_w[2], &dat, &dlen, &isnull) || isnull || !dlen) { puts("bad-op"); free(dat); continue; }
			needle = dat; needle_len = dlen;
			errno = 0;
			uint8_t *p = mpt_queue_find(&q, dlen, cmp_needle, 0);
			if (!p) {
				/* NULL is "not found" unless errno names a refusal */
				if (errno == ENOTSUP || errno == EAGAIN) result("refused", 0, 0, "null");
				else result("none", 0, 0, "null");
			} else {
				char v[48], i[32];
				size_t phys = p - (uint8_t *) q.base;
				size_t lp = phys >= q.off ? phys - q.off : phys + q.max - q.off;
				snprintf(v, sizeof(v), "found@%zu", lp);
				snprintf(i, sizeof(i), "%zu", phys);
				result(v, 0, 0, i);
			}
			free(dat);
		}
		else if (!strcmp(op, "string") && drv_nw == 2) {
			char *s = mpt_queue_string(&q);
			if (!s) result("refused", 0, 0, "null");
			else if (s[q.len]) result("ok", (uint8_t *) "!unterminated", 13, "ptr");
			else result("ok", (uint8_t *) s, q.len, "ptr");
		}
		else if (!strcmp(op, "load") && drv_nw == 4) {
			/* q load <len> <hex>: the bytes are made available on a pipe (then end of file) and read by mpt_queue_load */
			int fd[2];
			if (drv_parse_nat(drv_w[2], &a) || drv_parse_data(drv_w[3], &dat, &dlen, &isnull) || isnull || dlen > 60000 || pipe(fd)) { puts("bad-op"); free(dat); continue; }
			if (dlen && write(fd[1], dat, dlen) != (ssize_t) dlen) { puts("bad-op"); }
			close(fd[1]);
			free(dat);
			ssize_t r = mpt_queue_load(&q, fd[0], a);
			close(fd[0]);
			if (r < 0) result("refused", 0, 0, r == -2 ? "BadValue" : "ERR?");
			else { char v[48], i[32]; snprintf(v, sizeof(v), "ok n=%zd", r); snprintf(i, sizeof(i), "%zd", r); result(v, 0, 0, i); }
		}
		else if (!strcmp(op, "save") && (drv_nw == 2 || drv_nw == 3)) {
			/* q save [k]: everything the queue holds goes to a pipe; with k the descriptor accepts at most k bytes */
			int fd[2];
			a = (size_t) -1;
			if ((drv_nw == 3 && drv_parse_nat(drv_w[2], &a)) || q.len > 60000 || pipe(fd)) { puts("bad-op"); continue; }
			writev_limit = a;
			ssize_t r = mpt_queue_save(&q, fd[1]);
			writev_limit = (size_t) -1;
			close(fd[1]);
			uint8_t *buf = malloc(65536);
			ssize_t got = read(fd[0], buf, 65536);
			close(fd[0]);
			if (r < 0) result("refused", 0, 0, "ERR?");
			else { char v[48], i[32]; snprintf(v, sizeof(v), "ok n=%zd", r); snprintf(i, sizeof(i), "%zd", r); result(v, buf, got > 0 ? (size_t) got : 0, i); }
			free(buf);
		}
		else if (!strcmp(op, "mget") && (drv_nw == 4 || (drv_nw == 5 && !strcmp(drv_w[4], "novec")))) {
			/* q mget <off> <take> [novec]: view of the content through mpt_message_get (as decode_queue::current_message does) */
			if (drv_parse_nat(drv_w[2], &a) || drv_parse_nat(drv_w[3], &b)) { puts("bad-op"); continue; }
			MPT_STRUCT(message) msg = MPT_MESSAGE_INIT;
			struct iovec vec = { 0, 0 };
			int r = mpt_message_get(&q, a, b, &msg, drv_nw == 5 ? 0 : &vec);
			if (r < 0) result("refused", 0, 0, drv_errname(r));
			else {
				uint8_t *buf = malloc(b ? b : 1);
				size_t n = msg.used;
				memcpy(buf, msg.base, n);
				if (r > 0) { memcpy(buf + n, vec.iov_base, vec.iov_len); n += vec.iov_len; }
				result("ok", buf, n, r ? "1" : "0");
				free(buf);
			}
		}
		else puts("bad-op");
	}
	free(q.base);
	return 0;
}
