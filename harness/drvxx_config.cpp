/* line-protocol driver: mpt++ private configuration mpt::config::root (C10, C++ part).
 * Calls the real C++ methods in-process; the store is the item array of the object
 * (mptcore/config/config_item_query.c, config_item_reserve.c behind mpt++/config.cpp).
 *
 *   x begin                                   fresh config::root
 *   x set <path-hex> <sep-hex> <value-hex>    config::set(path, value, sep)
 *   x del <path-hex> <sep-hex>                config::set(path, 0, sep)  (= remove)
 *   x get <path-hex> <sep-hex>                value query through config::query
 *   x clear                                   remove with an empty path (everything goes)
 *   x padd <sep-hex> <elem-hex>[,<elem-hex>…] mpt::path: characters by mpt_path_addchar/valid, elements by path::add(n),
 *                                             walked with path::next(), undone with path::del()
 *   x end
 *
 * Output: R <verdict> | C X[<path>=<value>,...] | I ret=<code> exists=<code> tree=<dump incl. unused slots>
 */
extern "C" {
#include "drv_util.h"
}
#include <errno.h>
#include <sys/uio.h>
#include <stdlib.h>
/* The buffers are C objects with a hand-made vtable (buffer_alloc.c), which UBSan's C++ vptr check cannot
 * accept.  The code under test (mpt++/array.cpp, mpt++/config.cpp) is therefore compiled as part of this
 * translation unit (found through the include path of the tree under test) with that one check switched off
 * (`link_extra = -fno-sanitize=vptr` in the property part); everything else stays sanitised. */
#include "array.cpp"
#include "config.cpp"
#include "meta.h"
#include "types.h"
#include "array.h"
#include "collection.h"
#include "config.h"

using namespace mpt;

static config::root *conf;

/* the path fields are protected */
class xpath : public path
{
public:
	xpath(const char *p, int s, int a) : path(p, s, a) { }
	xpath(const path &p) : path(p) { }
	size_t o() const { return off; }
	const char *b() const { return base; }
};

#define MAXP 4096
static char *pairs[MAXP];
static int npairs;
static char dump[1 << 18];
static size_t dumplen;

static void dump_s(const char *s)
{
	size_t n = strlen(s);
	if (dumplen + n + 1 >= sizeof(dump)) return;
	memcpy(dump + dumplen, s, n + 1);
	dumplen += n;
}
static void hex_into(char *dst, const uint8_t *b, size_t n)
{
	static const char d[] = "0123456789abcdef";
	size_t i;
	if (!n) { strcpy(dst, "-"); return; }
	for (i = 0; i < n; i++) { dst[2*i] = d[b[i] >> 4]; dst[2*i+1] = d[b[i] & 15]; }
	dst[2*n] = 0;
}
/* the raw identifier fields are protected: read them through the C layout */
struct raw_ident { uint16_t len; uint8_t charset; uint8_t max; char val[4]; char *base; };
static const char *name_hex(const identifier *id)
{
	static char buf[2048];
	const raw_ident *r = reinterpret_cast<const raw_ident *>(id);
	const char *d = (r->len > r->max) ? r->base : r->val;
	size_t len = r->len;
	if (!len) { strcpy(buf, "~"); return buf; }      /* unused slot */
	if (len > 1000) { strcpy(buf, "?long"); return buf; }
	if (r->charset != 1) { strcpy(buf, "?charset"); return buf; }
	if (d[len - 1]) { strcpy(buf, "?unterminated"); return buf; }
	hex_into(buf, (const uint8_t *) d, len - 1);
	return buf;
}
static int value_text(convertable *val, const char **txt, size_t *len)
{
	struct iovec vec;
	int r;
	if ((r = val->convert(MPT_type_toVector('c'), &vec)) >= 0) {
		*txt = (const char *) vec.iov_base;
		*len = vec.iov_len;
		if (*len && !(*txt)[*len - 1]) --*len;
		return r;
	}
	if ((r = val->convert('s', txt)) >= 0) {
		*len = *txt ? strlen(*txt) : 0;
		return r;
	}
	return r;
}
static void add_pair(const char *path, convertable *val)
{
	const char *txt = 0;
	size_t plen = strlen(path), vlen = 0;
	char *p;
	if (!val || npairs >= MAXP) return;
	if (value_text(val, &txt, &vlen) < 0) { txt = "?noconv"; vlen = 7; }
	if (!txt) vlen = 0;
	p = (char *) malloc(plen + 2 * vlen + 8);
	memcpy(p, path, plen);
	p[plen] = '=';
	if (!txt) strcpy(p + plen + 1, "null");
	else hex_into(p + plen + 1, (const uint8_t *) txt, vlen);
	pairs[npairs++] = p;
}
struct walk_ctx { char path[8192]; size_t len; int depth; int hidden; };
static int walk_item(void *ptr, const identifier *id, convertable *val, const collection *sub)
{
	walk_ctx *c = (walk_ctx *) ptr;
	size_t old = c->len;
	const char *nm = name_hex(id);
	size_t n = strlen(nm);
	if (c->len + n + 2 >= sizeof(c->path) || c->depth > 200) return 0;
	if (c->len) c->path[c->len++] = '/';
	memcpy(c->path + c->len, nm, n + 1);
	c->len += n;
	dump_s(nm);
	if (val) dump_s("*");
	/* an unused slot is not an element: what hangs below it cannot be reached by any path */
	int hide = nm[0] == '~';
	if (!hide && !c->hidden) add_pair(c->path, val);
	if (sub) {
		size_t mark = dumplen;
		dump_s("(");
		c->depth++;
		c->hidden += hide;
		sub->each(walk_item, c);
		c->hidden -= hide;
		c->depth--;
		if (dumplen == mark + 1) { dumplen = mark; dump[mark] = 0; }
		else dump_s(")");
	}
	dump_s(";");
	c->len = old;
	c->path[old] = 0;
	return 0;
}
static int walk_top(void *ptr, convertable *, const collection *sub)
{
	if (sub) sub->each(walk_item, ptr);
	return 0;
}
static int cmp_str(const void *a, const void *b)
{
	return strcmp(*(char * const *) a, *(char * const *) b);
}
static void result(const char *verdict, const char *ret)
{
	static walk_ctx c;
	int i;
	printf("R %s | C X[", verdict);
	c.len = 0; c.path[0] = 0; c.depth = 0; c.hidden = 0;
	dumplen = 0; dump[0] = 0;
	if (conf) conf->query(0, walk_top, &c);
	qsort(pairs, npairs, sizeof(*pairs), cmp_str);
	for (i = 0; i < npairs; i++) {
		if (i) fputc(',', stdout);
		fputs(pairs[i], stdout);
		free(pairs[i]);
	}
	npairs = 0;
	printf("] | I ret=%s tree=%s\n", ret, dump);
}
static char *get_text(const char *w, size_t *len)
{
	uint8_t *d = 0; int isnull = 0; size_t i;
	char *s;
	if (drv_parse_data(w, &d, len, &isnull) || isnull) { free(d); return 0; }
	for (i = 0; i < *len; i++) if (!d[i]) { free(d); return 0; }
	s = (char *) malloc(*len + 1);
	memcpy(s, d, *len);
	s[*len] = 0;
	free(d);
	return s;
}
static int get_char(const char *w, int *c)
{
	uint8_t *d = 0; size_t len; int isnull = 0;
	if (drv_parse_data(w, &d, &len, &isnull) || isnull || len > 1) { free(d); return -1; }
	*c = len ? d[0] : 0;
	free(d);
	return 0;
}
struct got { const char *txt; size_t len; };
static int get_value(void *ptr, convertable *val, const collection *)
{
	got *g = (got *) ptr;
	if (!val) return MissingData;
	return value_text(val, &g->txt, &g->len);
}
static void put_elems(char *out, size_t max, const char *base, size_t len, int first)
{
	size_t n = strlen(out);
	if (n + 2 * len + 4 >= max) return;
	if (!first) out[n++] = ',';
	hex_into(out + n, (const uint8_t *) base, len);
}

int main(void)
{
	static char line[1 << 17];
	static char out[1 << 17];
	drv_init();
	while (fgets(line, sizeof(line), stdin)) {
		const char *op;
		char *ptxt = 0, *vtxt = 0;
		size_t plen = 0, vlen = 0;
		int sep = 0;
		char ret[96];
		if (line[0] == '#' || line[0] == '\n') { fputs(line, stdout); continue; }
		drv_split(line);
		if (drv_nw < 2 || strcmp(drv_w[0], "x")) { puts("bad-op"); continue; }
		op = drv_w[1];
		if (!strcmp(op, "begin") && drv_nw == 2) {
			delete conf;
			conf = new config::root;
			result("ok", "0");
		}
		else if (!conf) { puts("bad-op"); }
		else if (!strcmp(op, "set") && drv_nw == 5) {
			ptxt = get_text(drv_w[2], &plen);
			vtxt = get_text(drv_w[4], &vlen);
			if (!ptxt || !vtxt || get_char(drv_w[3], &sep)) { puts("bad-op"); free(ptxt); free(vtxt); continue; }
			bool ok = conf->set(ptxt, vtxt, sep);
			result(ok ? "ok" : "refused", ok ? "0" : "false");
			free(ptxt); free(vtxt);
		}
		else if (!strcmp(op, "setl") && drv_nw == 7) {
			/* path text = <prefix> <n> x 'x' <suffix> (elements around the identifier limit of 65535 bytes) */
			size_t slen = 0, n = 0;
			char *pre = get_text(drv_w[2], &plen), *suf = get_text(drv_w[4], &slen);
			vtxt = get_text(drv_w[6], &vlen);
			if (!pre || !suf || !vtxt || drv_parse_nat(drv_w[3], &n) || n < 65535 || n > 70000 || get_char(drv_w[5], &sep) || sep == 'x') {
				puts("bad-op"); free(pre); free(suf); free(vtxt); continue;
			}
			ptxt = (char *) malloc(plen + n + slen + 1);
			memcpy(ptxt, pre, plen);
			memset(ptxt + plen, 'x', n);
			memcpy(ptxt + plen + n, suf, slen + 1);
			bool ok = conf->set(ptxt, vtxt, sep);
			result(ok ? "ok" : "refused", ok ? "0" : "false");
			free(pre); free(suf); free(ptxt); free(vtxt);
		}
		else if (!strcmp(op, "has") && drv_nw == 4) {
			ptxt = get_text(drv_w[2], &plen);
			if (!ptxt || get_char(drv_w[3], &sep)) { puts("bad-op"); free(ptxt); continue; }
			int ex;
			{
				path p(ptxt, sep, 0);
				ex = conf->query(&p, 0, 0);
			}
			result(ex < 0 ? "absent" : "present", "-");
			free(ptxt);
		}
		else if (!strcmp(op, "del") && drv_nw == 4) {
			ptxt = get_text(drv_w[2], &plen);
			if (!ptxt || get_char(drv_w[3], &sep)) { puts("bad-op"); free(ptxt); continue; }
			bool ok = conf->set(ptxt, 0, sep);
			result(ok ? "ok" : "refused", ok ? "0" : "false");
			free(ptxt);
		}
		else if (!strcmp(op, "get") && drv_nw == 4) {
			static char buf[4200];
			got g = { 0, 0 };
			ptxt = get_text(drv_w[2], &plen);
			if (!ptxt || get_char(drv_w[3], &sep)) { puts("bad-op"); free(ptxt); continue; }
			int r, ex;
			{
				path p(ptxt, sep, 0);
				r = conf->query(&p, get_value, &g);
				ex = conf->query(&p, 0, 0);
			}
			snprintf(ret, sizeof(ret), "%s exists=%s", r < 0 ? drv_errname(r) : "0", ex < 0 ? drv_errname(ex) : "0");
			if (r < 0) result("absent", ret);
			else if (!g.txt) result("val=null", ret);
			else if (g.len > 2000) result("val=?long", ret);
			else { strcpy(buf, "val="); hex_into(buf + 4, (const uint8_t *) g.txt, g.len); result(buf, ret); }
			free(ptxt);
		}
		else if (!strcmp(op, "clear") && drv_nw == 2) {
			path p;
			int r = conf->remove(&p);
			result(r < 0 ? "refused" : "ok", r < 0 ? drv_errname(r) : "0");
		}
		else if (!strcmp(op, "pshare") && drv_nw == 5) {
			/* x pshare <sep-hex> <elems> <elems2>: a path is built, COPIED (the copy shares the buffer), the original loses
			 * its last element, the copy is extended by <elems2>; both are walked: the copy must not be affected */
			int ok = 1, n, dl;
			char *save = 0, *tok;
			if (get_char(drv_w[2], &sep)) { puts("bad-op"); continue; }
			{
				xpath p(0, sep, 0);
				for (tok = strtok_r(drv_w[3], ",", &save); tok; tok = strtok_r(0, ",", &save)) {
					char *e = get_text(tok, &vlen);
					size_t i;
					if (!e) { ok = 0; break; }
					for (i = 0; i < vlen; i++) if (mpt_path_addchar(&p, (uint8_t) e[i]) < 0 || mpt_path_valid(&p) < 0) ok = 0;
					if (p.add((int) vlen) < 0) ok = 0;
					free(e);
				}
				if (!ok || p.empty()) { puts("bad-op"); continue; }
				xpath q(p);
				dl = p.del();
				snprintf(out, sizeof(out), "del=%d add=", dl);
				save = 0;
				for (tok = strtok_r(drv_w[4], ",", &save); tok; tok = strtok_r(0, ",", &save)) {
					char *e = get_text(tok, &vlen);
					size_t i;
					if (!e) { ok = 0; break; }
					int cok = 1;
					for (i = 0; i < vlen; i++) if (mpt_path_addchar(&q, (uint8_t) e[i]) < 0 || mpt_path_valid(&q) < 0) cok = 0;
					strcat(out, !cok ? "C" : q.add((int) vlen) < 0 ? "E" : "+");   /* C: a character was refused */
					free(e);
				}
				if (!ok) { puts("bad-op"); continue; }
				for (int which = 0; which < 2; which++) {
					int first = 1;
					xpath w(which ? p : q);
					strcat(out, which ? " p=" : " q=");
					while (!w.empty()) {
						size_t before = w.o();
						if (!w.next()) break;
						n = (int) (w.o() - before) - 1;
						put_elems(out, sizeof(out), w.b() + before, (size_t) n, first);
						first = 0;
					}
					if (first) strcat(out, "none");
				}
			}
			result(out, "0");
		}
		else if (!strcmp(op, "padd") && drv_nw == 4) {
			int ok = 1, first = 1, n;
			char *save = 0, *tok;
			if (get_char(drv_w[2], &sep)) { puts("bad-op"); continue; }
			{
				xpath p(0, sep, 0);
				strcpy(out, "added=");
				for (tok = strtok_r(drv_w[3], ",", &save); tok; tok = strtok_r(0, ",", &save)) {
					char *e = get_text(tok, &vlen);
					size_t i;
					if (!e) { ok = 0; break; }
					for (i = 0; i < vlen; i++) {
						if (mpt_path_addchar(&p, (uint8_t) e[i]) < 0 || mpt_path_valid(&p) < 0) ok = 0;
					}
					strcat(out, p.add((int) vlen) < 0 ? "E" : "+");
					free(e);
				}
				if (!ok) { puts("bad-op"); continue; }
				strcat(out, " elems=");
				{
					xpath q(p);
					while (!q.empty()) {
						size_t before = q.o();
						if (!q.next()) break;
						n = (int) (q.o() - before) - 1;
						put_elems(out, sizeof(out), q.b() + before, (size_t) n, first);
						first = 0;
					}
				}
				if (first) strcat(out, "none");
				strcat(out, " del=");
				first = 1;
				while (!p.empty() && (n = p.del()) >= 0) {
					char num[16];
					snprintf(num, sizeof(num), "%s%d", first ? "" : ",", n);
					strcat(out, num);
					first = 0;
				}
			}
			result(out, "0");
		}
		else if (!strcmp(op, "end") && drv_nw == 2) {
			delete conf;
			conf = 0;
			result("ok", "0");
		}
		else puts("bad-op");
	}
	delete conf;
	return 0;
}
