/* line-protocol driver: the C++ wrappers of the framed queues, mpt++/queue.cpp (C02, second part).
 * encode_queue::push / trim and decode_queue::advance / current_message / pending_message are called in-process;
 * same op lines and output format as harness/drv_cqueue.c ('eq trim' = trim, 'dq advance', 'dq xdrain'). */
extern "C" {
#include "drv_util.h"
}
#include <errno.h>
#include <sys/uio.h>
#include <sys/socket.h>
#include <fcntl.h>
#include <poll.h>
#include <unistd.h>
/* the harness looks into the library objects (queues, decoder state, descriptors): most members are protected or
 * private in the C++ view */
#define protected public
#define private public
#include "core.h"
#include "convert.h"
#include "message.h"
#include "queue.h"
#include "event.h"
#include "connection.h"
#include "stream.h"
#include "io.h"
#undef protected
#undef private

using namespace mpt;

#define GUARD 0xA5
#define HEAD 64

class xenc : public encode_queue
{
public:
	xenc(data_encoder_t e) : encode_queue(e) { }
	encode_state &st() { return _state; }
};
class xdec : public decode_queue
{
public:
	xdec(data_decoder_t d) : decode_queue(d) { }
	decode_state &st() { return _state; }
};
static xenc *eq;
static xdec *dq;

static int codec_code(const char *n, int *zpe)
{
	*zpe = 0;
	if (!strcmp(n, "raw")) return 0;
	if (!strcmp(n, "command")) return MPT_ENUM(EncodingCommand);
	if (!strcmp(n, "cobs")) return MPT_ENUM(EncodingCobs);
	if (!strcmp(n, "cobs/r")) return MPT_ENUM(EncodingCobsInline);
	if (!strcmp(n, "cobs/zpe")) { *zpe = 1; return MPT_ENUM(EncodingCobs) | MPT_ENUM(EncodingCompress); }
	if (!strcmp(n, "cobs/zpe+r")) { *zpe = 1; return MPT_ENUM(EncodingCobsInline) | MPT_ENUM(EncodingCompress); }
	return -1;
}
static int keynat(const char *w, const char *key, size_t *v)
{
	size_t n = strlen(key);
	if (strncmp(w, key, n) || w[n] != '=') return -1;
	return drv_parse_nat(w + n + 1, v);
}
static const char *retname(long r, char *buf, size_t n)
{
	if (r < 0) return drv_errname(r);
	snprintf(buf, n, "%ld", r);
	return buf;
}
static void put_bytes(const uint8_t *b, size_t n)
{
	if (n <= 96) { drv_puthex(stdout, b, n); return; }
	unsigned long s1 = 1, s2 = 0;
	for (size_t i = 0; i < n; i++) { s1 = (s1 + b[i]) % 65521; s2 = (s2 + s1) % 65521; }
	printf("%zu:%lu.%lu", n, s1, s2);
}

static size_t sent, fdone, got;
static uint8_t *pending; static size_t plen;
static uint8_t *wire; static size_t wirelen, wirecap, wirepos;
static int wire_zpe;
static uint8_t *dq_block; static size_t dq_align;

static void wire_append(const uint8_t *b, size_t n)
{
	if (wirelen + n + 1 > wirecap) { wirecap = (wirelen + n + 1) * 2; wire = (uint8_t *) realloc(wire, wirecap); }
	memcpy(wire + wirelen, b, n);
	wirelen += n;
}
static uint8_t q_at(const queue *q, size_t i)
{
	return ((uint8_t *) q->base)[q->max ? (q->off + i) % q->max : 0];
}
static void q_hex(const queue *q, size_t from, size_t n)
{
	uint8_t *tmp = (uint8_t *) malloc(n ? n : 1);
	for (size_t i = 0; i < n; i++) tmp[i] = q_at(q, from + i);
	put_bytes(tmp, n);
	free(tmp);
}
static void eq_tail(const char *ret)
{
	size_t len = eq->len;
	size_t done = eq->st().done <= len ? eq->st().done : len;
	size_t open = eq->st().scratch <= len - done ? eq->st().scratch : len - done;
	size_t fd = fdone <= done ? fdone : done;
	printf(" | C fin=");
	q_hex(eq, 0, fd);
	printf(" | I ret=%s done=%zu scratch=%zu len=%zu max=%zu off=%zu part=", ret, eq->st().done, eq->st().scratch, eq->len, eq->max, eq->off);
	q_hex(eq, fd, done - fd);
	printf(" open=");
	q_hex(eq, done, open);
	fputc('\n', stdout);
}
static void eq_line(const char *r, const char *ret)
{
	printf("R %s", r);
	eq_tail(ret);
}
static void eq_push(const uint8_t *dat, size_t dlen)
{
	char buf[32], r[48];
	uint8_t *copy = (uint8_t *) malloc(dlen ? dlen : 1);
	memcpy(copy, dat, dlen);
	ssize_t n = eq->push(dlen, copy);
	free(copy);
	uint8_t *old = pending;
	size_t took = n > 0 ? (size_t) n : 0;
	if (took > dlen) took = dlen;
	pending = 0; plen = 0;
	if (dlen - took) { plen = dlen - took; pending = (uint8_t *) malloc(plen); memcpy(pending, dat + took, plen); }
	free(old);
	if (n < 0) { snprintf(r, sizeof(r), "refused n=0"); eq_line(r, drv_errname(n)); return; }
	snprintf(r, sizeof(r), "ok n=%zd", n);
	eq_line(r, retname(n, buf, sizeof(buf)));
}
static uint8_t *store_alloc(size_t align, size_t max, uint8_t **block)
{
	uint8_t *blk;
	if (posix_memalign((void **) &blk, 64, HEAD + align + max + (max ? 0 : 1))) abort();
	memset(blk, GUARD, HEAD + align);
	memset(blk + HEAD + align, 0, max);
	*block = blk;
	return blk + HEAD + align;
}
static int guards_ok(void)
{
	if (!dq_block) return 1;
	for (size_t i = 0; i < HEAD + dq_align; i++) if (dq_block[i] != GUARD) return 0;
	return 1;
}
static void dq_grow(size_t n)
{
	uint8_t *blk, *st;
	if (n <= dq->max) return;
	if (dq->max - dq->len < dq->off) mpt_queue_align(dq, 0);
	st = store_alloc(dq_align, n, &blk);
	if (dq->max) memcpy(st, dq->base, dq->max);
	free(dq_block);
	dq_block = blk;
	dq->base = st;
	dq->max = n;
}
/* current message through decode_queue::current_message */
static void put_message(void)
{
	message msg;
	struct iovec vec;
	if (!dq->pending_message()) { printf("none"); return; }
	if (!dq->current_message(msg, &vec)) { printf("err"); return; }
	size_t len = dq->st().data.msg;
	uint8_t *buf = (uint8_t *) malloc(len ? len : 1);
	size_t n = mpt_message_read(&msg, len, buf);
	if (n != len) printf("short%zu:", n);
	put_bytes(buf, n);
	free(buf);
}
static void dq_tail(const char *ret)
{
	printf(" | I ret=%s content=", ret);
	q_hex(dq, 0, dq->len);
	printf(" data=%zu,%zu,%zd curr=%zu ctx=%zu,%zu len=%zu max=%zu off=%zu store=",
	       dq->st().data.pos, dq->st().data.len, dq->st().data.msg, dq->st().curr,
	       (size_t) (dq->st()._ctx & 0xff), (size_t) (dq->st()._ctx >> 8), dq->len, dq->max, dq->off);
	put_bytes((uint8_t *) dq->base, dq->max);
	fputc('\n', stdout);
}
static void dq_line(const char *r, const char *ret)
{
	printf("R %s guards=%s | C avail=", r, guards_ok() ? "ok" : "bad");
	put_message();
	dq_tail(ret);
}
static size_t wire_cut(const char *mode)
{
	size_t i = wirepos;
	if (!strcmp(mode, "frame")) {
		while (i < wirelen && wire[i]) ++i;
		return i < wirelen ? i + 1 - wirepos : wirelen - wirepos;
	}
	size_t p = 0;
	while (p < wirelen) {
		uint8_t c = wire[p];
		if (!c) { ++p; continue; }
		if (p >= wirepos) return p + 1 - wirepos;
		size_t maxlen = wire_zpe ? 0xdf : 0xff;
		size_t n = c <= maxlen ? c - 1u : c - 0xe0u;
		++p;
		while (n-- && p < wirelen && wire[p]) ++p;
	}
	return wirelen - wirepos;
}

/* ------------------------------------------------------------------ stream glue: the C++ input object io::stream::input
 * (mpt++/io_stream.cpp, io_stream_input.cpp) as receiver; sender and transport as in drv_cqueue.c */
class xin : public io::stream::input
{
public:
	xin(const streaminfo *i) : io::stream::input(i), _ref(1) { }
	void unref() __MPT_OVERRIDE { if (!_ref.lower()) delete this; }
	uintptr_t addref() __MPT_OVERRIDE { return _ref.raise(); }
	void set_decoder(int code) { if (_srm) _srm->_rd._dec = mpt_message_decoder(code); }
private:
	refcount _ref;
};
static ::mpt::stream *stx;
static xin *st_in;
static int st_ready, st_h1 = -1, st_h2 = -1, st_rfd = -1;
static size_t st_sent, st_got, st_moved;
static int st_first;
static uint8_t *st_tb; static size_t st_tblen, st_tbcap, st_tbpos;
static void st_drain(void)
{
	uint8_t tmp[4096];
	ssize_t n;
	while (st_h1 >= 0 && (n = read(st_h1, tmp, sizeof(tmp))) > 0) {
		if (st_tblen + n > st_tbcap) { st_tbcap = (st_tblen + n) * 2; st_tb = (uint8_t *) realloc(st_tb, st_tbcap); }
		memcpy(st_tb + st_tblen, tmp, n);
		st_tblen += n;
	}
}
static void st_close(void)
{
	if (!st_ready) return;
	delete stx; stx = 0;
	if (st_in) { st_in->unref(); st_in = 0; }
	if (st_h1 >= 0) close(st_h1);
	if (st_h2 >= 0) close(st_h2);
	st_h1 = st_h2 = -1;
	st_ready = 0;
}
static int st_ev(void *, event *ev)
{
	if (!ev || !ev->msg) return 0;
	message tmp = *ev->msg;
	size_t len = tmp.length();
	uint8_t *b = (uint8_t *) malloc(len ? len : 1);
	tmp.read(len, b);
	if (!st_first) fputc(',', stdout);
	st_first = 0;
	put_bytes(b, len);
	free(b);
	++st_got;
	return 0;
}
static void st_cmd(void)
{
	const char *op = drv_w[1];
	uint8_t *dat = 0; size_t dlen = 0, a; int isnull = 0;
	char buf[32];
	if (!strcmp(op, "new") && drv_nw == 3) {
		int zpe, code = codec_code(drv_w[2], &zpe), p1[2], p2[2];
		::mpt::socket sock;
		if (code <= 0) { puts("bad-op"); return; }
		st_close();
		if (socketpair(AF_UNIX, SOCK_STREAM, 0, p1) < 0 || socketpair(AF_UNIX, SOCK_STREAM, 0, p2) < 0) { puts("R nosocket | C - | I -"); return; }
		st_h1 = p1[1]; st_h2 = p2[0];
		st_tblen = st_tbpos = 0;
		{ int small = 1; setsockopt(p1[0], SOL_SOCKET, SO_SNDBUF, &small, sizeof(small)); }
		fcntl(p1[0], F_SETFL, fcntl(p1[0], F_GETFL) | O_NONBLOCK);
		fcntl(st_h1, F_SETFL, fcntl(st_h1, F_GETFL) | O_NONBLOCK);
		stx = new ::mpt::stream;
		stx->_wd._enc = mpt_message_encoder(code);
		sock._id = p1[0];
		int r1 = mpt_stream_dopen(stx, &sock, ::mpt::stream::Write | ::mpt::stream::WriteBuf);
		sock._id = -1;   /* the C++ socket closes its descriptor when it goes out of scope */
		/* descriptor and mode of the receiver come from a stream information */
		streaminfo info;
		_mpt_stream_setfile(&info, st_rfd = p2[1], -1);
		info._fd |= ::mpt::stream::ReadBuf;
		st_in = new xin(&info);
		info._fd = 0;   /* the information object would close the descriptor */
		st_in->set_decoder(code);
		st_ready = 1; st_sent = st_got = st_moved = 0;
		printf("R %s | C - | I -\n", r1 < 0 ? "failed" : "ok");
	}
	else if (!st_ready) puts("bad-op");
	else if (!strcmp(op, "push") && drv_nw == 3) {
		if (drv_parse_data(drv_w[2], &dat, &dlen, &isnull) || isnull || !dlen) { puts("bad-op"); free(dat); return; }
		ssize_t n = mpt_stream_push(stx, dlen, dat);
		free(dat);
		printf("R %s n=%s | C - | I -\n", n == (ssize_t) dlen ? "ok" : "short", retname(n, buf, sizeof(buf)));
	}
	else if (!strcmp(op, "term") && drv_nw == 2) {
		ssize_t n = mpt_stream_push(stx, 0, 0);
		if (n >= 0) ++st_sent;
		printf("R %s | C - | I -\n", n >= 0 ? "ok" : "refused");
	}
	else if (!strcmp(op, "flush") && drv_nw == 2) {
		int n = 0;
		do {
			mpt_stream_flush(stx);
			st_drain();
		} while (stx->_wd._state.done && ++n < 100000);
		printf("R %s | C - | I -\n", stx->_wd._state.done ? "failed" : "ok");
	}
	else if (!strcmp(op, "deliver") && drv_nw == 3) {
		if (drv_parse_nat(drv_w[2], &a) || a > (1u << 20)) { puts("bad-op"); return; }
		size_t off = 0, n = st_tblen - st_tbpos;
		if (n > a) n = a;
		while (off < n) {
			ssize_t w = write(st_h2, st_tb + st_tbpos + off, n - off);
			if (w <= 0) break;
			off += w;
		}
		st_tbpos += off;
		st_moved += off;
		printf("R ok n=%zu | C - | I -\n", off);
	}
	else if (!strcmp(op, "poll") && drv_nw == 2) {
		struct pollfd pf;
		int r = 0, n = 0;
		pf.fd = st_rfd; pf.events = POLLIN;
		while (r >= 0 && ++n < 100000 && (pf.revents = 0, poll(&pf, 1, 0)) > 0 && (pf.revents & POLLIN)) {
			r = st_in->next(POLLIN);
		}
		puts("R ok | C - | I -");
	}
	else if (!strcmp(op, "dispatch") && drv_nw == 2) {
		/* the consumer's loop: dispatch while a further message is reported */
		int r, n = 0;
		size_t start = st_got;
		printf("R msgs=");
		st_first = 1;
		do {
			size_t before = st_got;
			r = st_in->dispatch(st_ev, 0);
			if (st_got == before) break;
		} while (r >= 0 && (r & ::mpt::event::Retry) && ++n < 4096);
		if (st_first) fputc('-', stdout);
		printf(" n=%zu | C - | I -\n", st_got - start);
	}
	else if (!strcmp(op, "sync") && drv_nw == 2) {
		printf("R sent=%zu got=%zu | C - | I -\n", st_sent, st_got);
	}
	else puts("bad-op");
}

int main(void)
{
	static char line[1 << 20];
	drv_init();
	signal(SIGPIPE, SIG_IGN);
	signal(SIGALRM, drv_sigfault);
	while (alarm(0), fgets(line, sizeof(line), stdin)) {
		if (line[0] == '#' || line[0] == '\n') { fputs(line, stdout); continue; }
		alarm(4);
		drv_split(line);
		if (drv_nw < 1) { puts("bad-op"); continue; }
		const char *area = drv_w[0], *op = drv_nw > 1 ? drv_w[1] : "";
		uint8_t *dat = 0; size_t dlen = 0, a, b, c; int isnull = 0;
		char buf[32], r[64];
		if (!strcmp(area, "eq")) {
			if (!strcmp(op, "new") && drv_nw == 5) {
				int zpe, code = codec_code(drv_w[2], &zpe);
				if (code < 0 || keynat(drv_w[3], "max", &a) || keynat(drv_w[4], "off", &b) || b > a) { puts("bad-op"); continue; }
				if (eq) { free(eq->base); delete eq; }
				eq = new xenc(code ? mpt_message_encoder(code) : 0);
				eq->base = a ? calloc(a, 1) : 0;
				eq->max = a; eq->off = b;
				free(pending); pending = 0; plen = 0;
				wirelen = 0; wirepos = 0; wire_zpe = zpe;
				sent = 0; fdone = 0;
				eq_line("ok", "0");
			}
			else if (!eq) puts("bad-op");
			else if (!strcmp(op, "push") && drv_nw == 3) {
				if (drv_parse_data(drv_w[2], &dat, &dlen, &isnull) || isnull || !dlen) { puts("bad-op"); free(dat); continue; }
				eq_push(dat, dlen);
				free(dat);
			}
			else if (!strcmp(op, "more") && drv_nw == 2) {
				if (!plen) { eq_line("idle", "0"); continue; }
				dlen = plen; dat = (uint8_t *) malloc(dlen); memcpy(dat, pending, dlen);
				eq_push(dat, dlen);
				free(dat);
			}
			else if (!strcmp(op, "term") && drv_nw == 2) {
				ssize_t n = eq->push(0, 0);
				if (n < 0) { eq_line("refused", drv_errname(n)); continue; }
				free(pending); pending = 0; plen = 0;
				++sent;
				fdone = eq->st().done;
				eq_line("ok", retname(n, buf, sizeof(buf)));
			}
			else if (!strcmp(op, "del") && drv_nw == 3) {
				/* remove messages: the one in progress counts as the first */
				if (drv_parse_nat(drv_w[2], &a) || !a || a > 64) { puts("bad-op"); continue; }
				size_t z0 = 0, z1 = 0, i, fd = fdone <= eq->len ? fdone : eq->len;
				for (i = 0; i < fd; i++) if (!q_at(eq, i)) ++z0;
				ssize_t n = eq->push(a, 0);
				if (n < 0) { eq_line("refused", drv_errname(n)); continue; }
				free(pending); pending = 0; plen = 0;
				if (fdone > eq->st().done) fdone = eq->st().done;
				fd = fdone <= eq->len ? fdone : eq->len;
				for (i = 0; i < fd; i++) if (!q_at(eq, i)) ++z1;
				if (z0 > z1) sent -= z0 - z1;
				eq_line("ok", retname(n, buf, sizeof(buf)));
			}
			else if (!strcmp(op, "grow") && drv_nw == 3) {
				if (drv_parse_nat(drv_w[2], &a) || a > (1u << 20)) { puts("bad-op"); continue; }
				size_t old = eq->max;
				mpt_queue_prepare(eq, a);
				if (eq->max > old) memset(((uint8_t *) eq->base) + old, 0, eq->max - old);
				eq_line("ok", "0");
			}
			else if (!strcmp(op, "align") && drv_nw == 3) {
				if (drv_parse_nat(drv_w[2], &a)) { puts("bad-op"); continue; }
				mpt_queue_align(eq, a);
				eq_line("ok", "0");
			}
			else if (!strcmp(op, "trim") && drv_nw == 3) {
				/* encode_queue::trim: the finished bytes leave the queue (refused beyond the finished size) */
				if (!strcmp(drv_w[2], "all")) a = eq->done();
				else if (drv_parse_nat(drv_w[2], &a)) { puts("bad-op"); continue; }
				size_t n = a <= eq->len ? a : eq->len;
				uint8_t *out = (uint8_t *) malloc(n ? n : 1);
				for (size_t i = 0; i < n; i++) out[i] = q_at(eq, i);
				if (!eq->trim(a)) { free(out); eq_line("refused", "false"); continue; }
				fdone = fdone > a ? fdone - a : 0;
				wire_append(out, a);
				printf("R ok out=");
				put_bytes(out, a);
				free(out);
				eq_tail("true");
			}
			else puts("bad-op");
		}
		else if (!strcmp(area, "dq")) {
			if (!strcmp(op, "new") && drv_nw == 6) {
				int zpe, code = codec_code(drv_w[2], &zpe);
				if (code < 0 || keynat(drv_w[3], "max", &a) || keynat(drv_w[4], "off", &b) || keynat(drv_w[5], "align", &c)
				    || c > 15 || b > a) { puts("bad-op"); continue; }
				if (dq) { delete dq; }
				free(dq_block);
				dq = new xdec(code ? mpt_message_decoder(code) : 0);
				dq_align = c;
				dq->base = store_alloc(c, a, &dq_block);
				dq->max = a; dq->off = b;
				got = 0;
				dq_line("ok", "0");
			}
			else if (!dq) puts("bad-op");
			else if (!strcmp(op, "wire") && drv_nw == 3) {
				size_t n;
				int rr = 0;
				if (!strcmp(drv_w[2], "all")) {
					n = wirelen - wirepos;
					if (n > dq->max - dq->len) dq_grow(dq->len + n);
				}
				else if (!strcmp(drv_w[2], "code") || !strcmp(drv_w[2], "frame")) n = wire_cut(drv_w[2]);
				else if (drv_parse_nat(drv_w[2], &n)) { puts("bad-op"); continue; }
				if (n > wirelen - wirepos) n = wirelen - wirepos;
				if (n && dq->len == dq->max) dq_grow(dq->max * 2 + 64);
				size_t space = dq->max - dq->len;
				if (n > space) n = space;
				if (n) rr = mpt_qpush(dq, n, wire + wirepos);
				if (rr < 0) n = 0;
				wirepos += n;
				snprintf(r, sizeof(r), "ok n=%zu end=%s", n, (!wirepos || !wire[wirepos - 1]) ? "frame" : "mid");
				dq_line(r, retname(rr, buf, sizeof(buf)));
			}
			else if (!strcmp(op, "grow") && drv_nw == 3) {
				if (drv_parse_nat(drv_w[2], &a) || a > (1u << 20)) { puts("bad-op"); continue; }
				dq_grow(a);
				dq_line("ok", "0");
			}
			else if (!strcmp(op, "advance") && drv_nw == 2) {
				bool ok = dq->advance();
				bool have = ok && dq->pending_message();
				if (have) ++got;
				printf("R ret=%s", !ok ? "refused" : have ? "1" : "0");
				if (have) { printf(" msg="); put_message(); }
				printf(" guards=%s | C avail=", guards_ok() ? "ok" : "bad");
				put_message();
				dq_tail(ok ? "true" : "false");
			}
			else if (!strcmp(op, "xdrain") && drv_nw == 2) {
				/* a C++ reader: advance while messages come; a refusal on a non-empty queue is answered with more storage */
				int grown = 0, n = 0;
				bool ok;
				printf("R msgs=");
				while (1) {
					ok = dq->advance();
					if (ok && dq->pending_message()) {
						if (n++) fputc(',', stdout);
						++got;
						put_message();
						grown = 0;
						if (n >= 4096) break;
						continue;
					}
					if (!ok && dq->len && grown < 4) {
						dq_grow(dq->max + 64);
						++grown;
						continue;
					}
					break;
				}
				if (!n) fputc('-', stdout);
				printf(" n=%d last=%s guards=%s | C avail=", n, ok ? "0" : "refused", guards_ok() ? "ok" : "bad");
				put_message();
				dq_tail(ok ? "true" : "false");
			}
			else if (!strcmp(op, "msg") && drv_nw == 2) {
				printf("R msg=");
				put_message();
				printf(" guards=%s | C avail=", guards_ok() ? "ok" : "bad");
				put_message();
				dq_tail("0");
			}
			else puts("bad-op");
		}
		else if (!strcmp(area, "st") && drv_nw >= 2) {
			st_cmd();
		}
		else if (!strcmp(area, "sync") && drv_nw == 1) {
			printf("R sent=%zu got=%zu left=%zu | C - | I -\n", sent, got, wirelen - wirepos);
		}
		else puts("bad-op");
	}
	st_close();
	if (eq) { free(eq->base); delete eq; }
	delete dq;
	free(pending); free(wire);
	free(dq_block);
	return 0;
}
