/* line-protocol driver: mptcore/convert scalar conversions (C07).  Calls the real functions in-process.
 *
 *   c val  <src> <tgt> <value>          mpt_data_converter(src)(&v, tgt, dest) with and without destination
 *   c vval <src> <tgt> <value>          mpt_value_convert({&v, src}, tgt, dest)          "
 *   c consume <src> <tgt> <value>       mpt_iterator_consume(iterator over {&v, src}, tgt, dest)   "
 *   c argv <src> <tgt> <value>          the value passed through `...` to mpt_process_vararg (mpt_value_argv), read by mpt_iterator_consume
 *   c fpoint val <src> <v1> [<v2>]      mpt_fpoint_set from an iterator over typed values (consumes 'f' twice)
 *   c fpoint text <hex> <oracle>        mpt_fpoint_set from mpt_iterator_string(text)
 *   c sweep <src> <tgt> <lo> <hi>       the same as `c val` for every integer lo..hi, summarised
 *   c text <number|string|cint> <tgt> <hex>   mpt_convert_number / mpt_convert_string / mpt_c[u]intN on the C string
 *   c ftext <number|string|cflt> <tgt> <hex>  the same for the floating targets f d e
 *
 * <src>,<tgt>: type codes c b y n q i u x t f d e.  <value>: decimal for integer sources, little-endian hex of
 * the value bytes (4, 8, 10) or `nan` for floating sources.
 */
#include "drv_util.h"
#include <errno.h>
#include <math.h>
#include <float.h>
#include <inttypes.h>
#include <unistd.h>
#include <stdarg.h>
#include "types.h"
#include "convert.h"
#include "meta.h"
#include "values.h"

struct ty { char code; int size, vbytes, sign, flt; };
static const struct ty TYS[] = {
	{ 'c', 1, 1, 1, 0 }, { 'b', 1, 1, 1, 0 }, { 'y', 1, 1, 0, 0 }, { 'n', 2, 2, 1, 0 }, { 'q', 2, 2, 0, 0 },
	{ 'i', 4, 4, 1, 0 }, { 'u', 4, 4, 0, 0 }, { 'x', 8, 8, 1, 0 }, { 't', 8, 8, 0, 0 },
	{ 'f', 4, 4, 1, 1 }, { 'd', 8, 8, 1, 1 }, { 'e', 16, 10, 1, 1 },
	{ 'l', 8, 8, 1, 0 },   /* target only: `long` */
};
static const struct ty *ty_of(const char *s)
{
	if (!s[0] || s[1]) return 0;
	for (size_t i = 0; i < sizeof(TYS) / sizeof(*TYS); i++) if (TYS[i].code == s[0]) return &TYS[i];
	return 0;
}
typedef __int128 wide;
static wide ty_lo(const struct ty *t) { return t->sign ? -((wide) 1 << (8 * t->size - 1)) : 0; }
static wide ty_hi(const struct ty *t) { return t->sign ? ((wide) 1 << (8 * t->size - 1)) - 1 : ((wide) 1 << (8 * t->size)) - 1; }

static int parse_wide(const char *s, wide *out)
{
	int neg = 0; wide v = 0; int n = 0;
	if (*s == '-') { neg = 1; ++s; }
	for (; *s; ++s, ++n) {
		if (*s < '0' || *s > '9' || n > 25) return -1;
		v = v * 10 + (*s - '0');
	}
	if (!n) return -1;
	*out = neg ? -v : v;
	return 0;
}
static void print_wide(wide v)
{
	char b[48]; int i = 47; int neg = v < 0; unsigned __int128 u = neg ? -(unsigned __int128) v : (unsigned __int128) v;
	b[i] = 0;
	do { b[--i] = '0' + (int) (u % 10); u /= 10; } while (u);
	if (neg) b[--i] = '-';
	fputs(b + i, stdout);
}

/* source object */
static _Alignas(16) unsigned char srcbuf[16];
static int isnan_at(const struct ty *t, const void *p)
{
	if (t->code == 'f') return isnan(*(const float *) p);
	if (t->code == 'd') return isnan(*(const double *) p);
	if (t->code == 'e') return isnan(*(const long double *) p);
	return 0;
}
static void store_int(const struct ty *t, wide v)
{
	memset(srcbuf, 0, sizeof(srcbuf));
	switch (t->size) {
	case 1: { uint8_t x = (uint8_t) v; memcpy(srcbuf, &x, 1); break; }
	case 2: { uint16_t x = (uint16_t) v; memcpy(srcbuf, &x, 2); break; }
	case 4: { uint32_t x = (uint32_t) v; memcpy(srcbuf, &x, 4); break; }
	default: { uint64_t x = (uint64_t) v; memcpy(srcbuf, &x, 8); break; }
	}
}
/* returns 0 ok, -1 bad operand; *iv = integer value for integer types */
static int parse_src(const struct ty *t, const char *s, wide *iv)
{
	if (t->flt) {
		memset(srcbuf, 0, sizeof(srcbuf));
		if (!strcmp(s, "nan")) {
			if (t->code == 'f') { float x = NAN; memcpy(srcbuf, &x, sizeof(x)); }
			else if (t->code == 'd') { double x = NAN; memcpy(srcbuf, &x, sizeof(x)); }
			else { long double x = NAN; memcpy(srcbuf, &x, sizeof(x)); }
			return 0;
		}
		uint8_t *b; size_t n; int isnull;
		if (drv_parse_data(s, &b, &n, &isnull) || isnull) return -1;
		if ((int) n != t->vbytes) { free(b); return -1; }
		memcpy(srcbuf, b, n);
		free(b);
		if (isnan_at(t, srcbuf)) return -1;
		if (t->code == 'e') {
			/* only canonical x87 encodings: integer bit set iff exponent field non-zero */
			unsigned ex = (srcbuf[8] | (srcbuf[9] << 8)) & 0x7fff;
			int ibit = srcbuf[7] >> 7;
			if ((ex != 0) != (ibit != 0)) return -1;
		}
		return 0;
	}
	if (parse_wide(s, iv) || *iv < ty_lo(t) || *iv > ty_hi(t)) return -1;
	store_int(t, *iv);
	return 0;
}

/* destination object: 16-byte aligned, guard pattern around the target's size */
#define DSTLEN 64
static _Alignas(16) unsigned char dstbuf[DSTLEN];
static void dst_prepare(void) { memset(dstbuf, 0xa5, DSTLEN); }
static int dst_spilled(const struct ty *t)
{
	for (int i = t->size; i < DSTLEN; i++) if (dstbuf[i] != 0xa5) return 1;
	return 0;
}
static int dst_touched(const struct ty *t)
{
	for (int i = 0; i < t->size; i++) if (dstbuf[i] != 0xa5) return 1;
	return 0;
}
static void out_text(const struct ty *t, char *to, size_t len)
{
	static const char d[] = "0123456789abcdef";
	if (t->flt && isnan_at(t, dstbuf)) { snprintf(to, len, "nan"); return; }
	size_t k = 0;
	for (int i = 0; i < t->vbytes && k + 3 < len; i++) { to[k++] = d[dstbuf[i] >> 4]; to[k++] = d[dstbuf[i] & 15]; }
	to[k] = 0;
}
static const char *retname(int r, char *buf, size_t len)
{
	if (r < 0) return drv_errname(r);
	snprintf(buf, len, "%d", r);
	return buf;
}

static mpt_type_t tcode(const struct ty *t) { return (mpt_type_t) (unsigned char) t->code; }

/* minimal iterator over one value (for mpt_iterator_consume) */
static MPT_STRUCT(value) it_value;
static int it_advanced;
static int it_empty;
static const MPT_STRUCT(value) *it_get(MPT_INTERFACE(iterator) *it) { (void) it; return it_empty ? 0 : &it_value; }
static int it_advance(MPT_INTERFACE(iterator) *it) { (void) it; ++it_advanced; return 0; }
static int it_reset(MPT_INTERFACE(iterator) *it) { (void) it; return 0; }
static const MPT_INTERFACE_VPTR(iterator) it_vptr = { it_get, it_advance, it_reset };
static MPT_INTERFACE(iterator) it_obj = { &it_vptr };

static int do_argv(const struct ty *src, const struct ty *tgt, void *dest);
static int src_null;

/* one conversion, mode 3: through a variadic call; mode 0: converter from mpt_data_converter, mode 1: mpt_value_convert, mode 2: mpt_iterator_consume */
static int do_conv(int mode, const struct ty *src, const struct ty *tgt, void *dest)
{
	if (mode == 3) return do_argv(src, tgt, dest);
	if (mode == 2) {
		it_value._addr = srcbuf;
		it_value._type = tcode(src);
		return mpt_iterator_consume(&it_obj, tcode(tgt), dest);
	}
	if (mode == 0) {
		MPT_TYPE(data_converter) conv = mpt_data_converter(tcode(src));
		if (!conv) return MPT_ERROR(BadType);
		return conv(src_null ? 0 : srcbuf, tcode(tgt), dest);
	} else {
		MPT_STRUCT(value) val = MPT_VALUE_INIT(tcode(src), src_null ? 0 : srcbuf);
		return mpt_value_convert(&val, tcode(tgt), dest);
	}
}

/* ---- mode 3: the value travels through a variadic call: mpt_process_vararg -> mpt_value_argv -> typed iterator,
 *      read with mpt_iterator_consume */
static const struct ty *va_tgt;
static void *va_dest;
static int va_proc(void *ctx, MPT_INTERFACE(iterator) *it)
{
	(void) ctx;
	return mpt_iterator_consume(it, tcode(va_tgt), va_dest);
}
static int call_vararg(const char *fmt, ...)
{
	va_list va;
	int r;
	va_start(va, fmt);
	r = mpt_process_vararg(fmt, va, va_proc, 0);
	va_end(va);
	return r;
}
static int do_argv(const struct ty *src, const struct ty *tgt, void *dest)
{
	char fmt[2] = { src->code, 0 };
	va_tgt = tgt; va_dest = dest;
	switch (src->code) {
	case 'c': case 'b': return call_vararg(fmt, (int) *(int8_t *) srcbuf);
	case 'y': return call_vararg(fmt, (unsigned int) *(uint8_t *) srcbuf);
	case 'n': return call_vararg(fmt, (int) *(int16_t *) srcbuf);
	case 'q': return call_vararg(fmt, (unsigned int) *(uint16_t *) srcbuf);
	case 'i': return call_vararg(fmt, *(int32_t *) srcbuf);
	case 'u': return call_vararg(fmt, *(uint32_t *) srcbuf);
	case 'x': return call_vararg(fmt, *(int64_t *) srcbuf);
	case 't': return call_vararg(fmt, *(uint64_t *) srcbuf);
	case 'f': return call_vararg(fmt, (double) *(float *) srcbuf);
	case 'd': return call_vararg(fmt, *(double *) srcbuf);
	case 'e': return call_vararg(fmt, *(long double *) srcbuf);
	default: return MPT_ERROR(BadArgument);
	}
}

/* ---- two values through a variadic call, read, the iterator reset, read again */
static const struct ty *vr_ty;
static char vr_out[4][48];
static int vr_ret[5];
static int vr_proc(void *ctx, MPT_INTERFACE(iterator) *it)
{
	(void) ctx;
	for (int k = 0; k < 4; k++) {
		if (k == 2) vr_ret[4] = it->_vptr->reset(it);
		dst_prepare();
		vr_ret[k] = mpt_iterator_consume(it, tcode(vr_ty), dstbuf);
		if (vr_ret[k] < 0) strcpy(vr_out[k], "-"); else out_text(vr_ty, vr_out[k], sizeof(vr_out[k]));
	}
	return 0;
}
static int call_vararg_proc(int (*proc)(void *, MPT_INTERFACE(iterator) *), const char *fmt, ...)
{
	va_list va;
	int r;
	va_start(va, fmt);
	r = mpt_process_vararg(fmt, va, proc, 0);
	va_end(va);
	return r;
}

/* ---- mpt_fpoint_set (mptplot): a consumer of mpt_iterator_consume(it, 'f', ..) */
static _Alignas(16) unsigned char fp_vals[2][16];
static int fp_count, fp_pos;
static MPT_STRUCT(value) fp_value;
static const struct ty *fp_ty;
static const MPT_STRUCT(value) *fp_get(MPT_INTERFACE(iterator) *it)
{
	(void) it;
	if (fp_pos >= fp_count) return 0;
	fp_value._addr = fp_vals[fp_pos];
	fp_value._type = tcode(fp_ty);
	return &fp_value;
}
static int fp_advance(MPT_INTERFACE(iterator) *it) { (void) it; if (fp_pos >= fp_count) return MPT_ERROR(MissingData); ++fp_pos; return fp_pos < fp_count ? tcode(fp_ty) : 0; }
static int fp_reset(MPT_INTERFACE(iterator) *it) { (void) it; fp_pos = 0; return fp_count; }
static const MPT_INTERFACE_VPTR(iterator) fp_it_vptr = { fp_get, fp_advance, fp_reset };
static MPT_INTERFACE(iterator) fp_it = { &fp_it_vptr };
static int fp_conv(MPT_INTERFACE(convertable) *c, MPT_TYPE(type) type, void *dest)
{
	(void) c;
	if (type == MPT_ENUM(TypeIteratorPtr)) { if (dest) *(void **) dest = &fp_it; return MPT_ENUM(TypeIteratorPtr); }
	return MPT_ERROR(BadType);
}
static const MPT_INTERFACE_VPTR(convertable) fp_conv_vptr = { fp_conv };
static MPT_INTERFACE(convertable) fp_src = { &fp_conv_vptr };

static void put_fpoint(int r, const MPT_STRUCT(fpoint) *pt, const MPT_STRUCT(fpoint) *keep)
{
	const struct ty *f = ty_of("f");
	char ox[48], oy[48];
	int kept = !memcmp(pt, keep, sizeof(*pt));
	if (r < 0) { printf("R refused | C pt=%s | I ret=%s\n", kept ? "kept" : "changed", drv_errname(r)); return; }
	memset(dstbuf, 0, DSTLEN); memcpy(dstbuf, &pt->x, 4); out_text(f, ox, sizeof(ox));
	memset(dstbuf, 0, DSTLEN); memcpy(dstbuf, &pt->y, 4); out_text(f, oy, sizeof(oy));
	printf("R ok n=%d x=%s y=%s | C pt=set | I ret=%d\n", r, ox, oy, r);
}

static void op_val(int mode, const struct ty *src, const struct ty *tgt)
{
	char out[48], b1[16], b2[16];
	dst_prepare();
	int rd = do_conv(mode, src, tgt, dstbuf);
	const char *vd = rd < 0 ? "refused" : (dst_spilled(tgt) ? "OOB" : "ok");
	if (rd >= 0) out_text(tgt, out, sizeof(out)); else strcpy(out, "-");
	int rq = do_conv(mode, src, tgt, 0);
	if (mode == 0 || mode == 2 || mode == 3) {
		/* the converter's return value is the documented destination size, mpt_iterator_consume returns the type code of the
		 * consumed value: observable */
		char r1[16], r2[16];
		if (rd < 0) strcpy(r1, "-"); else snprintf(r1, sizeof(r1), "%d", rd);
		if (rq < 0) strcpy(r2, "-"); else snprintf(r2, sizeof(r2), "%d", rq);
		printf("R dst=%s out=%s ret=%s nodst=%s qret=%s | C - | I ret=%s qret=%s\n", vd, out, r1, rq < 0 ? "refused" : "ok", r2,
		       retname(rd, b1, sizeof(b1)), retname(rq, b2, sizeof(b2)));
		return;
	}
	printf("R dst=%s out=%s nodst=%s | C - | I ret=%s qret=%s\n", vd, out, rq < 0 ? "refused" : "ok",
	       retname(rd, b1, sizeof(b1)), retname(rq, b2, sizeof(b2)));
}

/* does the target object denote exactly the integer v (and, for 'c', a printable character)? */
static int exact_int(const struct ty *src, const struct ty *tgt, wide v)
{
	wide got;
	switch (tgt->code) {
	case 'c': case 'b': got = *(int8_t *) dstbuf; break;
	case 'y': got = *(uint8_t *) dstbuf; break;
	case 'n': got = *(int16_t *) dstbuf; break;
	case 'q': got = *(uint16_t *) dstbuf; break;
	case 'i': got = *(int32_t *) dstbuf; break;
	case 'u': got = *(uint32_t *) dstbuf; break;
	case 'x': got = *(int64_t *) dstbuf; break;
	case 't': got = *(uint64_t *) dstbuf; break;
	case 'f': return (long double) *(float *) dstbuf == (long double) (int64_t) v;
	case 'd': return (long double) *(double *) dstbuf == (long double) (int64_t) v;
	case 'e': return *(long double *) dstbuf == (long double) (int64_t) v;
	default: return 0;
	}
	if (got != v) return 0;
	if (tgt->code == 'c' && src->code != 'c' && (v < 33 || v > 126)) return 0;
	return 1;
}

static void op_sweep(const struct ty *src, const struct ty *tgt, wide lo, wide hi)
{
	char wrong[512], qdiff[256], runs[4096], out[48];
	size_t wl = 0, ql = 0, rl = 0;
	int nwrong = 0, nq = 0;
	wide run_a = 0, run_b = 0; const char *run_k = 0;
	wrong[0] = qdiff[0] = runs[0] = 0;
	for (wide v = lo; v <= hi; v++) {
		store_int(src, v);
		dst_prepare();
		int rd = do_conv(0, src, tgt, dstbuf);
		const char *vd = rd < 0 ? "refused" : (dst_spilled(tgt) ? "OOB" : "ok");
		int bad = rd >= 0 && (dst_spilled(tgt) || !exact_int(src, tgt, v) || rd != tgt->size);
		if (bad) {
			if (nwrong < 8) {
				out_text(tgt, out, sizeof(out));
				wl += snprintf(wrong + wl, sizeof(wrong) - wl, "%s%lld=%s", nwrong ? "," : "", (long long) v, dst_spilled(tgt) ? "OOB" : out);
			}
			nwrong++;
		}
		int rq = do_conv(0, src, tgt, 0);
		if ((rq < 0) != (rd < 0)) {
			if (nq < 8) ql += snprintf(qdiff + ql, sizeof(qdiff) - ql, "%s%lld", nq ? "," : "", (long long) v);
			nq++;
		}
		if (run_k && !strcmp(run_k, vd) && run_b + 1 == v) run_b = v;
		else {
			if (run_k && rl < sizeof(runs) - 64) rl += snprintf(runs + rl, sizeof(runs) - rl, "%s%lld..%lld:%s", rl ? "," : "", (long long) run_a, (long long) run_b, run_k);
			run_a = run_b = v; run_k = vd;
		}
	}
	if (run_k && rl < sizeof(runs) - 64) rl += snprintf(runs + rl, sizeof(runs) - rl, "%s%lld..%lld:%s", rl ? "," : "", (long long) run_a, (long long) run_b, run_k);
	printf("R wrong=");
	if (nwrong) printf("%d:%s", nwrong, wrong); else printf("-");
	printf(" qdiff=");
	if (nq) printf("%d:%s", nq, qdiff); else printf("-");
	printf(" | C %s | I -\n", runs);
}

static int text_call(const char *fn, const struct ty *tgt, const char *str, void *dest)
{
	errno = ERANGE;   /* the caller's errno is arbitrary */
	if (!strcmp(fn, "number")) return mpt_convert_number(str, tgt->code, dest);
	if (!strcmp(fn, "string")) return mpt_convert_string(str, tcode(tgt), dest);
	if (!strcmp(fn, "cnat")) switch (tgt->code) {
	case 'b': return mpt_cchar(dest, str, 0, 0);
	case 'i': return mpt_cint(dest, str, 0, 0);
	case 'x': return mpt_clong(dest, str, 0, 0);
	case 'y': return mpt_cuchar(dest, str, 0, 0);
	case 'u': return mpt_cuint(dest, str, 0, 0);
	case 't': return mpt_culong(dest, str, 0, 0);
	default: return MPT_ERROR(BadArgument);
	}
	switch (tgt->code) {
	case 'b': return mpt_cint8(dest, str, 0, 0);
	case 'y': return mpt_cuint8(dest, str, 0, 0);
	case 'n': return mpt_cint16(dest, str, 0, 0);
	case 'q': return mpt_cuint16(dest, str, 0, 0);
	case 'i': return mpt_cint32(dest, str, 0, 0);
	case 'u': return mpt_cuint32(dest, str, 0, 0);
	case 'x': return mpt_cint64(dest, str, 0, 0);
	case 't': return mpt_cuint64(dest, str, 0, 0);
	case 'f': return mpt_cfloat(dest, str, 0);
	case 'd': return mpt_cdouble(dest, str, 0);
	case 'e': return mpt_cldouble(dest, str, 0);
	default: return MPT_ERROR(BadArgument);
	}
}
static void op_text(const char *fn, const struct ty *tgt, const uint8_t *dat, size_t len)
{
	char b1[16], out[48];
	/* exact-size C string so that an over-read is caught */
	char *str = malloc(len + 1);
	memcpy(str, dat, len);
	str[len] = 0;
	/* two runs with different fill patterns: the target object is "untouched" iff it keeps both */
	memset(dstbuf, 0x5a, DSTLEN);
	int r0 = text_call(fn, tgt, str, dstbuf);
	int untouched = 1;
	for (int i = 0; i < tgt->size; i++) if (dstbuf[i] != 0x5a) untouched = 0;
	dst_prepare();
	int rd = text_call(fn, tgt, str, dstbuf);
	if (dst_touched(tgt)) untouched = 0;
	int rq = text_call(fn, tgt, str, 0);
	const char *vd = rd < 0 ? "refused" : (dst_spilled(tgt) ? "OOB" : (r0 != rd ? "UNSTABLE" : "ok"));
	if (rd < 0 || untouched) strcpy(out, "-"); else out_text(tgt, out, sizeof(out));
	printf("R dst=%s n=", vd);
	if (rd < 0) printf("-"); else printf("%d", rd);
	printf(" out=%s nodst=%s n=", out, rq < 0 ? "refused" : "ok");
	if (rq < 0) printf("-"); else printf("%d", rq);
	printf(" | C - | I ret=%s\n", retname(rd, b1, sizeof(b1)));
	free(str);
}

int main(void)
{
	static char line[1 << 16];
	drv_init();
	while (fgets(line, sizeof(line), stdin)) {
		if (line[0] == '#' || line[0] == '\n') { fputs(line, stdout); continue; }
		drv_split(line);
		if (drv_nw < 2 || strcmp(drv_w[0], "c")) { puts("bad-op"); continue; }
		const char *op = drv_w[1];
		if ((!strcmp(op, "val") || !strcmp(op, "vval") || !strcmp(op, "consume") || !strcmp(op, "argv")) && drv_nw == 5) {
			const struct ty *src = ty_of(drv_w[2]), *tgt = ty_of(drv_w[3]);
			wide iv;
			if (!src || !tgt || src->code == 'l' || parse_src(src, drv_w[4], &iv)) { puts("bad-op"); continue; }
			op_val(op[0] == 'a' ? 3 : op[0] == 'c' ? 2 : op[1] == 'v', src, tgt);
		}
		else if ((!strcmp(op, "null") || !strcmp(op, "vnull")) && drv_nw == 4) {
			/* c null <src> <tgt>: the converter with a NULL source; c vnull: mpt_value_convert of a value without address */
			const struct ty *src = ty_of(drv_w[2]), *tgt = ty_of(drv_w[3]);
			if (!src || !tgt || src->code == 'l' || tgt->code == 'l') { puts("bad-op"); continue; }
			src_null = 1;
			op_val(op[0] == 'v', src, tgt);
			src_null = 0;
		}
		else if (!strcmp(op, "ftoken") && drv_nw == 5) {
			/* c ftoken <tgt> <hex>: one token of a text file read through the file iterator (mpt_iterator_file) with
			 * mpt_iterator_consume(it, tgt, ..); a fresh iterator for the storing call and for the query */
			const struct ty *tgt = ty_of(drv_w[2]);
			uint8_t *dat; size_t len; int isnull;
			if (!tgt || tgt->code == 'c' || tgt->code == 'l' || drv_parse_data(drv_w[3], &dat, &len, &isnull) || isnull) { puts("bad-op"); continue; }
			int bad = !len;
			for (size_t k = 0; k < len; k++) if (!dat[k] || dat[k] == ' ' || (dat[k] >= 9 && dat[k] <= 13)) bad = 1;
			if (bad) { puts("bad-op"); free(dat); continue; }
			int res[2]; char out[48], b1[16], b2[16];
			strcpy(out, "-");
			for (int q = 0; q < 2; q++) {
				FILE *tf = tmpfile();
				fwrite(dat, 1, len, tf); fputc('\n', tf); fflush(tf);
				int fd = dup(fileno(tf));
				fclose(tf);
				lseek(fd, 0, SEEK_SET);
				MPT_INTERFACE(metatype) *mt = mpt_iterator_file(fd);
				MPT_INTERFACE(iterator) *it = 0;
				if (!mt || MPT_metatype_convert(mt, MPT_ENUM(TypeIteratorPtr), &it) < 0 || !it) { res[q] = -999; if (mt) mt->_vptr->unref(mt); continue; }
				dst_prepare();
				errno = ERANGE;
				res[q] = mpt_iterator_consume(it, tcode(tgt), q ? 0 : dstbuf);
				if (!q && res[q] >= 0) {
					if (dst_spilled(tgt)) strcpy(out, "OOB");
					else if (!dst_touched(tgt)) strcpy(out, "UNSET");
					else out_text(tgt, out, sizeof(out));
				}
				mt->_vptr->unref(mt);
			}
			free(dat);
			printf("R dst=%s out=%s nodst=%s | C - | I ret=%s qret=%s\n", res[0] < 0 ? "refused" : "ok", out, res[1] < 0 ? "refused" : "ok",
			       retname(res[0], b1, sizeof(b1)), retname(res[1], b2, sizeof(b2)));
		}
		else if (!strcmp(op, "argvreset") && drv_nw == 5) {
			/* c argvreset <src> <v1> <v2>: src one of i u x t d */
			const struct ty *src = ty_of(drv_w[2]);
			wide iv;
			_Alignas(16) unsigned char a[16], b[16];
			char fmt[3];
			if (!src || !strchr("iuxtd", src->code) || parse_src(src, drv_w[3], &iv)) { puts("bad-op"); continue; }
			memcpy(a, srcbuf, 16);
			if (parse_src(src, drv_w[4], &iv)) { puts("bad-op"); continue; }
			memcpy(b, srcbuf, 16);
			fmt[0] = fmt[1] = src->code; fmt[2] = 0;
			vr_ty = src;
			int r;
			switch (src->code) {
			case 'i': r = call_vararg_proc(vr_proc, fmt, *(int32_t *) a, *(int32_t *) b); break;
			case 'u': r = call_vararg_proc(vr_proc, fmt, *(uint32_t *) a, *(uint32_t *) b); break;
			case 'x': r = call_vararg_proc(vr_proc, fmt, *(int64_t *) a, *(int64_t *) b); break;
			case 't': r = call_vararg_proc(vr_proc, fmt, *(uint64_t *) a, *(uint64_t *) b); break;
			default: r = call_vararg_proc(vr_proc, fmt, *(double *) a, *(double *) b); break;
			}
			printf("R first=%s,%s reset=%d again=%s,%s | C - | I ret=%d\n", vr_out[0], vr_out[1], vr_ret[4], vr_out[2], vr_out[3], r);
		}
		else if (!strcmp(op, "fseq") && drv_nw == 4) {
			/* c fseq <hex text> <types>: a text file of several words; one mpt_iterator_consume per type letter on ONE file
			 * iterator (a refused element is asked for again with the next type) */
			uint8_t *dat; size_t len; int isnull;
			const char *types = drv_w[3];
			if (drv_parse_data(drv_w[2], &dat, &len, &isnull) || isnull || !len || strlen(types) > 4 || !*types) { puts("bad-op"); continue; }
			int bad = 0;
			for (const char *p = types; *p; ++p) if (!strchr("bynqiuxt", *p)) bad = 1;
			for (size_t k = 0; k < len; k++) if (!dat[k]) bad = 1;
			if (bad) { puts("bad-op"); free(dat); continue; }
			FILE *tf = tmpfile();
			fwrite(dat, 1, len, tf); fputc('\n', tf); fflush(tf);
			int fd = dup(fileno(tf));
			fclose(tf);
			lseek(fd, 0, SEEK_SET);
			free(dat);
			MPT_INTERFACE(metatype) *mt = mpt_iterator_file(fd);
			MPT_INTERFACE(iterator) *it = 0;
			if (!mt || MPT_metatype_convert(mt, MPT_ENUM(TypeIteratorPtr), &it) < 0 || !it) { puts("bad-op"); continue; }
			printf("R");
			for (const char *p = types; *p; ++p) {
				char t1[2] = { *p, 0 }, out[48];
				const struct ty *tgt = ty_of(t1);
				dst_prepare();
				int r = mpt_iterator_consume(it, tcode(tgt), dstbuf);
				if (r < 0) printf(" refused");
				else { out_text(tgt, out, sizeof(out)); printf(" ok:%s", dst_touched(tgt) ? out : "UNSET"); }
			}
			printf(" | C - | I -\n");
			mt->_vptr->unref(mt);
		}
		else if (!strcmp(op, "sconv") && drv_nw == 6) {
			/* c sconv <hex word> <t1> <t2> <oracle>: one element of a string iterator, value() taken once, asked for type t1
			 * without destination, then converted to t2 through the same value */
			uint8_t *dat; size_t len; int isnull;
			const struct ty *t1 = ty_of(drv_w[3]), *t2 = ty_of(drv_w[4]);
			if (!t1 || !t2 || t1->code == 'l' || t2->code == 'l' || t2->code == 'c' || drv_parse_data(drv_w[2], &dat, &len, &isnull) || isnull || !len) { puts("bad-op"); continue; }
			char *str = malloc(len + 1);
			memcpy(str, dat, len); str[len] = 0; free(dat);
			int bad = 0;
			for (size_t k = 0; k < len; k++) if (!str[k] || str[k] == ' ' || (str[k] >= 9 && str[k] <= 13)) bad = 1;
			MPT_INTERFACE(metatype) *mt = bad ? 0 : mpt_iterator_string(str, 0);
			MPT_INTERFACE(iterator) *it = 0;
			if (!mt || MPT_metatype_convert(mt, MPT_ENUM(TypeIteratorPtr), &it) < 0 || !it) { puts("bad-op"); free(str); if (mt) mt->_vptr->unref(mt); continue; }
			const MPT_STRUCT(value) *val = it->_vptr->value(it);
			char out[48];
			errno = ERANGE;
			int r1 = val ? mpt_value_convert(val, tcode(t1), 0) : -1;
			dst_prepare();
			errno = ERANGE;
			int r2 = val ? mpt_value_convert(val, tcode(t2), dstbuf) : -1;
			if (r2 >= 0) out_text(t2, out, sizeof(out));
			printf("R first=%s second=%s", r1 < 0 ? "refused" : "ok", r2 < 0 ? "refused" : "ok:");
			if (r2 >= 0) printf("%s", dst_spilled(t2) ? "OOB" : out);
			printf(" | C - | I -\n");
			mt->_vptr->unref(mt);
			free(str);
		}
		else if (!strcmp(op, "skip") && drv_nw == 4) {
			/* c skip <src> <v>: mpt_iterator_consume(it, 0, 0) */
			const struct ty *src = ty_of(drv_w[2]);
			wide iv;
			if (!src || src->code == 'l' || parse_src(src, drv_w[3], &iv)) { puts("bad-op"); continue; }
			it_value._addr = srcbuf;
			it_value._type = tcode(src);
			it_advanced = 0;
			int r = mpt_iterator_consume(&it_obj, 0, 0);
			char b1[16];
			if (r > 0 && r < 128) printf("R skipped type=%c | C advanced=%d | I -\n", r, it_advanced);
			else printf("R %s | C advanced=%d | I -\n", retname(r, b1, sizeof(b1)), it_advanced);
		}
		else if (!strcmp(op, "consume-none") && drv_nw == 3) {
			const struct ty *tgt = ty_of(drv_w[2]);
			char b1[16];
			if (!tgt) { puts("bad-op"); continue; }
			it_empty = 1; it_advanced = 0;
			dst_prepare();
			int r = mpt_iterator_consume(&it_obj, tcode(tgt), dstbuf);
			it_empty = 0;
			printf("R %s | C advanced=%d | I ret=%s\n", r < 0 ? (dst_touched(tgt) ? "STORED" : "refused") : "ok", it_advanced, retname(r, b1, sizeof(b1)));
		}
		else if (!strcmp(op, "fpoint") && drv_nw >= 4 && !strcmp(drv_w[2], "text") && drv_nw == 5) {
			/* c fpoint text <hex> <oracle>: one numeral word through mpt_iterator_string */
			uint8_t *dat; size_t len; int isnull;
			if (drv_parse_data(drv_w[3], &dat, &len, &isnull) || isnull) { puts("bad-op"); continue; }
			char *str = malloc(len + 1);
			memcpy(str, dat, len); str[len] = 0; free(dat);
			int blank = !len;
			for (size_t k = 0; k < len; k++) if (!str[k] || str[k] == ' ' || (str[k] >= 9 && str[k] <= 13)) blank = 1;
			if (blank) { puts("bad-op"); free(str); continue; }      /* one word only */
			MPT_STRUCT(fpoint) keep = { 12345.5f, -54321.25f }, pt = keep;
			MPT_INTERFACE(metatype) *mt = mpt_iterator_string(str, 0);
			if (!mt) { puts("bad-op"); free(str); continue; }
			errno = ERANGE;
			int r = mpt_fpoint_set(&pt, (MPT_INTERFACE(convertable) *) mt, 0);
			mt->_vptr->unref(mt);
			put_fpoint(r, &pt, &keep);
			free(str);
		}
		else if (!strcmp(op, "fpoint") && (drv_nw == 5 || drv_nw == 6) && !strcmp(drv_w[2], "val")) {
			/* c fpoint val <src> <v1> [<v2>]: typed values through a two element iterator */
			const struct ty *src = ty_of(drv_w[3]);
			wide iv;
			int bad = !src;
			fp_count = drv_nw - 4; fp_pos = 0; fp_ty = src;
			for (int k = 0; !bad && k < fp_count; k++) {
				if (parse_src(src, drv_w[4 + k], &iv)) bad = 1;
				else memcpy(fp_vals[k], srcbuf, 16);
			}
			if (bad) { puts("bad-op"); continue; }
			MPT_STRUCT(fpoint) keep = { 12345.5f, -54321.25f }, pt = keep;
			int r = mpt_fpoint_set(&pt, &fp_src, 0);
			put_fpoint(r, &pt, &keep);
		}
		else if (!strcmp(op, "sweep") && drv_nw == 6) {
			const struct ty *src = ty_of(drv_w[2]), *tgt = ty_of(drv_w[3]);
			wide lo, hi;
			if (!src || !tgt || src->flt || src->size > 2 || parse_wide(drv_w[4], &lo) || parse_wide(drv_w[5], &hi)
			    || lo < ty_lo(src) || hi > ty_hi(src) || lo > hi) { puts("bad-op"); continue; }
			op_sweep(src, tgt, lo, hi);
		}
		else if ((!strcmp(op, "text") && drv_nw == 5) || (!strcmp(op, "ftext") && drv_nw == 6)) {
			/* ftext: the 6th word is the oracle's list of admissible results, used by the model side only */
			const struct ty *tgt = ty_of(drv_w[3]);
			uint8_t *dat; size_t len; int isnull;
			const char *fn = drv_w[2];
			int isf = op[0] == 'f';
			int nat = !isf && !strcmp(fn, "cnat");
			if (!tgt || tgt->flt != isf || ((tgt->code == 'c' || tgt->code == 'l') && strcmp(fn, "number") && strcmp(fn, "string"))
			    || (nat && !strchr("bixyut", tgt->code))
			    || (!nat && strcmp(fn, "number") && strcmp(fn, "string") && strcmp(fn, isf ? "cflt" : "cint"))
			    || drv_parse_data(drv_w[4], &dat, &len, &isnull)) { puts("bad-op"); continue; }
			if (isnull) { free(dat); puts("bad-op"); continue; }
			op_text(fn, tgt, dat, len);
			free(dat);
		}
		else puts("bad-op");
	}
	return 0;
}
