/* shared by drv_ident.c and drvxx_ident.cpp: slots, observation of the library's malloc/free (link with
 * -Wl,--wrap=malloc -Wl,--wrap=free), operand parsing, result lines */
#ifndef DRV_IDENT_COMMON_H
#define DRV_IDENT_COMMON_H
/* the struct fields are protected in C++: read them through a plain mirror of the layout */
struct drv_rawid { uint16_t _len; uint8_t _charset; uint8_t _max; char _val[4]; char *_base; };
#define RAWID(p) ((const struct drv_rawid *) (const void *) (p))
#ifdef __cplusplus
extern "C" {
#endif
void *__real_malloc(size_t);
void __real_free(void *);
void *__wrap_malloc(size_t n);
void __wrap_free(void *p);
#ifdef __cplusplus
}
#endif

#define MAXID 16
#define MAXBLK 256

static struct slot {
	MPT_STRUCT(identifier) *id;   /* NULL = unused/dead */
	void *storage;                /* what to free (the node for node identifiers) */
	size_t size;
} slots[MAXID];
static size_t nslot;

/* blocks allocated by library code */
static struct { void *ptr; int owner; } blk[MAXBLK];
static size_t nblk;
static int in_lib = -1;  /* owner of the running library call, -1 = harness code */

/* the next allocation made by library code fails (op setfail) */
static int fail_armed;
static int fail_hit;
void *__wrap_malloc(size_t n)
{
	void *p;
	if (in_lib >= 0 && fail_armed) { fail_armed = 0; fail_hit = 1; return 0; }
	p = __real_malloc(n);
	if (in_lib >= 0 && p && nblk < MAXBLK) { blk[nblk].ptr = p; blk[nblk].owner = in_lib; ++nblk; }
	return p;
}
void __wrap_free(void *p)
{
	if (in_lib >= 0 && p) {
		size_t i;
		for (i = 0; i < nblk; i++) if (blk[i].ptr == p) { blk[i] = blk[--nblk]; break; }
	}
	__real_free(p);
}
static size_t owned(int k)
{
	size_t i, n = 0;
	for (i = 0; i < nblk; i++) if (blk[i].owner == k) ++n;
	return n;
}
/* release what the library left behind for owner k; returns the number of blocks */
static size_t reap(int k)
{
	size_t i = 0, n = 0;
	while (i < nblk) {
		if (blk[i].owner == k) { __real_free(blk[i].ptr); blk[i] = blk[--nblk]; ++n; }
		else ++i;
	}
	return n;
}

/* byte-string operand: "-" empty, hex, "rep:<hh>:<n>", "null"; result has a terminating 0 appended */
static int parse_bytes(const char *s, uint8_t **out, size_t *len, int *isnull)
{
	*isnull = 0; *out = 0; *len = 0;
	if (!strcmp(s, "null")) { *isnull = 1; return 0; }
	if (!strncmp(s, "rep:", 4)) {
		int a = drv_hexval(s[4]), b = a < 0 ? -1 : drv_hexval(s[5]);
		size_t n;
		if (a < 0 || b < 0 || s[6] != ':' || drv_parse_nat(s + 7, &n) || n > 200000 || (s[7] == '0' && s[8])) return -1;
		*out = (uint8_t *) __real_malloc(n + 1);
		memset(*out, a * 16 + b, n);
		(*out)[n] = 0;
		*len = n;
		return 0;
	}
	{
		uint8_t *d; int nul;
		if (drv_parse_data(s, &d, len, &nul)) return -1;
		if (nul) { free(d); return -1; }
		*out = (uint8_t *) __real_malloc(*len + 1);
		memcpy(*out, d, *len);
		(*out)[*len] = 0;
		free(d);
	}
	return 0;
}
/* explicit length operand: decimal, or "-1" */
static int parse_len(const char *s, long *v)
{
	size_t n;
	if (!strcmp(s, "-1")) { *v = -1; return 0; }
	if ((s[0] == '0' && s[1]) || drv_parse_nat(s, &n) || n > 1000000) return -1;
	*v = (long) n;
	return 0;
}
static uint32_t fnv(const uint8_t *b, size_t n)
{
	uint32_t h = 2166136261u;
	size_t i;
	for (i = 0; i < n; i++) { h ^= b[i]; h *= 16777619u; }
	return h;
}
/* content: short = hex, long = length, hash, first and last 8 bytes */
static void put_content(const uint8_t *b, size_t n)
{
	if (n <= 40) { drv_puthex(stdout, b, n); return; }
	printf("#%zu:%08x:", n, fnv(b, n));
	drv_puthex(stdout, b, 8);
	fputs("..", stdout);
	drv_puthex(stdout, b + n - 8, 8);
}
/* what an identifier reads back as: through mpt_identifier_data and the length field */
static void put_ident(const MPT_STRUCT(identifier) *id)
{
	const uint8_t *d = (const uint8_t *) mpt_identifier_data(id);
	size_t len = RAWID(id)->_len;
	printf("%u:", (unsigned) RAWID(id)->_charset);
	if (!len) { fputs("unset", stdout); return; }
	if (!d) { fputs("!nulldata", stdout); return; }
	if (RAWID(id)->_charset == 1 /* UTF8 */) {
		/* text: the stored length counts a terminating zero */
		if (d[len - 1]) fputs("!unterminated:", stdout);
		put_content(d, len - 1);
	} else {
		fputs("raw:", stdout);
		put_content(d, len);
	}
}
static const char *extra_i = "";
static void put_state(void)
{
	size_t k, any = 0;
	fputs(" | C", stdout);
	for (k = 0; k < nslot; k++) {
		if (!slots[k].id) continue;
		printf(" k%zu=", k);
		put_ident(slots[k].id);
		++any;
	}
	if (!any) fputs(" -", stdout);
	fputs(" | I", stdout);
	for (k = 0; k < nslot; k++) {
		if (!slots[k].id) continue;
		printf(" k%zu=%u/%u/%s/%zu", k, (unsigned) RAWID(slots[k].id)->_len, (unsigned) RAWID(slots[k].id)->_max,
		       RAWID(slots[k].id)->_len > RAWID(slots[k].id)->_max ? "ext" : "inl", owned((int) k));
	}
	printf(" heap=%zu%s\n", nblk, extra_i);
}
static void result(const char *r)
{
	printf("R %s", r);
	put_state();
}
static int new_slot(MPT_STRUCT(identifier) *id, void *storage, size_t size)
{
	slots[nslot].id = id; slots[nslot].storage = storage; slots[nslot].size = size;
	return (int) nslot++;
}
static int parse_slot(const char *s, size_t *k)
{
	if ((s[0] == '0' && s[1]) || drv_parse_nat(s, k) || *k >= nslot || !slots[*k].id) return -1;
	return 0;
}
static void drop_all(void)
{
	size_t k;
	for (k = 0; k < nslot; k++) {
		if (!slots[k].id) continue;
		in_lib = (int) k; mpt_identifier_set(slots[k].id, 0, 0); in_lib = -1;
		reap((int) k);
		__real_free(slots[k].storage);
		slots[k].id = 0;
	}
	nslot = 0;
}

#endif
