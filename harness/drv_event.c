/* line-protocol driver: mptcore/event dispatcher and command table (C11).
 * Calls the real functions in-process.  Handlers are harness functions whose argument identifies the
 * registration; they log (registration#, id | FINAL) and return the result scripted by the current op. */
#include "drv_util.h"
#include <errno.h>
#include <limits.h>
#include <inttypes.h>
#include <ctype.h>
#include "array.h"
#include "message.h"
#include "meta.h"
#include "event.h"
#include "types.h"
#include <sys/uio.h>

#include "drv_event_common.h"

static MPT_STRUCT(dispatch) disp_storage;

/* fallback handler of the second dispatcher (op fbreentry); `victim` counts the invocations after the end-of-life call */
static MPT_STRUCT(dispatch) re_disp;
struct re_reg;
int re_fb_handler(void *arg, MPT_STRUCT(event) *ev);

/* the dispatcher's own fallback reply context (disp->_ctx, op ctx): a reference counted metatype that converts to the
 * harness reply context; released by mpt_dispatch_fini */
struct drv_ctx { MPT_INTERFACE(metatype) mt; int refs; };
static int drv_ctx_convert(MPT_INTERFACE(convertable) *val, MPT_TYPE(type) type, void *ptr)
{
	(void) val;
	if (!type) return MPT_ENUM(TypeReplyPtr);
	if (type == MPT_ENUM(TypeReplyPtr)) {
		if (ptr) *((MPT_INTERFACE(reply_context) **) ptr) = &drv_rc;
		return MPT_ENUM(TypeReplyPtr);
	}
	return MPT_ERROR(BadType);
}
static void drv_ctx_unref(MPT_INTERFACE(metatype) *mt)
{
	struct drv_ctx *c = (struct drv_ctx *) mt;
	if (--c->refs <= 0) free(c);
}
static uintptr_t drv_ctx_addref(MPT_INTERFACE(metatype) *mt)
{
	return (uintptr_t) ++((struct drv_ctx *) mt)->refs;
}
static MPT_INTERFACE(metatype) *drv_ctx_clone(const MPT_INTERFACE(metatype) *mt)
{
	(void) mt; return 0;
}
static const MPT_INTERFACE_VPTR(metatype) drv_ctx_vptr = { { drv_ctx_convert }, drv_ctx_unref, drv_ctx_addref, drv_ctx_clone };

/* a second dispatcher whose handlers unregister another id from inside their end-of-life call (op reentry) */
static struct re_reg { int eol; uintptr_t victim; } re_regs[12];
static int re_depth;
int re_fb_handler(void *arg, MPT_STRUCT(event) *ev)
{
	struct re_reg *r = arg;
	if (ev) {
		if (r->eol) ++r->victim;
		return 0;
	}
	++r->eol;
	if (re_depth < 4) {
		MPT_STRUCT(event) e2 = MPT_EVENT_INIT;
		e2.id = 99;
		++re_depth;
		mpt_dispatch_emit(&re_disp, &e2);
		--re_depth;
	}
	return 0;
}
static int re_handler(void *arg, MPT_STRUCT(event) *ev)
{
	struct re_reg *r = arg;
	if (ev) return 0;
	++r->eol;
	/* the depth limit only keeps a library that calls back without end from exhausting the stack */
	if (r->victim && re_depth < 40) {
		++re_depth;
		mpt_dispatch_set(&re_disp, r->victim, 0, 0);
		--re_depth;
	}
	return 0;
}
static void drv_release(void) { mpt_dispatch_fini(DISP); }

int main(void)
{
	static char line[1 << 16];
	drv_init();
	while (fgets(line, sizeof(line), stdin)) {
		if (line[0] == '#' || line[0] == '\n') { fputs(line, stdout); continue; }
		drv_split(line);
		logn = 0;
		cur_res = 0; cur_zero = 0; cur_nest = 0; in_nest = 0;
		if (drv_nw < 2 || strcmp(drv_w[0], "e")) { puts("bad-op"); continue; }
		const char *op = drv_w[1];
		uintptr_t id;
		if (!strcmp(op, "new") && drv_nw == 3 && (!strcmp(drv_w[2], "fb") || !strcmp(drv_w[2], "nofb") || !strcmp(drv_w[2], "builtin"))) {
			teardown();
			D = (struct drv_rawdisp *) &disp_storage;
			mpt_dispatch_init(DISP);
			have = 1;
			rc_on = 0;
			stale_id = 0;
			nreg = 1; /* registration 0 is the fallback */
			if (drv_w[2][0] == 'f') { D->_err.cmd = handler; D->_err.arg = &regs[0]; }
			else if (drv_w[2][0] == 'n') { D->_err.cmd = 0; D->_err.arg = 0; }
			/* builtin: the fallback mpt_dispatch_init installed stays */
			result("ok", "0", 0);
			continue;
		}
		if (!have) { puts("bad-op"); continue; }
		if (!strcmp(op, "stale") && drv_nw == 3) {
			if (parse_id(drv_w[2], &id)) { puts("bad-op"); continue; }
			stale_id = id;
			result("ok", "0", 0);
		}
		else if (!strcmp(op, "ctx") && drv_nw == 2) {
			/* give the dispatcher a fallback reply context of its own (kept until mpt_dispatch_fini) */
			if (!D->_ctx) {
				struct drv_ctx *c = malloc(sizeof(*c));
				c->mt._vptr = &drv_ctx_vptr;
				c->refs = 1;
				D->_ctx = c;
			}
			result("ok", "0", 0);
		}
		else if (!strcmp(op, "rc") && drv_nw == 3 && (!strcmp(drv_w[2], "on") || !strcmp(drv_w[2], "off"))) {
			/* from now on the events carry (no longer carry) a reply context */
			rc_on = drv_w[2][1] == 'n';
			result("ok", "0", 0);
		}
		else if ((!strcmp(op, "set") || !strcmp(op, "cset")) && drv_nw == 3) {
			if (parse_id(drv_w[2], &id) || nreg >= MAXREG) { puts("bad-op"); continue; }
			size_t r = nreg++;
			int ret = (*op == 's')
			        ? mpt_dispatch_set(DISP, id, handler, &regs[r])
			        : mpt_command_set((MPT_STRUCT(array) *) (void *) &D->_d, id, (int (*)(void *, void *)) handler, &regs[r]);
			result_verdict(ret);
		}
		else if (!strcmp(op, "clear") && drv_nw == 3) {
			if (parse_id(drv_w[2], &id)) { puts("bad-op"); continue; }
			result_verdict(mpt_dispatch_set(DISP, id, 0, 0));
		}
		else if (!strcmp(op, "clearall") && drv_nw == 2) {
			mpt_command_clear((MPT_STRUCT(array) *) (void *) &D->_d);
			result("ok", "0", 0);
		}
		else if (!strcmp(op, "emit") && drv_nw == 5 && !strcmp(drv_w[2], "id")) {
			MPT_STRUCT(event) ev = MPT_EVENT_INIT; EV_RC(ev);
			if (parse_id(drv_w[3], &id) || parse_res(drv_w[4])) { puts("bad-op"); continue; }
			ev.id = id;
			int ret = mpt_dispatch_emit(DISP, &ev);
			result_ret(ret, ev.id);
		}
		else if (!strcmp(op, "hashf") && drv_nw == 4) {
			/* mpt_dispatch_hash with the message given in fragments "<hex>,<hex>,..." ("-" = empty fragment), each in a
			 * block of exactly its size */
			MPT_STRUCT(event) ev = MPT_EVENT_INIT; EV_RC(ev);
			MPT_STRUCT(message) msg = MPT_MESSAGE_INIT;
			struct iovec vec[16];
			uint8_t *blk[17];
			size_t nf = 0, i;
			int bad = 0;
			char *p = drv_w[2];
			if (parse_res(drv_w[3])) { puts("bad-op"); continue; }
			while (p && !bad) {
				char *c = strchr(p, ',');
				size_t dlen; int isnull;
				if (c) *c = 0;
				if (nf >= 16 || drv_parse_data(p, &blk[nf], &dlen, &isnull)) bad = 1;
				else if (isnull) { free(blk[nf]); bad = 1; }
				else {
					if (nf) { vec[nf-1].iov_base = blk[nf]; vec[nf-1].iov_len = dlen; }
					else { msg.base = blk[0]; msg.used = dlen; }
					++nf;
				}
				p = c ? c + 1 : 0;
			}
			if (bad) { for (i = 0; i < nf; i++) free(blk[i]); puts("bad-op"); continue; }
			msg.cont = vec; msg.clen = nf - 1;
			ev.msg = &msg;
			int ret = mpt_dispatch_hash(DISP, &ev);
			result_ret(ret, ev.id);
			for (i = 0; i < nf; i++) free(blk[i]);
		}
		else if (!strcmp(op, "emit") && drv_nw == 5 && (!strcmp(drv_w[2], "msg") || !strcmp(drv_w[2], "cmd"))) {
			MPT_STRUCT(event) ev = MPT_EVENT_INIT; EV_RC(ev);
			MPT_STRUCT(message) msg = MPT_MESSAGE_INIT;
			uint8_t *dat; size_t dlen; int isnull;
			if (parse_res(drv_w[4]) || drv_parse_data(drv_w[3], &dat, &dlen, &isnull)) { puts("bad-op"); continue; }
			if (isnull) { free(dat); puts("bad-op"); continue; }
			msg.base = dat; msg.used = dlen;
			ev.msg = &msg;
			if (dlen) ev.id = stale_id;
			cur_nest = drv_w[2][0] == 'c';
			int ret = mpt_dispatch_emit(DISP, &ev);
			result_ret(ret, ev.id);
			free(dat);
		}
		else if (!strcmp(op, "emit") && drv_nw == 4 && !strcmp(drv_w[2], "none")) {
			if (parse_res(drv_w[3])) { puts("bad-op"); continue; }
			result_ret(mpt_dispatch_emit(DISP, 0), 0);
		}
		else if (!strcmp(op, "hash") && drv_nw == 4) {
			MPT_STRUCT(event) ev = MPT_EVENT_INIT; EV_RC(ev);
			MPT_STRUCT(message) msg = MPT_MESSAGE_INIT;
			uint8_t *dat; size_t dlen; int isnull;
			if (parse_res(drv_w[3]) || drv_parse_data(drv_w[2], &dat, &dlen, &isnull)) { puts("bad-op"); continue; }
			if (isnull) { free(dat); puts("bad-op"); continue; }
			msg.base = dat; msg.used = dlen;
			ev.msg = &msg;
			int ret = mpt_dispatch_hash(DISP, &ev);
			result_ret(ret, ev.id);
			free(dat);
		}
		else if (!strcmp(op, "hashn") && drv_nw == 2) {
			/* mpt_dispatch_hash with an event that carries no message */
			MPT_STRUCT(event) ev = MPT_EVENT_INIT; EV_RC(ev);
			ev.id = 77;
			int ret = mpt_dispatch_hash(DISP, &ev);
			result_ret(ret, ev.id);
		}
		else if (!strcmp(op, "djb2") && drv_nw == 3) {
			/* mpt_hash_djb2 on a terminated buffer (len = -1) and on exactly the given bytes (in a block of that size) */
			uint8_t *dat, *blk; size_t dlen; int isnull;
			char v[80];
			if (drv_parse_data(drv_w[2], &dat, &dlen, &isnull)) { puts("bad-op"); continue; }
			if (isnull) { free(dat); puts("bad-op"); continue; }
			blk = malloc(dlen + 1);
			memcpy(blk, dat, dlen);
			blk[dlen] = 0;
			uintptr_t hz = mpt_hash_djb2(blk, -1);
			free(blk);
			blk = malloc(dlen ? dlen : 1);
			memcpy(blk, dat, dlen);
			uintptr_t hn = mpt_hash_djb2(blk, (int) dlen);
			free(blk);
			free(dat);
			snprintf(v, sizeof(v), "z=%" PRIuPTR " n=%" PRIuPTR, hz, hn);
			result(v, "0", 0);
		}
		else if (!strcmp(op, "hold") && drv_nw == 4) {
			/* k reservations in a row that stay outstanding (placeholder handler, not activated), then released again:
			 * the ids handed out must be distinct and carried by no active element */
			uintptr_t w, k, ids[300];
			size_t got = 0, i, j;
			int fresh = 1;
			char v[64], buf[32];
			if (parse_id(drv_w[2], &w) || parse_id(drv_w[3], &k) || k > 300 || w > 9) { puts("bad-op"); continue; }
			while (got < k) {
				MPT_STRUCT(command) *base, *c = mpt_command_reserve((MPT_STRUCT(array) *) (void *) &D->_d, w);
				size_t n;
				if (!c) break;
				n = table(&base);
				for (i = 0; i < n; i++) if (base + i != c && base[i].cmd && base[i].id == c->id) fresh = 0;
				ids[got++] = c->id;
			}
			for (i = 0; i < got; i++) for (j = 0; j < i; j++) if (ids[i] == ids[j]) fresh = 0;
			for (i = 0; i < got; i++) if (mpt_dispatch_set(DISP, ids[i], 0, 0) < 0) fresh = 0;
			snprintf(v, sizeof(v), "ok n=%zu fresh=%d", got, fresh);
			snprintf(buf, sizeof(buf), "%" PRIuPTR, got ? ids[got-1] : (uintptr_t) 0);
			result(v, buf, 0);
		}
		else if (!strcmp(op, "fbreentry") && drv_nw == 2) {
			/* a fallback handler (on a dispatcher of its own) whose end-of-life call emits an event with an unknown id:
			 * it must not be invoked once it was told to finish, and is told so exactly once */
			extern int re_fb_handler(void *, MPT_STRUCT(event) *);
			char v[64];
			memset(re_regs, 0, sizeof(re_regs));
			mpt_dispatch_init(&re_disp);
			((struct drv_rawdisp *) (void *) &re_disp)->_err.cmd = re_fb_handler;
			((struct drv_rawdisp *) (void *) &re_disp)->_err.arg = &re_regs[0];
			re_depth = 0;
			mpt_dispatch_fini(&re_disp);
			snprintf(v, sizeof(v), "eol=%d after=%d", re_regs[0].eol, (int) re_regs[0].victim);
			result(v, "0", 0);
		}
		else if (!strcmp(op, "reentry") && drv_nw == 4) {
			/* n handlers (ids 1..n) on a dispatcher of their own; the end-of-life call of handler k unregisters id v_k
			 * (0 = nobody).  After <mode> (fini | clearall | drop | clear<k> | cset<k>) and the teardown every registration
			 * must have had exactly one end-of-life call */
			uintptr_t vic[8];
			size_t n = 0, i, which = 0;
			char *p, v[96];
			int bad = 0, mode;
			const char *m = drv_w[2];
			if (!strcmp(m, "fini")) mode = 0;
			else if (!strcmp(m, "clearall")) mode = 1;
			else if (!strcmp(m, "drop")) mode = 2;
			else if (!strncmp(m, "clear", 5) && m[5] >= '1' && m[5] <= '8' && !m[6]) { mode = 3; which = (size_t) (m[5] - '0'); }
			else if (!strncmp(m, "cset", 4) && m[4] >= '1' && m[4] <= '8' && !m[5]) { mode = 4; which = (size_t) (m[4] - '0'); }
			else { puts("bad-op"); continue; }
			for (p = drv_w[3]; p && !bad; ) {
				char *c = strchr(p, ',');
				if (c) *c = 0;
				if (n >= 8 || p[0] < '0' || p[0] > '8' || p[1]) bad = 1; else vic[n++] = (uintptr_t) (p[0] - '0');
				p = c ? c + 1 : 0;
			}
			for (i = 0; i < n; i++) if (vic[i] > n) bad = 1;
			if (bad || !n || which > n) { puts("bad-op"); continue; }
			memset(re_regs, 0, sizeof(re_regs));
			mpt_dispatch_init(&re_disp);
			for (i = 0; i < n; i++) {
				re_regs[i].victim = vic[i];
				mpt_dispatch_set(&re_disp, i + 1, re_handler, &re_regs[i]);
			}
			re_depth = 0;
			if (mode == 1) mpt_command_clear((MPT_STRUCT(array) *) (void *) &re_disp._d);
			else if (mode == 2) mpt_array_clone((MPT_STRUCT(array) *) (void *) &re_disp._d, 0);
			else if (mode == 3) mpt_dispatch_set(&re_disp, which, 0, 0);
			else if (mode == 4) { mpt_command_set((MPT_STRUCT(array) *) (void *) &re_disp._d, which, (int (*)(void *, void *)) re_handler, &re_regs[n]); ++n; }
			mpt_dispatch_fini(&re_disp);
			p = v + snprintf(v, sizeof(v), "eol=");
			for (i = 0; i < n; i++) p += snprintf(p, sizeof(v) - (size_t) (p - v), "%s%d", i ? "," : "", re_regs[i].eol);
			result(v, "0", 0);
		}
		else if (!strcmp(op, "holdemit") && drv_nw == 3) {
			/* known finding: an event that reaches a reservation which is still outstanding (placeholder handler
			 * log_reply, which takes its second argument for a message) */
			uintptr_t w;
			MPT_STRUCT(event) ev = MPT_EVENT_INIT; EV_RC(ev);
			if (parse_id(drv_w[2], &w) || w > 9) { puts("bad-op"); continue; }
			MPT_STRUCT(command) *c = mpt_command_reserve((MPT_STRUCT(array) *) (void *) &D->_d, w);
			if (!c) { result("refused", "null", 0); continue; }
			ev.id = c->id;
			int ret = mpt_dispatch_emit(DISP, &ev);
			result_ret(ret, ev.id);
		}
		else if (!strcmp(op, "reserve") && drv_nw == 3) {
			uintptr_t w;
			if (parse_id(drv_w[2], &w) || nreg >= MAXREG) { puts("bad-op"); continue; }
			size_t r = nreg++;
			MPT_STRUCT(command) *c = mpt_command_reserve((MPT_STRUCT(array) *) (void *) &D->_d, w);
			if (!c) result("refused", "null", 0);
			else {
				char v[48], buf[32];
				MPT_STRUCT(command) *base;
				size_t n = table(&base), i;
				int fresh = 1;
				/* harness-side observation: does another active element carry the id that was handed out? */
				for (i = 0; i < n; i++) {
					if (base + i != c && base[i].cmd && base[i].id == c->id) fresh = 0;
				}
				/* activate the reserved slot with a harness registration */
				c->cmd = (int (*)(void *, void *)) handler;
				c->arg = &regs[r];
				snprintf(v, sizeof(v), "ok fresh=%d", fresh);
				snprintf(buf, sizeof(buf), "%" PRIuPTR, c->id);
				new_reg = r;
				result(v, buf, 0);
				new_reg = (size_t) -1;
			}
		}
		else if (!strcmp(op, "drop") && drv_nw == 2) {
			/* release the table through the generic array interface (buffer unref -> content traits fini) */
			mpt_array_clone((MPT_STRUCT(array) *) (void *) &D->_d, 0);
			result("ok", "0", 0);
		}
		else if (!strcmp(op, "tcopy") && drv_nw == 3) {
			/* copy construction of a command element through the content traits: the element holding registration r */
			MPT_STRUCT(command) *base, tmp;
			size_t n = table(&base), i, r;
			uintptr_t rv;
			if (parse_id(drv_w[2], &rv) || rv > 99999) { puts("bad-op"); continue; }
			r = (size_t) rv;
			for (i = 0; i < n; i++) if (r < nreg && base[i].cmd && base[i].arg == (void *) &regs[r]) break;
			memset(&tmp, 0xa5, sizeof(tmp));
			if (i >= n) {
				/* no element holds the registration: the source is an unused element, or no source at all */
				MPT_STRUCT(command) unused;
				size_t b;
				memset(&unused, 0, sizeof(unused));
				unused.id = rv;
				int ret0 = mpt_command_traits()->init(&tmp, (rv & 1) ? &unused : 0);
				for (b = 0; b < sizeof(tmp); b++) if (((unsigned char *) &tmp)[b]) ret0 = ret0 < 0 ? ret0 : -99;
				if (ret0 >= 0) mpt_command_traits()->fini(&tmp);
				result_verdict(ret0);
				continue;
			}
			int ret = mpt_command_traits()->init(&tmp, base + i);
			/* a constructed copy is destroyed again through the traits */
			if (ret >= 0) mpt_command_traits()->fini(&tmp);
			result_verdict(ret);
		}
		else if (!strcmp(op, "fini") && drv_nw == 2) {
			mpt_dispatch_fini(DISP);
			result("ok", "0", 0);
		}
		else puts("bad-op");
	}
	teardown();
	return 0;
}
