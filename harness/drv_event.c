/* line-protocol driver: mptcore/event dispatcher and command table (C11).
 * Calls the real functions in-process.  Handlers are harness functions whose argument identifies the
 * registration; they log (registration#, id | FINAL) and return the result scripted by the current op. */
#include "drv_util.h"
#include <errno.h>
#include <limits.h>
#include <inttypes.h>
#include <ctype.h>
#include "array.h"
#include "message.h"
#include "event.h"

#define MAXREG 4096
#define MAXLOG 8192

static MPT_STRUCT(dispatch) disp;
static int have;

/* registrations: the handler argument is &regs[r] */
static struct reg { int dummy; } regs[MAXREG];
static size_t nreg;

/* log of handler invocations during the current op */
static struct { size_t reg; int final; uintptr_t id; } logv[MAXLOG];
static size_t logn;
static int quiet;

/* scripted result of the handler invoked by the current op */
static int cur_res;
static int cur_zero;

static int handler(void *arg, MPT_STRUCT(event) *ev)
{
	size_t r = (struct reg *) arg - regs;
	if (!quiet && logn < MAXLOG) {
		logv[logn].reg = r;
		logv[logn].final = ev ? 0 : 1;
		logv[logn].id = ev ? ev->id : 0;
		++logn;
	}
	if (!ev) return 0;
	if (cur_zero) ev->id = 0;
	return cur_res;
}
static void put_entry(size_t i)
{
	if (logv[i].final) printf("%zu:F", logv[i].reg);
	else printf("%zu:%" PRIuPTR, logv[i].reg, logv[i].id);
}
/* log entries, stable-sorted by registration number (the order among several end-of-life notifications
 * of one op is not part of the property; the raw order is printed in the I section) */
static void put_log_sorted(void)
{
	size_t idx[MAXLOG], i, j;
	if (!logn) { fputc('-', stdout); return; }
	for (i = 0; i < logn; i++) {
		size_t k = i;
		for (j = i; j > 0 && logv[idx[j-1]].reg > logv[k].reg; j--) idx[j] = idx[j-1];
		idx[j] = k;
	}
	for (i = 0; i < logn; i++) { if (i) fputc(',', stdout); put_entry(idx[i]); }
}
static void put_log_raw(void)
{
	size_t i;
	if (!logn) { fputc('-', stdout); return; }
	for (i = 0; i < logn; i++) { if (i) fputc(',', stdout); put_entry(i); }
}
/* table as stored: read from the buffer memory, independent of the library's lookup functions */
static size_t table(MPT_STRUCT(command) **base)
{
	MPT_STRUCT(buffer) *b = disp._d._buf;
	if (!b) { *base = 0; return 0; }
	*base = (MPT_STRUCT(command) *) (b + 1);
	return b->_used / sizeof(**base);
}
static void put_state(void)
{
	MPT_STRUCT(command) *c;
	size_t n = table(&c), i, r, any = 0;
	printf(" | C live=");
	/* live registrations in registration order */
	for (r = 0; r < nreg; r++) {
		for (i = 0; i < n; i++) {
			if (c[i].cmd && c[i].arg == (void *) &regs[r]) {
				if (any++) fputc(',', stdout);
				printf("%" PRIuPTR ">%zu", c[i].id, r);
			}
		}
	}
	/* live slots that do not belong to the harness */
	for (i = 0; i < n; i++) {
		if (c[i].cmd && (c[i].cmd != (int (*)(void *, void *)) handler
		    || (struct reg *) c[i].arg < regs || (struct reg *) c[i].arg >= regs + nreg)) {
			if (any++) fputc(',', stdout);
			printf("%" PRIuPTR ">?", c[i].id);
		}
	}
	if (!any) fputc('-', stdout);
	if (!disp._err.cmd) printf(" fb=-");
	else if (disp._err.cmd == handler) printf(" fb=%zu", (size_t) ((struct reg *) disp._err.arg - regs));
	else printf(" fb=?");
	printf(" def=%" PRIuPTR, disp._def);
}
static void put_internals(const char *ret, uintptr_t evid)
{
	MPT_STRUCT(command) *c;
	MPT_STRUCT(buffer) *b = disp._d._buf;
	size_t n = table(&c), i;
	printf(" | I ret=%s evid=%" PRIuPTR " used=%zu cap=%zu typed=%d slots=", ret, evid, n,
	       b ? b->_size : (size_t) 0, b && b->_content_traits ? 1 : 0);
	if (!n) fputc('-', stdout);
	for (i = 0; i < n; i++) {
		if (i) fputc(',', stdout);
		if (!c[i].cmd) printf("%" PRIuPTR ":-", c[i].id);
		else if (c[i].cmd == (int (*)(void *, void *)) handler) printf("%" PRIuPTR ":%zu", c[i].id, (size_t) ((struct reg *) c[i].arg - regs));
		else printf("%" PRIuPTR ":?", c[i].id);
	}
	printf(" raw=");
	put_log_raw();
	fputc('\n', stdout);
}
static void result(const char *verdict, const char *ret, uintptr_t evid)
{
	printf("R %s log=", verdict);
	put_log_sorted();
	put_state();
	put_internals(ret, evid);
}
static void result_verdict(long r)
{
	char buf[32];
	snprintf(buf, sizeof(buf), "%ld", r);
	result(r < 0 ? "refused" : "ok", buf, 0);
}
static void result_ret(long r, uintptr_t evid)
{
	char v[48], buf[32];
	snprintf(v, sizeof(v), "ret=%ld", r);
	snprintf(buf, sizeof(buf), "%ld", r);
	result(v, buf, evid);
}
/* strict decimal: digits only, no leading zero */
static int parse_dec(const char *s, unsigned long long *v)
{
	char *e;
	if (!*s || *s < '0' || *s > '9' || (s[0] == '0' && s[1])) return -1;
	for (e = (char *) s; *e; ++e) if (*e < '0' || *e > '9') return -1;
	if (strlen(s) > 20) return -1;
	errno = 0;
	*v = strtoull(s, &e, 10);
	if (*e || errno) return -1;
	return 0;
}
/* "<int>" or "<int>z" (handler clears the event id before returning); range of int, "-0" not accepted */
static int parse_res(const char *s)
{
	char tmp[32];
	unsigned long long v;
	size_t n = strlen(s);
	int neg = 0, zero = 0;
	if (!n || n >= sizeof(tmp)) return -1;
	memcpy(tmp, s, n + 1);
	if (tmp[n-1] == 'z') { zero = 1; tmp[--n] = 0; }
	const char *d = tmp;
	if (*d == '-') { neg = 1; ++d; }
	if (parse_dec(d, &v)) return -1;
	if (neg ? (v == 0 || v > 2147483648ULL) : (v > 2147483647ULL)) return -1;
	cur_zero = zero;
	cur_res = neg ? (int) -(long long) v : (int) v;
	return 0;
}
static int parse_id(const char *s, uintptr_t *id)
{
	unsigned long long v;
	if (parse_dec(s, &v)) return -1;
	*id = (uintptr_t) v;
	return 0;
}
static void teardown(void)
{
	if (!have) return;
	quiet = 1;
	mpt_dispatch_fini(&disp);
	quiet = 0;
	have = 0;
}

int main(void)
{
	static char line[1 << 16];
	drv_init();
	while (fgets(line, sizeof(line), stdin)) {
		if (line[0] == '#' || line[0] == '\n') { fputs(line, stdout); continue; }
		drv_split(line);
		logn = 0;
		cur_res = 0; cur_zero = 0;
		if (drv_nw < 2 || strcmp(drv_w[0], "e")) { puts("bad-op"); continue; }
		const char *op = drv_w[1];
		uintptr_t id;
		if (!strcmp(op, "new") && drv_nw == 3 && (!strcmp(drv_w[2], "fb") || !strcmp(drv_w[2], "nofb"))) {
			teardown();
			mpt_dispatch_init(&disp);
			have = 1;
			nreg = 1; /* registration 0 is the fallback */
			if (drv_w[2][0] == 'f') { disp._err.cmd = handler; disp._err.arg = &regs[0]; }
			else { disp._err.cmd = 0; disp._err.arg = 0; }
			result("ok", "0", 0);
			continue;
		}
		if (!have) { puts("bad-op"); continue; }
		if ((!strcmp(op, "set") || !strcmp(op, "cset")) && drv_nw == 3) {
			if (parse_id(drv_w[2], &id) || nreg >= MAXREG) { puts("bad-op"); continue; }
			size_t r = nreg++;
			int ret = (*op == 's')
			        ? mpt_dispatch_set(&disp, id, handler, &regs[r])
			        : mpt_command_set(&disp._d, id, (int (*)(void *, void *)) handler, &regs[r]);
			result_verdict(ret);
		}
		else if (!strcmp(op, "clear") && drv_nw == 3) {
			if (parse_id(drv_w[2], &id)) { puts("bad-op"); continue; }
			result_verdict(mpt_dispatch_set(&disp, id, 0, 0));
		}
		else if (!strcmp(op, "clearall") && drv_nw == 2) {
			mpt_command_clear(&disp._d);
			result("ok", "0", 0);
		}
		else if (!strcmp(op, "emit") && drv_nw == 5 && !strcmp(drv_w[2], "id")) {
			MPT_STRUCT(event) ev = MPT_EVENT_INIT;
			if (parse_id(drv_w[3], &id) || parse_res(drv_w[4])) { puts("bad-op"); continue; }
			ev.id = id;
			int ret = mpt_dispatch_emit(&disp, &ev);
			result_ret(ret, ev.id);
		}
		else if (!strcmp(op, "emit") && drv_nw == 5 && !strcmp(drv_w[2], "msg")) {
			MPT_STRUCT(event) ev = MPT_EVENT_INIT;
			MPT_STRUCT(message) msg = MPT_MESSAGE_INIT;
			uint8_t *dat; size_t dlen; int isnull;
			if (parse_res(drv_w[4]) || drv_parse_data(drv_w[3], &dat, &dlen, &isnull)) { puts("bad-op"); continue; }
			if (isnull) { free(dat); puts("bad-op"); continue; }
			msg.base = dat; msg.used = dlen;
			ev.msg = &msg;
			int ret = mpt_dispatch_emit(&disp, &ev);
			result_ret(ret, ev.id);
			free(dat);
		}
		else if (!strcmp(op, "emit") && drv_nw == 4 && !strcmp(drv_w[2], "none")) {
			if (parse_res(drv_w[3])) { puts("bad-op"); continue; }
			result_ret(mpt_dispatch_emit(&disp, 0), 0);
		}
		else if (!strcmp(op, "hash") && drv_nw == 4) {
			MPT_STRUCT(event) ev = MPT_EVENT_INIT;
			MPT_STRUCT(message) msg = MPT_MESSAGE_INIT;
			uint8_t *dat; size_t dlen; int isnull;
			if (parse_res(drv_w[3]) || drv_parse_data(drv_w[2], &dat, &dlen, &isnull)) { puts("bad-op"); continue; }
			if (isnull) { free(dat); puts("bad-op"); continue; }
			msg.base = dat; msg.used = dlen;
			ev.msg = &msg;
			int ret = mpt_dispatch_hash(&disp, &ev);
			result_ret(ret, ev.id);
			free(dat);
		}
		else if (!strcmp(op, "reserve") && drv_nw == 3) {
			uintptr_t w;
			if (parse_id(drv_w[2], &w) || nreg >= MAXREG) { puts("bad-op"); continue; }
			size_t r = nreg++;
			MPT_STRUCT(command) *c = mpt_command_reserve(&disp._d, w);
			if (!c) result("refused", "null", 0);
			else {
				char v[48], buf[32];
				MPT_STRUCT(command) *base;
				size_t n = table(&base), i;
				int fresh = 1;
				/* harness-side observation: does another active element carry the id that was handed out? */
				for (i = 0; i < n; i++) {
					if (base + i != c && base[i].cmd && base[i].id == c->id) fresh = 0;
				}
				/* activate the reserved slot with a harness registration */
				c->cmd = (int (*)(void *, void *)) handler;
				c->arg = &regs[r];
				snprintf(v, sizeof(v), "ok fresh=%d", fresh);
				snprintf(buf, sizeof(buf), "%" PRIuPTR, c->id);
				result(v, buf, 0);
			}
		}
		else if (!strcmp(op, "fini") && drv_nw == 2) {
			mpt_dispatch_fini(&disp);
			result("ok", "0", 0);
		}
		else puts("bad-op");
	}
	teardown();
	return 0;
}
