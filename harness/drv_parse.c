/* line-protocol driver: mptcore/parse + mptcore/config/path_*.c (C08, C09).
 * Calls the real functions in-process.
 *
 *   p fmt <hex|null> <sect> <opt>     format description string (as given to mpt_parse_format) and the
 *                                     name flag words of parser_context.name
 *   p input <hex> [eof|err]           the bytes the getc callback will deliver, then the end marker
 *                                     (-2 end of input, -1 read error), again and again
 *   p root <forest>                   replace the children of the target node
 *   p config [fail=<k>]               mpt_parse_config with a recording path handler (the handler
 *                                     refuses the k-th event, counted from 0); the handler reads every
 *                                     value it is given and checks that the range lies behind the path
 *                                     inside the used data of the path buffer (vals=ok)
 *   p node                            mpt_parse_node(target, ctx, fmt)
 *                                     (into an empty target: the nodes are compared, in creation order, with
 *                                     the names and values of the elements mpt_parse_config reports: names=ok)
 *   p expect <forest>                 the tree the next `p node` has to deliver (spec side, stated by the generator)
 *   p nparse <limits-hex|null> <log|nolog>   mpt_node_parse(target, stdio stream over the input, fmt, limits,
 *                                     logger or NULL): replaces the children on success
 *   p folder                          mpt_parse_folder over a directory whose only file holds the input
 *                                     (default format, recording handler)
 *   p render <style> <decor> <forest> <hex>   (C09) the text of <forest> as written by the reference
 *                                     writer; the real code only takes <hex> as input
 *   p tree                            print the target
 *   p config keep                     as `p config`, the handler keeps a SHARED reference (struct copy + addref, what the
 *                                     copy constructor of mpt::path does) to the path buffer of every event; after the
 *                                     parse the kept paths must still hold the bytes they had (kept=ok) and are released
 *   p oom <k>                         mpt_parse_node of the input into a scratch target while the k-th allocation request
 *                                     of the library is refused: a failure must leave the scratch target empty
 *                                     (clean=yes) and after dropping the target the allocation balance must be that of
 *                                     before (leak=0)
 *   p deep <n> <closed|open>          default format, text of n nested sections `a{` ... `}` (open: the last `}` is
 *                                     missing) through mpt_parse_node into a scratch target that is dropped afterwards:
 *                                     nesting of any depth is a valid text (ret=0), the open one fails (ret<0)
 *   p stat                            observables of the last parse the spec does not speak about, compared with
 *                                     the model (section C): return code, line counter, getc calls, consumed bytes;
 *                                     behind `p node` also the number of values stored inline / buffer-backed
 *   p end                             drop the target, compare the allocation balance with the
 *                                     state at the previous `p end` (start of the script)
 *
 *   forest = '.' | tree{,tree}     tree = <name-hex|-> [ '=' <value-hex|-> ] [ '(' forest ')' ]
 *   events = ev{,ev}               ev   = S:<path> | E:<path> | O:<path>[=<value>] | D:<path>=<value>
 *   path   = <elem-hex|->{/<elem>} or '.' for the empty path
 */
#include "drv_util.h"
#include <errno.h>
#include <sys/uio.h>

#include "meta.h"
#include "types.h"
#include "convert.h"
#include "node.h"
#include <stdarg.h>
#include <dirent.h>
#include <fcntl.h>
#include "output.h"
#include "config.h"
#include "array.h"
#include "parse.h"

extern size_t __sanitizer_get_current_allocated_bytes(void);   /* ASan runtime */
extern int __lsan_do_recoverable_leak_check(void);

/* ------------------------------------------------------------------ output buffer */
static char *ob;
static size_t oblen, obcap;
static void ob_reset(void) { oblen = 0; if (ob) ob[0] = 0; }
static void ob_put(const char *s, size_t n)
{
	if (oblen + n + 1 > obcap) {
		obcap = (oblen + n + 1) * 2 + 256;
		ob = realloc(ob, obcap);
	}
	memcpy(ob + oblen, s, n);
	oblen += n;
	ob[oblen] = 0;
}
static void ob_s(const char *s) { ob_put(s, strlen(s)); }
static void ob_hex(const uint8_t *b, size_t n)
{
	static const char d[] = "0123456789abcdef";
	if (!n) { ob_s("-"); return; }
	for (size_t i = 0; i < n; i++) { char c[2] = { d[b[i] >> 4], d[b[i] & 15] }; ob_put(c, 2); }
}

/* ------------------------------------------------------------------ state */
static char *fmt_str;            /* NULL = default format */
static unsigned name_sect = 0xff, name_opt = 0xff;
static uint8_t *input;
static size_t input_len, input_pos;
static int input_end = -2;
static size_t getc_calls;
static MPT_STRUCT(node) root = MPT_NODE_INIT;
static size_t base_bytes;
static int have_base;

static int drv_getc(void *arg)
{
	(void) arg;
	++getc_calls;
	if (input_pos < input_len) return input[input_pos++];
	return input_end;
}

/* ------------------------------------------------------------------ trees */
static const char *unsound;   /* first broken link seen while printing */
static size_t vals_str, vals_vec;   /* values printed: with / without the plain string conversion (inline / buffer-backed) */
static char last_stat[200] = "-";  /* observables of the last parse, printed by `p stat` */
static int refused;                 /* the recording handler refused a call */
static void put_tree(const MPT_STRUCT(node) *n, const MPT_STRUCT(node) *parent, int depth);
static void put_forest(const MPT_STRUCT(node) *first, const MPT_STRUCT(node) *parent, int depth)
{
	const MPT_STRUCT(node) *prev = 0;
	if (!first) { if (!depth) ob_s("."); return; }
	if (depth > 4000) { ob_s("?deep"); return; }
	for (const MPT_STRUCT(node) *n = first; n; prev = n, n = n->next) {
		if (prev) ob_s(",");
		if (n->prev != prev) unsound = "prev";
		if (n->parent != parent) unsound = "parent";
		put_tree(n, parent, depth);
	}
}
static void put_tree(const MPT_STRUCT(node) *n, const MPT_STRUCT(node) *parent, int depth)
{
	(void) parent;
	if (!n->ident._len) ob_s("-");
	else if (n->ident._charset != MPT_CHARSET(UTF8)) ob_s("?charset");
	else {
		const uint8_t *id = mpt_identifier_data(&n->ident);
		size_t len = n->ident._len - 1;
		if (id[len]) ob_s("?unterminated");
		ob_hex(id, len);
	}
	if (n->_meta) {
		/* the value as the library hands it out: character vector, with the terminating zero dropped */
		struct iovec vec = { 0, 0 };
		MPT_INTERFACE(convertable) *conv = (MPT_INTERFACE(convertable) *) n->_meta;
		ob_s("=");
		if (conv->_vptr->convert(conv, MPT_type_toVector('c'), &vec) < 0) ob_s("?noconv");
		else {
			const uint8_t *b = vec.iov_base;
			size_t len = vec.iov_len;
			if (len && !b[len - 1]) --len; else ob_s("?unterminated");
			ob_hex(b, len);
			/* the plain string conversion has to agree up to the first zero byte */
			const char *s = 0;
			/* (long text is buffer-backed and only offers the vector form) */
			if (conv->_vptr->convert(conv, 's', &s) < 0 || !s) { ++vals_vec; }
			else if (++vals_str, 0) { }
			else if (strlen(s) != strnlen((const char *) b, len) || memcmp(s, b, strlen(s))) ob_s("?strdiff");
		}
	}
	if (n->children) {
		ob_s("(");
		put_forest(n->children, n, depth + 1);
		ob_s(")");
	}
}
/* forest text -> nodes linked under parent; returns position after the forest or NULL */
static const char *build_forest(const char *s, MPT_STRUCT(node) *parent);
static const char *hex_token(const char *s, uint8_t **out, size_t *len)
{
	size_t n = 0;
	if (*s == '-') { *out = malloc(1); *len = 0; return s + 1; }
	while (drv_hexval(s[n]) >= 0) ++n;
	if (!n || (n & 1)) return 0;
	*out = malloc(n / 2);
	for (size_t i = 0; i < n / 2; i++) (*out)[i] = (uint8_t) (drv_hexval(s[2*i]) * 16 + drv_hexval(s[2*i+1]));
	*len = n / 2;
	return s + n;
}
static const char *build_tree(const char *s, MPT_STRUCT(node) *parent)
{
	uint8_t *name = 0, *val = 0; size_t nlen = 0, vlen = 0; int hasval = 0;
	MPT_STRUCT(node) *n, *last;
	if (!(s = hex_token(s, &name, &nlen))) return 0;
	if (*s == '=') {
		hasval = 1;
		if (!(s = hex_token(s + 1, &val, &vlen))) { free(name); return 0; }
	}
	n = mpt_node_new(nlen + 1);
	if (nlen) mpt_identifier_set(&n->ident, (const char *) name, (int) nlen);
	if (hasval) {
		struct iovec vec = { val, vlen };
		MPT_STRUCT(value) v = MPT_VALUE_INIT(MPT_type_toVector('c'), &vec);
		n->_meta = mpt_meta_new(&v);
	}
	free(name); free(val);
	/* link by hand (the node functions are what another property checks) */
	n->parent = parent;
	if (!(last = parent->children)) parent->children = n;
	else { while (last->next) last = last->next; last->next = n; n->prev = last; }
	if (*s == '(') {
		if (!(s = build_forest(s + 1, n)) || *s != ')') return 0;
		++s;
	}
	return s;
}
static const char *build_forest(const char *s, MPT_STRUCT(node) *parent)
{
	if (*s == '.') return s + 1;
	while (1) {
		if (!(s = build_tree(s, parent))) return 0;
		if (*s != ',') return s;
		++s;
	}
}

/* ------------------------------------------------------------------ allocation refusal (linked with --wrap) */
void *__real_malloc(size_t);
void *__real_calloc(size_t, size_t);
void *__real_realloc(void *, size_t);
static long oom_at;          /* > 0: refuse this allocation request (counted from 1) */
static long oom_count;       /* requests seen while counting */
static int oom_on;
static int oom_refuse(void)
{
	if (!oom_on) return 0;
	++oom_count;
	return oom_at > 0 && oom_count == oom_at;
}
void *__wrap_malloc(size_t n) { return oom_refuse() ? 0 : __real_malloc(n); }
void *__wrap_calloc(size_t a, size_t b) { return oom_refuse() ? 0 : __real_calloc(a, b); }
void *__wrap_realloc(void *p, size_t n) { return oom_refuse() ? 0 : __real_realloc(p, n); }

/* ------------------------------------------------------------------ events */
/* paths the handler keeps a shared reference to (`p config keep`) */
struct kept { MPT_STRUCT(path) path; uint8_t *snap; size_t snaplen; };
static struct kept *kept;
static size_t nkept, capkept;
static int keep_mode;
static char *plain_events;      /* event text of the last plain `p config` and the input it belongs to */
static uint8_t *plain_input; static size_t plain_len; static int plain_end;
static void keep_path(const MPT_STRUCT(path) *p, const MPT_STRUCT(value) *val)
{
	MPT_STRUCT(buffer) *buf;
	struct kept *k;
	size_t total;
	if (!p->base || !(p->flags & MPT_PATHFLAG(HasArray))) return;
	buf = ((MPT_STRUCT(buffer) *) p->base) - 1;
	if (nkept == capkept) { capkept = capkept ? capkept * 2 : 64; kept = realloc(kept, capkept * sizeof(*kept)); }
	k = &kept[nkept++];
	k->path = *p;
	buf->_vptr->addref(buf);
	total = p->off + p->len;
	if (val) total += ((const struct iovec *) val->_addr)->iov_len;
	if (total > buf->_used) total = buf->_used;
	k->snap = malloc(total + 1);
	memcpy(k->snap, p->base, total);
	k->snaplen = total;
}
/* all kept paths still hold their bytes; release them */
static const char *release_kept(void)
{
	const char *res = "ok";
	for (size_t i = 0; i < nkept; i++) {
		struct kept *k = &kept[i];
		if (memcmp(k->snap, k->path.base, k->snaplen)) res = "modified";
		free(k->snap);
		mpt_path_fini(&k->path);
	}
	nkept = 0;
	return res;
}

struct event { int kind; uint8_t *path; size_t plen; uint8_t *val; size_t vlen; int hasval; };
static struct event *evs;
static size_t nev, capev;
static long fail_at = -1;
static const char *vals_bad;   /* a value range handed to the handler left the used part of the path buffer */

/* independent split of the path bytes: elements separated by path->sep, one slot byte at the end */
static int record(void *ctx, const MPT_STRUCT(path) *p, const MPT_STRUCT(value) *val, int last, int curr)
{
	struct event *e;
	(void) ctx; (void) last;
	if (!curr) return 0;   /* "new file" notification of mpt_parse_folder */
	if (fail_at >= 0 && (long) nev == fail_at) { refused = 1; return -1; }   /* refused elements are not recorded */
	if (keep_mode) keep_path(p, val);
	if (nev == capev) { capev = capev ? capev * 2 : 64; evs = realloc(evs, capev * sizeof(*evs)); }
	e = &evs[nev];
	e->kind = curr;
	e->plen = p->len;
	e->path = malloc(p->len + 1);
	if (p->len) memcpy(e->path, p->base + p->off, p->len);
	e->hasval = 0; e->val = 0; e->vlen = 0;
	if (val) {
		const struct iovec *vec = val->_addr;
		size_t take = vec->iov_len;
		/* the value must be bytes the parser has stored: behind the path, inside the used buffer data */
		if (take) {
			if (!p->base || !(p->flags & MPT_PATHFLAG(HasArray))) { vals_bad = "nobuffer"; take = 0; }
			else {
				const MPT_STRUCT(buffer) *buf = ((const MPT_STRUCT(buffer) *) p->base) - 1;
				size_t start = p->off + p->len;
				if ((const char *) vec->iov_base != p->base + start) { vals_bad = "start"; take = 0; }
				else if (start > buf->_used || take > buf->_used - start) {
					vals_bad = "beyond-used";
					take = start > buf->_used ? 0 : buf->_used - start;
				}
			}
		}
		e->hasval = 1;
		e->vlen = take;
		e->val = malloc(take + 1);
		if (take) memcpy(e->val, vec->iov_base, take);
	}
	++nev;
	return 0;
}
static void put_path(const struct event *e)
{
	size_t start = 0, end;
	if (!e->plen) { ob_s("."); return; }
	end = e->plen - 1;   /* the last byte is the assign/separator slot */
	for (size_t i = 0; i <= end; i++) {
		if (i < end && e->path[i] != '.') continue;
		if (start) ob_s("/");
		ob_hex(e->path + start, i - start);
		start = i + 1;
	}
}
static size_t path_payload(const struct event *e) { return e->plen ? e->plen - 1 : 0; }
static size_t path_elems(const struct event *e)
{
	size_t n, i;
	if (!e->plen) return 0;
	for (n = 1, i = 0; i + 1 < e->plen; i++) if (e->path[i] == '.') ++n;
	return n;
}
/* payload length of the path without its last element (0 when it has one element) */
static size_t path_parent_payload(const struct event *e)
{
	size_t i = path_payload(e);
	while (i && e->path[i - 1] != '.') --i;
	return i ? i - 1 : 0;
}
/* stack machine of Spec/Events.lean, written a second time over the raw path bytes:
 * the stack is the path of the innermost open section */
static const char *nest_verdict(void)
{
	/* the stack is represented by (payload bytes, element count) of the current section path */
	uint8_t *stack = malloc(1); size_t slen = 0; size_t sdepth = 0;
	const char *res = "ok";
	for (size_t i = 0; i < nev && res[0] == 'o'; i++) {
		const struct event *e = &evs[i];
		size_t pl = path_payload(e), pe = path_elems(e), pp = path_parent_payload(e);
		int k = e->kind;
		if (k == 1 || k == 3 || k == 7) {
			/* section start / option: path = open sections + one more element */
			if (pe != sdepth + 1) res = "bad";
			else if (sdepth && (pp != slen || memcmp(e->path, stack, slen))) res = "bad";
			else if (k == 1) {
				stack = realloc(stack, pl + 1); memcpy(stack, e->path, pl); slen = pl; sdepth = pe;
			}
		}
		else if (k == 2) {
			/* section end: names the open section, which must exist */
			if (!sdepth || pe != sdepth || pl != slen || memcmp(e->path, stack, slen)) res = "bad";
			else {
				sdepth--;
				while (slen && stack[slen - 1] != '.') --slen;
				if (slen) --slen;
			}
		}
		else if (k == 4) {
			if (pe != sdepth || pl != slen || (slen && memcmp(e->path, stack, slen))) res = "bad";
		}
		else res = "bad";
	}
	free(stack);
	return res;
}
static void put_events(void)
{
	if (!nev) { ob_s("."); return; }
	for (size_t i = 0; i < nev; i++) {
		const struct event *e = &evs[i];
		if (i) ob_s(",");
		switch (e->kind) {
		case 1: ob_s("S:"); break;
		case 2: ob_s("E:"); break;
		case 3: case 7: ob_s("O:"); break;
		case 4: ob_s("D:"); break;
		default: { char b[24]; snprintf(b, sizeof(b), "?%d:", e->kind); ob_s(b); }
		}
		put_path(e);
		if (e->hasval) { ob_s("="); ob_hex(e->val, e->vlen); }
	}
}
static void clear_events(void)
{
	for (size_t i = 0; i < nev; i++) { free(evs[i].path); free(evs[i].val); }
	nev = 0;
}

/* ------------------------------------------------------------------ tree against the parsed elements */
/* The nodes mpt_parse_node creates (in creation order = pre-order: new nodes are always linked last) must
 * carry exactly the names and values of the elements mpt_parse_config reports for the same input. */
static size_t names_pos;
static const char *names_walk(const MPT_STRUCT(node) *n)
{
	for (; n; n = n->next) {
		const struct event *e;
		const uint8_t *nm = 0; size_t nl = 0, el, es;
		/* next element that creates a node */
		while (names_pos < nev && evs[names_pos].kind == 2) ++names_pos;
		if (names_pos >= nev) return "more-nodes";
		e = &evs[names_pos++];
		/* name: last path element (data-only elements have none) */
		el = 0; es = 0;
		if (e->kind != 4 && e->plen) {
			size_t end = e->plen - 1;
			es = end;
			while (es && e->path[es - 1] != '.') --es;
			el = end - es;
		}
		if (n->ident._len) { nm = mpt_identifier_data(&n->ident); nl = n->ident._len - 1; }
		if (nl != el || (nl && memcmp(nm, e->path + es, nl))) return "name";
		if (!n->_meta != !e->hasval) return "value";
		if (n->_meta) {
			struct iovec vec = { 0, 0 };
			MPT_INTERFACE(convertable) *conv = (MPT_INTERFACE(convertable) *) n->_meta;
			size_t vl;
			if (conv->_vptr->convert(conv, MPT_type_toVector('c'), &vec) < 0) return "value";
			vl = vec.iov_len;
			if (vl && !((const uint8_t *) vec.iov_base)[vl - 1]) --vl;
			if (vl != e->vlen || (vl && memcmp(vec.iov_base, e->val, vl))) return "value";
		}
		if (n->children) {
			const char *r = names_walk(n->children);
			if (r) return r;
		}
	}
	return 0;
}

/* ------------------------------------------------------------------ logger for mpt_node_parse */
static int log_calls;
static int drv_log(MPT_INTERFACE(logger) *l, const char *from, int type, const char *fmt, va_list va)
{
	char buf[256];
	(void) l; (void) from; (void) type;
	/* format the message as a real logger would */
	if (fmt) vsnprintf(buf, sizeof(buf), fmt, va);
	++log_calls;
	return 0;
}
static const MPT_INTERFACE_VPTR(logger) drv_log_vptr = { drv_log };
static MPT_INTERFACE(logger) drv_logger = { &drv_log_vptr };

/* the caller's stack holds arbitrary old data: fill the region below with non-zero bytes */
static __attribute__((noinline)) void dirty_stack(void)
{
	volatile char junk[65536];
	for (size_t i = 0; i < sizeof(junk); i++) junk[i] = (char) 0xAA;
}
/* ------------------------------------------------------------------ ops */
static void setup_ctx(MPT_STRUCT(parser_context) *ctx)
{
	static const MPT_STRUCT(parser_context) init = MPT_PARSER_INIT;
	*ctx = init;
	ctx->src.getc = drv_getc;
	ctx->src.arg = 0;
	ctx->name.sect = name_sect;
	ctx->name.opt = name_opt;
	input_pos = 0;
	getc_calls = 0;
}
static void put_internals(int code, const MPT_STRUCT(parser_context) *ctx)
{
	printf(" | I code=%d line=%zu getc=%zu used=%zu curr=%u\n", code, ctx->src.line, getc_calls, input_pos, (unsigned) ctx->curr);
}

int main(void)
{
	static char line[1 << 22];
	drv_init();
	/* warm-up: lazily created library state (type traits) must not count as a leak of the first script */
	{
		static uint8_t longv[300];
		struct iovec vec = { longv, sizeof(longv) };
		MPT_STRUCT(value) v = MPT_VALUE_INIT(MPT_type_toVector('c'), &vec);
		MPT_INTERFACE(metatype) *mt;
		memset(longv, 'x', sizeof(longv));
		if ((mt = mpt_meta_new(&v))) mt->_vptr->unref(mt);
		vec.iov_len = 3;
		if ((mt = mpt_meta_new(&v))) mt->_vptr->unref(mt);
	}
	ob_reset();
	while (fgets(line, sizeof(line), stdin)) {
		if (line[0] == '#' || line[0] == '\n') { fputs(line, stdout); continue; }
		drv_split(line);
		if (drv_nw < 2 || strcmp(drv_w[0], "p")) { puts("bad-op"); continue; }
		const char *op = drv_w[1];
		if (!have_base) { base_bytes = __sanitizer_get_current_allocated_bytes(); have_base = 1; }
		if (!strcmp(op, "fmt") && drv_nw == 5) {
			uint8_t *f = 0; size_t flen = 0; int isnull = 0; size_t a, b;
			MPT_STRUCT(parser_format) pf;
			int type;
			if (drv_parse_nat(drv_w[3], &a) || drv_parse_nat(drv_w[4], &b) || a > 0xffff || b > 0xffff) { puts("bad-op"); continue; }
			if (!strcmp(drv_w[2], "null")) isnull = 1;
			else {
				int z;
				if (drv_parse_data(drv_w[2], &f, &flen, &z) || z || memchr(f, 0, flen)) { puts("bad-op"); free(f); continue; }
			}
			free(fmt_str); fmt_str = 0;
			if (!isnull) { fmt_str = malloc(flen + 1); memcpy(fmt_str, f, flen); fmt_str[flen] = 0; }
			free(f);
			name_sect = a; name_opt = b;
			type = mpt_parse_format(&pf, fmt_str);
			printf("R ok type=%d fcn=%s | I ss=%u se=%u os=%u as=%u oe=%u esc=", type, mpt_parse_next_fcn(type) ? "yes" : "no",
			       pf.sstart, pf.send, pf.ostart, pf.assign, pf.oend);
			drv_puthex(stdout, pf.esc, sizeof(pf.esc));
			printf(" com=");
			drv_puthex(stdout, pf.com, sizeof(pf.com));
			printf("\n");
		}
		else if (!strcmp(op, "input") && (drv_nw == 3 || drv_nw == 4)) {
			uint8_t *d = 0; size_t dl = 0; int z = 0, end = -2;
			if (drv_nw == 4) {
				if (!strcmp(drv_w[3], "eof")) end = -2;
				else if (!strcmp(drv_w[3], "err")) end = -1;
				else { puts("bad-op"); continue; }
			}
			if (drv_parse_data(drv_w[2], &d, &dl, &z) || z) { puts("bad-op"); free(d); continue; }
			free(input); input = d; input_len = dl; input_pos = 0; input_end = end;
			printf("R ok len=%zu end=%d\n", dl, end);
		}
		else if (!strcmp(op, "render") && drv_nw == 6) {
			uint8_t *d = 0; size_t dl = 0; int z = 0;
			if (drv_parse_data(drv_w[5], &d, &dl, &z) || z) { puts("bad-op"); free(d); continue; }
			free(input); input = d; input_len = dl; input_pos = 0; input_end = -2;
			printf("R ok len=%zu\n", dl);
		}
		else if (!strcmp(op, "root") && drv_nw == 3) {
			const char *e;
			mpt_node_clear(&root);
			e = build_forest(drv_w[2], &root);
			if (!e || *e) { mpt_node_clear(&root); puts("bad-op"); continue; }
			ob_reset(); put_forest(root.children, &root, 0);
			printf("R ok | C %s\n", ob);
		}
		else if (!strcmp(op, "tree") && drv_nw == 2) {
			ob_reset(); unsound = 0; put_forest(root.children, &root, 0);
			printf("R ok sound=%s | C %s\n", unsound ? unsound : "ok", ob);
		}
		else if (!strcmp(op, "config") && (drv_nw == 2 || drv_nw == 3)) {
			MPT_STRUCT(parser_context) ctx;
			MPT_STRUCT(parser_format) pf;
			MPT_TYPE(input_parser) next;
			int type, ret;
			const char *keptres;
			fail_at = -1;
			keep_mode = 0;
			if (drv_nw == 3 && !strcmp(drv_w[2], "keep")) keep_mode = 1;
			else if (drv_nw == 3) {
				size_t k;
				if (strncmp(drv_w[2], "fail=", 5) || drv_parse_nat(drv_w[2] + 5, &k)) { puts("bad-op"); continue; }
				fail_at = (long) k;
			}
			setup_ctx(&ctx);
			type = mpt_parse_format(&pf, fmt_str);
			if (!(next = mpt_parse_next_fcn(type))) {
				snprintf(last_stat, sizeof(last_stat), "code=-3 line=1 getc=0 used=0");
				printf("R err nest=- vals=ok refused=no kept=ok | C . | I code=-3 line=1 getc=0 used=0 curr=0\n"); keep_mode = 0; continue;
			}
			clear_events();
			vals_bad = 0; refused = 0;
			ret = mpt_parse_config(next, &pf, &ctx, record, 0);
			keptres = release_kept();
			ob_reset(); put_events();
			/* a handler that keeps references must see the same elements as one that does not */
			if (keep_mode) {
				if (plain_events && plain_len == input_len && plain_end == input_end
				    && (!input_len || !memcmp(plain_input, input, input_len)) && strcmp(plain_events, ob)
				    && !strcmp(keptres, "ok")) keptres = "differs";
			}
			else if (fail_at < 0) {
				free(plain_events); plain_events = strdup(ob);
				free(plain_input); plain_input = malloc(input_len + 1); if (input_len) memcpy(plain_input, input, input_len);
				plain_len = input_len; plain_end = input_end;
			}
			keep_mode = 0;
			printf("R %s nest=%s vals=%s refused=%s kept=%s | C %s", ret < 0 ? "err" : "ok", ret < 0 ? "-" : nest_verdict(), vals_bad ? vals_bad : "ok",
			       refused ? "yes" : "no", keptres, ob);
			put_internals(ret, &ctx);
			snprintf(last_stat, sizeof(last_stat), "code=%d line=%zu getc=%zu used=%zu", ret, ctx.src.line, getc_calls, input_pos);
			clear_events();
		}
		else if (!strcmp(op, "node") && drv_nw == 2) {
			MPT_STRUCT(parser_context) ctx;
			int ret, was_empty = !root.children;
			const char *names = "-";
			size_t calls, used;
			setup_ctx(&ctx);
			ret = mpt_parse_node(&root, &ctx, fmt_str);
			calls = getc_calls; used = input_pos;
			if (ret >= 0 && was_empty) {
				/* the elements of the same input, through the event interface */
				MPT_STRUCT(parser_context) c2;
				MPT_STRUCT(parser_format) pf;
				MPT_TYPE(input_parser) next;
				int r2;
				setup_ctx(&c2);
				c2.prev = MPT_PARSEFLAG(Section);
				next = mpt_parse_next_fcn(mpt_parse_format(&pf, fmt_str));
				clear_events(); vals_bad = 0; fail_at = -1;
				r2 = next ? mpt_parse_config(next, &pf, &c2, record, 0) : -1;
				if (r2 < 0) names = "noevents";
				else {
					const char *w;
					names_pos = 0;
					w = names_walk(root.children);
					while (!w && names_pos < nev && evs[names_pos].kind == 2) ++names_pos;
					names = w ? w : (names_pos < nev ? "less-nodes" : "ok");
				}
				clear_events();
				getc_calls = calls; input_pos = used;
			}
			ob_reset(); unsound = 0; vals_str = vals_vec = 0; put_forest(root.children, &root, 0);
			printf("R %s sound=%s names=%s | C %s", ret < 0 ? "err" : "ok", unsound ? unsound : "ok", names, ob);
			put_internals(ret, &ctx);
			snprintf(last_stat, sizeof(last_stat), "code=%d line=%zu getc=%zu used=%zu inline=%zu buffer=%zu", ret, ctx.src.line,
			         getc_calls, input_pos, vals_str, vals_vec);
		}
		else if (!strcmp(op, "expect") && drv_nw == 3) {
			/* the tree the next `p node` has to deliver (spec side only) */
			printf("R ok\n");
		}
		else if (!strcmp(op, "nparse") && drv_nw == 4) {
			uint8_t *lim = 0; size_t ll = 0; int z = 0, ret, uselog;
			char *limits = 0;
			FILE *f;
			if (!strcmp(drv_w[3], "log")) uselog = 1;
			else if (!strcmp(drv_w[3], "nolog")) uselog = 0;
			else { puts("bad-op"); continue; }
			if (strcmp(drv_w[2], "null")) {
				if (drv_parse_data(drv_w[2], &lim, &ll, &z) || z || memchr(lim, 0, ll)) { puts("bad-op"); free(lim); continue; }
				limits = malloc(ll + 1); memcpy(limits, lim, ll); limits[ll] = 0;
				free(lim);
			}
			f = input_len ? fmemopen(input, input_len, "r") : fopen("/dev/null", "r");
			if (!f) { puts("FAULT fmemopen"); exit(3); }
			log_calls = 0;
			ret = mpt_node_parse(&root, f, fmt_str, limits, uselog ? &drv_logger : 0);
			fclose(f);
			free(limits);
			ob_reset(); unsound = 0; put_forest(root.children, &root, 0);
			printf("R %s sound=%s | C %s | I code=%d\n", ret < 0 ? "err" : "ok", unsound ? unsound : "ok", ob, ret);
			snprintf(last_stat, sizeof(last_stat), "code=%d", ret);
		}
		else if (!strcmp(op, "deep") && drv_nw == 4) {
			MPT_STRUCT(parser_context) ctx;
			MPT_STRUCT(node) tmp = MPT_NODE_INIT;
			uint8_t *save_in = input; size_t save_len = input_len; int save_end = input_end;
			size_t n, closing;
			int ret, open_;
			if (drv_parse_nat(drv_w[2], &n) || !n || n > 4000000) { puts("bad-op"); continue; }
			if (!strcmp(drv_w[3], "open")) open_ = 1;
			else if (!strcmp(drv_w[3], "closed")) open_ = 0;
			else { puts("bad-op"); continue; }
			closing = open_ ? n - 1 : n;
			input_len = 2 * n + closing;
			input = malloc(input_len + 1);
			for (size_t i = 0; i < n; i++) { input[2 * i] = 'a'; input[2 * i + 1] = '{'; }
			memset(input + 2 * n, '}', closing);
			input_end = -2;
			setup_ctx(&ctx);
			ret = mpt_parse_node(&tmp, &ctx, 0);
			mpt_node_clear(&tmp);
			free(input);
			input = save_in; input_len = save_len; input_end = save_end; input_pos = 0;
			printf("R %s\n", ret < 0 ? "err" : "ok");
			snprintf(last_stat, sizeof(last_stat), "-");
		}
		else if (!strcmp(op, "oom") && drv_nw == 3) {
			MPT_STRUCT(parser_context) ctx;
			MPT_STRUCT(node) tmp = MPT_NODE_INIT;
			size_t k, before, after;
			int ret, clean;
			if (drv_parse_nat(drv_w[2], &k) || !k) { puts("bad-op"); continue; }
			setup_ctx(&ctx);
			before = __sanitizer_get_current_allocated_bytes();
			oom_at = (long) k; oom_count = 0; oom_on = 1;
			ret = mpt_parse_node(&tmp, &ctx, fmt_str);
			oom_on = 0;
			clean = ret >= 0 || !tmp.children;
			mpt_node_clear(&tmp);
			after = __sanitizer_get_current_allocated_bytes();
			(void) ret;
			printf("R ok clean=%s leak=%ld\n", clean ? "yes" : "no", (long) after - (long) before);
			snprintf(last_stat, sizeof(last_stat), "-");
		}
		else if (!strcmp(op, "stat") && drv_nw == 2) {
			/* observables of the last parse that the spec column does not speak about: compared with the model */
			printf("R ok | C %s\n", last_stat);
		}
		else if (!strcmp(op, "folder") && drv_nw == 2) {
			/* mpt_parse_folder over a directory that holds the input as its only file */
			char dn[] = "/tmp/drvparseXXXXXX", fn[64];
			DIR *dir;
			FILE *f;
			int ret;
			if (!mkdtemp(dn)) { puts("FAULT mkdtemp"); exit(3); }
			snprintf(fn, sizeof(fn), "%s/a.conf", dn);
			if (!(f = fopen(fn, "w"))) { puts("FAULT fopen"); exit(3); }
			if (input_len) fwrite(input, 1, input_len, f);
			fclose(f);
			dir = opendir(dn);
			clear_events(); vals_bad = 0; fail_at = -1;
			dirty_stack();
			ret = mpt_parse_folder(dir, record, 0, 0);
			closedir(dir);
			unlink(fn); rmdir(dn);
			ob_reset(); put_events();
			printf("R %s nest=%s vals=%s | C %s | I code=%d\n", ret < 0 ? "err" : "ok", ret < 0 ? "-" : nest_verdict(),
			       vals_bad ? vals_bad : "ok", ob, ret);
			snprintf(last_stat, sizeof(last_stat), "code=%d", ret);
			clear_events();
		}
		else if (!strcmp(op, "end") && drv_nw == 2) {
			size_t now;
			mpt_node_clear(&root);
			free(input); input = 0; input_len = input_pos = 0;
			free(fmt_str); fmt_str = 0;
			name_sect = name_opt = 0xff;
			clear_events();
			strcpy(last_stat, "-");
			free(plain_events); plain_events = 0; free(plain_input); plain_input = 0;
			now = __sanitizer_get_current_allocated_bytes();
			if (now != base_bytes && __lsan_do_recoverable_leak_check()) {
				printf("FAULT leak bytes=%ld\n", (long) now - (long) base_bytes);
				fflush(stdout);
				_exit(96);
			}
			base_bytes = now;
			printf("R ok leaks=0\n");
		}
		else puts("bad-op");
	}
	mpt_node_clear(&root);
	free(input); free(fmt_str); clear_events(); free(evs); free(ob); free(kept);
	return 0;
}
