/* line-protocol driver: reference counting (C15).  Real code under test: mpt_refcount_raise/lower
 * (misc/refcount.c), the metatype reference traits (meta/meta_reference_traits.c), the reference assignment
 * through conversion (_mpt_metatype_wrap in convert/data_converter.c via mpt_data_converter(TypeMetaRef)),
 * mpt_array_clone and the array traits (array/array_clone.c, array_traits.c), the heap buffer
 * (_mpt_buffer_alloc: addref/unref) and mpt_rawdata_create.
 *
 * Objects 0..2 (creation order) and handles 0..2.
 *   r begin
 *   r cnt <v> | r raise | r lower          stand-alone counter: mpt_refcount_raise / mpt_refcount_lower
 *   r obj meta|buf <count>                harness object with logging vtable, counter preset (0, n, max-1, max);
 *                                          the preset references are "external" ones held by the harness
 *   r obj rbuf <n>                        library heap buffer with n logged elements (one external reference)
 *   r obj raw 1                           mpt_rawdata_create() (one external reference)
 *   r traits input|meta                   pointer handles use mpt_input_reference_traits() / mpt_meta_reference_traits()
 *   r take <h> <o>                        empty handle: traits->init(&h, &slot naming o)
 *   r copy <h> <g>                        empty handle: traits->init(&h, &g)
 *   r drop <h>                            traits->fini(&h)
 *   r assign <h> <g> | r assigno <h> <o|null>   meta kinds: converter(TypeMetaRef); buffer kinds: mpt_array_clone
 *   r ext <o> addref|unref                external reference through the object's vtable
 *   r detach <h> <len>                    library buffer behind handle h: buf->_vptr->detach(buf, len * 8);
 *                                          buffers handed out by detach are numbered n0, n1, .. (no 'r obj' after the first)
 *   r reserve <h> <n>                     array handle of a library buffer (or empty): mpt_array_reserve(&h, n * 8, element traits)
 *   r lo new | r lo set <o> | r lo drop   local output (mptplot/history/output_local.c): property "" holds a reference to
 *                                          its target; set assigns harness metatype o (shown as handle h3)
 *   r arr new <n> | rot <k> | self | drop  array of n metatype references (last element: object 1, others object 0):
 *                                          assigned again from its rotated content / from its own storage (mpt_array_set)
 *   r end                                 drop every handle, then every external reference of small counters
 * value words: decimal, "max", "max-1"
 */
#include "drv_util.h"
#include <errno.h>
#include "types.h"
#include "meta.h"
#include "array.h"
#include "convert.h"
#include "values.h"
#include "notify.h"
#include "object.h"
#include "output.h"
#include "history.h"
#include "event.h"

enum { K_META, K_BUF, K_RBUF, K_RAW };
#define NOBJ 3
#define NH 3

struct hobj {
	int kind, used;
	MPT_INTERFACE(output) out;   /* what makes a harness metatype acceptable as output target */
	/* harness objects */
	MPT_INTERFACE(metatype) mt;
	struct { MPT_STRUCT(buffer) b; uint64_t room[4]; } hb;   /* harness buffer header + room behind it */
	MPT_STRUCT(refcount) ref;
	int alive;
	uintptr_t ext;            /* external references still held by the harness (small counters only) */
	/* library objects */
	void *lib;                /* buffer or metatype */
	/* events of the current op */
	int ev_add, ev_unref, ev_destroy, ev_dead;
};
static struct hobj objs[NOBJ];
static int nobj;

struct handle { int isarr; MPT_INTERFACE(metatype) *mt; MPT_STRUCT(array) arr; };
static struct handle hnd[NH];

/* buffers handed out by detach, in order */
#define NANON 64
static MPT_STRUCT(buffer) *anon[NANON];
static int nanon;

static MPT_STRUCT(refcount) counter;
static MPT_INTERFACE(metatype) *lout;   /* local output, its target is shown as h3 */

/* element tokens finalised / copied in the current op (library buffers) */
static char elog[4096];
static void elog_add(const char *tag, uint64_t tok)
{
	size_t n = strlen(elog);
	snprintf(elog + n, sizeof(elog) - n, "%s%s%lu", n ? "," : "", tag, (unsigned long) tok);
}
static int el_init(void *ptr, const void *src)
{
	uint64_t v = src ? *(const uint64_t *) src : 0;
	*(uint64_t *) ptr = v;
	if (src) elog_add("c", v);
	return src ? 1 : 0;
}
static void el_fini(void *ptr)
{
	elog_add("f", *(uint64_t *) ptr);
}
static const MPT_STRUCT(type_traits) el_traits = { el_init, el_fini, sizeof(uint64_t) };

/* ---- harness metatype */
static struct hobj *of_meta(MPT_INTERFACE(metatype) *mt)
{
	for (int i = 0; i < NOBJ; i++) if (&objs[i].mt == mt) return &objs[i];
	return 0;
}
static ssize_t ho_push(MPT_INTERFACE(output) *o, size_t n, const void *d) { (void) o; (void) d; return n; }
static int ho_sync(MPT_INTERFACE(output) *o, int t) { (void) o; (void) t; return 0; }
static int ho_await(MPT_INTERFACE(output) *o, int (*f)(void *, const MPT_STRUCT(message) *), void *p) { (void) o; (void) f; (void) p; return 0; }
static const MPT_INTERFACE_VPTR(output) ho_ctl = { ho_push, ho_sync, ho_await };
static int hm_conv(MPT_INTERFACE(convertable) *c, MPT_TYPE(type) t, void *p)
{
	struct hobj *o = 0;
	for (int i = 0; i < NOBJ; i++) if ((void *) &objs[i].mt == (void *) c) o = &objs[i];
	if (!o) return MPT_ERROR(BadArgument);
	if (t == MPT_ENUM(TypeMetaPtr)) { if (p) *((void **) p) = &o->mt; return MPT_ENUM(TypeOutputPtr); }
	if (t == MPT_ENUM(TypeOutputPtr)) { if (p) *((void **) p) = &o->out; return MPT_ENUM(TypeMetaPtr); }
	return MPT_ERROR(BadType);
}
static void hm_unref(MPT_INTERFACE(metatype) *mt)
{
	struct hobj *o = of_meta(mt);
	o->ev_unref++;
	if (!o->alive) { o->ev_dead++; return; }
	if (mpt_refcount_lower(&o->ref)) return;
	o->alive = 0;
	o->ev_destroy++;
}
static uintptr_t hm_addref(MPT_INTERFACE(metatype) *mt)
{
	struct hobj *o = of_meta(mt);
	o->ev_add++;
	if (!o->alive) { o->ev_dead++; return 0; }
	return mpt_refcount_raise(&o->ref);
}
static MPT_INTERFACE(metatype) *hm_clone(const MPT_INTERFACE(metatype) *mt) { (void) mt; return 0; }
static const MPT_INTERFACE_VPTR(metatype) hm_ctl = { { hm_conv }, hm_unref, hm_addref, hm_clone };

/* ---- harness buffer */
static struct hobj *of_buf(const MPT_STRUCT(buffer) *b)
{
	for (int i = 0; i < NOBJ; i++) if (&objs[i].hb.b == b) return &objs[i];
	return 0;
}
static uint32_t hb_flags(const MPT_STRUCT(buffer) *b) { struct hobj *o = of_buf(b); return o->ref._val > 1 ? MPT_ENUM(BufferShared) : 0; }
static void hb_unref(MPT_STRUCT(buffer) *b)
{
	struct hobj *o = of_buf(b);
	o->ev_unref++;
	if (!o->alive) { o->ev_dead++; return; }
	if (mpt_refcount_lower(&o->ref)) return;
	o->alive = 0;
	o->ev_destroy++;
}
static uintptr_t hb_addref(MPT_STRUCT(buffer) *b)
{
	struct hobj *o = of_buf(b);
	o->ev_add++;
	if (!o->alive) { o->ev_dead++; return 0; }
	return mpt_refcount_raise(&o->ref);
}
static MPT_STRUCT(buffer) *hb_detach(MPT_STRUCT(buffer) *b, size_t len) { (void) len; return b; }
static const MPT_INTERFACE_VPTR(buffer) hb_ctl = { hb_flags, hb_unref, hb_addref, hb_detach };

/* traits used for pointer handles: the metatype reference traits or the stream input reference traits */
static int use_input_traits;
static const MPT_STRUCT(type_traits) *ref_traits(void)
{
	return use_input_traits ? mpt_input_reference_traits() : mpt_meta_reference_traits();
}
static int is_meta_kind(int k) { return k == K_META || k == K_RAW; }

/* object index a pointer names, -1 none, 9 = unknown (new) object */
static int obj_of_meta(MPT_INTERFACE(metatype) *mt)
{
	if (!mt) return -1;
	for (int i = 0; i < nobj; i++) {
		if (objs[i].kind == K_META && &objs[i].mt == mt) return i;
		if (objs[i].kind == K_RAW && objs[i].lib == (void *) mt) return i;
	}
	return 9;
}
static int obj_of_buf(MPT_STRUCT(buffer) *b)
{
	if (!b) return -1;
	for (int i = 0; i < nobj; i++) {
		if (objs[i].kind == K_BUF && &objs[i].hb.b == b) return i;
		if (objs[i].kind == K_RBUF && objs[i].lib == (void *) b) return i;
	}
	for (int i = nanon - 1; i >= 0; i--) if (anon[i] == b) return 100 + i;
	return 9;
}
static void put_count(uintptr_t v)
{
	if (v == UINTPTR_MAX) fputs("max", stdout);
	else if (v == UINTPTR_MAX - 1) fputs("max-1", stdout);
	else printf("%lu", (unsigned long) v);
}
static void clear_events(void)
{
	for (int i = 0; i < NOBJ; i++) objs[i].ev_add = objs[i].ev_unref = objs[i].ev_destroy = objs[i].ev_dead = 0;
	elog[0] = 0;
}
static void result(const char *r, const char *iret)
{
	printf("R %s | C", r);
	for (int i = 0; i < nobj; i++) {
		struct hobj *o = &objs[i];
		if (o->kind == K_META || o->kind == K_BUF) {
			printf(" o%d=%s:", i, o->alive ? "A" : "D");
			put_count(o->ref._val);
			printf(":+%d-%d%s%s", o->ev_add, o->ev_unref, o->ev_destroy ? "D" : "", o->ev_dead ? "!" : "");
		}
		else printf(" o%d=%s", i, o->kind == K_RBUF ? "rbuf" : "raw");
	}
	for (int h = 0; h < NH; h++) {
		int o = hnd[h].isarr ? obj_of_buf(hnd[h].arr._buf) : obj_of_meta(hnd[h].mt);
		if (o < 0) printf(" h%d=-", h);
		else if (o >= 100) printf(" h%d=n%d", h, o - 100);
		else if (o == 9) printf(" h%d=new", h);
		else printf(" h%d=%d", h, o);
	}
	if (lout) {
		MPT_INTERFACE(metatype) *t = 0;
		lout->_vptr->convertable.convert((void *) lout, MPT_ENUM(TypeMetaPtr), &t);
		int o = obj_of_meta(t);
		if (o < 0) printf(" h3=-"); else if (o == 9) printf(" h3=new"); else printf(" h3=%d", o);
	}
	printf(" el=%s", elog[0] ? elog : "-");
	printf(" | I ret=%s", iret);
	/* shared flag of library buffers behind the handles */
	for (int h = 0; h < NH; h++) {
		if (hnd[h].isarr && hnd[h].arr._buf && obj_of_buf(hnd[h].arr._buf) != -1) {
			MPT_STRUCT(buffer) *b = hnd[h].arr._buf;
			struct hobj *o = of_buf(b);
			if (!o) printf(" sh%d=%d", h, (b->_vptr->get_flags(b) & MPT_ENUM(BufferShared)) ? 1 : 0);
		}
	}
	fputc('\n', stdout);
}
static int parse_count(const char *w, uintptr_t *v)
{
	size_t n;
	if (!strcmp(w, "max")) { *v = UINTPTR_MAX; return 0; }
	if (!strcmp(w, "max-1")) { *v = UINTPTR_MAX - 1; return 0; }
	if (drv_parse_nat(w, &n)) return -1;
	*v = n;
	return 0;
}
static int parse_idx(const char *w, int lim)
{
	size_t n;
	if (drv_parse_nat(w, &n) || n >= (size_t) lim) return -1;
	return (int) n;
}
static const char *retname(long r, char *buf, size_t len)
{
	if (r < 0) return drv_errname(r);
	snprintf(buf, len, "%ld", r);
	return buf;
}
static void drop_handle(int h)
{
	if (hnd[h].isarr) {
		mpt_array_traits()->fini(&hnd[h].arr);
		hnd[h].arr._buf = 0;
	} else {
		ref_traits()->fini(&hnd[h].mt);
		hnd[h].mt = 0;
	}
	hnd[h].isarr = 0;
}
static int handle_empty(int h) { return hnd[h].isarr ? !hnd[h].arr._buf : !hnd[h].mt; }

/* array of metatype references (mpt_meta_reference_traits elements), its elements in order: object indices */
#define NREF 64
static MPT_STRUCT(array) refarr = MPT_ARRAY_INIT;
static int refarr_n;
static int refarr_ok(int n)
{
	/* only harness metatypes 0 and 1 that can take n more references */
	if (nobj < 2) return 0;
	for (int i = 0; i < 2; i++) {
		struct hobj *o = &objs[i];
		if (o->kind != K_META || !o->alive || !o->ref._val || o->ref._val > 1000 - (uintptr_t) n) return 0;
	}
	return 1;
}
/* dispatcher whose parameter handlers (mpt_dispatch_param) hold references to a harness metatype */
static MPT_STRUCT(dispatch) dsp;
static int dsp_init, dsp_has;
static void finish_script(void)
{
	if (dsp_init) { mpt_dispatch_fini(&dsp); dsp_init = 0; dsp_has = 0; }
	if (refarr._buf) { mpt_array_clone(&refarr, 0); refarr_n = 0; }
	for (int h = 0; h < NH; h++) drop_handle(h);
	if (lout) { lout->_vptr->unref(lout); lout = 0; }
	for (int i = 0; i < nobj; i++) {
		struct hobj *o = &objs[i];
		if (o->kind == K_META || o->kind == K_BUF) {
			/* external references of small counters are given back through the vtable */
			while (o->alive && o->ext && o->ext < 16) {
				if (o->kind == K_META) hm_unref(&o->mt); else hb_unref(&o->hb.b);
				o->ext--;
			}
		}
		else if (o->lib && o->ext) {
			if (o->kind == K_RAW) { MPT_INTERFACE(metatype) *mt = o->lib; mt->_vptr->unref(mt); }
			else { MPT_STRUCT(buffer) *b = o->lib; b->_vptr->unref(b); }
			o->ext = 0;
			o->lib = 0;
		}
	}
}

int main(void)
{
	static char line[4096];
	char rb[32];
	drv_init();
	while (fgets(line, sizeof(line), stdin)) {
		if (line[0] == '#' || line[0] == '\n') { fputs(line, stdout); continue; }
		drv_split(line);
		if (drv_nw < 2 || strcmp(drv_w[0], "r")) { puts("bad-op"); continue; }
		const char *op = drv_w[1];
		clear_events();
		if (!strcmp(op, "begin") && drv_nw == 2) {
			finish_script();
			clear_events();
			nobj = 0;
			nanon = 0;
			memset(objs, 0, sizeof(objs));
			memset(hnd, 0, sizeof(hnd));
			counter._val = 0;
			use_input_traits = 0;
			printf("R ok | C - | I ret=0\n");
		}
		else if (!strcmp(op, "traits") && drv_nw == 3 && (!strcmp(drv_w[2], "input") || !strcmp(drv_w[2], "meta"))) {
			/* only while no pointer handle is filled */
			int busy = 0;
			for (int h = 0; h < NH; h++) if (!hnd[h].isarr && hnd[h].mt) busy = 1;
			if (busy) { puts("bad-op"); continue; }
			use_input_traits = drv_w[2][0] == 'i';
			printf("R ok | C - | I ret=0\n");
		}
		else if (!strcmp(op, "cnt") && drv_nw == 3) {
			uintptr_t v;
			if (parse_count(drv_w[2], &v)) { puts("bad-op"); continue; }
			counter._val = v;
			printf("R ok | C cnt="); put_count(counter._val); printf(" | I ret=0\n");
		}
		else if ((!strcmp(op, "raise") || !strcmp(op, "lower")) && drv_nw == 2) {
			uintptr_t r = *op == 'r' ? mpt_refcount_raise(&counter) : mpt_refcount_lower(&counter);
			printf("R ret="); put_count(r); printf(" | C cnt="); put_count(counter._val); printf(" | I ret=0\n");
		}
		else if (!strcmp(op, "obj") && drv_nw == 4) {
			uintptr_t v;
			struct hobj *o;
			if (nobj >= NOBJ || nanon || parse_count(drv_w[3], &v)) { puts("bad-op"); continue; }
			o = &objs[nobj];
			memset(o, 0, sizeof(*o));
			if (!strcmp(drv_w[2], "meta") || !strcmp(drv_w[2], "buf")) {
				o->kind = drv_w[2][0] == 'm' ? K_META : K_BUF;
				o->mt._vptr = &hm_ctl;
				o->out._vptr = &ho_ctl;
				o->hb.b._vptr = &hb_ctl;
				o->hb.b._content_traits = 0;
				*((size_t *) &o->hb.b._size) = sizeof(o->hb.room);
				o->hb.b._used = 0;
				o->ref._val = v;
				o->alive = 1;
				o->ext = v;
			}
			else if (!strcmp(drv_w[2], "rbuf")) {
				MPT_STRUCT(buffer) *b;
				if (v > 32) { puts("bad-op"); continue; }
				if (!(b = _mpt_buffer_alloc(v * sizeof(uint64_t), 0))) { puts("bad-op"); continue; }
				b->_content_traits = &el_traits;
				for (uintptr_t i = 0; i < v; i++) ((uint64_t *) (b + 1))[i] = 10 * (nobj + 1) + i;
				b->_used = v * sizeof(uint64_t);
				o->kind = K_RBUF; o->lib = b; o->ext = 1;
			}
			else if (!strcmp(drv_w[2], "raw") && v == 1) {
				MPT_INTERFACE(metatype) *mt;
				if (!(mt = mpt_rawdata_create(-1))) { puts("bad-op"); continue; }
				o->kind = K_RAW; o->lib = mt; o->ext = 1;
			}
			else { puts("bad-op"); continue; }
			o->used = 1;
			snprintf(rb, sizeof(rb), "ok o=%d", nobj++);
			result(rb, "0");
		}
		else if (!strcmp(op, "take") && drv_nw == 4) {
			int h = parse_idx(drv_w[2], NH), oi = parse_idx(drv_w[3], nobj), ret;
			if (h < 0 || oi < 0 || !handle_empty(h)) { puts("bad-op"); continue; }
			struct hobj *o = &objs[oi];
			if (is_meta_kind(o->kind)) {
				MPT_INTERFACE(metatype) *src = o->kind == K_META ? &o->mt : o->lib;
				if (!src) { puts("bad-op"); continue; }
				hnd[h].isarr = 0; hnd[h].mt = 0;
				ret = ref_traits()->init(&hnd[h].mt, &src);
				if (ret < 0) hnd[h].mt = 0;
			} else {
				MPT_STRUCT(array) src = MPT_ARRAY_INIT;
				src._buf = o->kind == K_BUF ? &o->hb.b : o->lib;
				if (!src._buf) { puts("bad-op"); continue; }
				hnd[h].isarr = 1; hnd[h].arr._buf = 0;
				ret = mpt_array_traits()->init(&hnd[h].arr, &src);
				if (ret < 0) hnd[h].arr._buf = 0;
			}
			if (handle_empty(h)) hnd[h].isarr = 0;
			result(ret < 0 ? "refused" : "ok", retname(ret, rb, sizeof(rb)));
		}
		else if (!strcmp(op, "copy") && drv_nw == 4) {
			int h = parse_idx(drv_w[2], NH), g = parse_idx(drv_w[3], NH), ret;
			if (h < 0 || g < 0 || h == g || !handle_empty(h)) { puts("bad-op"); continue; }
			if (!hnd[g].isarr) {
				hnd[h].isarr = 0; hnd[h].mt = 0;
				ret = ref_traits()->init(&hnd[h].mt, &hnd[g].mt);
				if (ret < 0) hnd[h].mt = 0;
			} else {
				hnd[h].isarr = 1; hnd[h].arr._buf = 0;
				ret = mpt_array_traits()->init(&hnd[h].arr, &hnd[g].arr);
				if (ret < 0) hnd[h].arr._buf = 0;
			}
			if (handle_empty(h)) hnd[h].isarr = 0;
			result(ret < 0 ? "refused" : "ok", retname(ret, rb, sizeof(rb)));
		}
		else if (!strcmp(op, "drop") && drv_nw == 3) {
			int h = parse_idx(drv_w[2], NH);
			if (h < 0) { puts("bad-op"); continue; }
			drop_handle(h);
			result("ok", "0");
		}
		else if ((!strcmp(op, "assign") || !strcmp(op, "assigno")) && drv_nw == 4) {
			int h = parse_idx(drv_w[2], NH), ret;
			int byobj = op[6] == 'o';
			MPT_INTERFACE(metatype) *smt = 0;
			MPT_STRUCT(array) sarr = MPT_ARRAY_INIT;
			int src_arr;
			if (h < 0) { puts("bad-op"); continue; }
			if (byobj) {
				if (!strcmp(drv_w[3], "null")) {
					src_arr = hnd[h].isarr;
				} else {
					int oi = parse_idx(drv_w[3], nobj);
					if (oi < 0) { puts("bad-op"); continue; }
					struct hobj *o = &objs[oi];
					src_arr = !is_meta_kind(o->kind);
					if (src_arr) sarr._buf = o->kind == K_BUF ? &o->hb.b : o->lib;
					else smt = o->kind == K_META ? &o->mt : o->lib;
					if (src_arr ? !sarr._buf : !smt) { puts("bad-op"); continue; }
				}
			} else {
				int g = parse_idx(drv_w[3], NH);
				if (g < 0) { puts("bad-op"); continue; }
				/* an empty source has no kind of its own: it adopts the target's */
				src_arr = handle_empty(g) ? hnd[h].isarr : hnd[g].isarr;
				if (!handle_empty(g)) { if (src_arr) sarr = hnd[g].arr; else smt = hnd[g].mt; }
			}
			/* an empty target takes the kind of the source; a filled one must have it */
			if (handle_empty(h)) hnd[h].isarr = src_arr;
			else if (hnd[h].isarr != src_arr) { puts("bad-op"); continue; }
			if (src_arr) {
				ret = mpt_array_clone(&hnd[h].arr, &sarr);
			} else {
				MPT_TYPE(data_converter) conv = mpt_data_converter(MPT_ENUM(TypeMetaRef));
				if (!conv) { puts("bad-op"); continue; }
				ret = conv(&smt, MPT_ENUM(TypeMetaRef), &hnd[h].mt);
			}
			if (handle_empty(h)) hnd[h].isarr = 0;
			result(ret < 0 ? "refused" : "ok", retname(ret, rb, sizeof(rb)));
		}
		else if (!strcmp(op, "ext") && drv_nw == 4) {
			int oi = parse_idx(drv_w[2], nobj);
			if (oi < 0) { puts("bad-op"); continue; }
			struct hobj *o = &objs[oi];
			uintptr_t r = 1;
			if (o->kind != K_META && o->kind != K_BUF) { puts("bad-op"); continue; }
			if (!strcmp(drv_w[3], "addref")) {
				r = o->kind == K_META ? hm_addref(&o->mt) : hb_addref(&o->hb.b);
				if (r) o->ext++;
			}
			else if (!strcmp(drv_w[3], "unref")) {
				if (!o->ext) { puts("bad-op"); continue; }
				if (o->kind == K_META) hm_unref(&o->mt); else hb_unref(&o->hb.b);
				o->ext--;
			}
			else { puts("bad-op"); continue; }
			result(r ? "ok" : "refused", "0");
		}
		else if (!strcmp(op, "dsp") && drv_nw >= 3) {
			/* r dsp param <o>: a reference is taken for the dispatcher and handed to mpt_dispatch_param() (given back when
			 *                  that fails); its ParamSet/ParamGet/ParamCond handlers hold one reference each
			 * r dsp fini:      mpt_dispatch_fini(): every handler gives its reference back */
			if (!strcmp(drv_w[2], "param") && drv_nw == 4) {
				int oi = parse_idx(drv_w[3], nobj), ret;
				char rb[16];
				if (oi < 0 || objs[oi].kind != K_META || !objs[oi].alive || dsp_has) { puts("bad-op"); continue; }
				if (!dsp_init) { mpt_dispatch_init(&dsp); dsp_init = 1; }
				if (!hm_addref(&objs[oi].mt)) { result("refused", "0"); continue; }
				ret = mpt_dispatch_param(&dsp, &objs[oi].mt);
				if (ret < 0) { hm_unref(&objs[oi].mt); result("refused", "0"); continue; }
				dsp_has = 1;
				snprintf(rb, sizeof(rb), "%d", ret);
				result("ok", rb);
			}
			else if (!strcmp(drv_w[2], "fini") && drv_nw == 3) {
				if (!dsp_init) { puts("bad-op"); continue; }
				mpt_dispatch_fini(&dsp);
				dsp_init = 0; dsp_has = 0;
				result("ok", "0");
			}
			else puts("bad-op");
		}
		else if (!strcmp(op, "arr") && drv_nw >= 3) {
			/* r arr new <n>: n reference elements, the last names object 1, all others object 0
			 * r arr rot <k>: the content is assigned to the array again, rotated by k (plain pointer values as source)
			 * r arr self: the content is assigned from its own storage
			 * r arr drop */
			const MPT_STRUCT(type_traits) *tr = mpt_meta_reference_traits();
			MPT_INTERFACE(metatype) *tmp[NREF];
			size_t n, k;
			if (!strcmp(drv_w[2], "new") && drv_nw == 4) {
				if (refarr._buf || drv_parse_nat(drv_w[3], &n) || n < 2 || n > NREF || !refarr_ok((int) n)) { puts("bad-op"); continue; }
				for (size_t j = 0; j < n; j++) tmp[j] = &objs[j == n - 1 ? 1 : 0].mt;
				if (!mpt_array_set(&refarr, tr, n * sizeof(*tmp), tmp, 0)) { result("refused", "0"); continue; }
				refarr_n = n;
				result("ok", "0");
			}
			else if (!strcmp(drv_w[2], "rot") && drv_nw == 4) {
				MPT_INTERFACE(metatype) **data;
				if (!refarr._buf || drv_parse_nat(drv_w[3], &k) || !refarr_ok(refarr_n)) { puts("bad-op"); continue; }
				n = refarr_n;
				data = (void *) (refarr._buf + 1);
				for (size_t j = 0; j < n; j++) tmp[j] = data[(j + k) % n];
				if (!mpt_array_set(&refarr, tr, n * sizeof(*tmp), tmp, 0)) { result("refused", "0"); continue; }
				result("ok", "0");
			}
			else if (!strcmp(drv_w[2], "self") && drv_nw == 3) {
				if (!refarr._buf || !refarr_ok(refarr_n)) { puts("bad-op"); continue; }
				n = refarr_n;
				if (!mpt_array_set(&refarr, tr, n * sizeof(*tmp), refarr._buf + 1, 0)) { result("refused", "0"); continue; }
				result("ok", "0");
			}
			else if (!strcmp(drv_w[2], "raw") && drv_nw == 4) {
				/* the handle is re-used as a raw buffer (no element type): the references it held are released */
				if (!refarr._buf || drv_parse_nat(drv_w[3], &n) || n > 4096) { puts("bad-op"); continue; }
				if (!mpt_array_reserve(&refarr, n, 0)) { result("refused", "0"); continue; }
				mpt_array_clone(&refarr, 0);
				refarr_n = 0;
				result("ok", "0");
			}
			else if (!strcmp(drv_w[2], "drop") && drv_nw == 3) {
				if (!refarr._buf) { puts("bad-op"); continue; }
				mpt_array_clone(&refarr, 0);
				refarr_n = 0;
				result("ok", "0");
			}
			else puts("bad-op");
		}
		else if (!strcmp(op, "detach") && drv_nw == 4) {
			int h = parse_idx(drv_w[2], NH), oi;
			size_t len;
			MPT_STRUCT(buffer) *b, *n;
			if (h < 0 || drv_parse_nat(drv_w[3], &len) || len > 64 || !hnd[h].isarr || !(b = hnd[h].arr._buf)) { puts("bad-op"); continue; }
			oi = obj_of_buf(b);
			if (oi < 100 && !(oi >= 0 && oi < nobj && objs[oi].kind == K_RBUF)) { puts("bad-op"); continue; }
			n = b->_vptr->detach(b, len * sizeof(uint64_t));
			if (n && n != b) {
				if (nanon >= NANON) { puts("FAULT too many buffers"); return 1; }
				/* a stale entry with the same address belongs to a buffer that is gone */
				for (int i = 0; i < nanon; i++) if (anon[i] == n) anon[i] = 0;
				anon[nanon++] = n;
				hnd[h].arr._buf = n;
			}
			result(n ? "ok" : "refused", "0");
		}
		else if (!strcmp(op, "reserve") && drv_nw == 4) {
			int h = parse_idx(drv_w[2], NH), oi;
			size_t len;
			MPT_STRUCT(buffer) *b, *n;
			if (h < 0 || drv_parse_nat(drv_w[3], &len) || len > 64) { puts("bad-op"); continue; }
			if (!handle_empty(h)) {
				if (!hnd[h].isarr) { puts("bad-op"); continue; }
				oi = obj_of_buf(hnd[h].arr._buf);
				if (oi < 100 && !(oi >= 0 && oi < nobj && objs[oi].kind == K_RBUF)) { puts("bad-op"); continue; }
			}
			hnd[h].isarr = 1;
			b = hnd[h].arr._buf;
			n = mpt_array_reserve(&hnd[h].arr, len * sizeof(uint64_t), &el_traits);
			if (n && n != b) {
				if (nanon >= NANON) { puts("FAULT too many buffers"); return 1; }
				for (int i = 0; i < nanon; i++) if (anon[i] == n) anon[i] = 0;
				anon[nanon++] = n;
			}
			if (handle_empty(h)) hnd[h].isarr = 0;
			result(n ? "ok" : "refused", "0");
		}
		else if (!strcmp(op, "lo") && drv_nw >= 3) {
			if (!strcmp(drv_w[2], "new") && drv_nw == 3) {
				if (lout || !(lout = mpt_output_local())) { puts("bad-op"); continue; }
				result("ok", "0");
			}
			else if (!strcmp(drv_w[2], "set") && drv_nw == 4) {
				int oi = parse_idx(drv_w[3], nobj), ret;
				MPT_INTERFACE(object) *obj = 0;
				if (!lout || oi < 0 || objs[oi].kind != K_META) { puts("bad-op"); continue; }
				if (lout->_vptr->convertable.convert((void *) lout, MPT_ENUM(TypeObjectPtr), &obj) < 0 || !obj) { puts("FAULT no object"); return 1; }
				ret = obj->_vptr->set_property(obj, "", (MPT_INTERFACE(convertable) *) &objs[oi].mt);
				result(ret < 0 ? "refused" : "ok", ret < 0 ? retname(ret, rb, sizeof(rb)) : "0");
			}
			else if (!strcmp(drv_w[2], "drop") && drv_nw == 3) {
				if (!lout) { puts("bad-op"); continue; }
				lout->_vptr->unref(lout);
				lout = 0;
				result("ok", "0");
			}
			else puts("bad-op");
		}
		else if (!strcmp(op, "end") && drv_nw == 2) {
			finish_script();
			result("ok", "0");
		}
		else puts("bad-op");
	}
	finish_script();
	return 0;
}
