/* line-protocol driver: framed queues (C02 message stream integrity).
 * Calls the real mpt_queue_push / mpt_queue_recv / mpt_queue_shift / mpt_queue_peek / mpt_message_get
 * in-process; the wire between the two queues is a byte buffer owned by the driver. */
#include "drv_util.h"
#include <errno.h>
#include <sys/uio.h>
#include "core.h"
#include "convert.h"
#include "message.h"
#include "queue.h"
#include "event.h"
#include "connection.h"
#include "stream.h"
#include "notify.h"
#include "array.h"
#include <sys/socket.h>
#include <fcntl.h>
#include <poll.h>

#define GUARD 0xA5
#define HEAD 64

/* codec: 0 raw, 1..4 the COBS framings */
static int codec_code(const char *n, int *zpe)
{
	*zpe = 0;
	if (!strcmp(n, "raw")) return 0;
	if (!strcmp(n, "command")) return MPT_ENUM(EncodingCommand);
	if (!strcmp(n, "cobs")) return MPT_ENUM(EncodingCobs);
	if (!strcmp(n, "cobs/r")) return MPT_ENUM(EncodingCobsInline);
	if (!strcmp(n, "cobs/zpe")) { *zpe = 1; return MPT_ENUM(EncodingCobs) | MPT_ENUM(EncodingCompress); }
	if (!strcmp(n, "cobs/zpe+r")) { *zpe = 1; return MPT_ENUM(EncodingCobsInline) | MPT_ENUM(EncodingCompress); }
	return -1;
}
/* "key=<nat>" */
static int keynat(const char *w, const char *key, size_t *v)
{
	size_t n = strlen(key);
	if (strncmp(w, key, n) || w[n] != '=') return -1;
	return drv_parse_nat(w + n + 1, v);
}
static const char *retname(long r, char *buf, size_t n)
{
	if (r < 0) return drv_errname(r);
	snprintf(buf, n, "%ld", r);
	return buf;
}

/* bytes as text: "-" empty, hex up to 96 bytes, else "<len>:<adler32 parts>" */
static void put_bytes(const uint8_t *b, size_t n)
{
	if (n <= 96) { drv_puthex(stdout, b, n); return; }
	unsigned long s1 = 1, s2 = 0;
	for (size_t i = 0; i < n; i++) { s1 = (s1 + b[i]) % 65521; s2 = (s2 + s1) % 65521; }
	printf("%zu:%lu.%lu", n, s1, s2);
}

/* ------------------------------------------------------------------ encode queue */
static MPT_STRUCT(encode_queue) eq;
static int eq_ready;
static size_t sent, fdone;   /* finished messages; finished bytes that belong to complete frames */
static uint8_t *pending; static size_t plen;
static uint8_t *wire; static size_t wirelen, wirecap, wirepos;
static int wire_zpe;

static void wire_append(const uint8_t *b, size_t n)
{
	if (wirelen + n + 1 > wirecap) { wirecap = (wirelen + n + 1) * 2; wire = realloc(wire, wirecap); }
	memcpy(wire + wirelen, b, n);
	wirelen += n;
}
static uint8_t q_at(const MPT_STRUCT(queue) *q, size_t i)
{
	return ((uint8_t *) q->base)[q->max ? (q->off + i) % q->max : 0];
}
static void q_hex(const MPT_STRUCT(queue) *q, size_t from, size_t n)
{
	uint8_t *tmp = malloc(n ? n : 1);
	for (size_t i = 0; i < n; i++) tmp[i] = q_at(q, from + i);
	put_bytes(tmp, n);
	free(tmp);
}
/* C: the complete frames waiting in the queue; I: state, finished blocks of the message in progress, open block */
static void eq_tail(const char *ret)
{
	size_t len = eq.data.len;
	size_t done = eq._state.done <= len ? eq._state.done : len;
	size_t open = eq._state.scratch <= len - done ? eq._state.scratch : len - done;
	size_t fd = fdone <= done ? fdone : done;
	printf(" | C fin=");
	q_hex(&eq.data, 0, fd);
	printf(" | I ret=%s done=%zu scratch=%zu len=%zu max=%zu off=%zu part=", ret, eq._state.done, eq._state.scratch,
	       eq.data.len, eq.data.max, eq.data.off);
	q_hex(&eq.data, fd, done - fd);
	printf(" open=");
	q_hex(&eq.data, done, open);
	fputc('\n', stdout);
}
static void eq_line(const char *r, const char *ret)
{
	printf("R %s", r);
	eq_tail(ret);
}
static void eq_push(const uint8_t *dat, size_t dlen)
{
	char buf[32], r[48];
	uint8_t *copy = malloc(dlen ? dlen : 1);   /* exact-size source: over-reads are caught */
	memcpy(copy, dat, dlen);
	ssize_t n = mpt_queue_push(&eq, dlen, copy);
	free(copy);
	uint8_t *old = pending;
	size_t took = n > 0 ? (size_t) n : 0;
	if (took > dlen) took = dlen;
	pending = 0; plen = 0;
	if (dlen - took) { plen = dlen - took; pending = malloc(plen); memcpy(pending, dat + took, plen); }
	free(old);
	if (n < 0) { snprintf(r, sizeof(r), "refused n=0"); eq_line(r, drv_errname(n)); return; }
	snprintf(r, sizeof(r), "ok n=%zd", n);
	eq_line(r, retname(n, buf, sizeof(buf)));
}
static void eq_grow(size_t n)
{
	size_t old = eq.data.max;
	mpt_queue_prepare(&eq.data, n);
	if (eq.data.max > old) memset(((uint8_t *) eq.data.base) + old, 0, eq.data.max - old);
}

/* ------------------------------------------------------------------ decode queue */
static MPT_STRUCT(decode_queue) dq;
static int dq_ready, dq_zpe;
static uint8_t *dq_block; static size_t dq_align;
static size_t got;

/* storage of `max` bytes at offset `align` behind a 64-byte aligned address; the storage ends with the heap
 * block (overruns are caught by AddressSanitizer), the bytes in front are guard bytes */
static uint8_t *store_alloc(size_t align, size_t max, uint8_t **block)
{
	uint8_t *blk;
	if (posix_memalign((void **) &blk, 64, HEAD + align + max + (max ? 0 : 1))) abort();
	memset(blk, GUARD, HEAD + align);
	memset(blk + HEAD + align, 0, max);
	*block = blk;
	return blk + HEAD + align;
}
static int guards_ok(void)
{
	if (!dq_block) return 1;
	for (size_t i = 0; i < HEAD + dq_align; i++) if (dq_block[i] != GUARD) return 0;
	return 1;
}
static void dq_grow(size_t n)
{
	uint8_t *blk, *st;
	if (n <= dq.data.max) return;
	/* what mpt_queue_resize does before it enlarges the storage */
	if (dq.data.max - dq.data.len < dq.data.off) mpt_queue_align(&dq.data, 0);
	st = store_alloc(dq_align, n, &blk);
	if (dq.data.max) memcpy(st, dq.data.base, dq.data.max);
	free(dq_block);
	dq_block = blk;
	dq.data.base = st;
	dq.data.max = n;
}
/* current message through mpt_message_get; returns 0 and prints hex, or prints the failure */
static void put_message(void)
{
	MPT_STRUCT(message) msg;
	struct iovec vec;
	int r;
	if (dq._state.data.msg < 0) { printf("none"); return; }
	r = mpt_message_get(&dq.data, dq._state.data.pos, dq._state.data.msg, &msg, &vec);
	if (r < 0) { printf("err%d", r); return; }
	size_t len = dq._state.data.msg;
	uint8_t *buf = malloc(len ? len : 1);
	size_t n = mpt_message_read(&msg, len, buf);
	if (n != len) printf("short%zu:", n);
	put_bytes(buf, n);
	free(buf);
}
static void dq_tail(const char *ret)
{
	printf(" | I ret=%s content=", ret);
	q_hex(&dq.data, 0, dq.data.len);
	printf(" data=%zu,%zu,%zd curr=%zu ctx=%zu,%zu len=%zu max=%zu off=%zu store=",
	       dq._state.data.pos, dq._state.data.len, dq._state.data.msg, dq._state.curr,
	       (size_t) (dq._state._ctx & 0xff), (size_t) (dq._state._ctx >> 8), dq.data.len, dq.data.max, dq.data.off);
	put_bytes(dq.data.base, dq.data.max);
	fputc('\n', stdout);
}
static void dq_line(const char *r, const char *ret)
{
	printf("R %s guards=%s | C avail=", r, guards_ok() ? "ok" : "bad");
	put_message();
	dq_tail(ret);
}
static int dq_feed(const uint8_t *dat, size_t dlen)
{
	return mpt_qpush(&dq.data, dlen, dat);
}
/* positions of the code bytes / the delimiters in the wire, as a reader of the framing sees them */
static size_t wire_cut(const char *mode)
{
	size_t i = wirepos;
	if (!strcmp(mode, "frame")) {
		while (i < wirelen && wire[i]) ++i;
		return i < wirelen ? i + 1 - wirepos : wirelen - wirepos;
	}
	/* walk the blocks from the start of the wire */
	size_t p = 0;
	while (p < wirelen) {
		uint8_t c = wire[p];
		if (!c) { ++p; continue; }
		if (p >= wirepos) return p + 1 - wirepos;
		size_t maxlen = wire_zpe ? 0xdf : 0xff;
		size_t n = c <= maxlen ? c - 1u : c - 0xe0u;
		++p;
		while (n-- && p < wirelen && wire[p]) ++p;
	}
	return wirelen - wirepos;
}


/* ------------------------------------------------------------------ stream glue over socket pairs (compared with the spec only) */
static MPT_STRUCT(stream) tx = MPT_STREAM_INIT, rx = MPT_STREAM_INIT;
static int st_ready, st_h1 = -1, st_h2 = -1;   /* harness ends: peer of the sender, peer of the receiver */
static size_t st_sent, st_got, st_moved;
static int st_first;
/* receiver variants: 0 mpt_stream_dispatch on a plain stream, 1 the input object of mpt_stream_input
 * (its own dispatch), 2 mpt_stream_sync with a table of waiting commands */
static int st_mode, st_rfd = -1;
static int st_code, st_zpe;
static int st_inmsg, st_torn;   /* data written since the last end of message; part of that message flushed already */
static MPT_INTERFACE(input) *st_in;
#define ST_NCMD 9
static struct { MPT_STRUCT(buffer) hdr; MPT_STRUCT(command) cmd[ST_NCMD]; } st_tab;
static MPT_STRUCT(array) st_wait;

/* transport buffer: bytes that left the sender's socket and have not been delivered yet */
static uint8_t *st_tb; static size_t st_tblen, st_tbcap, st_tbpos;
static void st_drain(void)
{
	uint8_t tmp[4096];
	ssize_t n;
	while (st_h1 >= 0 && (n = read(st_h1, tmp, sizeof(tmp))) > 0) {
		if (st_tblen + n > st_tbcap) { st_tbcap = (st_tblen + n) * 2; st_tb = realloc(st_tb, st_tbcap); }
		memcpy(st_tb + st_tblen, tmp, n);
		st_tblen += n;
	}
}
static void st_close(void)
{
	if (!st_ready) return;
	mpt_stream_close(&tx);
	if (st_in) { st_in->_vptr->meta.unref((void *) st_in); st_in = 0; }
	else mpt_stream_close(&rx);
	if (st_h1 >= 0) close(st_h1);
	if (st_h2 >= 0) close(st_h2);
	st_h1 = st_h2 = -1;
	st_ready = 0;
}
static int st_cb(void *arg, const MPT_STRUCT(message) *m)
{
	MPT_STRUCT(message) tmp = *m;
	size_t len = mpt_message_length(&tmp);
	uint8_t *buf = malloc(len ? len : 1);
	(void) arg;
	mpt_message_read(&tmp, len, buf);
	if (!st_first) fputc(',', stdout);
	st_first = 0;
	put_bytes(buf, len);
	free(buf);
	++st_got;
	/* bits above the handler's own flags: the dispatcher must not hand them on as its control flags */
	return MPT_EVENTFLAG(CtlError);
}
static int st_ev(void *arg, MPT_STRUCT(event) *ev)
{
	(void) arg;
	if (ev && ev->msg) st_cb(0, ev->msg);
	return 0;
}
/* a waiting command: logs "<slot>:<payload>" (slot 0 is the fallback) */
static int st_reply(void *arg, void *ptr)
{
	const MPT_STRUCT(message) *m = ptr;
	if (!st_first) fputc(',', stdout);
	st_first = 1;
	printf("%d:", (int) (intptr_t) arg);
	if (m) st_cb(0, m); else { fputs("null", stdout); st_first = 0; }
	return 0;
}
static void st_cmd(void)
{
	const char *op = drv_w[1];
	uint8_t *dat = 0; size_t dlen = 0, a; int isnull = 0;
	char buf[32];
	if (!strcmp(op, "new") && (drv_nw == 3 || drv_nw == 4)) {
		int zpe, code = codec_code(drv_w[2], &zpe), p1[2], p2[2], mode = 0;
		MPT_STRUCT(socket) sock;
		if (code <= 0) { puts("bad-op"); return; }
		if (drv_nw == 4) {
			if (!strcmp(drv_w[3], "input")) mode = 1;
			else if (!strcmp(drv_w[3], "wait")) mode = 2;
			else { puts("bad-op"); return; }
		}
		st_close();
		st_mode = mode; st_code = code; st_zpe = zpe;
		if (socketpair(AF_UNIX, SOCK_STREAM, 0, p1) < 0 || socketpair(AF_UNIX, SOCK_STREAM, 0, p2) < 0) { puts("R nosocket | C - | I -"); return; }
		st_h1 = p1[1]; st_h2 = p2[0];
		st_tblen = st_tbpos = 0;
		{ int small = 1; setsockopt(p1[0], SOL_SOCKET, SO_SNDBUF, &small, sizeof(small)); }
		fcntl(p1[0], F_SETFL, fcntl(p1[0], F_GETFL) | O_NONBLOCK);
		fcntl(st_h1, F_SETFL, fcntl(st_h1, F_GETFL) | O_NONBLOCK);
		MPT_STRUCT(stream) init = MPT_STREAM_INIT;
		tx = init; rx = init;
		tx._wd._enc = mpt_message_encoder(code);
		rx._rd._dec = mpt_message_decoder(code);
		sock._id = p1[0];
		int r1 = mpt_stream_dopen(&tx, &sock, MPT_STREAMFLAG(Write) | MPT_STREAMFLAG(WriteBuf));
		sock._id = st_rfd = p2[1];
		int r2 = 0;
		if (mode == 1) {
			if (!(st_in = mpt_stream_input(&sock, MPT_STREAMFLAG(Read) | MPT_STREAMFLAG(ReadBuf), code, 0))) r2 = -1;
		}
		else r2 = mpt_stream_dopen(&rx, &sock, MPT_STREAMFLAG(Read) | MPT_STREAMFLAG(ReadBuf));
		if (mode == 2) {
			int i;
			memset(&st_tab, 0, sizeof(st_tab));
			for (i = 0; i < ST_NCMD; ++i) {
				st_tab.cmd[i].id = i;
				st_tab.cmd[i].cmd = st_reply;
				st_tab.cmd[i].arg = (void *) (intptr_t) i;
			}
			st_tab.hdr._used = sizeof(st_tab.cmd);
			st_wait._buf = &st_tab.hdr;
		}
		st_ready = 1; st_sent = st_got = st_moved = 0; st_inmsg = st_torn = 0;
		printf("R %s | C - | I -\n", (r1 < 0 || r2 < 0) ? "failed" : "ok");
	}
	else if (!st_ready) puts("bad-op");
	else if (!strcmp(op, "push") && drv_nw == 3) {
		if (drv_parse_data(drv_w[2], &dat, &dlen, &isnull) || isnull || !dlen) { puts("bad-op"); free(dat); return; }
		ssize_t n = mpt_stream_push(&tx, dlen, dat);
		free(dat);
		if (n > 0) st_inmsg = 1;
		if (getenv("ST_DEBUG")) fprintf(stderr, "push tx: done=%zu scratch=%zu len=%zu off=%zu max=%zu\n", tx._wd._state.done, tx._wd._state.scratch, tx._wd.data.len, tx._wd.data.off, tx._wd.data.max);
		printf("R %s n=%s | C - | I -\n", n == (ssize_t) dlen ? "ok" : "short", retname(n, buf, sizeof(buf)));
	}
	else if (!strcmp(op, "term") && drv_nw == 2) {
		ssize_t n = mpt_stream_push(&tx, 0, 0);
		if (n >= 0) { ++st_sent; st_inmsg = st_torn = 0; }
		printf("R %s | C - | I -\n", n >= 0 ? "ok" : "refused");
	}
	else if (!strcmp(op, "flush") && drv_nw == 2) {
		/* the sender's socket is small and does not block: the flush writes what fits, the transport takes the
		 * bytes over (unbounded buffer of the driver), until all finished data has left the queue */
		int r = 0, n = 0;
		do {
			r = mpt_stream_flush(&tx);
			st_drain();
		} while (tx._wd._state.done && ++n < 100000);
		if (st_inmsg) st_torn = 1;
		printf("R %s | C - | I -\n", tx._wd._state.done ? "failed" : "ok");
		(void) r;
	}
	else if (!strcmp(op, "flush1") && drv_nw == 2) {
		/* one flush call, nobody reads the socket: what fits leaves the queue (it may wrap around afterwards), a full
		 * socket refuses; the bytes reach the transport with the next 'st flush' */
		mpt_stream_flush(&tx);
		if (st_inmsg) st_torn = 1;
		puts("R ok | C - | I -");
		if (getenv("ST_DEBUG")) fprintf(stderr, "flush1 tx: done=%zu scratch=%zu len=%zu off=%zu max=%zu\n", tx._wd._state.done, tx._wd._state.scratch, tx._wd.data.len, tx._wd.data.off, tx._wd.data.max);
	}
	else if (!strcmp(op, "abort") && drv_nw == 2) {
		/* give up the message in progress (only asked for while nothing of it has left the queue) */
		if (!st_inmsg || st_torn) { puts("R skipped | C - | I -"); return; }
		ssize_t n = mpt_stream_push(&tx, 1, 0);
		if (n >= 0) st_inmsg = 0;
		printf("R %s | C - | I -\n", n >= 0 ? "ok" : "refused");
	}
	else if (!strcmp(op, "deliver") && drv_nw == 3) {
		/* the transport: move the next bytes from the sender's socket to the receiver's socket */
		if (drv_parse_nat(drv_w[2], &a) || a > (1u << 20)) { puts("bad-op"); return; }
		size_t off = 0, n;
		n = st_tblen - st_tbpos;
		if (n > a) n = a;
		if (st_h2 < 0) n = 0;   /* the receiver's peer is closed */
		while (off < n) {
			ssize_t w = write(st_h2, st_tb + st_tbpos + off, n - off);
			if (w <= 0) break;
			off += w;
		}
		if (getenv("ST_DEBUG")) {
			size_t i, from = st_tblen > 12 ? st_tblen - 12 : 0;
			fprintf(stderr, "transport len=%zu tail=", st_tblen);
			for (i = from; i < st_tblen; i++) fprintf(stderr, "%02x", st_tb[i]);
			fprintf(stderr, " tx: done=%zu scratch=%zu len=%zu off=%zu max=%zu\n", tx._wd._state.done, tx._wd._state.scratch, tx._wd.data.len, tx._wd.data.off, tx._wd.data.max);
		}
		st_tbpos += off;
		st_moved += off;
		printf("R ok n=%zu | C - | I -\n", off);
	}
	else if (!strcmp(op, "mem") && drv_nw == 2) {
		/* a second receiver reads everything flushed so far from memory (mpt_stream_memory) instead of a descriptor;
		 * the stream object had a descriptor before: it must not be used any more.  In-place decoding of the zero
		 * pair framings needs work area a read-only memory block does not have: not asked for */
		if (st_zpe) { puts("R skipped | C - | I -"); return; }
		MPT_STRUCT(stream) ms = MPT_STREAM_INIT;
		MPT_STRUCT(socket) sock;
		struct iovec in;
		int p3[2], r, n = 0;
		size_t keep = st_got;
		if (socketpair(AF_UNIX, SOCK_STREAM, 0, p3) < 0) { puts("R nosocket | C - | I -"); return; }
		if (write(p3[0], "\x02\x41\x00", 3) != 3) { puts("R nosocket | C - | I -"); return; }
		sock._id = p3[1];
		mpt_stream_dopen(&ms, &sock, MPT_STREAMFLAG(Read) | MPT_STREAMFLAG(ReadBuf));
		in.iov_len = st_tblen;
		in.iov_base = malloc(st_tblen ? st_tblen : 1);
		memcpy(in.iov_base, st_tb, st_tblen);
		mpt_stream_memory(&ms, &in, 0);
		ms._rd._dec = mpt_message_decoder(st_code);
		r = mpt_stream_poll(&ms, POLLIN, 0);
		printf("R poll=%d msgs=", r);
		st_first = 1;
		do {
			size_t before = st_got;
			r = mpt_stream_dispatch(&ms, st_cb, 0);
			if (st_got == before) break;
		} while (r >= 0 && (r & MPT_EVENTFLAG(Retry)) && ++n < 4096);
		if (st_first) fputc('-', stdout);
		printf(" n=%zu | C - | I -\n", st_got - keep);
		st_got = keep;
		if (ms._rd._dec) ms._rd._dec(&ms._rd._state, 0, 0);
		ms._rd._dec = 0;
		ms._rd.data.base = 0; ms._rd.data.max = ms._rd.data.len = 0;
		mpt_stream_close(&ms);
		free(in.iov_base);
		close(p3[0]);
	}
	else if (!strcmp(op, "eof") && drv_nw == 2) {
		/* the transport closes the receiver's connection: what has been delivered must still come out */
		if (st_h2 >= 0) close(st_h2);
		st_h2 = -1;
		puts("R ok | C - | I -");
	}
	else if (!strcmp(op, "poll") && drv_nw == 2) {
		/* read until the socket is drained (the queue gets more storage whenever it is full) */
		int r, n = 0;
		struct pollfd pf;
		pf.fd = st_rfd; pf.events = POLLIN;
		if (st_mode == 2) { /* the waiting side reads the descriptor itself */ }
		else if (st_mode == 1) {
			/* the input's `next` reads without waiting for the descriptor: ask only when data is there */
			r = 0;
			while (r >= 0 && ++n < 100000 && (pf.revents = 0, poll(&pf, 1, 0)) > 0 && (pf.revents & POLLIN)) {
				r = st_in->_vptr->next(st_in, POLLIN);
			}
		}
		else do {
			r = mpt_stream_poll(&rx, POLLIN, 0);
			pf.revents = 0;
		} while (r >= 0 && ++n < 100000 && poll(&pf, 1, 0) > 0 && (pf.revents & POLLIN));
		printf("R ok | C - | I -\n");
	}
	else if (!strcmp(op, "dispatch") && drv_nw == 2) {
		/* the consumer's loop: dispatch while a further message is reported */
		int r, n = 0, leak = 0;
		size_t start = st_got;
		printf("R msgs=");
		st_first = 1;
		if (st_mode == 2) {
			/* wait for replies: as long as a call handles something */
			do {
				size_t before = st_got;
				r = mpt_stream_sync(&rx, 1, &st_wait, 0);
				if (st_got == before) break;
			} while (++n < 4096);
		}
		else do {
			size_t before = st_got;
			r = st_mode ? st_in->_vptr->dispatch(st_in, st_ev, 0) : mpt_stream_dispatch(&rx, st_cb, 0);
			if (r >= 0 && (r & MPT_EVENTFLAG(CtlError))) leak = 1;
			if (st_got == before) break;
		} while (r >= 0 && (r & MPT_EVENTFLAG(Retry)) && ++n < 4096);
		if (st_first) fputc('-', stdout);
		printf(" n=%zu%s | C - | I -\n", st_got - start, leak ? " ctlerror" : "");
		if (getenv("ST_DEBUG")) fprintf(stderr, "dispatch ret=%d rd: len=%zu max=%zu off=%zu pos=%zu len=%zu msg=%zd curr=%zu ctx=%zx\n", r,
			rx._rd.data.len, rx._rd.data.max, rx._rd.data.off, rx._rd._state.data.pos, rx._rd._state.data.len, rx._rd._state.data.msg, rx._rd._state.curr, (size_t) rx._rd._state._ctx);
	}
	else if (!strcmp(op, "skip") && drv_nw == 2) {
		/* dispatch without a handler drops one message */
		if (st_mode == 1) st_in->_vptr->dispatch(st_in, 0, 0);
		else if (!st_mode) mpt_stream_dispatch(&rx, 0, 0);
		printf("R ok | C - | I -\n");
	}
	else if (!strcmp(op, "sync") && drv_nw == 2) {
		printf("R sent=%zu got=%zu | C - | I -\n", st_sent, st_got);
	}
	else puts("bad-op");
}

int main(void)
{
	static char line[1 << 20];
	drv_init();
	signal(SIGPIPE, SIG_IGN);
	/* a library call that does not return (spinning push loop, ...) costs a few seconds, not the batch timeout */
	signal(SIGALRM, drv_sigfault);
	while (alarm(0), fgets(line, sizeof(line), stdin)) {
		if (line[0] == '#' || line[0] == '\n') { fputs(line, stdout); continue; }
		alarm(4);
		drv_split(line);
		if (drv_nw < 1) { puts("bad-op"); continue; }
		const char *area = drv_w[0], *op = drv_nw > 1 ? drv_w[1] : "";
		uint8_t *dat = 0; size_t dlen = 0, a, b, c; int isnull = 0;
		char buf[32], r[64];
		if (!strcmp(area, "eq")) {
			if (!strcmp(op, "new") && drv_nw == 5) {
				int zpe, code = codec_code(drv_w[2], &zpe);
				if (code < 0 || keynat(drv_w[3], "max", &a) || keynat(drv_w[4], "off", &b) || b > a) { puts("bad-op"); continue; }
				if (eq._enc) eq._enc(&eq._state, 0, 0);
				free(eq.data.base);
				memset(&eq, 0, sizeof(eq));
				eq.data.base = a ? calloc(a, 1) : 0;
				eq.data.max = a; eq.data.off = b;
				eq._enc = code ? mpt_message_encoder(code) : 0;
				free(pending); pending = 0; plen = 0;
				wirelen = 0; wirepos = 0; wire_zpe = zpe;
				eq_ready = 1; sent = 0; fdone = 0;
				eq_line("ok", "0");
			}
			else if (!eq_ready) puts("bad-op");
			else if (!strcmp(op, "push") && drv_nw == 3) {
				if (drv_parse_data(drv_w[2], &dat, &dlen, &isnull) || isnull || !dlen) { puts("bad-op"); free(dat); continue; }
				eq_push(dat, dlen);
				free(dat);
			}
			else if (!strcmp(op, "more") && drv_nw == 2) {
				if (!plen) { eq_line("idle", "0"); continue; }
				dlen = plen; dat = malloc(dlen); memcpy(dat, pending, dlen);
				eq_push(dat, dlen);
				free(dat);
			}
			else if (!strcmp(op, "term") && drv_nw == 2) {
				ssize_t n = mpt_queue_push(&eq, 0, 0);
				if (n < 0) { eq_line("refused", drv_errname(n)); continue; }
				free(pending); pending = 0; plen = 0;
				++sent;
				fdone = eq._state.done;
				eq_line("ok", retname(n, buf, sizeof(buf)));
			}
			else if (!strcmp(op, "del") && drv_nw == 3) {
				/* remove messages: the one in progress counts as the first */
				if (drv_parse_nat(drv_w[2], &a) || !a || a > 64) { puts("bad-op"); continue; }
				size_t z0 = 0, z1 = 0, i, fd = fdone <= eq.data.len ? fdone : eq.data.len;
				for (i = 0; i < fd; i++) if (!q_at(&eq.data, i)) ++z0;
				ssize_t n = mpt_queue_push(&eq, a, 0);
				if (n < 0) { eq_line("refused", drv_errname(n)); continue; }
				free(pending); pending = 0; plen = 0;
				if (fdone > eq._state.done) fdone = eq._state.done;
				fd = fdone <= eq.data.len ? fdone : eq.data.len;
				for (i = 0; i < fd; i++) if (!q_at(&eq.data, i)) ++z1;
				if (eq._enc && z0 > z1) sent -= z0 - z1;
				eq_line("ok", retname(n, buf, sizeof(buf)));
			}
			else if (!strcmp(op, "grow") && drv_nw == 3) {
				if (drv_parse_nat(drv_w[2], &a) || a > (1u << 20)) { puts("bad-op"); continue; }
				eq_grow(a);
				eq_line("ok", "0");
			}
			else if (!strcmp(op, "align") && drv_nw == 3) {
				if (drv_parse_nat(drv_w[2], &a)) { puts("bad-op"); continue; }
				mpt_queue_align(&eq.data, a);
				eq_line("ok", "0");
			}
			else if (!strcmp(op, "take") && drv_nw == 3) {
				if (drv_parse_nat(drv_w[2], &a)) { puts("bad-op"); continue; }
				if (a > eq._state.done) a = eq._state.done;
				if (a > eq.data.len) a = eq.data.len;
				uint8_t *out = malloc(a ? a : 1);
				for (size_t i = 0; i < a; i++) out[i] = q_at(&eq.data, i);
				/* what mpt_stream_flush does with written data */
				int cr = mpt_queue_crop(&eq.data, 0, a);
				eq._state.done -= a;
				fdone = fdone > a ? fdone - a : 0;
				wire_append(out, a);
				printf("R ok out=");
				put_bytes(out, a);
				free(out);
				snprintf(buf, sizeof(buf), "%d", cr);
				eq_tail(buf);
			}
			else puts("bad-op");
		}
		else if (!strcmp(area, "dq")) {
			if (!strcmp(op, "new") && drv_nw == 6) {
				int zpe, code = codec_code(drv_w[2], &zpe);
				if (code < 0 || keynat(drv_w[3], "max", &a) || keynat(drv_w[4], "off", &b) || keynat(drv_w[5], "align", &c)
				    || c > 15 || b > a) { puts("bad-op"); continue; }
				if (dq._dec) dq._dec(&dq._state, 0, 0);
				free(dq_block);
				memset(&dq, 0, sizeof(dq));
				MPT_STRUCT(decode_state) init = MPT_DECODE_INIT;
				dq._state = init;
				dq_align = c;
				dq.data.base = store_alloc(c, a, &dq_block);
				dq.data.max = a; dq.data.off = b;
				dq._dec = code ? mpt_message_decoder(code) : 0;
				dq_zpe = zpe;
				dq_ready = 1; got = 0;
				dq_line("ok", "0");
			}
			else if (!dq_ready) puts("bad-op");
			else if (!strcmp(op, "feed") && drv_nw == 3) {
				if (drv_parse_data(drv_w[2], &dat, &dlen, &isnull) || isnull) { puts("bad-op"); continue; }
				int n = dq_feed(dat, dlen);
				free(dat);
				if (n < 0) dq_line("refused n=0", drv_errname(n));
				else { snprintf(r, sizeof(r), "ok n=%zu", dlen); dq_line(r, retname(n, buf, sizeof(buf))); }
			}
			else if (!strcmp(op, "wire") && drv_nw == 3) {
				/* deliver the next bytes of the wire: a count, up to the next code byte, up to the next delimiter */
				size_t n;
				int rr = 0;
				if (!strcmp(drv_w[2], "all")) {
					/* everything that is left, the storage grows as needed */
					n = wirelen - wirepos;
					if (n > dq.data.max - dq.data.len) dq_grow(dq.data.len + n);
				}
				else if (!strcmp(drv_w[2], "code") || !strcmp(drv_w[2], "frame")) n = wire_cut(drv_w[2]);
				else if (drv_parse_nat(drv_w[2], &n)) { puts("bad-op"); continue; }
				if (n > wirelen - wirepos) n = wirelen - wirepos;
				/* a full queue gets more storage before input is read (as mpt_stream_poll does) */
				if (n && dq.data.len == dq.data.max) dq_grow(dq.data.max * 2 + 64);
				size_t space = dq.data.max - dq.data.len;
				if (n > space) n = space;
				if (n) rr = dq_feed(wire + wirepos, n);
				if (rr < 0) n = 0;
				wirepos += n;
				snprintf(r, sizeof(r), "ok n=%zu end=%s", n, (!wirepos || !wire[wirepos - 1]) ? "frame" : "mid");
				dq_line(r, retname(rr, buf, sizeof(buf)));
			}
			else if (!strcmp(op, "grow") && drv_nw == 3) {
				if (drv_parse_nat(drv_w[2], &a) || a > (1u << 20)) { puts("bad-op"); continue; }
				dq_grow(a);
				dq_line("ok", "0");
			}
			else if (!strcmp(op, "recv") && drv_nw == 2) {
				int rr = mpt_queue_recv(&dq);
				if (rr > 0) ++got;
				printf("R ret=%s", rr > 0 ? "1" : retname(rr, buf, sizeof(buf)));
				if (rr > 0) { printf(" msg="); put_message(); }
				printf(" guards=%s | C avail=", guards_ok() ? "ok" : "bad");
				put_message();
				dq_tail(retname(rr, buf, sizeof(buf)));
			}
			else if (!strcmp(op, "drain") && drv_nw == 2) {
				/* the loop of a reader: receive until no further message is complete; space is granted when asked for */
				int rr, grown = 0, n = 0;
				printf("R msgs=");
				while (1) {
					rr = mpt_queue_recv(&dq);
					if (rr > 0) {
						if (n++) fputc(',', stdout);
						++got;
						put_message();
						grown = 0;
						if (n >= 4096) break;
						continue;
					}
					if (rr == MPT_ERROR(MissingBuffer) && grown < 4) {
						dq_grow(dq.data.max + 64);
						++grown;
						continue;
					}
					break;
				}
				if (!n) fputc('-', stdout);
				printf(" n=%d last=%s guards=%s | C avail=", n, rr > 0 ? "1" : retname(rr, buf, sizeof(buf)), guards_ok() ? "ok" : "bad");
				put_message();
				dq_tail(retname(rr, buf, sizeof(buf)));
			}
			else if (!strcmp(op, "shift") && drv_nw == 2) {
				mpt_queue_shift(&dq);
				dq_line("ok", "0");
			}
			else if (!strcmp(op, "msg") && drv_nw == 2) {
				printf("R msg=");
				put_message();
				printf(" guards=%s | C avail=", guards_ok() ? "ok" : "bad");
				put_message();
				dq_tail("0");
			}
			else if (!strcmp(op, "peek") && drv_nw == 4 && !strcmp(drv_w[3], "nodst")) {
				/* size query: no destination */
				if (drv_parse_nat(drv_w[2], &a) || a > (1u << 20)) { puts("bad-op"); continue; }
				ssize_t n = mpt_queue_peek(&dq, a, 0);
				printf("R ret=%s out=- guards=%s | C avail=", retname(n, buf, sizeof(buf)), guards_ok() ? "ok" : "bad");
				put_message();
				dq_tail(retname(n, buf, sizeof(buf)));
			}
			else if (!strcmp(op, "get") && drv_nw == 5) {
				/* mpt_message_get on any range of the queue data, with or without vector for the second part */
				MPT_STRUCT(message) msg;
				struct iovec vec;
				if (drv_parse_nat(drv_w[2], &a) || drv_parse_nat(drv_w[3], &b) || a > (1u << 20) || b > (1u << 20)) { puts("bad-op"); continue; }
				int novec = !strcmp(drv_w[4], "novec");
				int rr = mpt_message_get(&dq.data, a, b, &msg, novec ? 0 : &vec);
				printf("R ret=%d msg=", rr);
				if (rr < 0) fputc('-', stdout);
				else {
					uint8_t *tmp = malloc(b ? b : 1);
					size_t n = mpt_message_read(&msg, b, tmp);
					if (n != b) printf("short%zu:", n);
					put_bytes(tmp, n);
					free(tmp);
				}
				printf(" guards=%s | C avail=", guards_ok() ? "ok" : "bad");
				put_message();
				dq_tail("0");
			}
			else if (!strcmp(op, "peek") && drv_nw == 3) {
				if (drv_parse_nat(drv_w[2], &a) || a > (1u << 20)) { puts("bad-op"); continue; }
				uint8_t *dst = malloc(a ? a : 1);
				memset(dst, 0xbe, a ? a : 1);
				ssize_t n = mpt_queue_peek(&dq, a, dst);
				printf("R ret=%s out=", retname(n, buf, sizeof(buf)));
				if (n > 0) put_bytes(dst, (size_t) n < a ? (size_t) n : a);
				else fputc('-', stdout);
				free(dst);
				printf(" guards=%s | C avail=", guards_ok() ? "ok" : "bad");
				put_message();
				dq_tail(retname(n, buf, sizeof(buf)));
			}
			else puts("bad-op");
		}
		else if (!strcmp(area, "st") && drv_nw >= 2) {
			st_cmd();
		}
		else if (!strcmp(area, "sync") && drv_nw == 1) {
			printf("R sent=%zu got=%zu left=%zu | C - | I -\n", sent, got, wirelen - wirepos);
		}
		else puts("bad-op");
	}
	if (eq._enc) eq._enc(&eq._state, 0, 0);
	free(eq.data.base);
	free(pending); free(wire);
	free(dq_block);
	st_close();
	return 0;
}
