/* line-protocol driver: message ids and the deferrable reply context (C12).  Calls the real functions in-process.
 *
 *   r id2buf <id> <w>          mpt_message_id2buf(id, buf[w], w)          (id decimal, 0..2^64-1)
 *   r buf2id <hex>             mpt_message_buf2id(bytes, len, &id)
 *   r ctx <w> [noptr]          mpt_reply_deferrable(w, send_cb, transport)   (noptr: transport pointer NULL)
 *   r arm <hex>                convert(TypeReplyDataPtr) + mpt_reply_set(rd, len, bytes)
 *   r creply <code> <text-hex> mpt_context_reply(rc, code, "%s", text)
 *   r probe                    convert(0), convert(unknown), clone of the context object
 *   r reref                    addref + unref of the context object (metatype reference taken and released)
 *   r reply <hex|none>         convert(TypeReplyPtr) + rc->reply(rc, msg)
 *   r defer                    rc->defer(rc)  -> handle token h<k>
 *   r dreply <k> <hex|none>    handle k ->reply(msg)
 *   r drop <k|ctx>             handle k ->reply(NULL)  |  metatype unref (owner releases the context)
 *   r send <ok|fail> ...       schedule of the transport's answers (exhausted: ok)
 *
 * stream-input variant (mptio/stream/stream_input.c, stream_reply.c) over a socketpair; the driver is the peer:
 *   s open <idlen>             mpt_stream_input(socket, RdWr|Buffer, EncodingCobs, idlen)
 *   s req <hex> <act>[,<act>]  peer sends one COBS frame with this content (id header + payload), the driver polls and
 *                              dispatches with a handler that performs the acts on ev->reply:
 *                                reply:<hex> | replynull | defer | ret:<int>  (return value of the handler, default 0)
 *                              then flushes and decodes what the peer received
 *   s close                    unref the input, decode what the peer received
 *   R = handler called?, reply context offered?, ev->id, result of every act; C = frames the peer received
 *
 * stream-backed connection (mptio/connection/connection_dispatch.c: streamWrapper/replyConnection on top of the
 * deferrable reply context) over a socketpair:
 *   c open <idlen>             connection whose output is a COBS stream on the socket, message ids of idlen bytes
 *   c req <hex> <acts>         as `s req`, through mpt_connection_dispatch; `defer` keeps the handle as h<k>;
 *                              acts = `discard`: dispatch without a handler (the message is dropped, a request still gets its default reply)
 *   c dreply <k> <hex|none>    deferred handle k ->reply(msg)
 *   c await <tag> | c send <hex>   requester side: mpt_connection_await(handler <tag>) / mpt_connection_push(data)+push(0);
 *                              a later `c req` whose id carries the reply mark is the peer's answer (logged hr<tag>(payload))
 *   c close                    mpt_connection_fini
 *
 * R = verdict (+ token / id), C = the transport calls made during this op, I = exact return code.
 * The driver refuses (bad-op) what the API forbids: use of a released handle, use of the context after
 * the owner released it.
 */
#include "drv_util.h"
#include <errno.h>
#include <inttypes.h>
#include <sys/uio.h>
#include "meta.h"
#include "types.h"
#include "message.h"
#include "event.h"
#include <poll.h>
#include <fcntl.h>
#include <sys/socket.h>
#include <sys/ioctl.h>
#include "convert.h"
#include "connection.h"
/* mptio/output_remote.c is part of this translation unit: its object type (struct out_data) is private to the file */
#include "output_remote.c"
#include "notify.h"
#include "stream.h"

#define MAXH 32
static MPT_INTERFACE(metatype) *ctx;             /* owner's reference, 0 after `drop ctx` */
static MPT_INTERFACE(reply_context_detached) *hnd[MAXH];
static int nh;
static int transport;                             /* address used as transport pointer */

#define MAXS 64
static int sched[MAXS], nsched, psched;

static char logbuf[1 << 16];
static size_t loglen;

static void logf_hex(const uint8_t *b, size_t n)
{
	static const char d[] = "0123456789abcdef";
	if (!n) { logbuf[loglen++] = '-'; return; }
	for (size_t i = 0; i < n && loglen + 2 < sizeof(logbuf); i++) { logbuf[loglen++] = d[b[i] >> 4]; logbuf[loglen++] = d[b[i] & 15]; }
}
static void logf_str(const char *s)
{
	size_t n = strlen(s);
	if (loglen + n < sizeof(logbuf)) { memcpy(logbuf + loglen, s, n); loglen += n; }
}
static int send_cb(void *ptr, const MPT_STRUCT(reply_data) *rd, const MPT_STRUCT(message) *msg)
{
	int ret = psched < nsched ? sched[psched++] : 0;
	if (loglen) logf_str(",");
	logf_str(ptr == &transport ? "send[id=" : "send[WRONG-TRANSPORT id=");
	logf_hex(rd->val, rd->len);
	logf_str(" msg=");
	if (!msg) logf_str("none");
	else {
		size_t total = msg->used;
		for (size_t i = 0; i < msg->clen; i++) total += msg->cont[i].iov_len;
		if (!total) logf_str("-");
		if (msg->used) logf_hex(msg->base, msg->used);
		for (size_t i = 0; i < msg->clen; i++) if (msg->cont[i].iov_len) logf_hex(msg->cont[i].iov_base, msg->cont[i].iov_len);
	}
	logf_str(ret >= 0 ? "]->ok" : "]->fail");
	return ret;
}
static void result(const char *r, long code)
{
	logbuf[loglen] = 0;
	if (code < 0) printf("R %s | C %s | I ret=%s\n", r, loglen ? logbuf : "-", drv_errname(code));
	else printf("R %s | C %s | I ret=%ld\n", r, loglen ? logbuf : "-", code);
	loglen = 0;
}
/* allocation failure injection (-Wl,--wrap=malloc): the next library malloc returns NULL */
static int fail_malloc;
extern void *__real_malloc(size_t);
void *__wrap_malloc(size_t n)
{
	if (fail_malloc > 0 && !--fail_malloc) return 0;
	return __real_malloc(n);
}
static int fail_realloc;    /* > 0: the fail_realloc-th library realloc from now on and all later ones return NULL */
static int realloc_refused;
extern void *__real_realloc(void *, size_t);
void *__wrap_realloc(void *p, size_t n)
{
	if (fail_realloc == 1) { ++realloc_refused; return 0; }
	if (fail_realloc > 1) --fail_realloc;
	return __real_realloc(p, n);
}
/* "none" -> NULL message, hex -> one-fragment message */
static int parse_msg(const char *s, MPT_STRUCT(message) *msg, uint8_t **dat, int *none)
{
	size_t n; int isnull;
	*dat = 0; *none = 0;
	if (!strcmp(s, "none")) { *none = 1; return 0; }
	if (drv_parse_data(s, dat, &n, &isnull) || isnull) { free(*dat); *dat = 0; return -1; }
	memset(msg, 0, sizeof(*msg));
	msg->base = *dat; msg->used = n;
	return 0;
}
/* interface pointers and their vtables as handed out by the context at creation; 1 = record, 0 = compare */
static int ctx_snapshot(int record)
{
	static void *rc0, *rd0; static const void *vp0, *vm0;
	MPT_INTERFACE(reply_context) *rc = 0; MPT_STRUCT(reply_data) *rd = 0;
	if (!ctx) return 1;
	if (MPT_metatype_convert(ctx, MPT_ENUM(TypeReplyPtr), &rc) < 0 || MPT_metatype_convert(ctx, MPT_ENUM(TypeReplyDataPtr), &rd) < 0) return 0;
	if (record) { rc0 = rc; rd0 = rd; vp0 = rc ? rc->_vptr : 0; vm0 = ctx->_vptr; return 1; }
	return rc == rc0 && rd == rd0 && rc && rc->_vptr == vp0 && ctx->_vptr == vm0 && (void *) rc != (void *) rd;
}
static void release_all(void)
{
	/* new context / exit: release what is still held (transport answers ok, calls not reported) */
	nsched = psched = 0;
	for (int i = 0; i < nh; i++) if (hnd[i]) { hnd[i]->_vptr->reply(hnd[i], 0); hnd[i] = 0; }
	nh = 0;
	if (ctx) { ctx->_vptr->unref(ctx); ctx = 0; }
	loglen = 0;
}

/* ---------------------------------------------------------------- stream input over a socketpair */
static MPT_INTERFACE(input) *sin_in;
static int sin_peer = -1, sin_fd0 = -1;
static uint8_t sin_rx[1 << 16];
static size_t sin_rxlen;
static char *sin_acts;
static char sin_res[4096];
static int sin_called, sin_ctx;
static unsigned long long sin_id;
static MPT_INTERFACE(reply_context_detached) *chnd[MAXH];
static int cnh;
static int sin_defer_keep;     /* handler keeps deferred handles (connection variant) */

static void sin_close(void)
{
	if (sin_in) { sin_in->_vptr->meta.unref((void *) sin_in); sin_in = 0; }
}
static void sin_drop_peer(void)
{
	if (sin_peer >= 0) { close(sin_peer); sin_peer = -1; }
	sin_rxlen = 0;
}
/* standard COBS, frame terminated by a zero byte */
static size_t cobs_encode(const uint8_t *in, size_t n, uint8_t *out)
{
	size_t o = 1, code_at = 0; uint8_t code = 1;
	for (size_t i = 0; i < n; i++) {
		if (in[i]) { out[o++] = in[i]; if (++code == 0xff) { out[code_at] = code; code_at = o++; code = 1; } }
		else { out[code_at] = code; code_at = o++; code = 1; }
	}
	out[code_at] = code;
	out[o++] = 0;
	return o;
}
/* print and remove the complete frames in sin_rx; anything that is not a COBS frame is shown raw */
static void sin_frames(void)
{
	ssize_t n;
	if (sin_peer >= 0) while (sin_rxlen < sizeof(sin_rx) && (n = recv(sin_peer, sin_rx + sin_rxlen, sizeof(sin_rx) - sin_rxlen, MSG_DONTWAIT)) > 0) sin_rxlen += n;
	size_t start = 0; int any = 0;
	for (size_t i = 0; i < sin_rxlen; i++) {
		if (sin_rx[i]) continue;
		/* frame sin_rx[start..i) */
		uint8_t dec[1 << 12]; size_t d = 0, p = start; int bad = (i == start);
		while (p < i && !bad) {
			uint8_t code = sin_rx[p++];
			if (p + code - 1 > i) { bad = 1; break; }
			for (uint8_t k = 1; k < code; k++) dec[d++] = sin_rx[p++];
			if (code != 0xff && p < i) dec[d++] = 0;
		}
		if (any++) fputc(',', stdout);
		if (bad) { printf("badframe["); drv_puthex(stdout, sin_rx + start, i - start + 1); printf("]"); }
		else { printf("frame["); drv_puthex(stdout, dec, d); printf("]"); }
		start = i + 1;
	}
	if (start < sin_rxlen) { if (any++) fputc(',', stdout); printf("partial["); drv_puthex(stdout, sin_rx + start, sin_rxlen - start); printf("]"); }
	if (!any) fputc('-', stdout);
	sin_rxlen = 0;
}
static int sin_handler(void *arg, MPT_STRUCT(event) *ev)
{
	int ret = 0; size_t p = 0;
	char *save = 0, *a;
	(void) arg;
	sin_called = 1;
	sin_ctx = ev->reply ? 1 : 0;
	sin_id = ev->id;
	sin_res[0] = 0;
	for (a = strtok_r(sin_acts, ",", &save); a; a = strtok_r(0, ",", &save)) {
		if (p) sin_res[p++] = ',';
		if (!strncmp(a, "ret:", 4)) { ret = atoi(a + 4); p += snprintf(sin_res + p, sizeof(sin_res) - p, "ret"); continue; }
		if (!ev->reply) { p += snprintf(sin_res + p, sizeof(sin_res) - p, "noctx"); continue; }
		if (!strcmp(a, "defer")) {
			MPT_INTERFACE(reply_context_detached) *h = (sin_defer_keep && cnh >= MAXH) ? 0 : ev->reply->_vptr->defer(ev->reply);
			if (h && sin_defer_keep) { p += snprintf(sin_res + p, sizeof(sin_res) - p, "deferred:h%d", cnh); chnd[cnh++] = h; }
			else p += snprintf(sin_res + p, sizeof(sin_res) - p, h ? "deferred" : "nodefer");
			continue;
		}
		MPT_STRUCT(message) msg; uint8_t *dat = 0; int none = 0, r;
		if (!strncmp(a, "replyfail:", 10) || !strncmp(a, "replyfail2:", 11)) {
			/* the stream's write queue cannot grow: 1st (nothing buffered yet) / 2nd (id buffered) realloc fails */
			int k = a[9] == '2' ? 2 : 1;
			if (parse_msg(a + 9 + k, &msg, &dat, &none) || none) { p += snprintf(sin_res + p, sizeof(sin_res) - p, "badact"); continue; }
			fail_realloc = k; realloc_refused = 0;
			r = ev->reply->_vptr->reply(ev->reply, &msg);
			fail_realloc = 0;
			p += snprintf(sin_res + p, sizeof(sin_res) - p, r < 0 ? "refused" : (realloc_refused ? "ok" : "ok-nofail"));
			free(dat);
			continue;
		}
		if (!strcmp(a, "replynull")) none = 1;
		else if (strncmp(a, "reply:", 6) || parse_msg(a + 6, &msg, &dat, &none) || none) { p += snprintf(sin_res + p, sizeof(sin_res) - p, "badact"); continue; }
		r = ev->reply->_vptr->reply(ev->reply, none ? 0 : &msg);
		free(dat);
		p += snprintf(sin_res + p, sizeof(sin_res) - p, r < 0 ? "refused" : "ok");
	}
	return ret;
}
static int sin_ro;
static int sin_fresh;       /* stream input opened and no request handled yet (nothing ever written) */
static int sin_act_ok(const char *acts, int fresh)
{
	/* acts: comma separated, each reply:<hex> | replynull | defer | ret:<int> */
	char *copy = strdup(acts), *save = 0, *a; int ok = 1, n = 0;
	if (!*acts || acts[0] == ',' || acts[strlen(acts) - 1] == ',' || strstr(acts, ",,")) ok = 0;
	for (a = strtok_r(copy, ",", &save); a && ok; a = strtok_r(0, ",", &save), ++n) {
		if (!strcmp(a, "replynull")) { fresh = 0; continue; }
		if (!strcmp(a, "defer")) continue;
		if (!strncmp(a, "replyfail:", 10) || !strncmp(a, "replyfail2:", 11)) {
			/* failure injection is predictable only while the write queue was never allocated */
			int k = a[9] == '2' ? 2 : 1; uint8_t *d = 0; size_t l = 0; int isn;
			if (!fresh || drv_parse_data(a + 9 + k, &d, &l, &isn) || isn || (k == 2 && l < 600)) ok = 0;
			if (k == 2) fresh = 0;
			free(d); continue;
		}
		if (!strncmp(a, "ret:", 4)) { char *e; long v = strtol(a + 4, &e, 10); if (*e || e == a + 4 || a[4] == '+' || v < -128 || v > 127) ok = 0; continue; }
		if (!strncmp(a, "reply:", 6)) { uint8_t *d = 0; size_t l; int isn; if (drv_parse_data(a + 6, &d, &l, &isn) || isn) ok = 0; free(d); fresh = 0; continue; }
		ok = 0;
	}
	free(copy);
	return ok && n <= 16;
}
/* ---------------------------------------------------------------- stream-backed connection */
/* the connection in use: the driver's own object or the one inside an mpt_output_remote() object (`remote`) */
static MPT_STRUCT(connection) ccon_store = MPT_CONNECTION_INIT;
static MPT_STRUCT(connection) *pcon = &ccon_store;
#define ccon (*pcon)
static MPT_INTERFACE(input) *cremote;    /* mpt_output_remote(): input interface first in the object (struct out_data) */
#define CREMOTE_OUT (&((MPT_STRUCT(out_data) *) cremote)->_out)
static int ccon_open;
static int ccon_moved;      /* after `c reassign`: only `c dreply` until the next `c open` */
static int ccon_fresh;      /* opened, nothing sent or handled yet */

static void ccon_close(void)
{
	if (!ccon_open) return;
	ccon_open = 0; ccon_moved = 0;
	/* the last reference of the output object closes its connection */
	if (cremote) { cremote->_vptr->meta.unref((void *) cremote); cremote = 0; pcon = &ccon_store; }
	else mpt_connection_fini(&ccon);
}
static int con_dispatch(MPT_TYPE(event_handler) h)
{
	return cremote ? cremote->_vptr->dispatch(cremote, h, 0) : mpt_connection_dispatch(&ccon, h, 0);
}
static int con_await(int (*ctl)(void *, const MPT_STRUCT(message) *), void *arg)
{
	return cremote ? CREMOTE_OUT->_vptr->await(CREMOTE_OUT, ctl, arg) : mpt_connection_await(&ccon, ctl, arg);
}
static ssize_t con_push(size_t len, const void *src)
{
	return cremote ? CREMOTE_OUT->_vptr->push(CREMOTE_OUT, len, src) : mpt_connection_push(&ccon, len, src);
}
/* take replies for the waiting commands (mpt_stream_sync / the output's sync) */
static int con_sync(void)
{
	if (cremote) return CREMOTE_OUT->_vptr->sync(CREMOTE_OUT, 0);
	if (MPT_socket_active(&ccon.out.sock)) return -99;
	return mpt_stream_sync((void *) ccon.out.buf._buf, ccon.out._idlen, &ccon._wait, 0);
}
/* new connection object for `c open`: plain or inside a fresh output object */
static void con_new(int remote)
{
	MPT_STRUCT(connection) init = MPT_CONNECTION_INIT;
	if (remote && (cremote = mpt_output_remote())) pcon = &((MPT_STRUCT(out_data) *) cremote)->con;
	else { pcon = &ccon_store; ccon = init; }
}
static void ccon_release(void)
{
	for (int i = 0; i < cnh; i++) if (chnd[i]) { chnd[i]->_vptr->reply(chnd[i], 0); chnd[i] = 0; }
	cnh = 0;
}
/* reply handler of a request sent by the connection: logged like a frame, `reply<tag>[payload]` */
static char crep[4096]; static size_t creplen;
static int creply_handler(void *arg, const MPT_STRUCT(message) *msg)
{
	creplen += snprintf(crep + creplen, sizeof(crep) - creplen, "%shr%ld(", creplen ? "," : "", (long) (intptr_t) arg);
	if (!msg) creplen += snprintf(crep + creplen, sizeof(crep) - creplen, "none");
	else {
		MPT_STRUCT(message) tmp = *msg; uint8_t b[1024]; size_t n = mpt_message_read(&tmp, sizeof(b), b);
		static const char d[] = "0123456789abcdef";
		if (!n) crep[creplen++] = '-';
		for (size_t i = 0; i < n && creplen + 3 < sizeof(crep); i++) { crep[creplen++] = d[b[i] >> 4]; crep[creplen++] = d[b[i] & 15]; }
	}
	crep[creplen++] = ')'; crep[creplen] = 0;
	/* tags 800000..899999: the command registers a follow-up request (tag + 1) while it handles its reply */
	if (msg && (intptr_t) arg >= 800000 && (intptr_t) arg < 900000) {
		int r = con_await(creply_handler, (void *) ((intptr_t) arg + 1));
		creplen += snprintf(crep + creplen, sizeof(crep) - creplen, r < 0 ? "+refused" : "+id=%u", (unsigned) ccon.cid);
	}
	/* tags from 900000 on: a command that reports failure */
	return (intptr_t) arg >= 900000 ? -1 : 0;
}
static int ccon_dgram;      /* the connection is a datagram socket (no stream): every datagram is one message */
/* what the peer received: COBS frames of the stream / the datagrams */
static void con_frames(void)
{
	if (!ccon_dgram) { sin_frames(); return; }
	uint8_t b[1 << 16]; ssize_t n; int any = 0;
	while (sin_peer >= 0 && (n = recv(sin_peer, b, sizeof(b), MSG_DONTWAIT)) >= 0) {
		if (any++) fputc(',', stdout);
		printf("frame["); drv_puthex(stdout, b, n); printf("]");
	}
	if (!any) fputc('-', stdout);
}
static void con_op(void)
{
	const char *op = drv_w[1];
	size_t a;
	if (ccon_moved && strcmp(op, "dreply") && strcmp(op, "open")) { puts("bad-op"); return; }
	if (!strcmp(op, "open") && drv_nw == 4 && (!strcmp(drv_w[3], "dgram") || !strcmp(drv_w[3], "rdgram"))) {
		if (drv_parse_nat(drv_w[2], &a) || a > 255) { puts("bad-op"); return; }
		sin_close(); ccon_release(); ccon_close(); sin_drop_peer();
		creplen = 0;
		int sv[2];
		if (socketpair(AF_UNIX, SOCK_DGRAM, 0, sv) < 0) { puts("R nosocket | C - | I ret=0"); return; }
		MPT_STRUCT(socket) sock; sock._id = sv[0];
		con_new(drv_w[3][0] == 'r');
		int r = mpt_connection_assign(&ccon, &sock);      /* keeps a duplicate of the descriptor */
		close(sv[0]);
		if (r < 0) { close(sv[1]); puts("R refused | C - | I ret=0"); return; }
		ccon.out._idlen = a;
		ccon_open = 1; ccon_fresh = 0; ccon_dgram = 1;
		sin_peer = sv[1]; sin_fd0 = -1;
		puts("R ok | C - | I ret=0");
	}
	else if (ccon_dgram && ccon_open && !strcmp(op, "req") && drv_nw == 4) {
		uint8_t *dat = 0; size_t dlen = 0; int isnull = 0;
		int discard = !strcmp(drv_w[3], "discard");
		if (drv_parse_data(drv_w[2], &dat, &dlen, &isnull) || isnull || dlen > 1000 || !(discard || sin_act_ok(drv_w[3], 0))) { puts("bad-op"); free(dat); return; }
		if (send(sin_peer, dat, dlen, 0) != (ssize_t) dlen) { free(dat); puts("R nowrite | C - | I ret=0"); return; }
		free(dat);
		sin_called = sin_ctx = 0; sin_id = 0; sin_res[0] = 0;
		sin_acts = drv_w[3];
		sin_defer_keep = 1;
		/* the output object receives in next(); it reports input by POLLIN */
		int nxd = 1, rv;
		if (cremote) { nxd = cremote->_vptr->next(cremote, POLLIN) == POLLIN; rv = (ccon.out.state & MPT_OUTFLAG(Received)) ? 0 : -1; }
		else rv = mpt_outdata_recv(&ccon.out);
		if (rv < 0) nxd = 1;
		int dr = con_dispatch(discard ? 0 : sin_handler);
		sin_defer_keep = 0;
		printf("R called=%d ctx=%d id=%llu acts=%s | C ", sin_called, sin_ctx, sin_id, sin_called ? sin_res : "-");
		if (creplen) { fputs(crep, stdout); creplen = 0; }
		else con_frames();
		/* same scale as the stream variant: 131072 = failed, else the event flags */
		printf(" | I next=%d disp=%d\n", nxd, (rv < 0 || dr < 0) ? 131072 : (dr & 0xffff));
	}
	else if (!strcmp(op, "open") && (drv_nw == 3 || (drv_nw == 4 && !strcmp(drv_w[3], "remote")))) {
		if (drv_parse_nat(drv_w[2], &a) || a > 255) { puts("bad-op"); return; }
		sin_close(); ccon_release(); ccon_close(); sin_drop_peer();
		creplen = 0; ccon_dgram = 0;
		int sv[2];
		if (socketpair(AF_UNIX, SOCK_STREAM, 0, sv) < 0) { puts("R nosocket | C - | I ret=0"); return; }
		MPT_STRUCT(socket) sock; sock._id = sv[0];
		MPT_STRUCT(stream) st = MPT_STREAM_INIT, *srm;
		if (mpt_stream_dopen(&st, &sock, MPT_STREAMFLAG(RdWr) | MPT_STREAMFLAG(Buffer)) < 0) { close(sv[0]); close(sv[1]); puts("R refused | C - | I ret=0"); return; }
		st._wd._enc = mpt_message_encoder(MPT_ENUM(EncodingCobs));
		st._rd._dec = mpt_message_decoder(MPT_ENUM(EncodingCobs));
		srm = malloc(sizeof(*srm));
		*srm = st;
		con_new(drv_nw == 4);
		ccon.out.buf._buf = (void *) srm;
		ccon.out._idlen = a;
		ccon_open = 1; ccon_fresh = 1;
		sin_peer = sv[1]; sin_fd0 = sv[0];
		puts("R ok | C - | I ret=0");
	}
	else if (!strcmp(op, "req") && drv_nw == 4) {
		uint8_t *dat = 0; size_t dlen = 0; int isnull = 0;
		int discard = !strcmp(drv_w[3], "discard");   /* mpt_connection_dispatch(con, 0, 0): drop the message */
		if (!ccon_open || drv_parse_data(drv_w[2], &dat, &dlen, &isnull) || isnull || dlen > 1000 || !(discard || sin_act_ok(drv_w[3], ccon_fresh))) { puts("bad-op"); free(dat); return; }
		ccon_fresh = 0;
		uint8_t wire[2100]; size_t wl = cobs_encode(dat, dlen, wire);
		free(dat);
		if (write(sin_peer, wire, wl) != (ssize_t) wl) { puts("R nowrite | C - | I ret=0"); return; }
		MPT_STRUCT(stream) *srm = (void *) ccon.out.buf._buf;
		sin_called = sin_ctx = 0; sin_id = 0; sin_res[0] = 0;
		sin_acts = drv_w[3];
		sin_defer_keep = 1;
		/* the output object polls without waiting: the frame is in the socket already */
		int nx = cremote ? (cremote->_vptr->next(cremote, POLLIN) >= 0 ? 1 : -1) : mpt_stream_poll(srm, POLLIN, -1);
		int dr = con_dispatch(discard ? 0 : sin_handler);
		for (int round = 0, left = 0; !sin_called && !dr && round < 64 && !ioctl(sin_fd0, FIONREAD, &left) && left > 0; round++) {
			nx = cremote ? (cremote->_vptr->next(cremote, POLLIN) >= 0 ? 1 : -1) : mpt_stream_poll(srm, POLLIN, -1);
			dr = con_dispatch(discard ? 0 : sin_handler);
		}
		sin_defer_keep = 0;
		mpt_stream_flush(srm);
		printf("R called=%d ctx=%d id=%llu acts=%s | C ", sin_called, sin_ctx, sin_id, sin_called ? sin_res : "-");
		if (creplen) { fputs(crep, stdout); creplen = 0; }
		else sin_frames();
		printf(" | I next=%d disp=%d\n", nx, dr);
	}
	else if (!strcmp(op, "dreply") && drv_nw == 4) {
		MPT_STRUCT(message) msg; uint8_t *dat = 0; int none = 0;
		if (drv_parse_nat(drv_w[2], &a) || a >= (size_t) cnh || !chnd[a] || parse_msg(drv_w[3], &msg, &dat, &none)) { puts("bad-op"); return; }
		ccon_fresh = 0;
		int r = chnd[a]->_vptr->reply(chnd[a], none ? 0 : &msg);
		if (!(r < 0 && !none)) chnd[a] = 0;
		free(dat);
		if (ccon_open && !ccon_dgram) mpt_stream_flush((void *) ccon.out.buf._buf);
		printf("R %s | C ", r < 0 ? "refused" : "ok");
		con_frames();
		/* a datagram send reports the bytes sent, the stream 0 */
		if (r < 0) printf(" | I ret=%s\n", drv_errname(r)); else printf(" | I ret=%d\n", ccon_dgram ? 0 : r);
	}
	else if (!strcmp(op, "await") && drv_nw == 3) {
		if (!ccon_open || drv_parse_nat(drv_w[2], &a) || a > 1000000) { puts("bad-op"); return; }
		int r = con_await(creply_handler, (void *) (intptr_t) a);
		if (r < 0) printf("R refused | C - | I ret=%s\n", drv_errname(r));
		else printf("R ok id=%u | C - | I ret=%d\n", (unsigned) ccon.cid, r);
	}
	else if (!strcmp(op, "send") && drv_nw == 3) {
		uint8_t *dat = 0; size_t dlen = 0; int isnull = 0;
		if (!ccon_open || drv_parse_data(drv_w[2], &dat, &dlen, &isnull) || isnull || dlen > 1000) { puts("bad-op"); free(dat); return; }
		ccon_fresh = 0;
		ssize_t r1 = dlen ? con_push(dlen, dat) : 0;
		ssize_t r2 = r1 < 0 ? r1 : con_push(0, 0);
		free(dat);
		printf("R %s | C ", (r1 < 0 || r2 < 0) ? "refused" : "ok");
		con_frames();
		printf(" | I ret=%zd,%zd\n", r1, r2);
	}
	else if (!strcmp(op, "reassign") && drv_nw == 2) {
		/* the connection gets a new target (mpt_connection_assign -> mpt_connection_close): commands still waiting are told
		 * so, the reply context is released; handles deferred before stay with the driver.  Afterwards only
		 * `c dreply` is accepted until the next `c open` (what arrives at the NEW peer is shown) */
		if (!ccon_open || ccon_moved) { puts("bad-op"); return; }
		int sv[2];
		if (socketpair(AF_UNIX, ccon_dgram ? SOCK_DGRAM : SOCK_STREAM, 0, sv) < 0) { puts("R nosocket | C - | I ret=0"); return; }
		MPT_STRUCT(socket) sock; sock._id = sv[0];
		creplen = 0;
		/* (mpt_connection_assign closes the old stream but drops the pointer to its descriptor: freed here) */
		void *oldsrm = ccon_dgram ? 0 : (void *) ccon.out.buf._buf;
		int r = mpt_connection_assign(&ccon, &sock);
		if (oldsrm && oldsrm != (void *) ccon.out.buf._buf) free(oldsrm);
		close(sv[0]);
		sin_drop_peer();
		sin_peer = sv[1]; sin_fd0 = -1;
		ccon_moved = 1;
		printf("R %s | C %s | I ret=0\n", r < 0 ? "refused" : "ok", creplen ? crep : "-");
		creplen = 0;
	}
	else if (!strcmp(op, "probe") && drv_nw == 2) {
		/* the other interfaces of the output object: conversions, reference count, clone, object property */
		if (!ccon_open || !cremote) { puts("bad-op"); return; }
		const MPT_STRUCT(named_traits) *tr = mpt_input_type_traits();
		MPT_INTERFACE(convertable) *cv = (void *) cremote;
		MPT_STRUCT(out_data) *od = (void *) cremote;
		const uint8_t *fmt = 0; void *p1 = 0, *p2 = 0, *po = 0, *pu = 0, *pl = 0; int fd = -2;
		int me = tr ? (int) tr->type : (int) MPT_ENUM(TypeMetaPtr);
		int r0 = cv->_vptr->convert(cv, 0, &fmt);
		int r1 = cv->_vptr->convert(cv, MPT_ENUM(TypeMetaPtr), &p1);
		int r2 = cv->_vptr->convert(cv, MPT_ENUM(TypeUnixSocket), &fd);
		int r3 = cv->_vptr->convert(cv, me, &p2);
		int r4 = cv->_vptr->convert(cv, 'x', 0);
		int r5 = cv->_vptr->convert(cv, MPT_ENUM(TypeObjectPtr), &po);
		int r6 = cv->_vptr->convert(cv, MPT_ENUM(TypeOutputPtr), &pu);
		int r7 = cv->_vptr->convert(cv, MPT_ENUM(TypeLoggerPtr), &pl);
		int r8 = cv->_vptr->convert(cv, 0, 0) == me && cv->_vptr->convert(cv, MPT_ENUM(TypeUnixSocket), 0) == me && cv->_vptr->convert(cv, me, 0) == MPT_ENUM(TypeUnixSocket);
		int wantfd = ccon_dgram ? (int) ccon.out.sock._id : sin_fd0;
		uintptr_t rf = cremote->_vptr->meta.addref((void *) cremote);
		cremote->_vptr->meta.unref((void *) cremote);
		MPT_INTERFACE(metatype) *cl = cremote->_vptr->meta.clone((void *) cremote);
		int pt = od->_obj._vptr->property(&od->_obj, 0);
		printf("R ok fmt=%s,%s meta=%s,%d sock=%s,%s input=%s,%d unknown=%s obj=%s,%s out=%s,%s log=%s,%s noptr=%s clone=%s ref=%d prop=%s | C - | I ret=0\n",
		       (fmt && fmt[0] == MPT_ENUM(TypeObjectPtr) && fmt[1] == MPT_ENUM(TypeOutputPtr) && fmt[2] == MPT_ENUM(TypeLoggerPtr) && !fmt[3]) ? "oul" : "?", r0 == me ? "me" : "?",
		       p1 == (void *) cremote ? "same" : "?", r1, fd == wantfd ? "same" : "?", r2 == me ? "me" : "?",
		       p2 == (void *) cremote ? "same" : "?", r3, r4 < 0 ? drv_errname(r4) : "ok",
		       po == (void *) &od->_obj ? "same" : "?", r5 == me ? "me" : "?", pu == (void *) &od->_out ? "same" : "?", r6 == me ? "me" : "?",
		       pl == (void *) &od->_log ? "same" : "?", r7 == me ? "me" : "?", r8 ? "ok" : "?", cl ? "yes" : "no", (int) rf,
		       pt == MPT_ENUM(TypeOutputPtr) ? "output" : "?");
	}
	else if (!strcmp(op, "sync") && drv_nw == 3) {
		/* the peer sends replies (frames whose id carries the reply mark), then the waiting commands are synced
		 * (mpt_stream_sync / the output object's sync) until nothing moves; what sync left is dispatched without handler */
		size_t il = ccon_open ? ccon.out._idlen : 0;
		if (!ccon_open || !il || (ccon_dgram && !cremote)) { puts("bad-op"); return; }
		char *copy = strdup(drv_w[2]), *save = 0, *p; int bad = 0, n = 0;
		if (drv_w[2][0] == ',' || drv_w[2][strlen(drv_w[2]) - 1] == ',' || strstr(drv_w[2], ",,")) bad = 1;
		for (p = strtok_r(copy, ",", &save); p && !bad; p = strtok_r(0, ",", &save), ++n) {
			uint8_t *d = 0; size_t l; int isn;
			if (n >= 16 || drv_parse_data(p, &d, &l, &isn) || isn || l > 1000 || l < il || (!ccon_dgram && !(d[0] & 0x80))) bad = 1;
			free(d);
		}
		free(copy);
		if (bad || !n) { puts("bad-op"); return; }
		ccon_fresh = 0;
		save = 0;
		for (p = strtok_r(drv_w[2], ",", &save); p; p = strtok_r(0, ",", &save)) {
			uint8_t *d = 0; size_t l; int isn; uint8_t wire[2100];
			drv_parse_data(p, &d, &l, &isn);
			if (ccon_dgram) { if (send(sin_peer, d, l, 0) < 0) bad = 1; }
			else { size_t wl = cobs_encode(d, l, wire); if (write(sin_peer, wire, wl) != (ssize_t) wl) bad = 1; }
			free(d);
		}
		if (bad) { puts("R nowrite | C - | I ret=0"); return; }
		int fd = ccon_dgram ? (int) ccon.out.sock._id : sin_fd0, last = 0, left = 0, rounds, waiting = 0;
		for (rounds = 0; rounds < 200; rounds++) {
			left = 0; ioctl(fd, FIONREAD, &left);
			last = con_sync();
			/* the output's datagram sync answers with the number of waiting commands when a datagram is no reply */
			if (ccon_dgram && last > 0) waiting = last;
			int now = 0; ioctl(fd, FIONREAD, &now);
			if (left <= 0 && now <= 0 && last <= 0) break;
			if (left <= 0 && rounds > 40) break;
		}
		/* leftovers */
		for (rounds = 0; rounds < 64; rounds++) {
			int dr;
			if (ccon_dgram) {
				left = 0; ioctl(fd, FIONREAD, &left);
				if (!(ccon.out.state & MPT_OUTFLAG(Received)) && left <= 0) break;
				if (!(ccon.out.state & MPT_OUTFLAG(Received))) cremote->_vptr->next(cremote, POLLIN);
				con_dispatch(0);
				continue;
			}
			left = 0; ioctl(fd, FIONREAD, &left);
			if (left > 0) { if (cremote) cremote->_vptr->next(cremote, POLLIN); else mpt_stream_poll((void *) ccon.out.buf._buf, POLLIN, 0); }
			dr = con_dispatch(0);
			if (left <= 0 && !(dr > 0 && (dr & MPT_EVENTFLAG(Retry)))) break;
		}
		/* calls of the reply commands, then what the peer got (default replies to discarded requests) */
		if (waiting) printf("R ok waiting=%d | C ", waiting); else printf("R ok | C ");
		if (creplen) fputs(crep, stdout);
		if (ccon_dgram) {
			uint8_t b[1 << 12]; ssize_t k; int any = creplen ? 1 : 0;
			while ((k = recv(sin_peer, b, sizeof(b), MSG_DONTWAIT)) >= 0) {
				if (any++) fputc(',', stdout);
				printf("frame["); drv_puthex(stdout, b, k); printf("]");
			}
			if (!any) fputc('-', stdout);
		}
		else if (!creplen) fputc('-', stdout);
		printf(" | I ret=0\n");
		creplen = 0;
		(void) last;
	}
	else if (!strcmp(op, "close") && drv_nw == 2) {
		if (!ccon_open) { puts("bad-op"); return; }
		ccon_close();
		printf("R ok | C ");
		if (creplen) { fputs(crep, stdout); creplen = 0; }
		else con_frames();
		printf(" | I ret=0\n");
	}
	else puts("bad-op");
}

static void sin_op(void)
{
	const char *op = drv_w[1];
	size_t a;
	if (!strcmp(op, "probe") && drv_nw == 2) {
		/* the other interfaces of the stream input: conversions, reference count, clone — none touches the replies */
		if (!sin_in) { puts("bad-op"); return; }
		const MPT_STRUCT(named_traits) *tr = mpt_input_type_traits();
		MPT_INTERFACE(convertable) *cv = (void *) sin_in;
		const char *fmt = 0; void *p1 = 0, *p2 = 0; int fd = -1;
		int me = tr ? (int) tr->type : (int) MPT_ENUM(TypeMetaPtr);
		int r0 = cv->_vptr->convert(cv, 0, &fmt);
		int r1 = cv->_vptr->convert(cv, MPT_ENUM(TypeMetaPtr), &p1);
		int r2 = cv->_vptr->convert(cv, MPT_ENUM(TypeUnixSocket), &fd);
		int r3 = cv->_vptr->convert(cv, me, &p2);
		int r4 = cv->_vptr->convert(cv, 'x', 0);
		int r5 = cv->_vptr->convert(cv, 0, 0) == me && cv->_vptr->convert(cv, MPT_ENUM(TypeUnixSocket), 0) == me;
		uintptr_t rf = sin_in->_vptr->meta.addref((void *) sin_in);
		sin_in->_vptr->meta.unref((void *) sin_in);
		MPT_INTERFACE(metatype) *cl = sin_in->_vptr->meta.clone((void *) sin_in);
		printf("R ok fmt=%s,%s meta=%s,%d sock=%s,%s input=%s,%d unknown=%s noptr=%s clone=%s ref=%d | C - | I ret=0\n",
		       (fmt && fmt[0] == MPT_ENUM(TypeUnixSocket) && !fmt[1]) ? "sock" : "?", r0 == me ? "me" : "?",
		       p1 == (void *) sin_in ? "same" : "?", r1, fd == sin_fd0 ? "same" : "?", r2 == me ? "me" : "?",
		       p2 == (void *) sin_in ? "same" : "?", r3, r4 < 0 ? drv_errname(r4) : "ok", r5 ? "ok" : "?", cl ? "yes" : "no", (int) rf);
	}
	else if (!strcmp(op, "open") && (drv_nw == 3 || (drv_nw == 4 && !strcmp(drv_w[3], "ro")))) {
		if (drv_parse_nat(drv_w[2], &a) || a > 1000) { puts("bad-op"); return; }
		sin_close(); ccon_release(); ccon_close(); sin_drop_peer();
		creplen = 0;
		int sv[2];
		if (socketpair(AF_UNIX, SOCK_STREAM, 0, sv) < 0) { puts("R nosocket | C - | I ret=0"); return; }
		MPT_STRUCT(socket) sock; sock._id = sv[0];
		/* `ro`: the stream cannot be written, there is no way to answer */
		sin_in = mpt_stream_input(&sock, (drv_nw == 4 ? MPT_STREAMFLAG(Read) : MPT_STREAMFLAG(RdWr)) | MPT_STREAMFLAG(Buffer), MPT_ENUM(EncodingCobs), a);
		if (!sin_in) { close(sv[0]); close(sv[1]); puts("R refused | C - | I ret=0"); return; }
		sin_peer = sv[1]; sin_fd0 = sv[0];
		sin_fresh = 1; sin_ro = drv_nw == 4;
		puts("R ok | C - | I ret=0");
	}
	else if (!strcmp(op, "req") && drv_nw == 4) {
		uint8_t *dat = 0; size_t dlen = 0; int isnull = 0;
		int discard = !strcmp(drv_w[3], "discard");   /* dispatch(in, 0, 0): the message is dropped */
		if (!sin_in || drv_parse_data(drv_w[2], &dat, &dlen, &isnull) || isnull || dlen > 1000 || !(discard || sin_act_ok(drv_w[3], sin_fresh))) { puts("bad-op"); free(dat); return; }
		sin_fresh = 0;
		uint8_t wire[2100]; size_t wl = cobs_encode(dat, dlen, wire);
		free(dat);
		if (write(sin_peer, wire, wl) != (ssize_t) wl) { puts("R nowrite | C - | I ret=0"); return; }
		sin_called = sin_ctx = 0; sin_id = 0; sin_res[0] = 0;
		sin_acts = drv_w[3];
		int nx = sin_in->_vptr->next(sin_in, POLLIN);
		int dr = sin_in->_vptr->dispatch(sin_in, discard ? 0 : sin_handler, 0);
		/* a frame larger than the read buffer arrives in several reads */
		for (int round = 0, left = 0; !discard && !sin_called && !dr && round < 64 && !ioctl(sin_fd0, FIONREAD, &left) && left > 0; round++) {
			nx = sin_in->_vptr->next(sin_in, POLLIN);
			dr = sin_in->_vptr->dispatch(sin_in, discard ? 0 : sin_handler, 0);
		}
		/* flush the answers (a read-only stream has nothing to flush and would block in the fast path for input) */
		if (!sin_ro) sin_in->_vptr->next(sin_in, POLLIN | POLLOUT);
		printf("R called=%d ctx=%d id=%llu acts=%s | C ", sin_called, sin_ctx, sin_id, sin_called ? sin_res : "-");
		sin_frames();
		printf(" | I next=%d disp=%d\n", nx, dr);
	}
	else if (!strcmp(op, "close") && drv_nw == 2) {
		if (!sin_in) { puts("bad-op"); return; }
		sin_close();
		printf("R ok | C ");
		sin_frames();
		printf(" | I ret=0\n");
		sin_drop_peer();
	}
	else puts("bad-op");
}

int main(void)
{
	static char line[1 << 16];
	drv_init();
	while (fgets(line, sizeof(line), stdin)) {
		if (line[0] == '#' || line[0] == '\n') { fputs(line, stdout); continue; }
		drv_split(line);
		if (drv_nw >= 2 && !strcmp(drv_w[0], "s")) { sin_op(); continue; }
		if (drv_nw >= 2 && !strcmp(drv_w[0], "c")) { con_op(); continue; }
		if (drv_nw < 2 || strcmp(drv_w[0], "r")) { puts("bad-op"); continue; }
		const char *op = drv_w[1];
		size_t a;
		uint8_t *dat = 0; size_t dlen = 0; int isnull = 0;
		if (!strcmp(op, "id2buf") && drv_nw == 4) {
			char *e; errno = 0;
			unsigned long long id = strtoull(drv_w[2], &e, 10);
			if (*e || e == drv_w[2] || errno || drv_w[2][0] == '-' || drv_w[2][0] == '+' || drv_parse_nat(drv_w[3], &a) || a > 4096) { puts("bad-op"); continue; }
			uint8_t *buf = malloc(a ? a : 1);
			memset(buf, 0xa5, a ? a : 1);
			int r = mpt_message_id2buf(id, a ? buf : buf + 1, a);   /* w = 0: any access is an overrun */
			if (r < 0) result("refused", r);
			else {
				char v[8300]; size_t p = 0;
				p += sprintf(v, "ok id=");
				if (!a) v[p++] = '-';
				for (size_t i = 0; i < a; i++) p += sprintf(v + p, "%02x", buf[i]);
				v[p] = 0;
				result(v, r);
			}
			free(buf);
		}
		else if (!strcmp(op, "buf2id") && drv_nw == 3) {
			if (drv_parse_data(drv_w[2], &dat, &dlen, &isnull) || isnull) { puts("bad-op"); free(dat); continue; }
			/* exact-size copy so that a read past the id is seen */
			uint8_t *buf = malloc(dlen ? dlen : 1);
			if (dlen) memcpy(buf, dat, dlen);
			free(dat);
			uint64_t id = 0xdeadbeefdeadbeefULL;
			int r = mpt_message_buf2id(dlen ? buf : buf + 1, dlen, &id);
			if (r < 0) result("refused", r);
			else { char v[64]; snprintf(v, sizeof(v), "ok id=%" PRIu64, id); result(v, r); }
			free(buf);
		}
		else if (!strcmp(op, "send")) {
			int bad = 0;
			if (drv_nw - 2 > MAXS) bad = 1;
			for (int i = 2; i < drv_nw && !bad; i++) if (strcmp(drv_w[i], "ok") && strcmp(drv_w[i], "fail")) bad = 1;
			if (bad) { puts("bad-op"); continue; }
			nsched = psched = 0;
			for (int i = 2; i < drv_nw; i++) sched[nsched++] = strcmp(drv_w[i], "ok") ? MPT_ERROR(BadOperation) : 0;
			result("ok", 0);
		}
		else if (!strcmp(op, "ctx") && (drv_nw == 3 || (drv_nw == 4 && !strcmp(drv_w[3], "noptr")))) {
			if (drv_parse_nat(drv_w[2], &a) || a > 100000) { puts("bad-op"); continue; }
			int keep_n = nsched, keep_p = psched, ks[MAXS];
			memcpy(ks, sched, sizeof(ks));
			release_all();
			memcpy(sched, ks, sizeof(ks)); nsched = keep_n; psched = keep_p;
			ctx = mpt_reply_deferrable(a, send_cb, drv_nw == 4 ? 0 : &transport);
			ctx_snapshot(1);
			result(ctx ? "ok" : "refused", 0);
		}
		else if (!strcmp(op, "probe") && drv_nw == 2) {
			/* the other metatype entry points of the context: type list, unknown type, clone, extra reference */
			if (!ctx) { puts("bad-op"); continue; }
			const uint8_t *fmt = 0; void *p = 0;
			int r0 = MPT_metatype_convert(ctx, 0, &fmt);
			int r1 = MPT_metatype_convert(ctx, 0, 0);
			int r2 = MPT_metatype_convert(ctx, 'x', &p);
			void *cl = ctx->_vptr->clone(ctx);
			char v[128];
			snprintf(v, sizeof(v), "ok types=%02x%02x conv0=%d,%d unknown=%s clone=%s %s", fmt ? fmt[0] : 0, fmt ? fmt[1] : 0, r0, r1,
			         r2 < 0 ? drv_errname(r2) : "ok", cl ? "yes" : "no", ctx_snapshot(0) ? "ctx=intact" : "ctx=CHANGED");
			result(v, 0);
		}
		else if (!strcmp(op, "reref") && drv_nw == 2) {
			/* a second metatype reference is taken and released again: the release of ANY metatype reference while
			 * others remain counts as the owner going away (default reply for the pending request, transport detached) */
			if (!ctx) { puts("bad-op"); continue; }
			uintptr_t ref = ctx->_vptr->addref(ctx);
			if (ref) ctx->_vptr->unref(ctx);
			result(ref ? "ok" : "refused", 0);
		}
		else if (!strcmp(op, "creply") && drv_nw == 4) {
			/* mpt_context_reply(rc, code, "%s", text): answer header + text through the context */
			long code; char *e;
			code = strtol(drv_w[2], &e, 10);
			if (!ctx || *e || e == drv_w[2] || drv_w[2][0] == '+' || code < -1000 || code > 1000 || drv_parse_data(drv_w[3], &dat, &dlen, &isnull) || isnull
			    || dlen > 600 || (dlen && memchr(dat, 0, dlen))) { puts("bad-op"); free(dat); continue; }
			MPT_INTERFACE(reply_context) *rc = 0;
			int r = MPT_metatype_convert(ctx, MPT_ENUM(TypeReplyPtr), &rc);
			if (r < 0 || !rc) { result("noconv", r); free(dat); continue; }
			char *txt = malloc(dlen + 1);
			memcpy(txt, dat, dlen); txt[dlen] = 0;
			free(dat);
			r = dlen ? mpt_context_reply(rc, code, "%s", txt) : mpt_context_reply(rc, code, 0);
			free(txt);
			result(r < 0 ? "refused" : "ok", r);
		}
		else if (!strcmp(op, "lreply") && drv_nw == 4) {
			/* mpt_context_reply without a context: the text goes to stderr (sent to /dev/null here), no transport call */
			long code; char *e;
			code = strtol(drv_w[2], &e, 10);
			if (!ctx || *e || e == drv_w[2] || drv_w[2][0] == '+' || code < -1000 || code > 1000 || drv_parse_data(drv_w[3], &dat, &dlen, &isnull) || isnull
			    || dlen > 600 || (dlen && memchr(dat, 0, dlen))) { puts("bad-op"); free(dat); continue; }
			char *txt = malloc(dlen + 1);
			memcpy(txt, dat, dlen); txt[dlen] = 0;
			free(dat);
			fflush(stderr);
			int keep = dup(2), nul = open("/dev/null", O_WRONLY);
			if (nul >= 0) { dup2(nul, 2); close(nul); }
			int r = dlen ? mpt_context_reply(0, code, "%s", txt) : mpt_context_reply(0, code, 0);
			fflush(stderr);
			if (keep >= 0) { dup2(keep, 2); close(keep); }
			free(txt);
			result(r < 0 ? "refused" : (r ? "logged" : "ok"), r);
		}
		else if (!strcmp(op, "arm") && drv_nw == 3) {
			/* `zero:<n>`: mpt_reply_set with a null data pointer (n zero bytes) */
			/* `self:<hex>`: the id has been received straight into the context's own value buffer, mpt_reply_set(rd, len, rd->val) */
			int self = !strncmp(drv_w[2], "self:", 5);
			if (!ctx || drv_parse_data(drv_w[2] + (self ? 5 : 0), &dat, &dlen, &isnull) || dlen > 70000 || (self && isnull)) { puts("bad-op"); free(dat); continue; }
			int zero = isnull;
			MPT_STRUCT(reply_data) *rd = 0;
			int r = MPT_metatype_convert(ctx, MPT_ENUM(TypeReplyDataPtr), &rd);
			if (r < 0 || !rd) { result("noconv", r); free(dat); continue; }
			if (self && !rd->len && dlen <= rd->_max) {
				memcpy(rd->val, dat, dlen);
				r = mpt_reply_set(rd, dlen, rd->val);
			}
			else r = mpt_reply_set(rd, dlen, zero ? 0 : dat);
			free(dat);
			/* "arming never disturbs the reply context itself": the context still hands out the same interfaces */
			result(r < 0 ? (ctx_snapshot(0) ? "refused ctx=intact" : "refused ctx=CHANGED") : (ctx_snapshot(0) ? "ok ctx=intact" : "ok ctx=CHANGED"), r);
		}
		else if (!strcmp(op, "reply") && drv_nw == 3) {
			MPT_STRUCT(message) msg; int none;
			if (!ctx || parse_msg(drv_w[2], &msg, &dat, &none)) { puts("bad-op"); continue; }
			MPT_INTERFACE(reply_context) *rc = 0;
			int r = MPT_metatype_convert(ctx, MPT_ENUM(TypeReplyPtr), &rc);
			if (r < 0 || !rc) { result("noconv", r); free(dat); continue; }
			r = rc->_vptr->reply(rc, none ? 0 : &msg);
			free(dat);
			result(r < 0 ? "refused" : "ok", r);
		}
		else if (!strcmp(op, "defer") && (drv_nw == 2 || (drv_nw == 3 && !strcmp(drv_w[2], "nomem")))) {
			if (!ctx || nh >= MAXH) { puts("bad-op"); continue; }
			MPT_INTERFACE(reply_context) *rc = 0;
			int r = MPT_metatype_convert(ctx, MPT_ENUM(TypeReplyPtr), &rc);
			if (r < 0 || !rc) { result("noconv", r); continue; }
			fail_malloc = drv_nw == 3;
			MPT_INTERFACE(reply_context_detached) *h = rc->_vptr->defer(rc);
			fail_malloc = 0;
			if (!h) result("refused", 0);
			else { char v[32]; hnd[nh] = h; snprintf(v, sizeof(v), "ok h%d", nh); ++nh; result(v, 0); }
		}
		else if ((!strcmp(op, "dreply") && drv_nw == 4) || (!strcmp(op, "drop") && drv_nw == 3 && strcmp(drv_w[2], "ctx"))) {
			MPT_STRUCT(message) msg; int none = 1;
			if (drv_parse_nat(drv_w[2], &a) || a >= (size_t) nh || !hnd[a]) { puts("bad-op"); continue; }
			if (*op == 'd' && op[1] == 'r' && op[2] == 'e' && parse_msg(drv_w[3], &msg, &dat, &none)) { puts("bad-op"); continue; }
			int r = hnd[a]->_vptr->reply(hnd[a], none ? 0 : &msg);
			/* the handle is gone unless a reply with a message failed */
			if (!(r < 0 && !none)) hnd[a] = 0;
			free(dat);
			result(r < 0 ? "refused" : "ok", r);
		}
		else if (!strcmp(op, "drop") && drv_nw == 3) {
			if (!ctx) { puts("bad-op"); continue; }
			ctx->_vptr->unref(ctx);
			ctx = 0;
			result("ok", 0);
		}
		else puts("bad-op");
	}
	release_all();
	ccon_release(); ccon_close();
	sin_close(); sin_drop_peer();
	return 0;
}
