/* line-protocol driver: message ids and the deferrable reply context (C12).  Calls the real functions in-process.
 *
 *   r id2buf <id> <w>          mpt_message_id2buf(id, buf[w], w)          (id decimal, 0..2^64-1)
 *   r buf2id <hex>             mpt_message_buf2id(bytes, len, &id)
 *   r ctx <w> [noptr]          mpt_reply_deferrable(w, send_cb, transport)   (noptr: transport pointer NULL)
 *   r arm <hex>                convert(TypeReplyDataPtr) + mpt_reply_set(rd, len, bytes)
 *   r reply <hex|none>         convert(TypeReplyPtr) + rc->reply(rc, msg)
 *   r defer                    rc->defer(rc)  -> handle token h<k>
 *   r dreply <k> <hex|none>    handle k ->reply(msg)
 *   r drop <k|ctx>             handle k ->reply(NULL)  |  metatype unref (owner releases the context)
 *   r send <ok|fail> ...       schedule of the transport's answers (exhausted: ok)
 *
 * R = verdict (+ token / id), C = the transport calls made during this op, I = exact return code.
 * The driver refuses (bad-op) what the API forbids: use of a released handle, use of the context after
 * the owner released it.
 */
#include "drv_util.h"
#include <errno.h>
#include <inttypes.h>
#include <sys/uio.h>
#include "meta.h"
#include "types.h"
#include "message.h"
#include "event.h"

#define MAXH 32
static MPT_INTERFACE(metatype) *ctx;             /* owner's reference, 0 after `drop ctx` */
static MPT_INTERFACE(reply_context_detached) *hnd[MAXH];
static int nh;
static int transport;                             /* address used as transport pointer */

#define MAXS 64
static int sched[MAXS], nsched, psched;

static char logbuf[1 << 16];
static size_t loglen;

static void logf_hex(const uint8_t *b, size_t n)
{
	static const char d[] = "0123456789abcdef";
	if (!n) { logbuf[loglen++] = '-'; return; }
	for (size_t i = 0; i < n && loglen + 2 < sizeof(logbuf); i++) { logbuf[loglen++] = d[b[i] >> 4]; logbuf[loglen++] = d[b[i] & 15]; }
}
static void logf_str(const char *s)
{
	size_t n = strlen(s);
	if (loglen + n < sizeof(logbuf)) { memcpy(logbuf + loglen, s, n); loglen += n; }
}
static int send_cb(void *ptr, const MPT_STRUCT(reply_data) *rd, const MPT_STRUCT(message) *msg)
{
	int ret = psched < nsched ? sched[psched++] : 0;
	if (loglen) logf_str(",");
	logf_str(ptr == &transport ? "send[id=" : "send[WRONG-TRANSPORT id=");
	logf_hex(rd->val, rd->len);
	logf_str(" msg=");
	if (!msg) logf_str("none");
	else {
		size_t total = msg->used;
		for (size_t i = 0; i < msg->clen; i++) total += msg->cont[i].iov_len;
		if (!total) logf_str("-");
		if (msg->used) logf_hex(msg->base, msg->used);
		for (size_t i = 0; i < msg->clen; i++) if (msg->cont[i].iov_len) logf_hex(msg->cont[i].iov_base, msg->cont[i].iov_len);
	}
	logf_str(ret >= 0 ? "]->ok" : "]->fail");
	return ret;
}
static void result(const char *r, long code)
{
	logbuf[loglen] = 0;
	if (code < 0) printf("R %s | C %s | I ret=%s\n", r, loglen ? logbuf : "-", drv_errname(code));
	else printf("R %s | C %s | I ret=%ld\n", r, loglen ? logbuf : "-", code);
	loglen = 0;
}
/* "none" -> NULL message, hex -> one-fragment message */
static int parse_msg(const char *s, MPT_STRUCT(message) *msg, uint8_t **dat, int *none)
{
	size_t n; int isnull;
	*dat = 0; *none = 0;
	if (!strcmp(s, "none")) { *none = 1; return 0; }
	if (drv_parse_data(s, dat, &n, &isnull) || isnull) { free(*dat); *dat = 0; return -1; }
	memset(msg, 0, sizeof(*msg));
	msg->base = *dat; msg->used = n;
	return 0;
}
static void release_all(void)
{
	/* new context / exit: release what is still held (transport answers ok, calls not reported) */
	nsched = psched = 0;
	for (int i = 0; i < nh; i++) if (hnd[i]) { hnd[i]->_vptr->reply(hnd[i], 0); hnd[i] = 0; }
	nh = 0;
	if (ctx) { ctx->_vptr->unref(ctx); ctx = 0; }
	loglen = 0;
}

int main(void)
{
	static char line[1 << 16];
	drv_init();
	while (fgets(line, sizeof(line), stdin)) {
		if (line[0] == '#' || line[0] == '\n') { fputs(line, stdout); continue; }
		drv_split(line);
		if (drv_nw < 2 || strcmp(drv_w[0], "r")) { puts("bad-op"); continue; }
		const char *op = drv_w[1];
		size_t a;
		uint8_t *dat = 0; size_t dlen = 0; int isnull = 0;
		if (!strcmp(op, "id2buf") && drv_nw == 4) {
			char *e; errno = 0;
			unsigned long long id = strtoull(drv_w[2], &e, 10);
			if (*e || e == drv_w[2] || errno || drv_w[2][0] == '-' || drv_w[2][0] == '+' || drv_parse_nat(drv_w[3], &a) || a > 4096) { puts("bad-op"); continue; }
			uint8_t *buf = malloc(a ? a : 1);
			memset(buf, 0xa5, a ? a : 1);
			int r = mpt_message_id2buf(id, a ? buf : buf + 1, a);   /* w = 0: any access is an overrun */
			if (r < 0) result("refused", r);
			else {
				char v[8300]; size_t p = 0;
				p += sprintf(v, "ok id=");
				if (!a) v[p++] = '-';
				for (size_t i = 0; i < a; i++) p += sprintf(v + p, "%02x", buf[i]);
				v[p] = 0;
				result(v, r);
			}
			free(buf);
		}
		else if (!strcmp(op, "buf2id") && drv_nw == 3) {
			if (drv_parse_data(drv_w[2], &dat, &dlen, &isnull) || isnull) { puts("bad-op"); free(dat); continue; }
			/* exact-size copy so that a read past the id is seen */
			uint8_t *buf = malloc(dlen ? dlen : 1);
			if (dlen) memcpy(buf, dat, dlen);
			free(dat);
			uint64_t id = 0xdeadbeefdeadbeefULL;
			int r = mpt_message_buf2id(dlen ? buf : buf + 1, dlen, &id);
			if (r < 0) result("refused", r);
			else { char v[64]; snprintf(v, sizeof(v), "ok id=%" PRIu64, id); result(v, r); }
			free(buf);
		}
		else if (!strcmp(op, "send")) {
			int bad = 0;
			if (drv_nw - 2 > MAXS) bad = 1;
			for (int i = 2; i < drv_nw && !bad; i++) if (strcmp(drv_w[i], "ok") && strcmp(drv_w[i], "fail")) bad = 1;
			if (bad) { puts("bad-op"); continue; }
			nsched = psched = 0;
			for (int i = 2; i < drv_nw; i++) sched[nsched++] = strcmp(drv_w[i], "ok") ? MPT_ERROR(BadOperation) : 0;
			result("ok", 0);
		}
		else if (!strcmp(op, "ctx") && (drv_nw == 3 || (drv_nw == 4 && !strcmp(drv_w[3], "noptr")))) {
			if (drv_parse_nat(drv_w[2], &a) || a > 100000) { puts("bad-op"); continue; }
			int keep_n = nsched, keep_p = psched, ks[MAXS];
			memcpy(ks, sched, sizeof(ks));
			release_all();
			memcpy(sched, ks, sizeof(ks)); nsched = keep_n; psched = keep_p;
			ctx = mpt_reply_deferrable(a, send_cb, drv_nw == 4 ? 0 : &transport);
			result(ctx ? "ok" : "refused", 0);
		}
		else if (!strcmp(op, "arm") && drv_nw == 3) {
			if (!ctx || drv_parse_data(drv_w[2], &dat, &dlen, &isnull) || isnull) { puts("bad-op"); free(dat); continue; }
			MPT_STRUCT(reply_data) *rd = 0;
			int r = MPT_metatype_convert(ctx, MPT_ENUM(TypeReplyDataPtr), &rd);
			if (r < 0 || !rd) { result("noconv", r); free(dat); continue; }
			r = mpt_reply_set(rd, dlen, dat);
			free(dat);
			result(r < 0 ? "refused" : "ok", r);
		}
		else if (!strcmp(op, "reply") && drv_nw == 3) {
			MPT_STRUCT(message) msg; int none;
			if (!ctx || parse_msg(drv_w[2], &msg, &dat, &none)) { puts("bad-op"); continue; }
			MPT_INTERFACE(reply_context) *rc = 0;
			int r = MPT_metatype_convert(ctx, MPT_ENUM(TypeReplyPtr), &rc);
			if (r < 0 || !rc) { result("noconv", r); free(dat); continue; }
			r = rc->_vptr->reply(rc, none ? 0 : &msg);
			free(dat);
			result(r < 0 ? "refused" : "ok", r);
		}
		else if (!strcmp(op, "defer") && drv_nw == 2) {
			if (!ctx || nh >= MAXH) { puts("bad-op"); continue; }
			MPT_INTERFACE(reply_context) *rc = 0;
			int r = MPT_metatype_convert(ctx, MPT_ENUM(TypeReplyPtr), &rc);
			if (r < 0 || !rc) { result("noconv", r); continue; }
			MPT_INTERFACE(reply_context_detached) *h = rc->_vptr->defer(rc);
			if (!h) result("refused", 0);
			else { char v[32]; hnd[nh] = h; snprintf(v, sizeof(v), "ok h%d", nh); ++nh; result(v, 0); }
		}
		else if ((!strcmp(op, "dreply") && drv_nw == 4) || (!strcmp(op, "drop") && drv_nw == 3 && strcmp(drv_w[2], "ctx"))) {
			MPT_STRUCT(message) msg; int none = 1;
			if (drv_parse_nat(drv_w[2], &a) || a >= (size_t) nh || !hnd[a]) { puts("bad-op"); continue; }
			if (*op == 'd' && op[1] == 'r' && op[2] == 'e' && parse_msg(drv_w[3], &msg, &dat, &none)) { puts("bad-op"); continue; }
			int r = hnd[a]->_vptr->reply(hnd[a], none ? 0 : &msg);
			/* the handle is gone unless a reply with a message failed */
			if (!(r < 0 && !none)) hnd[a] = 0;
			free(dat);
			result(r < 0 ? "refused" : "ok", r);
		}
		else if (!strcmp(op, "drop") && drv_nw == 3) {
			if (!ctx) { puts("bad-op"); continue; }
			ctx->_vptr->unref(ctx);
			ctx = 0;
			result("ok", 0);
		}
		else puts("bad-op");
	}
	release_all();
	return 0;
}
