/* deterministic test data and digests for the "big" ops of C17 (shared by drv_message.c and drvxx_message.cpp;
 * the Lean driver has the same two functions: Driver/Message.lean genByte / fnv64) */
#ifndef DRV_BIGGEN_H
#define DRV_BIGGEN_H
#include <stdint.h>
#include <stddef.h>
/* byte i of stream `seed`: kind 0 = never zero, 1 = a zero every 7th position, 2 = mostly zeros with single and
 * double non-zero islands */
static uint8_t big_byte(unsigned kind, unsigned seed, size_t i)
{
	unsigned v = (unsigned) ((i * 131u + seed * 17u + (i >> 8) * 7u) % 255u) + 1u;
	if (kind == 1 && i % 7 == 3) return 0;
	if (kind == 2 && (i % 5 != 1) && (i % 11 != 4)) return 0;
	return (uint8_t) v;
}
static void big_fill(uint8_t *dst, unsigned kind, unsigned seed, size_t from, size_t n)
{
	for (size_t i = 0; i < n; i++) dst[i] = big_byte(kind, seed, from + i);
}
static uint64_t big_fnv(const uint8_t *p, size_t n)
{
	uint64_t h = 0xcbf29ce484222325ull;
	for (size_t i = 0; i < n; i++) { h ^= p[i]; h *= 0x100000001b3ull; }
	return h;
}
/* comma separated sizes -> array; returns count or -1 */
static int big_sizes(const char *s, size_t *out, int max, size_t *total)
{
	int n = 0; *total = 0;
	if (!*s) return -1;
	while (*s) {
		char *e; unsigned long v;
		if (*s < '0' || *s > '9') return -1;
		v = strtoul(s, &e, 10);
		if (e - s > 7 || n >= max) return -1;
		out[n++] = v; *total += v;
		if (*e == ',') { s = e + 1; if (!*s) return -1; }
		else if (!*e) break;
		else return -1;
	}
	return n;
}
/* plain COBS decoder for one frame (without the terminating zero); returns decoded length or -1 */
static long big_uncobs(const uint8_t *f, size_t n, uint8_t *dec)
{
	size_t p = 0, d = 0;
	if (!n) return -1;
	while (p < n) {
		uint8_t code = f[p++];
		if (!code || p + code - 1 > n) return -1;
		for (uint8_t k = 1; k < code; k++) dec[d++] = f[p++];
		if (code != 0xff && p < n) dec[d++] = 0;
	}
	return (long) d;
}
#endif
