/* line-protocol driver: deferrable reply contexts (mptcore/event/reply_deferrable.c) as a reference-counted
 * object kind of C15.  Only the refcount-observable behaviour: the context is referenced by metatype handles
 * (addref/unref) and by the detached handles `defer` hands out; it is destroyed (its block freed) exactly when the
 * last of them is dropped.  Destruction and allocation failure are observed/injected through -Wl,--wrap=malloc,
 * --wrap=free (harness link only).
 *
 * Contexts 0..1 (creation order), detached handles 0..2.
 *   k begin
 *   k new                     mpt_reply_deferrable(8, send, ..): one metatype handle
 *   k arm <o>                 reply data pending (what an incoming request leaves in the context)
 *   k defer <h> <o> [nomem]   h := ctx->defer(); nomem: the allocation of the detached handle fails
 *   k addref <o> | k unref <o>    metatype handles
 *   k release <h>             detached handle answers with the default reply and goes away
 *   k sendfail 0|1            the send callback refuses / accepts from now on
 *   k end                     release every detached handle, then every metatype handle
 */
#include "drv_util.h"
#include <errno.h>
#include "types.h"
#include "meta.h"
#include "message.h"
#include "event.h"

#define NCTX 2
#define NH 3

static int fail_malloc;       /* > 0: the fail_malloc-th allocation from now on fails */
static int record;            /* remember the next allocated block */
static void *recorded;
static void *blocks[NCTX];    /* block of context o */
static int freed[NCTX];       /* freed in the current op */
static int alive[NCTX];
extern void *__real_malloc(size_t);
extern void __real_free(void *);
void *__wrap_malloc(size_t n)
{
	void *p;
	if (fail_malloc > 0 && !--fail_malloc) return 0;
	p = __real_malloc(n);
	if (record) { recorded = p; record = 0; }
	return p;
}
void __wrap_free(void *p)
{
	if (p) for (int i = 0; i < NCTX; i++) if (alive[i] && blocks[i] == p) { alive[i] = 0; freed[i]++; }
	__real_free(p);
}

static MPT_INTERFACE(metatype) *ctx[NCTX];
static MPT_INTERFACE(reply_context) *rctx[NCTX];
static MPT_STRUCT(reply_data) *rdata[NCTX];
static unsigned metas[NCTX];            /* metatype handles the harness holds */
static int nctx;
static MPT_INTERFACE(reply_context_detached) *det[NH];
static int det_of[NH];
static int sends;
static int send_fail;        /* the send callback refuses */

static int send_cb(void *ptr, const MPT_STRUCT(reply_data) *rd, const MPT_STRUCT(message) *msg)
{
	(void) ptr; (void) rd; (void) msg;
	++sends;
	return send_fail ? MPT_ERROR(BadOperation) : 0;
}
static void clear_events(void)
{
	for (int i = 0; i < NCTX; i++) freed[i] = 0;
	sends = 0;
}
static void result(const char *r)
{
	printf("R %s | C", r);
	for (int i = 0; i < nctx; i++) printf(" o%d=%s%s", i, alive[i] ? "A" : "D", freed[i] ? ":freed" : "");
	for (int h = 0; h < NH; h++) { if (det[h]) printf(" h%d=%d", h, det_of[h]); else printf(" h%d=-", h); }
	printf(" | I");
	for (int i = 0; i < nctx; i++) printf(" m%d=%u", i, metas[i]);
	fputc('\n', stdout);
}
static int parse_idx(const char *w, int lim)
{
	size_t n;
	if (drv_parse_nat(w, &n) || n >= (size_t) lim) return -1;
	return (int) n;
}
static void finish_script(void)
{
	for (int h = 0; h < NH; h++) if (det[h]) { det[h]->_vptr->reply(det[h], 0); det[h] = 0; }
	for (int i = 0; i < nctx; i++) while (metas[i]) { metas[i]--; ctx[i]->_vptr->unref(ctx[i]); }
}

int main(void)
{
	static char line[4096];
	drv_init();
	while (fgets(line, sizeof(line), stdin)) {
		if (line[0] == '#' || line[0] == '\n') { fputs(line, stdout); continue; }
		drv_split(line);
		if (drv_nw < 2 || strcmp(drv_w[0], "k")) { puts("bad-op"); continue; }
		const char *op = drv_w[1];
		clear_events();
		if (!strcmp(op, "begin") && drv_nw == 2) {
			finish_script();
			clear_events();
			send_fail = 0;
			nctx = 0;
			printf("R ok | C - | I -\n");
		}
		else if (!strcmp(op, "new") && drv_nw == 2) {
			MPT_INTERFACE(metatype) *mt;
			if (nctx >= NCTX) { puts("bad-op"); continue; }
			record = 1; recorded = 0;
			mt = mpt_reply_deferrable(8, send_cb, &sends);
			record = 0;
			if (!mt || !recorded) { puts("FAULT no context"); return 1; }
			ctx[nctx] = mt;
			blocks[nctx] = recorded;
			alive[nctx] = 1;
			metas[nctx] = 1;
			rctx[nctx] = 0; rdata[nctx] = 0;
			if (mt->_vptr->convertable.convert((void *) mt, MPT_ENUM(TypeReplyPtr), &rctx[nctx]) < 0
			 || mt->_vptr->convertable.convert((void *) mt, MPT_ENUM(TypeReplyDataPtr), &rdata[nctx]) < 0
			 || !rctx[nctx] || !rdata[nctx]) { puts("FAULT no interfaces"); return 1; }
			nctx++;
			result("ok");
		}
		else if (!strcmp(op, "arm") && drv_nw == 3) {
			int o = parse_idx(drv_w[2], nctx);
			static const uint8_t id[2] = { 0, 7 };
			if (o < 0 || !alive[o]) { puts("bad-op"); continue; }
			if (mpt_reply_set(rdata[o], sizeof(id), id) < 0) { result("refused"); continue; }
			result("ok");
		}
		else if (!strcmp(op, "defer") && (drv_nw == 4 || (drv_nw == 5 && !strcmp(drv_w[4], "nomem")))) {
			int h = parse_idx(drv_w[2], NH), o = parse_idx(drv_w[3], nctx);
			if (h < 0 || o < 0 || det[h] || !alive[o]) { puts("bad-op"); continue; }
			if (drv_nw == 5) fail_malloc = 1;
			det[h] = rctx[o]->_vptr->defer(rctx[o]);
			fail_malloc = 0;
			det_of[h] = o;
			result(det[h] ? "ok" : "refused");
		}
		else if (!strcmp(op, "addref") && drv_nw == 3) {
			int o = parse_idx(drv_w[2], nctx);
			if (o < 0 || !alive[o] || !metas[o]) { puts("bad-op"); continue; }
			if (ctx[o]->_vptr->addref(ctx[o])) { metas[o]++; result("ok"); }
			else result("refused");
		}
		else if (!strcmp(op, "unref") && drv_nw == 3) {
			int o = parse_idx(drv_w[2], nctx);
			if (o < 0 || !alive[o] || !metas[o]) { puts("bad-op"); continue; }
			metas[o]--;
			ctx[o]->_vptr->unref(ctx[o]);
			result("ok");
		}
		else if (!strcmp(op, "sendfail") && drv_nw == 3 && (!strcmp(drv_w[2], "0") || !strcmp(drv_w[2], "1"))) {
			send_fail = drv_w[2][0] == '1';
			result("ok");
		}
		else if (!strcmp(op, "release") && drv_nw == 3) {
			int h = parse_idx(drv_w[2], NH);
			if (h < 0 || !det[h]) { puts("bad-op"); continue; }
			det[h]->_vptr->reply(det[h], 0);
			det[h] = 0;
			result("ok");
		}
		else if (!strcmp(op, "end") && drv_nw == 2) {
			finish_script();
			result("ok");
		}
		else puts("bad-op");
	}
	finish_script();
	return 0;
}
