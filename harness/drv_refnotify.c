/* line-protocol driver: stream inputs held by a notifier (mptio/notify/notify_add.c, notify_change.c, notify_wait.c,
 * notify_next.c, notify_fini.c) as a reference-counted object kind of C15.  Inputs are harness objects with a logging
 * vtable and a presettable counter; each names one of three real descriptors (read ends of pipes) = notifier slots.
 *
 *   n begin
 *   n input <count> <slot|none|file>  harness input (external references = count), reports descriptor of <slot>;
 *                                   file: a regular file, which epoll refuses (also: n clear file)
 *   n add <i>                       a reference is taken for the notifier and handed to mpt_notify_add(); given back on failure
 *   n config <i>                    mpt_notify_config(no, <config whose connect entry is input i>)
 *   n clear <slot>                  mpt_notify_clear(no, descriptor)
 *   n change <i> <slot|none>        mpt_notify_change(no, input, "<new slot>"): the input moves to another descriptor
 *   n ready <slot>                  data becomes readable on the descriptor
 *   n nextfail <i> <0|1>            the input's next() fails (the notifier has to drop it)
 *   n wait | n next                 mpt_notify_wait(no, POLLIN, 0) | mpt_notify_next(no)
 *   n fini                          mpt_notify_fini
 *   n end                           fini, then the external references of small counters are given back
 */
#include "drv_util.h"
#include <errno.h>
#include <poll.h>
#include <fcntl.h>
#include "types.h"
#include "meta.h"
#include "object.h"
#include "connection.h"
#include "config.h"
#include "notify.h"

#define NIN 3
#define NSLOT 3

struct hin {
	MPT_INTERFACE(input) in;
	MPT_INTERFACE(object) obj;
	MPT_STRUCT(refcount) ref;
	int alive, slot, nextfail;
	uintptr_t ext;
	int ev_add, ev_unref, ev_destroy, ev_dead;
};
static struct hin ins[NIN];
static int nin;
static int rfd[NSLOT + 1], wfd[NSLOT];   /* rfd[NSLOT]: a regular file, a descriptor epoll refuses ("file") */
static MPT_STRUCT(notify) no = MPT_NOTIFY_INIT;

static struct hin *of_in(void *p)
{
	for (int i = 0; i < NIN; i++) if ((void *) &ins[i].in == p) return &ins[i];
	return 0;
}
static int hi_conv(MPT_INTERFACE(convertable) *c, MPT_TYPE(type) t, void *p)
{
	struct hin *h = of_in(c);
	const MPT_STRUCT(named_traits) *nt = mpt_input_type_traits();
	if (t == MPT_ENUM(TypeUnixSocket)) {
		if (p) *((int32_t *) p) = h->slot >= 0 ? rfd[h->slot] : -1;
		return MPT_ENUM(TypeObjectPtr);
	}
	if (t == MPT_ENUM(TypeObjectPtr)) { if (p) *((void **) p) = &h->obj; return MPT_ENUM(TypeUnixSocket); }
	if (t == MPT_ENUM(TypeMetaPtr) || (nt && t == nt->type)) { if (p) *((void **) p) = &h->in; return MPT_ENUM(TypeObjectPtr); }
	return MPT_ERROR(BadType);
}
static void hi_unref(MPT_INTERFACE(metatype) *mt)
{
	struct hin *h = of_in(mt);
	h->ev_unref++;
	if (!h->alive) { h->ev_dead++; return; }
	if (mpt_refcount_lower(&h->ref)) return;
	h->alive = 0;
	h->ev_destroy++;
}
static uintptr_t hi_addref(MPT_INTERFACE(metatype) *mt)
{
	struct hin *h = of_in(mt);
	h->ev_add++;
	if (!h->alive) { h->ev_dead++; return 0; }
	return mpt_refcount_raise(&h->ref);
}
static MPT_INTERFACE(metatype) *hi_clone(const MPT_INTERFACE(metatype) *mt) { (void) mt; return 0; }
static int hi_next(MPT_INTERFACE(input) *in, int what) { struct hin *h = of_in(in); (void) what; return h->nextfail ? -1 : 1; }
static int hi_dispatch(MPT_INTERFACE(input) *in, MPT_TYPE(event_handler) f, void *p) { (void) in; (void) f; (void) p; return 0; }
static const MPT_INTERFACE_VPTR(input) hi_ctl = { { { hi_conv }, hi_unref, hi_addref, hi_clone }, hi_next, hi_dispatch };

static int ho_get(const MPT_INTERFACE(object) *o, MPT_STRUCT(property) *pr) { (void) o; (void) pr; return MPT_ERROR(BadArgument); }
static int ho_set(MPT_INTERFACE(object) *o, const char *name, MPT_INTERFACE(convertable) *src)
{
	struct hin *h = 0;
	int32_t v = -1;
	for (int i = 0; i < NIN; i++) if (&ins[i].obj == o) h = &ins[i];
	if (name) return MPT_ERROR(BadArgument);
	if (src && src->_vptr->convert(src, 'i', &v) < 0) return MPT_ERROR(BadValue);
	h->slot = (v >= 0 && v < NSLOT) ? v : -1;
	return 0;
}
static const MPT_INTERFACE_VPTR(object) ho_ctl = { ho_get, ho_set };

/* configuration with one entry: the value of "connect" is harness input cfg_input */
static int cfg_input, cfg_calls;
static int hc_query(const MPT_INTERFACE(config) *c, const MPT_STRUCT(path) *p, MPT_TYPE(config_handler) f, void *ctx)
{
	(void) c; (void) p;
	if (cfg_calls++) return MPT_ERROR(MissingData);       /* second query: "listen" is not configured */
	return f(ctx, (MPT_INTERFACE(convertable) *) &ins[cfg_input].in, 0);
}
static int hc_assign(MPT_INTERFACE(config) *c, const MPT_STRUCT(path) *p, const MPT_STRUCT(value) *v) { (void) c; (void) p; (void) v; return MPT_ERROR(BadOperation); }
static int hc_remove(MPT_INTERFACE(config) *c, const MPT_STRUCT(path) *p) { (void) c; (void) p; return MPT_ERROR(BadOperation); }
static const MPT_INTERFACE_VPTR(config) hc_ctl = { hc_query, hc_assign, hc_remove };

static int parse_idx(const char *w, int lim)
{
	size_t n;
	if (drv_parse_nat(w, &n) || n >= (size_t) lim) return -1;
	return (int) n;
}
static int parse_slot(const char *w)      /* -2 error, -1 none */
{
	if (!strcmp(w, "none")) return -1;
	if (!strcmp(w, "file")) return NSLOT;
	int s = parse_idx(w, NSLOT);
	return s < 0 ? -2 : s;
}
static int parse_count(const char *w, uintptr_t *v)
{
	size_t n;
	if (!strcmp(w, "max")) { *v = UINTPTR_MAX; return 0; }
	if (!strcmp(w, "max-1")) { *v = UINTPTR_MAX - 1; return 0; }
	if (drv_parse_nat(w, &n)) return -1;
	*v = n;
	return 0;
}
static void put_count(uintptr_t v)
{
	if (v == UINTPTR_MAX) fputs("max", stdout);
	else if (v == UINTPTR_MAX - 1) fputs("max-1", stdout);
	else printf("%lu", (unsigned long) v);
}
static int in_index(void *p)
{
	struct hin *h = of_in(p);
	return h ? (int) (h - ins) : 9;
}
static void clear_events(void)
{
	for (int i = 0; i < NIN; i++) ins[i].ev_add = ins[i].ev_unref = ins[i].ev_destroy = ins[i].ev_dead = 0;
}
static void result(const char *r)
{
	MPT_STRUCT(buffer) *b = no._slot._buf;
	printf("R %s | C", r);
	for (int i = 0; i < nin; i++) {
		struct hin *h = &ins[i];
		printf(" o%d=%s:", i, h->alive ? "A" : "D");
		put_count(h->ref._val);
		printf(":+%d-%d%s%s", h->ev_add, h->ev_unref, h->ev_destroy ? "D" : "", h->ev_dead ? "!" : "");
	}
	for (int s = 0; s < NSLOT; s++) {
		void *p = 0;
		if (b && b->_used >= (rfd[s] + 1) * sizeof(void *)) p = ((void **) (b + 1))[rfd[s]];
		if (p) printf(" h%d=%d", s, in_index(p)); else printf(" h%d=-", s);
	}
	printf(" | I -\n");
}
static void drain(void)
{
	char buf[64];
	for (int s = 0; s < NSLOT; s++) while (read(rfd[s], buf, sizeof(buf)) > 0) { }
}
static void finish_script(void)
{
	mpt_notify_fini(&no);
	for (int i = 0; i < nin; i++) {
		struct hin *h = &ins[i];
		while (h->alive && h->ext && h->ext < 16) { h->ext--; hi_unref((void *) &h->in); }
	}
}

int main(void)
{
	static char line[4096];
	drv_init();
	for (int s = 0; s < NSLOT; s++) {
		int p[2];
		if (pipe(p) < 0) { puts("FAULT pipe"); return 1; }
		rfd[s] = p[0]; wfd[s] = p[1];
		fcntl(rfd[s], F_SETFL, O_NONBLOCK);
	}
	{
		/* a regular file: epoll_ctl(ADD) refuses it (EPERM) */
		FILE *tf = tmpfile();
		if (!tf || (rfd[NSLOT] = dup(fileno(tf))) < 0) { puts("FAULT tmpfile"); return 1; }
		fclose(tf);
	}
	while (fgets(line, sizeof(line), stdin)) {
		if (line[0] == '#' || line[0] == '\n') { fputs(line, stdout); continue; }
		drv_split(line);
		if (drv_nw < 2 || strcmp(drv_w[0], "n")) { puts("bad-op"); continue; }
		const char *op = drv_w[1];
		clear_events();
		if (!strcmp(op, "begin") && drv_nw == 2) {
			finish_script();
			clear_events();
			drain();
			nin = 0;
			memset(ins, 0, sizeof(ins));
			printf("R ok | C - | I -\n");
		}
		else if (!strcmp(op, "input") && drv_nw == 4) {
			uintptr_t v;
			int s = parse_slot(drv_w[3]);
			if (nin >= NIN || parse_count(drv_w[2], &v) || s == -2) { puts("bad-op"); continue; }
			struct hin *h = &ins[nin++];
			h->in._vptr = &hi_ctl; h->obj._vptr = &ho_ctl;
			h->ref._val = v; h->ext = v; h->alive = 1; h->slot = s; h->nextfail = 0;
			result("ok");
		}
		else if (!strcmp(op, "add") && drv_nw == 3) {
			int i = parse_idx(drv_w[2], nin);
			if (i < 0) { puts("bad-op"); continue; }
			if (!hi_addref((void *) &ins[i].in)) { result("refused"); continue; }
			if (mpt_notify_add(&no, POLLIN, &ins[i].in) < 0) {
				hi_unref((void *) &ins[i].in);
				result("refused");
				continue;
			}
			result("ok");
		}
		else if (!strcmp(op, "config") && drv_nw == 3) {
			int i = parse_idx(drv_w[2], nin), ret;
			MPT_INTERFACE(config) cfg;
			if (i < 0) { puts("bad-op"); continue; }
			cfg._vptr = &hc_ctl;
			cfg_input = i; cfg_calls = 0;
			ret = mpt_notify_config(&no, &cfg);
			result(ret > 0 ? "ok" : "refused");
		}
		else if (!strcmp(op, "clear") && drv_nw == 3) {
			int s = parse_slot(drv_w[2]);
			if (s < 0) { puts("bad-op"); continue; }
			mpt_notify_clear(&no, rfd[s]);
			result("ok");
		}
		else if (!strcmp(op, "change") && drv_nw == 4) {
			int i = parse_idx(drv_w[2], nin), s = parse_slot(drv_w[3]), ret;
			char txt[16];
			const char *str = txt;
			MPT_STRUCT(value) val;
			if (i < 0 || s == -2 || s == NSLOT || !ins[i].alive) { puts("bad-op"); continue; }
			snprintf(txt, sizeof(txt), "%d", s);
			MPT_value_set(&val, 's', &str);
			ret = mpt_notify_change(&no, &ins[i].in, &val);
			result(ret < 0 ? "refused" : "ok");
		}
		else if (!strcmp(op, "ready") && drv_nw == 3) {
			int s = parse_slot(drv_w[2]);
			if (s < 0 || s == NSLOT) { puts("bad-op"); continue; }
			if (write(wfd[s], "x", 1) < 0) { }
			result("ok");
		}
		else if (!strcmp(op, "nextfail") && drv_nw == 4) {
			int i = parse_idx(drv_w[2], nin), v = parse_idx(drv_w[3], 2);
			if (i < 0 || v < 0) { puts("bad-op"); continue; }
			ins[i].nextfail = v;
			result("ok");
		}
		else if (!strcmp(op, "wait") && drv_nw == 2) {
			(void) mpt_notify_wait(&no, POLLIN, 0);
			result("ok");
		}
		else if (!strcmp(op, "next") && drv_nw == 2) {
			MPT_INTERFACE(input) *in = mpt_notify_next(&no);
			char r[32];
			if (!in) snprintf(r, sizeof(r), "ok in=-");
			else snprintf(r, sizeof(r), "ok in=%d", in_index(in));
			result(r);
		}
		else if (!strcmp(op, "fini") && drv_nw == 2) {
			mpt_notify_fini(&no);
			result("ok");
		}
		else if (!strcmp(op, "end") && drv_nw == 2) {
			finish_script();
			result("ok");
		}
		else puts("bad-op");
	}
	finish_script();
	return 0;
}
