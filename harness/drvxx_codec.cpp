/* line-protocol driver: the C++ wrapper mpt::encode_array (mpt++/array.cpp) over mpt_array_push for C01.
 * Ops are prefixed `xa`.  Observable: the finished bytes handed out by data() are the finished, not yet
 * consumed frames (in order) and decode to the finished messages with the matching real decoder. */
extern "C" {
#include "drv_util.h"
}
#include <errno.h>
#include <sys/uio.h>
/* buffers are C objects with a hand-made vtable: mpt++/array.cpp is compiled into this translation unit with
 * UBSan's vptr check off (link_extra = -fno-sanitize=vptr), everything else stays sanitised */
#include "array.cpp"
#include "array.h"
#include "convert.h"
#include "message.h"

using namespace mpt;

class xarray : public encode_array
{
public:
	xarray(data_encoder_t e) : encode_array(e) { }
	const encode_state &state() const { return _state; }
	size_t used() const { return _d.length(); }
};
static xarray *xa;
static data_decoder_t xdec;

static int codec_code(const char *n)
{
	if (!strcmp(n, "command")) return EncodingCommand;
	if (!strcmp(n, "cobs")) return EncodingCobs;
	if (!strcmp(n, "cobs/r")) return EncodingCobsInline;
	if (!strcmp(n, "cobs/zpe")) return EncodingCobs | EncodingCompress;
	if (!strcmp(n, "cobs/zpe+r")) return EncodingCobsInline | EncodingCompress;
	return -1;
}
static void on_alarm(int sig)
{
	static const char msg[] = "\nFAULT hang (no return within 10 s)\n";
	(void) sig;
	if (write(1, msg, sizeof(msg) - 1) < 0) { }
	_exit(95);
}
static void state_line(void)
{
	printf(" | I done=%zu scratch=%zu used=%zu\n", xa->state().done, xa->state().scratch, xa->used());
}
/* decode one frame with the real decoder (work area in front of it) */
static void put_decoded(const uint8_t *frame, size_t flen)
{
	size_t head = flen + 16;
	uint8_t *blk = (uint8_t *) malloc(head + flen + 1);
	decode_state ds;
	struct iovec v;
	memset(blk, 0xDD, head);
	memcpy(blk + head, frame, flen);
	ds.curr = head;
	v.iov_base = blk; v.iov_len = head + flen;
	int r = xdec ? xdec(&ds, &v, 1) : -99;
	if (r == 1 && ds.data.msg >= 0 && ds.data.pos + ds.data.msg <= head + flen) drv_puthex(stdout, blk + ds.data.pos, ds.data.msg);
	else printf("err");
	free(blk);
}

int main(void)
{
	static char line[1 << 20];
	drv_init();
	signal(SIGALRM, on_alarm);
	while (fgets(line, sizeof(line), stdin)) {
		if (line[0] == '#' || line[0] == '\n') { fputs(line, stdout); continue; }
		drv_split(line);
		if (drv_nw < 2 || strcmp(drv_w[0], "xa")) { puts("bad-op"); continue; }
		const char *op = drv_w[1];
		uint8_t *dat = 0; size_t dlen = 0, a; int isnull = 0;
		if (!strcmp(op, "new") && drv_nw == 3) {
			int code = codec_code(drv_w[2]);
			if (code < 0) { puts("bad-op"); continue; }
			delete xa;
			xa = new xarray(mpt_message_encoder(code));
			xdec = mpt_message_decoder(code);
			printf("R ok | C -");
			state_line();
			continue;
		}
		if (!xa) { puts("bad-op"); continue; }
		if (!strcmp(op, "push") && drv_nw == 3) {
			if (drv_parse_data(drv_w[2], &dat, &dlen, &isnull) || isnull || !dlen) { puts("bad-op"); free(dat); continue; }
			alarm(10);
			ssize_t n = xa->push(dlen, dat);
			alarm(0);
			free(dat);
			if (n < 0) printf("R refused ret=%s | C -", drv_errname(n));
			else printf("R ok ret=%zd | C -", n);
			state_line();
		}
		else if (!strcmp(op, "term") && drv_nw == 2) {
			alarm(10);
			ssize_t n = xa->push(0, 0);
			alarm(0);
			if (n < 0) printf("R refused ret=%s | C -", drv_errname(n));
			else printf("R ok ret=%zd | C -", n);
			state_line();
		}
		else if (!strcmp(op, "msg") && drv_nw == 3) {
			/* xa msg <hex>[,<hex>...]: push(const message &) with the fragments base + cont[] */
			struct iovec vec[16];
			uint8_t *bufs[17];
			size_t lens[17];
			int nf = 0, bad = 0;
			char *tok = drv_w[2];
			while (tok && nf < 17) {
				char *c = strchr(tok, ',');
				if (c) *c = 0;
				if (drv_parse_data(tok, &bufs[nf], &lens[nf], &isnull) || isnull) { bad = 1; break; }
				++nf;
				tok = c ? c + 1 : 0;
			}
			if (bad || tok || !nf) { for (int i = 0; i < nf; i++) free(bufs[i]); puts("bad-op"); continue; }
			message m(bufs[0], lens[0]);
			for (int i = 1; i < nf; i++) { vec[i - 1].iov_base = bufs[i]; vec[i - 1].iov_len = lens[i]; }
			m.cont = vec; m.clen = nf - 1;
			alarm(10);
			bool r = xa->push(m);
			alarm(0);
			for (int i = 0; i < nf; i++) free(bufs[i]);
			printf("R %s | C -", r ? "ok" : "refused");
			state_line();
		}
		else if (!strcmp(op, "data") && drv_nw == 2) {
			span<const uint8_t> d = xa->data();
			const uint8_t *p = d.begin();
			size_t n = d.size(), end = 0;
			/* complete frames = up to the last delimiter; what follows belongs to the message in progress */
			for (size_t i = 0; i < n; i++) if (!p[i]) end = i + 1;
			printf("R frames=");
			drv_puthex(stdout, p, end);
			printf(" msgs=");
			size_t st = 0; int first = 1;
			if (!end) fputc('-', stdout);
			for (size_t i = 0; i < end; i++) {
				if (p[i]) continue;
				if (!first) fputc(',', stdout);
				first = 0;
				if (i + 1 - st == 1 && codec_code("command") != -1 && xdec == mpt_decode_command) { put_decoded(p + st, i + 1 - st); }
				else put_decoded(p + st, i + 1 - st);
				st = i + 1;
			}
			printf(" | C rest=");
			drv_puthex(stdout, p + end, n - end);
			state_line();
		}
		else if (!strcmp(op, "shift") && drv_nw == 3) {
			if (drv_parse_nat(drv_w[2], &a)) { puts("bad-op"); continue; }
			alarm(10);
			bool r = xa->shift(a);
			alarm(0);
			printf("R %s | C -", r ? "ok" : "refused");
			state_line();
		}
		else if (!strcmp(op, "prepare") && drv_nw == 3) {
			if (drv_parse_nat(drv_w[2], &a)) { puts("bad-op"); continue; }
			bool r = xa->prepare(a);
			printf("R %s | C -", r ? "ok" : "refused");
			state_line();
		}
		else puts("bad-op");
	}
	delete xa;
	return 0;
}
