/* line-protocol driver for C05: the array driver with managed element traits whose callbacks log tokens */
#define DRV_ELEM 1
#include "drv_array.c"
