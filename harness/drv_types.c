/* line-protocol driver: mptcore/types type registry (C06).  Calls the real functions in-process.
 * The registry is process-global: one process per script (per_process = 1).
 *
 *   t reset                    first line of every script (fresh process = fresh registry)
 *   t basic <size>             mpt_type_basic_add(size)
 *   t generic <size> [i][f]    mpt_type_add(&traits) with a fresh static traits record (init/fini set on request)
 *   t iface <name>             mpt_type_interface_add(name)      name: hex bytes, `-` = "", `null` = NULL
 *   t meta <name>              mpt_type_metatype_add(name)
 *   t traits <id>              mpt_type_traits(id)
 *   t itraits <id> | t mtraits <id>    mpt_interface_traits(id) / mpt_metatype_traits(id)
 *   t named <name> <len>       mpt_named_traits(name, len)       (len may be negative)
 *   t alias <text>             mpt_alias_typeid(text, &end)
 *   t int <size> | t uint <size>       mpt_type_int / mpt_type_uint
 *   t mcode <type> | t mtype <fmt> | t msize <fmt>   mpt_msgvalfmt_code / _typeid / _size (wire format of the scalar types)
 *   t sweep                    every id 0..0x1100: traits, and the named entries of the interface/metatype ranges
 *   t size <id>                traits->size of a built-in id next to the compiler's sizeof of the C type it stands for
 *   t abi                      compile-time sizes the model assumes
 */
#include "drv_util.h"
#include <errno.h>
#include <unistd.h>
#include <sys/uio.h>
#include "types.h"
#include "values.h"
#include "convert.h"
#include "meta.h"
#include "object.h"
#include "array.h"
#include "event.h"
#include "message.h"

#define SWEEP_MAX 0x1100

static unsigned char issued[SWEEP_MAX + 1];

static int my_init(void *a, const void *b) { (void) a; (void) b; return 0; }
static void my_fini(void *a) { (void) a; }

/* traits records handed to mpt_type_add must stay valid: pool */
static MPT_STRUCT(type_traits) *pool[4096];
static int pool_used;

static const char *errno_name(int e)
{
	switch (e) {
	case 0: return "0"; case EINVAL: return "EINVAL"; case EAGAIN: return "EAGAIN"; case ENOMEM: return "ENOMEM";
	default: return "E?";
	}
}
/* name operand: hex bytes (no NUL inside), `-` empty string, `null` NULL pointer; returns malloc'ed C string or NULL */
static int parse_name(const char *w, char **out)
{
	uint8_t *b; size_t n; int isnull;
	if (!strcmp(w, "null")) { *out = 0; return 0; }
	if (drv_parse_data(w, &b, &n, &isnull) || isnull) return -1;
	for (size_t i = 0; i < n; i++) if (!b[i]) { free(b); return -1; }
	char *s = malloc(n + 1);
	memcpy(s, b, n); s[n] = 0;
	free(b);
	*out = s;
	return 0;
}
static void put_name(const char *name)
{
	if (!name) { fputs("null", stdout); return; }
	drv_puthex(stdout, (const uint8_t *) name, strlen(name));
}
static int parse_int(const char *s, long *v)
{
	char *e;
	if (!*s) return -1;
	*v = strtol(s, &e, 10);
	return *e ? -1 : 0;
}
/* description objects by id, as first handed out: typed buffers keep these pointers and the library decides type identity by
 * comparing them, so an id has to keep resolving to the same object */
static const void *seen_obj[SWEEP_MAX + 2], *seen_named[SWEEP_MAX + 2];
static int note_obj(const void **tab, long id, const void *t)
{
	if (id < 0 || id > SWEEP_MAX || !t) return 0;
	if (!tab[id]) { tab[id] = t; return 0; }
	return tab[id] != t;
}
static void put_traits(const MPT_STRUCT(type_traits) *t)
{
	if (!t) { fputs("none", stdout); return; }
	printf("size=%zu init=%d fini=%d", t->size, t->init != 0, t->fini != 0);
}
/* verdict of an add that returned id: fresh (never handed out, not a built-in) and inside [lo, hi] */
static void put_add(long id, long lo, long hi)
{
	if (id < 0) { printf("R refused | C - | I err=%s\n", drv_errname(id)); return; }
	int fresh = id <= SWEEP_MAX ? !issued[id] : 1;
	if (id <= SWEEP_MAX) issued[id] = 1;
	printf("R ok fresh=%s range=%s ", fresh ? "yes" : "no", (id >= lo && id <= hi) ? "yes" : "no");
	const MPT_STRUCT(type_traits) *t = mpt_type_traits((mpt_type_t) id);
	put_traits(t);
	if (note_obj(seen_obj, id, t)) printf(" MOVED");
	printf(" | C id=%ld | I -\n", id);
}
static void put_named_add(const MPT_STRUCT(named_traits) *nt, long lo, long hi)
{
	if (!nt) { printf("R refused | C - | I - | D errno=%s\n", errno_name(errno)); return; }
	long id = (long) nt->type;
	int fresh = (id >= 0 && id <= SWEEP_MAX) ? !issued[id] : 1;
	if (id >= 0 && id <= SWEEP_MAX) issued[id] = 1;
	printf("R ok fresh=%s range=%s name=", fresh ? "yes" : "no", (id >= lo && id <= hi) ? "yes" : "no");
	put_name(nt->name);
	printf(" ");
	put_traits(nt->traits);
	if (note_obj(seen_named, id, nt) | note_obj(seen_obj, id, nt->traits)) printf(" MOVED");
	printf(" | C id=%ld | I -\n", id);
}
static void put_named(const MPT_STRUCT(named_traits) *nt)
{
	if (!nt) { printf("R none | C - | I - | D errno=%s\n", errno_name(errno)); return; }
	printf("R found id=%ld name=", (long) nt->type);
	put_name(nt->name);
	printf(" ");
	put_traits(nt->traits);
	printf(" | C - | I -\n");
}

struct attr { int have; size_t size; int init, fini; };
static int attr_eq(const struct attr *a, const struct attr *b)
{
	return a->have == b->have && a->size == b->size && a->init == b->init && a->fini == b->fini;
}
static void put_run(long a, long b, const struct attr *at, int *first)
{
	if (!at->have) return;
	if (!*first) fputc(',', stdout);
	*first = 0;
	if (a == b) printf("%ld", a); else printf("%ld-%ld", a, b);
	printf("=%zu%s%s", at->size, at->init ? "i" : "", at->fini ? "f" : "");
}
static void op_sweep(void)
{
	struct attr run = { 0, 0, 0, 0 }, cur;
	long start = 0, moved[8];
	int first = 1, nmoved = 0;
	printf("R traits=");
	for (long id = 0; id <= SWEEP_MAX + 1; id++) {
		const MPT_STRUCT(type_traits) *t = id <= SWEEP_MAX ? mpt_type_traits((mpt_type_t) id) : 0;
		cur.have = t != 0; cur.size = t ? t->size : 0; cur.init = t && t->init; cur.fini = t && t->fini;
		if (note_obj(seen_obj, id, t) && nmoved < 8) moved[nmoved++] = id;
		if (id == 0 || !attr_eq(&cur, &run)) {
			if (id) put_run(start, id - 1, &run, &first);
			run = cur; start = id;
		}
	}
	if (first) fputc('-', stdout);
	printf(" names=");
	first = 1;
	for (long id = MPT_ENUM(_TypeInterfaceBase); id <= MPT_ENUM(_TypeMetaPtrMax); id++) {
		const MPT_STRUCT(named_traits) *nt;
		if (id > MPT_ENUM(_TypeInterfaceMax) && id < MPT_ENUM(_TypeMetaPtrBase)) continue;
		nt = id <= MPT_ENUM(_TypeInterfaceMax) ? mpt_interface_traits((mpt_type_t) id) : mpt_metatype_traits((mpt_type_t) id);
		if (!nt) continue;
		if (!first) fputc(',', stdout);
		first = 0;
		printf("%ld:", id);
		put_name(nt->name);
		if ((long) nt->type != id) printf("!type=%ld", (long) nt->type);
		if (nt->traits != mpt_type_traits((mpt_type_t) id)) printf("!traits");
		if (note_obj(seen_named, id, nt) && nmoved < 8) moved[nmoved++] = id;
	}
	if (first) fputc('-', stdout);
	/* ids whose description object is not the one handed out first (at most 8 listed) */
	printf(" moved=");
	if (!nmoved) fputc('-', stdout);
	for (int i = 0; i < nmoved; i++) printf("%s%ld", i ? "," : "", moved[i]);
	printf(" | C - | I -\n");
}

/* the C type every built-in id stands for (types.h, README), with the compiler's sizeof */
static const struct { long id; const char *ctype; size_t size; } BUILTIN[] = {
	{ MPT_ENUM(TypeUnixSocket), "int", sizeof(int) },
	{ MPT_ENUM(TypeFilePtr), "ptr", sizeof(void *) },
	{ MPT_ENUM(TypeAddressPtr), "ptr", sizeof(void *) },
	{ MPT_ENUM(TypeReplyDataPtr), "ptr", sizeof(void *) },
	{ MPT_ENUM(TypeNodePtr), "ptr", sizeof(void *) },
	{ MPT_ENUM(TypeBufferPtr), "ptr", sizeof(void *) },
	{ MPT_ENUM(TypeValFmt), "value_format", sizeof(MPT_STRUCT(value_format)) },
	{ MPT_ENUM(TypeValue), "value", sizeof(MPT_STRUCT(value)) },
	{ MPT_ENUM(TypeProperty), "property", sizeof(MPT_STRUCT(property)) },
	{ 'c', "char", sizeof(char) }, { 'b', "int8", sizeof(int8_t) }, { 'y', "uint8", sizeof(uint8_t) },
	{ 'n', "int16", sizeof(int16_t) }, { 'q', "uint16", sizeof(uint16_t) },
	{ 'i', "int32", sizeof(int32_t) }, { 'u', "uint32", sizeof(uint32_t) },
	{ 'x', "int64", sizeof(int64_t) }, { 't', "uint64", sizeof(uint64_t) },
	{ 'f', "float", sizeof(float) }, { 'd', "double", sizeof(double) }, { 'e', "longdouble", sizeof(long double) },
	{ 's', "ptr", sizeof(char *) },
	{ MPT_type_toVector('c'), "iovec", sizeof(struct iovec) }, { MPT_type_toVector('b'), "iovec", sizeof(struct iovec) },
	{ MPT_type_toVector('y'), "iovec", sizeof(struct iovec) }, { MPT_type_toVector('n'), "iovec", sizeof(struct iovec) },
	{ MPT_type_toVector('q'), "iovec", sizeof(struct iovec) }, { MPT_type_toVector('i'), "iovec", sizeof(struct iovec) },
	{ MPT_type_toVector('u'), "iovec", sizeof(struct iovec) }, { MPT_type_toVector('x'), "iovec", sizeof(struct iovec) },
	{ MPT_type_toVector('t'), "iovec", sizeof(struct iovec) }, { MPT_type_toVector('f'), "iovec", sizeof(struct iovec) },
	{ MPT_type_toVector('d'), "iovec", sizeof(struct iovec) }, { MPT_type_toVector('e'), "iovec", sizeof(struct iovec) },
	{ MPT_type_toVector('s'), "iovec", sizeof(struct iovec) },
	{ MPT_ENUM(TypeVector), "iovec", sizeof(struct iovec) },
	{ MPT_ENUM(TypeConvertablePtr), "ptr", sizeof(void *) }, { MPT_ENUM(TypeLoggerPtr), "ptr", sizeof(void *) },
	{ MPT_ENUM(TypeReplyPtr), "ptr", sizeof(void *) }, { MPT_ENUM(TypeOutputPtr), "ptr", sizeof(void *) },
	{ MPT_ENUM(TypeObjectPtr), "ptr", sizeof(void *) }, { MPT_ENUM(TypeConfigPtr), "ptr", sizeof(void *) },
	{ MPT_ENUM(TypeIteratorPtr), "ptr", sizeof(void *) }, { MPT_ENUM(TypeCollectionPtr), "ptr", sizeof(void *) },
	{ MPT_ENUM(TypeSolverPtr), "ptr", sizeof(void *) },
	{ MPT_ENUM(TypeMetaPtr), "ptr", sizeof(void *) },
	{ MPT_ENUM(TypeIdentifier), "identifier", sizeof(MPT_STRUCT(identifier)) },
	{ MPT_ENUM(TypeMetaRef), "ptr", sizeof(void *) },
	{ MPT_ENUM(TypeArray), "array", sizeof(MPT_STRUCT(array)) },
	{ MPT_ENUM(TypeCommand), "command", sizeof(MPT_STRUCT(command)) },
};
static void op_size(long id)
{
	for (size_t i = 0; i < sizeof(BUILTIN) / sizeof(*BUILTIN); i++) {
		if (BUILTIN[i].id != id) continue;
		const MPT_STRUCT(type_traits) *t = mpt_type_traits((mpt_type_t) id);
		printf("R size=");
		if (!t) printf("none"); else printf("%zu", t->size);
		printf(" sizeof=%zu | C - | I - | D ctype=%s\n", BUILTIN[i].size, BUILTIN[i].ctype);
		return;
	}
	puts("bad-op");
}

/* registered before the registry is used for the first time, so it runs AFTER the registry's own exit handlers: a late
 * lookup (an atexit handler or static destructor of the application) still has to find the built-in types described */
static void exit_probe(void)
{
	for (size_t i = 0; i < sizeof(BUILTIN) / sizeof(*BUILTIN); i++) {
		/* the value types of the three static tables and the static managed types */
		if (BUILTIN[i].id >= MPT_ENUM(_TypeInterfaceBase) && BUILTIN[i].id < 0x800) continue;
		const MPT_STRUCT(type_traits) *t = mpt_type_traits((mpt_type_t) BUILTIN[i].id);
		if (!t || t->size != BUILTIN[i].size) {
			fprintf(stderr, "exit_probe.c:1:1: runtime error: built-in type %ld not described after the exit handlers\n", BUILTIN[i].id);
			fflush(stderr);
			_exit(3);
		}
	}
}

int main(void)
{
	atexit(exit_probe);
	static char line[1 << 16];
	drv_init();
	/* built-in named ids are never "fresh" */
	for (long id = MPT_ENUM(_TypeInterfaceBase); id < MPT_ENUM(_TypeInterfaceAdd); id++) issued[id] = 1;
	issued[MPT_ENUM(TypeMetaPtr)] = 1;
	while (fgets(line, sizeof(line), stdin)) {
		if (line[0] == '#' || line[0] == '\n') { fputs(line, stdout); continue; }
		drv_split(line);
		if (drv_nw < 2 || strcmp(drv_w[0], "t")) { puts("bad-op"); continue; }
		const char *op = drv_w[1];
		long a, b;
		char *name;
		static int nops;
		if (!strcmp(op, "reset") && drv_nw == 2) {
			/* the registry cannot be reset: only legal as the first op of a process */
			printf("R %s | C - | I -\n", nops ? "stale" : "ok");
			++nops;
			continue;
		}
		++nops;
		if (!strcmp(op, "basic") && drv_nw == 3) {
			if (parse_int(drv_w[2], &a) || a < 0) { puts("bad-op"); continue; }
			put_add(mpt_type_basic_add((size_t) a), MPT_ENUM(_TypeDynamicBase), MPT_ENUM(_TypeDynamicMax));
		}
		else if (!strcmp(op, "generic") && (drv_nw == 3 || drv_nw == 4)) {
			int wi = 0, wf = 0, bad = 0;
			if (parse_int(drv_w[2], &a) || a < 0) { puts("bad-op"); continue; }
			if (drv_nw == 4) {
				for (const char *p = drv_w[3]; *p; ++p) { if (*p == 'i' && !wi) wi = 1; else if (*p == 'f' && !wf) wf = 1; else bad = 1; }
				if (bad || !*drv_w[3]) { puts("bad-op"); continue; }
			}
			if (pool_used >= 4096) { puts("bad-op"); continue; }
			MPT_STRUCT(type_traits) init = { wi ? my_init : 0, wf ? my_fini : 0, (size_t) a };
			MPT_STRUCT(type_traits) *t = malloc(sizeof(*t));
			memcpy(t, &init, sizeof(*t));
			pool[pool_used++] = t;
			put_add(mpt_type_add(t), MPT_ENUM(_TypeValueAdd), MPT_ENUM(_TypeValueMax));
		}
		else if ((!strcmp(op, "iface") || !strcmp(op, "meta")) && drv_nw == 3) {
			if (parse_name(drv_w[2], &name)) { puts("bad-op"); continue; }
			errno = 0;
			if (*op == 'i') put_named_add(mpt_type_interface_add(name), MPT_ENUM(_TypeInterfaceAdd), MPT_ENUM(_TypeInterfaceMax));
			else put_named_add(mpt_type_metatype_add(name), MPT_ENUM(_TypeMetaPtrBase) + 1, MPT_ENUM(_TypeMetaPtrMax));
			free(name);
		}
		else if (!strcmp(op, "traits") && drv_nw == 3) {
			if (parse_int(drv_w[2], &a) || a < 0) { puts("bad-op"); continue; }
			printf("R ");
			const MPT_STRUCT(type_traits) *tt = mpt_type_traits((mpt_type_t) a);
			put_traits(tt);
			if (note_obj(seen_obj, a, tt)) printf(" MOVED");
			printf(" | C - | I -\n");
		}
		else if ((!strcmp(op, "itraits") || !strcmp(op, "mtraits")) && drv_nw == 3) {
			if (parse_int(drv_w[2], &a) || a < 0) { puts("bad-op"); continue; }
			errno = 0;
			put_named(*op == 'i' ? mpt_interface_traits((mpt_type_t) a) : mpt_metatype_traits((mpt_type_t) a));
		}
		else if (!strcmp(op, "named") && drv_nw == 4) {
			if (parse_name(drv_w[2], &name)) { puts("bad-op"); continue; }
			if (!name || parse_int(drv_w[3], &b)) { free(name); puts("bad-op"); continue; }
			errno = 0;
			put_named(mpt_named_traits(name, (int) b));
			free(name);
		}
		else if ((!strcmp(op, "alias") || !strcmp(op, "alias0")) && drv_nw == 3) {
			/* alias0: without the `end` output */
			const char *end = 0;
			if (parse_name(drv_w[2], &name) || !name) { puts("bad-op"); continue; }
			int r = mpt_alias_typeid(name, op[5] ? 0 : &end);
			if (r < 0) printf("R refused | C - | I err=%s\n", drv_errname(r));
			else printf("R id=%d end=%ld | C - | I -\n", r, end ? (long) (end - name) : -1L);
			free(name);
		}
		else if ((!strcmp(op, "int") || !strcmp(op, "uint")) && drv_nw == 3) {
			if (parse_int(drv_w[2], &a) || a < 0) { puts("bad-op"); continue; }
			printf("R code=%d | C - | I -\n", *op == 'i' ? mpt_type_int((size_t) a) : mpt_type_uint((size_t) a));
		}
		else if (!strcmp(op, "mcode") && drv_nw == 3) {
			if (parse_int(drv_w[2], &a)) { puts("bad-op"); continue; }
			printf("R code=%d | C - | I -\n", mpt_msgvalfmt_code((int) a));
		}
		else if (!strcmp(op, "mtype") && drv_nw == 3) {
			if (parse_int(drv_w[2], &a) || a < 0 || a > 255) { puts("bad-op"); continue; }
			int r = mpt_msgvalfmt_typeid((uint8_t) a);
			if (r < 0) printf("R refused | C - | I err=%s\n", drv_errname(r)); else printf("R type=%d | C - | I -\n", r);
		}
		else if (!strcmp(op, "msize") && drv_nw == 3) {
			if (parse_int(drv_w[2], &a) || a < 0 || a > 255) { puts("bad-op"); continue; }
			printf("R size=%zu | C - | I -\n", mpt_msgvalfmt_size((uint8_t) a));
		}
		else if (!strcmp(op, "sweep") && drv_nw == 2) op_sweep();
		else if (!strcmp(op, "rawdata") && drv_nw == 2) {
			/* the "get or register" helper of mptplot for the interface "mpt.rawdata" */
			static const MPT_STRUCT(named_traits) *prev;
			errno = 0;
			const MPT_STRUCT(named_traits) *nt = mpt_rawdata_type_traits();
			if (nt && prev) {
				printf("R ok fresh=%s range=yes name=", nt == prev ? "same" : "OTHER");
				put_name(nt->name);
				printf(" ");
				put_traits(nt->traits);
				printf(" | C id=%ld | I -\n", (long) nt->type);
			}
			else put_named_add(nt, MPT_ENUM(_TypeInterfaceAdd), MPT_ENUM(_TypeInterfaceMax));
			if (nt) prev = nt;
		}
		else if (!strcmp(op, "size") && drv_nw == 3) {
			if (parse_int(drv_w[2], &a) || a < 0) { puts("bad-op"); continue; }
			op_size(a);
		}
		else if (!strcmp(op, "abi") && drv_nw == 2) {
			printf("R type_traits=%zu ptr=%zu iovec=%zu | C - | I - | D named_traits=%zu\n", sizeof(MPT_STRUCT(type_traits)),
			       sizeof(void *), sizeof(struct iovec), sizeof(MPT_STRUCT(named_traits)));
		}
		else puts("bad-op");
	}
	for (int i = 0; i < pool_used; i++) free(pool[i]);
	return 0;
}
