/* line-protocol driver: mptcore/array (C04; with -DDRV_ELEM also C05, see drv_elem.c).
 * Calls the real functions in-process.  Handle table h0..h7 of `struct slice` (array + window).
 * After every op the content read through EVERY handle is printed (section C). */
#include "drv_util.h"
#include <errno.h>
#include <limits.h>
extern size_t __sanitizer_get_current_allocated_bytes(void);  /* libasan */
#include "types.h"
#include "array.h"
#include "values.h"

#define NH 8
static MPT_STRUCT(slice) H[NH];
static int wmode[NH];           /* 1 = slice handle (window valid) */
static int nh;
static size_t heap0;

/* ------------------------------------------------------------------ element traits */
static const MPT_STRUCT(type_traits) tr_p1 = MPT_TYPETRAIT_INIT(1);
static const MPT_STRUCT(type_traits) tr_p4 = MPT_TYPETRAIT_INIT(4);
static const MPT_STRUCT(type_traits) tr_p24 = MPT_TYPETRAIT_INIT(24);
static const MPT_STRUCT(type_traits) tr_z = MPT_TYPETRAIT_INIT(0);
static const MPT_STRUCT(type_traits) *tr_c, *tr_d;

#ifdef DRV_ELEM
#define MAXTOK 4096
static unsigned tok_next = 1;
static unsigned char live[MAXTOK];
static char oracle[128];
static int oracle_pos, oracle_len;
static int oracle_off;          /* constructions done by the driver itself never fail */
static char evlog[1 << 16];
static size_t evlen;
static char illegal[256];

static void ev(const char *fmt, unsigned a, unsigned b)
{
	if (evlen + 40 > sizeof(evlog)) return;
	if (evlen) evlog[evlen++] = ',';
	evlen += snprintf(evlog + evlen, 32, fmt, a, b);
}
static void mark_illegal(const char *what, unsigned tok)
{
	if (!illegal[0]) snprintf(illegal, sizeof(illegal), "%s:%u", what, tok);
}
static unsigned rdtok(const void *p)
{
	const uint8_t *b = p;
	return b[0] | (b[1] << 8) | (b[2] << 16) | ((unsigned) b[3] << 24);
}
static int el_init(void *ptr, const void *src, size_t sz)
{
	uint8_t *b = ptr;
	unsigned tok;
	if (!oracle_off && oracle_pos < oracle_len && oracle[oracle_pos++] == '1') { ev("x", 0, 0); return MPT_ERROR(BadOperation); }
	tok = tok_next++;
	if (src) {
		unsigned st = rdtok(src);
		ev("c%u<%u", tok, st);
		if (st >= MAXTOK || !live[st]) mark_illegal("copy-from-dead", st);
	} else ev("i%u", tok, 0);
	memset(b, 0xa5, sz);
	b[0] = tok & 0xff; b[1] = (tok >> 8) & 0xff; b[2] = (tok >> 16) & 0xff; b[3] = (tok >> 24) & 0xff;
	if (tok < MAXTOK) live[tok] = 1;
	return 0;
}
static void el_fini(void *ptr, size_t sz)
{
	unsigned tok = rdtok(ptr);
	ev("f%u", tok, 0);
	if (tok >= MAXTOK || !live[tok]) mark_illegal("fini-dead", tok);
	else live[tok] = 0;
	memset(ptr, 0xdd, sz);
}
static int init4(void *p, const void *s) { return el_init(p, s, 4); }
static int init8(void *p, const void *s) { return el_init(p, s, 8); }
static void fini4(void *p) { el_fini(p, 4); }
static void fini8(void *p) { el_fini(p, 8); }
static const MPT_STRUCT(type_traits) tr_m4 = { init4, fini4, 4 };
static const MPT_STRUCT(type_traits) tr_m8 = { init8, fini8, 8 };
static const MPT_STRUCT(type_traits) tr_n4 = { init4, fini4, 4 };
/* shares the finaliser of m4/n4 but not their element size */
static const MPT_STRUCT(type_traits) tr_q8 = { init8, fini4, 8 };
/* destructor only (as the element type of reference_array<T>): such buffers are created with BufferNoCopy, the
 * owner constructs the elements in place */
/* a zeroed element of this type is an empty reference: nothing to release */
static void fini8n(void *p) { if (rdtok(p)) el_fini(p, 8); }
static const MPT_STRUCT(type_traits) tr_f8 = { 0, fini8n, 8 };
#endif

#ifdef DRV_ELEM
/* "el:<k>": k source elements constructed by the caller; returns buffer or NULL */
static uint8_t *make_sources(const char *arg, const MPT_STRUCT(type_traits) *t, size_t *len)
{
	size_t k;
	if (strncmp(arg, "el:", 3) || !t || !t->init || !t->fini || drv_parse_nat(arg + 3, &k) || k > 64) return 0;
	uint8_t *p = malloc(k * t->size + 1);
	oracle_off = 1;
	for (size_t i = 0; i < k; i++) t->init(p + i * t->size, 0);
	oracle_off = 0;
	*len = k * t->size;
	return p;
}
static void drop_sources(uint8_t *p, const MPT_STRUCT(type_traits) *t, size_t len)
{
	for (size_t i = 0; i < len; i += t->size) t->fini(p + i);
	free(p);
}
#endif

static const MPT_STRUCT(type_traits) *traits_by_name(const char *s, int *ok)
{
	*ok = 1;
	if (!strcmp(s, "-")) return 0;
	if (!strcmp(s, "p1")) return &tr_p1;
	if (!strcmp(s, "p4")) return &tr_p4;
	if (!strcmp(s, "p24")) return &tr_p24;
	if (!strcmp(s, "z")) return &tr_z;
	if (!strcmp(s, "c")) return tr_c;
	if (!strcmp(s, "d")) return tr_d;
#ifdef DRV_ELEM
	if (!strcmp(s, "m4")) return &tr_m4;
	if (!strcmp(s, "m8")) return &tr_m8;
	if (!strcmp(s, "n4")) return &tr_n4;
	if (!strcmp(s, "f8")) return &tr_f8;
	if (!strcmp(s, "q8")) return &tr_q8;
#endif
	*ok = 0;
	return 0;
}
static const char *traits_name(const MPT_STRUCT(type_traits) *t)
{
	if (!t) return "-";
	if (t == &tr_p1) return "p1";
	if (t == &tr_p4) return "p4";
	if (t == &tr_p24) return "p24";
	if (t == &tr_z) return "z";
	if (t == tr_c) return "c";
	if (t == tr_d) return "d";
#ifdef DRV_ELEM
	if (t == &tr_m4) return "m4";
	if (t == &tr_m8) return "m8";
	if (t == &tr_n4) return "n4";
	if (t == &tr_f8) return "f8";
	if (t == &tr_q8) return "q8";
#endif
	return "?";
}

/* ------------------------------------------------------------------ operands */
/* nat | u | u+k | u-k | s | s+k | s-k   (u = used, s = size of the handle's buffer; 0 without buffer) */
static int opnd(const char *s, int h, size_t *v)
{
	const MPT_STRUCT(buffer) *b = (h >= 0) ? H[h]._a._buf : 0;
	size_t base, k;
	if (*s == 'u') base = b ? b->_used : 0;
	else if (*s == 's') base = b ? b->_size : 0;
	else return drv_parse_nat(s, v);
	if (!s[1]) { *v = base; return 0; }
	if ((s[1] != '+' && s[1] != '-') || drv_parse_nat(s + 2, &k)) return -1;
	if (s[1] == '+') { *v = base + k; return 0; }
	if (k > base) return -1;
	*v = base - k;
	return 0;
}
/* hex | - | zero:<n> (NULL data) | fill:<n>:<hh> (n bytes hh, hh+1, .. never zero) */
static int data_arg(const char *s, int h, uint8_t **out, size_t *len, int *isnull)
{
	*isnull = 0;
	if (!strncmp(s, "zero:", 5)) {
		if (opnd(s + 5, h, len)) return -1;
		*out = calloc(*len ? *len : 1, 1); *isnull = 1; return 0;
	}
	if (!strncmp(s, "fill:", 5)) {
		char tmp[64]; char *c; size_t n; int a, b;
		if (strlen(s + 5) >= sizeof(tmp)) return -1;
		strcpy(tmp, s + 5);
		if (!(c = strchr(tmp, ':'))) return -1;
		*c++ = 0;
		if (opnd(tmp, h, &n) || strlen(c) != 2 || (a = drv_hexval(c[0])) < 0 || (b = drv_hexval(c[1])) < 0) return -1;
		if (a * 16 + b == 0) return -1;
		*out = malloc(n ? n : 1);
		for (size_t i = 0; i < n; i++) (*out)[i] = (uint8_t) ((a * 16 + b - 1 + i) % 255 + 1);
		*len = n; return 0;
	}
	return drv_parse_data(s, out, len, isnull);
}
static int handle_arg(const char *s)
{
	size_t v;
	if (s[0] != 'h' || drv_parse_nat(s + 1, &v) || v >= (size_t) nh) return -1;
	return (int) v;
}

/* ------------------------------------------------------------------ output */
struct bufname { const MPT_STRUCT(buffer) *p; unsigned id; };
static struct bufname names[NH];
static int nnames;
static unsigned next_name;

static unsigned name_of(const MPT_STRUCT(buffer) *b)
{
	for (int i = 0; i < nnames; i++) if (names[i].p == b) return names[i].id;
	return UINT_MAX;
}
static void renumber(void)
{
	/* forget buffers no handle refers to, number the new ones in handle order */
	int k = 0;
	for (int i = 0; i < nnames; i++) {
		int used = 0;
		for (int h = 0; h < nh; h++) if (H[h]._a._buf == names[i].p) used = 1;
		if (used) names[k++] = names[i];
	}
	nnames = k;
	for (int h = 0; h < nh; h++) {
		const MPT_STRUCT(buffer) *b = H[h]._a._buf;
		if (b && name_of(b) == UINT_MAX) { names[nnames].p = b; names[nnames].id = next_name++; nnames++; }
	}
}
/* layout of buffer_alloc.c's private bufferData in front of struct buffer (internals only) */
static uintptr_t ref_of(const MPT_STRUCT(buffer) *b) { return *(const uintptr_t *) ((const uint8_t *) b - 32); }

#ifdef DRV_ELEM
static int managed(const MPT_STRUCT(type_traits) *t) { return t && t->fini; }
/* every live token is stored exactly once inside [0,used) of a reachable managed buffer, and nothing else is */
static void check_stored(int final)
{
	static unsigned char seen[MAXTOK];
	memset(seen, 0, sizeof(seen));
	for (int i = 0; i < nnames; i++) {
		const MPT_STRUCT(buffer) *b = names[i].p;
		const MPT_STRUCT(type_traits) *t = b->_content_traits;
		if (!managed(t)) continue;
		const uint8_t *d = (const uint8_t *) (b + 1);
		for (size_t p = 0; p + t->size <= b->_used; p += t->size) {
			unsigned tok = rdtok(d + p);
			if (!tok && t == &tr_f8) continue;      /* empty element */
			if (tok >= MAXTOK || !live[tok]) { mark_illegal("stored-dead", tok); continue; }
			if (seen[tok]) mark_illegal("stored-twice", tok);
			seen[tok] = 1;
		}
	}
	for (unsigned t = 1; t < tok_next && t < MAXTOK; t++) {
		if (live[t] && !seen[t]) mark_illegal(final ? "alive-at-end" : "live-not-stored", t);
	}
}
#endif

static void put_state(const char *verdict, const char *detail, const char *ret, int final)
{
	renumber();
#ifdef DRV_ELEM
	check_stored(final);
	(void) detail;
	printf("R %s | C %s ev=%s", illegal[0] ? illegal : "legal", verdict, evlen ? evlog : "-");
	evlen = 0; evlog[0] = 0;
#else
	(void) final;
	printf("R %s %s | C", verdict, detail);
#endif
	for (int h = 0; h < nh; h++) {
		const MPT_STRUCT(buffer) *b = H[h]._a._buf;
		const uint8_t *d = b ? (const uint8_t *) (b + 1) : 0;
		if (wmode[h]) {
			printf(" h%d=w%zu:", h, (size_t) H[h]._len);
			drv_puthex(stdout, d ? d + H[h]._off : 0, b ? H[h]._len : 0);
		} else {
			printf(" h%d=%zu:", h, b ? b->_used : (size_t) 0);
			drv_puthex(stdout, d, b ? b->_used : 0);
		}
	}
	printf(" | I ret=%s hs=", ret);
	for (int h = 0; h < nh; h++) {
		const MPT_STRUCT(buffer) *b = H[h]._a._buf;
		if (h) fputc(',', stdout);
		if (!b) printf("h%d:-", h);
		else if (wmode[h]) printf("h%d:b%u@%zu+%zu", h, name_of(b), (size_t) H[h]._off, (size_t) H[h]._len);
		else printf("h%d:b%u", h, name_of(b));
	}
	printf(" bufs=");
	if (!nnames) fputc('-', stdout);
	for (unsigned id = 0, first = 1; id < next_name; id++) {
		for (int i = 0; i < nnames; i++) {
			if (names[i].id != id) continue;
			const MPT_STRUCT(buffer) *b = names[i].p;
			printf("%sb%u:r%zu:f%u:t%s:z%zu:u%zu", first ? "" : ",", id, (size_t) ref_of(b),
			       (unsigned) (b->_vptr->get_flags(b) & 0xff), traits_name(b->_content_traits), b->_size, b->_used);
			first = 0;
		}
	}
	printf(" heap=%zu\n", __sanitizer_get_current_allocated_bytes() - heap0);
}
/* the result line is printed after the driver's own temporaries are freed (heap accounting) */
static char r_verdict[16], r_detail[1 << 17], r_ret[48];
static int r_have, r_final;
static void result(const char *verdict, const char *detail, const char *ret, int final)
{
	snprintf(r_verdict, sizeof(r_verdict), "%s", verdict);
	snprintf(r_detail, sizeof(r_detail), "%s", detail);
	snprintf(r_ret, sizeof(r_ret), "%s", ret);
	r_have = 1; r_final = final;
}
static void result_ptr(const void *p, int h, const char *detail)
{
	char ret[32];
	if (!p) { result("refused", "-", "null", 0); return; }
	const MPT_STRUCT(buffer) *b = H[h]._a._buf;
	snprintf(ret, sizeof(ret), "+%zu", (size_t) ((const uint8_t *) p - (const uint8_t *) (b + 1)));
	result("ok", detail, ret, 0);
}
static void result_int(long r, const char *detail)
{
	char ret[32];
	if (r < 0) { result("refused", "-", drv_errname(r), 0); return; }
	snprintf(ret, sizeof(ret), "%ld", r);
	result("ok", detail, ret, 0);
}
static void hex_into(char *dst, size_t max, const uint8_t *b, size_t n)
{
	static const char d[] = "0123456789abcdef";
	size_t k = 0;
	if (!n) { strcpy(dst, "-"); return; }
	for (size_t i = 0; i < n && k + 3 < max; i++) { dst[k++] = d[b[i] >> 4]; dst[k++] = d[b[i] & 15]; }
	dst[k] = 0;
}
static void drop_all(void)
{
	for (int h = 0; h < NH; h++) {
		if (H[h]._a._buf) mpt_array_clone(&H[h]._a, 0);
		H[h]._off = H[h]._len = 0;
		wmode[h] = 0;
	}
}
static void reset_all(void)
{
	drop_all();
	nnames = 0; next_name = 0;
#ifdef DRV_ELEM
	tok_next = 1; memset(live, 0, sizeof(live)); oracle_pos = oracle_len = 0; evlen = 0; evlog[0] = 0; illegal[0] = 0;
#endif
}

#define BAD do { puts("bad-op"); free(dat); dat = 0; r_have = 0; goto next; } while (0)

int main(void)
{
	static char line[1 << 20];
	static char outbuf[1 << 16];
	drv_init();
	setvbuf(stdout, outbuf, _IOLBF, sizeof(outbuf));
	tr_c = mpt_type_traits('c');
	tr_d = mpt_type_traits('d');
	/* first allocation fixes the granule; keep it out of the heap accounting */
	{ MPT_STRUCT(buffer) *b = _mpt_buffer_alloc(1, 0); b->_vptr->unref(b); }
	while (fgets(line, sizeof(line), stdin)) {
		uint8_t *dat = 0; size_t dlen = 0; int isnull = 0;
		size_t a, b;
		int h, h2, ok;
		if (line[0] == '#' || line[0] == '\n') {
			if (line[0] == '#') reset_all();
			fputs(line, stdout);
			continue;
		}
		drv_split(line);
		if (drv_nw < 2 || strcmp(drv_w[0], "a")) { puts("bad-op"); continue; }
		const char *op = drv_w[1];
		if (!strcmp(op, "handles") && drv_nw == 3) {
			if (drv_parse_nat(drv_w[2], &a) || a < 1 || a > NH) BAD;
			reset_all();
			nh = (int) a;
			heap0 = __sanitizer_get_current_allocated_bytes();
			result("ok", "-", "-", 0);
			goto next;
		}
		if (!nh) BAD;
		if (!strcmp(op, "end") && drv_nw == 2) {
			drop_all();
			result("ok", "-", "-", 1);
			goto next;
		}
#ifdef DRV_ELEM
		if (!strcmp(op, "oracle") && drv_nw == 3) {
			const char *s = drv_w[2];
			if (!strcmp(s, "-")) s = "";
			if (strlen(s) >= sizeof(oracle) || strspn(s, "01") != strlen(s)) BAD;
			strcpy(oracle, s); oracle_len = (int) strlen(s); oracle_pos = 0;
			result("ok", "-", "-", 0);
			goto next;
		}
#endif
		if (drv_nw < 3 || (h = handle_arg(drv_w[2])) < 0) BAD;
		MPT_STRUCT(array) *arr = &H[h]._a;
#ifdef DRV_ELEM
		/* BufferNoCopy is a promise about the content: it has to survive every re-allocation the library does on
		 * behalf of a modification, and such content is never duplicated while it is shared */
		const MPT_STRUCT(buffer) *pre = arr->_buf;
		unsigned pre_flags = pre ? pre->_vptr->get_flags(pre) : 0;
		size_t pre_used = pre ? pre->_used : 0;
		int pre_shared = pre ? ref_of(pre) > 1 : 0;
		int realloc_op = !strcmp(op, "insert") || !strcmp(op, "set") || !strcmp(op, "slice") || !strcmp(op, "detach")
			|| !strcmp(op, "cut") || !strcmp(op, "bset") || !strcmp(op, "reduce") || !strcmp(op, "append");
#endif
		/* a slice handle only accepts swrite and drop */
		if (wmode[h] && strcmp(op, "swrite") && strcmp(op, "drop")) BAD;

		if (!strcmp(op, "drop") && drv_nw == 3) {
			int r = mpt_array_clone(arr, 0);
			wmode[h] = 0; H[h]._off = H[h]._len = 0;
			result_int(r, "-");
		}
		else if (!strcmp(op, "clone") && drv_nw == 4) {
			if ((h2 = handle_arg(drv_w[3])) < 0 || wmode[h2]) BAD;
			result_int(mpt_array_clone(arr, &H[h2]._a), "-");
		}
#ifdef DRV_ELEM
		else if (!strcmp(op, "alloc") && drv_nw == 7 && !strncmp(drv_w[6], "el:", 3)) {
			/* a new buffer (any flags) whose owner constructs k elements in place */
			const MPT_STRUCT(type_traits) *t = traits_by_name(drv_w[5], &ok);
			size_t k;
			if (!ok || !t || !t->fini || !t->size || opnd(drv_w[3], h, &a) || drv_parse_nat(drv_w[4], &b) || b > 3
			    || drv_parse_nat(drv_w[6] + 3, &k) || k > 64) BAD;
			mpt_array_clone(arr, 0);
			dlen = k * t->size;
			MPT_STRUCT(buffer) *nb = _mpt_buffer_alloc(a > dlen ? a : dlen, (int) b);
			nb->_content_traits = t;
			oracle_off = 1;
			for (size_t i = 0; i < k; i++) el_init((uint8_t *) (nb + 1) + i * t->size, 0, t->size);
			oracle_off = 0;
			nb->_used = dlen;
			arr->_buf = nb;
			result("ok", "-", "-", 0);
		}
#endif
		else if (!strcmp(op, "alloc") && drv_nw == 7) {
			const MPT_STRUCT(type_traits) *t = traits_by_name(drv_w[5], &ok);
			if (!ok || opnd(drv_w[3], h, &a) || drv_parse_nat(drv_w[4], &b) || b > 3
			    || data_arg(drv_w[6], h, &dat, &dlen, &isnull)) BAD;
			mpt_array_clone(arr, 0);
			MPT_STRUCT(buffer) *nb = _mpt_buffer_alloc(a > dlen ? a : dlen, (int) b);
			nb->_content_traits = t;
			if (dlen) memcpy(nb + 1, dat, dlen);
			nb->_used = dlen;
			arr->_buf = nb;
			result("ok", "-", "-", 0);
		}
		else if (!strcmp(op, "append") && drv_nw == 4) {
			if (data_arg(drv_w[3], h, &dat, &dlen, &isnull)) BAD;
			result_ptr(mpt_array_append(arr, dlen, isnull ? 0 : dat), h, "-");
		}
		else if (!strcmp(op, "insert") && drv_nw == 5) {
			if (opnd(drv_w[3], h, &a) || data_arg(drv_w[4], h, &dat, &dlen, &isnull)) BAD;
			void *p = mpt_array_insert(arr, a, dlen);
#ifdef DRV_ELEM
			const MPT_STRUCT(type_traits) *bt = arr->_buf ? arr->_buf->_content_traits : 0;
			if (p && bt && (bt->init || bt->fini) && bt->size) {
				/* the caller constructs the inserted elements (as config_item_reserve does) */
				oracle_off = 1;
				for (size_t i = 0; i + bt->size <= dlen; i += bt->size) el_init((uint8_t *) p + i, 0, bt->size);
				oracle_off = 0;
			} else
#endif
			if (p && dlen) memcpy(p, dat, dlen);
			result_ptr(p, h, "-");
		}
		else if (!strcmp(op, "set") && drv_nw == 6) {
			const MPT_STRUCT(type_traits) *t = traits_by_name(drv_w[3], &ok);
			long off;
			if (!ok) BAD;
			if (drv_w[4][0] == '-' && drv_w[4][1]) {
				if (drv_parse_nat(drv_w[4] + 1, &a) || a > 1000000) BAD;
				off = -(long) a;
			} else {
				if (opnd(drv_w[4], h, &a) || a > 1000000) BAD;
				off = (long) a;
			}
#ifdef DRV_ELEM
			if (!strncmp(drv_w[5], "el:", 3)) {
				uint8_t *src = make_sources(drv_w[5], t, &dlen);
				if (!src) BAD;
				void *r = mpt_array_set(arr, t, dlen, src, off);
				drop_sources(src, t, dlen);
				result_ptr(r, h, "-");
				goto done;
			}
#endif
			if (data_arg(drv_w[5], h, &dat, &dlen, &isnull)) BAD;
			result_ptr(mpt_array_set(arr, t, dlen, isnull ? 0 : dat, off), h, "-");
		}
		else if (!strcmp(op, "slice") && drv_nw == 5) {
			if (opnd(drv_w[3], h, &a) || opnd(drv_w[4], h, &b)) BAD;
			uint8_t *p = mpt_array_slice(arr, a, b);
			if (!p) result_ptr(0, h, "-");
			else {
				/* the returned region, read through the returned pointer */
				static char hex[1 << 17];
				if (b > 60000) BAD;
				hex_into(hex, sizeof(hex), p, b);
				result_ptr(p, h, hex);
			}
		}
		else if (!strcmp(op, "reserve") && drv_nw == 5) {
			const MPT_STRUCT(type_traits) *t = traits_by_name(drv_w[4], &ok);
			if (!ok || opnd(drv_w[3], h, &a)) BAD;
			MPT_STRUCT(buffer) *r = mpt_array_reserve(arr, a, t);
			result(r ? "ok" : "refused", "-", r ? "ptr" : "null", 0);
		}
		else if (!strcmp(op, "reduce") && drv_nw == 3) {
			char ret[32];
			snprintf(ret, sizeof(ret), "%zu", mpt_array_reduce(arr));
			result("ok", "-", ret, 0);
		}
		else if (!strcmp(op, "detach") && drv_nw == 4) {
			if (opnd(drv_w[3], h, &a)) BAD;
			MPT_STRUCT(buffer) *r = arr->_buf ? arr->_buf->_vptr->detach(arr->_buf, a) : 0;
			if (r) arr->_buf = r;
			result(r ? "ok" : "refused", "-", r ? "ptr" : "null", 0);
		}
		else if (!strcmp(op, "cut") && drv_nw == 5) {
			if (opnd(drv_w[3], h, &a) || opnd(drv_w[4], h, &b)) BAD;
			MPT_STRUCT(buffer) *r = arr->_buf ? arr->_buf->_vptr->detach(arr->_buf, arr->_buf->_used) : 0;
			if (!r) result("refused", "-", "null", 0);
			else {
				arr->_buf = r;
				result_int(mpt_buffer_cut(r, a, b), "-");
			}
		}
#ifndef DRV_ELEM
		else if (!strcmp(op, "vprep") && drv_nw == 4) {
			/* mpt_values_prepare(arr, n): n >= 0 appends n zeroed doubles, n < 0 appends a copy of the last -n */
			long n;
			if (drv_w[3][0] == '-' && drv_w[3][1]) { if (drv_parse_nat(drv_w[3] + 1, &a) || a > 100000) BAD; n = -(long) a; }
			else { if (drv_parse_nat(drv_w[3], &a) || a > 100000) BAD; n = (long) a; }
			result_ptr(mpt_values_prepare(arr, n), h, "-");
		}
		else if (!strcmp(op, "binsert") && drv_nw == 5) {
			/* private copy of the current size, then mpt_buffer_insert and the caller's copy */
			if (opnd(drv_w[3], h, &a) || data_arg(drv_w[4], h, &dat, &dlen, &isnull)) BAD;
			MPT_STRUCT(buffer) *r = arr->_buf ? arr->_buf->_vptr->detach(arr->_buf, arr->_buf->_used) : 0;
			if (!r) result("refused", "-", "null", 0);
			else {
				arr->_buf = r;
				void *p = mpt_buffer_insert(r, a, dlen);
				if (p && dlen) memcpy(p, dat, dlen);
				result_ptr(p, h, "-");
			}
		}
#endif
#ifndef DRV_ELEM
		else if (!strcmp(op, "bsetas") && drv_nw == 6) {
			/* mpt_buffer_set with an element type named by the caller */
			const MPT_STRUCT(type_traits) *t = traits_by_name(drv_w[3], &ok);
			if (!ok || opnd(drv_w[4], h, &a) || data_arg(drv_w[5], h, &dat, &dlen, &isnull)) BAD;
			MPT_STRUCT(buffer) *r = arr->_buf;
			size_t need = r ? r->_used : 0;
			if (a + dlen > need) need = a + dlen;
			if (r) r = r->_vptr->detach(r, need);
			if (!r) result("refused", "-", "null", 0);
			else {
				arr->_buf = r;
				result_int(mpt_buffer_set(r, t, a, isnull ? 0 : dat, dlen), "-");
			}
		}
#endif
		else if (!strcmp(op, "bset") && drv_nw == 5) {
#ifdef DRV_ELEM
			uint8_t *src = 0;
			const MPT_STRUCT(type_traits) *st = arr->_buf ? arr->_buf->_content_traits : 0;
			if (!strncmp(drv_w[4], "el:", 3)) {
				if (opnd(drv_w[3], h, &a) || !(src = make_sources(drv_w[4], st, &dlen))) BAD;
				dat = src;
			} else
#endif
			if (opnd(drv_w[3], h, &a) || data_arg(drv_w[4], h, &dat, &dlen, &isnull)) BAD;
			MPT_STRUCT(buffer) *r = arr->_buf;
			size_t need = r ? r->_used : 0;
			if (a + dlen > need) need = a + dlen;
			if (r) r = r->_vptr->detach(r, need);
			if (!r) result("refused", "-", "null", 0);
			else {
				arr->_buf = r;
				result_int(mpt_buffer_set(r, r->_content_traits, a, isnull ? 0 : dat, dlen), "-");
			}
#ifdef DRV_ELEM
			if (src) { drop_sources(src, st, dlen); dat = 0; }
#endif
		}
		else if (!strcmp(op, "printf") && drv_nw == 4) {
			if (data_arg(drv_w[3], h, &dat, &dlen, &isnull) || isnull || memchr(dat, 0, dlen)) BAD;
			char *txt = malloc(dlen + 1);
			memcpy(txt, dat, dlen); txt[dlen] = 0;
			int r = mpt_printf(arr, "%s", txt);
			free(txt);
			result_int(r, "-");
		}
		else if (!strcmp(op, "string") && drv_nw == 3) {
			char *s = mpt_array_string(arr);
			result(s ? "ok" : "refused", "-", s ? "ptr" : "null", 0);
		}
		else if (!strcmp(op, "window") && drv_nw == 5) {
			if (opnd(drv_w[3], h, &a) || opnd(drv_w[4], h, &b)) BAD;
			size_t used = arr->_buf ? arr->_buf->_used : 0;
			if (a + b > used) result("refused", "-", "-", 0);
			else {
				H[h]._off = a; H[h]._len = b; wmode[h] = 1;
				result("ok", "-", "-", 0);
			}
		}
		else if (!strcmp(op, "swrite") && drv_nw == 6) {
			char detail[64];
			if (!wmode[h] || drv_parse_nat(drv_w[3], &a) || drv_parse_nat(drv_w[4], &b) || !b || a > 64 || b > 4096
			    || data_arg(drv_w[5], h, &dat, &dlen, &isnull) || dlen != a * b) BAD;
			ssize_t r = mpt_slice_write(&H[h], a, isnull ? 0 : dat, b);
			/* blocks written, and the bytes of the handle's array that lie behind the slice window afterwards */
			{
				const MPT_STRUCT(buffer) *wb = H[h]._a._buf;
				size_t wend = H[h]._off + H[h]._len, wused = wb ? wb->_used : 0;
				snprintf(detail, sizeof(detail), "n%zdt%zu", r, wused > wend ? wused - wend : (size_t) 0);
			}
			result_int(r, detail);
		}
		else BAD;
		goto done;
done:
#ifdef DRV_ELEM
		if (realloc_op && pre && arr->_buf && arr->_buf != pre && (pre_flags & MPT_ENUM(BufferNoCopy))) {
			if (!(arr->_buf->_vptr->get_flags(arr->_buf) & MPT_ENUM(BufferNoCopy))) mark_illegal("nocopy-lost", 0);
			if (pre_shared && pre_used) mark_illegal("nocopy-copied", 0);
		}
#endif
		free(dat); dat = 0;
next:
		if (r_have) { r_have = 0; put_state(r_verdict, r_detail, r_ret, r_final); }
	}
	reset_all();
	return 0;
}
