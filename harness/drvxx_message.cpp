/* line-protocol driver, C++ part of C17: mpt::encode_array::push(const message &) (mpt++/array.cpp), the fragment
 * walker over mpt_array_push.  Ops are prefixed `xm`.
 *
 *   xm big <epush|ezpe> <seed> <kind> <sizes> 0 0
 *        generated fragments (harness/drv_biggen.h, up to 150000 bytes) are pushed as ONE message into an encoding
 *        array (COBS / COBS with zero pair elimination), the message is finished with push(0, 0); the finished
 *        data is split at the frame delimiter and decoded (COBS: decoder of the harness, ZPE: the library's
 *        decoder), reported as length:fnv64 per message.  What counts is the decoded message, not the coded bytes
 *        (ZPE codes a zero pair differently when it straddles two pushes).
 */
extern "C" {
#include "drv_util.h"
}
#include <errno.h>
#include <sys/uio.h>
#include "drv_biggen.h"
/* buffers are C objects with a hand-made vtable: mpt++/array.cpp is compiled into this translation unit with
 * UBSan's vptr check off (link_extra = -fno-sanitize=vptr), everything else stays sanitised */
#include "array.cpp"
#include "array.h"
#include "convert.h"
#include "message.h"

using namespace mpt;

#define MAXF 64

int main(void)
{
	static char line[1 << 16];
	drv_init();
	while (fgets(line, sizeof(line), stdin)) {
		if (line[0] == '#' || line[0] == '\n') { fputs(line, stdout); continue; }
		drv_split(line);
		if (drv_nw != 8 || strcmp(drv_w[0], "xm") || strcmp(drv_w[1], "big")
		    || (strcmp(drv_w[2], "epush") && strcmp(drv_w[2], "ezpe"))) { puts("bad-op"); continue; }
		size_t seed, kind, n1, n2, sizes[MAXF], total; int nf, zpe = drv_w[2][1] == 'z';
		if (drv_parse_nat(drv_w[3], &seed) || seed > 1000 || drv_parse_nat(drv_w[4], &kind) || kind > 2
		    || (nf = big_sizes(drv_w[5], sizes, MAXF, &total)) < 0 || total > 150000
		    || drv_parse_nat(drv_w[6], &n1) || n1 || drv_parse_nat(drv_w[7], &n2) || n2) { puts("bad-op"); continue; }
		int code = zpe ? (EncodingCobs | EncodingCompress) : EncodingCobs;
		encode_array *ea = new encode_array(mpt_message_encoder(code));
		struct iovec bv[MAXF]; message bm;
		size_t at = 0;
		for (int i = 0; i < nf; i++) {
			/* every fragment in a block of its own (overruns are seen by the sanitizer) */
			uint8_t *b = (uint8_t *) malloc(sizes[i] ? sizes[i] : 1);
			big_fill(b, kind, seed, at, sizes[i]);
			if (!i) { bm.base = b; bm.used = sizes[i]; }
			else { bv[i - 1].iov_base = b; bv[i - 1].iov_len = sizes[i]; }
			at += sizes[i];
		}
		bm.cont = bv; bm.clen = nf - 1;
		bool ok = ea->push(bm);
		ssize_t e = ea->push(0, 0);
		free(const_cast<void *>(bm.base));
		for (int i = 1; i < nf; i++) free(bv[i - 1].iov_base);
		span<const uint8_t> d = ea->data();
		const uint8_t *rx = d.begin(); size_t got = d.size();
		if (ok) printf("R ret=%zu msgs=", total); else printf("R ret=refused msgs=");
		size_t start = 0; int any = 0;
		uint8_t *dec = (uint8_t *) malloc(2 * got + 64);
		for (size_t i = 0; i < got; i++) {
			if (rx[i]) continue;
			long n = -1;
			if (!zpe) n = big_uncobs(rx + start, i - start, dec);
			else {
				/* the library's decoder: work area in front of the coded frame (delimiter included) */
				size_t flen = i - start + 1, head = flen + 16;
				decode_state ds;
				struct iovec v;
				memset(dec, 0xDD, head);
				memcpy(dec + head, rx + start, flen);
				ds.curr = head;
				v.iov_base = dec; v.iov_len = head + flen;
				int r = mpt_message_decoder(code)(&ds, &v, 1);
				if (r == 1 && ds.data.msg >= 0 && ds.data.pos + ds.data.msg <= head + flen) {
					memmove(dec, dec + ds.data.pos, ds.data.msg);
					n = ds.data.msg;
				}
			}
			if (any++) fputc(',', stdout);
			if (n < 0) printf("bad@%zu", start); else printf("%ld:%016llx", n, (unsigned long long) big_fnv(dec, n));
			start = i + 1;
		}
		if (start < got) { if (any++) fputc(',', stdout); printf("partial@%zu+%zu", start, got - start); }
		if (!any) fputc('-', stdout);
		free(dec);
		delete ea;
		printf(" | C - | I code=%zd\n", e);
	}
	return 0;
}
