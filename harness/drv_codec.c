/* line-protocol driver: message codecs (C01 framing round trip, C03 decoder safety).
 * Calls the real encoder/decoder functions in-process with caller-granted windows. */
#include "drv_util.h"
#include <errno.h>
#include <sys/uio.h>
#include "core.h"
#include "convert.h"
#include "message.h"
#include "array.h"

#define FILL 0xEE

static int codec_code(const char *n)
{
	if (!strcmp(n, "command")) return MPT_ENUM(EncodingCommand);
	if (!strcmp(n, "cobs")) return MPT_ENUM(EncodingCobs);
	if (!strcmp(n, "cobs/r")) return MPT_ENUM(EncodingCobsInline);
	if (!strcmp(n, "cobs/zpe")) return MPT_ENUM(EncodingCobs) | MPT_ENUM(EncodingCompress);
	if (!strcmp(n, "cobs/zpe+r")) return MPT_ENUM(EncodingCobsInline) | MPT_ENUM(EncodingCompress);
	return -1;
}
static const char *retname(long r, char *buf, size_t n)
{
	if (r < 0) return drv_errname(r);
	snprintf(buf, n, "%ld", r);
	return buf;
}

/* ------------------------------------------------------------------ encoder on a granted window */
static MPT_TYPE(data_encoder) enc;
static MPT_TYPE(data_decoder) dec;
static MPT_STRUCT(encode_state) est;
static uint8_t *win; static size_t cap;
static uint8_t *pending; static size_t plen;
static size_t frame_start, last_start;
static int have_frame;

static void enc_line(const char *r, const char *ret)
{
	size_t done = est.done <= cap ? est.done : cap;
	size_t open = est.scratch <= cap - done ? est.scratch : cap - done;
	printf("R %s | C ", r);
	drv_puthex(stdout, win, done);
	printf(" | I ret=%s done=%zu scratch=%zu ctx=%zu cap=%zu open=", ret, est.done, est.scratch, (size_t) est._ctx, cap);
	drv_puthex(stdout, win + done, open);
	fputc('\n', stdout);
}
/* one data call with everything not yet taken (pending) plus the new bytes */
static void enc_push(const uint8_t *add, size_t alen)
{
	struct iovec to, from;
	char buf[32], r[48];
	size_t dlen = plen + alen;
	uint8_t *dat = malloc(dlen ? dlen : 1);   /* exact-size source: over-reads are caught */
	if (plen) memcpy(dat, pending, plen);
	if (alen) memcpy(dat + plen, add, alen);
	to.iov_base = win; to.iov_len = cap;
	from.iov_base = dat; from.iov_len = dlen;
	ssize_t n = enc(&est, &to, &from);
	size_t took = n > 0 ? (size_t) n : 0;
	if (took > dlen) took = dlen;
	free(pending); pending = 0; plen = 0;
	if (dlen - took) { plen = dlen - took; pending = malloc(plen); memcpy(pending, dat + took, plen); }
	free(dat);
	if (n < 0) { enc_line("refused n=0", drv_errname(n)); return; }
	snprintf(r, sizeof(r), "ok n=%zd", n);
	enc_line(r, retname(n, buf, sizeof(buf)));
}
/* decode one frame with the real decoder; the frame is placed behind `head` bytes of work space */
static void check_frame(const uint8_t *frame, size_t flen)
{
	size_t head = flen + 16;
	uint8_t *blk = malloc(head + flen + 1);
	MPT_STRUCT(decode_state) ds = MPT_DECODE_INIT;
	struct iovec v;
	memset(blk, 0xDD, head);
	memcpy(blk + head, frame, flen);
	ds.curr = head;
	v.iov_base = blk; v.iov_len = head + flen;
	int r = dec ? dec(&ds, &v, 1) : -99;
	printf("R ");
	if (r == 1 && ds.data.msg >= 0 && (size_t) ds.data.msg <= head + flen && ds.data.pos <= head + flen - (size_t) ds.data.msg) {
		printf("msg=");
		drv_puthex(stdout, blk + ds.data.pos, ds.data.msg);
	}
	else if (r < 0) printf("err=%s", drv_errname(r));
	else printf("incomplete=%d", r);
	printf(" | C ");
	drv_puthex(stdout, frame, flen);
	printf(" | I -\n");
	free(blk);
}

static MPT_STRUCT(encode_array) arr = MPT_ENCODE_ARRAY_INIT;
static void arr_line(long ret);
/* ------------------------------------------------------------------ allocation failure injection
 * (linked with -Wl,--wrap=malloc: every malloc of the library and of this driver comes through here;
 * only allocations made while `alloc_counting` is set are counted, the `alloc_fail`-th one is refused) */
static int alloc_counting; static long alloc_count, alloc_fail;
extern void *__real_malloc(size_t);
void *__wrap_malloc(size_t n)
{
	if (alloc_counting && ++alloc_count == alloc_fail) { errno = ENOMEM; return 0; }
	return __real_malloc(n);
}
/* ------------------------------------------------------------------ mpt_array_push */
static uint8_t *apending; static size_t aplen;
static void apush_data(const uint8_t *dat, size_t dlen, long fail)
{
	alloc_count = 0; alloc_fail = fail; alloc_counting = fail > 0;
	alarm(10);
	ssize_t n = mpt_array_push(&arr, dlen, dat);
	alarm(0);
	alloc_counting = 0;
	size_t took = n > 0 ? (size_t) n : 0;
	if (took > dlen) took = dlen;
	uint8_t *rest = 0;
	if (dlen - took) { rest = malloc(dlen - took); memcpy(rest, dat + took, dlen - took); }
	if (n == MPT_ERROR(BadEncoding)) { free(rest); rest = 0; took = dlen; }   /* refused text is not pushed again */
	free(apending); apending = rest; aplen = dlen - took;
	arr_line(n);
	printf(" taken=%zd\n", n > 0 ? n : 0);
}
static void arr_line(long ret)
{
	MPT_STRUCT(buffer) *b = arr._d._buf;
	char buf[32];
	size_t size = b ? b->_size : 0, used = b ? b->_used : 0;
	size_t done = arr._state.done <= size ? arr._state.done : size;
	if (ret < 0) printf("R refused ret=%s | C ", drv_errname(ret));
	else printf("R ok ret=%s | C ", retname(ret, buf, sizeof(buf)));
	drv_puthex(stdout, b ? (uint8_t *) (b + 1) : 0, done);
	printf(" | I used=%zu scratch=%zu cap=%zu", used, arr._state.scratch, size);
}

/* ------------------------------------------------------------------ decoder on guarded segments */
#define MAXSEG 8
#define GUARD 32
static struct seg { uint8_t *block, *data; size_t len, align; } segs[MAXSEG];
static size_t nseg;
static uint8_t *orig; static size_t origlen;   /* the bytes as supplied, for the "unread input untouched" test */
static MPT_STRUCT(decode_state) dst;

static void seg_alloc(struct seg *s, size_t align, const uint8_t *dat, size_t len)
{
	/* [64-aligned block]: 64 guard bytes, then `align` more guard bytes, then the data up to the very end of the
	 * block, so that AddressSanitizer reports any load or store behind the segment (guard bytes would only show
	 * stores); stores in front of the segment are seen in the guard bytes */
	uint8_t *blk;
	if (posix_memalign((void **) &blk, 64, 64 + align + len)) abort();
	memset(blk, 0xA5, 64 + align + len);
	s->block = blk; s->data = blk + 64 + align; s->len = len; s->align = align;
	/* guard area: everything in the block except [data, data+len) */
	if (len) memcpy(s->data, dat, len);
}
static int seg_guards_ok(const struct seg *s)
{
	const uint8_t *p = s->block, *e = s->block + 64 + s->align + s->len;
	for (; p < e; ++p) {
		if (p >= s->data && p < s->data + s->len) continue;
		if (*p != 0xA5) return 0;
	}
	return 1;
}
static void segs_free(void)
{
	for (size_t i = 0; i < nseg; i++) free(segs[i].block);
	nseg = 0;
	free(orig); orig = 0; origlen = 0;
}
static void orig_append(const uint8_t *dat, size_t len)
{
	orig = realloc(orig, origlen + len + 1);
	memcpy(orig + origlen, dat, len);
	origlen += len;
}
static uint8_t store_at(size_t pos)
{
	for (size_t i = 0; i < nseg; i++) {
		if (pos < segs[i].len) return segs[i].data[pos];
		pos -= segs[i].len;
	}
	return 0;
}
static void dec_line(int r, int call)
{
	char buf[32];
	size_t total = origlen, i;
	int guards = 1, unread = 1;
	for (i = 0; i < nseg; i++) if (!seg_guards_ok(&segs[i])) guards = 0;
	/* input not yet consumed must be untouched */
	for (i = dst.curr; i < total; i++) if (store_at(i) != orig[i]) unread = 0;
	printf("R ret=%s", retname(r, buf, sizeof(buf)));
	if (call && r == 1 && dst.data.msg >= 0 && (size_t) dst.data.msg <= total && dst.data.pos <= total - (size_t) dst.data.msg) {
		printf(" msg=");
		if (!dst.data.msg) fputc('-', stdout);
		for (i = 0; i < (size_t) dst.data.msg; i++) { uint8_t b = store_at(dst.data.pos + i); drv_puthex(stdout, &b, 1); }
	}
	printf(" guards=%s unread=%s | C data=%zu,%zu,%zd part=", guards ? "ok" : "bad", unread ? "ok" : "bad",
	       dst.data.pos, dst.data.len, dst.data.msg);
	/* overflow-safe: a decoder whose lengths have underflowed must not make the driver print without end */
	if (dst.data.len && dst.data.len <= total && dst.data.pos <= total - dst.data.len) {
		for (i = 0; i < dst.data.len; i++) { uint8_t b = store_at(dst.data.pos + i); drv_puthex(stdout, &b, 1); }
	} else fputc('-', stdout);
	printf(" | I ctx=%zu,%zu curr=%zu store=", (size_t) (dst._ctx & 0xff), (size_t) (dst._ctx >> 8), dst.curr);
	if (!nseg) fputc('-', stdout);
	for (i = 0; i < nseg; i++) { if (i) fputc(',', stdout); drv_puthex(stdout, segs[i].data, segs[i].len); }
	fputc('\n', stdout);
}
/* "<align>:<hex>" */
static int parse_seg(char *w, size_t *align, uint8_t **dat, size_t *len)
{
	char *c = strchr(w, ':');
	int isnull;
	if (!c) return -1;
	*c = 0;
	if (drv_parse_nat(w, align) || *align > 15) return -1;
	if (drv_parse_data(c + 1, dat, len, &isnull) || isnull) return -1;
	return 0;
}

/* a call that does not return within the limit becomes a result line (and ends the process) */
static void on_alarm(int sig)
{
	static const char msg[] = "\nFAULT hang (no return within 10 s)\n";
	(void) sig;
	if (write(1, msg, sizeof(msg) - 1) < 0) { }
	_exit(95);
}
int main(void)
{
	static char line[1 << 20];
	drv_init();
	signal(SIGALRM, on_alarm);
	while (fgets(line, sizeof(line), stdin)) {
		if (line[0] == '#' || line[0] == '\n') { fputs(line, stdout); continue; }
		drv_split(line);
		if (drv_nw < 2) { puts("bad-op"); continue; }
		const char *area = drv_w[0], *op = drv_w[1];
		uint8_t *dat = 0; size_t dlen = 0, a; int isnull = 0;
		if (!strcmp(area, "enc")) {
			if (!strcmp(op, "new") && drv_nw == 4) {
				int code = codec_code(drv_w[2]);
				if (code < 0 || drv_parse_nat(drv_w[3], &a)) { puts("bad-op"); continue; }
				enc = mpt_message_encoder(code);
				dec = mpt_message_decoder(code);
				enc(&est, 0, 0);
				free(win); win = malloc(a ? a : 1); cap = a; memset(win, FILL, a);
				free(pending); pending = 0; plen = 0;
				frame_start = last_start = 0; have_frame = 0;
				enc_line("ok", "0");
			}
			else if (!enc) puts("bad-op");
			else if (!strcmp(op, "cap") && drv_nw == 3) {
				if (drv_parse_nat(drv_w[2], &a)) { puts("bad-op"); continue; }
				uint8_t *n = malloc(a ? a : 1);
				memset(n, FILL, a);
				memcpy(n, win, a < cap ? a : cap);
				free(win); win = n; cap = a;
				enc_line("ok", "0");
			}
			else if (!strcmp(op, "push") && drv_nw == 3) {
				if (drv_parse_data(drv_w[2], &dat, &dlen, &isnull) || isnull) { puts("bad-op"); continue; }
				enc_push(dat, dlen);
				free(dat);
			}
			else if (!strcmp(op, "more") && drv_nw == 2) {
				if (!plen) { enc_line("idle", "0"); continue; }
				enc_push(0, 0);
			}
			else if (!strcmp(op, "term") && drv_nw == 2) {
				struct iovec to;
				char buf[32];
				if (plen) { enc_line("pending", "0"); continue; }
				to.iov_base = win; to.iov_len = cap;
				ssize_t n = enc(&est, &to, 0);
				if (n < 0) { enc_line("refused", drv_errname(n)); continue; }
				last_start = frame_start; frame_start = est.done; have_frame = 1;
				enc_line("ok", retname(n, buf, sizeof(buf)));
			}
			else if (!strcmp(op, "del") && drv_nw == 3) {
				struct iovec to, from;
				char buf[32];
				if (drv_parse_nat(drv_w[2], &a)) { puts("bad-op"); continue; }
				free(pending); pending = 0; plen = 0;
				to.iov_base = win; to.iov_len = cap;
				from.iov_base = 0; from.iov_len = a;
				ssize_t n = enc(&est, &to, &from);
				if (n < 0) { enc_line("refused", drv_errname(n)); continue; }
				frame_start = est.done; last_start = frame_start; have_frame = 0;
				enc_line("ok", retname(n, buf, sizeof(buf)));
			}
			else if (!strcmp(op, "nullwin") && drv_nw == 3) {
				/* uninitialized target: iov_base = NULL, iov_len = 0 */
				struct iovec to, from;
				to.iov_base = 0; to.iov_len = 0;
				ssize_t n;
				if (!strcmp(drv_w[2], "term")) n = enc(&est, &to, 0);
				else {
					if (drv_parse_data(drv_w[2], &dat, &dlen, &isnull) || isnull) { puts("bad-op"); continue; }
					from.iov_base = dat; from.iov_len = dlen;
					n = enc(&est, &to, &from);
					free(dat);
				}
				/* which refusal matters here: MissingBuffer invites the caller to grant space and call again */
				if (n < 0) { char rr[64]; snprintf(rr, sizeof(rr), "refused ret=%s", drv_errname(n)); enc_line(rr, drv_errname(n)); }
				else enc_line("ok", "?");
			}
			else if (!strcmp(op, "check") && drv_nw == 2) {
				size_t end = frame_start <= cap ? frame_start : cap;
				size_t st = last_start <= end ? last_start : end;
				if (!have_frame) { puts("R none | C - | I -"); continue; }
				check_frame(win + st, end - st);
			}
			else puts("bad-op");
		}
		else if (!strcmp(area, "apush")) {
			if (!strcmp(op, "new") && drv_nw == 3) {
				int code = codec_code(drv_w[2]);
				if (code < 0) { puts("bad-op"); continue; }
				mpt_encode_array_fini(&arr);
				memset(&arr, 0, sizeof(arr));
				arr._enc = enc = mpt_message_encoder(code);
				dec = mpt_message_decoder(code);
				free(apending); apending = 0; aplen = 0;
				frame_start = last_start = 0; have_frame = 0;
				puts("R ok ret=0 | C - | I used=0 scratch=0 cap=0");
			}
			else if (!arr._enc) puts("bad-op");
			else if (!strcmp(op, "push") && drv_nw == 3) {
				if (drv_parse_data(drv_w[2], &dat, &dlen, &isnull) || isnull || !dlen) { puts("bad-op"); free(dat); continue; }
				apush_data(dat, dlen, 0);
				free(dat);
			}
			else if (!strcmp(op, "more") && drv_nw == 2) {
				if (!aplen) { puts("R idle | C - | I -"); continue; }
				dlen = aplen; dat = malloc(dlen); memcpy(dat, apending, dlen);
				apush_data(dat, dlen, 0);
				free(dat);
			}
			else if (!strcmp(op, "failpush") && drv_nw == 4) {
				if (drv_parse_nat(drv_w[2], &a) || !a || drv_parse_data(drv_w[3], &dat, &dlen, &isnull) || isnull || !dlen) { puts("bad-op"); free(dat); continue; }
				apush_data(dat, dlen, (long) a);
				free(dat);
			}
			else if (!strcmp(op, "failterm") && drv_nw == 3) {
				if (drv_parse_nat(drv_w[2], &a) || !a) { puts("bad-op"); continue; }
				if (aplen) { puts("R pending | C - | I -"); continue; }
				alloc_count = 0; alloc_fail = (long) a; alloc_counting = 1;
				alarm(10);
				ssize_t n = mpt_array_push(&arr, 0, 0);
				alarm(0);
				alloc_counting = 0;
				if (n >= 0) { last_start = frame_start; frame_start = arr._state.done; have_frame = 1; }
				arr_line(n);
				printf(" taken=0\n");
			}
			else if (!strcmp(op, "term") && drv_nw == 2) {
				if (aplen) { puts("R pending | C - | I -"); continue; }
				alarm(10);
				ssize_t n = mpt_array_push(&arr, 0, 0);
				alarm(0);
				if (n >= 0) { last_start = frame_start; frame_start = arr._state.done; have_frame = 1; }
				arr_line(n);
				printf(" taken=0\n");
			}
			else if (!strcmp(op, "del") && drv_nw == 3) {
				if (drv_parse_nat(drv_w[2], &a) || !a) { puts("bad-op"); continue; }
				alarm(10);
				ssize_t n = mpt_array_push(&arr, a, 0);
				alarm(0);
				if (n >= 0) { frame_start = arr._state.done; last_start = frame_start; have_frame = 0; }
				arr_line(n);
				printf(" taken=0\n");
			}
			else if (!strcmp(op, "check") && drv_nw == 2) {
				MPT_STRUCT(buffer) *b = arr._d._buf;
				size_t end = b ? (frame_start <= b->_size ? frame_start : b->_size) : 0;
				size_t st = last_start <= end ? last_start : end;
				if (!have_frame) { puts("R none | C - | I -"); continue; }
				check_frame(b ? (uint8_t *) (b + 1) + st : (uint8_t *) "", end - st);
			}
			else puts("bad-op");
		}
		else if (!strcmp(area, "py") && drv_nw == 3) {
			/* py <msg> <frame produced by mpt.py:encode_cobs(msg)>: echo the frame, decode it with the real decoder */
			uint8_t *fr = 0; size_t flen = 0;
			if (drv_parse_data(drv_w[1], &dat, &dlen, &isnull) || isnull) { puts("bad-op"); continue; }
			if (drv_parse_data(drv_w[2], &fr, &flen, &isnull) || isnull) { puts("bad-op"); free(dat); continue; }
			size_t head = flen + 16;
			uint8_t *blk = malloc(head + flen + 1);
			MPT_STRUCT(decode_state) ds = MPT_DECODE_INIT;
			struct iovec v;
			memset(blk, 0xDD, head); memcpy(blk + head, fr, flen);
			ds.curr = head; v.iov_base = blk; v.iov_len = head + flen;
			int r = mpt_decode_cobs(&ds, &v, 1);
			printf("R frame="); drv_puthex(stdout, fr, flen);
			if (r == 1 && ds.data.msg >= 0 && (size_t) ds.data.msg <= head + flen && ds.data.pos <= head + flen - (size_t) ds.data.msg) { printf(" msg="); drv_puthex(stdout, blk + ds.data.pos, ds.data.msg); }
			else if (r < 0) printf(" err=%s", drv_errname(r));
			else printf(" incomplete=%d", r);
			printf(" | C - | I -\n");
			free(blk); free(dat); free(fr);
		}
		else if (!strcmp(area, "lookup") && drv_nw == 3) {
			/* mpt_message_encoder/decoder(code), mpt_encoding_type(code), mpt_encoding_value(name) */
			if (!strcmp(op, "enc") || !strcmp(op, "dec")) {
				if (drv_parse_nat(drv_w[2], &a) || a > 100000) { puts("bad-op"); continue; }
				const char *fn = "?";
				if (*op == 'e') {
					MPT_TYPE(data_encoder) f = mpt_message_encoder((int) a);
					fn = !f ? "none" : f == mpt_encode_string ? "command" : f == mpt_encode_cobs ? "cobs" : f == mpt_encode_cobs_r ? "cobs/r"
					   : f == mpt_encode_cobs_zpe ? "cobs/zpe" : f == mpt_encode_cobs_zpe_r ? "cobs/zpe+r" : "?";
				} else {
					MPT_TYPE(data_decoder) f = mpt_message_decoder((int) a);
					fn = !f ? "none" : f == mpt_decode_command ? "command" : f == mpt_decode_cobs ? "cobs" : f == mpt_decode_cobs_r ? "cobs/r"
					   : f == mpt_decode_cobs_zpe ? "cobs/zpe" : f == mpt_decode_cobs_zpe_r ? "cobs/zpe+r" : "?";
				}
				printf("R fn=%s | C - | I -\n", fn);
			}
			else if (!strcmp(op, "type")) {
				if (drv_parse_nat(drv_w[2], &a) || a > 100000) { puts("bad-op"); continue; }
				const char *nm = mpt_encoding_type((int) a);
				printf("R name=%s | C - | I -\n", nm ? nm : "null");
			}
			else if (!strcmp(op, "name")) {
				if (drv_parse_data(drv_w[2], &dat, &dlen, &isnull) || isnull) { puts("bad-op"); continue; }
				char *txt = malloc(dlen + 1);
				memcpy(txt, dat, dlen); txt[dlen] = 0;
				printf("R val=%d | C - | I -\n", mpt_encoding_value(txt, -1));
				free(txt); free(dat);
			}
			else puts("bad-op");
		}
		else if (!strcmp(area, "pycmd") && drv_nw == 3) {
			/* pycmd <msg> <frame returned by mpt.py:encode_command(msg) | raise> */
			uint8_t *fr = 0; size_t flen = 0;
			if (drv_parse_data(drv_w[1], &dat, &dlen, &isnull) || isnull) { puts("bad-op"); continue; }
			if (!strcmp(drv_w[2], "raise")) { puts("R out=raise | C - | I -"); free(dat); continue; }
			if (drv_parse_data(drv_w[2], &fr, &flen, &isnull) || isnull) { puts("bad-op"); free(dat); continue; }
			size_t head = 2;
			uint8_t *blk = malloc(head + flen + 1);
			MPT_STRUCT(decode_state) ds = MPT_DECODE_INIT;
			struct iovec v;
			memset(blk, 0xDD, head); memcpy(blk + head, fr, flen);
			ds.curr = head; v.iov_base = blk; v.iov_len = head + flen;
			int r = mpt_decode_command(&ds, &v, 1);
			printf("R out="); drv_puthex(stdout, fr, flen);
			if (r == 1 && ds.data.msg >= 0 && (size_t) ds.data.msg <= head + flen && ds.data.pos <= head + flen - (size_t) ds.data.msg) { printf(" msg="); drv_puthex(stdout, blk + ds.data.pos, ds.data.msg); }
			else if (r < 0) printf(" err");
			else printf(" err");
			printf(" | C - | I -\n");
			free(blk); free(dat); free(fr);
		}
		else if (!strcmp(area, "dec")) {
			if (!strcmp(op, "new") && drv_nw >= 3 && drv_nw <= 3 + MAXSEG) {
				int code = codec_code(drv_w[2]), bad = 0;
				if (code < 0) { puts("bad-op"); continue; }
				struct { size_t al; uint8_t *d; size_t l; } tmp[MAXSEG];
				int nt = 0;
				for (int i = 3; i < drv_nw; i++) {
					if (parse_seg(drv_w[i], &tmp[nt].al, &tmp[nt].d, &tmp[nt].l)) { bad = 1; break; }
					++nt;
				}
				if (bad) { for (int i = 0; i < nt; i++) free(tmp[i].d); puts("bad-op"); continue; }
				segs_free();
				dec = mpt_message_decoder(code);
				for (int i = 0; i < nt; i++) {
					seg_alloc(&segs[nseg++], tmp[i].al, tmp[i].d, tmp[i].l);
					orig_append(tmp[i].d, tmp[i].l);
					free(tmp[i].d);
				}
				MPT_STRUCT(decode_state) init = MPT_DECODE_INIT;
				dst = init;
				dec_line(0, 0);
			}
			else if (!dec) puts("bad-op");
			else if (!strcmp(op, "state") && drv_nw == 7) {
				size_t c, cu, p, l; long m; char *e;
				if (drv_parse_nat(drv_w[2], &c) || drv_parse_nat(drv_w[3], &cu) || drv_parse_nat(drv_w[4], &p) || drv_parse_nat(drv_w[5], &l)) { puts("bad-op"); continue; }
				m = strtol(drv_w[6], &e, 10);
				if (*e || e == drv_w[6] || m < -1) { puts("bad-op"); continue; }
				dst._ctx = c; dst.curr = cu; dst.data.pos = p; dst.data.len = l; dst.data.msg = m;
				dec_line(0, 0);
			}
			else if (!strcmp(op, "append") && drv_nw == 3) {
				/* more input arrives in the last segment (same alignment) */
				if (!nseg || drv_parse_data(drv_w[2], &dat, &dlen, &isnull) || isnull) { puts("bad-op"); continue; }
				struct seg *s = &segs[nseg - 1], n;
				uint8_t *all = malloc(s->len + dlen + 1);
				memcpy(all, s->data, s->len); memcpy(all + s->len, dat, dlen);
				seg_alloc(&n, s->align, all, s->len + dlen);
				free(s->block); *s = n;
				orig_append(dat, dlen);
				free(all); free(dat);
				dec_line(0, 0);
			}
			else if (!strcmp(op, "seg") && drv_nw == 3) {
				/* more input arrives in a new segment */
				size_t al;
				if (nseg >= MAXSEG || parse_seg(drv_w[2], &al, &dat, &dlen)) { puts("bad-op"); continue; }
				seg_alloc(&segs[nseg++], al, dat, dlen);
				orig_append(dat, dlen);
				free(dat);
				dec_line(0, 0);
			}
			else if ((!strcmp(op, "run") || !strcmp(op, "peek")) && drv_nw == 2) {
				struct iovec v[MAXSEG + 1];
				for (size_t i = 0; i < nseg; i++) { v[i].iov_base = segs[i].data; v[i].iov_len = segs[i].len; }
				if (!nseg) { puts("bad-op"); continue; }
				/* a decoder call that does not return is a violation of "terminates", reported as a fault */
				alarm(10);
				int r = dec(&dst, v, *op == 'r' ? nseg : 0);
				alarm(0);
				dec_line(r, 1);
			}
			else if (!strcmp(op, "size") && drv_nw == 3) {
				if (drv_parse_nat(drv_w[2], &a)) { puts("bad-op"); continue; }
				int r = dec(&dst, 0, a);
				dec_line(r, 0);
			}
			else puts("bad-op");
		}
		else puts("bad-op");
	}
	free(win); free(pending);
	mpt_encode_array_fini(&arr);
	segs_free();
	return 0;
}
