/* line-protocol driver: typed buffers whose elements are references (C05, third part):
 *  - arrays of arrays through the library's own element traits mpt_array_traits() (array_traits.c),
 *  - arrays of metatype references through mpt_meta_reference_traits() (meta_reference_traits.c),
 *  - leaf arrays of harness token elements (constructor/destructor log, as in drv_array.c).
 * Handles h0..h5 are `struct array`.  After every op the structure reachable from every handle is printed and the
 * bookkeeping is checked: reference counts of buffers and metatype instances equal the number of references that
 * exist, every live token is stored once, nothing is released twice. */
#include "drv_util.h"
#include <errno.h>
#include <limits.h>
extern size_t __sanitizer_get_current_allocated_bytes(void);  /* libasan */
#include "types.h"
#include "array.h"
#include "config.h"
#include "meta.h"
#include "values.h"

#define NH 6
static MPT_STRUCT(array) H[NH];
static int nh;
static size_t heap0;

/* ------------------------------------------------------------------ event log / verdict */
static char evlog[1 << 14];
static size_t evlen;
static char illegal[128];
static void ev(const char *fmt, unsigned a, unsigned b)
{
	if (evlen + 40 > sizeof(evlog)) return;
	if (evlen) evlog[evlen++] = ',';
	evlen += snprintf(evlog + evlen, 32, fmt, a, b);
}
static void mark_illegal(const char *what, unsigned id)
{
	if (!illegal[0]) snprintf(illegal, sizeof(illegal), "%s:%u", what, id);
}

/* ------------------------------------------------------------------ token elements (leaf arrays) */
#define MAXTOK 4096
static unsigned tok_next = 1;
static unsigned char live[MAXTOK];
static unsigned rdtok(const void *p)
{
	const uint8_t *b = p;
	return b[0] | (b[1] << 8) | (b[2] << 16) | ((unsigned) b[3] << 24);
}
static int tok_init(void *ptr, const void *src)
{
	uint8_t *b = ptr;
	unsigned tok = tok_next++;
	if (src) {
		unsigned st = rdtok(src);
		ev("c%u<%u", tok, st);
		if (st >= MAXTOK || !live[st]) mark_illegal("copy-from-dead", st);
	} else ev("i%u", tok, 0);
	b[0] = tok & 0xff; b[1] = (tok >> 8) & 0xff; b[2] = (tok >> 16) & 0xff; b[3] = (tok >> 24) & 0xff;
	if (tok < MAXTOK) live[tok] = 1;
	return 0;
}
static void tok_fini(void *ptr)
{
	unsigned tok = rdtok(ptr);
	ev("f%u", tok, 0);
	if (tok >= MAXTOK || !live[tok]) mark_illegal("fini-dead", tok);
	else live[tok] = 0;
	memset(ptr, 0xdd, 4);
}
static const MPT_STRUCT(type_traits) tr_tok = { tok_init, tok_fini, 4 };

/* ------------------------------------------------------------------ metatype instances of the harness */
struct obj {
	MPT_INTERFACE(metatype) _mt;
	unsigned id;
	int sharable;          /* addref() grants references */
	uintptr_t refs;        /* references handed out and not yet returned */
	int dead;              /* released by the last unref (memory is kept until the script ends) */
};
#define MAXOBJ 256
static struct obj *objs[MAXOBJ];
static unsigned nobj;

static int obj_conv(MPT_INTERFACE(convertable) *c, MPT_TYPE(type) t, void *p) { (void) c; (void) t; (void) p; return MPT_ERROR(BadType); }
static void obj_unref(MPT_INTERFACE(metatype) *mt)
{
	struct obj *o = (struct obj *) mt;
	if (o->dead || !o->refs) { ev("u%u!", o->id, 0); mark_illegal("unref-dead", o->id); return; }
	if (--o->refs) { ev("u%u", o->id, 0); return; }
	ev("d%u", o->id, 0);
	o->dead = 1;
}
static uintptr_t obj_addref(MPT_INTERFACE(metatype) *mt)
{
	struct obj *o = (struct obj *) mt;
	if (o->dead) { mark_illegal("addref-dead", o->id); return 0; }
	if (!o->sharable) { ev("n%u", o->id, 0); return 0; }
	ev("a%u", o->id, 0);
	return ++o->refs;
}
static MPT_INTERFACE(metatype) *obj_clone(const MPT_INTERFACE(metatype) *mt) { (void) mt; return 0; }
static const MPT_INTERFACE_VPTR(metatype) obj_vptr = { { obj_conv }, obj_unref, obj_addref, obj_clone };

static struct obj *obj_new(int sharable)
{
	struct obj *o;
	if (nobj >= MAXOBJ) return 0;
	o = calloc(1, sizeof(*o));
	o->_mt._vptr = &obj_vptr;
	o->id = nobj + 1;
	o->sharable = sharable;
	o->refs = 1;
	objs[nobj++] = o;
	ev("m%u", o->id, 0);
	return o;
}
static struct obj *obj_of(const void *p)
{
	for (unsigned i = 0; i < nobj; i++) if ((const void *) objs[i] == p) return objs[i];
	return 0;
}

/* ------------------------------------------------------------------ structure walk */
static const MPT_STRUCT(type_traits) *tr_arr, *tr_meta, *tr_vst, *tr_dbl;
/* layout of buffer_alloc.c's private bufferData in front of struct buffer (internals only) */
static uintptr_t ref_of(const MPT_STRUCT(buffer) *b) { return *(const uintptr_t *) ((const uint8_t *) b - 32); }

#define MAXB 256
static const MPT_STRUCT(buffer) *seen[MAXB];
static unsigned refs_found[MAXB];      /* references to the buffer met during the walk */
static int nseen;
static unsigned obj_found[MAXOBJ];
static unsigned char tok_seen[MAXTOK];

static int seen_index(const MPT_STRUCT(buffer) *b)
{
	for (int i = 0; i < nseen; i++) if (seen[i] == b) return i;
	return -1;
}
/* count references, visiting every buffer once */
static void walk(const MPT_STRUCT(buffer) *b)
{
	int i;
	if (!b) return;
	if ((i = seen_index(b)) >= 0) { refs_found[i]++; return; }
	if (nseen >= MAXB) return;
	seen[nseen] = b; refs_found[nseen] = 1; nseen++;
	const MPT_STRUCT(type_traits) *t = b->_content_traits;
	const uint8_t *d = (const uint8_t *) (b + 1);
	if (t == tr_arr) {
		for (size_t p = 0; p + sizeof(MPT_STRUCT(array)) <= b->_used; p += sizeof(MPT_STRUCT(array)))
			walk(((const MPT_STRUCT(array) *) (d + p))->_buf);
	} else if (t == tr_vst) {
		for (size_t p = 0; p + sizeof(MPT_STRUCT(value_store)) <= b->_used; p += sizeof(MPT_STRUCT(value_store)))
			walk(((const MPT_STRUCT(value_store) *) (d + p))->_d._buf);
	} else if (t == tr_meta) {
		for (size_t p = 0; p + sizeof(void *) <= b->_used; p += sizeof(void *)) {
			const void *mt = *(void * const *) (d + p);
			struct obj *o = mt ? obj_of(mt) : 0;
			if (mt && !o) mark_illegal("stored-unknown", 0);
			else if (o) { if (o->dead) mark_illegal("stored-dead-obj", o->id); obj_found[o->id - 1]++; }
		}
	} else if (t == &tr_tok) {
		for (size_t p = 0; p + 4 <= b->_used; p += 4) {
			unsigned tok = rdtok(d + p);
			if (tok >= MAXTOK || !live[tok]) { mark_illegal("stored-dead", tok); continue; }
			if (tok_seen[tok]) mark_illegal("stored-twice", tok);
			tok_seen[tok] = 1;
		}
	}
}
static int reaches(const MPT_STRUCT(buffer) *from, const MPT_STRUCT(buffer) *to, int depth)
{
	if (!from || depth > 64) return 0;
	if (from == to) return 1;
	if (from->_content_traits != tr_arr) return 0;
	const uint8_t *d = (const uint8_t *) (from + 1);
	for (size_t p = 0; p + sizeof(MPT_STRUCT(array)) <= from->_used; p += sizeof(MPT_STRUCT(array)))
		if (reaches(((const MPT_STRUCT(array) *) (d + p))->_buf, to, depth + 1)) return 1;
	return 0;
}
static void check_all(int final)
{
	nseen = 0;
	memset(obj_found, 0, sizeof(obj_found));
	memset(tok_seen, 0, sizeof(tok_seen));
	for (int h = 0; h < nh; h++) walk(H[h]._buf);
	for (int i = 0; i < nseen; i++) {
		if (ref_of(seen[i]) != refs_found[i]) mark_illegal("buf-refcount", (unsigned) i);
	}
	for (unsigned i = 0; i < nobj; i++) {
		if (objs[i]->dead) { if (obj_found[i]) mark_illegal("stored-dead-obj", i + 1); continue; }
		if (objs[i]->refs != obj_found[i]) mark_illegal(final ? "obj-alive-at-end" : "obj-refcount", i + 1);
	}
	for (unsigned t = 1; t < tok_next && t < MAXTOK; t++) {
		if (live[t] && !tok_seen[t]) mark_illegal(final ? "alive-at-end" : "live-not-stored", t);
	}
}
/* print the structure below a buffer; `path` guards against cycles */
static void put_tree(const MPT_STRUCT(buffer) *b, const MPT_STRUCT(buffer) **path, int depth)
{
	if (!b) { fputc('-', stdout); return; }
	for (int i = 0; i < depth; i++) if (path[i] == b) { fputc('^', stdout); return; }
	if (depth >= 12) { fputc('~', stdout); return; }
	path[depth] = b;
	const MPT_STRUCT(type_traits) *t = b->_content_traits;
	const uint8_t *d = (const uint8_t *) (b + 1);
	int first = 1;
	if (t == tr_arr) {
		fputs("A[", stdout);
		for (size_t p = 0; p + sizeof(MPT_STRUCT(array)) <= b->_used; p += sizeof(MPT_STRUCT(array))) {
			if (!first) fputc(' ', stdout);
			first = 0;
			put_tree(((const MPT_STRUCT(array) *) (d + p))->_buf, path, depth + 1);
		}
	} else if (t == tr_vst) {
		fputs("V[", stdout);
		for (size_t p = 0; p + sizeof(MPT_STRUCT(value_store)) <= b->_used; p += sizeof(MPT_STRUCT(value_store))) {
			if (!first) fputc(' ', stdout);
			first = 0;
			put_tree(((const MPT_STRUCT(value_store) *) (d + p))->_d._buf, path, depth + 1);
		}
	} else if (t == tr_dbl) {
		fputs("D[", stdout);
		for (size_t p = 0; p + sizeof(double) <= b->_used; p += sizeof(double)) {
			double v;
			memcpy(&v, d + p, sizeof(v));
			if (!first) fputc(' ', stdout);
			first = 0;
			printf("%ld", (long) v);
		}
	} else if (t == tr_meta) {
		fputs("M[", stdout);
		for (size_t p = 0; p + sizeof(void *) <= b->_used; p += sizeof(void *)) {
			const void *mt = *(void * const *) (d + p);
			struct obj *o = mt ? obj_of(mt) : 0;
			if (!first) fputc(' ', stdout);
			first = 0;
			if (!mt) fputc('-', stdout); else if (!o) fputc('?', stdout); else printf("o%u", o->id);
		}
	} else if (t == &tr_tok) {
		fputs("T[", stdout);
		for (size_t p = 0; p + 4 <= b->_used; p += 4) {
			if (!first) fputc(' ', stdout);
			first = 0;
			printf("%u", rdtok(d + p));
		}
	} else {
		printf("R[%zu", b->_used);
	}
	fputc(']', stdout);
}
static void put_state(const char *verdict, const char *ret, int final)
{
	const MPT_STRUCT(buffer) *path[16];
	check_all(final);
	if (final && __sanitizer_get_current_allocated_bytes() - heap0 != nobj * sizeof(struct obj)) mark_illegal("heap-at-end", 0);
	printf("R %s | C %s ev=%s", illegal[0] ? illegal : "legal", verdict, evlen ? evlog : "-");
	evlen = 0; evlog[0] = 0;
	for (int h = 0; h < nh; h++) {
		printf(" h%d=", h);
		put_tree(H[h]._buf, path, 0);
	}
	printf(" | I ret=%s bufs=", ret);
	if (!nseen) fputc('-', stdout);
	for (int i = 0; i < nseen; i++) printf("%sr%zu", i ? "," : "", (size_t) ref_of(seen[i]));
	printf(" objs=");
	if (!nobj) fputc('-', stdout);
	for (unsigned i = 0; i < nobj; i++) {
		if (i) fputc(',', stdout);
		if (objs[i]->dead) printf("o%u:x", i + 1); else printf("o%u:r%zu", i + 1, (size_t) objs[i]->refs);
	}
	fputc('\n', stdout);
}
static void drop_all(void)
{
	for (int h = 0; h < NH; h++) if (H[h]._buf) mpt_array_clone(&H[h], 0);
}
static void reset_all(void)
{
	drop_all();
	for (unsigned i = 0; i < nobj; i++) free(objs[i]);
	nobj = 0;
	tok_next = 1; memset(live, 0, sizeof(live)); evlen = 0; evlog[0] = 0; illegal[0] = 0;
}
static int handle_arg(const char *s)
{
	size_t v;
	if (s[0] != 'h' || drv_parse_nat(s + 1, &v) || v >= (size_t) nh) return -1;
	return (int) v;
}
static size_t esize_of(const MPT_STRUCT(buffer) *b)
{
	return (b && b->_content_traits) ? b->_content_traits->size : 0;
}
static size_t count_of(const MPT_STRUCT(buffer) *b)
{
	size_t e = esize_of(b);
	return e ? b->_used / e : 0;
}

#define BAD do { puts("bad-op"); goto next; } while (0)
#define RES(v, r) do { snprintf(r_verdict, sizeof(r_verdict), "%s", (v)); snprintf(r_ret, sizeof(r_ret), "%s", (r)); r_have = 1; } while (0)
#define RES_INT(i) do { long _r = (i); if (_r < 0) RES("refused", drv_errname(_r)); else { char _t[24]; snprintf(_t, sizeof(_t), "%ld", _r); RES("ok", _t); } } while (0)
#define RES_PTR(p) do { if (p) RES("ok", "ptr"); else RES("refused", "null"); } while (0)

int main(void)
{
	static char line[1 << 16];
	static char outbuf[1 << 16];
	char r_verdict[16], r_ret[32];
	int r_have = 0, r_final = 0;
	drv_init();
	setvbuf(stdout, outbuf, _IOLBF, sizeof(outbuf));
	tr_arr = mpt_array_traits();
	tr_meta = mpt_meta_reference_traits();
	tr_vst = mpt_value_store_traits();
	tr_dbl = mpt_type_traits('d');
	/* first allocation fixes the granule; keep it out of the heap accounting */
	{ MPT_STRUCT(buffer) *b = _mpt_buffer_alloc(1, 0); b->_vptr->unref(b); }
	while (fgets(line, sizeof(line), stdin)) {
		size_t a, b, c;
		int h, h2;
		if (line[0] == '#' || line[0] == '\n') {
			if (line[0] == '#') reset_all();
			fputs(line, stdout);
			continue;
		}
		drv_split(line);
		if (drv_nw < 2 || strcmp(drv_w[0], "r")) { puts("bad-op"); continue; }
		const char *op = drv_w[1];
		r_have = 0; r_final = 0;
		if (!strcmp(op, "handles") && drv_nw == 3) {
			if (drv_parse_nat(drv_w[2], &a) || a < 1 || a > NH) BAD;
			reset_all();
			nh = (int) a;
			heap0 = __sanitizer_get_current_allocated_bytes();
			RES("ok", "-");
			goto next;
		}
		if (!nh) BAD;
		if (!strcmp(op, "end") && drv_nw == 2) {
			drop_all();
			RES("ok", "-");
			r_final = 1;
			goto next;
		}
		if (drv_nw < 3 || (h = handle_arg(drv_w[2])) < 0) BAD;
		MPT_STRUCT(array) *arr = &H[h];

		if (!strcmp(op, "drop") && drv_nw == 3) {
			RES_INT(mpt_array_clone(arr, 0));
		}
		else if (!strcmp(op, "clone") && drv_nw == 4) {
			if ((h2 = handle_arg(drv_w[3])) < 0) BAD;
			RES_INT(mpt_array_clone(arr, &H[h2]));
		}
		else if (!strcmp(op, "leaf") && drv_nw == 4) {
			/* fresh array of k token elements */
			if (drv_parse_nat(drv_w[3], &a) || a < 1 || a > 16) BAD;
			mpt_array_clone(arr, 0);
			if (!mpt_array_reserve(arr, a * 4, &tr_tok)) { RES("refused", "null"); goto next; }
			RES_PTR(mpt_array_slice(arr, 0, a * 4));
		}
		else if (!strcmp(op, "wrap") && drv_nw == 3) {
			/* h becomes an array of arrays whose only element holds the former content of h */
			MPT_STRUCT(array) tmp = MPT_ARRAY_INIT, *el;
			if (!mpt_array_reserve(&tmp, sizeof(tmp), tr_arr)
			    || !(el = mpt_array_slice(&tmp, 0, sizeof(tmp)))) { mpt_array_clone(&tmp, 0); RES("refused", "null"); goto next; }
			mpt_array_clone(el, arr);
			mpt_array_clone(arr, 0);
			*arr = tmp;
			RES("ok", "-");
		}
		else if (!strcmp(op, "push") && drv_nw == 4) {
			/* append an element that shares the buffer of h2 to the array of arrays h */
			MPT_STRUCT(array) *el;
			if ((h2 = handle_arg(drv_w[3])) < 0) BAD;
			if (arr->_buf && arr->_buf->_content_traits != tr_arr) BAD;
			/* no cycles: the buffer of h must not be reachable from the new element */
			if (arr->_buf && H[h2]._buf && reaches(H[h2]._buf, arr->_buf, 0)) BAD;
			if (!arr->_buf && !mpt_array_reserve(arr, sizeof(*arr), tr_arr)) { RES("refused", "null"); goto next; }
			/* the source is copied before the buffer may move */
			MPT_STRUCT(array) src = H[h2];
			if (!(el = mpt_array_insert(arr, arr->_buf->_used, sizeof(*el)))) { RES("refused", "null"); goto next; }
			if (tr_arr->init(el, &src) < 0) { el->_buf = 0; RES("refused", "init"); goto next; }
			RES("ok", "-");
		}
		else if ((!strcmp(op, "take") && drv_nw == 4) || (!strcmp(op, "takeo") && drv_nw == 5)) {
			/* h = element i of the array of arrays held by h (take) / by h2 (takeo) */
			int from = h;
			const char *idx = drv_w[3];
			if (!strcmp(op, "takeo")) { if ((from = handle_arg(drv_w[3])) < 0) BAD; idx = drv_w[4]; }
			const MPT_STRUCT(buffer) *sb = H[from]._buf;
			if (!sb || sb->_content_traits != tr_arr || drv_parse_nat(idx, &a) || a >= count_of(sb)) BAD;
			RES_INT(mpt_array_clone(arr, ((const MPT_STRUCT(array) *) (sb + 1)) + a));
		}
		else if (!strcmp(op, "detach") && drv_nw == 3) {
			MPT_STRUCT(buffer) *r = arr->_buf ? arr->_buf->_vptr->detach(arr->_buf, arr->_buf->_used) : 0;
			if (r) arr->_buf = r;
			RES_PTR(r);
		}
		else if (!strcmp(op, "cut") && drv_nw == 4) {
			/* private copy, then removal of element i */
			size_t e = esize_of(arr->_buf);
			if (!e || drv_parse_nat(drv_w[3], &a) || a >= count_of(arr->_buf)) BAD;
			MPT_STRUCT(buffer) *r = arr->_buf->_vptr->detach(arr->_buf, arr->_buf->_used);
			if (!r) { RES("refused", "null"); goto next; }
			arr->_buf = r;
			{ long rr = mpt_buffer_cut(r, a * e, e); if (rr < 0) RES("refused", drv_errname(rr)); else RES("ok", "-"); }
		}
		else if (!strcmp(op, "set") && drv_nw == 7) {
			/* mpt_array_set(h, traits of h2's buffer, n elements starting at element j of h2, position i) */
			if ((h2 = handle_arg(drv_w[4])) < 0 || drv_parse_nat(drv_w[3], &a) || drv_parse_nat(drv_w[5], &b)
			    || drv_parse_nat(drv_w[6], &c) || !c || c > 8) BAD;
			const MPT_STRUCT(buffer) *sb = H[h2]._buf;
			size_t e = esize_of(sb);
			if (!sb || !e || sb == arr->_buf || b + c > count_of(sb)) BAD;
			if (arr->_buf && (arr->_buf->_content_traits != sb->_content_traits || a > count_of(arr->_buf))) BAD;
			if (!arr->_buf && a) BAD;
			RES_PTR(mpt_array_set(arr, sb->_content_traits, c * e, ((const uint8_t *) (sb + 1)) + b * e, (long) a));
		}
		else if (!strcmp(op, "selfset") && drv_nw == 4) {
			/* element i is assigned a copy of itself (the source is a second pointer to the same referent, held in a
			 * local copy of the element bytes): the referent must survive */
			uint8_t tmp[32];
			size_t e = esize_of(arr->_buf);
			if (!e || e > sizeof(tmp) || drv_parse_nat(drv_w[3], &a) || a >= count_of(arr->_buf)) BAD;
			memcpy(tmp, ((const uint8_t *) (arr->_buf + 1)) + a * e, e);
			RES_PTR(mpt_array_set(arr, arr->_buf->_content_traits, e, tmp, (long) a));
		}
		else if (!strcmp(op, "cfgcheck") && drv_nw == 4) {
			/* array of config items (mpt_config_item_traits): items own a name (on the heap from 12 bytes), children and
			 * are copied between slots, between buffers and onto themselves (source = the slot's own storage);
			 * every name / child buffer is released exactly once (sanitizers + heap count at the end) */
			const MPT_STRUCT(type_traits) *t = mpt_config_item_traits();
			MPT_STRUCT(array) x = MPT_ARRAY_INIT, y = MPT_ARRAY_INIT;
			MPT_STRUCT(config_item) *it;
			char *name;
			int bad = 0;
			(void) h;
			if (drv_parse_nat(drv_w[3], &a) || a > 1000) BAD;
			name = malloc(a + 2);
			memset(name, 'c', a + 1); name[a + 1] = 0;
			if (!mpt_array_set(&x, t, 3 * sizeof(*it), 0, 0)) bad = 1;
			else {
				it = (void *) (x._buf + 1);
				for (int i = 0; i < 3; i++) {
					if (!mpt_identifier_set(&it[i].identifier, name, (int) (a + (i & 1)))) bad = 2;
					if (!mpt_array_set((MPT_STRUCT(array) *) &it[i].elements, t, (size_t) (i + 1) * sizeof(*it), 0, 0)) bad = 3;
				}
				/* slot 0 from slot 2, then slot 1 and slot 2 from their own storage */
				if (!mpt_array_set(&x, t, sizeof(*it), &it[2], 0)) bad = 4;
				it = (void *) (x._buf + 1);
				if (!mpt_array_set(&x, t, sizeof(*it), &it[1], 1)) bad = 5;
				it = (void *) (x._buf + 1);
				if (!mpt_array_set(&x, t, sizeof(*it), &it[2], 2)) bad = 6;
				it = (void *) (x._buf + 1);
				if (!bad && mpt_identifier_compare(&it[0].identifier, name, (int) a)) bad = 7;
				/* private copy of everything, one element removed */
				mpt_array_clone(&y, &x);
				if (!mpt_array_slice(&y, 0, y._buf->_used)) bad = 8;
				else if (mpt_buffer_cut(y._buf, sizeof(*it), sizeof(*it)) < 0) bad = 9;
			}
			mpt_array_clone(&x, 0);
			mpt_array_clone(&y, 0);
			free(name);
			if (bad) mark_illegal("cfgitem", (unsigned) bad);
			RES("ok", "-");
		}
		else if (!strcmp(op, "identcheck") && drv_nw == 4) {
			/* arrays of identifiers (mpt_identifier_traits: names up to 11 bytes live in the element, longer ones on the
			 * heap): set from sources, shared + private copy, replace, cut, release; every copy must read the name of its
			 * source and every heap name is released exactly once (checked by the sanitizers and the heap count at the end) */
			const MPT_STRUCT(type_traits) *t = mpt_identifier_traits();
			MPT_STRUCT(identifier) src[3];
			MPT_STRUCT(array) x = MPT_ARRAY_INIT, y = MPT_ARRAY_INIT;
			char *name;
			int bad = 0;
			(void) h;
			if (drv_parse_nat(drv_w[3], &a) || a > 1000) BAD;
			name = malloc(a + 3);
			memset(name, 'i', a + 2); name[a + 2] = 0;
			for (int i = 0; i < 3; i++) { mpt_identifier_init(&src[i], sizeof(src[i])); if (!mpt_identifier_set(&src[i], name, (int) (a + i))) bad = 1; }
			if (!mpt_array_set(&x, t, sizeof(src), src, 0)) bad = 2;
			else {
				/* a source with a larger inline capacity than an element (its name may live inside the source but
				 * has to go to the heap in the element): element 1 is replaced by a copy of it, then restored */
				MPT_STRUCT(identifier) *big = mpt_identifier_new(a + 8);
				if (!big || !mpt_identifier_set(big, name, (int) (a + 1))) bad = 8;
				else if (!mpt_array_set(&x, t, sizeof(src[0]), big, 1)) bad = 9;
				else if (mpt_identifier_inequal(&((const MPT_STRUCT(identifier) *) (x._buf + 1))[1], big)
				      || mpt_identifier_inequal(&((const MPT_STRUCT(identifier) *) (x._buf + 1))[2], &src[2])) bad = 10;
				if (big) { mpt_identifier_set(big, 0, 0); free(big); }
				mpt_array_clone(&y, &x);
				if (!mpt_array_slice(&y, 0, y._buf->_used)) bad = 3;                 /* private copy of all three */
				else if (!mpt_array_set(&y, t, sizeof(src[0]), &src[2], 0)) bad = 4;  /* element 0 replaced */
				else if (mpt_buffer_cut(y._buf, sizeof(src[0]), sizeof(src[0])) < 0) bad = 5;
				else {
					const MPT_STRUCT(identifier) *ex = (void *) (x._buf + 1), *ey = (void *) (y._buf + 1);
					for (int i = 0; i < 3; i++) if (mpt_identifier_inequal(&ex[i], &src[i])) bad = 6;
					if (y._buf->_used != 2 * sizeof(src[0]) || mpt_identifier_inequal(&ey[0], &src[2]) || mpt_identifier_inequal(&ey[1], &src[2])) bad = 7;
				}
			}
			mpt_array_clone(&x, 0);
			mpt_array_clone(&y, 0);
			for (int i = 0; i < 3; i++) mpt_identifier_set(&src[i], 0, 0);
			free(name);
			if (bad) mark_illegal("ident", (unsigned) bad);
			RES("ok", "-");
		}
		else if (!strcmp(op, "selfrot") && drv_nw == 4) {
			/* the whole content is written back rotated by k elements: every source element is a second pointer to a
			 * referent whose only owner may be one of the replaced elements (the source is a copy of the element bytes) */
			const MPT_STRUCT(type_traits) *t = arr->_buf ? arr->_buf->_content_traits : 0;
			size_t e = esize_of(arr->_buf), n = count_of(arr->_buf);
			uint8_t *tmp;
			void *r;
			if (!n || n > 64 || (t != &tr_tok && t != tr_arr && t != tr_meta) || drv_parse_nat(drv_w[3], &a) || a > 1000) BAD;
			tmp = malloc(n * e);
			for (size_t i = 0; i < n; i++) memcpy(tmp + i * e, ((const uint8_t *) (arr->_buf + 1)) + ((i + a) % n) * e, e);
			r = mpt_array_set(arr, t, n * e, tmp, 0);
			free(tmp);
			RES_PTR(r);
		}
		else if (!strcmp(op, "sput") && drv_nw == 5) {
			/* the array of h as the dimensions of a raw data stage: val = mpt_stage_data(stage, dim), then one more
			 * value in that dimension (mpt_values_prepare on the array inside the returned element) */
			MPT_STRUCT(rawdata_stage) st = MPT_RAWDATA_STAGE_INIT;
			MPT_STRUCT(value_store) *val;
			double *dst;
			if (drv_parse_nat(drv_w[3], &a) || a > 6 || drv_parse_nat(drv_w[4], &b) || b > 99) BAD;
			st._d = *arr;
			val = mpt_stage_data(&st, (unsigned) a);
			*arr = st._d;
			if (!val) { RES("refused", "null"); goto next; }
			if (!(dst = mpt_values_prepare(&val->_d, 1))) { RES("refused", "prepare"); goto next; }
			*dst = (double) b;
			RES("ok", "-");
		}
		else if (!strcmp(op, "mnew") && drv_nw == 5) {
			/* fresh array of k references to new metatype instances (sharable: s = 1) */
			if (drv_parse_nat(drv_w[3], &a) || a > 64 || drv_parse_nat(drv_w[4], &b) || b > 1) BAD;
			mpt_array_clone(arr, 0);
			if (!mpt_array_reserve(arr, a * sizeof(void *), tr_meta)) { RES("refused", "null"); goto next; }
			for (size_t i = 0; i < a; i++) {
				void **el = mpt_array_insert(arr, arr->_buf->_used, sizeof(void *));
				if (!el) { RES("refused", "null"); goto next; }
				*el = obj_new((int) b);
			}
			RES("ok", "-");
		}
		else if (!strcmp(op, "madd") && drv_nw == 4) {
			/* append a reference to a new instance to the array of references h */
			if (drv_parse_nat(drv_w[3], &b) || b > 1) BAD;
			if (arr->_buf && arr->_buf->_content_traits != tr_meta) BAD;
			if (!arr->_buf && !mpt_array_reserve(arr, sizeof(void *), tr_meta)) { RES("refused", "null"); goto next; }
			void **el = mpt_array_insert(arr, arr->_buf->_used, sizeof(void *));
			if (!el) { RES("refused", "null"); goto next; }
			*el = obj_new((int) b);
			RES("ok", "-");
		}
		else BAD;
next:
		if (r_have) { r_have = 0; put_state(r_verdict, r_ret, r_final); }
	}
	reset_all();
	return 0;
}
