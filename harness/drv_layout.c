/* line-protocol driver: mptplot/layout property setters/getters (C20).
 * Calls the real mpt_<kind>_set / mpt_<kind>_get / mpt_object_set_string / mpt_color_parse in-process.
 *
 *   y begin                         first line of every script: all objects are dropped
 *   y new <kind>                      kind = axis|line|text|graph|world; objects are numbered 0,1,.. in creation order
 *   y set <k> <name> <hex|null|nullstr>   text value through mpt_object_set_string (null: set_property(name, 0),
 *                                     nullstr: mpt_object_set_string with val = NULL)
 *   y setv <k> <name> <t> <num>       typed value through mpt_object_set_value: t = y n u i c f d (number as decimal text)
 *   y get <k> <name>                  mpt_<kind>_get by name
 *   y reset <k>                       mpt_<kind>_set(obj, "", 0)
 *   y copy <k> <j>                    mpt_<kind>_set(obj k, "", <convertable yielding object j>)
 *   y dump <k>
 *   y colour <hex>                    mpt_color_parse
 * names: literal word, or x:<hex> (names with blanks)
 */
#include "drv_util.h"
#include <errno.h>
#include <sys/uio.h>
#include <math.h>
#include <stddef.h>
#include "types.h"
#include "object.h"
#include "values.h"
#include "layout.h"

/* allocation failure injection (harness link: -Wl,--wrap=realloc,--wrap=strdup): armed only around a call into the
 * library; the fail_alloc-th realloc/strdup of that call fails */
static int fail_pending, fail_alloc;
extern void *__real_realloc(void *, size_t);
extern char *__real_strdup(const char *);
void *__wrap_realloc(void *p, size_t n)
{
	if (fail_alloc > 0 && !--fail_alloc) return 0;
	return __real_realloc(p, n);
}
char *__wrap_strdup(const char *s)
{
	if (fail_alloc > 0 && !--fail_alloc) return 0;
	return __real_strdup(s);
}
static void fail_arm(void) { fail_alloc = fail_pending; fail_pending = 0; }
static void fail_disarm(void) { fail_alloc = 0; }

enum { K_AXIS, K_LINE, K_TEXT, K_GRAPH, K_WORLD, K_COUNT };
static const char *kind_names[] = { "axis", "line", "text", "graph", "world" };

#define MAXOBJ 8
struct obj {
	MPT_INTERFACE(object) _obj;   /* harness-implemented object interface around the plain struct */
	int kind;
	void *data;
};
static struct obj objs[MAXOBJ];
static int nobj;

static int kind_set(int kind, void *d, const char *name, MPT_INTERFACE(convertable) *src)
{
	switch (kind) {
	case K_AXIS:  return mpt_axis_set(d, name, src);
	case K_LINE:  return mpt_line_set(d, name, src);
	case K_TEXT:  return mpt_text_set(d, name, src);
	case K_GRAPH: return mpt_graph_set(d, name, src);
	default:      return mpt_world_set(d, name, src);
	}
}
static int kind_get(int kind, const void *d, MPT_STRUCT(property) *pr)
{
	switch (kind) {
	case K_AXIS:  return mpt_axis_get(d, pr);
	case K_LINE:  return mpt_line_get(d, pr);
	case K_TEXT:  return mpt_text_get(d, pr);
	case K_GRAPH: return mpt_graph_get(d, pr);
	default:      return mpt_world_get(d, pr);
	}
}
static size_t kind_size(int kind)
{
	switch (kind) {
	case K_AXIS:  return sizeof(MPT_STRUCT(axis));
	case K_LINE:  return sizeof(MPT_STRUCT(line));
	case K_TEXT:  return sizeof(MPT_STRUCT(text));
	case K_GRAPH: return sizeof(MPT_STRUCT(graph));
	default:      return sizeof(MPT_STRUCT(world));
	}
}
static void kind_init(int kind, void *d)
{
	switch (kind) {
	case K_AXIS:  mpt_axis_init(d, 0); break;
	case K_LINE:  mpt_line_init(d); break;
	case K_TEXT:  mpt_text_init(d, 0); break;
	case K_GRAPH: mpt_graph_init(d, 0); break;
	default:      mpt_world_init(d, 0); break;
	}
}
static void kind_fini(int kind, void *d)
{
	switch (kind) {
	case K_AXIS:  mpt_axis_fini(d); break;
	case K_LINE:  break;
	case K_TEXT:  mpt_text_fini(d); break;
	case K_GRAPH: mpt_graph_fini(d); break;
	default:      mpt_world_fini(d); break;
	}
}
/* the type a sibling copy asks the source for */
static int kind_typeid(int kind)
{
	switch (kind) {
	case K_AXIS:  return mpt_axis_pointer_typeid();
	case K_LINE:  return mpt_line_typeid();
	case K_TEXT:  return mpt_text_pointer_typeid();
	case K_GRAPH: return mpt_graph_pointer_typeid();
	default:      return mpt_world_pointer_typeid();
	}
}

/* object interface of the harness objects */
static int obj_property(const MPT_INTERFACE(object) *o, MPT_STRUCT(property) *pr)
{
	const struct obj *ob = (const struct obj *) o;
	return kind_get(ob->kind, ob->data, pr);
}
static int obj_set_property(MPT_INTERFACE(object) *o, const char *name, MPT_INTERFACE(convertable) *src)
{
	struct obj *ob = (struct obj *) o;
	return kind_set(ob->kind, ob->data, name, src);
}
static const MPT_INTERFACE_VPTR(object) obj_ctl = { obj_property, obj_set_property };

/* convertable that hands out harness object j (pointer kinds: the address; line: the value) */
struct src_conv {
	MPT_INTERFACE(convertable) _conv;
	struct obj *from;
};
static int src_convert(MPT_INTERFACE(convertable) *c, MPT_TYPE(type) type, void *dest)
{
	struct src_conv *s = (struct src_conv *) c;
	int id = kind_typeid(s->from->kind);
	if (!type || id <= 0 || type != (MPT_TYPE(type)) id) {
		return MPT_ERROR(BadType);
	}
	if (dest) {
		if (s->from->kind == K_LINE) memmove(dest, s->from->data, sizeof(MPT_STRUCT(line)));
		else *((void **) dest) = s->from->data;
	}
	return id;
}
static const MPT_INTERFACE_VPTR(convertable) src_ctl = { src_convert };

/* exact text for a finite binary floating point number: <odd mantissa>p<exponent>, 0, inf, -inf, nan */
static void put_float(double v)
{
	int e;
	double m;
	long long im;
	if (isnan(v)) { fputs("nan", stdout); return; }
	if (isinf(v)) { fputs(v < 0 ? "-inf" : "inf", stdout); return; }
	if (v == 0) { fputs("0", stdout); return; }
	m = frexp(v, &e);
	im = (long long) ldexp(m, 53);
	e -= 53;
	while (!(im & 1)) { im /= 2; ++e; }
	printf("%lldp%d", im, e);
}
static void put_value(const MPT_STRUCT(value) *val)
{
	MPT_TYPE(type) t = val->_type;
	const void *a = val->_addr;
	if (!a) { printf("noaddr:%lu", (unsigned long) t); return; }
	if (t == 's') {
		const char *s = *(const char * const *) a;
		if (!s) fputs("s:null", stdout);
		else { fputs("s:", stdout); drv_puthex(stdout, (const uint8_t *) s, strlen(s)); }
	}
	else if (t == 'd') { fputs("f:", stdout); put_float(*(const double *) a); }
	else if (t == 'f') { fputs("f:", stdout); put_float(*(const float *) a); }
	else if (t == 'y') printf("i:%u", (unsigned) *(const uint8_t *) a);
	else if (t == 'n') printf("i:%d", (int) *(const int16_t *) a);
	else if (t == 'u') printf("i:%lu", (unsigned long) *(const uint32_t *) a);
	else if (t == 'c') printf("c:%u", (unsigned) *(const uint8_t *) a);
	else if ((int) t == mpt_color_typeid() && mpt_color_typeid() > 0) {
		const MPT_STRUCT(color) *c = a;
		printf("col:%02x%02x%02x%02x", c->red, c->green, c->blue, c->alpha);
	}
	else if ((int) t == mpt_fpoint_typeid() && mpt_fpoint_typeid() > 0) {
		const MPT_STRUCT(fpoint) *p = a;
		fputs("pt:", stdout); put_float(p->x); fputc(',', stdout); put_float(p->y);
	}
	else printf("type?:%ld", (long) t);
}
/* convertable that answers the type 's' only (no character vector) */
struct str_conv {
	MPT_INTERFACE(convertable) _conv;
	const char *txt;
};
static int str_convert(MPT_INTERFACE(convertable) *c, MPT_TYPE(type) type, void *dest)
{
	struct str_conv *s = (struct str_conv *) c;
	if (!type) {
		static const uint8_t fmt[] = { 's', 0 };
		if (dest) *((const uint8_t **) dest) = fmt;
		return 's';
	}
	if (type != 's') return MPT_ERROR(BadType);
	if (dest) *((const char **) dest) = s->txt;
	return 's';
}
static const MPT_INTERFACE_VPTR(convertable) str_ctl = { str_convert };

/* convertable that offers a counted character vector (a slice: iov_len need not be the length up to the NUL) */
struct vec_conv {
	MPT_INTERFACE(convertable) _conv;
	const char *txt;
	size_t len;
};
static int vec_convert(MPT_INTERFACE(convertable) *c, MPT_TYPE(type) type, void *dest)
{
	struct vec_conv *s = (struct vec_conv *) c;
	if (!type) {
		static const uint8_t fmt[] = { MPT_type_toVector('c'), 0 };
		if (dest) *((const uint8_t **) dest) = fmt;
		return MPT_type_toVector('c');
	}
	if (type != MPT_type_toVector('c')) return MPT_ERROR(BadType);
	if (dest) { ((struct iovec *) dest)->iov_base = (void *) s->txt; ((struct iovec *) dest)->iov_len = s->len; }
	return MPT_type_toVector('c');
}
static const MPT_INTERFACE_VPTR(convertable) vec_ctl = { vec_convert };

/* convertable that has exactly one type and no value */
struct none_conv {
	MPT_INTERFACE(convertable) _conv;
	int tid;
};
static int none_convert(MPT_INTERFACE(convertable) *c, MPT_TYPE(type) type, void *dest)
{
	struct none_conv *s = (struct none_conv *) c;
	(void) dest;
	if (type && (int) type == s->tid) return 0;
	return MPT_ERROR(BadType);
}
static const MPT_INTERFACE_VPTR(convertable) none_ctl = { none_convert };

/* every listed property by position */
static void put_dump(const struct obj *ob)
{
	int pos, any = 0;
	for (pos = 0; pos < 64; pos++) {
		MPT_STRUCT(property) pr = MPT_PROPERTY_INIT;
		int ret;
		pr.name = 0;
		pr.desc = (const char *) (intptr_t) pos;
		if ((ret = kind_get(ob->kind, ob->data, &pr)) < 0) {
			if (ret == MPT_ERROR(BadArgument)) break;
			printf("%s#%d=err:%s", any ? " " : "", pos, drv_errname(ret));
			any = 1;
			continue;
		}
		printf("%s%s=", any ? " " : "", pr.name ? pr.name : "?");
		put_value(&pr.val);
		any = 1;
	}
	/* member without a listed property: the style/limit bits of an axis (all of `format` but the log flag) */
	if (ob->kind == K_AXIS) {
		const MPT_STRUCT(axis) *ax = ob->data;
		printf("%s~format=i:%d", any ? " " : "", ax->format & ~MPT_ENUM(TransformLg));
		any = 1;
	}
	if (!any) fputc('-', stdout);
}
static void result_s(const char *r, const struct obj *ob, const char *ret)
{
	printf("R %s | C ", r);
	if (ob) put_dump(ob); else fputc('-', stdout);
	printf(" | I ret=%s\n", ret);
}
static void result(const char *r, const struct obj *ob, long ret)
{
	char buf[32];
	if (ret < 0) { result_s(r, ob, drv_errname(ret)); return; }
	snprintf(buf, sizeof(buf), "%ld", ret);
	result_s(r, ob, buf);
}
/* name operand: literal or x:<hex>; returns malloc'ed string or NULL */
static char *parse_name(const char *w)
{
	uint8_t *b; size_t n; int isnull;
	char *s;
	if (strncmp(w, "x:", 2)) return strdup(w);
	if (drv_parse_data(w + 2, &b, &n, &isnull) || isnull) return 0;
	if (memchr(b, 0, n)) { free(b); return 0; }
	s = malloc(n + 1);
	memcpy(s, b, n); s[n] = 0;
	free(b);
	return s;
}
static struct obj *parse_obj(const char *w)
{
	size_t k;
	if (drv_parse_nat(w, &k) || k >= (size_t) nobj) return 0;
	return &objs[k];
}
/* 1 if some string of `a` is the same allocation as a string of `b` */
static int shares_string(const struct obj *a, const struct obj *b)
{
	if (a == b || a->kind != b->kind) return 0;
	switch (a->kind) {
	case K_AXIS: { const MPT_STRUCT(axis) *x = a->data, *y = b->data; return x->_title && x->_title == y->_title; }
	case K_TEXT: { const MPT_STRUCT(text) *x = a->data, *y = b->data;
		return (x->_value && x->_value == y->_value) || (x->_font && x->_font == y->_font); }
	case K_GRAPH: { const MPT_STRUCT(graph) *x = a->data, *y = b->data;
		return (x->_axes && x->_axes == y->_axes) || (x->_worlds && x->_worlds == y->_worlds); }
	case K_WORLD: { const MPT_STRUCT(world) *x = a->data, *y = b->data; return x->_alias && x->_alias == y->_alias; }
	default: return 0;
	}
}

int main(void)
{
	static char line[1 << 16];
	drv_init();
	while (fgets(line, sizeof(line), stdin)) {
		if (line[0] == '#' || line[0] == '\n') {
			fputs(line, stdout);
			continue;
		}
		drv_split(line);
		if (drv_nw < 2 || strcmp(drv_w[0], "y")) { puts("bad-op"); continue; }
		const char *op = drv_w[1];
		if (!strcmp(op, "begin") && drv_nw == 2) {
			/* start of a script: forget all objects */
			for (int i = 0; i < nobj; i++) { kind_fini(objs[i].kind, objs[i].data); free(objs[i].data); }
			nobj = 0;
			fail_pending = 0;
			result("ok", 0, 0);
		}
		else if (!strcmp(op, "new") && drv_nw == 3) {
			int kind;
			for (kind = 0; kind < K_COUNT; kind++) if (!strcmp(drv_w[2], kind_names[kind])) break;
			if (kind == K_COUNT || nobj >= MAXOBJ) { puts("bad-op"); continue; }
			struct obj *ob = &objs[nobj];
			ob->_obj._vptr = &obj_ctl;
			ob->kind = kind;
			ob->data = malloc(kind_size(kind));
			memset(ob->data, 0xbe, kind_size(kind));
			kind_init(kind, ob->data);
			char buf[32];
			snprintf(buf, sizeof(buf), "ok k=%d", nobj++);
			result(buf, ob, 0);
		}
		else if (!strcmp(op, "newf") && drv_nw == 4) {
			/* an axis with style/limit bits as the C++ layer (axis::axis(AxisFlags)) creates it */
			size_t fl;
			struct obj *ob;
			char buf[32];
			if (strcmp(drv_w[2], "axis") || drv_parse_nat(drv_w[3], &fl) || fl > 31 || nobj >= MAXOBJ) { puts("bad-op"); continue; }
			ob = &objs[nobj];
			ob->_obj._vptr = &obj_ctl;
			ob->kind = K_AXIS;
			ob->data = malloc(kind_size(K_AXIS));
			memset(ob->data, 0xbe, kind_size(K_AXIS));
			kind_init(K_AXIS, ob->data);
			((MPT_STRUCT(axis) *) ob->data)->format = fl;
			snprintf(buf, sizeof(buf), "ok k=%d", nobj++);
			result(buf, ob, 0);
		}
		else if (!strcmp(op, "fail") && drv_nw == 3) {
			size_t n;
			if (drv_parse_nat(drv_w[2], &n) || n < 1 || n > 4) { puts("bad-op"); continue; }
			fail_pending = n;
			result("ok", 0, 0);
		}
		else if (!strcmp(op, "setvec") && drv_nw == 6) {
			/* a counted character vector: the first <n> characters of the text (the text goes on behind them) */
			struct obj *ob = parse_obj(drv_w[2]);
			char *name = parse_name(drv_w[3]);
			uint8_t *dat = 0; size_t dlen = 0, n = 0; int isnull = 0, ret;
			struct vec_conv vc;
			char *val;
			if (!ob || !name || !*name || drv_parse_data(drv_w[4], &dat, &dlen, &isnull) || isnull || memchr(dat, 0, dlen)
			    || drv_parse_nat(drv_w[5], &n) || n > dlen) {
				puts("bad-op"); free(name); free(dat); continue;
			}
			val = malloc(dlen + 1);
			memcpy(val, dat, dlen); val[dlen] = 0;
			vc._conv._vptr = &vec_ctl;
			vc.txt = val;
			vc.len = n;
			fail_arm();
			ret = kind_set(ob->kind, ob->data, name, &vc._conv);
			fail_disarm();
			free(val); free(dat); free(name);
			result(ret < 0 ? "refused" : "ok", ob, ret);
		}
		else if (!strcmp(op, "sets") && drv_nw == 5) {
			struct obj *ob = parse_obj(drv_w[2]);
			char *name = parse_name(drv_w[3]);
			uint8_t *dat = 0; size_t dlen = 0; int isnull = 0, ret;
			struct str_conv sc;
			char *val;
			if (!ob || !name || !*name || drv_parse_data(drv_w[4], &dat, &dlen, &isnull) || isnull || memchr(dat, 0, dlen)) {
				puts("bad-op"); free(name); free(dat); continue;
			}
			val = malloc(dlen + 1);
			memcpy(val, dat, dlen); val[dlen] = 0;
			sc._conv._vptr = &str_ctl;
			sc.txt = val;
			fail_arm();
			ret = kind_set(ob->kind, ob->data, name, &sc._conv);
			fail_disarm();
			free(val); free(dat); free(name);
			result(ret < 0 ? "refused" : "ok", ob, ret);
		}
		else if (!strcmp(op, "auto") && drv_nw == 4) {
			/* no property name (NULL): the value is assigned by its type */
			struct obj *ob = parse_obj(drv_w[2]);
			uint8_t *dat = 0; size_t dlen = 0; int isnull = 0, ret;
			if (!ob) { puts("bad-op"); continue; }
			if (!strcmp(drv_w[3], "null")) ret = ob->_obj._vptr->set_property(&ob->_obj, 0, 0);
			else if (!strcmp(drv_w[3], "nullstr")) ret = mpt_object_set_string(&ob->_obj, 0, 0, 0);
			else {
				char *val;
				if (drv_parse_data(drv_w[3], &dat, &dlen, &isnull) || isnull || memchr(dat, 0, dlen)) { puts("bad-op"); free(dat); continue; }
				val = malloc(dlen + 1);
				memcpy(val, dat, dlen); val[dlen] = 0;
				ret = mpt_object_set_string(&ob->_obj, 0, val, 0);
				free(val); free(dat);
			}
			result(ret < 0 ? "refused" : "ok", ob, ret);
		}
		else if (!strcmp(op, "autonone") && drv_nw == 4) {
			/* no name, a source that answers exactly one type (colour / line attributes) with "no value" */
			struct obj *ob = parse_obj(drv_w[2]);
			struct none_conv nc;
			int ret;
			if (!ob || (strcmp(drv_w[3], "colour") && strcmp(drv_w[3], "lattr"))) { puts("bad-op"); continue; }
			nc._conv._vptr = &none_ctl;
			nc.tid = drv_w[3][0] == 'c' ? mpt_color_typeid() : mpt_lattr_typeid();
			if (nc.tid <= 0) { puts("bad-op"); continue; }
			ret = kind_set(ob->kind, ob->data, 0, &nc._conv);
			result(ret < 0 ? "refused" : "ok", ob, ret);
		}
		else if (!strcmp(op, "autocopy") && drv_nw == 4) {
			struct obj *ob = parse_obj(drv_w[2]), *from = parse_obj(drv_w[3]);
			struct src_conv sc;
			int ret;
			if (!ob || !from || ob->kind == K_LINE) { puts("bad-op"); continue; }
			sc._conv._vptr = &src_ctl;
			sc.from = from;
			ret = kind_set(ob->kind, ob->data, 0, &sc._conv);
			if (ret < 0) result("refused", ob, ret);
			else result_s(shares_string(ob, from) ? "ok owns=0" : "ok owns=1", ob, "ok");
		}
		else if (!strcmp(op, "setp") && drv_nw == 5) {
			/* mpt_object_set_property(): the property comes as identifier (as from a configuration node), the value
			 * as a convertable that yields text */
			struct obj *ob = parse_obj(drv_w[2]);
			char *name = parse_name(drv_w[3]);
			uint8_t *dat = 0; size_t dlen = 0; int isnull = 0, ret;
			struct str_conv sc;
			MPT_STRUCT(identifier) id;
			char *val;
			if (!ob || !name || !*name || drv_parse_data(drv_w[4], &dat, &dlen, &isnull) || isnull || memchr(dat, 0, dlen)) {
				puts("bad-op"); free(name); free(dat); continue;
			}
			val = malloc(dlen + 1);
			memcpy(val, dat, dlen); val[dlen] = 0;
			sc._conv._vptr = &str_ctl;
			sc.txt = val;
			mpt_identifier_init(&id, sizeof(id));
			if (!mpt_identifier_set(&id, name, -1)) { puts("bad-op"); free(val); free(dat); free(name); continue; }
			ret = mpt_object_set_property(&ob->_obj, MPT_ENUM(TraverseChange) | MPT_ENUM(TraverseDefault) | MPT_ENUM(TraverseEmpty), &id, &sc._conv);
			mpt_identifier_set(&id, 0, 0);
			free(val); free(dat); free(name);
			result(ret < 0 ? "refused" : "ok", ob, ret);
		}
		else if (!strcmp(op, "lattr") && drv_nw == 7) {
			/* mpt_lattr_set(attr, width, style, symbol, size) on the line attributes of a line or world; -1 = default */
			struct obj *ob = parse_obj(drv_w[2]);
			int v[4], ret, bad = 0;
			for (int i = 0; i < 4; i++) {
				char *end = 0;
				long x = strtol(drv_w[3 + i], &end, 10);
				if (!end || *end || end == drv_w[3 + i] || x < -1 || x > 300) bad = 1;
				v[i] = (int) x;
			}
			if (!ob || bad || (ob->kind != K_LINE && ob->kind != K_WORLD)) { puts("bad-op"); continue; }
			ret = mpt_lattr_set(ob->kind == K_LINE ? &((MPT_STRUCT(line) *) ob->data)->attr : &((MPT_STRUCT(world) *) ob->data)->attr,
			                    v[0], v[1], v[2], v[3]);
			result(ret < 0 ? "refused" : "ok", ob, ret);
		}
		else if (!strcmp(op, "set") && drv_nw == 5) {
			struct obj *ob = parse_obj(drv_w[2]);
			char *name = parse_name(drv_w[3]);
			uint8_t *dat = 0; size_t dlen = 0; int isnull = 0, ret;
			/* the empty name (x:-) is the "assign from sibling" form: text sources carry no sibling */
			if (!ob || !name) { puts("bad-op"); free(name); continue; }
			if (!strcmp(drv_w[4], "null")) {
				fail_arm();
				ret = ob->_obj._vptr->set_property(&ob->_obj, name, 0);
				fail_disarm();
			}
			else if (!strcmp(drv_w[4], "nullstr")) {
				fail_arm();
				ret = mpt_object_set_string(&ob->_obj, name, 0, 0);
				fail_disarm();
			}
			else {
				if (drv_parse_data(drv_w[4], &dat, &dlen, &isnull) || isnull || memchr(dat, 0, dlen)) {
					puts("bad-op"); free(name); free(dat); continue;
				}
				char *val = malloc(dlen + 1);
				memcpy(val, dat, dlen); val[dlen] = 0;
				fail_arm();
				ret = mpt_object_set_string(&ob->_obj, name, val, 0);
				fail_disarm();
				free(val);
				free(dat);
			}
			free(name);
			result(ret < 0 ? "refused" : "ok", ob, ret);
		}
		else if (!strcmp(op, "setv") && drv_nw == 6) {
			struct obj *ob = parse_obj(drv_w[2]);
			char *name = parse_name(drv_w[3]), *end = 0;
			union { uint8_t y; int16_t n; uint32_t u; int32_t i; char c; float f; double d; } st;
			MPT_STRUCT(value) val;
			int ret, t = drv_w[4][0];
			double num;
			if (!ob || !name || !*name || drv_w[4][1]) { puts("bad-op"); free(name); continue; }
			num = strtod(drv_w[5], &end);
			if (!end || *end || end == drv_w[5]) { puts("bad-op"); free(name); continue; }
			switch (t) {
			  case 'y': st.y = (uint8_t) num; break;
			  case 'n': st.n = (int16_t) num; break;
			  case 'u': st.u = (uint32_t) num; break;
			  case 'i': st.i = (int32_t) num; break;
			  case 'c': st.c = (char) num; break;
			  case 'f': st.f = (float) num; break;
			  case 'd': st.d = num; break;
			  default: t = 0;
			}
			if (!t) { puts("bad-op"); free(name); continue; }
			MPT_value_set(&val, t, &st);
			ret = mpt_object_set_value(&ob->_obj, name, &val);
			free(name);
			result(ret < 0 ? "refused" : "ok", ob, ret);
		}
		else if (!strcmp(op, "get") && drv_nw == 4) {
			struct obj *ob = parse_obj(drv_w[2]);
			char *name = parse_name(drv_w[3]);
			MPT_STRUCT(property) pr = MPT_PROPERTY_INIT;
			int ret;
			if (!ob || !name || !*name) { puts("bad-op"); free(name); continue; }
			pr.name = name;
			ret = kind_get(ob->kind, ob->data, &pr);
			if (ret < 0) result_s("refused", ob, "err");
			else {
				printf("R ok %s=", pr.name ? pr.name : "?");
				put_value(&pr.val);
				fputs(" | C ", stdout);
				put_dump(ob);
				printf(" | I ret=ok\n");
			}
			free(name);
		}
		else if (!strcmp(op, "whole") && drv_nw == 3) {
			/* the empty name: description of the whole object, result says whether it differs from the defaults;
			 * no property argument: the type id of the kind */
			struct obj *ob = parse_obj(drv_w[2]);
			MPT_STRUCT(property) pr = MPT_PROPERTY_INIT;
			int ret, tid;
			if (!ob) { puts("bad-op"); continue; }
			pr.name = "";
			ret = kind_get(ob->kind, ob->data, &pr);
			tid = kind_get(ob->kind, ob->data, 0);
			if (ret < 0 || tid <= 0) result_s("refused", ob, "err");
			else {
				/* the result (object differs from the defaults) is a memcmp over the struct including its padding:
				 * not reported, it depends on the bytes the memory held before mpt_<kind>_init() */
				printf("R ok %s | C ", pr.name ? pr.name : "?");
				put_dump(ob);
				printf(" | I ret=ok\n");
			}
		}
		else if (!strcmp(op, "reset") && drv_nw == 3) {
			struct obj *ob = parse_obj(drv_w[2]);
			int ret;
			if (!ob) { puts("bad-op"); continue; }
			ret = kind_set(ob->kind, ob->data, "", 0);
			result(ret < 0 ? "refused" : "ok", ob, ret);
		}
		else if (!strcmp(op, "copy") && drv_nw == 4) {
			struct obj *ob = parse_obj(drv_w[2]), *from = parse_obj(drv_w[3]);
			struct src_conv sc;
			int ret;
			if (!ob || !from) { puts("bad-op"); continue; }
			sc._conv._vptr = &src_ctl;
			sc.from = from;
			fail_arm();
			ret = kind_set(ob->kind, ob->data, "", &sc._conv);
			fail_disarm();
			if (ret < 0) result("refused", ob, ret);
			else result_s(shares_string(ob, from) ? "ok owns=0" : "ok owns=1", ob, "ok");
		}
		else if (!strcmp(op, "dump") && drv_nw == 3) {
			struct obj *ob = parse_obj(drv_w[2]);
			if (!ob) { puts("bad-op"); continue; }
			result("ok", ob, 0);
		}
		else if (!strcmp(op, "colour") && drv_nw == 3) {
			uint8_t *dat = 0; size_t dlen = 0; int isnull = 0, ret;
			MPT_STRUCT(color) c = { 1, 2, 3, 4 };
			if (drv_parse_data(drv_w[2], &dat, &dlen, &isnull) || isnull || memchr(dat, 0, dlen)) {
				puts("bad-op"); free(dat); continue;
			}
			char *val = malloc(dlen + 1);
			memcpy(val, dat, dlen); val[dlen] = 0;
			ret = mpt_color_parse(&c, val);
			free(val); free(dat);
			if (ret < 0) printf("R refused | C - | I ret=err\n");
			else printf("R ok col:%02x%02x%02x%02x | C - | I ret=%d\n", c.red, c.green, c.blue, c.alpha, ret);
		}
		else puts("bad-op");
	}
	for (int i = 0; i < nobj; i++) { kind_fini(objs[i].kind, objs[i].data); free(objs[i].data); }
	return 0;
}
