/* line-protocol driver: the C++ side of the layout colours (C20): mpt++/color.cpp operator<< is the only place
 * where a colour value is turned into text.
 *   z begin
 *   z print <rrggbbaa>       colour value -> operator<< -> text; the text -> mpt_color_parse -> colour
 *   z reprint <hex text>     text -> mpt_color_parse -> colour -> operator<< -> text -> mpt_color_parse
 */
extern "C" {
#include "drv_util.h"
}
#include <sstream>
#include <string>
#include "layout.h"

static void put_col(const mpt::color &c)
{
	printf("col:%02x%02x%02x%02x", c.red, c.green, c.blue, c.alpha);
}
/* R ok text=<hex> back=<colour | refused> */
static void print_and_parse(const mpt::color &c)
{
	std::ostringstream os;
	os << c;
	std::string t = os.str();
	mpt::color back(1, 2, 3, 4);
	int ret = mpt_color_parse(&back, t.c_str());
	printf("R ok text=");
	drv_puthex(stdout, (const uint8_t *) t.data(), t.size());
	printf(" back=");
	if (ret < 0) fputs("refused", stdout); else put_col(back);
	printf(" | C - | I ret=0\n");
}
int main(void)
{
	static char line[4096];
	drv_init();
	while (fgets(line, sizeof(line), stdin)) {
		if (line[0] == '#' || line[0] == '\n') { fputs(line, stdout); continue; }
		drv_split(line);
		if (drv_nw < 2 || strcmp(drv_w[0], "z")) { puts("bad-op"); continue; }
		const char *op = drv_w[1];
		uint8_t *dat = 0; size_t dlen = 0; int isnull = 0;
		if (!strcmp(op, "begin") && drv_nw == 2) {
			printf("R ok | C - | I ret=0\n");
		}
		else if (!strcmp(op, "print") && drv_nw == 3) {
			if (drv_parse_data(drv_w[2], &dat, &dlen, &isnull) || isnull || dlen != 4) { puts("bad-op"); free(dat); continue; }
			mpt::color c(dat[0], dat[1], dat[2], dat[3]);
			free(dat);
			print_and_parse(c);
		}
		else if (!strcmp(op, "reprint") && drv_nw == 3) {
			if (drv_parse_data(drv_w[2], &dat, &dlen, &isnull) || isnull || memchr(dat, 0, dlen)) { puts("bad-op"); free(dat); continue; }
			std::string t((const char *) dat, dlen);
			free(dat);
			mpt::color c(1, 2, 3, 4);
			if (mpt_color_parse(&c, t.c_str()) < 0) { printf("R refused | C - | I ret=0\n"); continue; }
			print_and_parse(c);
		}
		else puts("bad-op");
	}
	return 0;
}
