/* line-protocol driver: C++ value sources of mptcore/types.h (C19) — mpt::source<T> over an array of integers
 * with positive and negative steps.  Ops: xs new <step> <v,v,...> | xs value | xs advance | xs reset */
extern "C" {
#include "drv_util.h"
}
#include <vector>
#include "types.h"
#include "convert.h"

using namespace mpt;

int main(void)
{
	static char line[1 << 16];
	std::vector<int> data;
	source<int> *src = 0;
	drv_init();
	while (fgets(line, sizeof(line), stdin)) {
		if (line[0] == '#' || line[0] == '\n') { fputs(line, stdout); continue; }
		drv_split(line);
		if (drv_nw < 2 || strcmp(drv_w[0], "xs")) { puts("bad-op"); continue; }
		const char *op = drv_w[1];
		if (!strcmp(op, "new") && drv_nw == 4) {
			long step = strtol(drv_w[2], 0, 10);
			if (step < -8 || step > 8 || !step) { puts("bad-op"); continue; }
			delete src; src = 0;
			data.clear();
			bool bad = false;
			for (char *p = drv_w[3]; *p; ) {
				char *e;
				long v = strtol(p, &e, 10);
				if (e == p || v < -1000 || v > 1000) { bad = true; break; }
				data.push_back((int) v);
				if (*e == ',') ++e; else if (*e) { bad = true; break; }
				p = e;
			}
			if (bad || data.empty() || data.size() > 64) { puts("bad-op"); continue; }
			data.shrink_to_fit();
			src = new source<int>(data.data(), (long) data.size(), (int) step);
			puts("R ok | C - | I -");
		}
		else if (!src) puts("bad-op");
		else if (!strcmp(op, "value") && drv_nw == 2) {
			const struct value *v = src->value();
			int iv = 0;
			if (!v) puts("R null | C - | I -");
			else if (mpt_value_convert(v, 'i', &iv) < 0) puts("R noconv | C - | I -");
			else printf("R val %d | C - | I -\n", iv);
		}
		else if (!strcmp(op, "advance") && drv_nw == 2) {
			int r = src->advance();
			if (r < 0) printf("R err | C - | I ret=%s\n", drv_errname(r));
			else printf("R %s | C - | I -\n", r ? "more" : "end");
		}
		else if (!strcmp(op, "reset") && drv_nw == 2) {
			int r = src->reset();
			printf("R ok | C - | I ret=%d\n", r);
		}
		else puts("bad-op");
	}
	delete src;
	return 0;
}
