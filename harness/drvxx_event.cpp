/* line-protocol driver: the C++ class mpt::dispatch (mpt++/event.cpp) for C11.  Same output format as drv_event.c,
 * ops are prefixed `xe`.  Registration, lookup, reserve, default and fallback go through the C++ methods; events are
 * emitted with mpt_dispatch_emit/mpt_dispatch_hash on the object (it has no emit method of its own). */
extern "C" {
#include "drv_util.h"
}
#include <errno.h>
#include <limits.h>
#include <inttypes.h>
#include <ctype.h>
/* The command buffers are C objects with a hand-made vtable (buffer_alloc.c), which UBSan's C++ vptr check cannot
 * accept.  The code under test mpt++/event.cpp is therefore compiled as part of this translation unit (found through
 * the include path of the tree under test) with that one check switched off (`link_extra = -fno-sanitize=vptr` in
 * the property module); everything else stays sanitised. */
#include "event.cpp"
#include "array.h"
#include "message.h"
#include "event.h"
#include "types.h"

using namespace mpt;

#include "drv_event_common.h"

static dispatch *obj;
static void drv_release(void) { delete obj; obj = 0; }

int main(void)
{
	static char line[1 << 16];
	drv_init();
	while (fgets(line, sizeof(line), stdin)) {
		if (line[0] == '#' || line[0] == '\n') { fputs(line, stdout); continue; }
		drv_split(line);
		logn = 0;
		cur_res = 0; cur_zero = 0; cur_nest = 0; in_nest = 0;
		if (drv_nw < 2 || strcmp(drv_w[0], "xe")) { puts("bad-op"); continue; }
		const char *op = drv_w[1];
		uintptr_t id;
		if (!strcmp(op, "new") && drv_nw == 3 && (!strcmp(drv_w[2], "fb") || !strcmp(drv_w[2], "nofb") || !strcmp(drv_w[2], "builtin"))) {
			teardown();
			obj = new dispatch;
			D = (struct drv_rawdisp *) (void *) obj;
			have = 1;
			rc_on = 0;
			stale_id = 0;
			nreg = 1; /* registration 0 is the fallback */
			if (drv_w[2][0] == 'f') obj->set_error(handler, &regs[0]);
			else if (drv_w[2][0] == 'n') obj->set_error(0, 0);
			logn = 0;
			result("ok", "0", 0);
			continue;
		}
		if (!have) { puts("bad-op"); continue; }
		if (!strcmp(op, "stale") && drv_nw == 3) {
			if (parse_id(drv_w[2], &id)) { puts("bad-op"); continue; }
			stale_id = id;
			result("ok", "0", 0);
		}
		else if (!strcmp(op, "rc") && drv_nw == 3 && (!strcmp(drv_w[2], "on") || !strcmp(drv_w[2], "off"))) {
			rc_on = drv_w[2][1] == 'n';
			result("ok", "0", 0);
		}
		else if (!strcmp(op, "set") && drv_nw == 3) {
			if (parse_id(drv_w[2], &id) || nreg >= MAXREG) { puts("bad-op"); continue; }
			size_t r = nreg++;
			result_verdict(obj->set_handler(id, handler, &regs[r]) ? 0 : -1);
		}
		else if (!strcmp(op, "clear") && drv_nw == 3) {
			if (parse_id(drv_w[2], &id)) { puts("bad-op"); continue; }
			result_verdict(obj->set_handler(id, 0, 0) ? 0 : -1);
		}
		else if (!strcmp(op, "get") && drv_nw == 3) {
			/* command::array::handler(id): the registration found */
			if (parse_id(drv_w[2], &id)) { puts("bad-op"); continue; }
			command *c = obj->handler(id);
			if (!c) result("none", "0", 0);
			else {
				char v[48];
				if (c->cmd == (int (*)(void *, void *)) handler) snprintf(v, sizeof(v), "found=%zu", (size_t) ((struct reg *) c->arg - regs));
				else snprintf(v, sizeof(v), "found=?");
				result(v, "0", 0);
			}
		}
		else if (!strcmp(op, "setdef") && drv_nw == 3) {
			if (parse_id(drv_w[2], &id)) { puts("bad-op"); continue; }
			result_verdict(obj->set_default(id) ? 1 : -1);
		}
		else if (!strcmp(op, "seterr") && drv_nw == 2) {
			if (nreg >= MAXREG) { puts("bad-op"); continue; }
			size_t r = nreg++;
			obj->set_error(handler, &regs[r]);
			result("ok", "0", 0);
		}
		else if (!strcmp(op, "emit") && drv_nw == 5 && !strcmp(drv_w[2], "id")) {
			event ev; EV_RC(ev);
			if (parse_id(drv_w[3], &id) || parse_res(drv_w[4])) { puts("bad-op"); continue; }
			ev.id = id;
			int ret = mpt_dispatch_emit(obj, &ev);
			result_ret(ret, ev.id);
		}
		else if (!strcmp(op, "emit") && drv_nw == 5 && (!strcmp(drv_w[2], "msg") || !strcmp(drv_w[2], "cmd"))) {
			event ev; EV_RC(ev);
			uint8_t *dat; size_t dlen; int isnull;
			if (parse_res(drv_w[4]) || drv_parse_data(drv_w[3], &dat, &dlen, &isnull)) { puts("bad-op"); continue; }
			if (isnull) { free(dat); puts("bad-op"); continue; }
			message msg(dat, dlen);
			ev.msg = &msg;
			if (dlen) ev.id = stale_id;
			cur_nest = drv_w[2][0] == 'c';
			int ret = mpt_dispatch_emit(obj, &ev);
			result_ret(ret, ev.id);
			free(dat);
		}
		else if (!strcmp(op, "emit") && drv_nw == 4 && !strcmp(drv_w[2], "none")) {
			if (parse_res(drv_w[3])) { puts("bad-op"); continue; }
			result_ret(mpt_dispatch_emit(obj, 0), 0);
		}
		else if (!strcmp(op, "hash") && drv_nw == 4) {
			event ev; EV_RC(ev);
			uint8_t *dat; size_t dlen; int isnull;
			if (parse_res(drv_w[3]) || drv_parse_data(drv_w[2], &dat, &dlen, &isnull)) { puts("bad-op"); continue; }
			if (isnull) { free(dat); puts("bad-op"); continue; }
			message msg(dat, dlen);
			ev.msg = &msg;
			int ret = mpt_dispatch_hash(obj, &ev);
			result_ret(ret, ev.id);
			free(dat);
		}
		else if (!strcmp(op, "reserve") && drv_nw == 3) {
			uintptr_t w;
			if (parse_id(drv_w[2], &w) || nreg >= MAXREG) { puts("bad-op"); continue; }
			size_t r = nreg++;
			command *c = obj->reserve(w);
			if (!c) result("refused", "null", 0);
			else {
				char v[48], buf[32];
				command *base;
				size_t n = table(&base), i;
				int fresh = 1;
				for (i = 0; i < n; i++) {
					if (base + i != c && base[i].cmd && base[i].id == c->id) fresh = 0;
				}
				c->cmd = (int (*)(void *, void *)) handler;
				c->arg = &regs[r];
				snprintf(v, sizeof(v), "ok fresh=%d", fresh);
				snprintf(buf, sizeof(buf), "%" PRIuPTR, c->id);
				new_reg = r;
				result(v, buf, 0);
				new_reg = (size_t) -1;
			}
		}
		else if (!strcmp(op, "del") && drv_nw == 2) {
			/* dispatch::~dispatch(); the object is gone afterwards: show the log only */
			delete obj; obj = 0; have = 0;
			printf("R ok log=");
			put_log_sorted();
			printf(" | C gone | I raw=");
			put_log_raw();
			fputc('\n', stdout);
		}
		else puts("bad-op");
	}
	teardown();
	return 0;
}
