/* line-protocol driver for C14, third part: trees built and REPLACED by the C++ parser wrapper
 * mpt::config_parser (mpt++/parse.cpp).  No parser model is needed: the op states the tree clauses relationally.
 *
 *   n begin / n end
 *   n cxxreread <file-hex> <cycles>
 *        open(file), read(target); then <cycles> times reset(), read(target): every read must succeed, give a
 *        tree with sound links that equals the tree of the first read (the target is replaced, nothing is lost),
 *        and the number of live heap bytes after every cycle must be the one after the first read (the replaced
 *        tree is released, exactly once — a double release is an AddressSanitizer fault); after the target is
 *        cleared and the parser deleted everything allocated since the start of the op is back.
 *
 * Output in the format of the node driver: R <verdict> | C - | I ret=-
 */
extern "C" {
#include "drv_util.h"
extern size_t __sanitizer_get_current_allocated_bytes(void);
}
#include <errno.h>
#include <sys/uio.h>
/* code under test compiled into this translation unit (nodes and values are C objects with hand-made vtables:
 * UBSan's C++ vptr check is off for this driver, `link_extra = -fno-sanitize=vptr`) */
#include "parse.cpp"
#include "meta.h"
#include "types.h"
#include "convert.h"
#include "node.h"
#include "config.h"
#include "parse.h"

using namespace mpt;

static char *ob;
static size_t oblen, obcap;
static void ob_put(const char *s, size_t n)
{
	if (oblen + n + 1 > obcap) { obcap = (oblen + n + 1) * 2 + 256; ob = (char *) realloc(ob, obcap); }
	memcpy(ob + oblen, s, n); oblen += n; ob[oblen] = 0;
}
static const char *unsound;
static int nnodes;
static void put_forest(const ::mpt::node *first, const ::mpt::node *parent, int depth)
{
	const ::mpt::node *prev = 0;
	if (depth > 2000) { unsound = "deep"; return; }
	for (const ::mpt::node *n = first; n; prev = n, n = n->next) {
		const char *id = mpt_node_ident(n);
		if (++nnodes > 100000) { unsound = "cycle"; return; }
		if (n->prev != prev) unsound = "prev";
		if (n->parent != parent) unsound = "parent";
		ob_put(prev ? "," : "", prev ? 1 : 0);
		ob_put(id ? id : "-", id ? strlen(id) : 1);
		if (n->_meta) {
			size_t len = 0;
			const char *base = mpt_convertable_data((convertable *) n->_meta, &len);
			ob_put("=", 1);
			if (base) ob_put(base, len);
		}
		if (n->children) { ob_put("(", 1); put_forest(n->children, n, depth + 1); ob_put(")", 1); }
	}
}

int main(void)
{
	static char line[1 << 20];
	char fname[64];
	drv_init();
	snprintf(fname, sizeof(fname), "/tmp/drvxxtreeparse-%d.conf", (int) getpid());
	/* lazily created library state */
	{
		static uint8_t shortv[3] = { 'x', 'y', 'z' };
		struct iovec vec = { shortv, sizeof(shortv) };
		value v; v.set(MPT_type_toVector('c'), &vec);
		metatype *mt;
		if ((mt = mpt_meta_new(&v))) mt->unref();
		/* the output buffer of this driver must not grow inside a measured op */
		obcap = 1 << 18; ob = (char *) malloc(obcap); ob[0] = 0;
	}
	/* ... including what the first parse and the first stdio stream of the process allocate for good */
	{
		FILE *f = fopen(fname, "w");
		if (f) { fputs("w {\n x = y\n}\n", f); fclose(f); }
		config_parser *p = new config_parser();
		::mpt::node *t = new ::mpt::node();
		if (p->open(fname)) { p->read(*t, 0); p->reset(); p->read(*t, 0); }
		oblen = 0; put_forest(t->children, t, 0);   /* the readers of names and values have lazy state too */
		mpt_node_clear(t);
		delete t;
		delete p;
		remove(fname);
	}
	while (fgets(line, sizeof(line), stdin)) {
		if (line[0] == '#' || line[0] == '\n') { fputs(line, stdout); continue; }
		drv_split(line);
		if (drv_nw < 2 || strcmp(drv_w[0], "n")) { puts("bad-op"); continue; }
		const char *op = drv_w[1];
		if ((!strcmp(op, "begin") || !strcmp(op, "end")) && drv_nw == 2) { puts("R ok | C - | I ret=0"); continue; }
		if (!strcmp(op, "cxxlist") && drv_nw == 4) {
			/* n cxxlist <k> <i>: k C++ nodes (mpt::node) are chained to a sibling list WITHOUT parent, the i-th is deleted:
			 * its neighbours must name each other afterwards; then the rest is deleted and every byte is back */
			size_t k = 0, idx = 0;
			char verdict[96];
			if (drv_parse_nat(drv_w[2], &k) || drv_parse_nat(drv_w[3], &idx) || !k || k > 16 || idx >= k) { puts("bad-op"); continue; }
			size_t start = __sanitizer_get_current_allocated_bytes();
			snprintf(verdict, sizeof(verdict), "sound");
			{
				::mpt::node *n[16];
				for (size_t j = 0; j < k; j++) {
					n[j] = new ::mpt::node();
					if (j) mpt_gnode_after(n[j - 1], n[j]);
				}
				::mpt::node *before = idx ? n[idx - 1] : 0, *after = idx + 1 < k ? n[idx + 1] : 0;
				delete n[idx];
				n[idx] = 0;
				if (before && before->next != after) snprintf(verdict, sizeof(verdict), "BROKEN:next-of-predecessor");
				if (after && after->prev != before) snprintf(verdict, sizeof(verdict), "BROKEN:prev-of-successor");
				/* the remaining list, walked forward, has k-1 nodes with agreeing links */
				if (!strcmp(verdict, "sound")) {
					::mpt::node *h = idx ? n[0] : (k > 1 ? n[1] : 0), *pv = 0;
					size_t cnt = 0;
					for (::mpt::node *c = h; c && cnt <= k; pv = c, c = c->next, ++cnt) if (c->prev != pv) snprintf(verdict, sizeof(verdict), "BROKEN:prev-mismatch");
					if (cnt != k - 1) snprintf(verdict, sizeof(verdict), "BROKEN:count=%zu", cnt);
				}
				if (!strncmp(verdict, "BROKEN", 6)) {
					/* do not walk broken links again: detach by hand before deleting */
					for (size_t j = 0; j < k; j++) if (n[j]) { n[j]->next = n[j]->prev = 0; }
				}
				for (size_t j = 0; j < k; j++) if (n[j]) delete n[j];
			}
			if (!strcmp(verdict, "sound") && __sanitizer_get_current_allocated_bytes() != start)
				snprintf(verdict, sizeof(verdict), "not-released:bytes=%ld", (long) __sanitizer_get_current_allocated_bytes() - (long) start);
			printf("R %s | C - | I ret=-\n", verdict);
			continue;
		}
		if (!strcmp(op, "cxxreread") && drv_nw == 4) {
			uint8_t *d = 0; size_t len = 0, cycles = 0; int isnull = 0;
			char verdict[128];
			if (drv_parse_data(drv_w[2], &d, &len, &isnull) || isnull || drv_parse_nat(drv_w[3], &cycles) || cycles > 16) { free(d); puts("bad-op"); continue; }
			{
				FILE *f = fopen(fname, "w");
				if (!f) { free(d); puts("bad-op"); continue; }
				if (len) fwrite(d, 1, len, f);
				fclose(f);
			}
			free(d);
			size_t start = __sanitizer_get_current_allocated_bytes(), level = 0;
			char *firstdump = 0;
			int count = 0;
			snprintf(verdict, sizeof(verdict), "same");
			{
				config_parser *p = new config_parser();
				::mpt::node *target = new ::mpt::node();
				if (!p->open(fname)) snprintf(verdict, sizeof(verdict), "open-failed");
				else for (size_t c = 0; c <= cycles; c++) {
					if (c && !p->reset()) { snprintf(verdict, sizeof(verdict), "reset-failed:cycle=%zu", c); break; }
					int r = p->read(*target, 0);
					if (r < 0) { snprintf(verdict, sizeof(verdict), "read-failed:cycle=%zu", c); break; }
					oblen = 0; ob[0] = 0; unsound = 0; nnodes = 0;
					put_forest(target->children, target, 0);
					if (unsound) { snprintf(verdict, sizeof(verdict), "BROKEN:%s:cycle=%zu", unsound, c); break; }
					if (!c) { firstdump = strdup(ob); count = nnodes; level = __sanitizer_get_current_allocated_bytes(); }
					else {
						if (strcmp(firstdump, ob)) { snprintf(verdict, sizeof(verdict), "differs:cycle=%zu:nodes=%d", c, nnodes); break; }
						if (__sanitizer_get_current_allocated_bytes() != level) {
							snprintf(verdict, sizeof(verdict), "leak:cycle=%zu:bytes=%ld", c, (long) __sanitizer_get_current_allocated_bytes() - (long) level);
							break;
						}
					}
				}
				free(firstdump);
				mpt_node_clear(target);
				delete target;
				delete p;
			}
			remove(fname);
			if (!strcmp(verdict, "same") && __sanitizer_get_current_allocated_bytes() != start)
				snprintf(verdict, sizeof(verdict), "not-released:bytes=%ld", (long) __sanitizer_get_current_allocated_bytes() - (long) start);
			(void) count;
			printf("R %s | C - | I ret=-\n", verdict);
			continue;
		}
		puts("bad-op");
	}
	return 0;
}
