import MptModel.Impl.Convert
import Driver.Util
namespace Driver.Convert
open Mpt Mpt.Conv Mpt.Scalar Mpt.Flt

/-- little-endian hex of the low `n` bytes of `bits` -/
def hexLE (bits : Nat) (n : Nat) : String :=
  toHex ((List.range n).map fun i => UInt8.ofNat ((bits / 2 ^ (8 * i)) % 256))

def leValue (bs : List Byte) : Nat :=
  bs.foldr (fun b acc => acc * 256 + b.toNat) 0

def resName {α} : Res α → String
  | .ok _ => "ok" | .err _ => "refused" | .null => "NULL" | .oob => "OOB" | .fault => "FAULT"

def retName {α} (f : α → Nat) : Res α → String
  | .ok v => toString (f v) | .err e => e.name | .null => "null" | .oob => "oob" | .fault => "fault"

/-- bits of an integer value in an integer type of `card` values -/
def intBits (ty : Ty) (v : Int) : Nat := (v % ty.card).toNat

/-- canonical text of a target object -/
def outText (ty : Ty) : Out → String
  | .int bits => hexLE bits ty.valueBytes
  | .flt .nan => "nan"
  | .flt x => hexLE (encode (tgtCTy ty).fmt x) ty.valueBytes

/-- the value a source operand denotes -/
def parseSrc (ty : Ty) (s : String) : Option Src :=
  if ty.isFloat then
    if s = "nan" then some (.flt .nan)
    else match parseHex s with
      | some bs => if bs.length = ty.valueBytes then
          match decode (tgtCTy ty).fmt (leValue bs) with
          | .nan => none            -- NaN payloads are not canonical: use the word
          | x => some (.flt x)
        else none
      | none => none
  else match s.toInt? with
    | some v => if inRange ty v then some (.int v) else none
    | none => none

/-- S: the content of the target object that denotes the same number as the source, if there is one
    (a floating target must hold exactly the source number: a rounded value is a different number) -/
def expected (src tgt : Ty) (s : Src) : Option String :=
  match s with
  | .int v =>
    if tgt.isFloat then
      match roundFin (tgtCTy tgt).fmt (decide (v < 0)) v.natAbs 0 with
      | .fin sg m e => if (FVal.fin sg m e).toInt? = some v then some (outText tgt (.flt (.fin sg m e))) else none
      | _ => none
    else if inRange tgt v ∧ (tgt = .c → src = .c ∨ isGraph v) then some (hexLE (intBits tgt v) tgt.size)
    else none
  | .flt x =>
    if tgt.isFloat then
      let r := round (tgtCTy tgt).fmt x
      if r.same x then some (outText tgt (.flt r)) else none
    else
      match x.toInt? with
      | some v => if inRange tgt v ∧ (tgt = .c → isGraph v) then some (hexLE (intBits tgt v) tgt.size) else none
      | none => none

/-- S: the exact result or a refusal; `size` = the documented return value (size of the target) when the
    converter itself is called -/
def altsVal (exp : Option String) (size : Option Nat := none) : String :=
  match size with
  | none =>
    let refused := "dst=refused out=- nodst=refused ; *"
    match exp with
    | some h => s!"dst=ok out={h} nodst=ok ; * || {refused}"
    | none => refused
  | some n =>
    let refused := "dst=refused out=- ret=- nodst=refused qret=- ; *"
    match exp with
    | some h => s!"dst=ok out={h} ret={n} nodst=ok qret={n} ; * || {refused}"
    | none => refused

def retObs {α} (f : α → Nat) : Res α → String
  | .ok v => toString (f v)
  | _ => "-"

def fmtVal (tgt : Ty) (rd rq : Res (Option Out × Nat)) (withRet : Bool := false) : String :=
  let out := match rd with
    | .ok (some o, _) => outText tgt o
    | _ => "-"
  if withRet then
    s!"R dst={resName rd} out={out} ret={retObs (·.2) rd} nodst={resName rq} qret={retObs (·.2) rq} | C - | I ret={retName (·.2) rd} qret={retName (·.2) rq}"
  else
    s!"R dst={resName rd} out={out} nodst={resName rq} | C - | I ret={retName (·.2) rd} qret={retName (·.2) rq}"

/-! sweep: every value of a range, both modes -/

structure Sweep where
  wrong : List String := []
  nwrong : Nat := 0
  qdiff : List String := []
  nqdiff : Nat := 0
  runs : List (Int × Int × String) := []     -- reversed

def Sweep.add (sw : Sweep) (v : Int) (verd : String) (wrong : Option String) (qd : Bool) : Sweep :=
  let sw := match wrong with
    | some w => { sw with nwrong := sw.nwrong + 1, wrong := if sw.nwrong < 8 then sw.wrong ++ [w] else sw.wrong }
    | none => sw
  let sw := if qd then { sw with nqdiff := sw.nqdiff + 1, qdiff := if sw.nqdiff < 8 then sw.qdiff ++ [toString v] else sw.qdiff } else sw
  match sw.runs with
  | (a, b, k) :: rest => if k = verd ∧ b + 1 = v then { sw with runs := (a, v, k) :: rest } else { sw with runs := (v, v, verd) :: sw.runs }
  | [] => { sw with runs := [(v, v, verd)] }

def Sweep.fmt (sw : Sweep) : String :=
  let lst (l : List String) (n : Nat) := if n = 0 then "-" else s!"{n}:" ++ ",".intercalate l
  let runs := ",".intercalate (sw.runs.reverse.map fun (a, b, k) => s!"{a}..{b}:{k}")
  s!"R wrong={lst sw.wrong sw.nwrong} qdiff={lst sw.qdiff sw.nqdiff} | C {runs} | I -"

def sweepLoop (src tgt : Ty) (hi : Int) : Nat → Int → Sweep → Sweep
  | 0, _, sw => sw
  | fuel + 1, v, sw =>
    if v > hi then sw else
    let rd := conv src tgt (.int v) true
    let rq := conv src tgt (.int v) false
    let exp := expected src tgt (.int v)
    let wrong : Option String := match rd with
      | .ok (some o, n) => if some (outText tgt o) = exp ∧ n = tgt.size then none else some s!"{v}={outText tgt o}"
      | .ok (none, _) => some s!"{v}=?"
      | .err _ => none
      | r => some s!"{v}={resName r}"
    let qd := resName rd ≠ resName rq
    sweepLoop src tgt hi fuel (v + 1) (sw.add v (resName rd) wrong qd)

/-! text -/

def fmtTextHalf (tgt : Ty) (pre : String) (r : TextRes) (withOut : Bool) : String :=
  let n := match r with
    | .ok (_, k) => toString k
    | _ => "-"
  let out := match r with
    | .ok (some bits, _) => hexLE bits tgt.size
    | _ => "-"
  if withOut then s!"{pre}={resName r} n={n} out={out}" else s!"{pre}={resName r} n={n}"

def fmtText (tgt : Ty) (rd rq : TextRes) : String :=
  s!"R {fmtTextHalf tgt "dst" rd true} {fmtTextHalf tgt "nodst" rq false} | C - | I ret={retName (·.2) rd}"

/-- S for text: a prefix that is a numeral of an in-range number is an admissible (consumed, value);
    a blank prefix may be consumed without delivering a value; refusal is always admissible -/
def altsText (tgt : Ty) (s : List Nat) : String :=
  let oks := (List.range (s.length + 1)).filterMap fun k =>
    -- "no value": nothing consumed, nothing stored, only for a text that is blank as a whole
    if k = 0 then (if s.all isSpace then some "dst=ok n=0 out=- nodst=ok n=0 ; *" else none) else
    if tgt = .c then
      -- a character target receives the first non-blank character, which must be printable
      let c := s.getD (k - 1) 0
      if (s.take (k - 1)).all isSpace ∧ isGraph c then some s!"dst=ok n={k} out={hexLE c 1} nodst=ok n={k} ; *" else none
    else
    match numeral (s.take k) with
    | some v => if inRange tgt v then some s!"dst=ok n={k} out={hexLE (intBits tgt v) tgt.size} nodst=ok n={k} ; *" else none
    | none => none
  " || ".intercalate (oks ++ ["dst=refused n=- out=- nodst=refused n=- ; *"])

/-! floating text: `strtof/strtod/strtold` are not modelled.  The op line carries the oracle's list of
    admissible results `k:bits` (prefix length, value bytes of the correctly rounded number; `ovf` = a finite
    number that rounds to infinity), computed with exact rational arithmetic by the generator.  M = the control
    flow of `mpt_cfloat/cdouble/cldouble` around "strto* converts the longest numeral prefix". -/

def parseAlts (w : String) : Option (List (Nat × String)) :=
  if w = "-" then some [] else
  (w.splitOn ",").mapM fun e =>
    match e.splitOn ":" with
    | [k, v] => k.toNat?.map fun k => (k, v)
    | _ => none

/-- oracle value text: a leading `~` marks a numeral that is not exactly representable (the value is its rounding) -/
def altInexact (v : String) : Bool := v.startsWith "~"
def altValue (v : String) : String := if v.startsWith "~" then (v.drop 1).toString else v

def floatParserFor (fn : String) (tgt : Ty) : Option TextParser :=
  let name : Option String :=
    if fn = "cflt" then some (if tgt = .f then "mpt_cfloat" else if tgt = .d then "mpt_cdouble" else "mpt_cldouble")
    else (Generated.Text.numberDispatch.find? (·.1 = tgt.code)).map (·.2.1)
  name.bind fun n => Generated.Text.parsers.find? (·.name = n)

/-- the libc result taken from the generator's oracle word: the longest numeral prefix of the text that starts
    `off` bytes into the operand -/
def oracleAt (fmt : Fmt) (alts : List (Nat × String)) (off : Nat) : StrToF :=
  let best := alts.foldl (fun (b : Option (Nat × String)) a => match b with
    | some (k, _) => if a.1 > k then some a else b
    | none => some a) none
  match best with
  | some (k, v) =>
    if v = "ovf" then { value := .inf false, consumed := k - off, erange := true, overflow := true }
    else if v = "-ovf" then { value := .inf true, consumed := k - off, erange := true, overflow := true }
    else if v = "nan" then { value := .nan, consumed := k - off, erange := false, overflow := false }
    else match parseHex (altValue v) with
      | some bs => { value := decode fmt (leValue bs), consumed := k - off, erange := false, overflow := false }
      | none => { value := .nan, consumed := 0, erange := false, overflow := false }
  | none => { value := .nan, consumed := 0, erange := false, overflow := false }

/-- `strtof/strtod/strtold`: the decimal model of Impl/Convert.lean wherever it applies (so the oracle alternatives
    in S cross-check it), the oracle for hexadecimal numerals, infinities and NaN -/
def strtoF (fmt : Fmt) (alts : List (Nat × String)) (s0 t : List Nat) : StrToF :=
  if decimalOnly t then strtoDec fmt t else oracleAt fmt alts (s0.length - t.length)

def ftextRun (fn : String) (tgt : Ty) (s0 : List Nat) (alts : List (Nat × String)) (dest : Bool) :
    Res (Option FVal × Nat) :=
  let strto := strtoF (tgtCTy tgt).fmt alts s0
  if fn = "string" then convertStringF tgt strto s0 dest
  else if fn = "number" then convertNumberF tgt strto s0 dest
  else match floatParserFor fn tgt with
    | some p => runFloatParser p (strto s0) s0 dest
    | none => .err .BadType

def ftextLine (fn : String) (tgt : Ty) (s0 : List Nat) (alts : List (Nat × String)) : String :=
  let show1 (res : Res (Option FVal × Nat)) : String × String × String := match res with
    | .ok (some v, n) => ("ok", toString n, outText tgt (.flt v))
    | .ok (none, n) => ("ok", toString n, "-")
    | .err e => ("refused", e.name, "-")
    | x => (resName x, "-", "-")
  let r := show1 (ftextRun fn tgt s0 alts true)
  let q := show1 (ftextRun fn tgt s0 alts false)
  let nn := if r.1 = "ok" then r.2.1 else "-"
  let qn := if q.1 = "ok" then q.2.1 else "-"
  let oks := (List.range (s0.length + 1)).filterMap fun k =>
    if k = 0 then (if s0.all isSpace then some "dst=ok n=0 out=- nodst=ok n=0 ; *" else none) else
    match alts.find? (·.1 = k) with
    | some (_, v) => if v = "ovf" ∨ v = "-ovf" ∨ altInexact v then none else some s!"dst=ok n={k} out={v} nodst=ok n={k} ; *"
    | none => none
  let spec := " || ".intercalate (oks ++ ["dst=refused n=- out=- nodst=refused n=- ; *"])
  s!"R dst={r.1} n={nn} out={r.2.2} nodst={q.1} n={qn} | C - | I ret={r.2.1} | S {spec}"

/-- a target type word: a scalar type, or `l` = `long`, which the code treats as `x` (Props/C07 `long_alias`) -/
def tgtOfName (t : String) : Option (Ty × Bool) :=
  if t = "l" then some (.x, true) else (Ty.ofName t).map fun ty => (ty, false)

/-- the native-type wrappers by their LP64 target -/
def nativeWrapper (tgt : Ty) : Option String :=
  match tgt with
  | .b => some "mpt_cchar" | .i => some "mpt_cint" | .x => some "mpt_clong"
  | .y => some "mpt_cuchar" | .u => some "mpt_cuint" | .t => some "mpt_culong"
  | _ => none

def wordsAux : List Nat → List Nat → List (List Nat) → List (List Nat)
  | [], cur, acc => if cur = [] then acc else acc ++ [cur]
  | c :: r, cur, acc => if isSpace c then wordsAux r [] (if cur = [] then acc else acc ++ [cur]) else wordsAux r (cur ++ [c]) acc

/-- M for `c fseq`: the file iterator hands the words out in order; an accepted read advances, a refused word is gone -/
def fseqModel : List Ty → List (List Nat) → List String
  | [], _ => []
  | _ :: ts, [] => "refused" :: fseqModel ts []
  | ty :: ts, w :: rest =>
    match fileToken ty (fun _ => { value := .nan, consumed := 0, erange := false, overflow := false }) w true with
    | .ok (some o, _) => s!"ok:{outText ty o}" :: fseqModel ts rest
    | _ => "refused" :: fseqModel ts rest

/-- S for `c fseq`: every call is refused or delivers exactly the number of a word that lies behind all words delivered
    before (elements come in order and are never delivered twice) -/
def fseqSpec (ws : Array (List Nat)) : List Ty → Nat → List String
  | [], _ => [""]
  | ty :: ts, i =>
    let oks : List String := ((List.range ws.size).filter (· ≥ i)).flatMap fun k =>
      match numeral (ws.getD k []) with
      | some v => if inRange ty v then (fseqSpec ws ts (k + 1)).map fun r => s!" ok:{outText ty (.int (v % ty.card).toNat)}" ++ r else []
      | none => []
    (fseqSpec ws ts i).map (" refused" ++ ·) ++ oks

def step (_ : Unit) (w : List String) : Unit × String :=
  match w with
  | ["c", "val", s, t, v] =>
    match Ty.ofName s, tgtOfName t with
    | some src, some (tgt, long) =>
      match parseSrc src v with
      | some x =>
        let f := fun d => if long then convLong src x d else conv src tgt x d
        ((), fmtVal tgt (f true) (f false) true ++ " | S " ++ altsVal (expected src tgt x) (some tgt.size))
      | none => ((), "bad-op")
    | _, _ => ((), "bad-op")
  | ["c", "vval", s, t, v] =>
    match Ty.ofName s, tgtOfName t with
    | some src, some (tgt, long) =>
      match parseSrc src v with
      | some x =>
        let f := fun d => if long then valueConvertLong src x d else valueConvert src tgt x d
        ((), fmtVal tgt (f true) (f false) ++ " | S " ++ altsVal (expected src tgt x))
      | none => ((), "bad-op")
    | _, _ => ((), "bad-op")
  | ["c", "consume", s, t, v] =>
    match Ty.ofName s, tgtOfName t with
    | some src, some (tgt, long) =>
      match parseSrc src v with
      | some x =>
        let f := fun d => if long then consumeLong src x d else consume src tgt x d
        -- `mpt_iterator_consume` returns the type code of the value it consumed: observable
        ((), fmtVal tgt (f true) (f false) true ++ " | S " ++ altsVal (expected src tgt x) (some src.code))
      | none => ((), "bad-op")
    | _, _ => ((), "bad-op")
  | ["c", "argv", s, t, v] =>
    match Ty.ofName s, tgtOfName t with
    | some src, some (tgt, long) =>
      match parseSrc src v with
      | some x =>
        let f := fun d => if long then argvConsumeLong src x d else argvConsume src tgt x d
        ((), fmtVal tgt (f true) (f false) true ++ " | S " ++ altsVal (expected src tgt x) (some src.code))
      | none => ((), "bad-op")
    | _, _ => ((), "bad-op")
  | "c" :: "fpoint" :: "val" :: s :: vals =>
    match Ty.ofName s with
    | some src =>
      match vals.mapM (parseSrc src) with
      | some xs =>
        if xs.length = 1 ∨ xs.length = 2 then
          let spec : Option (List String) := xs.mapM (expected src .f)
          let line (l : List String) : String := match l with
            | [a] => s!"ok n=1 x={a} y={a}"
            | [a, b] => s!"ok n=2 x={a} y={b}"
            | _ => "?"
          let alts := match spec with
            | some l => s!"{line l} ; pt=set || refused ; pt=kept"
            | none => "refused ; pt=kept"
          match fpointSet src xs with
          | .ok (x, y) =>
            ((), s!"R ok n={xs.length} x={outText .f (.flt x)} y={outText .f (.flt y)} | C pt=set | I ret={xs.length} | S {alts}")
          | .err e => ((), s!"R refused | C pt=kept | I ret={e.name} | S {alts}")
          | r => ((), s!"R {resName r} | C - | I - | S {alts}")
        else ((), "bad-op")
      | none => ((), "bad-op")
    | none => ((), "bad-op")
  | ["c", "fpoint", "text", hex, altw] =>
    -- one numeral word through `mpt_iterator_string`: the element converts itself with `mpt_convert_string(.., 'f', ..)`
    match parseHex hex, parseAlts altw with
    | some bs, some al =>
      let s := cstr (bs.map (·.toNat))
      let full := al.find? (·.1 = s.length)
      if s = [] ∨ s.any isSpace then ((), "bad-op") else
      -- the element converts itself with `mpt_convert_string(.., 'f', ..)`; a partly consumed word is refused
      let res : Res (Option FVal × Nat) := match convertStringF .f (strtoF binary32 al s) s true with
        | .ok (o, n) => if n = s.length then .ok (o, n) else .err .BadType
        | r => r
      let alts := match full with
        | some (_, v) => if v = "ovf" ∨ v = "-ovf" ∨ altInexact v then "refused ; pt=kept" else s!"ok n=1 x={v} y={v} ; pt=set || refused ; pt=kept"
        | none => "refused ; pt=kept"
      match res with
      | .ok (some v, _) => ((), s!"R ok n=1 x={outText .f (.flt v)} y={outText .f (.flt v)} | C pt=set | I ret=1 | S {alts}")
      | .err _ => ((), s!"R refused | C pt=kept | I ret=BadType | S {alts}")
      | r => ((), s!"R {resName r} | C - | I - | S {alts}")
    | _, _ => ((), "bad-op")
  | ["c", "sweep", s, t, lo, hi] =>
    match Ty.ofName s, Ty.ofName t, lo.toInt?, hi.toInt? with
    | some src, some tgt, some lo, some hi =>
      if src ∈ [Ty.c, .b, .y, .n, .q] ∧ inRange src lo ∧ inRange src hi ∧ lo ≤ hi then
        let sw := sweepLoop src tgt hi (hi - lo + 1).toNat lo {}
        ((), sw.fmt ++ " | S wrong=- qdiff=- ; *")
      else ((), "bad-op")
    | _, _, _, _ => ((), "bad-op")
  | ["c", "null", s, t] =>
    -- the converter called with a NULL source
    match Ty.ofName s, Ty.ofName t with
    | some src, some tgt =>
      let zero : Src := if src.isFloat then .flt (.fin false 0 0) else .int 0
      ((), fmtVal tgt (convNull src tgt true) (convNull src tgt false) true ++ " | S " ++ altsVal (expected src tgt zero) (some tgt.size))
    | _, _ => ((), "bad-op")
  | ["c", "vnull", s, t] =>
    -- `mpt_value_convert` of a value whose address is NULL
    match Ty.ofName s, Ty.ofName t with
    | some src, some tgt =>
      let zero : Src := if src.isFloat then .flt (.fin false 0 0) else .int 0
      ((), fmtVal tgt (valueConvertNull src tgt true) (valueConvertNull src tgt false) ++ " | S " ++ altsVal (expected src tgt zero))
    | _, _ => ((), "bad-op")
  | ["c", "ftoken", t, hex, alts] =>
    -- one token of a text file through the file iterator; S as for `text` / `ftext` with the whole word as operand
    match Ty.ofName t, parseHex hex, parseAlts alts with
    | some tgt, some bs, some al =>
      let s := cstr (bs.map (·.toNat))
      if tgt = .c ∨ s = [] ∨ s.any isSpace ∨ s.length ≠ bs.length then ((), "bad-op") else
      let f := fileToken tgt (strtoF (tgtCTy tgt).fmt al s) s
      let spec : String :=
        if tgt.isFloat then
          let oks := (List.range (s.length + 1)).filterMap fun k =>
            match al.find? (·.1 = k) with
            | some (_, v) => if v = "ovf" ∨ v = "-ovf" ∨ altInexact v ∨ tgt = .e then none else some s!"dst=ok out={v} nodst=ok ; *"
            | none => none
          " || ".intercalate (oks ++ ["dst=refused out=- nodst=refused ; *"])
        else
          let oks := (List.range (s.length + 1)).filterMap fun k =>
            match numeral (s.take k) with
            | some v => if inRange tgt v then some s!"dst=ok out={outText tgt (.int (v % tgt.card).toNat)} nodst=ok ; *" else none
            | none => none
          " || ".intercalate (oks.eraseDups ++ ["dst=refused out=- nodst=refused ; *"])
      ((), fmtVal tgt (f true) (f false) ++ " | S " ++ spec)
    | _, _, _ => ((), "bad-op")
  | ["c", "argvreset", s, v1, v2] =>
    -- two values of one type through a variadic call: read both, reset the iterator, read both again
    match Ty.ofName s with
    | some src =>
      if src ∉ [Ty.i, .u, .x, .t, .d] then ((), "bad-op") else
      match parseSrc src v1, parseSrc src v2 with
      | some a, some b =>
        let rd := fun x => match argvConsume src src x true with
          | .ok (some o, _) => outText src o
          | _ => "-"
        let l := s!"first={rd a},{rd b} reset=2 again={rd a},{rd b}"
        ((), s!"R {l} | C - | I ret=0 | S {l} ; *")
      | _, _ => ((), "bad-op")
    | none => ((), "bad-op")
  | ["c", "fseq", hex, types] =>
    match parseHex hex, types.toList.mapM (fun c => Ty.ofName (String.singleton c)) with
    | some bs, some tys =>
      if tys = [] ∨ tys.length > 4 ∨ tys.any (fun ty => ty.isFloat ∨ ty = .c) ∨ bs.any (· = 0) then ((), "bad-op") else
      let ws := wordsAux (bs.map (·.toNat)) [] []
      let m := " ".intercalate (fseqModel tys ws)
      let sp := " || ".intercalate ((fseqSpec ws.toArray tys 0).eraseDups.map fun a => (a.drop 1).toString ++ " ; *")
      ((), s!"R {m} | C - | I - | S {sp}")
    | _, _ => ((), "bad-op")
  | ["c", "sconv", hex, t1, t2, alts] =>
    match parseHex hex, Ty.ofName t1, Ty.ofName t2, parseAlts alts with
    | some bs, some ty1, some ty2, some al =>
      let s := cstr (bs.map (·.toNat))
      if s = [] ∨ s.any isSpace ∨ s.length ≠ bs.length ∨ ty2 = .c then ((), "bad-op") else
      let acc (ty : Ty) : Option (Option Out) :=
        if ty.isFloat then
          match convertStringF ty (strtoF (tgtCTy ty).fmt al s) s true with
          | .ok (o, _) => some (o.map .flt)
          | _ => none
        else
          match convertString ty s true with
          | .ok (o, _) => some (o.map .int)
          | _ => none
      let first := if (acc ty1).isSome then "ok" else "refused"
      let second := match acc ty2 with
        | some (some o) => s!"ok:{outText ty2 o}"
        | _ => "refused"
      -- no count is reported here: the element is the whole word, so the value has to be that of its LONGEST numeral
      -- prefix (anything shorter is a silently truncated element), or the conversion is refused
      let oks : List String :=
        if ty2.isFloat then
          let best := al.foldl (fun (b : Option (Nat × String)) a => match b with
            | some (k, _) => if a.1 > k then some a else b
            | none => some a) none
          match best with
          | some (_, v) => if v = "ovf" ∨ v = "-ovf" ∨ altInexact v ∨ v = "-" then [] else [s!"ok:{v}"]
          | none => []
        else
          match ((List.range (s.length + 1)).reverse.filterMap fun k => numeral (s.take k)).head? with
          | some v => if inRange ty2 v then [s!"ok:{outText ty2 (.int (v % ty2.card).toNat)}"] else []
          | none => []
      let seconds := (oks ++ ["refused"]).eraseDups
      let sp := " || ".intercalate (["ok", "refused"].flatMap fun f => seconds.map fun x => s!"first={f} second={x} ; *")
      ((), s!"R first={first} second={second} | C - | I - | S {sp}")
    | _, _, _, _ => ((), "bad-op")
  | ["cx", "hold", s, t, v] =>
    -- C++ part: the scalar held in `mpt::metatype::value<T>`, `convert(tgt, 0)` and `convert(tgt, &dst)`; the holder copies
    -- an identical type itself and hands everything else to `mpt_value_convert`
    match Ty.ofName s, Ty.ofName t with
    | some src, some tgt =>
      if src ∉ [Ty.i, .u, .x, .t, .d, .f] then ((), "bad-op") else
      match parseSrc src v with
      | some x =>
        let rd := valueConvert src tgt x true
        let rq := valueConvert src tgt x false
        let out := match rd with
          | .ok (some o, _) => outText tgt o
          | _ => "-"
        let sp := match expected src tgt x with
          | some h => s!"dst=ok out={h} nodst=ok ; * || dst=refused out=- nodst=refused ; *"
          | none => "dst=refused out=- nodst=refused ; *"
        ((), s!"R dst={resName rd} out={out} nodst={resName rq} | C - | I - | S {sp}")
      | none => ((), "bad-op")
    | _, _ => ((), "bad-op")
  | ["c", "skip", s, v] =>
    -- `mpt_iterator_consume(it, 0, 0)`: no conversion, the iterator advances and the type of the skipped value is returned
    match Ty.ofName s with
    | some src =>
      match parseSrc src v with
      | some _ => ((), s!"R skipped type={src.name} | C advanced=1 | I - | S skipped type={src.name} ; advanced=1")
      | none => ((), "bad-op")
    | none => ((), "bad-op")
  | ["c", "consume-none", t] =>
    -- an iterator without a current value
    match tgtOfName t with
    | some _ => ((), "R refused | C advanced=0 | I ret=MissingData | S refused ; advanced=0")
    | none => ((), "bad-op")
  | ["c", "text", fn, t, hex] =>
    match tgtOfName t, parseHex hex with
    | some (tgt, long), some bs =>
      if (tgt ∈ [Ty.b, .y, .n, .q, .i, .u, .x, .t] ∧ fn ∈ ["number", "string", "cint"] ∧ (long → fn ≠ "cint")) ∨
         (tgt = .c ∧ fn ∈ ["number", "string"]) ∨ (fn = "cnat" ∧ (nativeWrapper tgt).isSome ∧ ¬ long) then
        let s := cstr (bs.map (·.toNat))
        let wrapper := if fn = "cnat" then (nativeWrapper tgt).getD "" else
          if tgt.signed then s!"mpt_cint{8 * tgt.size}" else s!"mpt_cuint{8 * tgt.size}"
        let f := if fn = "string" then convertString tgt s else if fn = "cint" ∨ fn = "cnat" then runWrapper wrapper s 0 else convertNumber tgt s
        ((), fmtText tgt (f true) (f false) ++ " | S " ++ altsText tgt s)
      else ((), "bad-op")
    | _, _ => ((), "bad-op")
  | ["c", "ftext", fn, t, hex, alts] =>
    match Ty.ofName t, parseHex hex, parseAlts alts with
    | some tgt, some bs, some al =>
      if tgt.isFloat ∧ fn ∈ ["number", "string", "cflt"] then
        ((), ftextLine fn tgt (cstr (bs.map (·.toNat))) al)
      else ((), "bad-op")
    | _, _, _ => ((), "bad-op")
  | _ => ((), "bad-op")

def main (_args : List String) : IO Unit := do
  Driver.loop (← IO.getStdin) (← IO.getStdout) step ()

end Driver.Convert
