import MptModel.Impl.Iter
import MptModel.Impl.IterString
import MptModel.Impl.IterArgs
import MptModel.Impl.Dyadic
import MptModel.Spec.IterGrammar
import Driver.Util
namespace Driver.Iter
open Mpt Mpt.Iter

/-- spec view of a buffer iterator: the segments of the byte array (terminated strings, and a last
    unterminated rest as a byte vector) and the index of the current one -/
structure SegCur where
  segs : List (Bool × List Char) := []
  pos : Nat := 0

/-- one iterator: the implementation model state (`src`) and the spec cursor (position in the denoted
    sequence); `tailBad`: the text of a value list continues with something that is not a number -/
structure Slot where
  src : Src
  cur : IterSpec.Cursor
  tailBad : Bool := false
  /-- magnitude of the first value (scale of the tolerant number text) -/
  first : Rat := 0
  /-- the spec makes a statement about this slot (for text iterators: only for canonical number lists) -/
  judged : Bool := true
  /-- text iterators: the spec cursor is in step with the iterator (no advance without a read so far) -/
  sync : Bool := true
  /-- text iterators: the current element has been converted since the last advance -/
  readSince : Bool := false
  /-- buffer iterators: spec cursor over the segments -/
  seg : SegCur := {}
  /-- made by `it profile` / `it poly`: the driver owns a grid array for this slot -/
  hasGrid : Bool := false

structure St where
  slots : Array Slot := #[]
  sel : Option Nat := none
  /-- C++ `mpt::source<int>`: the data, the step and the position (an `Int`: it leaves the array on either side) -/
  xsData : List Int := []
  xsStep : Int := 1
  xsPos : Int := 0
  xsOn : Bool := false

instance : Inhabited St := ⟨{}⟩

def lowerStr (s : List Char) : List Char := s.map Iter.lower

def hasCI (s : List Char) (w : String) : Bool :=
  let wl := w.toList
  (List.range (s.length + 1)).any fun i => lowerStr ((s.drop i).take wl.length) = wl

/-- digit runs longer than 15 or exponents with more than two digits; `run` = digits of the current run;
    `sub`: subnormal literals e-300 .. e-323 are let through (plain value lists) -/
def longRuns (sub : Bool) : List Char → Nat → Bool
  | [], _ => false
  | c :: cs, run =>
    if Iter.isDigit c then (if 15 ≤ run then true else longRuns sub cs (run + 1))
    else if c = 'e' ∨ c = 'E' then
      let neg := cs.head? = some '-'
      let q := if cs.head? = some '+' ∨ cs.head? = some '-' then cs.tail else cs
      let ds := q.takeWhile Iter.isDigit
      if 2 < ds.length then
        let ok := sub && neg && ds.length == 3 && ds.head? == some '3' &&
          ((ds.getD 1 '9').toNat < 50 || ((ds.getD 1 '9') == '2' && (ds.getD 2 '9').toNat ≤ 51))
        if ok then longRuns sub cs 0 else true
      else longRuns sub cs 0
    else longRuns sub cs 0

/-- same syntactic filter as `unmodelled` in harness/drv_iter.c -/
def unmodelled (s : List Char) : Bool :=
  -- "nan" (refused) and "inf" (an infinite element) are modelled in plain value lists, i.e. texts that do not
  -- start with a keyword
  let keyword := match (Iter.dropSpace s).head? with | some c => Iter.isAlpha c | none => false
  (keyword && hasCI s "inf") || (keyword && hasCI s "nan") || hasCI s "0x" || hasCI s "file" || longRuns (!keyword) s 0

/-- number of decimal digits -/
def ndigits (n : Nat) : Nat := (Nat.toDigits 10 n).length

/-- rounding of a non-zero rational to `d` significant decimal digits (half to even):
    mantissa `m` with `10^(d-1) ≤ m < 10^d` and exponent `e` of the leading digit, value `m·10^(e-d+1)` -/
def roundSig (q : Rat) (d : Nat) : Int × Int :=
  let a : Rat := if q < 0 then -q else q
  let e0 : Int := (ndigits a.num.natAbs : Int) - (ndigits a.den : Int)
  -- 10^e ≤ a < 10^(e+1)
  let e1 := if a < IterSpec.pow10 e0 then e0 - 1 else e0
  let e := if IterSpec.pow10 (e1 + 1) ≤ a then e1 + 1 else e1
  let x := a / IterSpec.pow10 (e - ((d : Int) - 1))
  let fl := x.floor
  let frac := x - (fl : Rat)
  let m0 : Int := if frac > 1/2 ∨ (frac = 1/2 ∧ fl % 2 = 1) then fl + 1 else fl
  if m0 = ((10 ^ d : Nat) : Int) then (((10 ^ (d - 1) : Nat) : Int), e + 1) else (m0, e)

/-- `%.<d-1>e` text of a rounded value -/
def sciText (neg : Bool) (m e : Int) : String :=
  let ds := toString m.toNat
  let mant := (ds.take 1).toString ++ "." ++ (ds.drop 1).toString
  let ea := e.natAbs
  let es := (if e < 0 then "-" else "+") ++ (if ea < 10 then "0" else "") ++ toString ea
  (if neg then "-" else "") ++ mant ++ "e" ++ es

def absR (q : Rat) : Rat := if q < 0 then -q else q

/-- round half to even of a non-negative rational -/
def roundHE (x : Rat) : Int :=
  let fl := x.floor
  let frac := x - (fl : Rat)
  if frac > 1/2 ∨ (frac = 1/2 ∧ fl % 2 = 1) then fl + 1 else fl

/-- `%.<p>f` of the value `±k/10^p` -/
def fixedText (neg : Bool) (k : Int) (p : Nat) : String :=
  let ip := k.toNat / 10 ^ p
  let fp := k.toNat % 10 ^ p
  let fs := toString fp
  let pad := String.ofList (List.replicate (p - fs.length) '0')
  (if neg ∧ k ≠ 0 then "-" else "") ++ toString ip ++ (if p = 0 then "" else "." ++ pad ++ fs)

/-- tolerant text of a number (same rule as `put_num` in harness/drv_iter.c): scale `S = max(first, |q|)`
    with decimal exponent `E` (of its 8-digit rounding), `p = max(2, 7 − E)` decimals; a value within
    `S/10^12` of its rounding to `p` decimals is printed as that decimal (`~`), any other value with
    `p − 2` decimals (`~~`; its distance from every rounding tie is then at least `S/10^12`) -/
def fmtTol (q first : Rat) : String :=
  let a := absR q
  let S := if a > first then a else first
  if S = 0 then "~0"
  else
    let E := (roundSig S 8).2
    let sh : Nat := if E > 5 then (E - 5).toNat else 0
    let a' := a / IterSpec.pow10 sh
    let S' := S / IterSpec.pow10 sh
    let p : Nat := min 40 (7 - E + (sh : Int)).toNat
    let k := roundHE (a' * IterSpec.pow10 p)
    let r : Rat := (k : Rat) / IterSpec.pow10 p
    let suffix := if sh = 0 then "" else s!"e{sh}"
    if absR (a' - r) ≤ S' / 1000000000000 then "~" ++ fixedText (q < 0) k p ++ suffix
    else "~~" ++ fixedText (q < 0) (roundHE (a' * IterSpec.pow10 ((p : Int) - 2))) (p - 2) ++ suffix

def tooBig (q : Rat) : Bool :=
  let a : Rat := if q < 0 then -q else q
  a > IterSpec.pow10 300 || (q ≠ 0 && a < IterSpec.pow10 (-300))

def fmtNum (q : Rat) (exact : Bool) (first : Rat := 0) : String :=
  if absR q ≥ Iter.infVal then (if q < 0 then "-inf" else "inf")
  else if tooBig q then "unmodelled"
  else if exact then Dyadic.text q else fmtTol q first

/-- all numbers of a value-list text (what the text denotes) and whether scanning stopped at a non-number -/
def parseAll : Nat → List Char → List Rat × Bool
  | 0, _ => ([], false)
  | fuel + 1, s =>
    if s.isEmpty then ([], false)
    else match cdouble s with
      | .ok v rest => ((parseAll fuel rest).1.cons v, (parseAll fuel rest).2)
      | .zero => ([], false)
      | .err _ => ([], true)

/-- the sequence denoted by a freshly created generator, from its parameters (closed forms of the spec) -/
def denOf : Gen → IterSpec.Den × Bool
  | .linear base step elem _ => ({ count := elem, nth := fun i => base + (i : Rat) * step }, false)
  | .factor base fact init elem _ _ => ({ count := elem, nth := (IterSpec.factor 0 base fact init).nth }, false)
  | .boundary l i r elem _ => (IterSpec.boundary elem l i r, false)
  | .poly grid coeff _ _ => (IterSpec.poly grid coeff, false)
  | .polyN coeff _ _ => ({ count := 4294967295, nth := fun i => IterSpec.polyAt coeff (i : Rat) }, false)
  | .values text _ _ =>
    let p := parseAll (text.length + 1) text
    (IterSpec.explicit p.1, p.2)

def mkSlot (g0 : Gen) (desc : Option (List Char)) : Slot :=
  -- the drivers read the first value of a fresh iterator (scale of the tolerant number text)
  let g := g0.value.1
  let first : Rat := match g0.value.2 with | some v => (if tooBig v then 0 else absR v) | none => 0
  let hasGrid := match g0 with | .poly .. => true | .polyN .. => true | _ => false
  let fromText : Option IterSpec.Den := desc.bind fun d => (IterSpec.recognise d).bind (·.den)
  match fromText with
  | some den => { src := .gen g, cur := { den := den, pos := 0 }, first := first, hasGrid := hasGrid }
  | none => { src := .gen g, cur := { den := (denOf g).1, pos := 0 }, tailBad := (denOf g).2, first := first, hasGrid := hasGrid }

/-- a slot whose spec cursor runs over a denotation the specification has derived from the text -/
def mkSlotDen (g0 : Gen) (den : Option IterSpec.Den) : Slot :=
  let m := mkSlot g0 none
  match den with
  | some d => { m with cur := { den := d, pos := 0 }, tailBad := false, hasGrid := true }
  | none => { m with hasGrid := true }

def splitP (p : Char → Bool) : List Char → List (List Char)
  | [] => [[]]
  | c :: cs =>
    if p c then [] :: splitP p cs
    else match splitP p cs with
      | [] => [[c]]
      | w :: ws => (c :: w) :: ws

/-- the numbers of a text argument: number tokens, each optionally preceded by white space and followed by
    exactly one separator character (a character of `sep` or white space); no trailing separator -/
def strNumsAux (sep : List Char) : Nat → List Char → Option (List Rat)
  | 0, _ => none
  | fuel + 1, s =>
    let t := Iter.dropSpace s
    let tok := t.takeWhile fun c => !(Iter.isSpace c || sep.contains c)
    let rest := t.dropWhile fun c => !(Iter.isSpace c || sep.contains c)
    match IterSpec.strictNumber tok with
    | none => none
    | some v =>
      match rest with
      | [] => some [v]
      | c :: more =>
        -- white space behind the last number is no further element; a trailing separator of another kind is left open
        if Iter.isSpace c ∧ more.all Iter.isSpace then some [v]
        else if more.isEmpty then none else (strNumsAux sep fuel more).map (v :: ·)

def strNums (text sep : List Char) : Option (List Rat) :=
  if text.isEmpty then some [] else strNumsAux sep (text.length + 1) text

def strDen (text sep : List Char) : Option IterSpec.Den := (strNums text sep).map IterSpec.explicit

/-- spec: segments of a byte array -/
def segments (fuel : Nat) (d : List Char) : List (Bool × List Char) :=
  match fuel with
  | 0 => []
  | fuel + 1 =>
    if d.isEmpty then []
    else match findNul d with
      | some i => (true, d.take i) :: segments fuel (d.drop (i + 1))
      | none => [(false, d)]

def withSel (s : St) (f : Nat → Slot → St × String) : St × String :=
  match s.sel with
  | none => (s, "bad-op")
  | some k =>
    match s.slots[k]? with
    | none => (s, "bad-op")
    | some sl => f k sl

def setSlot (s : St) (k : Nat) (sl : Slot) : St := { s with slots := s.slots.setIfInBounds k sl }

def addSlot (s : St) (sl : Option Slot) (select : Bool) (alts : String) : St × String :=
  match sl with
  | none => (s, s!"R refused | C - | I - | S {alts}")
  | some x =>
    if s.slots.size ≥ 16 then (s, s!"R refused-slots | C - | I - | S {alts}")
    else
      let k := s.slots.size
      ({ slots := s.slots.push x, sel := if select then some k else s.sel },
        s!"R ok slot={k} | C - | I - | S {alts}")

def decodeDesc (h : String) : Option (List Char) :=
  match parseHex h with
  | some bs => if bs.any (· == 0) then none else some (bs.map fun b => Char.ofNat b.toNat)
  | none => none

def decodeBytes (h : String) : Option (List Char) := (parseHex h).map fun bs => bs.map fun b => Char.ofNat b.toNat

def hexOf (cs : List Char) : String := toHex (cs.map fun c => UInt8.ofNat c.toNat)

/-- the documented loop on the model, at most `cap` rounds: (values, stop word, final state) -/
def walkM : Nat → Gen → List Rat → List Rat × String × Gen
  | 0, g, acc => (acc.reverse, "cap", g)
  | cap + 1, g, acc =>
    match g.value with
    | (g1, none) => (acc.reverse, "null", g1)
    | (g1, some v) =>
      match g1.advance with
      | (g2, .more) => walkM cap g2 (v :: acc)
      | (g2, .last) => ((v :: acc).reverse, "end", g2)
      | (g2, .err _) => ((v :: acc).reverse, "err", g2)

/-- the documented loop on the spec cursor -/
def walkS : Nat → IterSpec.Cursor → List Rat → List Rat × String × IterSpec.Cursor
  | 0, c, acc => (acc.reverse, "cap", c)
  | cap + 1, c, acc =>
    match c.value with
    | none => (acc.reverse, "null", c)
    | some v =>
      match c.advance with
      | (c2, .more) => walkS cap c2 (v :: acc)
      | (c2, .last) => ((v :: acc).reverse, "end", c2)
      | (c2, .err) => ((v :: acc).reverse, "err", c2)

/-- the documented loop on a text argument iterator -/
def walkStr : Nat → StrIt → List Rat → List Rat × String × StrIt
  | 0, it, acc => (acc.reverse, "cap", it)
  | cap + 1, it, acc =>
    if !it.hasValue then (acc.reverse, "null", it)
    else match it.conv with
    | (it1, .err _) => (acc.reverse, "noconv", it1)
    | (it1, .ok v) =>
      match it1.advance with
      | (it2, .more) => walkStr cap it2 (v :: acc)
      | (it2, .last) => ((v :: acc).reverse, "end", it2)
      | (it2, .err _) => ((v :: acc).reverse, "err", it2)

def fmtBufVal : BufIt.BufVal → String
  | .null => "null"
  | .str t => s!"str {hexOf t}"
  | .vec t => s!"vec {hexOf t}"

def fmtSeg : Option (Bool × List Char) → String
  | none => "null"
  | some (true, t) => s!"str {hexOf t}"
  | some (false, t) => s!"vec {hexOf t}"

/-- the documented loop on a buffer iterator (elements are strings) -/
def walkBuf : Nat → BufIt → List String → List String × String × BufIt
  | 0, b, acc => (acc.reverse, "cap", b)
  | cap + 1, b, acc =>
    match b.value with
    | .null => (acc.reverse, "null", b)
    | v =>
      match b.advance with
      | (b2, .more) => walkBuf cap b2 (fmtBufVal v :: acc)
      | (b2, .last) => ((fmtBufVal v :: acc).reverse, "end", b2)
      | (b2, .err _) => ((fmtBufVal v :: acc).reverse, "err", b2)

def walkSeg : Nat → SegCur → List String → List String × String × SegCur
  | 0, c, acc => (acc.reverse, "cap", c)
  | cap + 1, c, acc =>
    match c.segs[c.pos]? with
    | none => (acc.reverse, "null", c)
    | some v =>
      if c.pos + 1 < c.segs.length then walkSeg cap { c with pos := c.pos + 1 } (fmtSeg (some v) :: acc)
      else ((fmtSeg (some v) :: acc).reverse, "end", { c with pos := c.pos + 1 })

/-- the documented loop on a text argument iterator reading keys -/
def walkKey : Nat → StrIt → List (List Char) → List (List Char) × String × StrIt
  | 0, it, acc => (acc.reverse, "cap", it)
  | cap + 1, it, acc =>
    if !it.hasValue then (acc.reverse, "null", it)
    else match it.key with
    | (it1, .err _) => (acc.reverse, "noconv", it1)
    | (it1, .ok v) =>
      match it1.advance with
      | (it2, .more) => walkKey cap it2 (v :: acc)
      | (it2, .last) => ((v :: acc).reverse, "end", it2)
      | (it2, .err _) => ((v :: acc).reverse, "err", it2)

/-- spec: words separated by single separator characters (no white space inside or around them) -/
def strKeys (text sep : List Char) : Option (List (List Char)) :=
  if text.isEmpty then some []
  else
    let toks := splitP (fun c => sep.contains c) text
    if toks.all (fun t => !t.isEmpty && !t.any Iter.isSpace) then some toks else none

def fmtVals (vs : List Rat) (first : Rat) : String :=
  if vs.isEmpty then "-" else ",".intercalate (vs.map fun v => fmtNum v false first)

def fmtArr (vs : List Rat) (sc : Rat) : String := ",".intercalate (vs.map fun v => fmtNum v false sc)

def errOfCode (r : Int) : String :=
  (([Err.BadArgument, .BadValue, .BadType, .BadOperation, .BadEncoding, .MissingData, .MissingBuffer].find?
    (·.code = r)).map (·.name)).getD "ERR?"

/-- spec: what an iterator-argument creator must produce from a fresh text argument of plain numbers -/
def fromIterDen (kind : String) (vs : List Rat) : Option IterSpec.Den :=
  let nat? (q : Rat) : Option Nat := if q.den = 1 ∧ 0 ≤ q.num then some q.num.toNat else none
  match kind, vs with
  | "lin", [n, a, b] => (nat? n).bind fun k => (IterSpec.Desc.lin k a b).den
  | "range", [a, b, st] => (IterSpec.Desc.range a b st).den
  | "fac", [n] => (nat? n).bind fun k => (IterSpec.Desc.fac k 10 10 0).den
  | "fac", [n, b] => (nat? n).bind fun k => (IterSpec.Desc.fac k b b 0).den
  | "fac", [n, b, f] => (nat? n).bind fun k => (IterSpec.Desc.fac k b f 0).den
  | "fac", [n, b, f, i] => (nat? n).bind fun k => (IterSpec.Desc.fac k b f i).den
  | _, _ => none

/-- `advance` (or a skip) on a judged text slot: the new slot and the spec alternatives.  A read element ends
    where the conversion ended; an element that has not been read extends to the end of the text (it is the
    last one) or ends like a read one — the cursor follows the alternative taken. -/
def strAdvance (sl : Slot) (it1 : StrIt) (rs : String) : Slot × String :=
  let atEnd := sl.cur.value.isNone
  let (c1, a) := sl.cur.advance
  if sl.readSince ∨ atEnd then
    let alts := match a with
      | .more => "more ; *" | .last => "end ; *"
      | .err => "end ; * || err ; *"      -- past the end: "no further element" once more, or an error
    ({ sl with src := .str it1, cur := c1, readSince := false }, alts)
  else
    let alts := match a with
      | .more => "more ; * || end ; *" | .last => "end ; *" | .err => "end ; * || err ; *"
    let c2 := if rs = "end" ∧ a = .more then { sl.cur with pos := sl.cur.den.count } else c1
    ({ sl with src := .str it1, cur := c2, readSince := false }, alts)

/-- spec: the arguments of a NUL-delimited message are the pieces between the NULs (an unterminated last piece
    is an argument too; a terminating NUL ends the last argument, it does not start another one) -/
def msgArgs (d : List Char) : List (List Char) :=
  let pieces := splitP (fun c => c = nul) d
  if d.isEmpty then [] else if d.getLast? = some nul then pieces.dropLast else pieces

/-- `mpt_message_iterator(msg, 0)`: the message parts are one byte sequence; every argument is stored with a
    terminating NUL; an empty message gives an array without buffer -/
def msgSlot (s : St) (h1 h2 : String) : St × String :=
  let dec (h : String) : Option (List Char) := if h = "-" then some [] else decodeBytes h
  match dec h1, dec h2 with
  | some d1, some d2 =>
    let d := d1 ++ d2
    let arr : Option (List Char) := if d.isEmpty then none else some (if d.getLast? = some nul then d else d ++ [nul])
    let b := BufIt.create arr false
    let sl : Slot := { src := .buf b, cur := { den := IterSpec.explicit [], pos := 0 },
                       seg := { segs := (msgArgs d).map fun a => (true, a), pos := 0 } }
    addSlot s (some sl) true s!"ok slot={s.slots.size} ; *"
  | _, _ => (s, "bad-op")

/-- `mpt::source<T>` (mptcore/types.h): a position inside the array is an element; outside (on either side) there
    is none: `value()` is NULL, `advance()` reports MissingData; a step that leaves the array reports the end -/
def xsStepOp (s : St) (w : List String) : St × String :=
  let inside (p : Int) : Bool := 0 ≤ p && p < (s.xsData.length : Int)
  match w with
  | ["xs", "new", st, items] =>
    match st.toInt?, (items.splitOn ",").mapM String.toInt? with
    | some k, some vs =>
      if k = 0 ∨ k < -8 ∨ k > 8 ∨ vs.isEmpty ∨ vs.length > 64 ∨ vs.any (fun v => v < -1000 ∨ v > 1000) then (s, "bad-op")
      else ({ s with xsData := vs, xsStep := k, xsPos := if k < 0 then (vs.length : Int) - 1 else 0, xsOn := true }, "R ok | C - | I -")
    | _, _ => (s, "bad-op")
  | ["xs", "value"] =>
    if !s.xsOn then (s, "bad-op")
    else if inside s.xsPos then
      let v := s.xsData.getD s.xsPos.toNat 0
      (s, s!"R val {v} | C - | I - | S val {v} ; *")
    else (s, "R null | C - | I - | S null ; *")
  | ["xs", "advance"] =>
    if !s.xsOn then (s, "bad-op")
    else if !inside s.xsPos then (s, "R err | C - | I ret=MissingData | S err ; *")
    else
      let p := s.xsPos + s.xsStep
      ({ s with xsPos := p }, (if inside p then "R more" else "R end") ++ " | C - | I - | S " ++ (if inside p then "more ; *" else "end ; *"))
  | ["xs", "reset"] =>
    if !s.xsOn then (s, "bad-op")
    else ({ s with xsPos := if s.xsStep < 0 then (s.xsData.length : Int) - 1 else 0 }, s!"R ok | C - | I ret={s.xsData.length} | S ok ; *")
  | _ => (s, "bad-op")

def step (s : St) (w : List String) : St × String :=
  if w.head? = some "xs" then xsStepOp s w else
  match w with
  | ["it", "begin"] => ({}, "R ok | C - | I -")
  | ["it", "create", h] =>
    let desc : Option (Option (List Char)) := if h = "null" then some none else (decodeDesc h).map some
    match desc with
    | none => (s, "bad-op")
    | some d =>
      if (d.map unmodelled).getD false then (s, "R unmodelled | C - | I -")
      else
        let txt := d.getD []
        let must := ((IterSpec.recognise txt).bind (·.den)).isSome
        let never := IterSpec.certainlyMalformed txt || IterSpec.malformedCount txt || IterSpec.trailingJunk txt ||
          ((IterSpec.recognise txt).map (·.senseless)).getD false
        let alts := if d.isNone then "* ; *" else if must then "ok slot=* ; *" else if never then "refused ; *" else "* ; *"
        let g := if d.isNone then some defaultRange else create txt
        let r := addSlot s (g.map fun x => mkSlot x d) true alts
        -- the slot number is an internal token: the spec only says accepted / refused
        (r.1, if must then r.2.replace "S ok slot=*" s!"S ok slot={s.slots.size}" else r.2)
  | ["it", "profile", n, h] =>
    match Dyadic.parseNat n with
    | none => (s, "bad-op")
    | some k =>
      if k > 100000 then (s, "bad-op") else
      let desc : Option (Option (List Char)) := if h = "null" then some none else (decodeDesc h).map some
      match desc with
      | none => (s, "bad-op")
      | some d =>
        if (d.map unmodelled).getD false then (s, "R unmodelled | C - | I -")
        else
          let grid : List Rat := (List.range k).map fun (i : Nat) => (((i : Int) - 2 : Int) : Rat) / 2
          let g := match d with
            | none => none
            | some txt => profile grid txt
          -- spec: canonical descriptions are accepted with their denotation, malformed ones refused
          let den := (d.bind IterSpec.recogniseProfile).bind (·.den grid)
          let never := (d.map IterSpec.profileMalformed).getD false || (d.map IterSpec.profileJunk).getD false || k == 0
          let alts := if den.isSome then s!"ok slot={s.slots.size} ; *" else if never then "refused ; *" else "* ; *"
          addSlot s (g.map fun x => mkSlotDen x den) true alts
  | ["it", "grow", k, n] =>
    -- the owner of the grid array appends points: the array of a live source is not affected (copy on write)
    match Dyadic.parseNat k, Dyadic.parseNat n with
    | some i, some cnt =>
      match s.slots[i]? with
      | some sl => if sl.hasGrid ∧ cnt ≤ 1000 then (s, "R ok | C - | I -") else (s, "bad-op")
      | none => (s, "bad-op")
    | _, _ => (s, "bad-op")
  | ["it", "xcreate", h] =>
    -- extreme / non-finite parameters: a keyword description with an infinite or NaN parameter, a parameter
    -- beyond the largest double or a span that overflows must be refused; otherwise the model decides
    match decodeDesc h with
    | none => (s, "bad-op")
    | some txt =>
      if hasCI txt "0x" ∨ hasCI txt "file" then (s, "R unmodelled | C - | I -")
      else
        let dblMax : Rat := ((2 ^ 1024 - 2 ^ 971 : Nat) : Rat)
        let keyword := match (Iter.dropSpace txt).head? with | some c => Iter.isAlpha c | none => false
        let nonfinite : Bool := keyword && (hasCI txt "inf" || hasCI txt "nan")
        let big (q : Rat) : Bool := absR q > dblMax
        let refused : Bool :=
          if nonfinite then true
          else match create txt with
            | none => true
            | some (.linear base step elem _) => big base || big (step * ((elem - 1 : Nat) : Rat)) || big (base + step * ((elem - 1 : Nat) : Rat))
            | some (.factor base fact init _ _ _) => big base || big fact || big init
            | some _ => false
        let v := if refused then "refused" else "accepted"
        (s, s!"R {v} | C - | I - | S " ++ (if nonfinite then "refused ; *" else "* ; *"))
  | ["it", "poly", n, h] =>
    -- mpt_iterator_poly(desc, array) directly: `none` = an array without data (the polynomial at the element index)
    let desc : Option (Option (List Char)) := if h = "null" then some none else (decodeDesc h).map some
    match desc, (if n = "none" then some none else (Dyadic.parseNat n).map some) with
    | some d, some cnt =>
      if (d.map unmodelled).getD false ∨ (cnt.getD 0) > 100000 then (s, if (cnt.getD 0) > 100000 then "bad-op" else "R unmodelled | C - | I -")
      else
        let g : Option Gen := match cnt with
          | none => mkPolyN d
          | some 0 => mkPolyN d
          | some k =>
            let grid : List Rat := (List.range k).map fun (i : Nat) => (((i : Int) - 2 : Int) : Rat) / 2
            match d with
            | none => some (.poly grid [] 0 none)
            | some txt => mkPoly txt grid
        -- spec: the text is the part of a polynomial profile description behind its keyword
        let pd := d.bind fun txt => IterSpec.recogniseProfile ("poly ".toList ++ txt)
        let den : Option IterSpec.Den := match pd, cnt with
          | some (.poly ms ss), some (k + 1) =>
            (IterSpec.PDesc.poly ms ss).den ((List.range (k + 1)).map fun (i : Nat) => (((i : Int) - 2 : Int) : Rat) / 2)
          | some (.poly ms ss), _ =>
            some { count := 4294967295, nth := fun i => IterSpec.polyAt (IterSpec.polyCoeff ms ss) (i : Rat) }
          | _, _ => none
        let alts := if den.isSome then s!"ok slot={s.slots.size} ; *" else "* ; *"
        addSlot s (g.map fun x => mkSlotDen x den) true alts
    | _, _ => (s, "bad-op")
  | ["it", "string", t, sp] =>
    let dec (h : String) : Option (Option (List Char)) := if h = "null" then some none else (decodeDesc h).map some
    match dec t, dec sp with
    | some txt, some sep =>
      if (txt.map fun t => unmodelled t || hasCI t "nan").getD false then (s, "R unmodelled | C - | I -")
      else
        let it := StrIt.create txt sep
        let den := strDen it.text it.sep
        let sl : Slot := { src := .str it, cur := { den := den.getD (IterSpec.explicit []), pos := 0 },
                           judged := den.isSome }
        addSlot s (some sl) true s!"ok slot={s.slots.size} ; *"
    | _, _ => (s, "bad-op")
  | ["it", "elems", sz, cnt] =>
    -- an array of `cnt` elements of a basic type: the loop visits each element once and ends
    match Dyadic.parseNat sz, Dyadic.parseNat cnt with
    | some z, some c =>
      if z < 2 ∨ z > 64 ∨ c = 0 ∨ c > 64 then (s, "bad-op")
      else (s, s!"R walk n={c} stop=end | C - | I - | S walk n={c} stop=end ; *")
    | _, _ => (s, "bad-op")
  | ["it", "msg", h1] => msgSlot s h1 "-"
  | ["it", "msg", h1, h2] => msgSlot s h1 h2
  | ["it", kind, h] =>
    if kind = "buffer" ∨ kind = "args" then
      let dat : Option (Option (List Char)) := if h = "null" then some none else (decodeBytes h).map some
      match dat with
      | none => (s, "bad-op")
      | some d =>
        let args := kind = "args"
        let b := BufIt.create d args
        let segs := segments ((d.getD []).length + 1) (d.getD [])
        let sl : Slot := { src := .buf b, cur := { den := IterSpec.explicit [], pos := 0 },
                           seg := { segs := segs, pos := if args then 1 else 0 } }
        addSlot s (some sl) true s!"ok slot={s.slots.size} ; *"
    else if kind = "use" then
      match Dyadic.parseNat h with
      | some i => if i < s.slots.size then ({ s with sel := some i }, "R ok | C - | I -") else (s, "bad-op")
      | none => (s, "bad-op")
    else if kind = "from" then
      if h ≠ "lin" ∧ h ≠ "range" ∧ h ≠ "fac" then (s, "bad-op") else
      withSel s fun k sl =>
        let r := if h = "lin" then linFromIter sl.src else if h = "range" then rangeFromIter sl.src else facFromIter sl.src
        -- spec: a fresh text argument of plain numbers denotes the generator of these parameters
        let fresh : Option (List Rat) := match sl.src with
          | .str it => if sl.judged ∧ it.pos = some 0 ∧ it.restore = none ∧ !it.endNull then strNums it.text it.sep else none
          | _ => none
        let den := fresh.bind (fromIterDen h)
        let s1 := setSlot s k { sl with src := r.1, sync := false }
        let alts := if den.isSome then s!"ok slot={s.slots.size} ; *" else "* ; *"
        let newSlot := r.2.map fun g =>
          let m := mkSlot g none
          match den with | some d => { m with cur := { den := d, pos := 0 }, tailBad := false } | none => m
        addSlot s1 newSlot false alts
    else if kind = "fromval" then
      if h ≠ "lin" ∧ h ≠ "range" ∧ h ≠ "fac" then (s, "bad-op")
      else (s, "R refused | C - | I - | S refused ; *")
    else if kind = "rangeset" then
      -- `mpt_range_set` with a vector of two numbers (both taken), any other vector (refused), a vector
      -- without data or a missing iterator (the default range 0..1), another type (refused)
      if h = "vec2" then (s, s!"R ok min={fmtNum (-3/2) true} max={fmtNum 2 true} | C - | I ret=0 | S * ; *")
      else if h = "vec3" then (s, "R err | C - | I ret=BadValue | S err ; *")
      else if h = "vecnull" ∨ h = "itnull" then (s, s!"R ok min={fmtNum 0 true} max={fmtNum 1 true} | C - | I ret=0 | S * ; *")
      else if h = "type" then (s, "R err | C - | I ret=BadType | S err ; *")
      else (s, "bad-op")
    else if kind = "consume" then
      withSel s fun k sl =>
        -- spec: a consumed element is the current one of the cursor, which moves on; past the end an error
        let judgedGen : Bool := match sl.src with | .gen _ => sl.sync && !sl.tailBad | _ => false
        let judgedStr : Bool := match sl.src with | .str _ => sl.judged && sl.sync | _ => false
        if h = "Z" then
          -- unknown element type (past the end the missing value is reported first)
          let noval := match sl.src with
            | .gen g => g.value.2.isNone
            | .str it => !it.hasValue
            | .buf b => (match b.value with | .null => true | _ => false)
          (s, s!"R err | C - | I ret={if noval then "MissingData" else "BadType"} | S err ; *")
        else if h = "d" then
          let (src1, r) := sl.src.consumeD
          let out := match r with
            | .ok v => s!"R ok val={fmtNum v true} got=type | C - | I -"
            | .err e => s!"R err | C - | I ret={e.name}"
          if judgedGen || judgedStr then
            let alts := match sl.cur.value with
              | some q => s!"ok val={fmtNum q true} got=type ; *"
              | none => "err ; *"
            (setSlot s k { sl with src := src1, cur := sl.cur.advance.1, readSince := false }, out ++ s!" | S {alts}")
          else
            let isBuf := match sl.src with | .buf _ => true | _ => false
            (setSlot s k { sl with src := src1, sync := isBuf }, out ++ (if isBuf then " | S err ; *" else " | S * ; *"))
        else if h = "u" then
          let (src1, r) := sl.src.consumeU
          let out := match r with
            | .ok v => s!"R ok val={v} got=type | C - | I -"
            | .err e => s!"R err | C - | I ret={e.name}"
          match sl.src with
          | .str _ => (setSlot s k { sl with src := src1, sync := false }, out ++ " | S * ; *")
          -- no unsigned conversion of a `double` or a string element: an error, nothing is consumed
          | _ => (setSlot s k { sl with src := src1 }, out ++ " | S err ; *")
        else if h = "skip" then
          let (src1, r) := sl.src.skip
          let out := match r with
            | none => "R ok val=- | C - | I ret=type"
            | some e => s!"R err | C - | I ret={e.name}"
          match sl.src with
          | .gen _ =>
            if judgedGen then
              let alts := if sl.cur.value.isSome then "ok val=- ; *" else "err ; *"
              (setSlot s k { sl with src := src1, cur := sl.cur.advance.1 }, out ++ s!" | S {alts}")
            else (setSlot s k { sl with src := src1, sync := false }, out ++ " | S * ; *")
          | .str _ =>
            if judgedStr then
              let it1 := match src1 with | .str x => x | _ => StrIt.create none none
              let rs := match r with | none => "more" | some _ => "err"
              -- the skip reports success for "more" and for "no further element" alike
              let (sl1, _) := strAdvance sl it1 (if r.isNone ∧ !it1.hasValue then "end" else rs)
              let alts := if sl.cur.value.isSome then "ok val=- ; *" else "ok val=- ; * || err ; *"
              (setSlot s k sl1, out ++ s!" | S {alts}")
            else (setSlot s k { sl with src := src1, sync := false }, out ++ " | S * ; *")
          | .buf _ =>
            -- a buffer element is skipped as a whole
            let n := sl.seg.segs.length
            let alts := if sl.seg.pos < n then "ok val=- ; *" else "err ; *"
            let seg1 := if r.isNone ∧ sl.seg.pos < n then { sl.seg with pos := sl.seg.pos + 1 } else sl.seg
            (setSlot s k { sl with src := src1, seg := seg1 }, out ++ s!" | S {alts}")
        else (s, "bad-op")
    else if kind = "kwalk" then
      match Dyadic.parseNat h with
      | none => (s, "bad-op")
      | some cap =>
        if cap > 4096 then (s, "bad-op") else
        withSel s fun k sl =>
          match sl.src with
          | .str it =>
            let (vs, stop, it1) := walkKey cap it []
            let show_ (l : List (List Char)) := if l.isEmpty then "-" else ",".intercalate (l.map hexOf)
            let r := s!"keys={show_ vs} n={vs.length} stop={stop}"
            -- spec: from a fresh / reset iterator the keys are the words of the text
            let fresh := it.pos = some 0 ∧ it.restore = none ∧ !it.endNull
            let alts := match (if fresh then strKeys it.text it.sep else none) with
              | some ws =>
                if ws.isEmpty then "* ; *"
                else if ws.length ≤ cap then s!"keys={show_ ws} n={ws.length} stop=end ; *"
                else s!"keys={show_ (ws.take cap)} n={cap} stop=cap ; *"
              | none => "* ; *"
            (setSlot s k { sl with src := .str it1, sync := false }, s!"R {r} | C - | I - | S {alts}")
          | _ => (s, "bad-op")
    else if kind = "cmpclone" then
      match Dyadic.parseNat h with
      | none => (s, "bad-op")
      | some cap =>
        if cap > 4096 then (s, "bad-op") else
        withSel s fun k sl =>
          match sl.src with
          | .gen g =>
            match g.clone with
            | none => (s, "R refused | C - | I - | S refused ; * || same n=* stop=* ; *")
            | some _ =>
              -- a clone replays the identical sequence: walking both side by side never shows a difference
              let (vs, stop, g1) := walkM cap g []
              let (_, _, c1) := walkS cap sl.cur []
              let r := s!"same n={vs.length} stop={stop}"
              (setSlot s k { sl with src := .gen g1, cur := c1 }, s!"R {r} | C - | I - | S {r} ; *")
          | _ => (s, "bad-op")
    else if kind = "walk" ∨ kind = "swalk" then
      match Dyadic.parseNat h with
      | none => (s, "bad-op")
      | some cap =>
        if cap > 4096 then (s, "bad-op") else
        withSel s fun k sl =>
          if kind = "swalk" then
            match sl.src with
            | .buf b =>
              let (vs, stop, b1) := walkBuf cap b []
              let (ws, sstop, c1) := walkSeg cap sl.seg []
              let show_ (l : List String) := if l.isEmpty then "-" else ",".intercalate (l.map fun x => x.replace " " ":")
              (setSlot s k { sl with src := .buf b1, seg := c1 },
                s!"R vals={show_ vs} n={vs.length} stop={stop} | C - | I - | S vals={show_ ws} n={ws.length} stop={sstop} ; *")
            | _ => (s, "bad-op")
          else
          match sl.src with
          | .str it =>
            let (vs, stop, it1) := walkStr cap it []
            let (ws, sstop, c1) := walkS cap sl.cur []
            let r := s!"vals={fmtVals vs sl.first} n={vs.length} stop={stop}"
            -- past the end the spec accepts NULL or a refusal alike
            let stops := if sstop = "null" then ["null", "noconv"] else [sstop]
            let alts := if sl.judged ∧ sl.sync then
                " || ".intercalate (stops.map fun st => s!"vals={fmtVals ws sl.first} n={ws.length} stop={st} ; *")
              else "* ; *"
            (setSlot s k { sl with src := .str it1, cur := c1, readSince := false }, s!"R {r} | C - | I - | S {alts}")
          | .buf b =>
            -- buffer elements are strings: no numeric conversion
            let stop := match b.value with | .null => "null" | _ => "noconv"
            (s, s!"R vals=- n=0 stop={stop} | C - | I - | S * ; *")
          | .gen g =>
            let (vs, stop, g1) := walkM cap g []
            let (ws, sstop, c1) := walkS cap sl.cur []
            let r := s!"vals={fmtVals vs sl.first} n={vs.length} stop={stop}"
            let sr := s!"vals={fmtVals ws sl.first} n={ws.length} stop={sstop}"
            let alts := if !sl.sync then "* ; *"
              else if sl.tailBad ∧ sstop = "end" then s!"{sr} ; * || vals={fmtVals ws sl.first} n={ws.length} stop=err ; *"
              else s!"{sr} ; *"
            let c2 := if sl.tailBad ∧ sstop = "end" ∧ stop = "err" then { c1 with pos := c1.pos - 1 } else c1
            (setSlot s k { sl with src := .gen g1, cur := c2 }, s!"R {r} | C - | I - | S {alts}")
    else (s, "bad-op")
  | ["it", v] =>
    if v = "value" ∨ v = "xvalue" then
      withSel s fun k sl =>
        let exact := v = "xvalue"
        match sl.src with
        | .str it =>
          if !it.hasValue then
            (s, "R null | C - | I - | S " ++ (if sl.judged ∧ sl.sync then (match sl.cur.value with
              | some q => s!"val {fmtNum q exact sl.first} ; *" | none => "null ; *") else "* ; *"))
          else
          let (it1, r) := it.conv
          let rs := match r with | .err _ => "noconv" | .ok q => s!"val {fmtNum q exact sl.first}"
          -- spec: the current number; past the end NULL or a refusal
          let ss := match sl.cur.value with
            | some q => s!"val {fmtNum q exact sl.first} ; *"
            | none => "null ; * || noconv ; *"
          let isOk := match r with | .ok _ => true | _ => false
          (setSlot s k { sl with src := .str it1, readSince := sl.readSince || isOk },
            s!"R {rs} | C - | I - | S " ++ (if sl.judged ∧ sl.sync then ss else "* ; *"))
        | .buf b =>
          let rs := match b.value with | .null => "null" | _ => "noconv"
          (s, s!"R {rs} | C - | I - | S * ; *")
        | .gen g =>
        let (g1, r) := g.value
        let rs := match r with | none => "null" | some q => s!"val {fmtNum q exact sl.first}"
        let ss := match sl.cur.value with | none => "null" | some q => s!"val {fmtNum q exact sl.first}"
        (setSlot s k { sl with src := .gen g1 }, s!"R {rs} | C - | I - | S " ++ (if sl.sync then s!"{ss} ; *" else "* ; *"))
    else if v = "word" then
      withSel s fun k sl =>
        match sl.src with
        | .str it =>
          if !it.hasValue then (s, "R null | C - | I - | S * ; *")
          else
            let (it1, r) := it.word
            let rs := match r with | .err _ => "noconv" | .ok w => s!"word={hexOf w}"
            -- spec: the word lies inside the text (memory safety is what the sanitizer run observes)
            (setSlot s k { sl with src := .str it1, sync := false }, s!"R {rs} | C - | I - | S {rs} ; *")
        | _ => (s, "bad-op")
    else if v = "meta" then
      -- type query, format, iterator pointer; a source hands out no further reference
      withSel s fun _ _ => (s, "R ok | C - | I - | S ok ; *")
    else if v = "uvalue" then
      withSel s fun k sl =>
        match sl.src with
        | .str it =>
          if !it.hasValue then (s, "R null | C - | I - | S null ; * || noconv ; *")
          else
            let (it1, r) := it.convWith cuint32
            match r with
            | .err e =>
              -- a refused reading leaves the element as it was (an end found by an earlier reading is kept)
              -- (every conversion error of an element arrives as BadType through `mpt_value_convert`)
              let _ := e
              (setSlot s k { sl with src := .str it1 }, "R noconv | C - | I ret=BadType | S * ; *")
            | .ok u =>
              -- the element ends where this reading ended: in step only if a number reading ends there too
              let same := (it.conv).1.restore == it1.restore
              (setSlot s k { sl with src := .str it1, sync := sl.sync && same, readSince := sl.readSince || same },
                s!"R uval={u} | C - | I - | S * ; *")
        | .gen g =>
          -- no conversion from `double` to an integer type
          let (g1, r) := g.value
          (setSlot s k { sl with src := .gen g1 }, (if r.isNone then "R null | C - | I -" else "R noconv | C - | I ret=BadType") ++ " | S * ; *")
        | .buf b =>
          (s, (match b.value with | .null => "R null | C - | I -" | _ => "R noconv | C - | I ret=BadType") ++ " | S * ; *")
    else if v = "rest" then
      withSel s fun k sl =>
        match sl.src with
        | .str it =>
          if !it.hasValue then (s, "R null | C - | I - | S null ; * || noconv ; *")
          else
            let (it1, r) := it.rest
            let rs := match r with
              | .err _ => "noconv"
              | .ok none => "rest=null"
              | .ok (some t) => s!"rest={hexOf t}"
            -- spec: the rest of the text lies inside the text; which part it is is left to the model
            (setSlot s k { sl with src := .str it1, sync := false }, s!"R {rs} | C - | I - | S * ; *")
        | _ => (s, "bad-op")
    else if v = "svalue" then
      withSel s fun _ sl =>
        match sl.src with
        | .buf b => (s, s!"R {fmtBufVal b.value} | C - | I - | S {fmtSeg sl.seg.segs[sl.seg.pos]?} ; *")
        | _ => (s, "bad-op")
    else if v = "text" then
      withSel s fun _ sl =>
        match sl.src with
        | .gen (.values text _ _) => (s, s!"R text={hexOf text} | C - | I ret=iter | S text={hexOf text} ; *")
        | .gen _ => (s, "R refused | C - | I ret=BadType | S * ; *")
        | .str it => (s, s!"R text={hexOf it.sep} | C - | I ret=iter | S * ; *")   -- the separator set
        | .buf _ => (s, "R refused | C - | I ret=BadType | S * ; *")
    else if v = "advance" then
      withSel s fun k sl =>
        match sl.src with
        | .str it =>
          let (it1, r) := it.advance
          let rs := match r with | .more => "more" | .last => "end" | .err _ => "err"
          let i := match r with | .more => "ret=115" | .last => "ret=0" | .err e => s!"ret={e.name}"
          if sl.judged ∧ sl.sync then
            let (sl1, alts) := strAdvance sl it1 rs
            (setSlot s k sl1, s!"R {rs} | C - | I {i} | S {alts}")
          else
            (setSlot s k { sl with src := .str it1, sync := false, readSince := false },
              s!"R {rs} | C - | I {i} | S * ; *")
        | .buf b =>
          let (b1, r) := b.advance
          let rs := match r with | .more => "more" | .last => "end" | .err _ => "err"
          let i := match r with | .more => (if b1.str.isSome then "ret=115" else "ret=67") | .last => "ret=0" | .err e => s!"ret={e.name}"
          let n := sl.seg.segs.length
          let ss := if n ≤ sl.seg.pos then "err" else if sl.seg.pos + 1 = n then "end" else "more"
          let c1 := if n ≤ sl.seg.pos then sl.seg else { sl.seg with pos := sl.seg.pos + 1 }
          (setSlot s k { sl with src := .buf b1, seg := c1 }, s!"R {rs} | C - | I {i} | S {ss} ; *")
        | .gen g =>
        let (g1, r) := g.advance
        let rs := match r with | .more => "more" | .last => "end" | .err _ => "err"
        let (c1, a) := sl.cur.advance
        let ss := match a with | .more => "more" | .last => "end" | .err => "err"
        -- a value list whose text continues with a non-number: the end of the well-formed prefix may be
        -- reported as an error instead of a plain end
        let alts := if !sl.sync then "* ; *"
          else if sl.tailBad ∧ (a = .last ∨ a = .err) then "end ; * || err ; *" else s!"{ss} ; *"
        let isErr := match r with | .err _ => true | _ => false
        let c2 := if sl.tailBad ∧ a = .last ∧ isErr = true then sl.cur else c1
        let i := match r with | .more => "ret=100" | .last => "ret=0" | .err e => s!"ret={e.name}"
        (setSlot s k { sl with src := .gen g1, cur := c2 }, s!"R {rs} | C - | I {i} | S {alts}")
    else if v = "reset" then
      withSel s fun k sl =>
        match sl.src with
        | .str it =>
          let (it1, r) := it.reset
          (setSlot s k { sl with src := .str it1, cur := sl.cur.reset, sync := true, readSince := false },
            s!"R ok | C - | I ret={r} | S ok ; *")
        | .buf b =>
          let (b1, r) := b.reset
          let rs := if r < 0 then "err" else "ok"
          (setSlot s k { sl with src := .buf b1, seg := { sl.seg with pos := if b.args then 1 else 0 } },
            s!"R {rs} | C - | I ret={r} | S ok ; *")
        | .gen g =>
        let (g1, r) := g.reset
        let rs := if r < 0 then "err" else "ok"
        let i := if r < 0 then s!"ret={errOfCode r}" else s!"ret={r}"
        (setSlot s k { sl with src := .gen g1, cur := sl.cur.reset, sync := true }, s!"R {rs} | C - | I {i} | S ok ; *")
    else if v = "clone" then
      withSel s fun _ sl =>
        -- only the polynomial source (it refers to the array of its owner) may refuse to be cloned
        let noClone := match sl.src with | .gen (.poly ..) => true | .gen (.polyN ..) => true | _ => false
        let alts := if noClone then s!"ok slot={s.slots.size} ; * || refused ; *" else s!"ok slot={s.slots.size} ; *"
        match sl.src with
        | .str it => addSlot s (some { sl with src := .str it.clone }) false alts
        | .buf b => addSlot s (some { sl with src := .buf b.clone }) false alts
        | .gen g => addSlot s (g.clone.map fun g' => { sl with src := .gen g', hasGrid := false }) false alts
    else (s, "bad-op")
  | ["it", "vlinear", p, ld, a, b] =>
    match Dyadic.parseNat p, Dyadic.parseNat ld, Dyadic.parse a, Dyadic.parse b with
    | some p, some ld, some a, some b =>
      if p > 64 ∨ ld > 8 then (s, "bad-op") else
      let size := (if p = 0 then 0 else (p - 1) * ld) + 2
      let sc := if absR a > absR b then absR a else absR b
      let arr := valuesLinear p ld a b size
      -- S: `points` values from min to max in equal steps at stride ld (defined for points ≥ 2, ld ≥ 1)
      let alts := if p ≥ 2 ∧ ld ≥ 1 then
          fmtArr ((List.range size).map fun k =>
            if k % ld = 0 ∧ k / ld < p then (IterSpec.linear (p - 1) a b).nth (k / ld) else 0) sc ++ " ; *"
        else "* ; *"
      (s, s!"R arr={fmtArr arr sc} | C - | I - | S arr={alts}".replace "S arr=* ; *" "S * ; *")
    | _, _, _, _ => (s, "bad-op")
  | ["it", "vbound", p, ld, a, b, c] =>
    match Dyadic.parseNat p, Dyadic.parseNat ld, Dyadic.parse a, Dyadic.parse b, Dyadic.parse c with
    | some p, some ld, some a, some b, some c =>
      if p > 64 ∨ ld > 8 then (s, "bad-op") else
      let size := (if p = 0 then 0 else (p - 1) * ld) + 2
      let sc := [absR a, absR b, absR c].foldl (fun m x => if x > m then x else m) 0
      let arr := valuesBound p ld a b c size
      let alts := if p ≥ 2 ∧ ld ≥ 1 then
          fmtArr ((List.range size).map fun k =>
            if k % ld = 0 ∧ k / ld < p then (IterSpec.boundary p a b c).nth (k / ld) else 0) sc ++ " ; *"
        else "* ; *"
      (s, s!"R arr={fmtArr arr sc} | C - | I - | S arr={alts}".replace "S arr=* ; *" "S * ; *")
    | _, _, _, _, _ => (s, "bad-op")
  | _ => (s, "bad-op")

def main (_args : List String) : IO Unit := do
  Driver.loop (← IO.getStdin) (← IO.getStdout) step ({} : St)

end Driver.Iter
