import MptModel.Impl.Reply
import MptModel.Spec.Reply
import Driver.Util
namespace Driver.Reply
open Mpt Mpt.Reply

/-- driver state: implementation model context, spec state, which handle tokens may still be used
    (same rule as the C driver: a handle is gone after a reply that did not fail, and after any drop),
    and the transport's schedule of answers -/
structure St where
  c : Option Ctx := none
  s : ReplySpec.St := {}
  live : List Bool := []
  sched : List Bool := []
  deriving Inhabited

def errName (r : Int) : String :=
  if r = -1 then "BadArgument" else if r = -2 then "BadValue" else if r = -3 then "BadType"
  else if r = -4 then "BadOperation" else if r = -8 then "BadEncoding" else if r = -16 then "MissingData"
  else if r = -17 then "MissingBuffer" else if r < 0 then "ERR?" else toString r

def fmtMsg : Option (List Byte) → String
  | none => "none"
  | some b => toHex b

def fmtCalls (cs : List (List Byte × Option (List Byte) × Bool)) : String :=
  if cs.isEmpty then "-" else
  ",".intercalate (cs.map fun (id, msg, ok) => s!"send[id={toHex id} msg={fmtMsg msg}]->{if ok then "ok" else "fail"}")

def callsOf (l : List Sent) : List (List Byte × Option (List Byte) × Bool) := l.map fun e => (e.id, e.msg, e.ok)
def callsOfSpec (l : List ReplySpec.Call) : List (List Byte × Option (List Byte) × Bool) := l.map fun e => (e.id, e.msg, e.ok)

def fmtAlts (okText : String) (alts : List ReplySpec.Alt) : String :=
  " || ".intercalate (alts.map fun (ok, calls) => s!"{if ok then okText else "refused"} ; {fmtCalls (callsOfSpec calls)}")

def line (r c i s : String) : String := s!"R {r} | C {c} | I ret={i} | S {s}"

def parseMsg (s : String) : Option (Option (List Byte)) :=
  if s = "none" then some none else (parseHex s).map some

/-- next answer of the transport (exhausted schedule: ok) -/
def nextAns (st : St) : Bool := st.sched.headD true
def ansCode (b : Bool) : Int := if b then 0 else Err.BadOperation.code

/-- new calls made by an op, and the schedule afterwards (one entry per call) -/
def newCalls (before after : Ctx) : List Sent := after.log.drop before.log.length
def popSched (st : St) (n : Nat) : List Bool := st.sched.drop n

def anyLive (l : List Bool) : Bool := l.any id

def step (st : St) (w : List String) : St × String :=
  match w with
  | ["r", "id2buf", ids, ws] =>
    match ids.toNat?, ws.toNat? with
    | some id, some wd =>
      if id ≥ 2 ^ 64 ∨ wd > 4096 ∨ ids.startsWith "+" then (st, "bad-op") else
      let sp := match ReplySpec.encode id wd with
        | some bs => s!"ok id={toHex bs} ; -"
        | none => "refused ; -"
      match MsgId.id2buf id wd with
      | .ok (bs, used) => (st, line s!"ok id={toHex bs}" "-" (toString used) sp)
      | .err e => (st, line "refused" "-" e.name sp)
      | _ => (st, line "FAULT" "-" "FAULT" sp)
    | _, _ => (st, "bad-op")
  | ["r", "buf2id", h] =>
    match parseHex h with
    | some bs =>
      let sp := match ReplySpec.decode bs with
        | some v => s!"ok id={v} ; -"
        | none => "refused ; -"
      match MsgId.buf2id bs with
      | .ok (v, used) => (st, line s!"ok id={v}" "-" (toString used) sp)
      | .err e => (st, line "refused" "-" e.name sp)
      | _ => (st, line "FAULT" "-" "FAULT" sp)
    | none => (st, "bad-op")
  | "r" :: "send" :: rest =>
    if rest.length > 64 ∨ rest.any (fun x => x ≠ "ok" ∧ x ≠ "fail") then (st, "bad-op")
    else ({ st with sched := rest.map (· == "ok") }, line "ok" "-" "0" "ok ; -")
  | "r" :: "ctx" :: ws :: rest =>
    if rest ≠ [] ∧ rest ≠ ["noptr"] then (st, "bad-op") else
    match ws.toNat? with
    | some wd =>
      if wd > 100000 then (st, "bad-op") else
      let ptr := rest = []
      let sp := if wd ≤ 65535 then "ok ; -" else "refused ; -"
      match Reply.create wd ptr with
      | some c =>
        ({ st with c := some c, s := { w := wd, attached := ptr, cur := none, held := [], owner := true }, live := [] },
         line "ok" "-" "0" sp)
      | none => ({ st with c := none, s := {}, live := [] }, line "refused" "-" "0" sp)
    | none => (st, "bad-op")
  | "r" :: op :: args =>
    match st.c with
    | none => (st, "bad-op")
    | some c =>
      let s := st.s
      let ans := nextAns st
      match op, args with
      | "arm", [h] =>
        match parseHex h with
        | some bytes =>
          if !c.owner then (st, "bad-op") else
          let sp := if bytes.length ≤ s.w then "ok ; -" else "refused ; -"
          let (ret, c') := Reply.arm c bytes
          let s' := if ret < 0 then s else { s with cur := if bytes.isEmpty then none else some bytes }
          ({ st with c := some c', s := s' }, line (if ret < 0 then "refused" else "ok") "-" (errName ret) sp)
        | none => (st, "bad-op")
      | "reply", [m] =>
        match parseMsg m with
        | some msg =>
          if !c.owner then (st, "bad-op") else
          let alts := ReplySpec.answerAlts s.attached s.cur msg ans
          let (ret, c') := Reply.reply c msg (ansCode ans)
          let calls := newCalls c c'
          let s' := if s.attached ∧ s.cur.isSome ∧ ans then { s with cur := none } else s
          ({ st with c := some c', s := s', sched := popSched st calls.length },
           line (if ret < 0 then "refused" else "ok") (fmtCalls (callsOf calls)) (errName ret) (fmtAlts "ok" alts))
        | none => (st, "bad-op")
      | "defer", [] =>
        if !c.owner ∨ st.live.length ≥ 32 then (st, "bad-op") else
        let k := st.live.length
        let alts : List ReplySpec.Alt :=
          if s.cur.isSome ∨ !s.attached then [(true, []), (false, [])] else [(false, [])]
        match Reply.defer c with
        | (some _, c') =>
          ({ st with c := some c', s := { s with held := s.held ++ [s.cur], cur := none }, live := st.live ++ [true] },
           line s!"ok h{k}" "-" "0" (fmtAlts s!"ok h{k}" alts))
        | (none, c') => ({ st with c := some c' }, line "refused" "-" "0" (fmtAlts s!"ok h{k}" alts))
      | "drop", ["ctx"] =>
        if !c.owner then (st, "bad-op") else
        let alts : List ReplySpec.Alt :=
          match s.attached, s.cur with
          | true, some id => [(true, [⟨ReplySpec.mark id, none, ans⟩])]
          | _, _ => [(true, [])]
        let c' := Reply.dropCtx c (ansCode ans)
        let calls := newCalls c c'
        let s' := { s with owner := false, cur := none, attached := s.attached && !anyLive st.live }
        ({ st with c := some c', s := s', sched := popSched st calls.length },
         line "ok" (fmtCalls (callsOf calls)) "0" (fmtAlts "ok" alts))
      | _, ks :: rest =>
        -- dreply <k> <msg>  |  drop <k>
        let msgArg : Option (Option (List Byte)) :=
          match op, rest with
          | "dreply", [m] => parseMsg m
          | "drop", [] => some none
          | _, _ => none
        match ks.toNat?, msgArg with
        | some k, some msg =>
          if !(st.live.getD k false) then (st, "bad-op") else
          let r := (s.held.getD k none)
          let alts : List ReplySpec.Alt :=
            if msg.isSome then ReplySpec.answerAlts s.attached r msg ans
            else if !s.attached then [(true, []), (false, [])]
            else match r with
              | some id => [(true, [⟨ReplySpec.mark id, none, ans⟩])]
              | none => [(true, [])]
          let (ret, c') := Reply.dreply c k msg (ansCode ans)
          let calls := newCalls c c'
          let gone := !(ret < 0 ∧ msg.isSome)
          let s' := { s with held := if gone ∨ (s.attached ∧ ans) then s.held.set k none else s.held }
          ({ st with c := some c', s := s', live := if gone then st.live.set k false else st.live,
                     sched := popSched st calls.length },
           line (if ret < 0 then "refused" else "ok") (fmtCalls (callsOf calls)) (errName ret) (fmtAlts "ok" alts))
        | _, _ => (st, "bad-op")
      | _, _ => (st, "bad-op")
  | _ => (st, "bad-op")

def main (_args : List String) : IO Unit := do
  Driver.loop (← IO.getStdin) (← IO.getStdout) step ({} : St)

end Driver.Reply
