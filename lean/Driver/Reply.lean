import MptModel.Impl.Reply
import MptModel.Spec.Reply
import Driver.Util
namespace Driver.Reply
open Mpt Mpt.Reply

/-- driver state: implementation model context, spec state, which handle tokens may still be used
    (same rule as the C driver: a handle is gone after a reply that did not fail, and after any drop),
    and the transport's schedule of answers -/
structure St where
  c : Option Ctx := none
  s : ReplySpec.St := {}
  live : List Bool := []
  sched : List Bool := []
  sin : Option StreamIn.SIn := none
  sfresh : Bool := false          -- stream input opened, no request handled yet
  sro : Bool := false             -- stream input is read-only
  cfresh : Bool := false          -- connection opened, nothing sent or handled yet
  cdgram : Bool := false          -- the connection is a datagram socket
  cremote : Bool := false         -- the connection lives inside an mpt_output_remote() object
  -- stream-backed connection: id width when open, lazily created reply context, handle tokens in use,
  -- spec: unanswered requests moved to handles, transport reachable
  cw : Option Nat := none
  cc : Option Ctx := none
  clive : List Bool := []
  cheld : List (Option (List Byte)) := []
  cwait : Option (List Requester.Slot) := none      -- con->_wait (handlers stay registered after a reply)
  ccid : Nat := 0
  cpend : List (Nat × Nat) := []                     -- spec: (id, handler tag) of requests that still wait for their reply
  -- requester side (C++ io::stream)
  xr : Option Requester.St := none
  xs : ReplySpec.ReqSt := {}
  deriving Inhabited

def errName (r : Int) : String :=
  if r = -1 then "BadArgument" else if r = -2 then "BadValue" else if r = -3 then "BadType"
  else if r = -4 then "BadOperation" else if r = -8 then "BadEncoding" else if r = -16 then "MissingData"
  else if r = -17 then "MissingBuffer" else if r < 0 then "ERR?" else toString r

def fmtMsg : Option (List Byte) → String
  | none => "none"
  | some b => toHex b

def fmtCalls (cs : List (List Byte × Option (List Byte) × Bool)) : String :=
  if cs.isEmpty then "-" else
  ",".intercalate (cs.map fun (id, msg, ok) => s!"send[id={toHex id} msg={fmtMsg msg}]->{if ok then "ok" else "fail"}")

def callsOf (l : List Sent) : List (List Byte × Option (List Byte) × Bool) := l.map fun e => (e.id, e.msg, e.ok)
def callsOfSpec (l : List ReplySpec.Call) : List (List Byte × Option (List Byte) × Bool) := l.map fun e => (e.id, e.msg, e.ok)

def fmtAlts (okText : String) (alts : List ReplySpec.Alt) : String :=
  " || ".intercalate (alts.map fun (ok, calls) => s!"{if ok then okText else "refused"} ; {fmtCalls (callsOfSpec calls)}")

def line (r c i s : String) : String := s!"R {r} | C {c} | I ret={i} | S {s}"

def parseMsg (s : String) : Option (Option (List Byte)) :=
  if s = "none" then some none else (parseHex s).map some

/-- next answer of the transport (exhausted schedule: ok) -/
def nextAns (st : St) : Bool := st.sched.headD true
def ansCode (b : Bool) : Int := if b then 0 else Err.BadOperation.code

/-- new calls made by an op, and the schedule afterwards (one entry per call) -/
def newCalls (before after : Ctx) : List Sent := after.log.drop before.log.length
def popSched (st : St) (n : Nat) : List Bool := st.sched.drop n

def anyLive (l : List Bool) : Bool := l.any id

/- ---------------------------------------------------------------- stream-input variant -/
open StreamIn in
def parseAct (a : String) : Option Act :=
  if a = "replynull" then some .replyNull
  else if a = "defer" then some .defer
  else if a.startsWith "ret:" then
    match (a.drop 4).toString.toInt? with
    | some v => if v < -128 ∨ v > 127 ∨ (a.drop 4).toString.startsWith "+" then none else some (.ret v)
    | none => none
  else if a.startsWith "reply:" then (parseHex (a.drop 6).toString).map .reply
  else if a.startsWith "replyfail:" then (parseHex (a.drop 10).toString).map .replyFail
  else if a.startsWith "replyfail2:" then
    (parseHex (a.drop 11).toString).bind fun m => if m.length < 600 then none else some (.replyFail m)
  else none

/-- failure injection (`replyfail:` 1st, `replyfail2:` 2nd growth of the write queue refused) is predictable only while
    the stream never wrote anything: on a fresh stream input, before every reply act, `replyfail2` last -/
def failActsOk : Bool → List String → Bool
  | _, [] => true
  | fresh, a :: as =>
    if a.startsWith "replyfail2:" then fresh && failActsOk false as
    else if a.startsWith "replyfail:" then fresh && failActsOk fresh as
    else if a.startsWith "reply:" ∨ a = "replynull" then failActsOk false as
    else failActsOk fresh as

def parseActs (s : String) (fresh : Bool := false) : Option (List StreamIn.Act) :=
  let parts := s.splitOn ","
  if parts.length > 16 ∨ parts.any (· = "") ∨ !failActsOk fresh parts then none else parts.mapM parseAct

def fmtFrames (fs : List (List Byte)) : String :=
  if fs.isEmpty then "-" else ",".intercalate (fs.map fun f => s!"frame[{toHex f}]")

open StreamIn in
/-- what the property expects of one request: R text and frames -/
def specReq (idlen : Nat) (data : List Byte) (acts : List Act) : String × List (List Byte) :=
  let id := data.take idlen
  let retv : Int := acts.foldl (fun r a => match a with | .ret v => v | _ => r) 0
  let short := idlen ≠ 0 ∧ data.length < idlen
  let marked := idlen ≠ 0 ∧ (id.headD 0).toNat ≥ 128
  let rid : Option Nat := if marked then ReplySpec.decode (Reply.unmark id) else some 0
  if short ∨ rid.isNone then ("called=0 ctx=0 id=0 acts=-", [])
  else
    let firstReply : Option (Option (List Byte)) := acts.findSome? fun a =>
      match a with | .reply m => some (some m) | .replyNull => some none | _ => none
    let frame := ReplySpec.streamFrame idlen data firstReply (codeByte retv)
    let ctx := frame.isSome
    -- the first reply attempt is accepted, every later one refused
    let res := (acts.foldl (fun (acc : List String × Bool) a =>
      match a with
      | .ret _ => (acc.1 ++ ["ret"], acc.2)
      | .defer => (acc.1 ++ [if ctx then "nodefer" else "noctx"], acc.2)
      -- an attempt the transport could not take: refused, the request stays open
      | .replyFail _ => (acc.1 ++ [if ctx then "refused" else "noctx"], acc.2)
      | _ => if !ctx then (acc.1 ++ ["noctx"], acc.2) else (acc.1 ++ [if acc.2 then "refused" else "ok"], true))
      ([], false)).1
    (s!"called=1 ctx={if ctx then 1 else 0} id={rid.getD 0} acts={",".intercalate res}", frame.toList)

def stepS (st : St) (w : List String) : St × String :=
  match w with
  | ["s", "open", n] =>
    match n.toNat? with
    | some idlen =>
      if idlen > 1000 then (st, "bad-op") else
      if idlen > 255 then ({ st with sin := none, cw := none, cc := none, clive := [], cheld := [] }, "R refused | C - | I ret=0 | S refused ; -")
      else ({ st with sin := some ⟨idlen, 0, []⟩, sro := false, sfresh := true, cw := none, cc := none, clive := [], cheld := [] }, "R ok | C - | I ret=0 | S ok ; -")
    | none => (st, "bad-op")
  | ["s", "open", n, "ro"] =>
    -- read-only stream: nothing can be answered on it
    match n.toNat? with
    | some idlen =>
      if idlen > 1000 then (st, "bad-op") else
      if idlen > 255 then ({ st with sin := none, cw := none, cc := none, clive := [], cheld := [] }, "R refused | C - | I ret=0 | S refused ; -")
      else ({ st with sin := some ⟨idlen, 0, []⟩, sro := true, sfresh := true, cw := none, cc := none, clive := [], cheld := [] }, "R ok | C - | I ret=0 | S ok ; -")
    | none => (st, "bad-op")
  | ["s", "probe"] =>
    match st.sin with
    | some _ => (st, "R ok fmt=sock,me meta=same,1 sock=same,me input=same,1 unknown=BadType noptr=ok clone=no ref=2 | C - | I ret=0 | S ok fmt=sock,me meta=same,1 sock=same,me input=same,1 unknown=BadType noptr=ok clone=no ref=2 ; -")
    | none => (st, "bad-op")
  | ["s", "req", h, "discard"] =>
    -- dispatch without handler on the stream input: the message is dropped, no reply context is set up, nothing is sent
    match st.sin, parseHex h with
    | some _, some data =>
      if data.length > 1000 then (st, "bad-op") else
      ({ st with sfresh := false }, "R called=0 ctx=0 id=0 acts=- | C - | I next=1 disp=0 | S called=0 ctx=0 id=0 acts=- ; -")
    | _, _ => (st, "bad-op")
  | ["s", "req", h, a] =>
    match st.sin, parseHex h, parseActs a st.sfresh with
    | some s, some data, some acts =>
      if data.length > 1000 then (st, "bad-op") else
      -- a request on a stream that cannot be written: the handler runs without a reply context (no transport), no frame
      if st.sro ∧ s.idlen ≠ 0 ∧ data.length ≥ s.idlen ∧ ((data.take s.idlen).headD 0).toNat < 128 then
        let h := StreamIn.runActs false acts { s := s }
        let disp : Int := if h.ret < 0 then 131072 else h.ret % 65536
        let res := ",".intercalate (acts.map fun a => match a with | .ret _ => "ret" | _ => "noctx")
        ({ st with sfresh := false },
         s!"R called=1 ctx=0 id=0 acts={",".intercalate h.results} | C {fmtFrames h.frames} | I next=1 disp={disp} | S called=1 ctx=0 id=0 acts={res} ; -")
      else
      let r := StreamIn.request s data acts
      let disp : Int := if r.ret < 0 then 131072 else r.ret % 65536
      let (sr, sf) := specReq s.idlen data acts
      ({ st with sin := some r.s, sfresh := false },
       s!"R called={if r.called then 1 else 0} ctx={if r.ctx then 1 else 0} id={r.evid} acts={if r.called then ",".intercalate r.results else "-"} | C {fmtFrames r.frames} | I next=1 disp={disp} | S {sr} ; {fmtFrames sf}")
    | _, _, _ => (st, "bad-op")
  | ["s", "close"] =>
    match st.sin with
    | some _ => ({ st with sin := none }, "R ok | C - | I ret=0 | S ok ; -")
    | none => (st, "bad-op")
  | _ => (st, "bad-op")

/- ---------------------------------------------------------------- stream-backed connection -/

/-- `hdr.arg = ret` (int8) -/
def argByte (r : Int) : Byte := UInt8.ofNat ((if r < 0 then r + 256 else r).toNat % 256)

/-- what reaches the peer: the sends the stream took -/
def framesOf (l : List Sent) : List (List Byte) := (l.filter (·.ok)).map fun e => e.id ++ e.msg.getD []

structure HState where
  c : Ctx
  results : List String := []
  ret : Int := 0
  nh : Nat                       -- handle tokens handed out so far
  newLive : List Bool := []

open StreamIn in
/-- the scripted handler on the deferrable context (transport accepts) -/
def conActs : List Act → HState → HState
  | [], h => h
  | a :: as, h =>
    match a with
    | .ret v => conActs as { h with ret := v, results := h.results ++ ["ret"] }
    | .defer =>
      if h.nh ≥ 32 then conActs as { h with results := h.results ++ ["nodefer"] } else
      match Reply.defer h.c with
      | (some _, c') => conActs as { h with c := c', results := h.results ++ [s!"deferred:h{h.nh}"], nh := h.nh + 1, newLive := h.newLive ++ [true] }
      | (none, c') => conActs as { h with c := c', results := h.results ++ ["nodefer"] }
    | .reply m =>
      let r := Reply.reply h.c (some m) 0
      conActs as { h with c := r.2, results := h.results ++ [if r.1 < 0 then "refused" else "ok"] }
    | .replyNull =>
      let r := Reply.reply h.c none 0
      conActs as { h with c := r.2, results := h.results ++ [if r.1 < 0 then "refused" else "ok"] }
    | .replyFail m =>
      -- the connection's stream cannot take the frame: the transport rejects the send
      let r := Reply.reply h.c (some m) Err.BadOperation.code
      conActs as { h with c := r.2, results := h.results ++ [if r.1 < 0 then "refused" else "ok"] }

open StreamIn in
/-- spec for one request on the connection: R text, frames, id moved to a new handle (if deferred) -/
def specConReq (idlen : Nat) (nh : Nat) (data : List Byte) (acts : List Act) : String × List (List Byte) × Option (List Byte) :=
  let id := data.take idlen
  let retv : Int := acts.foldl (fun r a => match a with | .ret v => v | _ => r) 0
  if idlen ≠ 0 ∧ (data.length < idlen ∨ (id.headD 0).toNat ≥ 128) then ("called=0 ctx=0 id=0 acts=-", [], none)
  else
    let ctx := idlen ≠ 0 ∧ id.any (· ≠ 0)
    -- state: 0 = request pending, 1 = answered, 2 = deferred
    let r := acts.foldl (fun (acc : List String × Nat × List (List Byte)) a =>
      match a with
      | .ret _ => (acc.1 ++ ["ret"], acc.2)
      | .defer => if !ctx then (acc.1 ++ ["noctx"], acc.2)
                  else if acc.2.1 = 0 ∧ nh < 32 then (acc.1 ++ [s!"deferred:h{nh}"], 2, acc.2.2) else (acc.1 ++ ["nodefer"], acc.2)
      | .reply m => if !ctx then (acc.1 ++ ["noctx"], acc.2)
                    else if acc.2.1 = 0 then (acc.1 ++ ["ok"], 1, acc.2.2 ++ [ReplySpec.mark id ++ m]) else (acc.1 ++ ["refused"], acc.2)
      | .replyNull => if !ctx then (acc.1 ++ ["noctx"], acc.2)
                    else if acc.2.1 = 0 then (acc.1 ++ ["ok"], 1, acc.2.2 ++ [ReplySpec.mark id]) else (acc.1 ++ ["refused"], acc.2)
      | .replyFail _ => (acc.1 ++ [if ctx then "refused" else "noctx"], acc.2))
      (([] : List String), (0 : Nat), ([] : List (List Byte)))
    let frames := if ctx ∧ r.2.1 = 0 then r.2.2 ++ [ReplySpec.mark id ++ [1, argByte retv]] else r.2.2
    (s!"called=1 ctx={if ctx then 1 else 0} id=0 acts={",".intercalate r.1}", frames, if r.2.1 = 2 then some id else none)

/-- harness convention: reply commands registered with a tag from 900000 on report failure (return -1) -/
def failingTag (t : Nat) : Bool := t ≥ 900000
/-- harness convention: reply commands with a tag in 800000..899999 register a follow-up request (tag + 1) -/
def followTag (t : Nat) : Option Nat := if 800000 ≤ t ∧ t < 900000 then some (t + 1) else none

/-- the peer answers one of our requests on the connection (id with the reply mark): `mpt_command_get(&con->_wait,
    id)`, call, release the handler (fix ea90a14); an undecodable id ends the dispatch (fix 9f09e6e).
    Spec: the reply goes to the handler that waits for exactly this id, once. -/
def conAnswer (st : St) (idlen : Nat) (data : List Byte) : St × String :=
  let id := data.take idlen
  let payload := data.drop idlen
  let r0 := "called=0 ctx=0 id=0 acts=-"
  -- spec
  let srid := ReplySpec.decode (ReplySpec.unmarkS id)
  let shit := srid.bind fun v => (st.cpend.find? (·.1 == v)).map (·.2)
  let sC := match shit with
    | some t => s!"hr{t}({toHex payload})"
    | none => "-"
  let cpend' := match srid, shit with
    | some v, some _ => st.cpend.filter (·.1 != v)
    | _, _ => st.cpend
  -- model
  match MsgId.buf2id (Reply.unmark id) with
  | .ok (v, _) =>
    match Requester.findActive (st.cwait.getD []) v with
    | some t =>
      let cw1 := st.cwait.map (Requester.deactivate · v)
      if 800000 ≤ t ∧ t < 900000 then
        -- the command registers a follow-up request (mpt_connection_await from inside the handler): refused while
        -- a request is being composed, otherwise a fresh id
        match (if st.ccid ≠ 0 then none else Requester.reserve cw1 (Nat.min idlen 4) (t + 1)) with
        | some (a, i) =>
          let fresh := i ≥ 1 ∧ ReplySpec.fits i idlen ∧ !(cpend'.any fun e => e.1 == i)
          let sfx := if fresh then s!"+id={i}" else "+id=<an id no unanswered request uses>"
          ({ st with cwait := some a, ccid := i, cpend := cpend' ++ [(i, t + 1)] },
           s!"R {r0} | C hr{t}({toHex payload})+id={i} | I next=1 disp=0 | S {r0} ; {sC}{sfx}")
        | none =>
          ({ st with cwait := cw1, cpend := cpend' },
           s!"R {r0} | C hr{t}({toHex payload})+refused | I next=1 disp=0 | S {r0} ; {sC}+refused")
      else
      ({ st with cwait := cw1, cpend := cpend' },
       s!"R {r0} | C hr{t}({toHex payload}) | I next=1 disp={if t ≥ 900000 then 131072 else 0} | S {r0} ; {sC}")
    | none => ({ st with cpend := cpend' }, s!"R {r0} | C - | I next=1 disp=131072 | S {r0} ; {sC}")
  | _ => ({ st with cpend := cpend' }, s!"R {r0} | C - | I next=1 disp=131072 | S {r0} ; {sC}")


def parseFrames (idlen : Nat) (s : String) : Option (List (List Byte)) :=
  let parts := s.splitOn ","
  if parts.length > 16 ∨ parts.any (· = "") then none else
  match parts.mapM parseHex with
  | some fs => if fs.any (fun f => f.length > 1000 ∨ f.length < idlen) then none else some fs
  | none => none

/-- section `tag` ("C", "S", ..) of a driver line -/
def lineSection (ln tag : String) : String :=
  match (ln.splitOn " | ").find? (·.startsWith (tag ++ " ")) with
  | some p => (p.drop (tag.length + 1)).toString
  | none => "-"

/-- replies dispatched one by one (`conAnswer`): joined code/model calls and spec calls -/
def conAnswers (st : St) (idlen : Nat) (fs : List (List Byte)) : St × List String × List String :=
  fs.foldl (fun (acc : St × List String × List String) m =>
    let r := conAnswer acc.1 idlen m
    let c := lineSection r.2 "C"
    let sp := match (lineSection r.2 "S").splitOn " ; " with
      | [_, x] => x
      | _ => "-"
    (r.1, if c = "-" then acc.2.1 else acc.2.1 ++ [c], if sp = "-" then acc.2.2 else acc.2.2 ++ [sp])) (st, [], [])

def joinCalls (l : List String) : String := if l.isEmpty then "-" else ",".intercalate l

def stepC0 (st : St) (w : List String) : St × String :=
  match w with
  | ["c", "probe"] =>
    if st.cw.isSome ∧ st.cremote then
      let t := "ok fmt=oul,me meta=same,1 sock=same,me input=same,1 unknown=BadType obj=same,me out=same,me log=same,me noptr=ok clone=no ref=2 prop=output"
      (st, s!"R {t} | C - | I ret=0 | S {t} ; -")
    else (st, "bad-op")
  | ["c", "open", n, "remote"] =>
    -- the connection lives inside an mpt_output_remote() object, ops go through its input/output interfaces
    match n.toNat? with
    | some idlen =>
      if idlen > 255 then (st, "bad-op") else
      ({ st with sin := none, cw := some idlen, cdgram := false, cremote := true, cc := none, clive := [], cheld := [], cwait := none, ccid := 0, cpend := [] },
       "R ok | C - | I ret=0 | S ok ; -")
    | none => (st, "bad-op")
  | ["c", "open", n, "rdgram"] =>
    match n.toNat? with
    | some idlen =>
      if idlen > 255 then (st, "bad-op") else
      ({ st with sin := none, cw := some idlen, cdgram := true, cremote := true, cc := none, clive := [], cheld := [], cwait := none, ccid := 0, cpend := [] },
       "R ok | C - | I ret=0 | S ok ; -")
    | none => (st, "bad-op")
  | ["c", "open", n] =>
    match n.toNat? with
    | some idlen =>
      if idlen > 255 then (st, "bad-op") else
      ({ st with sin := none, cw := some idlen, cdgram := false, cremote := false, cc := none, clive := [], cheld := [], cwait := none, ccid := 0, cpend := [] },
       "R ok | C - | I ret=0 | S ok ; -")
    | none => (st, "bad-op")
  | ["c", "open", n, "dgram"] =>
    -- the connection is a datagram socket: every datagram is one message, replies are datagrams (same scheme)
    match n.toNat? with
    | some idlen =>
      if idlen > 255 then (st, "bad-op") else
      ({ st with sin := none, cw := some idlen, cdgram := true, cremote := false, cc := none, clive := [], cheld := [], cwait := none, ccid := 0, cpend := [] },
       "R ok | C - | I ret=0 | S ok ; -")
    | none => (st, "bad-op")
  | ["c", "req", h, "discard"] =>
    -- mpt_connection_dispatch(con, 0, 0): no handler; a request still gets exactly one default reply (NULL message)
    match st.cw, parseHex h with
    | some idlen, some data =>
      if data.length > 1000 then (st, "bad-op") else
      let id := data.take idlen
      let r0 := "called=0 ctx=0 id=0 acts=-"
      if idlen ≠ 0 ∧ data.length < idlen then (st, s!"R {r0} | C - | I next=1 disp=131072 | S {r0} ; -")
      else if idlen ≠ 0 ∧ (id.headD 0).toNat ≥ 128 then
        -- datagram connection without handler: a reply is dropped like everything else (nobody waits on it here)
        if st.cdgram then (st, s!"R {r0} | C - | I next=1 disp=0 | S {r0} ; -") else conAnswer st idlen data
      else if idlen ≠ 0 ∧ id.any (· ≠ 0) then
        match (st.cc <|> Reply.create idlen true) with
        | none => (st, "bad-op")
        | some c0 =>
          let c1 := (Reply.arm c0 id).2
          let c2 := (Reply.reply c1 none 0).2
          let frames := framesOf (c2.log.drop c0.log.length)
          ({ st with cc := some c2 }, s!"R {r0} | C {fmtFrames frames} | I next=1 disp=0 | S {r0} ; {fmtFrames [ReplySpec.mark id]}")
      else (st, s!"R {r0} | C - | I next=1 disp=0 | S {r0} ; -")
    | _, _ => (st, "bad-op")
  | ["c", "req", h, a] =>
    match st.cw, parseHex h, parseActs a st.cfresh with
    | some idlen, some data, some acts =>
      if data.length > 1000 then (st, "bad-op") else
      let (sr, sf, sdef) := specConReq idlen st.clive.length data acts
      let id := data.take idlen
      let sTail := s!" | S {sr} ; {fmtFrames sf}"
      if idlen ≠ 0 ∧ data.length ≥ idlen ∧ (id.headD 0).toNat ≥ 128 then conAnswer st idlen data
      else if idlen ≠ 0 ∧ data.length < idlen then
        (st, s!"R called=0 ctx=0 id=0 acts=- | C - | I next=1 disp=131072{sTail}")
      else
        let ctx := idlen ≠ 0 ∧ id.any (· ≠ 0)
        if !ctx then
          let res := acts.map fun a => match a with | .ret _ => "ret" | _ => "noctx"
          let retv : Int := acts.foldl (fun r a => match a with | .ret v => v | _ => r) 0
          let disp : Int := if retv < 0 then 131072 else retv % 65536
          (st, s!"R called=1 ctx=0 id=0 acts={",".intercalate res} | C - | I next=1 disp={disp}{sTail}")
        else
          match (st.cc <|> Reply.create idlen true) with
          | none => (st, "bad-op")
          | some c0 =>
            let c1 := (Reply.arm c0 id).2
            let h := conActs acts { c := c1, nh := st.clive.length }
            -- generic reply for what the handler left pending
            let c2 := if h.c.cur.isSome then (Reply.reply h.c (some [1, argByte h.ret]) 0).2 else h.c
            let frames := framesOf (c2.log.drop c0.log.length)
            let disp : Int := if h.ret < 0 then 131072 else h.ret % 65536
            ({ st with cc := some c2, clive := st.clive ++ h.newLive, cheld := st.cheld ++ (h.newLive.map fun _ => sdef) },
             s!"R called=1 ctx=1 id=0 acts={",".intercalate h.results} | C {fmtFrames frames} | I next=1 disp={disp}{sTail}")
    | _, _, _ => (st, "bad-op")
  | ["c", "dreply", ks, m] =>
    match ks.toNat?, parseMsg m, st.cc with
    | some k, some msg, some c =>
      if !(st.clive.getD k false) then (st, "bad-op") else
      let attached := st.cw.isSome
      let r := st.cheld.getD k none
      let alts : List ReplySpec.Alt :=
        if !attached then [(true, []), (false, [])]
        else match r with
          | some id => [(true, [⟨ReplySpec.mark id, msg, true⟩])]
          | none => [(false, [])]
      let fmtA := " || ".intercalate (alts.map fun (ok, calls) =>
        s!"{if ok then "ok" else "refused"} ; {fmtFrames (calls.map fun e => e.id ++ e.msg.getD [])}")
      let (ret, c') := Reply.dreply c k msg 0
      let frames := framesOf (c'.log.drop c.log.length)
      let gone := !(ret < 0 ∧ msg.isSome)
      ({ st with cc := some c', clive := if gone then st.clive.set k false else st.clive,
                 cheld := if gone then st.cheld.set k none else st.cheld },
       s!"R {if ret < 0 then "refused" else "ok"} | C {fmtFrames frames} | I ret={errName ret} | S {fmtA}")
    | _, _, _ => (st, "bad-op")
  | ["c", "await", t] =>
    match st.cw, t.toNat? with
    | some idlen, some tag =>
      if tag > 1000000 then (st, "bad-op") else
      if st.ccid ≠ 0 then (st, "R refused | C - | I ret=BadOperation | S refused ; -") else
      match Requester.reserve st.cwait (Nat.min idlen 4) tag with
      | some (a, i) =>
        let fresh := i ≥ 1 ∧ ReplySpec.fits i idlen ∧ !(st.cpend.any fun e => e.1 == i)
        let sp := if fresh then s!"ok id={i} ; -" else "ok id=<an id no unanswered request uses> ; -"
        ({ st with cwait := some a, ccid := i, cpend := st.cpend ++ [(i, tag)] },
         s!"R ok id={i} | C - | I ret={(Requester.active a).length} | S {sp}")
      | none => (st, s!"R refused | C - | I ret=BadValue | S {if idlen = 0 then "refused ; -" else "ok id=<fresh> ; -"}")
    | _, _ => (st, "bad-op")
  | ["c", "send", h] =>
    match st.cw, parseHex h with
    | some idlen, some data =>
      if data.length > 1000 then (st, "bad-op") else
      match (if idlen = 0 then some [] else ReplySpec.encode st.ccid idlen) with
      | some hdr =>
        -- a datagram send reports the bytes sent
        ({ st with ccid := 0 }, s!"R ok | C frame[{toHex (hdr ++ data)}] | I ret={data.length},{if st.cdgram then (hdr ++ data).length else 0} | S ok ; frame[{toHex (hdr ++ data)}]")
      | none => (st, "R refused | C - | I ret=-1,-1 | S refused ; -")
    | _, _ => (st, "bad-op")
  | ["c", "close"] =>
    match st.cw with
    | some _ =>
      -- mpt_connection_fini: the owner releases the reply context (nothing is pending on it)
      let c' := st.cc.map fun c => Reply.dropCtx c 0
      -- mpt_command_clear: every registered handler is told that no reply will come
      let calls := (Requester.active (st.cwait.getD [])).map fun e => s!"hr{e.tag.getD 0}(none)"
      let ctext := if calls.isEmpty then "-" else ",".intercalate calls
      -- spec: every request that still waits is told once that no reply will come, nobody else is called
      let scalls := st.cpend.map fun e => s!"hr{e.2}(none)"
      let stext := if scalls.isEmpty then "-" else ",".intercalate scalls
      ({ st with cw := none, cc := c', cwait := none, ccid := 0, cpend := [] }, s!"R ok | C {ctext} | I ret=0 | S ok ; {stext}")
    | none => (st, "bad-op")
  | _ => (st, "bad-op")


/-- messages dispatched without handler one by one (`c req <m> discard`): joined code/model output and spec output -/
def conDiscards (st : St) (fs : List (List Byte)) : St × List String × List String :=
  fs.foldl (fun (acc : St × List String × List String) m =>
    let r := stepC0 acc.1 ["c", "req", if m.isEmpty then "-" else toHex m, "discard"]
    let c := lineSection r.2 "C"
    let sp := match (lineSection r.2 "S").splitOn " ; " with
      | [_, x] => x
      | _ => "-"
    (r.1, if c = "-" then acc.2.1 else acc.2.1 ++ [c], if sp = "-" then acc.2.2 else acc.2.2 ++ [sp])) (st, [], [])

/-- `c sync <frames>`: the peer sends the frames, the waiting commands are synced (mpt_stream_sync / the output object's
    sync) until nothing moves, what sync left in the input is dispatched without handler -/
def cSync (st : St) (f : String) : St × String :=
  match st.cw with
  | some idlen =>
    if idlen = 0 ∨ (st.cdgram ∧ !st.cremote) then (st, "bad-op") else
    match parseFrames idlen f with
    | some fs =>
      if !st.cdgram ∧ fs.any (fun m => (m.headD 0).toNat < 128) then (st, "bad-op") else
      if st.cdgram then
        -- datagram socket (output_remote.c): every reply datagram is looked up, delivered and released on its own; a
        -- datagram that is no reply ends the sync, it and everything behind it is then dispatched without handler
        let isReply := fun (m : List Byte) => decide ((m.headD 0).toNat ≥ 128)
        let (st', cs, ss) := conAnswers st idlen (fs.takeWhile isReply)
        let (st2, cd, sd) := conDiscards st' (fs.dropWhile isReply)
        -- a datagram that is no reply: sync reports how many commands still wait
        let nw := (Requester.active (st'.cwait.getD [])).length
        let ok := if (fs.dropWhile isReply).isEmpty ∨ nw = 0 then "ok" else s!"ok waiting={nw}"
        let sok := if (fs.dropWhile isReply).isEmpty ∨ st'.cpend.isEmpty then "ok" else s!"ok waiting={st'.cpend.length}"
        (st2, s!"R {ok} | C {joinCalls (cs ++ cd)} | I ret=0 | S {sok} ; {joinCalls (ss ++ sd)}")
      else
        let n := fs.length + 2
        let x0 : Requester.St := { idlen := idlen, arr := st.cwait, cid := st.ccid, inq := fs }
        let (x', calls) := (List.range n).foldl (fun (acc : Requester.St × List Requester.Call) _ =>
          let r := Requester.sync failingTag Requester.noFollow acc.1
          (r.1, acc.2 ++ r.2)) (x0, [])
        let sp0 : ReplySpec.ReqSt := { w := idlen, pending := st.cpend, cur := st.ccid, inq := fs }
        let (sp', scalls) := (List.range n).foldl (fun (acc : ReplySpec.ReqSt × List (Option Nat × List Byte)) _ =>
          ReplySpec.awaitReplies failingTag (acc.1.inq.length + 1) acc.1.inq acc.1 acc.2) (sp0, [])
        let fmtM := calls.map fun c => s!"hr{c.tag.getD 0}({toHex (c.msg.getD [])})"
        let fmtS := scalls.map fun c => s!"hr{c.1.getD 0}({toHex c.2})"
        let st1 := { st with cwait := x'.arr, cpend := sp'.pending }
        let (st2, cs, ss) := conAnswers st1 idlen x'.inq
        (st2, s!"R ok | C {joinCalls (fmtM ++ cs)} | I ret=0 | S ok ; {joinCalls (fmtS ++ ss)}")
    | none => (st, "bad-op")
  | none => (st, "bad-op")

/-- `cfresh`: true from `c open` until the first line that may write to the connection's stream -/
def stepC (st : St) (w : List String) : St × String :=
  -- `c reassign`: the connection gets a new target (mpt_connection_assign runs mpt_connection_close): same as `c close` for
  -- the waiting commands and the reply context — handles deferred before are detached from the transport
  let (st', ln) := (match w with
    | ["c", "sync", f] => cSync st f
    | ["c", "reassign"] => stepC0 st ["c", "close"]
    | _ => stepC0 st w)
  if ln = "bad-op" then (st', ln) else
  match w with
  | ["c", "open", _] => ({ st' with cfresh := true }, ln)
  | ["c", "await", _] => (st', ln)
  | _ => ({ st' with cfresh := false }, ln)

/- ---------------------------------------------------------------- requester side (C++ io::stream) -/

def fmtCall (t : Option Nat) (m : Option (List Byte)) : String :=
  match t with
  | some t => s!"h{t}({fmtMsg m})"
  | none => s!"ev({fmtMsg m})"

def fmtCallsX (l : List Requester.Call) : String :=
  if l.isEmpty then "-" else ",".intercalate (l.map fun c => fmtCall c.tag c.msg)
def fmtCallsS (l : List (Option Nat × List Byte)) : String :=
  if l.isEmpty then "-" else ",".intercalate (l.map fun c => fmtCall c.1 (some c.2))

def waitingOf (s : Requester.St) : Nat := (Requester.active (s.arr.getD [])).length

/-- follow-up requests registered by the commands that were just called (harness convention `followTag`): the spec
    takes the id the code's model assigned and demands that it is fresh; text = complaint if it is not -/
def specFollow (x' : Requester.St) (sp' : ReplySpec.ReqSt) (scalls : List (Option Nat × List Byte)) : ReplySpec.ReqSt × String :=
  scalls.foldl (fun (acc : ReplySpec.ReqSt × String) c =>
    match c.1.bind followTag with
    | some t' =>
      match (Requester.active (x'.arr.getD [])).find? (·.tag == some t') with
      | some e =>
        if ReplySpec.freshId acc.1 e.id then ({ acc.1 with pending := acc.1.pending ++ [(e.id, t')], cur := e.id }, acc.2)
        else ({ acc.1 with pending := acc.1.pending ++ [(e.id, t')], cur := e.id }, acc.2 ++ s!" follow-up id {e.id} is not fresh")
      | none => acc
    | none => acc) (sp', "")

def stepX (st : St) (w : List String) : St × String :=
  match w with
  | ["xr", "open", n] =>
    match n.toNat? with
    | some idlen =>
      if idlen > 255 then (st, "bad-op") else
      ({ st with xr := some { idlen := idlen }, xs := { w := idlen } }, "R ok | C - | I ret=0 | S ok ; -")
    | none => (st, "bad-op")
  | "xr" :: op :: args =>
    match st.xr with
    | none => (st, "bad-op")
    | some x =>
      let sp := st.xs
      match op, args with
      | "idlen", [n] =>
        match n.toNat? with
        | some k =>
          if k > 255 then (st, "bad-op") else
          -- set_property("idlen", k): at most half the 8-bit range plus one
          if k > 128 then (st, s!"R refused idlen={x.idlen} | C - | I ret=-2 | S refused idlen={sp.w} ; -")
          else ({ st with xr := some { x with idlen := k }, xs := { sp with w := k } },
                s!"R ok idlen={k} | C - | I ret=0 | S ok idlen={k} ; -")
        | none => (st, "bad-op")
      | "await", [t] =>
        match t.toNat? with
        | some tag =>
          if tag > 1000000 then (st, "bad-op") else
          match Requester.await x tag with
          | some (x', i) =>
            let ok := ReplySpec.freshId sp i
            let stext := if ok then s!"ok id={i} ; -" else "ok id=<an id that is not in use and fits the header> ; -"
            ({ st with xr := some x', xs := { sp with pending := sp.pending ++ [(i, tag)], cur := i } },
             s!"R ok id={i} | C - | I ret=1 waiting={waitingOf x'} | S {stext}")
          | none =>
            -- refusal is legitimate without id header or when every id is taken
            let stext := if sp.w = 0 ∨ sp.pending.length + 1 ≥ 2 ^ (8 * sp.w - 1) then "refused ; -" else "ok id=<fresh> ; -"
            (st, s!"R refused | C - | I ret={if x.idlen = 0 then -1 else -4} waiting={waitingOf x} | S {stext}")
        | none => (st, "bad-op")
      | "send", [h] =>
        match parseHex h with
        | some data =>
          if data.length > 1000 then (st, "bad-op") else
          let (x', frame) := Requester.send x data
          let sframe := (ReplySpec.encode sp.cur sp.w).getD [] ++ data
          ({ st with xr := some x', xs := { sp with cur := 0 } },
           s!"R ok | C frame[{toHex frame}] | I ret={if data.isEmpty then 0 else data.length},0 waiting={waitingOf x'} | S ok ; frame[{toHex sframe}]")
        | none => (st, "bad-op")
      | "abort", [] =>
        let c := Requester.abort x
        let alt := match sp.pending.find? (·.1 == sp.cur) with
          | some (_, t) => s!"ok ; - || ok ; h{t}(none)"
          | none => "ok ; -"
        (st, s!"R ok | C {fmtCallsX c.toList} | I ret=0 waiting={waitingOf x} | S {alt}")
      | "answer", [f] =>
        match parseFrames x.idlen f with
        | some fs =>
          let (x', calls) := Requester.drainF followTag (x.inq ++ fs) x []
          let (sp0, scalls) := ReplySpec.deliverAll (sp.inq ++ fs) sp []
          let (sp', complaint) := specFollow x' sp0 scalls
          ({ st with xr := some x', xs := sp' },
           s!"R ok | C {fmtCallsX calls} | I ret=0 rounds=0 waiting={waitingOf x'} | S ok ; {fmtCallsS scalls}{complaint}")
        | none => (st, "bad-op")
      | "sync1", [f] =>
        -- one call of sync
        match parseFrames x.idlen f with
        | some fs =>
          let (x', calls) := Requester.sync failingTag followTag { x with inq := x.inq ++ fs }
          let spi := sp.inq ++ fs
          let (sp0, scalls) := ReplySpec.awaitReplies failingTag (spi.length + 1) spi sp []
          let (sp', complaint) := specFollow x' sp0 scalls
          ({ st with xr := some x', xs := sp' },
           s!"R ok | C {fmtCallsX calls} | I ret=0 rounds=0 waiting={waitingOf x'} | S ok ; {fmtCallsS scalls}{complaint}")
        | none => (st, "bad-op")
      | "sync", [f] =>
        match parseFrames x.idlen f with
        | some fs =>
          -- the harness calls sync until nothing moves any more (a command that reports failure ends one call)
          let n := x.inq.length + fs.length + 2
          let (x', calls) := (List.range n).foldl (fun (acc : Requester.St × List Requester.Call) _ =>
            let r := Requester.sync failingTag followTag acc.1
            (r.1, acc.2 ++ r.2)) ({ x with inq := x.inq ++ fs }, [])
          let (sp', scalls) := (List.range n).foldl (fun (acc : ReplySpec.ReqSt × List (Option Nat × List Byte)) _ =>
            ReplySpec.awaitReplies failingTag (acc.1.inq.length + 1) acc.1.inq acc.1 acc.2) ({ sp with inq := sp.inq ++ fs }, [])
          let (sp', complaint) := specFollow x' sp' scalls
          ({ st with xr := some x', xs := sp' },
           s!"R ok | C {fmtCallsX calls} | I ret=0 rounds=0 waiting={waitingOf x'} | S ok ; {fmtCallsS scalls}{complaint}")
        | none => (st, "bad-op")
      | "close", [] =>
        let scalls := sp.pending.map fun e => s!"h{e.2}(none)"
        ({ st with xr := none, xs := {} },
         s!"R ok | C {fmtCallsX (Requester.close x)} | I ret=0 | S ok ; {if scalls.isEmpty then "-" else ",".intercalate scalls}")
      | _, _ => (st, "bad-op")
  | _ => (st, "bad-op")

/-- internals section replaced (the C++ wrapper answers with a bool) -/
def withoutRet (ln : String) : String :=
  " | ".intercalate ((ln.splitOn " | ").map fun p => if p.startsWith "I " then "I ret=-" else p)

partial def step (st : St) (w : List String) : St × String :=
  -- `xc`: the same context armed through the C++ wrapper reply_data::set (mpt++/event.cpp): same model, same demands
  if w.head? = some "xc" then
    match w with
    | ["xc", "ctx", n] => if n.toNat?.isSome ∧ !n.startsWith "+" then
        let r := step { st with sched := [] } ["r", "ctx", n]; (r.1, withoutRet r.2) else (st, "bad-op")
    | ["xc", "arm", h] => if (parseHex h).isSome then let r := step st ["r", "arm", h]; (r.1, withoutRet r.2) else (st, "bad-op")
    | ["xc", "reply", m] => let r := step st ["r", "reply", m]; (r.1, withoutRet r.2)
    | ["xc", "drop", "ctx"] => let r := step st ["r", "drop", "ctx"]; (r.1, withoutRet r.2)
    | _ => (st, "bad-op")
  else
  if w.head? = some "s" then stepS st w else
  if w.head? = some "c" then stepC st w else
  if w.head? = some "xr" then stepX st w else
  match w with
  | ["r", "id2buf", ids, ws] =>
    match ids.toNat?, ws.toNat? with
    | some id, some wd =>
      if id ≥ 2 ^ 64 ∨ wd > 4096 ∨ ids.startsWith "+" then (st, "bad-op") else
      let sp := match ReplySpec.encode id wd with
        | some bs => s!"ok id={toHex bs} ; -"
        | none => "refused ; -"
      match MsgId.id2buf id wd with
      | .ok (bs, used) => (st, line s!"ok id={toHex bs}" "-" (toString used) sp)
      | .err e => (st, line "refused" "-" e.name sp)
      | _ => (st, line "FAULT" "-" "FAULT" sp)
    | _, _ => (st, "bad-op")
  | ["r", "buf2id", h] =>
    match parseHex h with
    | some bs =>
      let sp := match ReplySpec.decode bs with
        | some v => s!"ok id={v} ; -"
        | none => "refused ; -"
      match MsgId.buf2id bs with
      | .ok (v, used) => (st, line s!"ok id={v}" "-" (toString used) sp)
      | .err e => (st, line "refused" "-" e.name sp)
      | _ => (st, line "FAULT" "-" "FAULT" sp)
    | none => (st, "bad-op")
  | "r" :: "send" :: rest =>
    if rest.length > 64 ∨ rest.any (fun x => x ≠ "ok" ∧ x ≠ "fail") then (st, "bad-op")
    else ({ st with sched := rest.map (· == "ok") }, line "ok" "-" "0" "ok ; -")
  | "r" :: "ctx" :: ws :: rest =>
    if rest ≠ [] ∧ rest ≠ ["noptr"] then (st, "bad-op") else
    match ws.toNat? with
    | some wd =>
      if wd > 100000 then (st, "bad-op") else
      let ptr := rest = []
      let sp := if wd ≤ 65535 then "ok ; -" else "refused ; -"
      match Reply.create wd ptr with
      | some c =>
        ({ st with c := some c, s := { w := wd, attached := ptr, cur := none, held := [], owner := true }, live := [] },
         line "ok" "-" "0" sp)
      | none => ({ st with c := none, s := {}, live := [] }, line "refused" "-" "0" sp)
    | none => (st, "bad-op")
  | "r" :: op :: args =>
    match st.c with
    | none => (st, "bad-op")
    | some c =>
      let s := st.s
      let ans := nextAns st
      match op, args with
      | "arm", [h] =>
        -- `self:<hex>`: the id bytes already stand in the context's own buffer (same outcome demanded)
        match (if h.startsWith "self:" then (parseHex (h.drop 5).toString).map fun b => (some b, b.length) else parseData h) with
        | some (b, n) =>
          if !c.owner ∨ n > 70000 then (st, "bad-op") else
          let bytes := b.getD (List.replicate n 0)
          -- spec: a request that still waits for its answer may not be overwritten (it would never be answered);
          -- otherwise the id is taken iff it fits the header.  The context itself must stay intact.
          let sp := if s.attached ∧ s.cur.isSome then "refused ctx=intact ; -"
            else if !s.attached ∧ s.cur.isSome then "refused ctx=intact ; - || ok ctx=intact ; -"
            else if bytes.length ≤ s.w then "ok ctx=intact ; -" else "refused ctx=intact ; -"
          let (ret, c') := Reply.arm c bytes
          let s' := if ret < 0 then s else { s with cur := if bytes.isEmpty then none else some bytes }
          ({ st with c := some c', s := s' }, line (if ret < 0 then "refused ctx=intact" else "ok ctx=intact") "-" (errName ret) sp)
        | none => (st, "bad-op")
      | "probe", [] =>
        if !c.owner then (st, "bad-op") else
        let t := "ok types=8208 conv0=0,130 unknown=BadType clone=no ctx=intact"
        (st, line t "-" "0" s!"{t} ; -")
      | "reref", [] =>
        if !c.owner then (st, "bad-op") else
        let alts : List ReplySpec.Alt :=
          match s.attached, s.cur with
          | true, some id => [(true, [⟨ReplySpec.mark id, none, ans⟩])]
          | _, _ => [(true, [])]
        let c' := Reply.reref c (ansCode ans)
        let calls := newCalls c c'
        ({ st with c := some c', s := { s with cur := if s.attached ∧ ans then none else s.cur, attached := false },
                   sched := popSched st calls.length },
         line "ok" (fmtCalls (callsOf calls)) "0" (fmtAlts "ok" alts))
      | "creply", [cs, h] =>
        match cs.toInt?, parseHex h with
        | some code, some text =>
          if !c.owner ∨ cs.startsWith "+" ∨ code < -1000 ∨ code > 1000 ∨ text.length > 600 ∨ text.contains 0 then (st, "bad-op") else
          if code < -128 ∨ code > 127 then (st, line "refused" "-" "BadArgument" "refused ; -") else
          -- vsnprintf into char[256]: longer texts are cut to 255 characters plus the terminator
          let txt := if text.length ≥ 256 then text.take 255 ++ [0] else text
          let msg : Option (List Byte) := some ([1, argByte code] ++ txt)
          let alts := ReplySpec.answerAlts s.attached s.cur msg ans
          let (ret, c') := Reply.reply c msg (ansCode ans)
          let calls := newCalls c c'
          let s' := if s.attached ∧ s.cur.isSome ∧ ans then { s with cur := none } else s
          ({ st with c := some c', s := s', sched := popSched st calls.length },
           line (if ret < 0 then "refused" else "ok") (fmtCalls (callsOf calls)) (errName (if ret < 0 then ret else 0)) (fmtAlts "ok" alts))
        | _, _ => (st, "bad-op")
      | "lreply", [cs, h] =>
        -- no reply context: nobody to answer, the text is only logged; never a transport call
        match cs.toInt?, parseHex h with
        | some code, some text =>
          if !c.owner ∨ cs.startsWith "+" ∨ code < -1000 ∨ code > 1000 ∨ text.length > 600 ∨ text.contains 0 then (st, "bad-op") else
          if code < -128 ∨ code > 127 then (st, line "refused" "-" "BadArgument" "refused ; -") else
          if text.isEmpty then (st, line "ok" "-" "0" "ok ; -") else (st, line "logged" "-" "1" "logged ; -")
        | _, _ => (st, "bad-op")
      | "reply", [m] =>
        match parseMsg m with
        | some msg =>
          if !c.owner then (st, "bad-op") else
          let alts := ReplySpec.answerAlts s.attached s.cur msg ans
          let (ret, c') := Reply.reply c msg (ansCode ans)
          let calls := newCalls c c'
          let s' := if s.attached ∧ s.cur.isSome ∧ ans then { s with cur := none } else s
          ({ st with c := some c', s := s', sched := popSched st calls.length },
           line (if ret < 0 then "refused" else "ok") (fmtCalls (callsOf calls)) (errName ret) (fmtAlts "ok" alts))
        | none => (st, "bad-op")
      | "defer", [] =>
        if !c.owner ∨ st.live.length ≥ 32 then (st, "bad-op") else
        let k := st.live.length
        let alts : List ReplySpec.Alt :=
          if s.cur.isSome ∨ !s.attached then [(true, []), (false, [])] else [(false, [])]
        match Reply.defer c with
        | (some _, c') =>
          ({ st with c := some c', s := { s with held := s.held ++ [s.cur], cur := none }, live := st.live ++ [true] },
           line s!"ok h{k}" "-" "0" (fmtAlts s!"ok h{k}" alts))
        | (none, c') => ({ st with c := some c' }, line "refused" "-" "0" (fmtAlts s!"ok h{k}" alts))
      | "defer", ["nomem"] =>
        -- the allocation of the deferred handle fails: refused, the request stays with the context
        if !c.owner ∨ st.live.length ≥ 32 then (st, "bad-op") else
        let k := st.live.length
        let alts : List ReplySpec.Alt :=
          if s.cur.isSome ∨ !s.attached then [(true, []), (false, [])] else [(false, [])]
        (st, line "refused" "-" "0" (fmtAlts s!"ok h{k}" alts))
      | "drop", ["ctx"] =>
        if !c.owner then (st, "bad-op") else
        let alts : List ReplySpec.Alt :=
          match s.attached, s.cur with
          | true, some id => [(true, [⟨ReplySpec.mark id, none, ans⟩])]
          | _, _ => [(true, [])]
        let c' := Reply.dropCtx c (ansCode ans)
        let calls := newCalls c c'
        let s' := { s with owner := false, cur := none, attached := s.attached && !anyLive st.live }
        ({ st with c := some c', s := s', sched := popSched st calls.length },
         line "ok" (fmtCalls (callsOf calls)) "0" (fmtAlts "ok" alts))
      | _, ks :: rest =>
        -- dreply <k> <msg>  |  drop <k>
        let msgArg : Option (Option (List Byte)) :=
          match op, rest with
          | "dreply", [m] => parseMsg m
          | "drop", [] => some none
          | _, _ => none
        match ks.toNat?, msgArg with
        | some k, some msg =>
          if !(st.live.getD k false) then (st, "bad-op") else
          let r := (s.held.getD k none)
          let alts : List ReplySpec.Alt :=
            if msg.isSome then ReplySpec.answerAlts s.attached r msg ans
            else if !s.attached then [(true, []), (false, [])]
            else match r with
              | some id => [(true, [⟨ReplySpec.mark id, none, ans⟩])]
              | none => [(true, [])]
          let (ret, c') := Reply.dreply c k msg (ansCode ans)
          let calls := newCalls c c'
          let gone := !(ret < 0 ∧ msg.isSome)
          let s' := { s with held := if gone ∨ (s.attached ∧ ans) then s.held.set k none else s.held }
          ({ st with c := some c', s := s', live := if gone then st.live.set k false else st.live,
                     sched := popSched st calls.length },
           line (if ret < 0 then "refused" else "ok") (fmtCalls (callsOf calls)) (errName ret) (fmtAlts "ok" alts))
        | _, _ => (st, "bad-op")
      | _, _ => (st, "bad-op")
  | _ => (st, "bad-op")

def main (_args : List String) : IO Unit := do
  Driver.loop (← IO.getStdin) (← IO.getStdout) step ({} : St)

end Driver.Reply
