import Driver.Ident
def main (args : List String) : IO Unit := Driver.Ident.main args
