import Driver.Refcount
def main (args : List String) : IO Unit := Driver.Refcount.main args
