import Driver.Iter
def main (args : List String) : IO Unit := Driver.Iter.main args
