import Driver.Types
def main (args : List String) : IO Unit := Driver.Types.main args
