import Driver.Codec
def main (args : List String) : IO Unit := Driver.Codec.main args
