import Driver.Message
def main (args : List String) : IO Unit := Driver.Message.main args
