import MptModel.Impl.Refs
import Driver.Util
/-
  Model driver for the `r` lines of C05 (harness/drv_refs.c): buffers whose elements are references — arrays of arrays
  (array_traits.c), arrays of metatype references (meta_reference_traits.c), leaf arrays of harness tokens.
  Same op lines and output format as the C driver.  S: the bookkeeping finds nothing illegal (`R legal`), whatever the
  operation returns; the model's own R is computed here by `judgeRefs` from the model's events and state (it is not
  a constant), so a model that released something twice or lost a reference would show up as `m_ne_s`.
-/
namespace Driver.Refs
open Mpt Mpt.Refs

/-- S of C04 for arrays of arrays: the nested value a handle reads (no sharing: every handle is a value of its own) -/
inductive STree where
  | none
  | arr (cs : List STree)
  deriving Inhabited

mutual
def STree.render : STree → String
  | .none => "-"
  | .arr cs => "A[" ++ STree.renderList cs ++ "]"
def STree.renderList : List STree → String
  | [] => ""
  | [c] => c.render
  | c :: d :: cs => c.render ++ " " ++ STree.renderList (d :: cs)
end

structure RSt where
  m : State := {}
  nh : Nat := 0
  seenLog : Nat := 0
  live : List Nat := []                              -- S of C05: live leaf tokens
  illegal : String := ""                             -- first illegal observation (sticky, as in the C harness)
  exact : Bool := false                              -- C04: S = every handle is an independent nested value
  sp : List (Option (List (Option (List Nat)))) := []   -- S of the stage part: per handle, per dimension, the values
  tsp : List STree := []                             -- S of C04: arrays of arrays as nested values
  items : Option Bool := none                        -- C++ part: the handles of this script are item_array (true) / reference_array
  deriving Inhabited

def evStr : Ev → String
  | .init t => s!"i{t}"
  | .copy t k => s!"c{t}<{k}"
  | .fini t => s!"f{t}"
  | .mnew o => s!"m{o}"
  | .addref o => s!"a{o}"
  | .refuse o => s!"n{o}"
  | .unref o => s!"u{o}"
  | .dead o => s!"d{o}"
  | .unrefDead o => s!"u{o}!"

def handleArg (nh : Nat) (s : String) : Option Nat :=
  if s.startsWith "h" then
    match (s.drop 1).toString.toNat? with
    | some v => if v < nh ∧ ¬ (s.drop 1).toString.startsWith "+" then some v else none
    | none => none
  else none

def nat? (s : String) : Option Nat := if s.startsWith "+" ∨ s.startsWith "-" then none else s.toNat?

def intArg (s : String) : Option Int :=
  if s.startsWith "-" ∧ s.length > 1 then
    match nat? (s.drop 1).toString with
    | some a => if a > 1000 then none else some (- Int.ofNat a)
    | none => none
  else match nat? s with
    | some a => if a > 1000 then none else some (Int.ofNat a)
    | none => none

/-- structure below buffer `b`; `path` guards against cycles -/
def tree : Nat → State → List Nat → Option Nat → String
  | 0, _, _, _ => "~"
  | _, _, _, none => "-"
  | fuel + 1, s, path, some b =>
    if path.contains b then "^"
    else if path.length ≥ 12 then "~"
    else
      match s.buf? b with
      | none => "?"
      | some x =>
        let items := x.elems.map fun e =>
          match e with
          | .tok t => toString t
          | .arr c => tree fuel s (path ++ [b]) c
          | .mref (some o) => s!"o{o}"
          | .mref none => "-"
          | .num k => toString k
        let tag := match x.kind with
          | .tok => "T"
          | .arr => "A"
          | .mref => "M"
          | .uref => "U"
          | .vst => "V"
          | .dbl => "D"
        tag ++ "[" ++ " ".intercalate items ++ "]"

/-- references met from the handle table: (buffers in first-visit order with the number of references to each) -/
def refCounts (m : State) (nh : Nat) : List (Nat × Nat) :=
  let order := (List.range nh).foldl (fun acc h =>
    match m.handle h with
    | some b => reach (fuelOf m) m acc b
    | none => acc) []
  order.map fun b =>
    let fromHandles := ((List.range nh).filter fun h => m.handle h = some b).length
    let fromElems := (order.map fun c =>
      match m.buf? c with
      | some x => (x.elems.filter fun e => e = .arr (some b)).length
      | none => 0).sum
    (b, fromHandles + fromElems)

/-- the judgement of the harness on the model's own state and events: token events legal (created once, copied from a
    live token, destroyed while alive), every live token stored exactly once in a reachable leaf buffer, reference
    counts of buffers and instances equal to the references that exist, nothing released twice -/
def judgeRefs (st : RSt) (m : State) (final : Bool) : List Nat × String :=
  let evs := m.log.drop st.seenLog
  let (lv, bad) := evs.foldl (fun (acc : List Nat × String) e =>
    let (lv, bad) := acc
    if bad ≠ "" then acc else
    match e with
    | .init t => if lv.contains t then (lv, s!"init-live:{t}") else (t :: lv, "")
    | .copy t k => if ¬ lv.contains k then (lv, s!"copy-from-dead:{k}") else if lv.contains t then (lv, s!"copy-live:{t}") else (t :: lv, "")
    | .fini t => if lv.contains t then (lv.erase t, "") else (lv, s!"fini-dead:{t}")
    | .unrefDead o => (lv, s!"unref-dead:{o}")
    | _ => acc) (st.live, st.illegal)
  if bad ≠ "" then (lv, bad) else
  let counts := refCounts m st.nh
  let bufs := counts.map (·.1)
  let badRef := (List.range counts.length).find? fun i =>
    match counts[i]? with
    | some (b, n) => (match m.buf? b with | some x => x.ref ≠ n | none => true)
    | none => false
  match badRef with
  | some i => (lv, s!"buf-refcount:{i}")
  | none =>
    let stored := bufs.flatMap fun b => match m.buf? b with
      | some x => x.elems.filterMap fun e => match e with | .tok t => some t | _ => none
      | none => []
    let objRefs (o : Nat) : Nat := (bufs.map fun b => match m.buf? b with
      | some x => (x.elems.filter fun e => e = .mref (some o)).length
      | none => 0).sum
    let badObj := (List.range m.objs.length).find? fun i =>
      match m.objs[i]? with
      | some ob => if ob.dead then objRefs (i + 1) ≠ 0 else ob.refs ≠ objRefs (i + 1)
      | none => false
    match badObj with
    | some i =>
      let dead := (m.objs[i]?.map (·.dead)).getD false
      (lv, if dead then s!"stored-dead-obj:{i + 1}" else if final then s!"obj-alive-at-end:{i + 1}" else s!"obj-refcount:{i + 1}")
    | none =>
      match stored.find? (fun t => ¬ lv.contains t) with
      | some t => (lv, s!"stored-dead:{t}")
      | none =>
        if ¬ stored.Nodup then (lv, "stored-twice")
        else match lv.find? (fun t => ¬ stored.contains t) with
          | some t => (lv, if final then s!"alive-at-end:{t}" else s!"live-not-stored:{t}")
          | none => (lv, "")

def render (st0 : RSt) (m : State) (verdict ret : String) (final : Bool := false) : RSt × String :=
  let (lv, bad) := judgeRefs st0 m final
  let st := { st0 with live := lv, illegal := bad }
  let legal := if bad = "" then "legal" else bad
  let evs := (m.log.drop st.seenLog).map evStr
  let evText := if evs.isEmpty then "-" else ",".intercalate evs
  let hsText := (List.range st.nh).map fun h => s!" h{h}=" ++ tree (fuelOf m + 14) m [] (m.handle h)
  let order := (List.range st.nh).foldl (fun acc h =>
    match m.handle h with
    | some b => reach (fuelOf m) m acc b
    | none => acc) []
  let bufsText := if order.isEmpty then "-" else ",".intercalate (order.map fun b =>
    match m.buf? b with
    | some x => s!"r{x.ref}"
    | none => "r?")
  let objsText := if m.objs.isEmpty then "-" else ",".intercalate ((List.range m.objs.length).map fun i =>
    match m.objs[i]? with
    | some o => if o.dead then s!"o{i + 1}:x" else s!"o{i + 1}:r{o.refs}"
    | none => "?")
  let specText (sp : List (Option (List (Option (List Nat))))) : String :=
    String.join ((List.range st.nh).map fun h =>
      s!" h{h}=" ++ match sp.getD h none with
        | none => (st.tsp.getD h .none).render
        | some dims => "V[" ++ " ".intercalate (dims.map fun d => match d with
            | none => "-"
            | some vs => "D[" ++ " ".intercalate (vs.map toString) ++ "]") ++ "]")
  let sText := if st.exact then s!"legal ; {verdict} ev=-" ++ specText st.sp else "legal ; *"
  ({ st with m := m, seenLog := m.log.length },
   s!"R {legal} | C {verdict} ev={evText}" ++ String.join hsText ++ s!" | I ret={ret} bufs={bufsText} objs={objsText} | S {sText}")

def retInt (r : Int) : String × String :=
  if r < 0 then ("refused", match r with
    | -1 => "BadArgument" | -2 => "BadValue" | -3 => "BadType" | -4 => "BadOperation" | _ => "ERR?")
  else ("ok", toString r)

def count (m : State) (h : Nat) : Nat :=
  match (m.handle h).bind m.buf? with
  | some x => x.elems.length
  | none => 0

def kindOf (m : State) (h : Nat) : Option Kind := ((m.handle h).bind m.buf?).map (·.kind)

/-- drop every handle (`r end`) -/
def dropAll (m : State) (nh : Nat) : State :=
  (List.range nh).foldl (fun s h => (arrayClone s h none true).1) m

/-- append one element to the private buffer of `h` (after `mpt_array_insert` at the end) -/
def appendElem (m : State) (h : Nat) (e : Elem) : State :=
  match m.handle h with
  | some b =>
    (match m.buf? b with
     | some x => m.setBuf b { x with elems := x.elems ++ [e] }
     | none => m)
  | none => m

def step (exact : Bool) (st : RSt) (w : List String) : RSt × String :=
  let bad : RSt × String := (st, "bad-op")
  let m := st.m
  match w with
  | ["r", "handles", n] =>
    match nat? n with
    | some n =>
      if n < 1 ∨ n > 6 then bad
      else
        let st' : RSt := { m := { hs := List.replicate n none }, nh := n, seenLog := 0, exact := exact, sp := List.replicate n none,
                           tsp := List.replicate n .none }
        render st' st'.m "ok" "-"
    | none => bad
  | ["r", "end"] => if st.nh = 0 then bad else render { st with sp := List.replicate st.nh none, tsp := List.replicate st.nh .none } (dropAll m st.nh) "ok" "-" true
  | "r" :: op :: hs :: args =>
    if st.nh = 0 then bad
    else
      match handleArg st.nh hs with
      | none => bad
      | some h =>
        match op, args with
        | "drop", [] =>
          let (m1, r) := arrayClone m h none true
          render { st with sp := st.sp.set h none, tsp := st.tsp.set h .none } m1 (retInt r).1 (retInt r).2
        | "clone", [h2] =>
          match handleArg st.nh h2 with
          | some h2 =>
            let (m1, r) := arrayClone m h (m.handle h2) false
            let sp := if r < 0 then st.sp else st.sp.set h (st.sp.getD h2 none)
            let tsp := if r < 0 then st.tsp else st.tsp.set h (st.tsp.getD h2 .none)
            render { st with sp := sp, tsp := tsp } m1 (retInt r).1 (retInt r).2
          | none => bad
        | "sput", [dim, k] =>
          match nat? dim, nat? k with
          | some dim, some k =>
            if dim > 6 ∨ k > 99 then bad
            else
              let (m1, ok) := stagePut m h dim k
              if ok then
                let dims := (st.sp.getD h none).getD []
                let dims := dims ++ List.replicate (dim + 1 - dims.length) none
                let dims := dims.set dim (some ((dims.getD dim none).getD [] ++ [k]))
                render { st with sp := st.sp.set h (some dims) } m1 "ok" "-"
              else render st m1 "refused" "null"
          | _, _ => bad
        | "leaf", [k] =>
          match nat? k with
          | some k =>
            if k > 16 ∨ k = 0 then bad
            else
              let (m1, _) := arrayClone m h none true
              let toks := (List.range k).map fun i => Elem.tok (m1.next + i)
              let m2 := { m1 with next := m1.next + k, log := m1.log ++ (List.range k).map fun i => Ev.init (m1.next + i) }
              let nb := m2.bufs.length
              let m3 := (m2.newBuf { ref := 1, kind := .tok, elems := toks }).setHandle h (some nb)
              render st m3 "ok" "ptr"
          | none => bad
        | "wrap", [] =>
          let old := m.handle h
          let nb := m.bufs.length
          -- the element takes its own reference, the handle's reference is released
          let m1 := m.newBuf { ref := 1, kind := .arr, elems := [.arr old] }
          render { st with tsp := st.tsp.set h (.arr [st.tsp.getD h .none]) } (m1.setHandle h (some nb)) "ok" "-"
        | "push", [h2] =>
          match handleArg st.nh h2 with
          | some h2 =>
            if (kindOf m h).isSome ∧ kindOf m h ≠ some .arr then bad
            else
              let src := m.handle h2
              -- no cycles: the buffer of `h` must not be reachable from the new element
              let cyc : Bool := match src, m.handle h with
                | some a, some b => reachable m a b
                | _, _ => false
              if cyc then bad
              else
                let m0 := match m.handle h with
                  | some _ => m
                  | none => (m.newBuf { ref := 1, kind := .arr, elems := [] }).setHandle h (some m.bufs.length)
                let (m1, _) := detach m0 h
                let m2 := match src with
                  | some a => addrefBuf m1 a
                  | none => m1
                let cs := match st.tsp.getD h .none with
                  | .arr cs => cs
                  | .none => []
                render { st with tsp := st.tsp.set h (.arr (cs ++ [st.tsp.getD h2 .none])) } (appendElem m2 h (.arr src)) "ok" "-"
          | none => bad
        | "take", [i] =>
          match nat? i, (m.handle h).bind m.buf? with
          | some i, some x =>
            if x.kind ≠ .arr ∨ i ≥ x.elems.length then bad
            else
              match x.elems[i]? with
              | some (.arr c) =>
                let (m1, r) := arrayClone m h c false
                -- S: the handle becomes the value of its former element
                let child := match st.tsp.getD h .none with
                  | .arr cs => cs.getD i .none
                  | .none => .none
                render { st with tsp := if r < 0 then st.tsp else st.tsp.set h child } m1 (retInt r).1 (retInt r).2
              | _ => bad
          | _, _ => bad
        | "takeo", [h2, i] =>
          match handleArg st.nh h2 with
          | some h2 =>
            match nat? i, (m.handle h2).bind m.buf? with
            | some i, some x =>
              if x.kind ≠ .arr ∨ i ≥ x.elems.length then bad
              else
                match x.elems[i]? with
                | some (.arr c) =>
                  let (m1, r) := arrayClone m h c false
                  let child := match st.tsp.getD h2 .none with
                    | .arr cs => cs.getD i .none
                    | .none => .none
                  render { st with tsp := if r < 0 then st.tsp else st.tsp.set h child } m1 (retInt r).1 (retInt r).2
                | _ => bad
            | _, _ => bad
          | none => bad
        | "detach", [] =>
          let (m1, r) := detach m h
          if r.isSome then render st m1 "ok" "ptr" else render st m1 "refused" "null"
        | "cut", [i] =>
          match nat? i with
          | some i =>
            if i ≥ count m h then bad
            else
              let (m1, r) := detach m h
              match r.bind m1.buf?, r with
              | some x, some b =>
                let e := x.elems.getD i (.arr none)
                let m2 := finiElem m1 e
                -- the element is destroyed while the buffer still holds it; the buffer itself is private and alive
                let m3 := match m2.buf? b with
                  | some y => m2.setBuf b { y with elems := y.elems.eraseIdx i }
                  | none => m2
                render st m3 "ok" "-"
              | _, _ => render st m1 "refused" "null"
          | none => bad
        | "set", [i, h2, j, n] =>
          match nat? i, handleArg st.nh h2, nat? j, nat? n with
          | some i, some h2, some j, some n =>
            match (m.handle h2).bind m.buf? with
            | none => bad
            | some sx =>
              if n = 0 ∨ n > 8 ∨ m.handle h2 = m.handle h ∨ j + n > sx.elems.length then bad
              else if (kindOf m h).isSome ∧ (kindOf m h ≠ some sx.kind ∨ i > count m h) then bad
              else if (kindOf m h).isNone ∧ i ≠ 0 then bad
              else
                let srcs := (sx.elems.drop j).take n
                let m0 := match m.handle h with
                  | some _ => m
                  | none => (m.newBuf { ref := 1, kind := sx.kind, elems := [] }).setHandle h (some m.bufs.length)
                let (m1, r) := detach m0 h
                match r.bind m1.buf?, r with
                | some x, some b =>
                  -- the new elements are copy-constructed first, then the replaced ones are destroyed (a new element
                  -- may refer to the same buffer or instance as the one it replaces)
                  let old := (x.elems.drop i).take n
                  let (m2, es) := copyElems m1 srcs
                  let m3 := match m2.buf? b with
                    | some y => m2.setBuf b { y with elems := y.elems.take i ++ es ++ y.elems.drop (i + n) }
                    | none => m2
                  let m4 := old.foldl finiElem m3
                  render st m4 "ok" "ptr"
                | _, _ => render st m1 "refused" "null"
          | _, _, _, _ => bad
        -- reference_array<Obj> (harness/drvxx_refs.cpp)
        | "rdrop", [] =>
          let (m1, _) := arrayClone m h none true
          render st m1 "ok" "-"
        | "rclone", [h2] =>
          match handleArg st.nh h2 with
          | some h2 =>
            -- reference<content>::operator=: nothing when both hold the same buffer
            if m.handle h2 = m.handle h then render st m "ok" "-"
            else
              let m1 := match m.handle h2 with
                | some a => addrefBuf m a
                | none => m
              let m2 := m1.setHandle h (m.handle h2)
              let m3 := match m.handle h with
                | some b => unrefBuf (fuelOf m2) m2 b
                | none => m2
              render st m3 "ok" "-"
          | none => bad
        | "iappend", [sh, nlen] =>
          -- item_array<T>::append(new object, name): insert an empty item at the end, assign the name (refused by the
          -- identifier when name and terminator exceed 16 bit: the new item is removed again, empty), store the
          -- reference; on refusal the caller keeps (here: drops) its reference
          match nat? sh, (if nlen = "-" then some none else (nat? nlen).map some) with
          | some sh, some nl =>
            if sh > 1 ∨ st.items = some false ∨ (nl.getD 0) > 100000 then bad
            else if (kindOf m h).isSome ∧ kindOf m h ≠ some .uref then bad
            else
              let st := { st with items := some true }
              let o := m.objs.length + 1
              let m0 := { m with objs := m.objs ++ [({ refs := 1, sharable := sh = 1 } : Obj)], log := m.log ++ [Ev.mnew o] }
              let m1 := match m0.handle h with
                | some _ => m0
                | none => (m0.newBuf { ref := 1, kind := .uref, elems := [] }).setHandle h (some m0.bufs.length)
              let (m2, r) := detach m1 h
              match r.bind m2.buf?, r with
              | some x, some b =>
                if (nl.getD 0) + 1 > 65535 then render st (unrefObj m2 o) "refused" "false"
                else render st (m2.setBuf b { x with elems := x.elems ++ [Elem.mref (some o)] }) "ok" "true"
              | _, _ => render st (unrefObj m2 o) "refused" "false"
          | _, _ => bad
        | "iclear", [pos] =>
          -- the item at pos releases its instance, in place
          match intArg pos with
          | some pos =>
            if st.items ≠ some true ∨ pos < -1000 ∨ pos > 1000 then bad
            else
              let len := count m h
              let p : Option Nat :=
                if pos < 0 then (if pos + Int.ofNat len < 0 then none else some (pos + Int.ofNat len).toNat)
                else if pos.toNat ≥ len then none else some pos.toNat
              match p, m.handle h with
              | some p, some b =>
                (match m.buf? b with
                 | some x =>
                   let m1 := finiElem m (x.elems.getD p (.mref none))
                   (match m1.buf? b with
                    | some y => render st (m1.setBuf b { y with elems := y.elems.set p (.mref none) }) "ok" "-"
                    | none => render st m1 "ok" "-")
                 | none => render st m "refused" "null")
              | _, _ => render st m "refused" "null"
          | none => bad
        | "icount", [] =>
          if st.items ≠ some true then bad
          else
            let es := (((m.handle h).bind m.buf?).map (·.elems)).getD []
            render st m "ok" (toString (es.filter fun e => e ≠ .mref none).length)
        | "icompact", [] =>
          -- item_array::compact(): empty items are removed, in place; false when there is none
          if st.items ≠ some true then bad
          else
            match m.handle h with
            | some b =>
              (match m.buf? b with
               | some x =>
                 if x.elems.all (fun e => e ≠ .mref none) then render st m "refused" "false"
                 else render st (m.setBuf b { x with elems := x.elems.filter fun e => e ≠ .mref none }) "ok" "true"
               | none => render st m "refused" "false")
            | none => render st m "refused" "false"
        | "rins", [pos, sh] =>
          if st.items = some true then bad else
          let st := { st with items := some false }
          match intArg pos, nat? sh with
          | some pos, some sh =>
            if sh > 1 then bad
            else if (kindOf m h).isSome ∧ kindOf m h ≠ some .uref then bad
            else
              let o := m.objs.length + 1
              let m0 := { m with objs := m.objs ++ [({ refs := 1, sharable := sh = 1 } : Obj)], log := m.log ++ [Ev.mnew o] }
              let len := count m0 h
              let p : Option Nat := if pos < 0 then (if pos + Int.ofNat len < 0 then none else some (pos + Int.ofNat len).toNat) else some pos.toNat
              match p with
              | none => render st (unrefObj m0 o) "refused" "false"
              | some p =>
                let m1 := match m0.handle h with
                  | some _ => m0
                  | none => (m0.newBuf { ref := 1, kind := .uref, elems := [] }).setHandle h (some m0.bufs.length)
                let (m2, r) := detach m1 h
                match r.bind m2.buf?, r with
                | some x, some b =>
                  let padded := x.elems ++ List.replicate (p - x.elems.length) (Elem.mref none)
                  let es := padded.take p ++ [Elem.mref (some o)] ++ padded.drop p
                  render st (m2.setBuf b { x with elems := es }) "ok" "true"
                | _, _ => render st (unrefObj m2 o) "refused" "false"
          | _, _ => bad
        | "rset", [pos, sh] =>
          if st.items = some true then bad else
          let st := { st with items := some false }
          match intArg pos, nat? sh with
          | some pos, some sh =>
            if sh > 1 then bad
            else if (kindOf m h).isSome ∧ kindOf m h ≠ some .uref then bad
            else
              let o := m.objs.length + 1
              let m0 := { m with objs := m.objs ++ [({ refs := 1, sharable := sh = 1 } : Obj)], log := m.log ++ [Ev.mnew o] }
              let len := count m0 h
              let p : Option Nat :=
                if pos < 0 then (if pos + Int.ofNat len < 0 then none else some (pos + Int.ofNat len).toNat)
                else if pos.toNat ≥ len then none else some pos.toNat
              match p, m0.handle h with
              | some p, some b =>
                (match m0.buf? b with
                 | some x =>
                   -- in place, whoever shares the buffer: the old reference is released, the new one stored
                   let m1 := finiElem m0 (x.elems.getD p (.mref none))
                   (match m1.buf? b with
                    | some y => render st (m1.setBuf b { y with elems := y.elems.set p (.mref (some o)) }) "ok" "true"
                    | none => render st m1 "ok" "true")
                 | none => render st (unrefObj m0 o) "refused" "false")
              | _, _ => render st (unrefObj m0 o) "refused" "false"
          | _, _ => bad
        | "bcopy", [h2] =>
          -- buffer::copy(from) on the buffers of two reference arrays, in place: references have no copy constructor,
          -- so only an empty source can be copied (the target's elements are released); otherwise refused unchanged
          if st.items = some true then bad else
          match handleArg st.nh h2 with
          | none => bad
          | some h2 =>
            match m.handle h, m.handle h2 with
            | some b, some a =>
              if kindOf m h ≠ some .uref ∨ kindOf m h2 ≠ some .uref then bad
              else
                let st := { st with items := some false }
                if a = b then render st m "ok" "true"
                else
                  match m.buf? b, m.buf? a with
                  | some x, some y =>
                    if ¬ y.elems.isEmpty then render st m "refused" "false"
                    else
                      let m1 := x.elems.foldl finiElem m
                      (match m1.buf? b with
                       | some z => render st (m1.setBuf b { z with elems := [] }) "ok" "true"
                       | none => render st m1 "ok" "true")
                  | _, _ => bad
            | _, _ => bad
        | "rclear", [] =>
          if st.items = some true then bad else
          let st := { st with items := some false }
          if (kindOf m h).isSome ∧ kindOf m h ≠ some .uref then bad
          else
            match m.handle h with
            | some b =>
              (match m.buf? b with
               | some x =>
                 let n := (x.elems.filter fun e => e ≠ .mref none).length
                 let m1 := x.elems.foldl finiElem m
                 (match m1.buf? b with
                  | some y => render st (m1.setBuf b { y with elems := y.elems.map fun _ => Elem.mref none }) "ok" (toString n)
                  | none => render st m1 "ok" (toString n))
               | none => render st m "ok" "0")
            | none => render st m "ok" "0"
        | "selfset", [i] =>
          match nat? i with
          | some i =>
            if i ≥ count m h ∨ kindOf m h = some .vst ∨ kindOf m h = some .dbl ∨ kindOf m h = some .uref then bad
            else
              -- the source is the copy of the element bytes taken before the call (before a detach)
              let src := (((m.handle h).bind m.buf?).map fun x0 => x0.elems.getD i (.arr none)).getD (.arr none)
              let (m1, r) := detach m h
              match r.bind m1.buf?, r with
              | some x, some b =>
                let old := x.elems.getD i (.arr none)
                let (m2, e) := copyElem m1 src
                let m3 := match m2.buf? b with
                  | some y => m2.setBuf b { y with elems := y.elems.set i e }
                  | none => m2
                render st (finiElem m3 old) "ok" "ptr"
              | _, _ => render st m1 "refused" "null"
          | none => bad
        | "cfgcheck", [n] =>
          -- self-contained exercise of arrays of config items (harness/drv_refs.c): the script's state does not change
          match nat? n with
          | some n => if n > 1000 then bad else render st m "ok" "-"
          | none => bad
        | "identcheck", [n] =>
          -- self-contained exercise of arrays of identifiers (harness/drv_refs.c): nothing of the script's state changes
          match nat? n with
          | some n => if n > 1000 then bad else render st m "ok" "-"
          | none => bad
        | "selfrot", [k] =>
          match nat? k with
          | some k =>
            let n := count m h
            if n = 0 ∨ n > 64 ∨ k > 1000 ∨ ¬ (kindOf m h = some .tok ∨ kindOf m h = some .arr ∨ kindOf m h = some .mref) then bad
            else
              -- the source is a copy of the element bytes, rotated, taken before the call
              let es0 := (((m.handle h).bind m.buf?).map (·.elems)).getD []
              let srcs := es0.drop (k % n) ++ es0.take (k % n)
              let (m1, r) := detach m h
              match r.bind m1.buf?, r with
              | some x, some b =>
                -- as `set`: new elements first, then the replaced ones
                let old := x.elems.take n
                let (m2, es) := copyElems m1 srcs
                let m3 := match m2.buf? b with
                  | some y => m2.setBuf b { y with elems := es ++ y.elems.drop n }
                  | none => m2
                render st (old.foldl finiElem m3) "ok" "ptr"
              | _, _ => render st m1 "refused" "null"
          | none => bad
        | "mnew", [k, sh] =>
          match nat? k, nat? sh with
          | some k, some sh =>
            if k > 64 ∨ sh > 1 then bad
            else
              let (m1, _) := arrayClone m h none true
              let first := m1.objs.length + 1
              let m2 := { m1 with objs := m1.objs ++ List.replicate k ({ refs := 1, sharable := sh = 1 } : Obj),
                                  log := m1.log ++ (List.range k).map fun i => Ev.mnew (first + i) }
              let nb := m2.bufs.length
              let m3 := (m2.newBuf { ref := 1, kind := .mref, elems := (List.range k).map fun i => Elem.mref (some (first + i)) }).setHandle h (some nb)
              render st m3 "ok" "-"
          | _, _ => bad
        | "madd", [sh] =>
          match nat? sh with
          | some sh =>
            if sh > 1 then bad
            else if (kindOf m h).isSome ∧ kindOf m h ≠ some .mref then bad
            else
              let m0 := match m.handle h with
                | some _ => m
                | none => (m.newBuf { ref := 1, kind := .mref, elems := [] }).setHandle h (some m.bufs.length)
              let (m1, _) := detach m0 h
              let o := m1.objs.length + 1
              let m2 := { m1 with objs := m1.objs ++ [({ refs := 1, sharable := sh = 1 } : Obj)], log := m1.log ++ [Ev.mnew o] }
              render st (appendElem m2 h (.mref (some o))) "ok" "-"
          | none => bad
        | _, _ => bad
  | _ => bad

end Driver.Refs
