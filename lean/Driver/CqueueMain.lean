import Driver.Cqueue
def main (args : List String) : IO Unit := Driver.Cqueue.main args
