import Driver.Queue
def main (args : List String) : IO Unit := Driver.Queue.main args
