import Driver.Linepart
def main (args : List String) : IO Unit := Driver.Linepart.main args
