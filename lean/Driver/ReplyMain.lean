import Driver.Reply
def main (args : List String) : IO Unit := Driver.Reply.main args
