import Driver.Layout
def main (args : List String) : IO Unit := Driver.Layout.main args
