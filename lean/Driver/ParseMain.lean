import Driver.Parse
def main (args : List String) : IO Unit := Driver.Parse.main args
