import MptModel.Impl.Message
import MptModel.Spec.Flat
import Driver.Util
namespace Driver.Message
open Mpt Mpt.Flat

/-- state: the cursor of the implementation model (`none` before the first `m frags`/`m qget`).
    The spec has no state of its own: every op is judged against the flat computation on the
    content the cursor denotes before the op. -/
structure St where
  m : Option Msg := none
  deriving Inhabited

def ne0 (m : Msg) : Nat := (m.iov.filter (fun f => f.length ≠ 0)).length

def tail (m0 m : Msg) (code : String) : String :=
  s!" | C {toHex m.flat} | I code={code} u0={m0.used} ne0={ne0 m0} used={m.used} clen={m.clen}"

def posR : Option Nat → String
  | some n => s!"ret={n}"
  | none => "ret=none"
def posCode : Option Nat → String
  | some n => s!"{n}"
  | none => "-2"

/-- byte `i` of generated stream `seed` (harness/drv_biggen.h `big_byte`) -/
def genByte (kind seed i : Nat) : Byte :=
  let v := (i * 131 + seed * 17 + (i / 256) * 7) % 255 + 1
  if kind = 1 ∧ i % 7 = 3 then 0
  else if kind = 2 ∧ i % 5 ≠ 1 ∧ i % 11 ≠ 4 then 0
  else UInt8.ofNat v

/-- fragments of the given sizes cut from the generated stream -/
def genFrags (kind seed : Nat) : List Nat → List (List Byte)
  | sizes =>
    (sizes.foldl (fun (acc : List (List Byte) × Nat) n =>
      (acc.1 ++ [(List.range n).map fun i => genByte kind seed (acc.2 + i)], acc.2 + n)) ([], 0)).1

/-- FNV-1a, 64 bit -/
def fnv64 (b : List Byte) : UInt64 :=
  b.foldl (fun h x => (h ^^^ x.toUInt64) * 0x100000001b3) 0xcbf29ce484222325

def hex16 (v : UInt64) : String :=
  String.ofList ((List.range 16).reverse.map fun i => hexDigit ((v.toNat >>> (4 * i)) % 16))

def digest (b : List Byte) : String := s!"{b.length}:{hex16 (fnv64 b)}"

def bigSizes (s : String) : Option (List Nat) :=
  let parts := s.splitOn ","
  if parts.any (fun p => p.isEmpty ∨ p.length > 7 ∨ !p.all Char.isDigit) then none else parts.mapM (·.toNat?)

/-- line for a position-returning search: model result `r`, spec result `s` -/
def posLine (m : Msg) (r s : Option Nat) : String :=
  s!"R {posR r}{tail m m (posCode r)} | S {posR s} ; {toHex m.flat}"

def parseByte (s : String) : Option Byte :=
  if s.length ≠ 2 then none else
  match parseHex s with
  | some [b] => some b
  | _ => none

/-- "null" → NULL, "-" → "", hex without zero byte → C string -/
def parseCstr (s : String) : Option (Option (List Byte)) :=
  if s = "null" then some none else
  match parseHex s with
  | some b => if b.contains 0 then none else some (some b)
  | none => none

def parseList {α} (f : String → Option α) (s : String) : Option (List α) :=
  let parts := s.splitOn ","
  if parts.length > 64 then none else parts.mapM f

def parseFrag (s : String) : Option Frag := if s = "" then none else parseHex s
def parseSize (s : String) : Option Nat :=
  match s.toNat? with
  | some n => if n ≤ 1048576 then some n else none
  | none => none

def resCode {α} : Res α → String
  | .ok _ => "ok" | .err e => toString e.code | .null => "null" | .oob => "OOB" | .fault => "FAULT"

def step (s : St) (w : List String) : St × String :=
  match w with
  | ["m", "frags", fr] =>
    match parseList parseFrag fr with
    | some (b :: c) =>
      let m : Msg := ⟨b, c⟩
      ({ m := some m }, s!"R ok{tail m m "0"} | S ok ; {toHex m.flat}")
    | _ => (s, "bad-op")
  | ["xm", "big", mode, seeds, kinds, szs, "0", "0"] =>
    -- C++ part: mpt::encode_array::push(const message &) with a COBS / ZPE encoder
    match seeds.toNat?, kinds.toNat?, bigSizes szs with
    | some seed, some kind, some sizes =>
      let total := sizes.foldl (· + ·) 0
      if (mode ≠ "epush" ∧ mode ≠ "ezpe") ∨ seed > 1000 ∨ kind > 2 ∨ sizes.length > 64 ∨ total > 150000 then (s, "bad-op") else
      let frags := genFrags kind seed sizes
      -- the push function takes a part in passes (encoder buffer extended by 128 bytes each time)
      let r := Msg.sappendLoop (fun n => Nat.min n 128) frags [] [] 0
      let flat := frags.flatten
      (s, s!"R ret={r.1} msgs={digest r.2.1} | C - | I code=0 | S ret={flat.length} msgs={digest flat} ; -")
    | _, _, _ => (s, "bad-op")
  | "m" :: "qget" :: mx :: off :: fill :: pos :: take :: flag =>
    if flag ≠ [] ∧ flag ≠ ["novec"] then (s, "bad-op") else
    let novec := flag = ["novec"]
    match mx.toNat?, off.toNat?, parseHex fill, pos.toNat?, take.toNat? with
    | some mx, some off, some f, some pos, some take =>
      if off ≤ mx ∧ f.length ≤ mx ∧ mx ≠ 0 then
        let r := Ring.make mx off f
        let e : Msg := ⟨[], []⟩
        -- the queue's data lies in at most two parts, the first ends with the storage; without a second iovec
        -- a stretch that starts in the first part and runs beyond it cannot be handed out
        let low := Nat.min (mx - off) f.length
        let wraps := pos < low ∧ low < pos + take
        let sp := match Flat.get f pos take with
          | some d => if novec ∧ wraps then "refused ; -" else s!"ok ; {toHex d}"
          | none => "refused ; -"
        match (if novec then Msg.getNoVec r pos take else Msg.get r pos take) with
        | .ok m => ({ m := some m }, s!"R ok{tail e m (toString m.clen)} | S {sp}")
        | x => ({ m := some e }, s!"R refused{tail e e (resCode x)} | S {sp}")
      else (s, "bad-op")
    | _, _, _, _, _ => (s, "bad-op")
  | "m" :: op :: args =>
    match s.m with
    | none => (s, "bad-op")
    | some m =>
      let d := m.flat
      match op, args with
      | "read", n :: rest =>
        if rest ≠ [] ∧ rest ≠ ["nodst"] then (s, "bad-op") else
        match parseSize n with
        | some n =>
          let nodst := rest = ["nodst"]
          let r := m.read n
          let (cp, rst) := Flat.read d n
          ({ m := some r.msg },
           let hd (l : List Byte) : String := match l with | b :: _ => toHex [b] | [] => "none"
           s!"R ret={r.total} out={toHex (if nodst then [] else r.out)} head={hd r.msg.base}{tail m r.msg "0"} | S ret={cp.length} out={toHex (if nodst then [] else cp)} head={hd rst} ; {toHex rst}")
        | none => (s, "bad-op")
      | "len", [] =>
        (s, s!"R ret={m.length}{tail m m "0"} | S ret={Flat.length d} ; {toHex d}")
      | "guards", [] =>
        (s, s!"R guards=-1,-1,-1,-1,-1,-1,-1 efault=7{tail m m "0"} | S guards=-1,-1,-1,-1,-1,-1,-1 efault=7 ; {toHex d}")
      | "chr", [b] =>
        match parseByte b with
        | some b => (s, posLine m (Iov.memchr m.iov b) (Flat.chr d b))
        | none => (s, "bad-op")
      | "rchr", [b] =>
        match parseByte b with
        | some b => (s, posLine m (Iov.memrchr m.iov b) (Flat.rchr d b))
        | none => (s, "bad-op")
      | "fcn", [h] =>
        match parseHex h with
        | some set => (s, posLine m (Iov.memfcn m.iov (fun c => !set.contains c)) (Flat.find (fun c => !set.contains c) d))
        | none => (s, "bad-op")
      | "rfcn", [h] =>
        match parseHex h with
        | some set => (s, posLine m (Iov.memrfcn m.iov (fun c => !set.contains c)) (Flat.rfind (fun c => !set.contains c) d))
        | none => (s, "bad-op")
      | "str", [h] =>
        match parseHex h with
        | some set => (s, posLine m (Iov.memstr m.iov set) (Flat.str d set))
        | none => (s, "bad-op")
      | "rstr", [h] =>
        match parseHex h with
        | some set => (s, posLine m (Iov.memrstr m.iov set) (Flat.rstr d set))
        | none => (s, "bad-op")
      | "tok", [t, c, e] =>
        match parseCstr t, parseCstr c, parseCstr e with
        | some t, some c, some e =>
          let a : TokArgs := { tok := t, com := c.getD [], esc := e.getD [] }
          (s, posLine m (Iov.memtok m.iov a) (Flat.tok d a))
        | _, _, _ => (s, "bad-op")
      | "cpy", [n, sizes] =>
        match n.toInt?, parseList (fun x => if x = "" then none else parseSize x) sizes with
        | some n, some (sz :: szs) =>
          if n > 1048576 ∨ n < -1048576 then (s, "bad-op") else
          let dst : List Frag := (sz :: szs).map (List.replicate · 0x2e)
          let r := Iov.memcpy n m.iov dst
          let (sr, sd) := Flat.cpy n d dst.flatten
          let fmt (ret : Int) : String := if ret < 0 then "ret=refused" else s!"ret={ret}"
          (s, s!"R {fmt r.ret} out={toHex r.dst.flatten}{tail m m (toString r.ret)} | S {fmt sr} out={toHex sd} ; {toHex d}")
        | _, _ => (s, "bad-op")
      | "argv", [b] =>
        match parseByte b with
        | some sep =>
          let sp := match Flat.argv d sep with
            | some (n, d') => s!"ret={n} ; {toHex d'}"
            | none => s!"ret=MissingData ; {toHex d}"
          match m.argv sep with
          | (m1, .ok n) => ({ m := some m1 }, s!"R ret={n}{tail m m1 (toString n)} | S {sp}")
          | (m1, .err e) => ({ m := some m1 }, s!"R ret={e.name}{tail m m1 (toString e.code)} | S {sp}")
          | (m1, x) => ({ m := some m1 }, s!"R ret={resCode x}{tail m m1 (resCode x)} | S {sp}")
        | none => (s, "bad-op")
      | "args", b :: flag =>
        if flag ≠ [] ∧ flag ≠ ["nomem"] then (s, "bad-op") else
        let nomem := flag = ["nomem"]
        match parseByte b with
        | some sep =>
          let sp := (match Flat.args d sep with
            | some (n, c) => s!"ret={n} out={toHex c} ; {toHex d}"
            | none => s!"ret=FAULT out=- ; {toHex d}") ++ (if nomem then s!" || ret=BadOperation out=- ; {toHex d}" else "")
          match m.arrayMessage sep (!nomem) with
          | .ok (n, c) => (s, s!"R ret={n} out={toHex c}{tail m m (toString n)} | S {sp}")
          | .err e => (s, s!"R ret={e.name} out=-{tail m m (toString e.code)} | S {sp}")
          | x => (s, s!"R ret={resCode x} out=-{tail m m (resCode x)} | S {sp}")
        | none => (s, "bad-op")
      | "sappend", [mode] =>
        if mode ≠ "cobs" ∧ mode ≠ "nl" then (s, "bad-op") else
        let fmtW (l : List (List Byte)) : String := if l.isEmpty then "-" else ",".intercalate (l.map fun x => s!"msg[{toHex x}]")
        let r := m.sappend
        let sp := Flat.sappend d
        (s, s!"R ret={r.1} wire={fmtW r.2}{tail m m "0"} | S ret={sp.1} wire={fmtW sp.2} ; {toHex d}")
      | "big", [mode, seeds, kinds, szs, n1s, n2s] =>
        match seeds.toNat?, kinds.toNat?, bigSizes szs, n1s.toNat?, n2s.toNat? with
        | some seed, some kind, some sizes, some n1, some n2 =>
          let total := sizes.foldl (· + ·) 0
          if (mode ≠ "sbuf" ∧ mode ≠ "scobs") ∨ seed > 1000 ∨ kind > 2 ∨ sizes.length > 64 ∨ total > 150000 ∨ n1 > 2000 ∨ n2 > 2000 then (s, "bad-op") else
          let frags := genFrags kind seed sizes
          let pre1 := (List.range n1).map (genByte kind (seed + 1))
          let pre2 := (List.range n2).map (genByte kind (seed + 2))
          let done0 : List (List Byte) := if n1 ≠ 0 ∨ n2 ≠ 0 then [pre1] else []
          -- model: the fragment loop of mpt_stream_append / encode_array::push(message); the push function takes a
          -- part in steps (queue space of 256 bytes)
          let r := Msg.sappendLoop (fun n => Nat.min n 256) frags pre2 done0 0
          let flat := frags.flatten
          let raw := mode = "sbuf"
          let fmt (ms : List (List Byte)) : String :=
            if raw then digest (ms.map (· ++ [0x0a])).flatten else ",".intercalate (ms.map digest)
          let mm := r.2.2 ++ [r.2.1]
          let sm := done0 ++ [pre2 ++ flat]
          (s, s!"R ret={r.1} msgs={fmt mm}{tail m m "0"} | S ret={flat.length} msgs={fmt sm} ; {toHex d}")
        | _, _, _, _, _ => (s, "bad-op")
      | "dhash", [] =>
        let fmtH (h : Option UInt64) : String := match h with
          | some v => "ret=called hash=" ++ String.ofList ((List.range 16).reverse.map fun i => hexDigit ((v.toNat >>> (4 * i)) % 16))
          | none => "ret=refused hash=-"
        let sp := fmtH (Flat.dhash d)
        match m.dhash with
        | .ok h => (s, s!"R {fmtH h}{tail m m (if h.isSome then "0" else "3")} | S {sp} ; {toHex d}")
        | x => (s, s!"R ret={resCode x} hash=-{tail m m (resCode x)} | S {sp} ; {toHex d}")
      | "append", h :: flag =>
        let failAt : Option Nat := match flag with
          | [] => some 0
          | [f] => if f.startsWith "nomem:" then
              match (f.drop 6).toString.toNat? with
              | some k => if k = 0 ∨ k > 64 then none else some k
              | none => none
            else none
          | _ => none
        match failAt, parseHex h with
        | some k, some pre =>
          let r := m.appendSched pre k
          let okAlt := s!"ret=0 out={toHex (Flat.append pre d)} ; {toHex d}"
          let sp := if k = 0 then okAlt else okAlt ++ s!" || ret=MissingBuffer out={toHex pre} ; {toHex d}"
          let rt := if r.ret < 0 then "MissingBuffer" else toString r.ret
          (s, s!"R ret={rt} out={toHex r.out}{tail m m s!"{r.ret} allocs={r.allocs}"} | S {sp}")
        | _, _ => (s, "bad-op")
      | _, _ => (s, "bad-op")
  | _ => (s, "bad-op")

def main (_args : List String) : IO Unit := do
  Driver.loop (← IO.getStdin) (← IO.getStdout) step ({} : St)

end Driver.Message
