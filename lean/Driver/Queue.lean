import MptModel.Impl.Ring
import MptModel.Spec.Deque
import Driver.Util
namespace Driver.Queue
open Mpt Mpt.Ring

/-- state: the implementation model ring and the spec deque, run side by side -/
structure St where
  r : Ring := { store := [], len := 0, off := 0 }
  d : Deque.Deque := []
  deriving Inhabited

def fmtI (r : Ring) (ret : String) : String :=
  s!"ret={ret} len={r.len} max={r.max} off={r.off}"

/-- an outcome the spec allows: (R section text, content) -/
abbrev Alt := String × List Byte

def fmtAlts (alts : List Alt) : String :=
  " || ".intercalate (alts.map fun (r, c) => s!"{r} ; {toHex c}")

/-- result line: `R <verdict> out=<hex> | C <content> | I <internals> | S <allowed outcomes>` -/
def line (verdict : String) (out : List Byte) (r : Ring) (ret : String) (alts : List Alt) : String :=
  s!"R {verdict} out={toHex out} | C {toHex r.content} | I {fmtI r ret} | S {fmtAlts alts}"

def resName {α} : Res α → String
  | .ok _ => "ok" | .err e => e.name | .null => "null" | .oob => "OOB" | .fault => "FAULT"

def okR (out : List Byte := []) : String := s!"ok out={toHex out}"
def refR : String := "refused out=-"

/-- S: outcomes of `op` on deque `d` with capacity `cap` that the property allows.
    A zero-length request may be refused or accepted (the content is the same either way). -/
def altsGrow (d : Deque.Deque) (cap n : Nat) (new : Deque.Deque) : List Alt :=
  if n = 0 then [(okR, d), (refR, d)]
  else if d.length + n ≤ cap then [(okR, new)] else [(refR, d)]

def altsTake (d : Deque.Deque) (n : Nat) (dst : Bool) (res : Option (Deque.Deque × List Byte)) : List Alt :=
  match res with
  | some (rest, out) =>
    -- without a destination the bytes are only reachable through a pointer into contiguous storage:
    -- refusal is the documented answer when they are not contiguous
    (okR out, rest) :: (if dst ∧ n ≠ 0 then [] else [(refR, d)])
  | none => [(refR, d)]

def altsAt (d : Deque.Deque) (n : Nat) (res : Option Deque.Deque) (out : List Byte := []) : List Alt :=
  match res with
  | some new => (okR out, new) :: (if n = 0 then [(refR, d)] else [])
  | none => (refR, d) :: (if n = 0 then [(okR, d)] else [])

def step (s : St) (w : List String) : St × String :=
  let d := s.d
  let cap := s.r.max
  match w with
  | ["q", "new", mx, off, fill] =>
    match mx.toNat?, off.toNat?, parseHex fill with
    | some m, some o, some f =>
      if o ≤ m ∧ f.length ≤ m then
        let r := Ring.make m o f
        ({ r := r, d := f }, line "ok" [] r "0" [(okR, f)])
      else (s, "bad-op")
    | _, _, _ => (s, "bad-op")
  | ["q", "push", dat] =>
    match parseData dat with
    | some (b, n) =>
      let bytes := (b.getD (List.replicate n 0))
      let alts := altsGrow d cap n (Deque.push d bytes)
      match s.r.qpush n b with
      | .ok (r', ret) => ({ r := r', d := Deque.push d bytes }, line "ok" [] r' (toString ret) alts)
      | x => (s, line "refused" [] s.r (resName x) alts)
    | none => (s, "bad-op")
  | ["q", "unshift", dat] =>
    match parseData dat with
    | some (b, n) =>
      let bytes := (b.getD (List.replicate n 0))
      let alts := altsGrow d cap n (Deque.unshift d bytes)
      match s.r.qunshift n b with
      | .ok (r', ret) => ({ r := r', d := Deque.unshift d bytes }, line "ok" [] r' (toString ret) alts)
      | x => (s, line "refused" [] s.r (resName x) alts)
    | none => (s, "bad-op")
  | "q" :: "pop" :: n :: rest =>
    match n.toNat? with
    | some n =>
      let dst := rest ≠ ["nodst"]
      let sp := Deque.pop d n
      let alts := altsTake d n dst sp
      match s.r.qpop n dst with
      | .ok (r', out) => ({ r := r', d := (sp.map (·.1)).getD d }, line "ok" out r' "ptr" alts)
      | x => (s, line "refused" [] s.r (resName x) alts)
    | none => (s, "bad-op")
  | "q" :: "shift" :: n :: rest =>
    match n.toNat? with
    | some n =>
      let dst := rest ≠ ["nodst"]
      let sp := Deque.shift d n
      let alts := altsTake d n dst sp
      match s.r.qshift n dst with
      | .ok (r', out) => ({ r := r', d := (sp.map (·.1)).getD d }, line "ok" out r' "ptr" alts)
      | x => (s, line "refused" [] s.r (resName x) alts)
    | none => (s, "bad-op")
  | ["q", "crop", p, n] =>
    match p.toNat?, n.toNat? with
    | some p, some n =>
      let sp := Deque.crop d p n
      let alts := altsAt d n sp
      match s.r.crop p n with
      | .ok (r', ret) => ({ r := r', d := sp.getD d }, line "ok" [] r' (toString ret) alts)
      | x => (s, line "refused" [] s.r (resName x) alts)
    | _, _ => (s, "bad-op")
  | "q" :: "get" :: p :: n :: rest =>
    match p.toNat?, n.toNat? with
    | some p, some n =>
      let dst := rest ≠ ["nodst"]
      let sp := Deque.get d p n
      let alts := altsAt d n (sp.map fun _ => d) (if dst then sp.getD [] else [])
      match s.r.get p n dst with
      | .ok (ret, out) => (s, line "ok" out s.r (toString ret) alts)
      | x => (s, line "refused" [] s.r (resName x) alts)
    | _, _ => (s, "bad-op")
  | ["q", "set", p, dat] =>
    match p.toNat?, parseData dat with
    | some p, some (b, n) =>
      let bytes := (b.getD (List.replicate n 0))
      let sp := Deque.set d p bytes
      let alts := altsAt d n sp
      match s.r.set p n b with
      | .ok (r', ret) => ({ r := r', d := sp.getD d }, line "ok" [] r' (toString ret) alts)
      | x => (s, line "refused" [] s.r (resName x) alts)
    | _, _ => (s, "bad-op")
  | ["q", "align", p] =>
    match p.toNat? with
    | some p =>
      match s.r.align p with
      | .ok r' => ({ s with r := r' }, line "ok" [] r' "0" [(okR, d)])
      | x => (s, line "refused" [] s.r (resName x) [(okR, d)])
    | none => (s, "bad-op")
  | ["q", "resize", n] =>
    match n.toNat? with
    | some n =>
      -- shrinking below the content length removes data from the queue start (documented in queue_resize.c)
      let sd := if n < d.length then d.drop (d.length - n) else d
      match s.r.resize n with
      | .ok r' => ({ r := r', d := sd }, line "ok" [] r' "ptr" [(okR, sd)])
      | x => (s, line "refused" [] s.r (resName x) [(okR, sd)])
    | none => (s, "bad-op")
  | ["q", "prepare", n] =>
    match n.toNat? with
    | some n =>
      match s.r.prepare n with
      | .ok (r', left) => ({ s with r := r' }, line "ok" [] r' (toString left) [(okR, d)])
      | x => (s, line "refused" [] s.r (resName x) [(okR, d)])
    | none => (s, "bad-op")
  | ["q", "find", needle] =>
    match parseHex needle with
    | some nd =>
      let sv := match Deque.findAt d nd (d.length + 1) 0 with
        | some i => s!"found@{i * nd.length} out=-" | none => "none out=-"
      -- an element that straddles the storage wrap is refused (ENOTSUP), fewer bytes than one element too
      let alts : List Alt := [(sv, d), (refR, d)]
      match s.r.find nd with
      | .ok (some a) =>
        let lp := if a ≥ s.r.off then a - s.r.off else a + s.r.max - s.r.off
        (s, line s!"found@{lp}" [] s.r (toString a) alts)
      | .ok none => (s, line "none" [] s.r "null" alts)
      | x => (s, line "refused" [] s.r (resName x) alts)
    | none => (s, "bad-op")
  | ["q", "string"] =>
    let alts : List Alt := if d.length < cap then [(okR d, d)] else [(refR, d)]
    match s.r.string with
    | .ok (r', out) => ({ s with r := r' }, line "ok" out r' "ptr" alts)
    | x => (s, line "refused" [] s.r (resName x) alts)
  | ["q", "load", len, dat] =>
    match len.toNat?, parseHex dat with
    | some l, some b =>
      let free := cap - d.length
      let k := Nat.min b.length (if l = 0 ∨ l ≥ free then free else l)
      let alts : List Alt := if free = 0 then [(refR, d)] else [(s!"ok n={k} out=-", d ++ b.take k)]
      match s.r.load l b with
      | .ok (r', n) => ({ r := r', d := d ++ b.take n }, line s!"ok n={n}" [] r' (toString n) alts)
      | x => (s, line "refused" [] s.r (resName x) alts)
    | _, _ => (s, "bad-op")
  | ["q", "save"] =>
    let alts : List Alt := [(s!"ok n={d.length} out={toHex d}", [])]
    match s.r.save with
    | .ok (r', out) => ({ r := r', d := d.drop out.length }, line s!"ok n={out.length}" out r' (toString out.length) alts)
    | x => (s, line "refused" [] s.r (resName x) alts)
  -- C++ pipe<uint16_t> (mpt++/io.h) on top of io::queue: elements are two bytes, little endian on the wire of this driver
  | ["xq", "elements"] =>
    let alts : List Alt := [(okR (d.take (d.length / 2 * 2)), d)]
    match s.r.xpeek 0 with
    | .ok (r', out) => ({ s with r := r' }, line "ok" (out.take (out.length / 2 * 2)) r' (toString (out.length / 2)) alts)
    | x => (s, line "refused" [] s.r (resName x) alts)
  -- C++ io::queue wrappers (mpt++/io_queue.cpp)
  | ["xq", "new", mx, off, fill] =>
    match mx.toNat?, off.toNat?, parseHex fill with
    | some m, some o, some f =>
      if o ≤ m ∧ f.length ≤ m then
        let r := Ring.make m o f
        ({ r := r, d := f }, line "ok" [] r "0" [(okR, f)])
      else (s, "bad-op")
    | _, _, _ => (s, "bad-op")
  | ["xq", "push", dat] =>
    match parseHex dat with
    | some b =>
      -- the wrapper grows the storage: a push is always accepted (an empty one may be refused on a full queue)
      let alts : List Alt := (okR, d ++ b) :: (if b.isEmpty then [(refR, d)] else [])
      match s.r.xpush b with
      | .ok (r', true) => ({ r := r', d := d ++ b }, line "ok" [] r' "true" alts)
      | .ok (r', false) => ({ s with r := r' }, line "refused" [] r' "false" alts)
      | x => (s, line "refused" [] s.r (resName x) alts)
    | none => (s, "bad-op")
  | ["xq", "unshift", dat] =>
    match parseHex dat with
    | some b =>
      let alts : List Alt := (okR, b ++ d) :: (if b.isEmpty then [(refR, d)] else [])
      match s.r.xunshift b with
      | .ok (r', true) => ({ r := r', d := b ++ d }, line "ok" [] r' "true" alts)
      | .ok (r', false) => ({ s with r := r' }, line "refused" [] r' "false" alts)
      | x => (s, line "refused" [] s.r (resName x) alts)
    | none => (s, "bad-op")
  | "xq" :: "pop" :: n :: rest =>
    match n.toNat? with
    | some n =>
      let dst := rest ≠ ["nodst"]
      let sp := Deque.pop d n
      let alts : List Alt := match sp with
        | some (rest, out) => (okR (if dst then out else []), rest) :: (if n = 0 then [(refR, d)] else [])
        | none => [(refR, d)]
      match s.r.xpop n dst with
      | .ok (r', true, out) => ({ r := r', d := (sp.map (·.1)).getD d }, line "ok" out r' "true" alts)
      | .ok (r', false, _) => ({ s with r := r' }, line "refused" [] r' "false" alts)
      | x => (s, line "refused" [] s.r (resName x) alts)
    | none => (s, "bad-op")
  | "xq" :: "shift" :: n :: rest =>
    match n.toNat? with
    | some n =>
      let dst := rest ≠ ["nodst"]
      let sp := Deque.shift d n
      let alts : List Alt := match sp with
        | some (rest, out) => (okR (if dst then out else []), rest) :: (if n = 0 then [(refR, d)] else [])
        | none => [(refR, d)]
      match s.r.xshift n dst with
      | .ok (r', true, out) => ({ r := r', d := (sp.map (·.1)).getD d }, line "ok" out r' "true" alts)
      | .ok (r', false, _) => ({ s with r := r' }, line "refused" [] r' "false" alts)
      | x => (s, line "refused" [] s.r (resName x) alts)
    | none => (s, "bad-op")
  | ["xq", "write", part, dat] =>
    match part.toNat?, parseHex dat with
    | some p, some b =>
      if p = 0 ∨ b.length % p ≠ 0 then (s, "bad-op") else
      let elems := (List.range (b.length / p)).map fun i => (b.drop (i * p)).take p
      -- every element is accepted (the storage grows): the caller is told `len`
      let alts : List Alt := [(s!"ok n={elems.length} out=-", d ++ b)]
      match s.r.xwrite p elems with
      | .ok (r', k) => ({ r := r', d := d ++ b.take (k * p) }, line s!"ok n={k}" [] r' (toString k) alts)
      | x => (s, line "refused" [] s.r (resName x) alts)
    | _, _ => (s, "bad-op")
  | ["xq", "read", len, part] =>
    match len.toNat?, part.toNat? with
    | some l, some p =>
      if p = 0 ∨ l > 4096 ∨ p > 4096 then (s, "bad-op") else
      -- spec: `len` times pop(part), stopping at the first element that is not there
      let k := Nat.min l (d.length / p)
      let outs := (List.range k).map fun i => (d.drop (d.length - (i + 1) * p)).take p
      let alts : List Alt := [(s!"ok n={k} out={toHex outs.flatten}", d.take (d.length - k * p))]
      match s.r.xread p l with
      | .ok (r', got) =>
        ({ r := r', d := d.take (d.length - got.length * p) }, line s!"ok n={got.length}" got.flatten r' (toString got.length) alts)
      | x => (s, line "refused" [] s.r (resName x) alts)
    | _, _ => (s, "bad-op")
  | ["xq", "peek", n] =>
    match n.toNat? with
    | some n =>
      let want := Nat.min (if n = 0 then d.length else n) d.length
      let alts : List Alt := [(okR (d.take want), d)]
      match s.r.xpeek n with
      | .ok (r', out) =>
        if out.length < want then ({ s with r := r' }, line "short" out r' (toString out.length) alts)
        else ({ s with r := r' }, line "ok" (out.take want) r' (toString out.length) alts)
      | x => (s, line "refused" [] s.r (resName x) alts)
    | none => (s, "bad-op")
  | _ => (s, "bad-op")

def main (_args : List String) : IO Unit := do
  Driver.loop (← IO.getStdin) (← IO.getStdout) step ({} : St)

end Driver.Queue
