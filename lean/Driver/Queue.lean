import MptModel.Impl.RingOps
import MptModel.Spec.Deque
import Driver.Util
namespace Driver.Queue
open Mpt Mpt.Ring

/-- state: the implementation model ring and the spec deque, run side by side -/
structure St where
  r : Ring := { store := [], len := 0, off := 0 }
  d : Deque.Deque := []
  deriving Inhabited

def fmtI (r : Ring) (ret : String) : String :=
  s!"ret={ret} len={r.len} max={r.max} off={r.off}"

/-- an outcome the spec allows: (R section text, content) -/
abbrev Alt := String × List Byte

def fmtAlts (alts : List Alt) : String :=
  " || ".intercalate (alts.map fun (r, c) => s!"{r} ; {toHex c}")

/-- result line: `R <verdict> out=<hex> | C <content> | I <internals> | S <allowed outcomes>` -/
def line (verdict : String) (out : List Byte) (r : Ring) (ret : String) (alts : List Alt) : String :=
  s!"R {verdict} out={toHex out} | C {toHex r.content} | I {fmtI r ret} | S {fmtAlts alts}"

def resName {α} : Res α → String
  | .ok _ => "ok" | .err e => e.name | .null => "null" | .oob => "OOB" | .fault => "FAULT"

def okR (out : List Byte := []) : String := s!"ok out={toHex out}"
def refR : String := "refused out=-"

/-- text of an observable outcome: (verdict, returned bytes) -/
def outText : Deque.XOut → String × List Byte
  | .ok b => ("ok", b)
  | .okN n b => (s!"ok n={n}", b)
  | .found p => (s!"found@{p}", [])
  | .notFound => ("none", [])
  | .refused => ("refused", [])
  | .bad => ("BAD", [])

def altText (o : Deque.XOut) : String := let (v, b) := outText o; s!"{v} out={toHex b}"

/-- one `q` op line as a spec/model operation -/
def parseOp (w : List String) : Option Deque.XOp :=
  match w with
  | ["q", "push", dat] => (parseData dat).map fun (b, n) => .push n b
  | ["q", "unshift", dat] => (parseData dat).map fun (b, n) => .unshift n b
  | ["q", "pop", n] => n.toNat?.map fun n => .pop n true
  | ["q", "pop", n, "nodst"] => n.toNat?.map fun n => .pop n false
  | ["q", "shift", n] => n.toNat?.map fun n => .shift n true
  | ["q", "shift", n, "nodst"] => n.toNat?.map fun n => .shift n false
  | ["q", "crop", p, n] => match p.toNat?, n.toNat? with
    | some p, some n => some (.crop p n) | _, _ => none
  | ["q", "get", p, n] => match p.toNat?, n.toNat? with
    | some p, some n => some (.get p n true) | _, _ => none
  | ["q", "get", p, n, "nodst"] => match p.toNat?, n.toNat? with
    | some p, some n => some (.get p n false) | _, _ => none
  | ["q", "set", p, dat] => match p.toNat?, parseData dat with
    | some p, some (b, n) => some (.set p n b) | _, _ => none
  | ["q", "align", p] => p.toNat?.map .align
  | ["q", "resize", n] => n.toNat?.map .resize
  | ["q", "prepare", n] => n.toNat?.map .prepare
  | ["q", "find", needle] => match parseHex needle with
    | some nd => if nd.isEmpty then none else some (.find nd)
    | none => none
  | ["q", "string"] => some .string
  | ["q", "load", len, dat] => match len.toNat?, parseHex dat with
    | some l, some b => some (.load l b) | _, _ => none
  | ["q", "save"] => some (.save Deque.sizeMax)
  | ["q", "save", k] => k.toNat?.map .save
  | ["q", "mget", o, t] => match o.toNat?, t.toNat? with
    | some o, some t => some (.mget o t true) | _, _ => none
  | ["q", "mget", o, t, "novec"] => match o.toNat?, t.toNat? with
    | some o, some t => some (.mget o t false) | _, _ => none
  | _ => none

def step (s : St) (w : List String) : St × String :=
  let d := s.d
  match w with
  | ["q", "new", mx, off, fill] =>
    match mx.toNat?, off.toNat?, parseHex fill with
    | some m, some o, some f =>
      if o ≤ m ∧ f.length ≤ m then
        let r := Ring.make m o f
        ({ r := r, d := f }, line "ok" [] r "0" [(okR, f)])
      else (s, "bad-op")
    | _, _, _ => (s, "bad-op")
  | "q" :: _ =>
    match parseOp w with
    | none => (s, "bad-op")
    | some op =>
      -- S: what the property allows for this op on the spec deque (capacity and the "stored in two pieces"
      -- bit are representation state taken from the model ring); M: `Ring.stepX`, the subject of C13.stepX_sound
      let alts := Deque.allowed s.r.max s.r.frag d op
      let (r', out, ret) := s.r.stepX op
      let (v, b) := outText out
      -- the spec deque follows the alternative the model took (none: keep, the line is an m_ne_s)
      let d' := match alts.find? (fun a => a.1 == out) with
        | some (_, c) => c | none => d
      ({ r := r', d := d' }, line v b r' ret (alts.map fun (o, c) => (altText o, c)))
  -- C++ pipe<uint16_t> (mpt++/io.h) on top of io::queue: elements are two bytes, little endian on the wire of this driver
  | ["xq", "elements"] =>
    let alts : List Alt := [(okR (d.take (d.length / 2 * 2)), d)]
    match s.r.xpeek 0 with
    | .ok (r', out) => ({ s with r := r' }, line "ok" (out.take (out.length / 2 * 2)) r' (toString (out.length / 2)) alts)
    | x => (s, line "refused" [] s.r (resName x) alts)
  -- C++ mpt::encode_queue without encoder (mpt++/queue.cpp): all content is finished data, trim(n) crops it at the front
  | ["xe", "new", mx, off, fill] =>
    match mx.toNat?, off.toNat?, parseHex fill with
    | some m, some o, some f =>
      if o ≤ m ∧ f.length ≤ m then
        let r := Ring.make m o f
        ({ r := r, d := f }, line "ok" [] r "0" [(okR, f)])
      else (s, "bad-op")
    | _, _, _ => (s, "bad-op")
  | ["xe", "trim", n] =>
    match n.toNat? with
    | some n =>
      -- spec: n finished bytes are there -> they are removed from the front; else refused, nothing changed
      let alts : List Alt := if n ≤ d.length then [(okR, d.drop n)] else [(refR, d)]
      if n > s.r.len then (s, line "refused" [] s.r "false" alts)
      else
        match s.r.stepX (.crop 0 n) with
        | (r', .ok _, _) => ({ r := r', d := d.drop n }, line "ok" [] r' "true" alts)
        | (r', _, ret) => ({ s with r := r' }, line "ok" [] r' ret alts)   -- trim ignores the result of the crop
    | none => (s, "bad-op")
  -- C++ io::queue wrappers (mpt++/io_queue.cpp)
  | ["xq", "new", mx, off, fill] =>
    match mx.toNat?, off.toNat?, parseHex fill with
    | some m, some o, some f =>
      if o ≤ m ∧ f.length ≤ m then
        let r := Ring.make m o f
        ({ r := r, d := f }, line "ok" [] r "0" [(okR, f)])
      else (s, "bad-op")
    | _, _, _ => (s, "bad-op")
  | ["xq", "push", dat] =>
    match parseHex dat with
    | some b =>
      -- the wrapper grows the storage: a push is always accepted (an empty one may be refused on a full queue)
      let alts : List Alt := (okR, d ++ b) :: (if b.isEmpty then [(refR, d)] else [])
      match s.r.xpush b with
      | .ok (r', true) => ({ r := r', d := d ++ b }, line "ok" [] r' "true" alts)
      | .ok (r', false) => ({ s with r := r' }, line "refused" [] r' "false" alts)
      | x => (s, line "refused" [] s.r (resName x) alts)
    | none => (s, "bad-op")
  | ["xq", "unshift", dat] =>
    match parseHex dat with
    | some b =>
      let alts : List Alt := (okR, b ++ d) :: (if b.isEmpty then [(refR, d)] else [])
      match s.r.xunshift b with
      | .ok (r', true) => ({ r := r', d := b ++ d }, line "ok" [] r' "true" alts)
      | .ok (r', false) => ({ s with r := r' }, line "refused" [] r' "false" alts)
      | x => (s, line "refused" [] s.r (resName x) alts)
    | none => (s, "bad-op")
  | "xq" :: "pop" :: n :: rest =>
    match n.toNat? with
    | some n =>
      let dst := rest ≠ ["nodst"]
      let sp := Deque.pop d n
      let alts : List Alt := match sp with
        | some (rest, out) => (okR (if dst then out else []), rest) :: (if n = 0 then [(refR, d)] else [])
        | none => [(refR, d)]
      match s.r.xpop n dst with
      | .ok (r', true, out) => ({ r := r', d := (sp.map (·.1)).getD d }, line "ok" out r' "true" alts)
      | .ok (r', false, _) => ({ s with r := r' }, line "refused" [] r' "false" alts)
      | x => (s, line "refused" [] s.r (resName x) alts)
    | none => (s, "bad-op")
  | "xq" :: "shift" :: n :: rest =>
    match n.toNat? with
    | some n =>
      let dst := rest ≠ ["nodst"]
      let sp := Deque.shift d n
      let alts : List Alt := match sp with
        | some (rest, out) => (okR (if dst then out else []), rest) :: (if n = 0 then [(refR, d)] else [])
        | none => [(refR, d)]
      match s.r.xshift n dst with
      | .ok (r', true, out) => ({ r := r', d := (sp.map (·.1)).getD d }, line "ok" out r' "true" alts)
      | .ok (r', false, _) => ({ s with r := r' }, line "refused" [] r' "false" alts)
      | x => (s, line "refused" [] s.r (resName x) alts)
    | none => (s, "bad-op")
  | ["xq", "write", part, dat] =>
    -- `zero:N` = null data pointer: N zero bytes are appended (mpt_qpush zero-fills); the model sees the zeros as data
    match part.toNat?, (parseData dat).map (fun (b, n) => b.getD (List.replicate n 0)) with
    | some p, some b =>
      if p = 0 ∨ b.length % p ≠ 0 then (s, "bad-op") else
      let elems := (List.range (b.length / p)).map fun i => (b.drop (i * p)).take p
      -- every element is accepted (the storage grows): the caller is told `len`
      let alts : List Alt := [(s!"ok n={elems.length} out=-", d ++ b)]
      match s.r.xwrite p elems with
      | .ok (r', k) => ({ r := r', d := d ++ b.take (k * p) }, line s!"ok n={k}" [] r' (toString k) alts)
      | x => (s, line "refused" [] s.r (resName x) alts)
    | _, _ => (s, "bad-op")
  | ["xq", "read", len, part, "nodst"] =>
    match len.toNat?, part.toNat? with
    | some l, some p =>
      if p = 0 ∨ l > 4096 ∨ p > 4096 then (s, "bad-op") else
      -- spec: some number k <= min(len, stored/part) of whole elements is removed from the end (without a target
      -- the loop may stop at an element stored in two pieces)
      let kmax := Nat.min l (d.length / p)
      let alts : List Alt := (List.range (kmax + 1)).map fun k => (s!"ok n={k} out=-", d.take (d.length - k * p))
      match s.r.xreadNull p l with
      | .ok (r', k) => ({ r := r', d := d.take (d.length - k * p) }, line s!"ok n={k}" [] r' (toString k) alts)
      | x => (s, line "refused" [] s.r (resName x) alts)
    | _, _ => (s, "bad-op")
  | ["xq", "read", len, part] =>
    match len.toNat?, part.toNat? with
    | some l, some p =>
      if p = 0 ∨ l > 4096 ∨ p > 4096 then (s, "bad-op") else
      -- spec: `len` times pop(part), stopping at the first element that is not there
      let k := Nat.min l (d.length / p)
      let outs := (List.range k).map fun i => (d.drop (d.length - (i + 1) * p)).take p
      let alts : List Alt := [(s!"ok n={k} out={toHex outs.flatten}", d.take (d.length - k * p))]
      match s.r.xread p l with
      | .ok (r', got) =>
        ({ r := r', d := d.take (d.length - got.length * p) }, line s!"ok n={got.length}" got.flatten r' (toString got.length) alts)
      | x => (s, line "refused" [] s.r (resName x) alts)
    | _, _ => (s, "bad-op")
  | ["xq", "peek", n] =>
    match n.toNat? with
    | some n =>
      let want := Nat.min (if n = 0 then d.length else n) d.length
      let alts : List Alt := [(okR (d.take want), d)]
      match s.r.xpeek n with
      | .ok (r', out) =>
        if out.length < want then ({ s with r := r' }, line "short" out r' (toString out.length) alts)
        else ({ s with r := r' }, line "ok" (out.take want) r' (toString out.length) alts)
      | x => (s, line "refused" [] s.r (resName x) alts)
    | none => (s, "bad-op")
  | _ => (s, "bad-op")

def main (_args : List String) : IO Unit := do
  Driver.loop (← IO.getStdin) (← IO.getStdout) step ({} : St)

end Driver.Queue
