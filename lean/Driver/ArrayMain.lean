import Driver.Array
def main (_args : List String) : IO Unit := Driver.Array.main false
