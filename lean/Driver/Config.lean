import MptModel.Impl.Config
import MptModel.Impl.ConfigItems
import MptModel.Spec.PathMap
import Driver.Util
namespace Driver.Config
open Mpt Mpt.Config

/-- state: model trees (global, private), spec maps, the base paths of the views -/
structure St where
  g : List CNode := []
  p : List CNode := []
  mg : PathMap.PMap := []
  mp : PathMap.PMap := []
  views : List (List (List Byte)) := []
  ng : List PathMap.Key := []   -- spec: the elements that exist (with or without value)
  np : List PathMap.Key := []
  xi : List Item := []          -- C++ part: item array of the private configuration
  mx : PathMap.PMap := []
  ex : List PathMap.Key := []   -- spec, C++ part: every element an accepted assignment ever created
  xlive : Bool := false
  failSize : Nat := 0           -- 'g failsize n': the first allocation of n bytes inside the next assignment fails
  deriving Inhabited

def fmtKey (k : List (List Byte)) : String := "/".intercalate (k.map toHex)

def fmtPairs (ps : List (List (List Byte) × List Byte)) : String :=
  let strs := ps.map fun e => fmtKey e.1 ++ "=" ++ toHex e.2
  ",".intercalate (strs.mergeSort (fun a b => a ≤ b))

/-- every element: `path` or `path=value` -/
def fmtNodes (ns : List (List (List Byte) × Option (List Byte))) : String :=
  let strs := ns.map fun e => match e.2 with
    | some v => fmtKey e.1 ++ "=" ++ toHex v
    | none => fmtKey e.1
  ",".intercalate (strs.mergeSort (fun a b => a ≤ b))

def fmtC (g p : List (List (List Byte) × Option (List Byte))) : String := s!"G[{fmtNodes g}]P[{fmtNodes p}]"

def dumpTree : Nat → List CNode → String
  | 0, _ => "?"
  | f + 1, l => String.join (l.map fun c =>
      toHex c.name ++ (if c.value.isSome then "*" else "") ++
        (if c.kids.isEmpty then "" else "(" ++ dumpTree f c.kids ++ ")") ++ ";")

def dumpItems : Nat → List Item → String
  | 0, _ => "?"
  | f + 1, l => String.join (l.map fun c =>
      (match c.name with | some n => toHex n | none => "~") ++ (if c.value.isSome then "*" else "") ++
        (if c.elems.isEmpty then "" else "(" ++ dumpItems f c.elems ++ ")") ++ ";")

def resName {α} : Res α → String
  | .ok _ => "ok" | .err e => e.name | .null => "null" | .oob => "OOB" | .fault => "FAULT"

def line (s : St) (r ret : String) (alts : List (String × String)) : String :=
  let sAlts := " || ".intercalate (alts.map fun a => a.1 ++ " ; " ++ a.2)
  s!"R {r} | C {fmtC (allNodes s.g) (allNodes s.p)} | I ret={ret} tree={dumpTree 1000 s.g}|{dumpTree 1000 s.p} | S {sAlts}"

def specC (s : St) : String :=
  fmtC (s.ng.map fun k => (k, PathMap.get s.mg k)) (s.np.map fun k => (k, PathMap.get s.mp k))

def xline (s : St) (r ret : String) (alts : List (String × String)) : String :=
  let sAlts := " || ".intercalate (alts.map fun a => a.1 ++ " ; " ++ a.2)
  s!"R {r} | C X[{fmtPairs (ipairs s.xi)}] | I ret={ret} tree={dumpItems 1000 s.xi} | S {sAlts}"

def xspecC (s : St) : String := s!"X[{fmtPairs s.mx}]"

/-- a C string: no zero byte -/
def parseText (w : String) : Option (List Byte) :=
  match parseHex w with
  | some b => if b.contains 0 then none else some b
  | none => none

def parseChar (w : String) : Option Byte :=
  match parseHex w with
  | some [] => some 0
  | some [c] => some c
  | _ => none

inductive TreeSel where
  | glob | priv | view (base : List (List Byte))

def parseTree (s : St) (w : String) : Option TreeSel :=
  if w = "-" then some .glob
  else if w = "r" then some .priv
  else match w.toNat? with
    | some k => (s.views[k]?).map .view
    | none => none

/-- path text to elements through the model of `mpt_path_set`/`mpt_path_next` -/
def pathElems (sep assign : Byte) (text : List Byte) : Res (List (List Byte)) :=
  elems (pathSet sep assign text).1 (text.length + 2)

def fmtElems (es : List (List Byte)) : String :=
  if es.isEmpty then "none" else ",".intercalate (es.map toHex)

/-- the name of an element is allocated separately (length + 1 bytes) when it does not fit the node made for it -/
def nameAlloc (e : List Byte) : Option Nat :=
  let len := e.length + 1
  let size := if len + 40 ≤ 64 ∨ len + 40 > 256 then 64 else if len + 40 ≤ 128 then 128 else 256
  if len > size - 44 then some len else none

/-- an assignment through any of the trees: accepted (text value, every element fits an identifier) or refused;
    a refused assignment changes nothing -/
def doSet (s0 : St) (tr : TreeSel) (pth : List Byte) (sp : Byte) (v : AVal) : St × String :=
  let s := { s0 with failSize := 0 }
  let key := PathMap.splitPath sp 0 pth
  match pathElems sp 0 pth with
  | .ok es =>
    -- injected allocation failure: when the only missing element is the last one and the failing size is that of its
    -- separately allocated name, the assignment is refused and nothing changes
    let full := match tr with | .view b => b ++ es | _ => es
    let tree := match tr with | .priv => s.p | _ => s.g
    let hit : Bool := s0.failSize != 0 && (match v with | .text _ => true | .noText => false) &&
      (match es.getLast? with | some e => nameAlloc e == some s0.failSize | none => false) &&
      (findExact tree full).isNone && (full.length == 1 || (findExact tree full.dropLast).isSome) && full.all elemFits
    if hit then
      (s, match tr with
          | .priv => line s "refused" "node" [("refused", specC s)]
          | _ => line s "refused" "BadOperation" [("refused", specC s)])
    else
    let accept := (match v with | .text _ => true | .noText => false) && PathMap.keyFits key
    let val := match v with | .text t => t | .noText => []
    match tr with
    | .priv =>
      let sp' := if accept then { s with mp := PathMap.set s.mp key val, np := PathMap.addNodes s.np key } else s
      let want := if accept then "ok" else "refused"
      -- the private list is driven on the path cursor (`mpt_node_assign` interleaves `mpt_path_next` with the walk);
      -- `cursor_walk` shows this equals `nodeAssign` on the split elements
      let r : List CNode × Bool := match v with
        | .text t =>
          if !es.all elemFits then (s.p, false)
          else match nodeAssignP s.p (pathSet sp 0 pth).1 t (pth.length + 2) with
            | .ok (some l') => (l', true)
            | _ => (s.p, false)
        | .noText => (nodeAssignE s.p es v)
      let s' := { sp' with p := r.1 }
      (s', line s' (if r.2 then "ok" else "refused") "node" [(want, specC sp')])
    | .glob =>
      let sp' := if accept then { s with mg := PathMap.set s.mg key val, ng := PathMap.addNodes s.ng key } else s
      let want := if accept then "ok" else "refused"
      let r := configAssignE s.g [] es v
      let s' := { sp' with g := r.1 }
      (s', line s' (match r.2 with | .ok _ => "ok" | _ => "refused") (match r.2 with | .ok _ => "0" | x => resName x) [(want, specC sp')])
    | .view b =>
      let accept := accept && PathMap.keyFits b
      let sp' := if accept then { s with mg := PathMap.set s.mg (b ++ key) val, ng := PathMap.addNodes s.ng (b ++ key) } else s
      let want := if accept then "ok" else "refused"
      let r := configAssignE s.g b es v
      let s' := { sp' with g := r.1 }
      (s', line s' (match r.2 with | .ok _ => "ok" | _ => "refused") (match r.2 with | .ok _ => "0" | x => resName x) [(want, specC sp')])
  | x => (s, line s (resName x) "-" [("ok", "*")])

/-- `config::root::assign` of a text value: refused (and nothing changed) when an element does not fit an identifier -/
def xSet (s : St) (pth : List Byte) (sp : Byte) (val : List Byte) : St × String :=
  let key := PathMap.splitPath sp 0 pth
  match pathElems sp 0 pth with
  | .ok es =>
    let accept := PathMap.keyFits key
    let sp' := if accept then { s with mx := PathMap.set s.mx key val, ex := PathMap.addNodes s.ex key } else s
    let r := itemAssignE s.xi es val
    let s' := { sp' with xi := r.1 }
    (s', xline s' (if r.2 then "ok" else "refused") (if r.2 then "0" else "false") [(if accept then "ok" else "refused", xspecC sp')])
  | x => (s, xline s (resName x) "-" [("ok", "*")])

def step (s : St) (w : List String) : St × String :=
  match w with
  | ["g", "begin"] =>
    let s' : St := {}
    (s', line s' "ok" "0" [("ok", specC s')])
  | ["g", "set", tr, pth, sp, val] =>
    match parseTree s tr, parseText pth, parseChar sp, parseText val with
    | some tr, some pth, some sp, some val => doSet s tr pth sp (.text val)
    | _, _, _, _ => (s, "bad-op")
  | ["g", "seti", tr, pth, sp] =>
    -- a value without text form (int32): `mpt_meta_new` has no representation for it
    match parseTree s tr, parseText pth, parseChar sp with
    | some tr, some pth, some sp => doSet s tr pth sp .noText
    | _, _, _ => (s, "bad-op")
  | ["g", "setl", tr, pre, n, suf, sp, val] =>
    -- path text = prefix, n times 'x', suffix (elements around the 65535 byte limit of an identifier)
    match parseTree s tr, parseText pre, n.toNat?, parseText suf, parseChar sp, parseText val with
    | some tr, some pre, some n, some suf, some sp, some val =>
      if n < 65535 ∨ n > 70000 ∨ sp = 120 then (s, "bad-op") else
      doSet s tr (pre ++ List.replicate n 120 ++ suf) sp (.text val)
    | _, _, _, _, _, _ => (s, "bad-op")
  | ["g", "delp", tr, how] =>
    if how ≠ "empty" ∧ how ≠ "null" then (s, "bad-op") else
    match parseTree s tr with
    | some .priv => (s, "bad-op")
    | some tr =>
      let b := match tr with | .view b => b | _ => []
      let arg : Option (List (List Byte)) := if how = "null" then none else some []
      -- spec: nothing there at all, or NULL on the global object: refused; a view whose base does not exist: nothing
      -- happens; otherwise the value of the base (NULL) / everything beneath the base (empty) / everything (global) goes
      let baseThere := b = [] ∨ s.ng.contains b
      let refuse := s.ng.isEmpty ∨ (b = [] ∧ how = "null")
      let sp' : St :=
        if refuse ∨ ¬ baseThere then s
        else if how = "null" then { s with mg := PathMap.unset s.mg b }
        else if b = [] then { s with mg := [], ng := [] }
        else { s with mg := PathMap.removeBelow s.mg b,
                      ng := s.ng.filter (fun k => !(b.isPrefixOf k && k != b)) }
      match configRemoveP s.g b arg with
      | .ok (g', ret) =>
        let s' := { sp' with g := g' }
        (s', line s' "ok" (toString ret) [(if refuse then "refused" else "ok", specC sp')])
      | x => (s, line s "refused" (resName x) [(if refuse then "refused" else "ok", specC sp')])
    | none => (s, "bad-op")
  | ["g", "setp", tr, val] =>
    match parseTree s tr, parseText val with
    | some .priv, _ => (s, "bad-op")
    | some tr, some val =>
      let b := match tr with | .view b => b | _ => []
      let accept := b ≠ [] ∧ PathMap.keyFits b
      let sp' := if accept then { s with mg := PathMap.set s.mg b val, ng := PathMap.addNodes s.ng b } else s
      let r := configAssignE s.g b [] (.text val)
      let s' := { sp' with g := r.1 }
      (s', line s' (match r.2 with | .ok _ => "ok" | _ => "refused") (match r.2 with | .ok _ => "0" | x => resName x)
        [(if accept then "ok" else "refused", specC sp')])
    | _, _ => (s, "bad-op")
  | ["g", "getp", tr] =>
    match parseTree s tr with
    | some .priv => (s, "bad-op")
    | some tr =>
      let b := match tr with | .view b => b | _ => []
      let specR := match (if b = [] then none else PathMap.get s.mg b) with | some v => "val=" ++ toHex v | none => "absent"
      match configQuery s.g b [] with
      | .ok v => (s, line s ("val=" ++ toHex v) "0" [(specR, specC s)])
      | x => (s, line s "absent" (resName x) [(specR, specC s)])
    | none => (s, "bad-op")
  | ["g", "failsize", n] =>
    match n.toNat? with
    | some n => if n < 2 ∨ n > 70000 then (s, "bad-op") else
      let s' := { s with failSize := n }
      (s', line s' "ok" "-" [("ok", specC s')])
    | none => (s, "bad-op")
  | ["g", "has", tr, pth, sp] =>
    match parseTree s tr, parseText pth, parseChar sp with
    | some tr, some pth, some sp =>
      let key := PathMap.splitPath sp 0 pth
      match pathElems sp 0 pth with
      | .ok es =>
        let (found, specHas) := match tr with
          | .priv => ((findExact s.p es).isSome, s.np.contains key)
          | .glob => ((findExact s.g es).isSome, s.ng.contains key)
          | .view b => ((findExact s.g (b ++ es)).isSome, s.ng.contains (b ++ key))
        let w := fun (x : Bool) => if x then "present" else "absent"
        (s, line s (w found) "-" [(w specHas, specC s)])
      | x => (s, line s (resName x) "-" [("*", "*")])
    | _, _, _ => (s, "bad-op")
  | ["g", "del", tr, pth, sp] =>
    match parseTree s tr, parseText pth, parseChar sp with
    | some tr, some pth, some sp =>
      let key := PathMap.splitPath sp 0 pth
      match pathElems sp 0 pth, tr with
      | _, .priv => (s, "bad-op")
      | .ok es, tr =>
        let b := match tr with | .view b => b | _ => []
        let m' := PathMap.removePrefix s.mg (b ++ key)
        let n' := PathMap.removeNodes s.ng (b ++ key)
        let sp' := { s with mg := m', ng := n' }
        -- refusing is an acceptable answer when there is nothing to remove
        let alts := [("ok", specC sp')] ++ (if n'.length = s.ng.length then [("refused", specC s)] else [])
        match configRemove s.g b es with
        | .ok (g', ret) =>
          let s' := { sp' with g := g' }
          (s', line s' "ok" (toString ret) alts)
        | x => (s, line s "refused" (resName x) alts)
      | x, _ => (s, line s (resName x) "-" [("ok", "*")])
    | _, _, _ => (s, "bad-op")
  | ["g", "get", tr, pth, sp] =>
    match parseTree s tr, parseText pth, parseChar sp with
    | some tr, some pth, some sp =>
      let key := PathMap.splitPath sp 0 pth
      match pathElems sp 0 pth with
      | .ok es =>
        let (res, specRes) := match tr with
          | .priv =>
            -- through `mpt_node_query` on the cursor
            ((match nodeGetP s.p (pathSet sp 0 pth).1 (pth.length + 2) with
              | .ok (some v) => Res.ok v
              | .ok none => .err .MissingData
              | .err e => .err e
              | .null => .null | .oob => .oob | .fault => .fault), PathMap.get s.mp key)
          | .glob => (configQuery s.g [] es, PathMap.get s.mg key)
          | .view b => (configQuery s.g b es, PathMap.get s.mg (b ++ key))
        let specR := match specRes with | some v => "val=" ++ toHex v | none => "absent"
        match res with
        | .ok v => (s, line s ("val=" ++ toHex v) "0" [(specR, specC s)])
        | x => (s, line s "absent" (resName x) [(specR, specC s)])
      | x => (s, line s (resName x) "-" [("*", "*")])
    | _, _, _ => (s, "bad-op")
  | ["g", "bset", tr, els, val] =>
    -- binary length mode path: the elements are given one by one (1..255 bytes each)
    match parseTree s tr, (els.splitOn ",").mapM parseText, parseText val with
    | some tr, some es, some val =>
      if es.any (fun e => e.isEmpty || e.length > 255) then (s, "bad-op") else
      match tr with
      | .priv =>
        let sp' := { s with mp := PathMap.set s.mp es val, np := PathMap.addNodes s.np es }
        match nodeAssign s.p es val with
        | some p' =>
          let s' := { sp' with p := p' }
          (s', line s' "ok" "node" [("ok", specC s')])
        | none => (s, line s "refused" "node" [("ok", specC sp')])
      | .glob =>
        let sp' := { s with mg := PathMap.set s.mg es val, ng := PathMap.addNodes s.ng es }
        match configAssign s.g [] es val with
        | .ok g' =>
          let s' := { sp' with g := g' }
          (s', line s' "ok" "0" [("ok", specC s')])
        | x => (s, line s "refused" (resName x) [("ok", specC sp')])
      | .view _ => (s, "bad-op")
    | _, _, _ => (s, "bad-op")
  | ["g", "bget", tr, els] =>
    match parseTree s tr, (els.splitOn ",").mapM parseText with
    | some tr, some es =>
      if es.any (fun e => e.isEmpty || e.length > 255) then (s, "bad-op") else
      let r : Option (Res (List Byte) × Option (List Byte)) := match tr with
        | .priv => some (configQuery s.p [] es, PathMap.get s.mp es)
        | .glob => some (configQuery s.g [] es, PathMap.get s.mg es)
        | .view _ => none
      match r with
      | none => (s, "bad-op")
      | some (res, specRes) =>
        let specR := match specRes with | some v => "val=" ++ toHex v | none => "absent"
        match res with
        | .ok v => (s, line s ("val=" ++ toHex v) "0" [(specR, specC s)])
        | x => (s, line s "absent" (resName x) [(specR, specC s)])
    | _, _ => (s, "bad-op")
  | "g" :: "view" :: pth :: sp :: rest =>
    if rest.length > 1 then (s, "bad-op") else
    match parseText pth, parseChar sp with
    | some pth, some sp =>
      if s.views.length ≥ 16 then (s, "bad-op") else
      let how := rest.head?
      let skip : Option Nat := match how with | none => some 0 | some "last" => some 0 | some w => w.toNat?
      match skip with
      | none => (s, "bad-op")
      | some skip =>
        if skip > 8 then (s, "bad-op") else
        -- the path the view is made from: advanced by `skip` elements, or reduced to its last element
        let p0 := (pathSet sp 0 pth).1
        let p1 : Res Path := (nextN p0 skip).bind fun q =>
          if how = some "last" then (pathLast q).bind fun r => .ok r.1 else .ok q
        let comps := PathMap.splitPath sp 0 pth
        let specBase : List (List Byte) := if how = some "last" then (match comps.getLast? with | some e => [e] | none => []) else comps.drop skip
        match p1 with
        | .ok q =>
          if q.len = 0 then (s, line s "unbuilt" "-" [(if specBase.isEmpty then "unbuilt" else "ok", specC s)]) else
          match elems q (pth.length + 2) with
          | .ok es =>
            let s' := { s with views := s.views ++ [es] }
            -- the specification's view base is what the later operations are judged against
            let sspec := { s with views := s.views ++ [specBase] }
            (s', line s' (if es = specBase then "ok" else "ok:base=" ++ fmtElems es) (toString s.views.length) [("ok", specC sspec)])
          | x => (s, line s (resName x) "-" [("ok", "*")])
        | _ => (s, line s "unbuilt" "-" [(if specBase.isEmpty then "unbuilt" else "ok", specC s)])
    | _, _ => (s, "bad-op")
  | ["g", "split", txt, sp, asg] =>
    match parseText txt, parseChar sp, parseChar asg with
    | some txt, some sp, some asg =>
      let specR := "elems=" ++ fmtElems (PathMap.splitPath sp asg txt)
      let cnt := (pathSet sp asg txt).2
      match pathElems sp asg txt with
      | .ok es => (s, line s ("elems=" ++ fmtElems es) (toString cnt) [(specR, specC s)])
      | x => (s, line s (resName x) (toString cnt) [(specR, specC s)])
    | _, _, _ => (s, "bad-op")
  | ["g", "splitn", txt, sp, n] =>
    match parseText txt, parseChar sp, n.toNat? with
    | some txt, some sp, some n =>
      if n > txt.length then (s, "bad-op") else
      -- assign character 0 cannot occur inside the range: the components of the first n characters
      let specR := "elems=" ++ fmtElems (PathMap.splitOn sp (txt.take n))
      let ps := pathSetN sp 0 txt n
      match elems ps.1 (txt.length + 2) with
      | .ok es => (s, line s ("elems=" ++ fmtElems es) (toString ps.2) [(specR, specC s)])
      | x => (s, line s (resName x) (toString ps.2) [(specR, specC s)])
    | _, _, _ => (s, "bad-op")
  | ["g", "last", txt, sp, skip] =>
    match parseText txt, parseChar sp, skip.toNat? with
    | some txt, some sp, some skip =>
      let comps := PathMap.splitPath sp 0 txt
      let specR := if skip < comps.length then
          s!"last={fmtElems [comps.getLast!]} next={fmtElems [comps.getLast!]} rest=0" else "last=none"
      let p0 := (pathSet sp 0 txt).1
      let rec adv (p : Path) : Nat → Path
        | 0 => p
        | k + 1 => if p.len = 0 then p else match pathNext p with | .ok (q, _) => adv q k | _ => p
      let p1 := adv p0 skip
      if p1.len = 0 then (s, line s "last=none" "empty" [(specR, specC s)])
      else match pathLast p1 with
        | .ok (q, n) =>
          let e := (q.base.drop q.off).take n
          let nx := match pathNext q with
            | .ok (q2, n2) => s!"{fmtElems [(q.base.drop (q2.off - n2 - 1)).take n2]} rest={if q2.len = 0 then "0" else "more"}"
            | _ => "none rest=0"
          (s, line s s!"last={fmtElems [e]} next={nx}" s!"{n} off={q.off} len={q.len} first={q.first}" [(specR, specC s)])
        | x => (s, line s "refused" (resName x) [(specR, specC s)])
    | _, _, _ => (s, "bad-op")
  | ["g", "bview", els] =>
    -- a view whose base path is in binary length mode: the base is the element list
    match (els.splitOn ",").mapM parseText with
    | some es =>
      if s.views.length ≥ 16 ∨ es.any (fun e => e.isEmpty || e.length > 255) then (s, "bad-op") else
      let s' := { s with views := s.views ++ [es] }
      (s', line s' "ok" (toString s.views.length) [("ok", specC s')])
    | none => (s, "bad-op")
  | "g" :: "reuse" :: sp :: els :: txt :: rest =>
    -- a built path (separator or binary mode) set anew from a text: what was there before does not matter
    if rest ≠ [] ∧ rest ≠ ["b"] then (s, "bad-op") else
    match parseChar sp, (els.splitOn ",").mapM parseText, parseText txt with
    | some sp, some _, some txt =>
      let specR := "elems=" ++ fmtElems (PathMap.splitPath sp 0 txt)
      match pathElems sp 0 txt with
      | .ok es => (s, line s ("elems=" ++ fmtElems es) "-" [(specR, specC s)])
      | x => (s, line s (resName x) "-" [(specR, specC s)])
    | _, _, _ => (s, "bad-op")
  | ["g", "extend", sp, txt, skip, els] =>
    match parseChar sp, parseText txt, skip.toNat?, (els.splitOn ",").mapM parseText with
    | some sp, some txt, some skip, some es =>
      if skip > 8 then (s, "bad-op") else
      let p0 := (pathSet sp 0 txt).1
      let skipped : Option Path := (List.range skip).foldl (fun (acc : Option Path) _ =>
        match acc with
        | none => none
        | some p => if p.len = 0 then none else match pathNext p with | .ok (q, _) => some q | _ => none) (some p0)
      let comps := PathMap.splitPath sp 0 txt
      match skipped with
      | none => (s, line s "unbuilt" "-" [(if skip ≤ comps.length then "?" else "unbuilt", specC s)])
      | some p =>
        let valid := sp ≠ 0 ∧ es.all (fun e => !e.contains sp) ∧ skip ≤ comps.length
        let specR := if valid then
            s!"add={String.join (es.map fun _ => "+")} elems={fmtElems (comps.drop skip ++ es)}"
          else "*"
        let built := es.foldl (fun (acc : Path × String) e =>
          match pushElem acc.1 e with
          | .ok q => (q, acc.2 ++ "+")
          | _ => (e.foldl pushChar acc.1, acc.2 ++ "E")) (p, "")
        let walked := match elems built.1 (built.1.base.length + 2) with | .ok l => fmtElems l | x => resName x
        (s, line s s!"add={built.2} elems={walked}" s!"off={built.1.off} len={built.1.len}" [(specR, specC s)])
    | _, _, _, _ => (s, "bad-op")
  | ["g", "rebuild", mode, sp, els, skip, e2] =>
    if mode ≠ "s" ∧ mode ≠ "b" then (s, "bad-op") else
    match parseChar sp, (els.splitOn ",").mapM parseText, skip.toNat?, parseText e2 with
    | some sp, some es, some skip, some e2 =>
      if skip > 8 then (s, "bad-op") else
      let bin := mode = "b"
      let fits := fun (e : List Byte) => if bin then e.length ≤ 255 else !e.contains sp
      let valid := es.all fits && fits e2
      -- build, `skip` times next on the same path
      let built : Option Path := es.foldl (fun (acc : Option Path) e =>
        match acc with
        | none => none
        | some p => match pushElem p e with | .ok q => some q | _ => none) (some (emptyPath sp 0 bin))
      let skipped : Option Path := (List.range skip).foldl (fun (acc : Option Path) _ =>
        match acc with
        | none => none
        | some p => if p.len = 0 then none else match pathNext p with | .ok (q, _) => some q | _ => none) built
      match skipped with
      | none => (s, line s "unbuilt" "-" [(if valid ∧ skip < es.length then "?" else "*", specC s)])
      | some p =>
        if p.len = 0 then (s, line s "unbuilt" "-" [(if valid ∧ skip < es.length then "?" else "*", specC s)]) else
        let rest := es.drop skip
        let specR := if valid ∧ skip < es.length then
            s!"del={(rest.getLast?.map (·.length)).getD 0} add=+ elems={fmtElems (rest.dropLast ++ [e2])}"
          else "*"
        let (dl, p1) : String × Path := match pathDel p with
          | .ok (q, n) => (toString n, q)
          | .err e => (toString e.code, p)
          | _ => ("FAULT", p)
        let (ad, p2) : String × Path := match pushElem p1 e2 with
          | .ok q => ("+", q)
          | _ => ("E", e2.foldl pushChar p1)
        let walked := match elems p2 (p2.base.length + 2) with | .ok l => fmtElems l | x => resName x
        (s, line s s!"del={dl} add={ad} elems={walked}" s!"off={p2.off} len={p2.len}" [(specR, specC s)])
    | _, _, _, _ => (s, "bad-op")
  | ["g", "build", mode, sp, els] =>
    if mode ≠ "s" ∧ mode ≠ "b" then (s, "bad-op") else
    match parseChar sp, (els.splitOn ",").mapM parseText with
    | some sp, some es =>
      let bin := mode = "b"
      let p0 : Path := emptyPath sp 0 bin
      -- add every element: characters one by one (kept by `valid`), then `add`
      let addElem := fun (acc : Path × String) (e : List Byte) =>
        let p1 := e.foldl pushChar acc.1
        match pathAdd p1 e.length with
        | .ok p2 => (p2, acc.2 ++ "+")
        | _ => (p1, acc.2 ++ "E")
      let built := es.foldl addElem (p0, "")
      let p := built.1
      let walked := match elems p (p.base.length + 2) with | .ok l => fmtElems l | x => resName x
      let rec dels (p : Path) : Nat → List Nat × Path
        | 0 => ([], p)
        | k + 1 => if p.len = 0 then ([], p) else
          match pathDel p with
          | .ok (q, n) => let r := dels q k; (n :: r.1, r.2)
          | _ => ([], p)
      let d := dels p (es.length + 2)
      let delTxt := ",".intercalate (d.1.map toString)
      let valid := (es.all fun e => if bin then e.length ≤ 255 else !e.contains sp)
      let lastOf := fun (p : Path) => if p.len = 0 then "none" else
        match pathLast p with
        | .ok (q, n) => fmtElems [(q.base.drop q.off).take n]
        | _ => "E"
      let p' := if p.len = 0 then none else match pathNext p with | .ok (q, _) => some q | _ => none
      let lastTxt := lastOf p ++ "," ++ (match p' with | some q => lastOf q | none => "none")
      let specLast := (match es.getLast? with | some e => fmtElems [e] | none => "none") ++ "," ++
        (if es.length ≥ 2 then fmtElems [es.getLast!] else "none")
      let specR := if valid then
          s!"added={String.join (es.map fun _ => "+")} elems={fmtElems es} last={specLast} del={",".intercalate (es.reverse.map fun e => toString e.length)}"
        else "*"
      (s, line s s!"added={built.2} elems={walked} last={lastTxt} del={delTxt}" s!"len={d.2.len} first={d.2.first}" [(specR, specC s)])
    | _, _ => (s, "bad-op")
  | ["x", "begin"] =>
    let s' : St := { xlive := true }
    (s', xline s' "ok" "0" [("ok", xspecC s')])
  | ["x", "set", pth, sp, val] =>
    if !s.xlive then (s, "bad-op") else
    match parseText pth, parseChar sp, parseText val with
    | some pth, some sp, some val => xSet s pth sp val
    | _, _, _ => (s, "bad-op")
  | ["x", "setl", pre, n, suf, sp, val] =>
    if !s.xlive then (s, "bad-op") else
    match parseText pre, n.toNat?, parseText suf, parseChar sp, parseText val with
    | some pre, some n, some suf, some sp, some val =>
      if n < 65535 ∨ n > 70000 ∨ sp = 120 then (s, "bad-op") else
      xSet s (pre ++ List.replicate n 120 ++ suf) sp val
    | _, _, _, _, _ => (s, "bad-op")
  | ["x", "has", pth, sp] =>
    if !s.xlive then (s, "bad-op") else
    match parseText pth, parseChar sp with
    | some pth, some sp =>
      let key := PathMap.splitPath sp 0 pth
      match pathElems sp 0 pth with
      | .ok es =>
        -- an element is there while a value is stored at or beneath it, and was never there when no accepted
        -- assignment created it (`remove` empties an element but keeps its name: either answer afterwards)
        let specHas := if s.mx.any (fun e => key.isPrefixOf e.1) then "present"
          else if s.ex.contains key then "*" else "absent"
        (s, xline s (if (itemFind s.xi es).isSome then "present" else "absent") "-" [(specHas, xspecC s)])
      | x => (s, xline s (resName x) "-" [("*", "*")])
    | _, _ => (s, "bad-op")
  | ["x", "del", pth, sp] =>
    if !s.xlive then (s, "bad-op") else
    match parseText pth, parseChar sp with
    | some pth, some sp =>
      let key := PathMap.splitPath sp 0 pth
      match pathElems sp 0 pth with
      | .ok es =>
        let m' := PathMap.removePrefix s.mx key
        let sp' := { s with mx := m' }
        let alts := [("ok", xspecC sp')] ++ (if m'.length = s.mx.length then [("refused", xspecC s)] else [])
        match itemWipe s.xi es with
        | some l' =>
          let s' := { sp' with xi := l' }
          (s', xline s' "ok" "0" alts)
        | none => (s, xline s "refused" "false" alts)
      | x => (s, xline s (resName x) "-" [("ok", "*")])
    | _, _ => (s, "bad-op")
  | ["x", "get", pth, sp] =>
    if !s.xlive then (s, "bad-op") else
    match parseText pth, parseChar sp with
    | some pth, some sp =>
      let key := PathMap.splitPath sp 0 pth
      match pathElems sp 0 pth with
      | .ok es =>
        let specR := match PathMap.get s.mx key with | some v => "val=" ++ toHex v | none => "absent"
        let ex := if (itemFind s.xi es).isSome then "0" else "MissingData"
        match rootQuery s.xi es with
        | .ok v => (s, xline s ("val=" ++ toHex v) s!"0 exists={ex}" [(specR, xspecC s)])
        | x => (s, xline s "absent" s!"{resName x} exists={ex}" [(specR, xspecC s)])
      | x => (s, xline s (resName x) "-" [("*", "*")])
    | _, _ => (s, "bad-op")
  | ["x", "clear"] =>
    if !s.xlive then (s, "bad-op") else
    let s' := { s with xi := [], mx := [], ex := [] }
    (s', xline s' "ok" "0" [("ok", xspecC s')])
  | ["x", "pshare", sp, els, els2] =>
    if !s.xlive then (s, "bad-op") else
    match parseChar sp, (els.splitOn ",").mapM parseText, (els2.splitOn ",").mapM parseText with
    | some sp, some es, some es2 =>
      -- a copy of a path is a value of its own: what happens to the original afterwards does not reach it
      match pushElems (emptyPath sp 0 false) es with
      | .ok p =>
        if p.len = 0 then (s, "bad-op") else
        let valid := sp ≠ 0 ∧ (es ++ es2).all (fun e => !e.contains sp)
        let specR := if valid then
            s!"del={(es.getLast?.map (·.length)).getD 0} add={String.join (es2.map fun _ => "+")} q={fmtElems (es ++ es2)} p={fmtElems es.dropLast}"
          else "*"
        let (dl, p1) : String × Path := match pathDel p with
          | .ok (q, n) => (toString n, q)
          | .err e => (toString e.code, p)
          | _ => ("FAULT", p)
        let built := es2.foldl (fun (acc : Path × String) e =>
          match pushElem acc.1 e with
          | .ok q => (q, acc.2 ++ "+")
          | _ => (e.foldl pushChar acc.1, acc.2 ++ "E")) (p, "")
        let walk := fun (q : Path) => match elems q (q.base.length + 2) with | .ok l => fmtElems l | x => resName x
        (s, xline s s!"del={dl} add={built.2} q={walk built.1} p={walk p1}" "0" [(specR, xspecC s)])
      | _ => (s, "bad-op")
    | _, _, _ => (s, "bad-op")
  | ["x", "padd", sp, els] =>
    if !s.xlive then (s, "bad-op") else
    match parseChar sp, (els.splitOn ",").mapM parseText with
    | some sp, some es =>
      let p0 : Path := { sep := sp, assign := 0 }
      let addElem := fun (acc : Path × String) (e : List Byte) =>
        let p1 := e.foldl pushChar acc.1
        match cxxPathAdd p1 e.length with
        | .ok p2 => (p2, acc.2 ++ "+")
        | _ => (p1, acc.2 ++ "E")
      let built := es.foldl addElem (p0, "")
      let p := built.1
      let walked := match elems p (p.base.length + 2) with | .ok l => fmtElems l | x => resName x
      let rec xdels (p : Path) : Nat → List Nat
        | 0 => []
        | k + 1 => if p.len = 0 then [] else
          match pathDel p with
          | .ok (q, n) => n :: xdels q k
          | _ => []
      let delTxt := ",".intercalate ((xdels p (es.length + 2)).map toString)
      let valid := (es.all fun e => !e.contains sp)
      let specR := if valid then
          s!"added={String.join (es.map fun _ => "+")} elems={fmtElems es} del={",".intercalate (es.reverse.map fun e => toString e.length)}"
        else "*"
      (s, xline s s!"added={built.2} elems={walked} del={delTxt}" "0" [(specR, xspecC s)])
    | _, _ => (s, "bad-op")
  | ["x", "end"] =>
    if !s.xlive then (s, "bad-op") else
    let s' : St := {}
    (s', xline s' "ok" "0" [("ok", xspecC s')])
  | ["g", "end"] =>
    let s' : St := {}
    (s', line s' "ok" "0" [("ok", specC s')])
  | _ => (s, "bad-op")

def main (_args : List String) : IO Unit := do
  Driver.loop (← IO.getStdin) (← IO.getStdout) step ({} : St)

end Driver.Config
