import MptModel.Impl.Layout
import MptModel.Spec.Record
import MptModel.Generated.LayoutTables
import Driver.Util
namespace Driver.Layout
open Mpt Mpt.Layout

/-- one object: kind, M state, S record -/
structure Ob where
  kind : Kind
  m : Obj
  s : Record.Rec

structure St where
  objs : List Ob := []
  tok : Nat := 1
  fail : Nat := 0      -- `y fail n`: the n-th allocation of the next set/sets/copy fails

def bytesToString (s : Str) : String := String.ofList (s.map fun b => Char.ofNat b.toNat)

def fmtFl (f : Fl) : String := if f.m == 0 then "0" else s!"{f.m}p{f.e}"

def hex2s (n : Nat) : String := bytesToString (hex2 n)

def fmtVal : Val → String
  | .str none => "s:null"
  | .str (some s) => "s:" ++ toHex s
  | .int n => s!"i:{n}"
  | .chr c => s!"c:{c}"
  | .flt f => "f:" ++ fmtFl f
  | .col c => "col:" ++ hex2s c.r ++ hex2s c.g ++ hex2s c.b ++ hex2s c.a
  | .pt x y => "pt:" ++ fmtFl x ++ "," ++ fmtFl y

def fmtDump (d : List (Str × Val)) : String :=
  if d.isEmpty then "-" else " ".intercalate (d.map fun (n, v) => bytesToString n ++ "=" ++ fmtVal v)

def fmtRet : Ret → String
  | .ok n => s!"{n}" | .err e => e.name | .unsup => "unsup"

def fmtAlts (alts : List (String × String)) : String :=
  " || ".intercalate (alts.map fun (r, c) => s!"{r} ; {c}")

def line (r c i : String) (alts : List (String × String)) : String :=
  s!"R {r} | C {c} | I ret={i} | S {fmtAlts alts}"

/-- name operand: literal word or `x:<hex>` -/
def parseName (w : String) : Option Str :=
  if w.startsWith "x:" then
    match parseHex (w.drop 2).toString with
    | some b => if b.contains 0 then none else some b
    | none => none
  else some w.toUTF8.toList

def findKind (n : String) : Option Kind := Gen.kinds.find? (·.name == n)

/-- the documentation of a kind (hand-written, `Record.docs`); S never looks at the generated setter chain -/
def docFor (k : Kind) : Record.DocKind := (Record.docOf k.name).getD ⟨k.name, none, none, none, false, []⟩

/-- a number of C type `t` fits that type -/
def intFits (t : Char) (n : Int) : Bool :=
  match t with
  | 'y' => decide (0 ≤ n ∧ n ≤ 255) | 'n' => decide (-32768 ≤ n ∧ n ≤ 32767) | 'u' => decide (0 ≤ n ∧ n ≤ 4294967295)
  | 'c' => decide (0 ≤ n ∧ n ≤ 127) | 'i' => decide (-2147483648 ≤ n ∧ n ≤ 2147483647) | _ => false

/-- S for a typed value `x` of C type `t` given to a property of documented type `ty` with value `old`: the value
    the property reads back as (none: the property cannot hold it) and whether the set has to be accepted (the
    value is of the property's own type and inside its limits) -/
def typedOutcome (ty : Record.PTy) (old : Val) (t : Char) (x : Val) : Option Val × Bool :=
  let num (target : Char) : Option Val × Bool :=
    match x with
    | .int n =>
      if target == 'f' ∨ target == 'd' then (if t == 'i' then some (.flt (Fl.norm n 0)) else none, false)
      else if intFits target n then (some (.int n), t == target) else (none, false)
    | .flt _ => if t == target then (some x, true) else if t == 'd' ∧ target == 'f' then (some x, false) else (none, false)
    | .chr _ => if t == target then (some x, true) else (none, false)
    | _ => (none, false)
  match ty with
  | .scalar target => num target
  | .ranged lo hi =>
    match x with
    | .int n => if (lo : Int) ≤ n ∧ n ≤ hi then (some x, t == 'y') else (none, false)
    | _ => (none, false)
  | .firstChar => if t == 'c' then (some x, true) else (none, false)
  | .countOrLog => num 'y'
  | .alignFlags => num 'y'
  | .clipAxes =>
    match num 'y' with
    | (some (.int n), m) => (some (Record.showClip n.toNat), m)
    | r => r
  | .pointX =>
    match num 'f', old with
    | (some (.flt f), m), .pt _ y => (some (.pt f y), m)
    | _, _ => (none, false)
  | .pointY =>
    match num 'f', old with
    | (some (.flt f), m), .pt x0 _ => (some (.pt x0 f), m)
    | _, _ => (none, false)
  | _ => (none, false)

/-- the observation: every listed property, and the member bits no listed property shows (the style/limit bits of an
    axis: `format` without the log flag) -/
def xdump (k : Kind) (o : Obj) : List (Str × Val) :=
  k.dump o ++
    (match k.logAt with
     | some (_, flags, bit) => [(str ("~" ++ (k.fields.getD flags ⟨"", .u8, .int 0⟩).name), .int (clearBit (o.get flags).toInt bit))]
     | none => [])

def defaultsRec (k : Kind) : Record.Rec := xdump k k.defaults

/-- `<kind>Assign(obj, from)`: the `j`-th `strdup` of the copy fails when the source holds at least `j` strings -/
def copyFails (k : Kind) (src : Obj) (j : Nat) : Bool :=
  decide (j ≤ (k.dups.filter fun f => match src.get f with | .str (some _) => true | _ => false).length)

/-- replace object `i` -/
def St.setObj (s : St) (i : Nat) (o : Ob) : St := { s with objs := s.objs.set i o }

/-- all tokens of an object that name a block -/
def liveToks (o : Obj) : List Nat := o.toks.filter (· ≠ 0)

/-- `set` of object `ki` through a non-empty name; `sOnly`: the source answers the type 's' only (no character vector).
    A pending allocation failure (`s.fail`) hits the one `realloc` of a string property given a non-empty text. -/
def setNamed (s : St) (ki : Nat) (ob : Ob) (name : Str) (src : Src) (sOnly : Bool) (zeroRet : Bool := false) : St × String :=
  let k := ob.kind
  let handler := findSet k.sets name
  let isString : Bool := match handler with | some e => (match e.act with | .string _ => true | _ => false) | none => false
  let nonEmpty : Bool := match src with | .text (some (_ :: _)) => true | _ => false
  -- not modelled: allocation failures inside other handlers, 's'-only sources for other properties
  let notModelled : Bool := handler.isSome && !isString && (s.fail > 0 || sOnly)
  let out : Out :=
    if s.fail = 1 ∧ isString ∧ nonEmpty then ⟨ob.m, .err .BadOperation⟩
    else k.setProp Gen.colors ob.m name src s.tok
  -- S (from the documentation only): a name that is not documented is refused; a documented name gives
  -- the property a value the text denotes (no source / blank: its default); refusal without change is
  -- allowed when the text denotes nothing for the property, the name is not spelled as documented, or an
  -- allocation fails
  let (hits, exact) := (docFor k).setHits name
  let v : Option (Option Str) := match src with | .text t => some t | _ => none
  let okAlts : List Record.Rec :=
    hits.flatMap fun p => Record.setOutcomes Gen.colors ob.s (defaultsRec k) p.listed p.ty v
  -- (a text of blanks only denotes no value: it may be taken as "no value" or be refused)
  let blanks : Bool := match src with | .text (some (c :: r)) => Record.blank (some (c :: r)) | _ => false
  let mayRefuse : Bool := !exact || okAlts.isEmpty || blanks || s.fail > 0
  let alts := (if mayRefuse then [("refused", fmtDump ob.s)] else []) ++ okAlts.map (fun r => ("ok", fmtDump r))
  if notModelled then ({ s with fail := 0 }, line "unsupported" (fmtDump (xdump k ob.m)) "unsup" [("*", "*")]) else
  match out.ret with
  | .unsup => ({ s with fail := 0 }, line "unsupported" (fmtDump (xdump k ob.m)) "unsup" [("*", "*")])
  | ret =>
    let dm := fmtDump (xdump k out.obj)
    let s' := if ret.isOk then (okAlts.find? (fun r => fmtDump r == dm)).getD ob.s else ob.s
    ({ objs := s.objs.set ki { ob with m := out.obj, s := s' }, tok := s.tok + 1, fail := 0 },
     line (if ret.isOk then "ok" else "refused") dm (if zeroRet ∧ ret.isOk then "0" else fmtRet ret) alts)

def step (s : St) (w : List String) : St × String :=
  match w with
  | ["y", "begin"] => ({}, "R ok | C - | I ret=0")
  | ["y", "new", kn] =>
    match findKind kn with
    | some k =>
      if s.objs.length ≥ 8 then (s, "bad-op") else
      let o : Ob := { kind := k, m := k.defaults, s := defaultsRec k }
      let r := s!"ok k={s.objs.length}"
      ({ s with objs := s.objs ++ [o] }, line r (fmtDump (xdump k o.m)) "0" [(r, fmtDump o.s)])
    | none => (s, "bad-op")
  | ["y", "set", ks, nm, val] =>
    match ks.toNat?, parseName nm with
    | some ki, some name =>
      match s.objs[ki]? with
      | none => (s, "bad-op")
      | some ob =>
        let src? : Option Src :=
          if val == "null" then some .null
          else if val == "nullstr" then some (.text none)
          else match parseHex val with
            | some b => if b.contains 0 ∨ val.startsWith "zero:" then none else some (.text (some b))
            | none => none
        match src? with
        | none => (s, "bad-op")
        | some src =>
          let k := ob.kind
          if name.isEmpty then
            -- "assign from sibling" with a source that carries no sibling: reset, or refused without change
            let out := k.setEmptyName ob.m src
            let dm := fmtDump (xdump k out.obj)
            let alts := [("refused", fmtDump ob.s), ("ok", fmtDump (defaultsRec k))]
            ({ (s.setObj ki { ob with m := out.obj, s := if out.ret.isOk then defaultsRec k else ob.s }) with fail := 0 },
             line (if out.ret.isOk then "ok" else "refused") dm (fmtRet out.ret) alts)
          else
          setNamed s ki ob name src false
    | _, _ => (s, "bad-op")
  | ["y", "sets", ks, nm, val] =>
    match ks.toNat?, parseName nm, parseHex val with
    | some ki, some name, some b =>
      match s.objs[ki]? with
      | none => (s, "bad-op")
      | some ob =>
        if name.isEmpty ∨ b.contains 0 ∨ val.startsWith "zero:" then (s, "bad-op") else
        setNamed s ki ob name (.text (some b)) true
    | _, _, _ => (s, "bad-op")
  | ["y", "setp", ks, nm, val] =>
    -- `mpt_object_set_property` with an identifier and a text value: the same as `set`, result code 0
    match ks.toNat?, parseName nm, parseHex val with
    | some ki, some name, some b =>
      match s.objs[ki]? with
      | none => (s, "bad-op")
      | some ob =>
        if name.isEmpty ∨ b.contains 0 ∨ val.startsWith "zero:" then (s, "bad-op") else
        let r := setNamed { s with fail := 0 } ki ob name (.text (some b)) false true
        ({ r.1 with fail := s.fail }, r.2)
    | _, _, _ => (s, "bad-op")
  | ["y", "lattr", ks, ws, ss, ys, zs] =>
    match ks.toNat?, ws.toInt?, ss.toInt?, ys.toInt?, zs.toInt? with
    | some ki, some w, some st, some sy, some sz =>
      match s.objs[ki]? with
      | none => (s, "bad-op")
      | some ob =>
        let k := ob.kind
        let vals := [w, st, sy, sz]
        if (k.name != "line" ∧ k.name != "world") ∨ vals.any (fun x => x < -1 ∨ x > 300) then (s, "bad-op") else
        let names := ["width", "style", "symbol", "size"].map str
        -- M: the members and limits of the generated handlers; a value above its limit refuses the whole call
        let hs := names.map fun n => match findSet k.sets n with | some e => (match e.act with | .lattr f dflt _ hi _ => some (f, dflt, hi) | _ => none) | none => none
        if hs.any (·.isNone) then (s, "bad-op") else
        let hv := (hs.filterMap id).zip vals
        let refuse := hv.any fun ((_, _, hi), v) => v > (hi : Int)
        let m' := if refuse then ob.m else hv.foldl (fun o ((f, dflt, _), v) => o.put f (.int (if v < 0 then (dflt : Int) else v))) ob.m
        -- S: each attribute inside its documented limits (a negative value: the default), or refused without change
        let d := docFor k
        let sv := names.zip vals |>.map fun (n, v) =>
          match d.props.find? (·.listed == n) with
          | some p => (match p.ty with
            | .ranged _ hi => if v > (hi : Int) then none
                              else some (n, if v < 0 then (Record.get (defaultsRec k) n).getD (.int 0) else .int v)
            | _ => none)
          | none => none
        let sAlt : List (String × String) :=
          if sv.all (·.isSome) then [("ok", fmtDump ((sv.filterMap id).foldl (fun r (n, v) => Record.set r n v) ob.s))]
          else [("refused", fmtDump ob.s)]
        let dm := fmtDump (xdump k m')
        let s' := if refuse then ob.s else (sv.filterMap id).foldl (fun r (n, v) => Record.set r n v) ob.s
        ({ s with objs := s.objs.set ki { ob with m := m', s := s' } },
         line (if refuse then "refused" else "ok") dm (if refuse then "BadValue" else "0") sAlt)
    | _, _, _, _, _ => (s, "bad-op")
  | ["y", "auto", ks, val] =>
    -- `set` without a name (name == NULL): the value is assigned by its type
    match ks.toNat? with
    | some ki =>
      match s.objs[ki]? with
      | none => (s, "bad-op")
      | some ob =>
        let src? : Option Src :=
          if val == "null" then some .null
          else if val == "nullstr" then some (.text none)
          else match parseHex val with
            | some b => if b.contains 0 ∨ val.startsWith "zero:" then none else some (.text (some b))
            | none => none
        match src? with
        | none => (s, "bad-op")
        | some src =>
          let k := ob.kind
          let out := k.setAuto ob.m src s.tok
          -- S: refused without change; no value: the defaults; a text: the property documented to take a text without a name
          let okAlts : List Record.Rec :=
            match src with
            | .null => []
            | .text none => [defaultsRec k]
            | .text (some []) => [defaultsRec k]
            | .text (some v) => (match (docFor k).autoText with | some p => [Record.set ob.s p (.str (some v))] | none => [])
            | _ => []
          let alts := ("refused", fmtDump ob.s) :: okAlts.map (fun r => ("ok", fmtDump r))
          let dm := fmtDump (xdump k out.obj)
          let s' := if out.ret.isOk then (okAlts.find? (fun r => fmtDump r == dm)).getD ob.s else ob.s
          ({ objs := s.objs.set ki { ob with m := out.obj, s := s' }, tok := s.tok + 1, fail := s.fail },
           line (if out.ret.isOk then "ok" else "refused") dm (fmtRet out.ret) alts)
    | none => (s, "bad-op")
  | ["y", "autonone", ks, what] =>
    -- `set` without a name from a source that has the colour / line attribute type but no value: that part is reset
    match ks.toNat? with
    | some ki =>
      match s.objs[ki]? with
      | none => (s, "bad-op")
      | some ob =>
        if what != "colour" ∧ what != "lattr" then (s, "bad-op") else
        let k := ob.kind
        let d := docFor k
        let out := k.setAutoNone ob.m (what == "colour")
        let dflt := defaultsRec k
        let alts : List (String × String) :=
          if what == "colour" then
            match d.autoColour with
            | some p => [("ok", fmtDump (Record.set ob.s p ((Record.get dflt p).getD (.int 0))))]
            | none => [("refused", fmtDump ob.s)]
          else if d.autoAttr then
            [("ok", fmtDump (["width", "style", "symbol", "size"].foldl (fun r n => Record.set r (str n) ((Record.get dflt (str n)).getD (.int 0))) ob.s))]
          else [("refused", fmtDump ob.s)]
        let dm := fmtDump (xdump k out.obj)
        let s' := if out.ret.isOk then
            (if what == "colour" then (match d.autoColour with | some p => Record.set ob.s p ((Record.get dflt p).getD (.int 0)) | none => ob.s)
             else ["width", "style", "symbol", "size"].foldl (fun r n => Record.set r (str n) ((Record.get dflt (str n)).getD (.int 0))) ob.s)
          else ob.s
        ({ s with objs := s.objs.set ki { ob with m := out.obj, s := s' } },
         line (if out.ret.isOk then "ok" else "refused") dm (fmtRet out.ret) alts)
    | none => (s, "bad-op")
  | ["y", "autocopy", ks, js] =>
    -- `set` without a name from a sibling: the same as the sibling copy
    match ks.toNat?, js.toNat? with
    | some ki, some ji =>
      match s.objs[ki]?, s.objs[ji]? with
      | some ob, some from_ =>
        let k := ob.kind
        if !(k.auto.head? == some .sibling) then (s, "bad-op") else
        let out := k.copy ob.m from_.kind.name from_.m (ki == ji) s.tok
        let alts : List (String × String) :=
          if from_.kind.name == k.name then [("ok owns=1", fmtDump from_.s)] else [("refused", fmtDump ob.s)]
        let dm := fmtDump (xdump k out.obj)
        if out.ret.isOk then
          let shared := ki != ji ∧ (liveToks out.obj).any fun t => (liveToks from_.m).contains t
          ({ objs := s.objs.set ki { ob with m := out.obj, s := from_.s }, tok := s.tok + out.obj.vals.length + 1, fail := s.fail },
           line (if shared then "ok owns=0" else "ok owns=1") dm "ok" alts)
        else (s, line "refused" dm (fmtRet out.ret) alts)
      | _, _ => (s, "bad-op")
    | _, _ => (s, "bad-op")
  | ["y", "setvec", ks, nm, val, ns] =>
    -- a counted character vector: the value is its first n characters, whatever follows them in memory
    match ks.toNat?, parseName nm, parseHex val, ns.toNat? with
    | some ki, some name, some b, some n =>
      match s.objs[ki]? with
      | none => (s, "bad-op")
      | some ob =>
        if name.isEmpty ∨ b.contains 0 ∨ val.startsWith "zero:" ∨ n > b.length then (s, "bad-op") else
        setNamed s ki ob name (.text (some (b.take n))) true
    | _, _, _, _ => (s, "bad-op")
  | ["y", "fail", ns] =>
    match ns.toNat? with
    | some n => if n < 1 ∨ n > 4 then (s, "bad-op") else ({ s with fail := n }, "R ok | C - | I ret=0")
    | none => (s, "bad-op")
  | ["y", "newf", kn, fs] =>
    match findKind kn, fs.toNat? with
    | some k, some fl =>
      match k.logAt with
      | some (_, flags, _) =>
        if kn != "axis" ∨ fl > 31 ∨ s.objs.length ≥ 8 then (s, "bad-op") else
        let m := k.defaults.put flags (.int fl)
        let o : Ob := { kind := k, m := m, s := xdump k m }
        let r := s!"ok k={s.objs.length}"
        ({ s with objs := s.objs ++ [o] }, line r (fmtDump (xdump k o.m)) "0" [(r, fmtDump o.s)])
      | none => (s, "bad-op")
    | _, _ => (s, "bad-op")
  | ["y", "setv", ks, nm, ty, num] =>
    match ks.toNat?, parseName nm with
    | some ki, some name =>
      match s.objs[ki]? with
      | none => (s, "bad-op")
      | some ob =>
        if name.isEmpty ∨ ty.length ≠ 1 then (s, "bad-op") else
        let t := ty.front
        -- the number as the driver stores it in a C object of type t
        let x? : Option Val :=
          if t == 'f' ∨ t == 'd' then
            match convFloat (if t == 'f' then 24 else 53) (if t == 'f' then 128 else 1024) num.toUTF8.toList with
            | .val f u => if u = num.length then some (.flt f) else none
            | _ => none
          else if t == 'y' ∨ t == 'n' ∨ t == 'u' ∨ t == 'i' ∨ t == 'c' then
            match num.toInt? with
            | some n =>
              let inR : Bool := match t with
                | 'y' => decide (0 ≤ n ∧ n ≤ 255) | 'n' => decide (-32768 ≤ n ∧ n ≤ 32767) | 'u' => decide (0 ≤ n ∧ n ≤ 4294967295)
                | 'c' => decide (0 ≤ n ∧ n ≤ 127) | _ => decide (-2147483648 ≤ n ∧ n ≤ 2147483647)
              if inR then some (if t == 'c' then .chr n.toNat else .int n) else none
            | none => none
          else none
        match x? with
        | none => (s, "bad-op")
        | some x =>
          let k := ob.kind
          let out := k.setProp Gen.colors ob.m name (.typed t x) s.tok
          -- S (documentation only): the property reads back as the value given; refusal without change unless
          -- the value has the property's own type and lies inside its limits
          let (hits, exact) := (docFor k).setHits name
          let outs := hits.map fun p => typedOutcome p.ty ((Record.get ob.s p.listed).getD (.int 0)) t x |>.map (·.map (Record.set ob.s p.listed)) id
          let okAlts : List Record.Rec := outs.filterMap (·.1)
          let mayRefuse : Bool := !exact || okAlts.isEmpty || outs.any (fun o => !o.2)
          let alts := (if mayRefuse then [("refused", fmtDump ob.s)] else []) ++ okAlts.map (fun r => ("ok", fmtDump r))
          match out.ret with
          | .unsup => (s, line "unsupported" (fmtDump (xdump k ob.m)) "unsup" [("*", "*")])
          | ret =>
            let dm := fmtDump (xdump k out.obj)
            let s' := if ret.isOk then (okAlts.find? (fun r => fmtDump r == dm)).getD ob.s else ob.s
            ({ objs := s.objs.set ki { ob with m := out.obj, s := s' }, tok := s.tok + 1 },
             line (if ret.isOk then "ok" else "refused") dm (fmtRet ret) alts)
    | _, _ => (s, "bad-op")
  | ["y", "get", ks, nm] =>
    match ks.toNat?, parseName nm with
    | some ki, some name =>
      match s.objs[ki]? with
      | none => (s, "bad-op")
      | some ob =>
        if name.isEmpty then (s, "bad-op") else
        let k := ob.kind
        let dm := fmtDump (xdump k ob.m)
        -- S (documentation only): the value of the one listed property the name stands for; a listed name
        -- as documented is never refused; a name that stands for nothing, or for more than one, is refused
        let d := docFor k
        let coord : List (String × String) := d.props.filterMap fun p =>
          if p.names.contains name then
            match p.ty, Record.get ob.s p.listed with
            | .pointX, some (.pt x _) => some (s!"ok {bytesToString name}={fmtVal (.flt x)}", fmtDump ob.s)
            | .pointY, some (.pt _ y) => some (s!"ok {bytesToString name}={fmtVal (.flt y)}", fmtDump ob.s)
            | _, _ => none
          else none
        let (hits, must) := d.getHits name
        let named : List (String × String) :=
          match hits with
          | [p] => match Record.get ob.s p with
            | some v => [(s!"ok {bytesToString p}={fmtVal v}", fmtDump ob.s)]
            | none => []
          | _ => []
        let sAlts : List (String × String) :=
          if !coord.isEmpty then ("refused", fmtDump ob.s) :: coord
          else (if must ∧ !named.isEmpty then [] else [("refused", fmtDump ob.s)]) ++ named
        match k.getProp ob.m name with
        | some (n, v) => (s, line s!"ok {bytesToString n}={fmtVal v}" dm "ok" sAlts)
        | none => (s, line "refused" dm "err" sAlts)
    | _, _ => (s, "bad-op")
  | ["y", "whole", ks] =>
    match ks.toNat? with
    | some ki =>
      match s.objs[ki]? with
      | none => (s, "bad-op")
      | some ob =>
        let k := ob.kind
        -- `get ""`: the kind's name (the result code, a memcmp with the defaults over padding bytes, is not compared)
        (s, line s!"ok {k.name}" (fmtDump (xdump k ob.m)) "ok" [(s!"ok {k.name}", fmtDump ob.s)])
    | none => (s, "bad-op")
  | ["y", "reset", ks] =>
    match ks.toNat? with
    | some ki =>
      match s.objs[ki]? with
      | none => (s, "bad-op")
      | some ob =>
        let k := ob.kind
        let o' := k.reset ob.m
        let r' := Record.reset (defaultsRec k) ob.s
        ({ s with objs := s.objs.set ki { ob with m := o', s := r' } }, line "ok" (fmtDump (xdump k o')) "0" [("ok", fmtDump r')])
    | none => (s, "bad-op")
  | ["y", "copy", ks, js] =>
    match ks.toNat?, js.toNat? with
    | some ki, some ji =>
      match s.objs[ki]?, s.objs[ji]? with
      | some ob, some from_ =>
        let k := ob.kind
        let out0 := k.copy ob.m from_.kind.name from_.m (ki == ji) s.tok
        -- a failing strdup: the copy is refused and the target keeps its content
        let out : Out :=
          if s.fail > 0 ∧ out0.ret.isOk ∧ ki ≠ ji ∧ copyFails k from_.m s.fail then ⟨ob.m, .err .BadOperation⟩ else out0
        -- S: same kind: equal properties and own strings (a failing allocation: refused without change);
        -- another kind cannot be assigned
        let alts : List (String × String) :=
          if from_.kind.name == k.name then
            [("ok owns=1", fmtDump from_.s)] ++ (if s.fail > 0 then [("refused", fmtDump ob.s)] else [])
          else [("refused", fmtDump ob.s)]
        let dm := fmtDump (xdump k out.obj)
        if out.ret.isOk then
          let shared := ki != ji ∧ (liveToks out.obj).any fun t => (liveToks from_.m).contains t
          ({ objs := s.objs.set ki { ob with m := out.obj, s := from_.s }, tok := s.tok + out.obj.vals.length + 1, fail := 0 },
           line (if shared then "ok owns=0" else "ok owns=1") dm "ok" alts)
        else ({ s with fail := 0 }, line "refused" dm (fmtRet out.ret) alts)
      | _, _ => (s, "bad-op")
    | _, _ => (s, "bad-op")
  | ["y", "dump", ks] =>
    match ks.toNat? with
    | some ki =>
      match s.objs[ki]? with
      | none => (s, "bad-op")
      | some ob => (s, line "ok" (fmtDump (xdump ob.kind ob.m)) "0" [("ok", fmtDump ob.s)])
    | none => (s, "bad-op")
  | ["y", "colour", val] =>
    match parseHex val with
    | some b =>
      if b.contains 0 ∨ val.startsWith "zero:" then (s, "bad-op") else
      let fmtC (c : Color) := "ok " ++ fmtVal (.col c)
      match colorParse Gen.colors b with
      | some (c, n) =>
        -- S: text in the printed form of a colour must be accepted as that colour
        let alts := if colorPrint c == b then [(fmtC c, "-")] else [(fmtC c, "-"), ("refused", "-")]
        (s, line (fmtC c) "-" (toString n) alts)
      | none => (s, line "refused" "-" "err" [("refused", "-")])
    | none => (s, "bad-op")
  | _ => (s, "bad-op")

/-! ### C++ part: `operator<<` of a colour and the parser -/

/-- `R ok text=<hex> back=<colour>`; S: the printed text must be accepted and denote the colour printed -/
def printLine (c : Color) : String :=
  let t := colorPrint c
  let back := match colorParse Gen.colors t with | some (b, _) => fmtVal (.col b) | none => "refused"
  let r := s!"ok text={toHex t} back={back}"
  -- the spec fixes only the round trip: any text, but the colour read back is the colour printed
  s!"R {r} | C - | I ret=0 | S ok text={toHex t} back={fmtVal (.col c)} ; -"

def stepZ (s : St) (w : List String) : St × String :=
  match w with
  | ["z", "begin"] => (s, "R ok | C - | I ret=0")
  | ["z", "print", v] =>
    match parseHex v with
    | some [r, g, b, a] => (s, printLine ⟨r.toNat, g.toNat, b.toNat, a.toNat⟩)
    | _ => (s, "bad-op")
  | ["z", "reprint", v] =>
    match parseHex v with
    | some t =>
      if t.contains 0 ∨ v.startsWith "zero:" then (s, "bad-op") else
      match colorParse Gen.colors t with
      | some (c, _) => (s, printLine c)
      | none => (s, "R refused | C - | I ret=0 | S refused ; -")
    | none => (s, "bad-op")
  | _ => (s, "bad-op")

def stepAll (s : St) (w : List String) : St × String :=
  match w with
  | "z" :: _ => stepZ s w
  | _ => step s w

def main (_args : List String) : IO Unit := do
  Driver.loop (← IO.getStdin) (← IO.getStdout) stepAll ({} : St)

end Driver.Layout
