import MptModel.Impl.Layout
import MptModel.Spec.Record
import MptModel.Generated.LayoutTables
import Driver.Util
namespace Driver.Layout
open Mpt Mpt.Layout

/-- one object: kind, M state, S record -/
structure Ob where
  kind : Kind
  m : Obj
  s : Record.Rec

structure St where
  objs : List Ob := []
  tok : Nat := 1

def bytesToString (s : Str) : String := String.ofList (s.map fun b => Char.ofNat b.toNat)

def fmtFl (f : Fl) : String := if f.m == 0 then "0" else s!"{f.m}p{f.e}"

def hex2s (n : Nat) : String := bytesToString (hex2 n)

def fmtVal : Val → String
  | .str none => "s:null"
  | .str (some s) => "s:" ++ toHex s
  | .int n => s!"i:{n}"
  | .chr c => s!"c:{c}"
  | .flt f => "f:" ++ fmtFl f
  | .col c => "col:" ++ hex2s c.r ++ hex2s c.g ++ hex2s c.b ++ hex2s c.a
  | .pt x y => "pt:" ++ fmtFl x ++ "," ++ fmtFl y

def fmtDump (d : List (Str × Val)) : String :=
  if d.isEmpty then "-" else " ".intercalate (d.map fun (n, v) => bytesToString n ++ "=" ++ fmtVal v)

def fmtRet : Ret → String
  | .ok n => s!"{n}" | .err e => e.name | .unsup => "unsup"

def fmtAlts (alts : List (String × String)) : String :=
  " || ".intercalate (alts.map fun (r, c) => s!"{r} ; {c}")

def line (r c i : String) (alts : List (String × String)) : String :=
  s!"R {r} | C {c} | I ret={i} | S {fmtAlts alts}"

/-- name operand: literal word or `x:<hex>` -/
def parseName (w : String) : Option Str :=
  if w.startsWith "x:" then
    match parseHex (w.drop 2).toString with
    | some b => if b.contains 0 then none else some b
    | none => none
  else some w.toUTF8.toList

def findKind (n : String) : Option Kind := Gen.kinds.find? (·.name == n)

/-- index of the listed property a handler belongs to: the row reading a member the handler writes -/
def canonRow (k : Kind) (a : Act) : Option Nat :=
  (List.range k.gets.length).find? fun i => (k.reads i).any fun f => a.touched.contains f

/-- S-level type of the property a handler sets -/
def ptyOf (k : Kind) (a : Act) (row : Nat) : Record.PTy :=
  match a with
  | .conv ty f =>
    match k.gets[row]? with
    | some g => if g.ty = -2 then (if f = g.field then .pointX else .pointY) else .scalar ty
    | none => .scalar ty
  | .string _ => .string
  | .colour _ _ => .colour
  | .lattr _ _ lo hi _ => .ranged lo hi
  | .axisPos _ => .firstChar
  | .linePos _ => .scalar 'f'
  | .fpoint _ lo hi _ => .point lo hi
  | .intervals _ _ _ _ => .countOrLog
  | .align _ => .alignFlags
  | .clip _ => .clipAxes

def defaultsRec (k : Kind) : Record.Rec := k.dump k.defaults

/-- replace object `i` -/
def St.setObj (s : St) (i : Nat) (o : Ob) : St := { s with objs := s.objs.set i o }

/-- all tokens of an object that name a block -/
def liveToks (o : Obj) : List Nat := o.toks.filter (· ≠ 0)

def step (s : St) (w : List String) : St × String :=
  match w with
  | ["y", "begin"] => ({}, "R ok | C - | I ret=0")
  | ["y", "new", kn] =>
    match findKind kn with
    | some k =>
      if s.objs.length ≥ 8 then (s, "bad-op") else
      let o : Ob := { kind := k, m := k.defaults, s := defaultsRec k }
      let r := s!"ok k={s.objs.length}"
      ({ s with objs := s.objs ++ [o] }, line r (fmtDump (k.dump o.m)) "0" [(r, fmtDump o.s)])
    | none => (s, "bad-op")
  | ["y", "set", ks, nm, val] =>
    match ks.toNat?, parseName nm with
    | some ki, some name =>
      match s.objs[ki]? with
      | none => (s, "bad-op")
      | some ob =>
        let src? : Option Src :=
          if val == "null" then some .null
          else if val == "nullstr" then some (.text none)
          else match parseHex val with
            | some b => if b.contains 0 ∨ val.startsWith "zero:" then none else some (.text (some b))
            | none => none
        match src? with
        | none => (s, "bad-op")
        | some src =>
          let k := ob.kind
          if name.isEmpty then
            -- "assign from sibling" with a source that carries no sibling: reset, or refused without change
            let out := k.setEmptyName ob.m src
            let dm := fmtDump (k.dump out.obj)
            let alts := [("refused", fmtDump ob.s), ("ok", fmtDump (defaultsRec k))]
            ((s.setObj ki { ob with m := out.obj, s := if out.ret.isOk then defaultsRec k else ob.s }),
             line (if out.ret.isOk then "ok" else "refused") dm (fmtRet out.ret) alts)
          else
          let out := k.setProp Gen.colors ob.m name src s.tok
          -- S: refusal without change, or the named property takes the denoted value
          let okAlts : List Record.Rec :=
            match findSet k.sets name with
            | none => []
            | some e =>
              match canonRow k e.act with
              | none => []
              | some row =>
                match k.gets[row]? with
                | none => []
                | some g =>
                  let v : Option (Option Str) := match src with | .text t => some t | _ => none
                  Record.setOutcomes Gen.colors ob.s (defaultsRec k) g.name (ptyOf k e.act row) v
          let alts := ("refused", fmtDump ob.s) :: okAlts.map (fun r => ("ok", fmtDump r))
          match out.ret with
          | .unsup => (s, line "unsupported" (fmtDump (k.dump ob.m)) "unsup" [("*", "*")])
          | ret =>
            let dm := fmtDump (k.dump out.obj)
            let s' := if ret.isOk then (okAlts.find? (fun r => fmtDump r == dm)).getD ob.s else ob.s
            ((s.setObj ki { ob with m := out.obj, s := s' }).1 |> fun objs => { objs := objs, tok := s.tok + 1 },
             line (if ret.isOk then "ok" else "refused") dm (fmtRet ret) alts)
    | _, _ => (s, "bad-op")
  | ["y", "setv", ks, nm, ty, num] =>
    match ks.toNat?, parseName nm with
    | some ki, some name =>
      match s.objs[ki]? with
      | none => (s, "bad-op")
      | some ob =>
        if name.isEmpty ∨ ty.length ≠ 1 then (s, "bad-op") else
        let t := ty.front
        -- the number as the driver stores it in a C object of type t
        let x? : Option Val :=
          if t == 'f' ∨ t == 'd' then
            match convFloat (if t == 'f' then 24 else 53) (if t == 'f' then 128 else 1024) num.toUTF8.toList with
            | .val f u => if u = num.length then some (.flt f) else none
            | _ => none
          else if t == 'y' ∨ t == 'n' ∨ t == 'u' ∨ t == 'i' ∨ t == 'c' then
            match num.toInt? with
            | some n =>
              let inR : Bool := match t with
                | 'y' => decide (0 ≤ n ∧ n ≤ 255) | 'n' => decide (-32768 ≤ n ∧ n ≤ 32767) | 'u' => decide (0 ≤ n ∧ n ≤ 4294967295)
                | 'c' => decide (0 ≤ n ∧ n ≤ 127) | _ => decide (-2147483648 ≤ n ∧ n ≤ 2147483647)
              if inR then some (if t == 'c' then .chr n.toNat else .int n) else none
            | none => none
          else none
        match x? with
        | none => (s, "bad-op")
        | some x =>
          let k := ob.kind
          let out := k.setProp Gen.colors ob.m name (.typed t x) s.tok
          -- S: refused without change, or the property reads back as the value given
          let okAlts : List Record.Rec :=
            match findSet k.sets name with
            | none => []
            | some e =>
              match canonRow k e.act with
              | none => []
              | some row =>
                match k.gets[row]? with
                | none => []
                | some g =>
                  let shown : Val := match e.act, x with
                    | .clip _, .int n => Record.showClip n.toNat
                    | .conv 'f' _, .int n => if t == 'i' then .flt (Fl.norm n 0) else x
                    | .conv 'd' _, .int n => if t == 'i' then .flt (Fl.norm n 0) else x
                    | .linePos _, .int n => if t == 'i' then .flt (Fl.norm n 0) else x
                    | _, _ => x
                  match ptyOf k e.act row, (Record.get ob.s g.name).getD (.int 0), shown with
                  | .pointX, .pt _ y, .flt f => [Record.set ob.s g.name (.pt f y)]
                  | .pointY, .pt x0 _, .flt f => [Record.set ob.s g.name (.pt x0 f)]
                  | _, _, _ => [Record.set ob.s g.name shown]
          let alts := ("refused", fmtDump ob.s) :: okAlts.map (fun r => ("ok", fmtDump r))
          match out.ret with
          | .unsup => (s, line "unsupported" (fmtDump (k.dump ob.m)) "unsup" [("*", "*")])
          | ret =>
            let dm := fmtDump (k.dump out.obj)
            let s' := if ret.isOk then (okAlts.find? (fun r => fmtDump r == dm)).getD ob.s else ob.s
            ({ objs := s.objs.set ki { ob with m := out.obj, s := s' }, tok := s.tok + 1 },
             line (if ret.isOk then "ok" else "refused") dm (fmtRet ret) alts)
    | _, _ => (s, "bad-op")
  | ["y", "get", ks, nm] =>
    match ks.toNat?, parseName nm with
    | some ki, some name =>
      match s.objs[ki]? with
      | none => (s, "bad-op")
      | some ob =>
        if name.isEmpty then (s, "bad-op") else
        let k := ob.kind
        let dm := fmtDump (k.dump ob.m)
        -- S: refusal, or the value of the one listed property the name stands for
        let sAlts : List (String × String) :=
          let single := k.single.filterMap fun g =>
            if g.name == name then
              match Record.get ob.s ((k.gets.find? (fun e => e.ty = -2 ∧ (e.field = g.field ∨ e.field + 1 = g.field))).map (·.name) |>.getD []) with
              | some (.pt x y) =>
                let isX := (k.gets.any fun e => e.ty = -2 ∧ e.field = g.field)
                some (s!"ok {bytesToString g.name}={fmtVal (.flt (if isX then x else y))}", fmtDump ob.s)
              | _ => none
            else none
          let named := match Record.candidates k.matchLen ob.s name with
            | [p] => match Record.get ob.s p with
              | some v => [(s!"ok {bytesToString p}={fmtVal v}", fmtDump ob.s)]
              | none => []
            | _ => []
          ("refused", fmtDump ob.s) :: (single ++ named)
        match k.getProp ob.m name with
        | some (n, v) => (s, line s!"ok {bytesToString n}={fmtVal v}" dm "ok" sAlts)
        | none => (s, line "refused" dm "err" sAlts)
    | _, _ => (s, "bad-op")
  | ["y", "reset", ks] =>
    match ks.toNat? with
    | some ki =>
      match s.objs[ki]? with
      | none => (s, "bad-op")
      | some ob =>
        let k := ob.kind
        let o' := k.reset ob.m
        let r' := Record.reset (defaultsRec k) ob.s
        ({ s with objs := s.objs.set ki { ob with m := o', s := r' } }, line "ok" (fmtDump (k.dump o')) "0" [("ok", fmtDump r')])
    | none => (s, "bad-op")
  | ["y", "copy", ks, js] =>
    match ks.toNat?, js.toNat? with
    | some ki, some ji =>
      match s.objs[ki]?, s.objs[ji]? with
      | some ob, some from_ =>
        let k := ob.kind
        let out := k.copy ob.m from_.kind.name from_.m (ki == ji) s.tok
        -- S: same kind: equal properties and own strings; another kind cannot be assigned
        let alts : List (String × String) :=
          if from_.kind.name == k.name then [("ok owns=1", fmtDump from_.s)] else [("refused", fmtDump ob.s)]
        let dm := fmtDump (k.dump out.obj)
        if out.ret.isOk then
          let shared := ki != ji ∧ (liveToks out.obj).any fun t => (liveToks from_.m).contains t
          ({ objs := s.objs.set ki { ob with m := out.obj, s := from_.s }, tok := s.tok + out.obj.vals.length + 1 },
           line (if shared then "ok owns=0" else "ok owns=1") dm "ok" alts)
        else (s, line "refused" dm (fmtRet out.ret) alts)
      | _, _ => (s, "bad-op")
    | _, _ => (s, "bad-op")
  | ["y", "dump", ks] =>
    match ks.toNat? with
    | some ki =>
      match s.objs[ki]? with
      | none => (s, "bad-op")
      | some ob => (s, line "ok" (fmtDump (ob.kind.dump ob.m)) "0" [("ok", fmtDump ob.s)])
    | none => (s, "bad-op")
  | ["y", "colour", val] =>
    match parseHex val with
    | some b =>
      if b.contains 0 ∨ val.startsWith "zero:" then (s, "bad-op") else
      let fmtC (c : Color) := "ok " ++ fmtVal (.col c)
      match colorParse Gen.colors b with
      | some (c, n) =>
        -- S: text in the printed form of a colour must be accepted as that colour
        let alts := if colorPrint c == b then [(fmtC c, "-")] else [(fmtC c, "-"), ("refused", "-")]
        (s, line (fmtC c) "-" (toString n) alts)
      | none => (s, line "refused" "-" "err" [("refused", "-")])
    | none => (s, "bad-op")
  | _ => (s, "bad-op")

/-! ### C++ part: `operator<<` of a colour and the parser -/

/-- `R ok text=<hex> back=<colour>`; S: the printed text must be accepted and denote the colour printed -/
def printLine (c : Color) : String :=
  let t := colorPrint c
  let back := match colorParse Gen.colors t with | some (b, _) => fmtVal (.col b) | none => "refused"
  let r := s!"ok text={toHex t} back={back}"
  -- the spec fixes only the round trip: any text, but the colour read back is the colour printed
  s!"R {r} | C - | I ret=0 | S ok text={toHex t} back={fmtVal (.col c)} ; -"

def stepZ (s : St) (w : List String) : St × String :=
  match w with
  | ["z", "begin"] => (s, "R ok | C - | I ret=0")
  | ["z", "print", v] =>
    match parseHex v with
    | some [r, g, b, a] => (s, printLine ⟨r.toNat, g.toNat, b.toNat, a.toNat⟩)
    | _ => (s, "bad-op")
  | ["z", "reprint", v] =>
    match parseHex v with
    | some t =>
      if t.contains 0 ∨ v.startsWith "zero:" then (s, "bad-op") else
      match colorParse Gen.colors t with
      | some (c, _) => (s, printLine c)
      | none => (s, "R refused | C - | I ret=0 | S refused ; -")
    | none => (s, "bad-op")
  | _ => (s, "bad-op")

def stepAll (s : St) (w : List String) : St × String :=
  match w with
  | "z" :: _ => stepZ s w
  | _ => step s w

def main (_args : List String) : IO Unit := do
  Driver.loop (← IO.getStdin) (← IO.getStdout) stepAll ({} : St)

end Driver.Layout
