import Driver.Array
-- C05 model driver: the array driver with managed element traits and the event log
namespace Driver.Elem
def main (_args : List String) : IO Unit := Driver.Array.main true
end Driver.Elem
