import MptModel.Impl.ParseConfig
import MptModel.Spec.Render
import MptModel.Spec.EventTree
import Driver.Util
/-!
  Model driver for the area "parse" (C08, C09); op grammar and output format: harness/drv_parse.c.
-/
namespace Driver.Parse
open Mpt Mpt.Parse Mpt.Conf Mpt.Events

/-- one `mpt::config_parser` object (mpt++/parse.cpp) and the stdio stream it holds -/
structure XP where
  sect : Nat
  opt : Nat
  fmt : Format := {}
  kind : Kind := .pre
  opened : Bool := false
  rest : List UInt8 := []      -- unread part of the stream
  lineZero : Bool := false     -- `_d.src.line == 0`: nothing read since open/reset (a new object starts with line 1)
  detached : Bool := false     -- the file was removed while the stream was open: the stream keeps the old content
  curr : Nat := 0              -- `_d.curr` stays in the object between reads (`valid` is reset by mpt_parse_config)

structure State where
  xp : Option XP := none
  xfile : Option (List UInt8) := none
  xtarget : Forest := []
  xexpect : Option Forest := none
  fmt : Option (List UInt8) := none
  sect : Nat := 0xff
  opt : Nat := 0xff
  input : List UInt8 := []
  eof : Int := -2
  root : Forest := []
  expect : Option Forest := none     -- C09: the tree the input was rendered from
  stat : String := "-"               -- observables of the last parse (`p stat`, `x stat`)
  deriving Inhabited

/-! forest text: `.` | tree{,tree};  tree = name['='value]['(' forest ')'] -/
def takeHex : List Char → List Char × List Char
  | [] => ([], [])
  | c :: cs => if (hexVal c).isSome then let r := takeHex cs; (c :: r.1, r.2) else ([], c :: cs)

def hexToken (cs : List Char) : Option (List UInt8 × List Char) :=
  match cs with
  | '-' :: rest => some ([], rest)
  | _ =>
    let r := takeHex cs
    if r.1.isEmpty then none
    else match parseHexAux r.1 with
      | some b => some (b, r.2)
      | none => none

/-- recursive descent with the text length as recursion bound (driver code, not part of the model) -/
def parseForestAux : Nat → List Char → Option (Forest × List Char)
  | 0, _ => none
  | n + 1, cs =>
    match hexToken cs with
    | none => none
    | some (name, r1) =>
      let vr : Option (Option (List UInt8) × List Char) :=
        match r1 with
        | '=' :: r2 => (hexToken r2).map fun (v, r3) => (some v, r3)
        | _ => some (none, r1)
      match vr with
      | none => none
      | some (v, r3) =>
        let kr : Option (Forest × List Char) :=
          match r3 with
          | '(' :: r4 =>
            (match r4 with
             | '.' :: ')' :: r5 => some ([], r5)
             | _ =>
              match parseForestAux n r4 with
              | some (ks, ')' :: r5) => some (ks, r5)
              | _ => none)
          | _ => some ([], r3)
        match kr with
        | none => none
        | some (ks, r5) =>
          let t := Tree.node name v ks
          match r5 with
          | ',' :: r6 => (parseForestAux n r6).map fun (ts, r7) => (t :: ts, r7)
          | _ => some ([t], r5)

def parseForest (s : String) : Option Forest :=
  if s == "." then some []
  else match parseForestAux (s.length + 1) s.toList with
    | some (f, []) => some f
    | _ => none

def fmtPath (p : List Name) : String :=
  if p.isEmpty then "." else "/".intercalate (p.map toHex)

def fmtEvent : Event → String
  | .sect p => "S:" ++ fmtPath p
  | .end_ p => "E:" ++ fmtPath p
  | .opt p none => "O:" ++ fmtPath p
  | .opt p (some v) => "O:" ++ fmtPath p ++ "=" ++ toHex v
  | .data p v => "D:" ++ fmtPath p ++ "=" ++ toHex v

def fmtEvents (es : List Event) : String :=
  if es.isEmpty then "." else ",".intercalate (es.map fmtEvent)

def internals (code : Int) (st : St) (src : Src) (inputLen : Nat) : String :=
  s!"code={code} line={st.line} getc={src.reads} used={inputLen - src.rest.length} curr={st.curr}"

/-- outcomes the property allows for `mpt_parse_config`: success needs well nested events, every
    value handed out must be stored data; a source that reported a read error cannot give success -/
def cfgAlts (eof : Int) (mayRefuse : Bool := false) : String :=
  let errs := if mayRefuse then "err nest=- vals=ok refused=no kept=ok ; * || err nest=- vals=ok refused=yes kept=ok ; *"
    else "err nest=- vals=ok refused=no kept=ok ; *"
  if eof == -2 then "ok nest=ok vals=ok refused=no kept=ok ; * || " ++ errs else errs

/-- `stat` text of a parse through the character source of the driver -/
def statOf (code : Int) (st : St) (src : Src) (inputLen : Nat) : String :=
  s!"code={code} line={st.line} getc={src.reads} used={inputLen - src.rest.length}"

mutual
/-- values of a forest by the representation `mpt_meta_new` gives them: (inline, buffer) -/
def repCountTree : Tree → Nat × Nat
  | .node _ v cs =>
    let c := repCount cs
    match v with
    | none => c
    | some x => (match metaRep x with | .inline _ => (c.1 + 1, c.2) | .buffer _ => (c.1, c.2 + 1))
def repCount : Forest → Nat × Nat
  | [] => (0, 0)
  | t :: ts => let a := repCountTree t; let b := repCount ts; (a.1 + b.1, a.2 + b.2)
end

def cfgOf (s : State) : Format × UInt8 := parseFormat s.fmt

def step (s : State) (w : List String) : State × String :=
  match w with
  | ["p", "fmt", f, a, b] =>
    match a.toNat?, b.toNat? with
    | some a, some b =>
      if a > 0xffff || b > 0xffff then (s, "bad-op") else
      let fs : Option (Option (List UInt8)) :=
        if f == "null" then some none
        else match parseHex f with
          | some bs => if bs.contains 0 then none else some (some bs)
          | none => none
      match fs with
      | none => (s, "bad-op")
      | some fo =>
        let s' := { s with fmt := fo, sect := a, opt := b }
        let (pf, t) := parseFormat fo
        let fcn := if (Kind.ofType t).isSome then "yes" else "no"
        (s', s!"R ok type={t.toNat} fcn={fcn} | I ss={pf.sstart.toNat} se={pf.send.toNat} os={pf.ostart.toNat} as={pf.assign.toNat} oe={pf.oend.toNat} esc={toHex pf.esc} com={toHex pf.com}")
    | _, _ => (s, "bad-op")
  | "p" :: "input" :: h :: rest =>
    let e : Option Int := match rest with
      | [] => some (-2) | ["eof"] => some (-2) | ["err"] => some (-1) | _ => none
    match parseHex h, e with
    | some bs, some e => ({ s with input := bs, eof := e, expect := none }, s!"R ok len={bs.length} end={e}")
    | _, _ => (s, "bad-op")
  | ["p", "render", style, decor, forest, h] =>
    match parseForest forest, Render.Style.ofString style, decor.toNat? with
    | some f, some st, some d =>
      let text := Render.render st (Render.decorOf d) f
      let adm := if Render.admissible st f then "yes" else "no"
      if h == "?" then (s, s!"R render {toHex text} admissible={adm}")
      else match parseHex h with
        | some bs =>
          if text == bs then
            -- the forest is what has to be read back when the name restriction words permit its names
            let ex := if Render.forestFits s.sect s.opt f then some (Render.norm f) else none
            ({ s with input := bs, eof := -2, expect := ex }, s!"R ok len={bs.length}")
          else (s, s!"R render-differs {toHex text}")
        | none => (s, "bad-op")
    | _, _, _ => (s, "bad-op")
  | ["p", "root", f] =>
    match parseForest f with
    | some f => ({ s with root := f }, s!"R ok | C {fmtForest f}")
    | none => (s, "bad-op")
  | ["p", "tree"] => (s, s!"R ok sound=ok | C {fmtForest s.root}")
  | "p" :: "config" :: rest =>
    let fa : Option (Option Nat) := match rest with
      | [] => some none
      | ["keep"] => some none   -- the handler keeps shared references to the path buffers: no influence on the parse
      | [x] => if x.startsWith "fail=" then ((x.drop 5).toString.toNat?).map some else none
      | _ => none
    match fa with
    | none => (s, "bad-op")
    | some failAt =>
      let (pf, t) := cfgOf s
      match Kind.ofType t with
      | none => ({ s with stat := "code=-3 line=1 getc=0 used=0" },
          "R err nest=- vals=ok refused=no kept=ok | C . | I code=-3 line=1 getc=0 used=0 curr=0 | S err nest=- vals=ok refused=no kept=ok ; *")
      | some k =>
        let cfg : Cfg := { fmt := pf, sect := s.sect, opt := s.opt, eof := s.eof }
        let r := parseConfig k cfg (record failAt) [] 0 s.input
        let evs := r.ctx.reverse
        let nest := if r.code < 0 then "-" else if (Events.run [] evs).isSome then "ok" else "bad"
        let verdict := if r.code < 0 then "err" else "ok"
        -- the recording handler refused: the loop returned -0x80 at the call it was told to refuse
        let refused := match failAt with
          | some n => if r.code == -128 && r.ctx.length == n then "yes" else "no"
          | none => "no"
        ({ s with stat := statOf r.code r.st r.src s.input.length },
          s!"R {verdict} nest={nest} vals=ok refused={refused} kept=ok | C {fmtEvents evs} | I {internals r.code r.st r.src s.input.length} | S {cfgAlts s.eof failAt.isSome}")
  | ["p", "node"] =>
    let r := parseNode s.root s.fmt s.sect s.opt s.eof s.input
    let verdict := if r.code < 0 then "err" else "ok"
    -- into an empty target the nodes must carry the names and values of the parsed elements
    let nm := if s.root.isEmpty then "ok" else "-"
    let names := if r.code < 0 then "-" else nm
    let alts := match s.expect with
      | some f => s!"ok sound=ok names={nm} ; {fmtForest f}"
      | none =>
        -- into an empty target: the tree the reported elements describe
        let okTree := if s.root.isEmpty then
            match Kind.ofType (parseFormat s.fmt).2 with
            | some k =>
              let cfg : Cfg := { fmt := (parseFormat s.fmt).1, sect := s.sect, opt := s.opt, eof := s.eof }
              fmtForest (Events.toForest (events k cfg Flag.section_ s.input).2)
            | none => "*"
          else "*"
        if s.eof == -2 then s!"ok sound=ok names={nm} ; {okTree} || err sound=ok names=- ; {fmtForest s.root}"
        else s!"err sound=ok names=- ; {fmtForest s.root}"
    let rc := repCount r.children
    ({ s with root := r.children, expect := none,
              stat := statOf r.code r.st r.src s.input.length ++ s!" inline={rc.1} buffer={rc.2}" },
      s!"R {verdict} sound=ok names={names} | C {fmtForest r.children} | I {internals r.code r.st r.src s.input.length} | S {alts}")
  | ["p", "expect", f] =>
    match parseForest f with
    | some f => ({ s with expect := some f }, "R ok")
    | none => (s, "bad-op")
  | ["p", "nparse", lim, lg] =>
    let lo : Option (Option (List UInt8)) :=
      if lim == "null" then some none
      else match parseHex lim with
        | some bs => if bs.contains 0 then none else some (some bs)
        | none => none
    match lo, (lg == "log" || lg == "nolog") with
    | some limits, true =>
      let r := nodeParse s.root s.fmt limits s.input
      let verdict := if r.code < 0 then "err" else "ok"
      ({ s with root := r.children, stat := s!"code={r.code}" },
        s!"R {verdict} sound=ok | C {fmtForest r.children} | I code={r.code} | S ok sound=ok ; * || err sound=ok ; {fmtForest s.root}")
    | _, _ => (s, "bad-op")
  | ["p", "folder"] =>
    let cfg : Cfg := {}
    let r := parseConfig .pre cfg (record none) [] 0 s.input
    let evs := r.ctx.reverse
    let nest := if r.code < 0 then "-" else if (Events.run [] evs).isSome then "ok" else "bad"
    let verdict := if r.code < 0 then "err" else "ok"
    let code : Int := if r.code < 0 then r.code else 1
    ({ s with stat := s!"code={code}" },
      s!"R {verdict} nest={nest} vals=ok | C {fmtEvents evs} | I code={code} | S ok nest=ok vals=ok ; * || err nest=- vals=ok ; *")
  | ["p", "deep", n, form] =>
    -- nesting of any depth is a valid text (`C09.roundtrip`); without its last `}` the text ends inside a section
    match n.toNat?, form with
    | some (_ + 1), "closed" => ({ s with stat := "-" }, "R ok | S ok ; *")
    | some (_ + 1), "open" => ({ s with stat := "-" }, "R err | S err ; *")
    | _, _ => (s, "bad-op")
  | ["p", "oom", k] =>
    -- the model has no allocation failure: whatever request is refused, the scratch target must stay clean and
    -- nothing may leak
    match k.toNat? with
    | some (_ + 1) => ({ s with stat := "-" }, "R ok clean=yes leak=0 | S ok clean=yes leak=0 ; *")
    | _ => (s, "bad-op")
  | ["p", "stat"] => (s, s!"R ok | C {s.stat}")
  | ["p", "end"] => (({} : State), "R ok leaks=0")
  /- mpt::config_parser -/
  | ["x", "new", a, b] =>
    match a.toNat?, b.toNat? with
    | some a, some b =>
      if a > 0xffff || b > 0xffff then (s, "bad-op")
      else ({ s with xp := some { sect := a, opt := b } }, "R ok")
    | _, _ => (s, "bad-op")
  | ["x", "fmt", f] =>
    match s.xp with
    | none => (s, "bad-op")
    | some xp =>
      let fs : Option (Option (List UInt8)) :=
        if f == "null" then some none
        else match parseHex f with
          | some bs => if bs.contains 0 then none else some (some bs)
          | none => none
      match fs with
      | none => (s, "bad-op")
      | some fo =>
        let (pf, t) := parseFormat fo
        match Kind.ofType t with
        | none => (s, "R refused")
        | some k => ({ s with xp := some { xp with fmt := pf, kind := k } }, "R ok")
  | ["x", "file", h] =>
    match parseHex h with
    | some bs =>
      let xp' := s.xp.map fun xp => if xp.opened && xp.lineZero && !xp.detached then { xp with rest := bs } else xp
      ({ s with xfile := some bs, xexpect := none, xp := xp' }, s!"R ok len={bs.length}")
    | none => (s, "bad-op")
  | ["x", "render", style, decor, forest, h] =>
    match parseForest forest, Render.Style.ofString style, decor.toNat?, parseHex h with
    | some f, some st, some d, some bs =>
      let text := Render.render st (Render.decorOf d) f
      if text == bs then
        let xp' := s.xp.map fun xp => if xp.opened && xp.lineZero then { xp with rest := bs } else xp
        let fits := match s.xp with | some xp => Render.forestFits xp.sect xp.opt f | none => false
        ({ s with xfile := some bs, xexpect := (if fits then some (Render.norm f) else none), xp := xp' }, s!"R ok len={bs.length}")
      else (s, s!"R render-differs {toHex text}")
    | _, _, _, _ => (s, "bad-op")
  | ["x", "open"] =>
    match s.xp with
    | none => (s, "bad-op")
    | some xp =>
      match s.xfile with
      | none => (s, "R refused")
      | some bs => ({ s with xp := some { xp with opened := true, rest := bs, lineZero := true, detached := false } }, "R ok")
  | ["x", "reset"] =>
    match s.xp with
    | none => (s, "bad-op")
    | some xp =>
      if xp.lineZero then (s, "R ok")
      else match xp.opened, s.xfile with
        | true, some bs => ({ s with xp := some { xp with rest := bs, lineZero := true, detached := false } }, "R ok")
        -- the file is gone: the parser keeps the stream it has
        | _, _ => (s, "R refused")
  | ["x", "expect", f] =>
    -- the forest the next read from the start of the file has to deliver (spec side only)
    match parseForest f with
    | some f => ({ s with xexpect := some f }, "R ok")
    | none => (s, "bad-op")
  | ["x", "unlink"] =>
    ({ s with xfile := none, xexpect := none, xp := s.xp.map fun xp => { xp with detached := xp.opened } }, "R ok")
  | ["x", "root", f] =>
    match parseForest f with
    | some f => ({ s with xtarget := f }, s!"R ok | C {fmtForest f}")
    | none => (s, "bad-op")
  | "x" :: "read" :: rest =>
    if rest != [] && rest != ["log"] then (s, "bad-op") else
    match s.xp with
    | none => (s, "bad-op")
    | some xp =>
      -- a successful read REPLACES the children of the target by the tree the reported elements describe
      let okTree := if xp.opened then
          let cfg0 : Cfg := { fmt := xp.fmt, sect := xp.sect, opt := xp.opt, eof := -2 }
          fmtForest (Events.toForest
            (Mpt.Parse.loop xp.kind cfg0 (record none) [] Flag.section_ { curr := xp.curr } { rest := xp.rest }).ctx.reverse)
        else "*"
      let anyAlt := s!"ok sound=ok ; {okTree} || err sound=ok ; {fmtForest s.xtarget}"
      if !xp.opened then
        ({ s with stat := "code=-1" },
          s!"R err sound=ok | C {fmtForest s.xtarget} | I code=-1 curr={xp.curr} | S {anyAlt}")
      else
        let cfg : Cfg := { fmt := xp.fmt, sect := xp.sect, opt := xp.opt, eof := -2 }
        let pr := parserRead xp.kind cfg xp.curr s.xtarget xp.rest
        let r := pr.1
        let tgt := pr.2
        let verdict := if r.code < 0 then "err" else "ok"
        -- the stream stands at the start of a text of the reference writer: exactly that forest
        let alts := match s.xexpect, xp.lineZero with
          | some f, true => s!"ok sound=ok ; {fmtForest f}"
          | _, _ => anyAlt
        let xp' := { xp with rest := r.src.rest, lineZero := false, curr := r.st.curr }
        ({ s with xp := some xp', xtarget := tgt, stat := s!"code={r.code}" },
          s!"R {verdict} sound=ok | C {fmtForest tgt} | I code={r.code} curr={r.st.curr} | S {alts}")
  | ["x", "stat"] => (s, s!"R ok | C {s.stat}")
  | ["x", "end"] => (({} : State), "R ok leaks=0")
  | _ => (s, "bad-op")

def main (_args : List String) : IO Unit := do
  Driver.loop (← IO.getStdin) (← IO.getStdout) step ({} : State)

end Driver.Parse
