import Driver.Event
def main (args : List String) : IO Unit := Driver.Event.main args
